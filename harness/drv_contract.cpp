// Driver for the error contract (C13).  Executes calls chosen by TLC from Contract.tla:
//   call <entry> <argpos> <valueclass>   one argument of the nominal call replaced by a special value
//   str <parser> <bytes...>              a byte string offered to a parser
//   file <format> <fault>                a corrupted data file offered to a loader
// and logs outcome class, exception type, NaN-ness of every output, whether outputs changed.  Built with
// ASan+UBSan; a sanitizer report aborts the process and the check script records the vector being executed.
#include <csignal>
#include <cstdlib>
#include <new>
#include <cstring>
#include <sys/time.h>
#include "trace.hpp"
#include <GeographicLib/Geodesic.hpp>
#include <GeographicLib/GeodesicExact.hpp>
#include <GeographicLib/GeodesicLine.hpp>
#include <GeographicLib/Rhumb.hpp>
#include <GeographicLib/TransverseMercator.hpp>
#include <GeographicLib/TransverseMercatorExact.hpp>
#include <GeographicLib/PolarStereographic.hpp>
#include <GeographicLib/LambertConformalConic.hpp>
#include <GeographicLib/AlbersEqualArea.hpp>
#include <GeographicLib/Geocentric.hpp>
#include <GeographicLib/LocalCartesian.hpp>
#include <GeographicLib/Ellipsoid.hpp>
#include <GeographicLib/AuxLatitude.hpp>
#include <GeographicLib/EllipticFunction.hpp>
#include <GeographicLib/NormalGravity.hpp>
#include <GeographicLib/UTMUPS.hpp>
#include <GeographicLib/MGRS.hpp>
#include <GeographicLib/OSGB.hpp>
#include <GeographicLib/DMS.hpp>
#include <GeographicLib/GeoCoords.hpp>
#include <GeographicLib/Geohash.hpp>
#include <GeographicLib/GARS.hpp>
#include <GeographicLib/Georef.hpp>
#include <GeographicLib/AzimuthalEquidistant.hpp>
#include <GeographicLib/Gnomonic.hpp>
#include <GeographicLib/CassiniSoldner.hpp>
#include <GeographicLib/Intersect.hpp>
#include <GeographicLib/PolygonArea.hpp>
#include <GeographicLib/Geoid.hpp>
#include <GeographicLib/NearestNeighbor.hpp>
#include <GeographicLib/SphericalHarmonic.hpp>
#include <GeographicLib/GravityModel.hpp>
#include <GeographicLib/MagneticModel.hpp>
#include <GeographicLib/MagneticCircle.hpp>
#include <GeographicLib/GravityCircle.hpp>
#include <GeographicLib/Utility.hpp>
#include <GeographicLib/GeodesicLineExact.hpp>
#include <GeographicLib/DAuxLatitude.hpp>
#include <GeographicLib/AuxAngle.hpp>
#include <fstream>
#include <functional>
#include <map>
#include <sstream>
#include <sys/stat.h>

// Replaced global allocation functions: count allocations and fail the k-th one on demand (do_nninit); otherwise malloc / free.
static long long g_alloc_count, g_alloc_fail_at; static bool g_alloc_armed;
void* operator new(std::size_t n) {
  if (g_alloc_armed && ++g_alloc_count == g_alloc_fail_at) throw std::bad_alloc();
  void* p = std::malloc(n ? n : 1); if (!p) throw std::bad_alloc(); return p; }
void* operator new[](std::size_t n) { return operator new(n); }
void operator delete(void* p) noexcept { std::free(p); }
void operator delete[](void* p) noexcept { std::free(p); }
void operator delete(void* p, std::size_t) noexcept { std::free(p); }
void operator delete[](void* p, std::size_t) noexcept { std::free(p); }
using namespace GeographicLib;
using namespace std;
typedef vector<double> V;
static const double A0 = 6378137.0, F0 = 1 / 298.257223563;
static string g_dir;

// outputs are pre-filled with distinct sentinels; o[i] untouched <=> still the sentinel
// Outputs that are not reals (strings, ints, bools) go through the channels S(i), I(i), B(i): they are handed to the library as
// the reference arguments themselves, pre-filled with sentinels by do_call, and logged as they are after the call
// (sv: byte codes of the strings, iv: the ints); a bool has no spare value, so a throwing call that uses B() is executed twice,
// with the bools pre-set to false and to true.
static string g_S[2]; static int g_I[3]; static bool g_B[2]; static bool g_Bused = false;
static const string SSENT = "\x01unset";
static int isent(int i) { return -70001 - i; }
static string& S(int i) { return g_S[i]; }
static int& I(int i) { return g_I[i]; }
static bool& B(int i) { g_Bused = true; return g_B[i]; }
struct Entry { V nominal; int nouts; function<void(const V&, V&)> call; };
static map<string, Entry> E;
#define ENTRY(name, nout, ...) E[name] = Entry{V __VA_ARGS__, nout, [](const V& a, V& o)
#define END }


// ---- fixtures on disk: small valid geoid raster and magnetic / gravity models (written once per process) ----
static void mf_put_i32(string& f, int v); static void mf_put_f64(string& f, double v); static void mf_put_set(string& f, int N, int M, vt::Rng& g, double scale);
static void mf_base(const string& kind, string& m, string& c);
static void fixtures() {
  static bool done = false; if (done) return; done = true;
  { ofstream f((g_dir + "/fx.pgm").c_str(), ios::binary); int w = 36, h = 19;
    f << "P5\n# Description fixture\n# DateTime 2026-10-01 00:00:00\n# Offset -108\n# Scale 0.003\n# MaxBilinearError 0.1\n# RMSBilinearError 0.01\n# MaxCubicError 0.1\n# RMSCubicError 0.01\n"
      << w << " " << h << "\n65535\n";
    for (int j = 0; j < h; ++j) for (int i = 0; i < w; ++i) { unsigned v = unsigned(30000 + 400 * ((i * 7 + j * 13) % 17)); f.put(char(v >> 8)); f.put(char(v & 0xff)); } }
  for (int fx = 0; fx < 3; ++fx) { bool mag = fx != 0; string m, c; mf_base(fx == 0 ? "grv" : fx == 1 ? "mag" : "mag10", m, c); string name = fx == 0 ? "fxg" : fx == 1 ? "fxm" : "fxn", ext = mag ? ".wmm" : ".egm";
    size_t k = m.find(mag ? "Name cm" : "Name cg"); m.replace(k, 7, "Name " + name);
    { ofstream f((g_dir + "/" + name + ext).c_str(), ios::binary); f.write(m.data(), streamsize(m.size())); }
    { ofstream f((g_dir + "/" + name + ext + ".cof").c_str(), ios::binary); f.write(c.data(), streamsize(c.size())); } }
}
static const Geoid& fxgeoid(bool cubic) { fixtures(); static Geoid gl("fx", g_dir, false, true), gc("fx", g_dir, true, true); return cubic ? gc : gl; }
static const MagneticModel& fxmag() { fixtures(); static MagneticModel m("fxm", g_dir); return m; }
static const MagneticModel& fxmag10() { fixtures(); static MagneticModel m("fxn", g_dir); return m; }
static const GravityModel& fxgrv() { fixtures(); static GravityModel m("fxg", g_dir); return m; }

static void registry() {
  // ---- constructors (no outputs: outcome only) ----
  ENTRY("Geodesic.ctor", 0, {A0, F0}) { Geodesic g(a[0], a[1]); (void) g; (void) o; } END;
  ENTRY("GeodesicExact.ctor", 0, {A0, F0}) { GeodesicExact g(a[0], a[1]); (void) g; (void) o; } END;
  ENTRY("Rhumb.ctor", 0, {A0, F0}) { Rhumb g(a[0], a[1]); (void) g; (void) o; } END;
  ENTRY("Ellipsoid.ctor", 0, {A0, F0}) { Ellipsoid g(a[0], a[1]); (void) g; (void) o; } END;
  ENTRY("AuxLatitude.ctor", 0, {A0, F0}) { AuxLatitude g(a[0], a[1]); (void) g; (void) o; } END;
  ENTRY("Geocentric.ctor", 0, {A0, F0}) { Geocentric g(a[0], a[1]); (void) g; (void) o; } END;
  ENTRY("TransverseMercator.ctor", 0, {A0, F0, 0.9996}) { TransverseMercator g(a[0], a[1], a[2]); (void) g; (void) o; } END;
  ENTRY("TransverseMercatorExact.ctor", 0, {A0, F0, 0.9996}) { TransverseMercatorExact g(a[0], a[1], a[2]); (void) g; (void) o; } END;
  ENTRY("PolarStereographic.ctor", 0, {A0, F0, 0.994}) { PolarStereographic g(a[0], a[1], a[2]); (void) g; (void) o; } END;
  ENTRY("LambertConformalConic.ctor1", 0, {A0, F0, 40.0, 1.0}) { LambertConformalConic g(a[0], a[1], a[2], a[3]); (void) g; (void) o; } END;
  ENTRY("LambertConformalConic.ctor2", 0, {A0, F0, 40.0, 50.0, 1.0}) { LambertConformalConic g(a[0], a[1], a[2], a[3], a[4]); (void) g; (void) o; } END;
  ENTRY("AlbersEqualArea.ctor1", 0, {A0, F0, 40.0, 1.0}) { AlbersEqualArea g(a[0], a[1], a[2], a[3]); (void) g; (void) o; } END;
  ENTRY("AlbersEqualArea.ctor2", 0, {A0, F0, 40.0, 50.0, 1.0}) { AlbersEqualArea g(a[0], a[1], a[2], a[3], a[4]); (void) g; (void) o; } END;
  ENTRY("NormalGravity.ctor", 0, {A0, 3.986004418e14, 7.292115e-5, F0}) { NormalGravity g(a[0], a[1], a[2], a[3], true); (void) g; (void) o; } END;
  ENTRY("EllipticFunction.ctor", 0, {0.3, 0.2}) { EllipticFunction g(a[0], a[1]); (void) g; (void) o; } END;
  ENTRY("GeodesicLine.ctor", 0, {40.0, 10.0, 30.0}) { GeodesicLine l(Geodesic::WGS84(), a[0], a[1], a[2]); (void) l; (void) o; } END;   // documented exception: never throws
  // ---- members: NaN in -> NaN out for dependent outputs, no exception ----
  ENTRY("Geodesic.Direct", 7, {40.0, 10.0, 30.0, 1.0e6}) { Geodesic::WGS84().Direct(a[0], a[1], a[2], a[3], o[0], o[1], o[2], o[3], o[4], o[5], o[6]); } END;
  ENTRY("Geodesic.ArcDirect", 8, {40.0, 10.0, 30.0, 9.0}) { Geodesic::WGS84().ArcDirect(a[0], a[1], a[2], a[3], o[0], o[1], o[2], o[3], o[4], o[5], o[6], o[7]); } END;
  ENTRY("Geodesic.Inverse", 7, {40.0, 10.0, -20.0, 100.0}) { Geodesic::WGS84().Inverse(a[0], a[1], a[2], a[3], o[0], o[1], o[2], o[3], o[4], o[5], o[6]); } END;
  ENTRY("GeodesicExact.Direct", 7, {40.0, 10.0, 30.0, 1.0e6}) { GeodesicExact::WGS84().Direct(a[0], a[1], a[2], a[3], o[0], o[1], o[2], o[3], o[4], o[5], o[6]); } END;
  ENTRY("GeodesicExact.Inverse", 7, {40.0, 10.0, -20.0, 100.0}) { GeodesicExact::WGS84().Inverse(a[0], a[1], a[2], a[3], o[0], o[1], o[2], o[3], o[4], o[5], o[6]); } END;
  ENTRY("GeodesicLine.Position", 7, {1.0e6}) { GeodesicLine l = Geodesic::WGS84().Line(40.0, 10.0, 30.0); l.Position(a[0], o[0], o[1], o[2], o[3], o[4], o[5], o[6]); } END;
  ENTRY("Rhumb.Direct", 3, {40.0, 10.0, 30.0, 1.0e6}) { Rhumb::WGS84().Direct(a[0], a[1], a[2], a[3], o[0], o[1], o[2]); } END;
  ENTRY("Rhumb.Inverse", 3, {40.0, 10.0, 20.0, 100.0}) { Rhumb::WGS84().Inverse(a[0], a[1], a[2], a[3], o[0], o[1], o[2]); } END;
  ENTRY("TransverseMercator.Forward", 4, {3.0, 40.0, 5.0}) { TransverseMercator::UTM().Forward(a[0], a[1], a[2], o[0], o[1], o[2], o[3]); } END;
  ENTRY("TransverseMercator.Reverse", 4, {3.0, 1.5e5, 4.4e6}) { TransverseMercator::UTM().Reverse(a[0], a[1], a[2], o[0], o[1], o[2], o[3]); } END;
  ENTRY("TransverseMercatorExact.Forward", 4, {3.0, 40.0, 5.0}) { TransverseMercatorExact::UTM().Forward(a[0], a[1], a[2], o[0], o[1], o[2], o[3]); } END;
  ENTRY("TransverseMercatorExact.Reverse", 4, {3.0, 1.5e5, 4.4e6}) { TransverseMercatorExact::UTM().Reverse(a[0], a[1], a[2], o[0], o[1], o[2], o[3]); } END;
  ENTRY("PolarStereographic.Forward", 4, {85.0, 30.0}) { PolarStereographic::UPS().Forward(true, a[0], a[1], o[0], o[1], o[2], o[3]); } END;
  ENTRY("PolarStereographic.Reverse", 4, {2.0e5, 3.0e5}) { PolarStereographic::UPS().Reverse(true, a[0], a[1], o[0], o[1], o[2], o[3]); } END;
  ENTRY("LambertConformalConic.Forward", 4, {10.0, 40.0, 20.0}) { LambertConformalConic(A0, F0, 40.0, 50.0, 1.0).Forward(a[0], a[1], a[2], o[0], o[1], o[2], o[3]); } END;
  ENTRY("LambertConformalConic.Reverse", 4, {10.0, 2.0e5, 3.0e5}) { LambertConformalConic(A0, F0, 40.0, 50.0, 1.0).Reverse(a[0], a[1], a[2], o[0], o[1], o[2], o[3]); } END;
  ENTRY("AlbersEqualArea.Forward", 4, {10.0, 40.0, 20.0}) { AlbersEqualArea(A0, F0, 40.0, 50.0, 1.0).Forward(a[0], a[1], a[2], o[0], o[1], o[2], o[3]); } END;
  ENTRY("AlbersEqualArea.Reverse", 4, {10.0, 2.0e5, 3.0e5}) { AlbersEqualArea(A0, F0, 40.0, 50.0, 1.0).Reverse(a[0], a[1], a[2], o[0], o[1], o[2], o[3]); } END;
  ENTRY("Geocentric.Forward", 3, {40.0, 10.0, 1000.0}) { Geocentric::WGS84().Forward(a[0], a[1], a[2], o[0], o[1], o[2]); } END;
  ENTRY("Geocentric.Reverse", 3, {4.0e6, 3.0e6, 4.0e6}) { Geocentric::WGS84().Reverse(a[0], a[1], a[2], o[0], o[1], o[2]); } END;
  ENTRY("LocalCartesian.Forward", 3, {48.5, 2.5, 200.0}) { LocalCartesian(48.0, 2.0, 100.0).Forward(a[0], a[1], a[2], o[0], o[1], o[2]); } END;
  ENTRY("LocalCartesian.Reverse", 3, {1000.0, 2000.0, 300.0}) { LocalCartesian(48.0, 2.0, 100.0).Reverse(a[0], a[1], a[2], o[0], o[1], o[2]); } END;
  ENTRY("Ellipsoid.lats", 6, {40.0}) { const Ellipsoid& e = Ellipsoid::WGS84(); o[0] = e.ParametricLatitude(a[0]); o[1] = e.GeocentricLatitude(a[0]); o[2] = e.RectifyingLatitude(a[0]); o[3] = e.AuthalicLatitude(a[0]); o[4] = e.ConformalLatitude(a[0]); o[5] = e.IsometricLatitude(a[0]); } END;
  ENTRY("Ellipsoid.measures", 5, {40.0}) { const Ellipsoid& e = Ellipsoid::WGS84(); o[0] = e.MeridianDistance(a[0]); o[1] = e.CircleRadius(a[0]); o[2] = e.CircleHeight(a[0]); o[3] = e.MeridionalCurvatureRadius(a[0]); o[4] = e.TransverseCurvatureRadius(a[0]); } END;
  ENTRY("AuxLatitude.Convert", 2, {40.0}) { o[0] = AuxLatitude::WGS84().Convert(AuxLatitude::PHI, AuxLatitude::XI, a[0], false); o[1] = AuxLatitude::WGS84().Convert(AuxLatitude::PHI, AuxLatitude::MU, a[0], true); } END;
  ENTRY("EllipticFunction.funcs", 5, {0.7}) { EllipticFunction ef(0.3, 0.2); o[0] = ef.F(a[0]); o[1] = ef.E(a[0]); o[2] = ef.Pi(a[0]); o[3] = ef.Ed(a[0] * 50); o[4] = ef.Einv(a[0]); } END;
  ENTRY("EllipticFunction.sncndn", 3, {0.7}) { EllipticFunction ef(0.3, 0.2); ef.sncndn(a[0], o[0], o[1], o[2]); } END;
  ENTRY("EllipticFunction.Carlson", 4, {1.0, 2.0, 3.0}) { o[0] = EllipticFunction::RF(a[0], a[1], a[2]); o[1] = EllipticFunction::RD(a[0], a[1], a[2]); o[2] = EllipticFunction::RG(a[0], a[1], a[2]); o[3] = EllipticFunction::RJ(a[0], a[1], a[2], 2.5); } END;
  ENTRY("EllipticFunction.Carlson2", 3, {1.0, 2.0}) { o[0] = EllipticFunction::RF(a[0], a[1]); o[1] = EllipticFunction::RG(a[0], a[1]); o[2] = EllipticFunction::RC(a[0], a[1]); } END;
  ENTRY("NormalGravity.Gravity", 3, {40.0, 1000.0}) { o[0] = NormalGravity::WGS84().Gravity(a[0], a[1], o[1], o[2]); } END;
  ENTRY("NormalGravity.U", 4, {7.0e6, 1.0e5, 2.0e6}) { o[0] = NormalGravity::WGS84().U(a[0], a[1], a[2], o[1], o[2], o[3]); } END;
  ENTRY("Math.angles", 6, {33.0}) { o[0] = Math::AngNormalize(a[0]); o[1] = Math::LatFix(a[0]); o[2] = Math::AngRound(a[0]); Math::sincosd(a[0], o[3], o[4]); o[5] = Math::tand(a[0]); } END;
  ENTRY("Math.AngDiff", 2, {33.0, 50.0}) { o[0] = Math::AngDiff(a[0], a[1], o[1]); } END;
  ENTRY("Math.atan2d", 1, {1.0, 2.0}) { o[0] = Math::atan2d(a[0], a[1]); } END;
  ENTRY("Math.taupf", 2, {0.5}) { o[0] = Math::taupf(a[0], 0.08); o[1] = Math::tauf(a[0], 0.08); } END;
  ENTRY("AzimuthalEquidistant.Forward", 4, {40.0, 10.0, 45.0, 12.0}) { AzimuthalEquidistant(Geodesic::WGS84()).Forward(a[0], a[1], a[2], a[3], o[0], o[1], o[2], o[3]); } END;
  ENTRY("AzimuthalEquidistant.Reverse", 4, {40.0, 10.0, 1.0e5, 2.0e5}) { AzimuthalEquidistant(Geodesic::WGS84()).Reverse(a[0], a[1], a[2], a[3], o[0], o[1], o[2], o[3]); } END;
  ENTRY("Gnomonic.Forward", 4, {40.0, 10.0, 45.0, 12.0}) { Gnomonic(Geodesic::WGS84()).Forward(a[0], a[1], a[2], a[3], o[0], o[1], o[2], o[3]); } END;
  ENTRY("Gnomonic.Reverse", 4, {40.0, 10.0, 1.0e5, 2.0e5}) { Gnomonic(Geodesic::WGS84()).Reverse(a[0], a[1], a[2], a[3], o[0], o[1], o[2], o[3]); } END;
  ENTRY("CassiniSoldner.Forward", 4, {45.0, 12.0}) { CassiniSoldner(40.0, 10.0, Geodesic::WGS84()).Forward(a[0], a[1], o[0], o[1], o[2], o[3]); } END;
  ENTRY("CassiniSoldner.Reverse", 4, {1.0e5, 2.0e5}) { CassiniSoldner(40.0, 10.0, Geodesic::WGS84()).Reverse(a[0], a[1], o[0], o[1], o[2], o[3]); } END;
  ENTRY("Intersect.Closest", 2, {0.0, 0.0, 45.0, 1.0, 2.0, 135.0}) { Intersect in(Geodesic::WGS84()); Intersect::Point p = in.Closest(a[0], a[1], a[2], a[3], a[4], a[5]); o[0] = p.first; o[1] = p.second; } END;
  ENTRY("PolygonArea.AddPoint", 2, {10.0, 20.0}) { PolygonArea p(Geodesic::WGS84()); p.AddPoint(0, 0); p.AddPoint(a[0], a[1]); p.AddPoint(0, 30); p.Compute(false, true, o[0], o[1]); } END;

  // ---- second batch: line objects, polygons, intersections, data-file classes, auxiliary functions ----
  ENTRY("GeodesicLine.ArcPosition", 8, {9.0}) { GeodesicLine l = Geodesic::WGS84().Line(40.0, 10.0, 30.0); l.ArcPosition(a[0], o[0], o[1], o[2], o[3], o[4], o[5], o[6], o[7]); } END;
  ENTRY("GeodesicLineExact.Position", 7, {1.0e6}) { GeodesicLineExact l = GeodesicExact::WGS84().Line(40.0, 10.0, 30.0); l.Position(a[0], o[0], o[1], o[2], o[3], o[4], o[5], o[6]); } END;
  ENTRY("Geodesic.InverseLine", 3, {40.0, 10.0, -20.0, 100.0}) { GeodesicLine l = Geodesic::WGS84().InverseLine(a[0], a[1], a[2], a[3]); l.Position(0.5 * l.Distance(), o[0], o[1], o[2]); } END;
  ENTRY("Geodesic.DirectLine", 3, {40.0, 10.0, 30.0, 1.0e6}) { GeodesicLine l = Geodesic::WGS84().DirectLine(a[0], a[1], a[2], a[3]); l.Position(l.Distance(), o[0], o[1], o[2]); } END;
  ENTRY("GeodesicExact.InverseLine", 3, {40.0, 10.0, -20.0, 100.0}) { GeodesicLineExact l = GeodesicExact::WGS84().InverseLine(a[0], a[1], a[2], a[3]); l.Position(0.5 * l.Distance(), o[0], o[1], o[2]); } END;
  ENTRY("RhumbLine.Position", 3, {1.0e6}) { RhumbLine l = Rhumb::WGS84().Line(40.0, 10.0, 30.0); l.Position(a[0], o[0], o[1], o[2]); } END;
  ENTRY("Rhumb.Line", 3, {40.0, 10.0, 30.0}) { RhumbLine l = Rhumb::WGS84().Line(a[0], a[1], a[2]); l.Position(1.0e6, o[0], o[1], o[2]); } END;
  ENTRY("PolygonArea.AddEdge", 2, {60.0, 2.0e6}) { PolygonArea p(Geodesic::WGS84()); p.AddPoint(0, 0); p.AddEdge(a[0], a[1]); p.AddEdge(200.0, 1.5e6); p.Compute(false, true, o[0], o[1]); } END;
  ENTRY("PolygonArea.TestPoint", 2, {10.0, 20.0}) { PolygonArea p(Geodesic::WGS84()); p.AddPoint(0, 0); p.AddPoint(0, 30); p.TestPoint(a[0], a[1], false, true, o[0], o[1]); } END;
  ENTRY("PolygonArea.TestEdge", 2, {300.0, 2.0e6}) { PolygonArea p(Geodesic::WGS84()); p.AddPoint(0, 0); p.AddPoint(0, 30); p.TestEdge(a[0], a[1], false, true, o[0], o[1]); } END;
  ENTRY("PolygonAreaExact.AddPoint", 2, {10.0, 20.0}) { PolygonAreaExact p(GeodesicExact::WGS84()); p.AddPoint(0, 0); p.AddPoint(a[0], a[1]); p.AddPoint(0, 30); p.Compute(false, true, o[0], o[1]); } END;
  ENTRY("PolygonAreaRhumb.AddPoint", 2, {10.0, 20.0}) { PolygonAreaRhumb p(Rhumb::WGS84()); p.AddPoint(0, 0); p.AddPoint(a[0], a[1]); p.AddPoint(0, 30); p.Compute(false, true, o[0], o[1]); } END;
  ENTRY("PolygonAreaRhumb.AddEdge", 2, {60.0, 2.0e6}) { PolygonAreaRhumb p(Rhumb::WGS84()); p.AddPoint(0, 0); p.AddEdge(a[0], a[1]); p.AddEdge(200.0, 1.5e6); p.Compute(false, true, o[0], o[1]); } END;
  ENTRY("Intersect.Next", 2, {10.0, 20.0, 45.0, 135.0}) { Intersect in(Geodesic::WGS84()); Intersect::Point p = in.Next(a[0], a[1], a[2], a[3]); o[0] = p.first; o[1] = p.second; } END;
  ENTRY("Intersect.Segment", 2, {0.0, 0.0, 10.0, 10.0, 0.0, 10.0, 10.0, 0.0}) { Intersect in(Geodesic::WGS84()); int sm; Intersect::Point p = in.Segment(a[0], a[1], a[2], a[3], a[4], a[5], a[6], a[7], sm); o[0] = p.first; o[1] = p.second; } END;
  ENTRY("Intersect.All", 1, {0.0, 0.0, 45.0, 1.0, 2.0, 135.0, 3.0e7}) { Intersect in(Geodesic::WGS84()); vector<Intersect::Point> v = in.All(a[0], a[1], a[2], a[3], a[4], a[5], a[6]); o[0] = double(v.size()); } END;
  ENTRY("Geoid.eval", 2, {40.0, 10.0}) { o[0] = fxgeoid(false)(a[0], a[1]); o[1] = fxgeoid(true)(a[0], a[1]); } END;
  ENTRY("Geoid.ConvertHeight", 1, {40.0, 10.0, 100.0}) { o[0] = fxgeoid(true).ConvertHeight(a[0], a[1], a[2], Geoid::GEOIDTOELLIPSOID); } END;
  ENTRY("Geoid.CacheArea", 1, {10.0, 20.0, 40.0, 80.0}) { Geoid g("fx", g_dir, true, false); g.CacheArea(a[0], a[1], a[2], a[3]); o[0] = g(30.0, 50.0); } END;
  ENTRY("MagneticModel.eval", 6, {2003.5, 10.0, 20.0, 1000.0}) { fxmag()(a[0], a[1], a[2], a[3], o[0], o[1], o[2], o[3], o[4], o[5]); } END;
  ENTRY("MagneticModel.Circle", 3, {2003.5, 10.0, 1000.0}) { MagneticCircle c = fxmag().Circle(a[0], a[1], a[2]); c(20.0, o[0], o[1], o[2]); } END;
  // a model without constant terms (NumModels 1, NumConstants 0: the coefficient sets are exactly the model and its rate)
  ENTRY("MagneticModel.eval10", 6, {2003.5, 10.0, 20.0, 1000.0}) { fxmag10()(a[0], a[1], a[2], a[3], o[0], o[1], o[2], o[3], o[4], o[5]); } END;
  ENTRY("MagneticModel.Circle10", 3, {2003.5, 10.0, 1000.0}) { MagneticCircle c = fxmag10().Circle(a[0], a[1], a[2]); c(20.0, o[0], o[1], o[2]); } END;
  ENTRY("MagneticCircle.eval", 6, {20.0}) { MagneticCircle c = fxmag().Circle(2003.5, 10.0, 1000.0); c(a[0], o[0], o[1], o[2], o[3], o[4], o[5]); } END;
  ENTRY("MagneticModel.FieldComponents", 4, {2000.0, -300.0, -40000.0}) { MagneticModel::FieldComponents(a[0], a[1], a[2], o[0], o[1], o[2], o[3]); } END;
  ENTRY("GravityModel.Gravity", 4, {10.0, 20.0, 1000.0}) { o[0] = fxgrv().Gravity(a[0], a[1], a[2], o[1], o[2], o[3]); } END;
  ENTRY("GravityModel.Disturbance", 4, {10.0, 20.0, 1000.0}) { o[0] = fxgrv().Disturbance(a[0], a[1], a[2], o[1], o[2], o[3]); } END;
  ENTRY("GravityModel.GeoidHeight", 1, {10.0, 20.0}) { o[0] = fxgrv().GeoidHeight(a[0], a[1]); } END;
  ENTRY("GravityModel.SphericalAnomaly", 3, {10.0, 20.0, 1000.0}) { fxgrv().SphericalAnomaly(a[0], a[1], a[2], o[0], o[1], o[2]); } END;
  ENTRY("GravityModel.W", 4, {4.0e6, 3.0e6, 4.0e6}) { o[0] = fxgrv().W(a[0], a[1], a[2], o[1], o[2], o[3]); } END;
  ENTRY("GravityModel.T", 4, {4.0e6, 3.0e6, 4.0e6}) { o[0] = fxgrv().T(a[0], a[1], a[2], o[1], o[2], o[3]); } END;
  ENTRY("GravityModel.Circle", 3, {10.0, 1000.0}) { GravityCircle c = fxgrv().Circle(a[0], a[1], GravityModel::ALL); c.Gravity(20.0, o[0], o[1], o[2]); } END;
  ENTRY("GravityCircle.eval", 5, {20.0}) { GravityCircle c = fxgrv().Circle(10.0, 1000.0, GravityModel::ALL); o[0] = c.Gravity(a[0], o[1], o[2], o[3]); o[4] = c.GeoidHeight(a[0]); } END;
  ENTRY("SphericalHarmonic.eval", 4, {4.0e6, 3.0e6, 4.0e6}) { static const double C[] = {10, 9, 8, 7, 6, 5}, S[] = {4, 3, 2}; static const vector<double> Cv(C, C + 6), Sv(S, S + 3);
    SphericalHarmonic h(Cv, Sv, 2, 6.4e6); o[0] = h(a[0], a[1], a[2], o[1], o[2], o[3]); } END;
  ENTRY("NormalGravity.misc", 4, {40.0}) { const NormalGravity& n = NormalGravity::WGS84(); o[0] = n.SurfaceGravity(a[0]); double fx, fy; o[1] = n.Phi(a[0] * 1e5, 2.0e6, fx, fy); o[2] = fx; o[3] = fy; } END;
  ENTRY("NormalGravity.J2ToFlattening", 1, {A0, 3.986004418e14, 7.292115e-5, 1.08263e-3}) { o[0] = NormalGravity::J2ToFlattening(a[0], a[1], a[2], a[3]); } END;
  ENTRY("NormalGravity.FlatteningToJ2", 1, {A0, 3.986004418e14, 7.292115e-5, F0}) { o[0] = NormalGravity::FlatteningToJ2(a[0], a[1], a[2], a[3]); } END;
  ENTRY("UTMUPS.StandardZone", 1, {40.0, 10.0}) { I(0) = UTMUPS::StandardZone(a[0], a[1]); o[0] = double(I(0)); } END;
  // the zone string of the standard zone of a position (EncodeZone of the INVALID zone is documented to be "inv")
  ENTRY("UTMUPS.EncodeZone", 1, {40.0, 10.0}) { int z = UTMUPS::StandardZone(a[0], a[1]); S(0) = UTMUPS::EncodeZone(z, true); I(0) = z; o[0] = double(S(0).size()); } END;
  ENTRY("UTMUPS.Transfer", 2, {7.0e5, 4.4e6}) { UTMUPS::Transfer(32, true, a[0], a[1], 33, true, o[0], o[1], I(0)); } END;
  ENTRY("GeoCoords.ctorUTM", 2, {5.0e5, 4.4e6}) { GeoCoords c(32, true, a[0], a[1]); o[0] = c.Latitude(); o[1] = c.Longitude(); } END;
  ENTRY("Ellipsoid.invlats", 5, {40.0}) { const Ellipsoid& e = Ellipsoid::WGS84(); o[0] = e.InverseParametricLatitude(a[0]); o[1] = e.InverseGeocentricLatitude(a[0]); o[2] = e.InverseRectifyingLatitude(a[0]); o[3] = e.InverseAuthalicLatitude(a[0]); o[4] = e.InverseConformalLatitude(a[0]); } END;
  ENTRY("Ellipsoid.InverseIsometricLatitude", 1, {40.0}) { o[0] = Ellipsoid::WGS84().InverseIsometricLatitude(a[0]); } END;
  ENTRY("DAuxLatitude.DConvert", 2, {0.5, 0.7}) { DAuxLatitude d(A0, F0); AuxAngle p1(AuxAngle::radians(a[0])), p2(AuxAngle::radians(a[1])); o[0] = d.DConvert(AuxLatitude::PHI, AuxLatitude::MU, p1, p2); o[1] = d.DRectifying(p1, p2); } END;
  ENTRY("Math.sincosde", 2, {33.0, 1.0e-12}) { Math::sincosde(a[0], a[1], o[0], o[1]); } END;
  ENTRY("Math.misc", 5, {0.7}) { o[0] = Math::atand(a[0]); o[1] = Math::eatanhe(a[0], 0.08); o[2] = Math::AngNormalize(a[0] * 1000); double t; o[3] = Math::sum(a[0], 1.0e16, t); o[4] = t; } END;
  ENTRY("LocalCartesian.Reset", 3, {48.0, 2.0, 100.0}) { LocalCartesian l(0, 0, 0); l.Reset(a[0], a[1], a[2]); l.Forward(48.5, 2.5, 200.0, o[0], o[1], o[2]); } END;
  ENTRY("CassiniSoldner.Reset", 4, {40.0, 10.0}) { CassiniSoldner c(Geodesic::WGS84()); c.Reset(a[0], a[1]); c.Forward(45.0, 12.0, o[0], o[1], o[2], o[3]); } END;
  ENTRY("AlbersEqualArea.SetScale", 1, {30.0, 1.0}) { AlbersEqualArea l(A0, F0, 40.0, 1.0); l.SetScale(a[0], a[1]); o[0] = l.CentralScale(); } END;
  ENTRY("Geohash.Reverse", 2, {40.0, 10.0}) { string g; Geohash::Forward(a[0], a[1], 12, g); Geohash::Reverse(g, o[0], o[1], I(0)); } END;
  ENTRY("DMS.Encode3", 1, {40.4464}) { double d, m, sec; DMS::Encode(a[0], d, m, sec); o[0] = d + m + sec; } END;
  ENTRY("DMS.Encode2", 1, {40.4464}) { double d, m; DMS::Encode(a[0], d, m); o[0] = d + m; } END;
  ENTRY("DMS.EncodePrec", 1, {40.4464}) { string s1 = DMS::Encode(a[0], DMS::SECOND, 10, DMS::AZIMUTH), s2 = DMS::Encode(a[0], DMS::DEGREE, 15, DMS::NUMBER), s3 = DMS::Encode(a[0], DMS::MINUTE, 0, DMS::LONGITUDE, ':');
    o[0] = double(s1.size() + s2.size() + s3.size()); } END;
  ENTRY("Utility.str", 1, {40.4464}) { o[0] = double(Utility::str(a[0], 12).size() + Utility::str(a[0], -1).size()); } END;
  ENTRY("GeoCoords.reps", 1, {40.0, 10.0}) { GeoCoords c(a[0], a[1]); o[0] = double(c.GeoRepresentation(3).size() + c.DMSRepresentation(2).size() + c.MGRSRepresentation(2).size() + c.UTMUPSRepresentation(1).size() + c.AltMGRSRepresentation(0).size()); } END;
  // ---- third batch: remaining constructor overloads; late validation failures ----
  ENTRY("LambertConformalConic.ctor3", 0, {A0, F0, 0.6427876096865393, 0.766044443118978, 0.766044443118978, 0.6427876096865393, 1.0}) { LambertConformalConic g(a[0], a[1], a[2], a[3], a[4], a[5], a[6]); (void) g; (void) o; } END;
  ENTRY("AlbersEqualArea.ctor3", 0, {A0, F0, 0.6427876096865393, 0.766044443118978, 0.766044443118978, 0.6427876096865393, 1.0}) { AlbersEqualArea g(a[0], a[1], a[2], a[3], a[4], a[5], a[6]); (void) g; (void) o; } END;
  ENTRY("Geodesic.ctorx", 0, {A0, F0}) { Geodesic g(a[0], a[1], true); (void) g; (void) o; } END;
  ENTRY("Rhumb.ctorx", 0, {A0, F0}) { Rhumb g(a[0], a[1], true); (void) g; (void) o; } END;
  ENTRY("TransverseMercator.ctorx", 0, {A0, F0, 0.9996}) { TransverseMercator g(a[0], a[1], a[2], true, true); (void) g; (void) o; } END;
  ENTRY("NormalGravity.ctorJ2", 0, {A0, 3.986004418e14, 7.292115e-5, 1.08263e-3}) { NormalGravity g(a[0], a[1], a[2], a[3], false); (void) g; (void) o; } END;
  ENTRY("EllipticFunction.ctor4", 0, {0.3, 0.2, 0.7, 0.8}) { EllipticFunction g(a[0], a[1], a[2], a[3]); (void) g; (void) o; } END;
  ENTRY("DAuxLatitude.ctor", 0, {A0, F0}) { DAuxLatitude g(a[0], a[1]); (void) g; (void) o; } END;
  ENTRY("LocalCartesian.ctor", 3, {48.0, 2.0, 100.0}) { LocalCartesian l(a[0], a[1], a[2]); l.Forward(48.5, 2.5, 200.0, o[0], o[1], o[2]); } END;
  // a transfer to UPS that fails late (hemisphere mismatch, a[2] = 0 means northpout = false): outputs must stay untouched
  ENTRY("UTMUPS.TransferHemi", 2, {5.0e5, 9.385e6, 1.0}) { UTMUPS::Transfer(31, true, a[0], a[1], UTMUPS::UPS, a[2] != 0, o[0], o[1], I(0)); if (I(0) != 0) o[0] = -1; } END;
  ENTRY("UTMUPS.TransferMatch", 2, {2.0e6, 2.3e6, 1.0}) { UTMUPS::Transfer(0, true, a[0], a[1], UTMUPS::STANDARD, a[2] != 0, o[0], o[1], I(0)); if (I(0) != 0) o[0] = -1; } END;
  // the same refusal in a transfer that stays in its zone (UPS north -> UPS), and a transfer that stays in a UTM zone
  ENTRY("UTMUPS.TransferSame", 2, {2.0e6, 2.3e6, 1.0}) { UTMUPS::Transfer(UTMUPS::UPS, true, a[0], a[1], UTMUPS::UPS, a[2] != 0, o[0], o[1], I(0)); if (I(0) != 0) o[0] = -1; } END;
  ENTRY("UTMUPS.TransferSameUTM", 2, {5.0e5, 4.4e6, 1.0}) { UTMUPS::Transfer(32, true, a[0], a[1], 32, a[2] != 0, o[0], o[1], I(0)); if (I(0) != 32) o[0] = -1; } END;
  // ---- functions documented to validate their arguments ----
  ENTRY("UTMUPS.Forward", 4, {40.0, 10.0}) { UTMUPS::Forward(a[0], a[1], I(0), B(0), o[0], o[1], o[2], o[3]); } END;
  ENTRY("UTMUPS.Reverse", 4, {5.0e5, 4.4e6}) { UTMUPS::Reverse(32, true, a[0], a[1], o[0], o[1], o[2], o[3]); } END;
  ENTRY("MGRS.Forward", 1, {5.0e5, 4.4e6}) { MGRS::Forward(32, true, a[0], a[1], 5, S(0)); o[0] = double(S(0).size()); } END;
  ENTRY("MGRS.ForwardLat", 1, {5.0e5, 4.4e6, 39.75}) { MGRS::Forward(32, true, a[0], a[1], a[2], 5, S(0)); o[0] = double(S(0).size()); } END;
  ENTRY("OSGB.Forward", 4, {52.0, -1.0}) { OSGB::Forward(a[0], a[1], o[0], o[1], o[2], o[3]); } END;
  ENTRY("OSGB.GridReference", 1, {4.0e5, 3.0e5}) { OSGB::GridReference(a[0], a[1], 3, S(0)); o[0] = double(S(0).size()); } END;
  ENTRY("Geohash.Forward", 1, {40.0, 10.0}) { Geohash::Forward(a[0], a[1], 8, S(0)); o[0] = double(S(0).size()); } END;
  ENTRY("GARS.Forward", 1, {40.0, 10.0}) { GARS::Forward(a[0], a[1], 2, S(0)); o[0] = double(S(0).size()); } END;
  ENTRY("Georef.Forward", 1, {40.0, 10.0}) { Georef::Forward(a[0], a[1], 4, S(0)); o[0] = double(S(0).size()); } END;
  ENTRY("GeoCoords.Reset", 2, {40.0, 10.0}) { GeoCoords c(a[0], a[1]); o[0] = c.Easting(); o[1] = c.Northing(); } END;
  ENTRY("DMS.Encode", 1, {40.4464}) { string s = DMS::Encode(a[0], 3, DMS::LATITUDE); o[0] = double(s.size()); } END;
  ENTRY("LambertConformalConic.SetScale", 1, {30.0, 1.0}) { LambertConformalConic l(A0, F0, 40.0, 1.0); l.SetScale(a[0], a[1]); o[0] = l.CentralScale(); } END;
  ENTRY("PolarStereographic.SetScale", 1, {70.0, 1.0}) { PolarStereographic l(A0, F0, 0.994); l.SetScale(a[0], a[1]); o[0] = l.CentralScale(); } END;
}

static double special(const string& cls) {
  if (cls == "nan") return Math::NaN(); if (cls == "pinf") return INFINITY; if (cls == "ninf") return -INFINITY;
  if (cls == "pzero") return 0.0; if (cls == "nzero") return -0.0; if (cls == "denorm") return 5e-324; if (cls == "tiny") return 1e-300;
  if (cls == "one") return 1.0; if (cls == "neg") return -1.0; if (cls == "huge") return 1e300; if (cls == "max") return 1.7976931348623157e308;
  if (cls == "p90") return 90.0; if (cls == "n90") return -90.0; if (cls == "p180") return 180.0; if (cls == "n180") return -180.0;
  if (cls == "p90u") return nextafter(90.0, 100.0); if (cls == "n90u") return nextafter(-90.0, -100.0);
  return 0.5;
}

static string exec(const Entry& e, const V& args, V& outs) {
  try { e.call(args, outs); return "ok"; }
  catch (const GeographicErr&) { return "GeographicErr"; }
  catch (const std::bad_alloc&) { return "bad_alloc"; }
  catch (const std::exception&) { return "std::exception"; }
  catch (...) { return "unknown"; }
}

static void preset(V& o, bool bval) {
  for (size_t i = 0; i < o.size(); ++i) o[i] = vt::sentinel(40 + unsigned(i));
  for (int i = 0; i < 2; ++i) g_S[i] = SSENT;
  for (int i = 0; i < 3; ++i) g_I[i] = isent(i);
  for (int i = 0; i < 2; ++i) g_B[i] = bval;
}
static void do_call(const vector<string>& t) {
  const string& name = t[1]; int pos = atoi(t[2].c_str()); const string& cls = t[3];
  vt::Rec r; r.str("e", "call").str("n", name).i("pos", pos).str("v", cls);
  auto it = E.find(name);
  if (it == E.end() || pos < 1 || pos > (int) it->second.nominal.size()) { r.b("known", false); r.emit(); return; }
  const Entry& e = it->second;
  V nomout(e.nouts); preset(nomout, false);
  string nres = exec(e, e.nominal, nomout);
  V args = e.nominal; args[pos - 1] = special(cls);
  V outs(e.nouts); preset(outs, false); g_Bused = false;
  string res = exec(e, args, outs);
  vector<long long> isnan_, untouched, samenom;
  for (int i = 0; i < e.nouts; ++i) { isnan_.push_back(std::isnan(outs[i]) && !vt::is_sentinel(outs[i], 40 + i)); untouched.push_back(vt::is_sentinel(outs[i], 40 + i));
    samenom.push_back(vt::bits(outs[i]) == vt::bits(nomout[i])); }
  // the channels for strings, ints and bools as the call left them
  string sv = "["; vector<long long> sunt, iv, iunt;
  for (int i = 0; i < 2; ++i) { if (i) sv += ","; sv += "["; auto c = vt::codes(g_S[i]); for (size_t j = 0; j < c.size(); ++j) { if (j) sv += ","; sv += to_string(c[j]); } sv += "]"; sunt.push_back(g_S[i] == SSENT); }
  sv += "]";
  for (int i = 0; i < 3; ++i) { iv.push_back(g_I[i]); iunt.push_back(g_I[i] == isent(i)); }
  bool bunt = !g_B[0] && !g_B[1];
  if (g_Bused && res != "ok") {   // a bool can only be observed against both pre-set values
    V o2(e.nouts); preset(o2, true); string res2 = exec(e, args, o2); bunt = bunt && g_B[0] && g_B[1] && res2 == res; }
  r.b("known", true).str("nom", nres).str("out", res).i("nouts", e.nouts).li("nan", isnan_).li("unt", untouched).li("same", samenom)
   .raw("sv", sv).li("sunt", sunt).li("iv", iv).li("iunt", iunt).i("bunt", bunt);
  r.emit(); fflush(stdout);
}

// ---- byte strings offered to the parsers ----
// Every argument that a parser uses for return values is pre-filled (doubles with sentinel NaNs, ints with phase-dependent
// values, bools with the phase, strings with a marker); nref = number of such arguments, unt = all of them still hold the
// pre-filled value.  A call that throws is executed in both phases, so that a bool / an int written with the value it
// happened to hold is seen too.
static string str_once(const string& which, const string& s, int ph, int& nref, bool& unt, bool& fin) {
  double d[2] = {vt::sentinel(60), vt::sentinel(61)}; int i0 = ph ? -70011 : 70012, i1 = ph ? -70013 : 70014; int iv[2] = {i0, i1};
  bool b0 = ph != 0, bv = b0; string sm = ph ? "\x01unset1" : "\x01unset0", sv[4] = {sm, sm, sm, sm};
  DMS::flag f0 = ph ? DMS::AZIMUTH : DMS::NUMBER, fv = f0;
  nref = 0; int nd = 0, ni = 0, nb = 0, ns = 0, nf = 0; string res;
  try {
    if (which == "dms") { nf = 1; double v = DMS::Decode(s, fv); fin = !std::isinf(v); }
    else if (which == "dmslatlon") { nd = 2; DMS::DecodeLatLon(s, "10E", d[0], d[1]); }
    else if (which == "dmsangle") { DMS::DecodeAngle(s); }
    else if (which == "dmsazi") { DMS::DecodeAzimuth(s); }
    else if (which == "geocoords") { GeoCoords c(s); (void) c.Latitude(); }
    else if (which == "mgrs") { nd = 2; ni = 2; nb = 1; MGRS::Reverse(s, iv[0], bv, d[0], d[1], iv[1]); }
    else if (which == "mgrsdecode") { ns = 4; MGRS::Decode(s, sv[0], sv[1], sv[2], sv[3]); }
    else if (which == "osgb") { nd = 2; ni = 1; OSGB::GridReference(s, d[0], d[1], iv[0]); }
    else if (which == "geohash") { nd = 2; ni = 1; Geohash::Reverse(s, d[0], d[1], iv[0]); }
    else if (which == "gars") { nd = 2; ni = 1; GARS::Reverse(s, d[0], d[1], iv[0]); }
    else if (which == "georef") { nd = 2; ni = 1; Georef::Reverse(s, d[0], d[1], iv[0]); }
    else if (which == "zone") { ni = 1; nb = 1; UTMUPS::DecodeZone(s, iv[0], bv); }
    else if (which == "val") { (void) Utility::val<double>(s); }
    else if (which == "valint") { (void) Utility::val<int>(s); }
    else if (which == "fract") { (void) Utility::fract<double>(s); }
    else if (which == "date") { (void) Utility::fractionalyear<double>(s); }
    else if (which == "parseline") { ns = 2; Utility::ParseLine(s, sv[0], sv[1]); }
    res = "ok";
  }
  catch (const GeographicErr&) { res = "GeographicErr"; }
  catch (const std::bad_alloc&) { res = "bad_alloc"; }
  catch (const std::exception&) { res = "std::exception"; }
  catch (...) { res = "unknown"; }
  nref = nd + ni + nb + ns + nf;
  unt = vt::is_sentinel(d[0], 60) && vt::is_sentinel(d[1], 61) && iv[0] == i0 && iv[1] == i1 && bv == b0 && fv == f0
        && sv[0] == sm && sv[1] == sm && sv[2] == sm && sv[3] == sm;
  return res;
}
static void do_str(const vector<string>& t) {
  const string& which = t[1]; string s; for (size_t i = 2; i < t.size(); ++i) s.push_back(char(atoi(t[i].c_str())));
  int nref = 0; bool unt = true, fin = true;
  string res = str_once(which, s, 0, nref, unt, fin);
  bool same = true;
  if (res != "ok") { int n2; bool u2 = true, f2 = true; string r2 = str_once(which, s, 1, n2, u2, f2); unt = unt && u2; same = r2 == res; }
  vt::Rec r; r.str("e", "str").str("p", which).i("len", (long long) s.size()).str("out", res).b("fin", fin).i("nref", nref).i("unt", unt).b("same", same); r.emit(); fflush(stdout);
}

// ---- corrupted nearest-neighbour saves (text and binary) ----
struct Dist { double operator()(double a, double b) const { return fabs(a - b); } };
static void do_nn(const vector<string>& t) {
  // nn <mode: text|bin> <fault> <param>
  bool bin = t[1] == "bin"; const string& fault = t[2]; long long param = atoll(t[3].c_str());
  // the point array is allocated with exactly numpoints elements (no spare capacity behind the last point)
  const int NP = 40; vector<double> pts(NP); vt::Rng g(3); for (int i = 0; i < NP; ++i) pts[size_t(i)] = g.uni(0, 100);
  NearestNeighbor<double, double, Dist> nn(pts, Dist(), 4); ostringstream os; nn.Save(os, bin); string data = os.str();
  if (fault == "truncate") data = data.substr(0, size_t(min<long long>(param, (long long) data.size())));
  else if (fault == "flipbyte" && !data.empty()) data[size_t(param) % data.size()] = char(data[size_t(param) % data.size()] ^ 0x5a);
  else if (fault == "zero" && !data.empty()) data[size_t(param) % data.size()] = 0;
  else if (fault == "ff" && !data.empty()) data[size_t(param) % data.size()] = char(0xff);
  else if (fault == "append") data += string(size_t(param % 50), 'x');
  else if (fault == "digit" && !data.empty()) { size_t k = size_t(param) % data.size(); if (isdigit((unsigned char) data[k])) data[k] = char('0' + (data[k] - '0' + 7) % 10); }
  else if (fault.substr(0, 4) == "tok-") {   // format-aware: replace one field of the save by a boundary value
    int treesize = 0, numpoints = 40; { istringstream hs(os.str()); if (!bin) { int v, rs, b; hs >> v >> rs >> b >> numpoints >> treesize; } }
    if (bin) { memcpy(&numpoints, os.str().data() + 16 + 3 * 4, 4); memcpy(&treesize, os.str().data() + 16 + 4 * 4, 4); }
    long long val = fault == "tok-ts" ? treesize : fault == "tok-ts1" ? treesize - 1 : fault == "tok-np" ? numpoints : fault == "tok-np1" ? numpoints - 1
                  : fault == "tok-m1" ? -1 : fault == "tok-m2" ? -2 : 2000000000LL;
    if (!bin) { vector<string> tok; { istringstream ts(data); string w; while (ts >> w) tok.push_back(w); }
      if (!tok.empty()) { tok[size_t(param) % tok.size()] = to_string(val); data.clear(); for (auto& w : tok) { data += w; data += ' '; } } }
    else { size_t words = (data.size() - 16) / 4; if (words) { int v = int(val); memcpy(&data[16 + 4 * (size_t(param) % words)], &v, 4); } }
  }
  string res; long long np = -1, imin = 0, imax = -1, nret = 0, nq = 0; bool kept = true;
  static const double Q[] = {-10.0, 0.0, 25.5, 50.0, 99.9, 200.0};
  // the faulted save is loaded into an object that holds the valid tree ("If an exception is thrown, the state of the
  // NearestNeighbor is unchanged": after a refused Load it must answer exactly as the valid tree does)
  NearestNeighbor<double, double, Dist> m(pts, Dist(), 4);
  try { istringstream is(data); m.Load(is, bin);
    np = m.NumPoints();
    // a tree that loads must be usable without memory errors: searches from several query points, for 3 neighbours and for all
    // points (which visits every leaf); the indices returned are logged (smallest, largest, how many)
    for (int q = 0; q < 6; ++q) for (int all = 0; all < 2; ++all) { vector<int> ind; m.Search(pts, Dist(), Q[q], ind, all ? NP + 2 : 3); ++nq;
      for (int j : ind) { if (nret == 0 || j < imin) imin = j; if (nret == 0 || j > imax) imax = j; ++nret; } }
    res = "ok"; }
  catch (const GeographicErr&) { res = "GeographicErr"; }
  catch (const std::bad_alloc&) { res = "bad_alloc"; }
  catch (const std::exception&) { res = "std::exception"; }
  catch (...) { res = "unknown"; }
  if (np < 0) {   // Load threw: the object against the valid tree
    kept = m.NumPoints() == nn.NumPoints();
    if (kept) for (int q = 0; q < 6; ++q) for (int all = 0; all < 2; ++all) { vector<int> i1, i2;
      double d1 = m.Search(pts, Dist(), Q[q], i1, all ? NP + 2 : 3), d2 = nn.Search(pts, Dist(), Q[q], i2, all ? NP + 2 : 3);
      kept = kept && i1 == i2 && d1 == d2; } }
  vt::Rec r; r.str("e", "nn").b("bin", bin).str("fault", fault).i("param", param).str("out", res).i("npts", NP).i("np", np).i("nq", nq).i("nret", nret).i("imin", imin).i("imax", imax).b("kept", kept);
  r.emit(); fflush(stdout);
}

// ---- failure injection into NearestNeighbor::Initialize on an initialised object: the k-th evaluation of the distance function
// throws, or the k-th allocation fails ("If an exception is thrown, the state of the NearestNeighbor is unchanged")
static long long g_dist_count = 0, g_dist_fail_at = -1; static bool g_dist_armed = false;
struct TDist { double operator()(double a, double b) const {
  if (g_dist_armed && ++g_dist_count == g_dist_fail_at) throw GeographicErr("injected failure of the distance function");
  return fabs(a - b); } };
typedef NearestNeighbor<double, double, TDist> TNN;
static string nn_text(const TNN& n) { ostringstream os; n.Save(os, false); return os.str(); }
static bool nn_same(const TNN& a, const TNN& b, const vector<double>& pts) {   // same observable state (for searches on pts)
  static const double Q[] = {-10.0, 0.0, 25.5, 50.0, 99.9, 200.0};
  try {
    if (a.NumPoints() != b.NumPoints() || nn_text(a) != nn_text(b)) return false;
    for (int q = 0; q < 6; ++q) for (int all = 0; all < 2; ++all) { vector<int> i1, i2;
      double d1 = a.Search(pts, TDist(), Q[q], i1, all ? int(pts.size()) + 2 : 3), d2 = b.Search(pts, TDist(), Q[q], i2, all ? int(pts.size()) + 2 : 3);
      if (!(i1 == i2) || !(d1 == d2 || (d1 != d1 && d2 != d2))) return false; }
    return true; }
  catch (...) { return false; }
}
static void do_nninit(const vector<string>& t) {
  // nninit <old size> <new size> <bucket> <fault kind: dist|alloc|none> <k>
  int nold = atoi(t[1].c_str()), nnew = atoi(t[2].c_str()); long long bucket = atoll(t[3].c_str()); const string& fk = t[4]; long long k = atoll(t[5].c_str());
  vector<double> po((size_t) nold), pn((size_t) nnew); vt::Rng g1(5), g2(9);
  for (auto& x : po) x = g1.uni(0, 100); for (auto& x : pn) x = g2.uni(0, 100);
  bool badb = bucket < 0 || bucket > 10; int bk = int(bucket);
  // what the unfaulted call uses, measured on an object in the same state
  long long ncall = 0, nalloc = 0;
  if (!badb) { TNN a(po, TDist(), 4);
    g_dist_count = 0; g_dist_fail_at = -1; g_dist_armed = true; g_alloc_count = 0; g_alloc_fail_at = -1; g_alloc_armed = true;
    a.Initialize(pn, TDist(), bk);
    g_dist_armed = false; g_alloc_armed = false; ncall = g_dist_count; nalloc = g_alloc_count; }
  TNN ref(po, TDist(), 4), b(po, TDist(), 4);
  string res;
  g_dist_count = 0; g_alloc_count = 0; g_dist_fail_at = fk == "dist" ? k : -1; g_alloc_fail_at = fk == "alloc" ? k : -1;
  g_dist_armed = true; g_alloc_armed = true;
  try { b.Initialize(pn, TDist(), bk); g_dist_armed = false; g_alloc_armed = false; res = "ok"; }
  catch (const GeographicErr&) { g_dist_armed = false; g_alloc_armed = false; res = "GeographicErr"; }
  catch (const std::bad_alloc&) { g_dist_armed = false; g_alloc_armed = false; res = "bad_alloc"; }
  catch (const std::exception&) { g_dist_armed = false; g_alloc_armed = false; res = "std::exception"; }
  catch (...) { g_dist_armed = false; g_alloc_armed = false; res = "unknown"; }
  bool kept = false, fresh = false;
  if (res == "ok") { if (!badb) { TNN f(pn, TDist(), bk); fresh = nn_same(b, f, pn); } }
  else kept = nn_same(b, ref, po);
  vt::Rec r; r.str("e", "nninit").i("old", nold).i("new", nnew).i("bucket", bucket).str("fk", fk).i("k", k).i("ncall", ncall).i("nalloc", nalloc)
    .str("out", res).b("kept", kept).b("fresh", fresh);
  r.emit(); fflush(stdout);
}

// ---- malformed model files: MagneticModel / GravityModel constructors on faulted metadata (.wmm/.egm) and coefficient (.cof) files
static void mf_put_i32(string& f, int v) { for (int i = 0; i < 4; ++i) f.push_back(char(((unsigned) v) >> (8 * i))); }
static void mf_put_f64(string& f, double v) { uint64_t u = vt::bits(v); for (int i = 0; i < 8; ++i) f.push_back(char(u >> (8 * i))); }
static void mf_put_set(string& f, int N, int M, vt::Rng& g, double scale) {
  mf_put_i32(f, N); mf_put_i32(f, M);
  int cs = (M + 1) * (2 * N - M + 2) / 2, ss = cs - (N + 1);
  for (int i = 0; i < cs; ++i) mf_put_f64(f, i == 0 ? 0.0 : g.uni(-1, 1) * scale);   // the degree 0 term must be zero in both formats
  for (int i = 0; i < ss; ++i) mf_put_f64(f, g.uni(-1, 1) * scale);
}
// kinds: "mag" (NumModels 1, NumConstants 1), "mag10", "mag20", "mag21" (NumModels, NumConstants as named), "grv" (correction set of
// degree 2), "grv0" (empty correction set N = M = -1, which the format description allows: N >= M >= -1)
static void mf_base(const string& kind, string& m, string& c) {
  bool mag = kind.substr(0, 3) == "mag";
  string id = mag ? "CONTRMAG" : "CONTRGRV";
  vt::Rng g(11);
  if (mag) {
    int nm = kind.size() == 5 ? kind[3] - '0' : 1, nc = kind.size() == 5 ? kind[4] - '0' : 1;
    m = "WMMF-2\n# synthetic\nName cm\nDescription synthetic\nReleaseDate 2026-01-01\nRadius 6371200\nNumModels " + to_string(nm) + "\nNumConstants " + to_string(nc) + "\nEpoch 2000\nDeltaEpoch 5\n"
        "MinTime 1990\nMaxTime 2030\nMinHeight -1000\nMaxHeight 600000\nNormalization schmidt\nType linear\nByteOrder little\nID CONTRMAG\n";
    c = id; for (int i = 0; i < nm; ++i) mf_put_set(c, 3, 3, g, 1000);
    mf_put_set(c, 3, 3, g, 10); if (nc) mf_put_set(c, 2, 2, g, 5);
  } else {
    m = "EGMF-1\n# synthetic\nName cg\nDescription synthetic\nReleaseDate 2026-01-01\nModelRadius 6378136.3\nModelMass 3986004.415e8\nAngularVelocity 7292115e-11\n"
        "ReferenceRadius 6378137\nReferenceMass 3986004.418e8\nFlattening 0.0033528106647474805\nHeightOffset -0.41\nCorrectionMultiplier 0.01\n"
        "Normalization full\nByteOrder little\nID CONTRGRV\n";
    c = id; mf_put_set(c, 4, 4, g, 1);
    if (kind == "grv0") mf_put_set(c, -1, -1, g, 0); else mf_put_set(c, 2, 2, g, 1e-6);
  }
}
// the coefficient sets of a well-formed coefficient file: offset of the header, N, M, length in bytes
struct MfSet { size_t off; int N, M; size_t len; };
static vector<MfSet> mf_sets(const string& c) {
  vector<MfSet> r; size_t p = 8;
  while (p + 8 <= c.size()) { int N, M; memcpy(&N, &c[p], 4); memcpy(&M, &c[p + 4], 4);
    long long cs = (long long)(M + 1) * (2 * N - M + 2) / 2, ss = cs - (N + 1); size_t len = 8 + size_t(8 * (cs + (cs ? ss : 0)));
    r.push_back(MfSet{p, N, M, len}); p += len; }
  return r;
}
static string mf_value(const string& cls) {
  return cls == "nan" ? "nan" : cls == "inf" ? "inf" : cls == "neg" ? "-1" : cls == "zero" ? "0" : cls == "huge" ? "1e400" : cls == "maxint" ? "2147483647"
       : cls == "bigint" ? "99999999999" : cls == "word" ? "abc" : cls == "two" ? "2" : cls == "frac" ? "1.5" : "";
}
static void do_mfile(const vector<string>& t) {
  // mfile <kind: mag|mag10|mag20|mag21|grv|grv0> <part: meta|cof> <fault> <param>
  bool mag = t[1].substr(0, 3) == "mag"; bool meta = t[2] == "meta"; const string& fault = t[3]; long long param = atoll(t[4].c_str());
  string name = mag ? "cm" : "cg", ext = mag ? ".wmm" : ".egm", id = mag ? "CONTRMAG" : "CONTRGRV";
  string m, c; mf_base(t[1], m, c);
  string& d = meta ? m : c;
  auto lines = [&]() { vector<string> L; istringstream is(d); string l; while (getline(is, l)) L.push_back(l); return L; };
  auto join = [&](const vector<string>& L) { d.clear(); for (auto& l : L) { d += l; d += '\n'; } };
  if (fault == "truncate") d = d.substr(0, size_t(min<long long>(param, (long long) d.size())));
  else if (fault == "flipbyte" && !d.empty()) d[size_t(param) % d.size()] = char(d[size_t(param) % d.size()] ^ 0x5a);
  else if (fault == "zero" && !d.empty()) d[size_t(param) % d.size()] = 0;
  else if (fault == "ff" && !d.empty()) d[size_t(param) % d.size()] = char(0xff);
  else if (fault == "append") d += string(size_t(param % 50) + 1, 'x');
  else if (fault == "dropline" && meta) { auto L = lines(); L.erase(L.begin() + long(size_t(param) % L.size())); join(L); }
  else if (fault == "dupline" && meta) { auto L = lines(); size_t k = size_t(param) % L.size(); L.insert(L.begin() + long(k), L[k]); join(L); }
  else if (fault.substr(0, 4) == "val-" && meta) { auto L = lines(); size_t k = size_t(param) % L.size(); size_t sp = L[k].find(' ');
    L[k] = (sp == string::npos ? L[k] : L[k].substr(0, sp)) + " " + mf_value(fault.substr(4)); join(L); }
  else if (fault.substr(0, 5) == "word-" && !meta) { size_t words = (d.size() - 8) / 4; string w = fault.substr(5);
    int v = w == "m1" ? -1 : w == "m2" ? -2 : w == "max" ? 2147483647 : w == "min" ? (-2147483647 - 1) : w == "n1" ? 5 : w == "e5" ? 100000 : w == "e4" ? 30000 : 65536;
    if (words) memcpy(&d[8 + 4 * (size_t(param) % words)], &v, 4); }
  else if ((fault.substr(0, 5) == "pair-" || fault == "empty") && !meta) {   // both header words of coefficient set <param> replaced
    vector<MfSet> S = mf_sets(c); const MfSet& q = S[size_t(param) % S.size()]; string w = fault == "empty" ? "" : fault.substr(5);
    int N = w == "00" ? 0 : w == "n1" ? q.N : w == "0m1" ? 0 : -1, M = w == "00" ? 0 : w == "n1" ? q.N + 1 : -1;
    memcpy(&d[q.off], &N, 4); memcpy(&d[q.off + 4], &M, 4);
    if (fault == "empty") d.erase(q.off + 8, q.len - 8);   // a well-formed empty set: no coefficients follow N = M = -1
  }
  { ofstream f((g_dir + "/" + name + ext).c_str(), ios::binary); f.write(m.data(), streamsize(m.size())); }
  { ofstream f((g_dir + "/" + name + ext + ".cof").c_str(), ios::binary); f.write(c.data(), streamsize(c.size())); }
  string res; bool fin = true; long long nev = 0;
  try {
    if (mag) { MagneticModel mm(name, g_dir);
      // an accepted model is evaluated before its epoch, in every interval, beyond the last model, far beyond, and at huge, infinite
      // and NaN times (operator() and Circle); only the ordinary times enter `finite`
      static const double T[] = {1990.0, 2000.0, 2003.5, 2005.0, 2007.0, 2010.0, 2012.5, 2500.0, 1e300, -1e300, INFINITY, -INFINITY, NAN};
      for (int i = 0; i < 13; ++i) { double bx, by, bz, bxt, byt, bzt; mm(T[i], 10, 20, 1000, bx, by, bz, bxt, byt, bzt);
        MagneticCircle mc = mm.Circle(T[i], 10, 1000); double cx, cy, cz; mc(20, cx, cy, cz); ++nev;
        if (i < 8) fin = fin && std::isfinite(bx + by + bz + bxt + byt + bzt + cx + cy + cz); } }
    else { GravityModel gm(name, g_dir); double gx, gy, gz; gm.Gravity(10, 20, 1000, gx, gy, gz); double h = gm.GeoidHeight(10, 20);
      double dx, dy, dz; gm.Disturbance(-40, 120, 5000, dx, dy, dz); double Dg01, xi, eta; gm.SphericalAnomaly(10, 20, 1000, Dg01, xi, eta);
      GravityCircle gc = gm.Circle(10, 1000, GravityModel::ALL); double cx, cy, cz; gc.Gravity(20, cx, cy, cz); GravityCircle g0 = gm.Circle(10, 0, GravityModel::ALL); double ch = g0.GeoidHeight(20); nev = 6;   // (the geoid height of a circle is defined at h = 0)
      fin = std::isfinite(gx + gy + gz + h + cx + cy + cz + dx + dy + dz + Dg01 + xi + eta + ch); }
    res = "ok"; }
  catch (const GeographicErr&) { res = "GeographicErr"; }
  catch (const std::bad_alloc&) { res = "bad_alloc"; }
  catch (const std::length_error&) { res = "length_error"; }
  catch (const std::exception&) { res = "std::exception"; }
  catch (...) { res = "unknown"; }
  vt::Rec r; r.str("e", "mfile").str("kind", t[1]).str("part", t[2]).str("fault", fault).i("param", param).str("out", res).b("finite", fin).i("nev", nev); r.emit(); fflush(stdout);
}

// ---- malformed geoid rasters (.pgm): faults in the text header and in the binary data ----
static void do_gfile(const vector<string>& t) {
  // gfile <fault> <param>
  const string& fault = t[1]; long long param = atoll(t[2].c_str());
  int w = 12, h = 7;
  string hdr = "P5\n# Description contract fixture\n# DateTime 2026-10-01 00:00:00\n# Offset -108\n# Scale 0.003\n# MaxBilinearError 0.1\n# RMSBilinearError 0.01\n"
               "# MaxCubicError 0.1\n# RMSCubicError 0.01\n12 7\n65535\n";
  string d = hdr; for (int j = 0; j < h; ++j) for (int i = 0; i < w; ++i) { unsigned v = unsigned(30000 + 400 * ((i * 7 + j * 13) % 17)); d.push_back(char(v >> 8)); d.push_back(char(v & 0xff)); }
  auto lines = [&]() { vector<string> L; istringstream is(hdr); string l; while (getline(is, l)) L.push_back(l); return L; };
  string data = d.substr(hdr.size());
  auto rebuild = [&](const vector<string>& L) { d.clear(); for (auto& l : L) { d += l; d += '\n'; } d += data; };
  if (fault == "truncate") d = d.substr(0, size_t(min<long long>(param, (long long) d.size())));
  else if (fault == "flipbyte") d[size_t(param) % d.size()] = char(d[size_t(param) % d.size()] ^ 0x5a);
  else if (fault == "zero") d[size_t(param) % d.size()] = 0;
  else if (fault == "ff") d[size_t(param) % d.size()] = char(0xff);
  else if (fault == "append") d += string(size_t(param % 50) + 1, 'x');
  else if (fault == "dropline") { auto L = lines(); L.erase(L.begin() + long(size_t(param) % L.size())); rebuild(L); }
  else if (fault == "dupline") { auto L = lines(); size_t k = size_t(param) % L.size(); L.insert(L.begin() + long(k), L[k]); rebuild(L); }
  else if (fault.substr(0, 4) == "val-") {   // replace the last token of a header line by a value class
    auto L = lines(); size_t k = size_t(param) % L.size(); size_t sp = L[k].rfind(' ');
    L[k] = (sp == string::npos ? string() : L[k].substr(0, sp + 1)) + mf_value(fault.substr(4)); rebuild(L); }
  else if (fault.substr(0, 4) == "dim-") {   // width height: replace one of them (param 0 / 1) or both (2)
    auto L = lines(); string v = mf_value(fault.substr(4)); L[9] = param == 0 ? v + " 7" : param == 1 ? "12 " + v : v + " " + v; rebuild(L); }
  { ofstream f((g_dir + "/cf.pgm").c_str(), ios::binary); f.write(d.data(), streamsize(d.size())); }
  string res; bool fin = true;
  try { for (int cubic = 0; cubic < 2; ++cubic) for (int ts = 0; ts < 2; ++ts) { Geoid g("cf", g_dir, cubic == 1, ts == 1);
          double v = g(40.0, 10.0) + g(-90.0, 0.0) + g(90.0, 179.0) + g(-33.0, -179.9) + g.ConvertHeight(10.0, 20.0, 5.0, Geoid::ELLIPSOIDTOGEOID);
          if (!ts) { g.CacheArea(-20, 100, 30, -100); v += g(0.0, 170.0); g.CacheAll(); v += g(12.0, 34.0); }
          fin = fin && std::isfinite(v); }
        res = "ok"; }
  catch (const GeographicErr&) { res = "GeographicErr"; }
  catch (const std::bad_alloc&) { res = "bad_alloc"; }
  catch (const std::length_error&) { res = "length_error"; }
  catch (const std::exception&) { res = "std::exception"; }
  catch (...) { res = "unknown"; }
  vt::Rec r; r.str("e", "gfile").str("fault", fault).i("param", param).str("out", res).b("finite", fin); r.emit(); fflush(stdout);
}
static void on_alarm(int) { _exit(124); }
// The watchdog counts the CPU time of this process (ITIMER_PROF), so that a loaded machine cannot turn a slow vector
// into a "hang"; a wall-clock alarm 20 times longer catches a vector that blocks without using the CPU.
static void arm_watchdog(unsigned wd) {
  struct itimerval it; memset(&it, 0, sizeof it); it.it_value.tv_sec = wd; setitimer(ITIMER_PROF, &it, nullptr);
  alarm(20 * wd);
}
int main(int argc, char** argv) {
  signal(SIGALRM, on_alarm); signal(SIGPROF, on_alarm);
  unsigned wd = getenv("VERIF_WATCHDOG") ? unsigned(atoi(getenv("VERIF_WATCHDOG"))) : 30;
  vt::install_terminate();
  if (argc < 2) { fprintf(stderr, "usage: drv_contract DIR [skip] < vectors\n"); return 2; }
  g_dir = argv[1]; mkdir(g_dir.c_str(), 0755);
  long long skip = argc > 2 ? atoll(argv[2]) : 0;
  registry();
  if (argc > 2 && string(argv[2]) == "list") { for (auto& kv : E) printf("%s %zu %d\n", kv.first.c_str(), kv.second.nominal.size(), kv.second.nouts); return 0; }
  string line; long long n = 0;
  while (getline(cin, line)) {
    if (n++ < skip) continue;
    auto t = vt::split(line); if (t.empty()) continue;
    // announce the vector before executing it, so that a crash is attributable
    fprintf(stderr, "@ %lld %s\n", n, line.c_str()); fflush(stderr);
    arm_watchdog(wd);   // watchdog: a vector that does not return within wd CPU-seconds is a hang (exit code 124), attributed to this vector
    if (t[0] == "call") do_call(t); else if (t[0] == "str") do_str(t); else if (t[0] == "nn") do_nn(t); else if (t[0] == "nninit") do_nninit(t); else if (t[0] == "mfile") do_mfile(t); else if (t[0] == "gfile") do_gfile(t);
  }
  return 0;
}
