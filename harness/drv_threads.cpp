// Driver for C14: runs one configuration <<program A, program B, cold>> chosen by TLC from Threads.tla on the real
// library with N threads (built with -fsanitize=thread).  ThreadSanitizer's verdict is read by the check script from
// the exit status / stderr; this program reports whether every concurrent call returned, bit for bit, what the same
// call returns when executed alone.
#include "trace.hpp"
#include <GeographicLib/Geodesic.hpp>
#include <GeographicLib/GeodesicExact.hpp>
#include <GeographicLib/GeodesicLine.hpp>
#include <GeographicLib/GeodesicLineExact.hpp>
#include <GeographicLib/Rhumb.hpp>
#include <GeographicLib/TransverseMercator.hpp>
#include <GeographicLib/TransverseMercatorExact.hpp>
#include <GeographicLib/PolarStereographic.hpp>
#include <GeographicLib/LambertConformalConic.hpp>
#include <GeographicLib/AlbersEqualArea.hpp>
#include <GeographicLib/Geocentric.hpp>
#include <GeographicLib/LocalCartesian.hpp>
#include <GeographicLib/Ellipsoid.hpp>
#include <GeographicLib/AuxLatitude.hpp>
#include <GeographicLib/DAuxLatitude.hpp>
#include <GeographicLib/EllipticFunction.hpp>
#include <GeographicLib/NormalGravity.hpp>
#include <GeographicLib/SphericalHarmonic.hpp>
#include <GeographicLib/CircularEngine.hpp>
#include <GeographicLib/Geoid.hpp>
#include <GeographicLib/UTMUPS.hpp>
#include <GeographicLib/MGRS.hpp>
#include <GeographicLib/OSGB.hpp>
#include <GeographicLib/DMS.hpp>
#include <GeographicLib/Geohash.hpp>
#include <GeographicLib/GARS.hpp>
#include <GeographicLib/Georef.hpp>
#include <GeographicLib/AzimuthalEquidistant.hpp>
#include <GeographicLib/Gnomonic.hpp>
#include <GeographicLib/CassiniSoldner.hpp>
#include <GeographicLib/DST.hpp>
#include <GeographicLib/GravityModel.hpp>
#include <GeographicLib/GravityCircle.hpp>
#include <GeographicLib/MagneticModel.hpp>
#include <GeographicLib/MagneticCircle.hpp>
#include <atomic>
#include <fstream>
#include <functional>
#include <map>
#include <memory>
#include <thread>
#include <sys/stat.h>

using namespace GeographicLib;
using namespace std;
typedef vector<double> V;

// ---- synthetic model files (formats: doc sections magneticformat / gravityformat) ----
static void put_i32(string& f, int v) { for (int i = 0; i < 4; ++i) f.push_back(char(((unsigned) v) >> (8 * i))); }
static void put_f64(string& f, double v) { uint64_t u = vt::bits(v); for (int i = 0; i < 8; ++i) f.push_back(char(u >> (8 * i))); }
static void put_set(string& f, int N, int M, vt::Rng& g, double scale) {
  put_i32(f, N); put_i32(f, M); int cs = (M + 1) * (2 * N - M + 2) / 2, ss = cs - (N + 1);
  for (int i = 0; i < cs; ++i) put_f64(f, i == 0 ? 0.0 : g.uni(-1, 1) * scale);
  for (int i = 0; i < ss; ++i) put_f64(f, g.uni(-1, 1) * scale);
}
static void write_models(const string& dir) {
  vt::Rng g(11);
  { ofstream m((dir + "/tsm.wmm").c_str()); m << "WMMF-2\nName tsm\nDescription synthetic\nReleaseDate 2026-01-01\nRadius 6371200\nNumModels 2\nNumConstants 1\nEpoch 2000\nDeltaEpoch 5\n"
      "MinTime 1990\nMaxTime 2030\nMinHeight -1000\nMaxHeight 600000\nNormalization schmidt\nType linear\nByteOrder little\nID THREADSM\n";
    string c = "THREADSM"; put_set(c, 6, 6, g, 1000); put_set(c, 6, 6, g, 900); put_set(c, 4, 4, g, 10); put_set(c, 2, 2, g, 5);
    ofstream f((dir + "/tsm.wmm.cof").c_str(), ios::binary); f.write(c.data(), streamsize(c.size())); }
  { ofstream m((dir + "/tsg.egm").c_str()); m << "EGMF-1\nName tsg\nDescription synthetic\nReleaseDate 2026-01-01\nModelRadius 6378136.3\nModelMass 3986004.415e8\nAngularVelocity 7292115e-11\n"
      "ReferenceRadius 6378137\nReferenceMass 3986004.418e8\nFlattening 0.0033528106647474805\nHeightOffset -0.41\nCorrectionMultiplier 0.01\n"
      "Normalization full\nByteOrder little\nID THREADSG\n";
    string c = "THREADSG"; put_set(c, 8, 8, g, 1e-6); put_set(c, 3, 3, g, 1e-2);
    ofstream f((dir + "/tsg.egm.cof").c_str(), ios::binary); f.write(c.data(), streamsize(c.size())); }
}

// ---- shared objects (constructed in main, before any thread starts) ----
struct Shared {
  Geodesic geod{6378137.0, 1 / 298.257223563}; GeodesicExact geodex{6378137.0, 1 / 298.257223563}; Geodesic geodx{6378137.0, 1 / 298.257223563, true};
  GeodesicLine line; GeodesicLineExact lineex;
  Rhumb rhumb{6378137.0, 1 / 298.257223563, false}; Rhumb rhumbx{6378137.0, 1 / 298.257223563, true}; RhumbLine rline;
  TransverseMercator tm{6378137.0, 1 / 298.257223563, 0.9996}; LambertConformalConic lcc{6378137.0, 1 / 298.257223563, 40.0, 50.0, 1.0};
  AlbersEqualArea alb{6378137.0, 1 / 298.257223563, 40.0, 50.0, 1.0}; LocalCartesian local{48.0, 2.0, 100.0};
  AuxLatitude aux{6378137.0, 1 / 298.257223563}; DAuxLatitude daux{6378137.0, 1 / 298.257223563}; EllipticFunction ef{0.3, 0.2};
  vector<double> C, S; unique_ptr<SphericalHarmonic> sh; unique_ptr<CircularEngine> circ; unique_ptr<Geoid> geoid, geoidl;
  AzimuthalEquidistant azeq{Geodesic::WGS84()}; Gnomonic gno{Geodesic::WGS84()}; CassiniSoldner cas{40.0, 10.0, Geodesic::WGS84()};
  DST dst{48};
  PolarStereographic ps{6378137.0, 1 / 298.257223563, 0.994}; TransverseMercatorExact tmx{6378137.0, 1 / 298.257223563, 0.9996};
  Ellipsoid ell{6378137.0, 1 / 298.257223563}; NormalGravity ng{6378137.0, 3.986004418e14, 7.292115e-5, 1 / 298.257223563, true};
  unique_ptr<GravityModel> gm; unique_ptr<MagneticModel> mm; unique_ptr<GravityCircle> gc; unique_ptr<MagneticCircle> mc;
  Shared(const string& dir) : line(geod.Line(40.6, -73.8, 53.5)), lineex(geodex.Line(40.6, -73.8, 53.5)), rline(rhumb.Line(40.6, -73.8, 53.5)) {
    int N = 8; vt::Rng g(7); for (int i = 0; i < (N + 1) * (N + 2) / 2; ++i) C.push_back(g.uni(-1, 1)); for (int i = 0; i < N * (N + 1) / 2; ++i) S.push_back(g.uni(-1, 1));
    SphericalEngine::RootTable(N + 2);
    sh.reset(new SphericalHarmonic(C, S, N, 6378137.0)); circ.reset(new CircularEngine(sh->Circle(7.0e6, 2.0e6, true)));
    mkdir(dir.c_str(), 0755);
    { ofstream f((dir + "/tsgeoid.pgm").c_str(), ios::binary); f << "P5\n# Offset -108\n# Scale 0.25\n36 19\n65535\n";
      for (int i = 0; i < 36 * 19; ++i) { unsigned v = unsigned((i * 7919) % 5000); f.put(char(v >> 8)); f.put(char(v & 255)); } }
    geoid.reset(new Geoid("tsgeoid", dir, true, true)); geoidl.reset(new Geoid("tsgeoid", dir, false, true));
    write_models(dir); gm.reset(new GravityModel("tsg", dir)); mm.reset(new MagneticModel("tsm", dir));
    gc.reset(new GravityCircle(gm->Circle(30.0, 1000.0, GravityModel::ALL))); mc.reset(new MagneticCircle(mm->Circle(2003.0, 30.0, 1000.0)));
  }
};
static Shared* G = nullptr;

// ---- access programs: the same names as Threads.tla!Names ----
static map<string, function<V(int)>> programs() {
  map<string, function<V(int)>> p;
  auto inv = [](const Geodesic& g, int i) { double s, a1, a2, m, M1, M2, S; g.Inverse(10.0 + i, 20.0, -30.0, 140.0 - i, s, a1, a2, m, M1, M2, S); double la, lo, az; g.Direct(40.0, i, 30.0, 1.0e6 * (i + 1), la, lo, az); return V{s, a1, a2, m, M1, M2, S, la, lo, az}; };
  auto invx = [](const GeodesicExact& g, int i) { double s, a1, a2, m, M1, M2, S; g.Inverse(10.0 + i, 20.0, -30.0, 140.0 - i, s, a1, a2, m, M1, M2, S); double la, lo, az; g.Direct(40.0, i, 30.0, 1.0e6 * (i + 1), la, lo, az); return V{s, a1, a2, m, M1, M2, S, la, lo, az}; };
  p["geod_wgs84"] = [=](int i) { return inv(Geodesic::WGS84(), i); };
  p["geod_obj"] = [=](int i) { return inv(G->geod, i); };
  p["geodex_wgs84"] = [=](int i) { return invx(GeodesicExact::WGS84(), i); };
  p["geodex_obj"] = [=](int i) { return invx(G->geodex, i); };
  p["geodexact_true"] = [=](int i) { return inv(G->geodx, i); };
  p["line_pos"] = [](int i) { double la, lo, az, m, M1, M2, S; G->line.Position(1.0e5 * (i + 1), la, lo, az, m, M1, M2, S); return V{la, lo, az, m, M1, M2, S}; };
  p["lineex_pos"] = [](int i) { double la, lo, az, m, M1, M2, S; G->lineex.Position(1.0e5 * (i + 1), la, lo, az, m, M1, M2, S); return V{la, lo, az, m, M1, M2, S}; };
  auto rh = [](const Rhumb& r, int i) { double s, az, S; r.Inverse(10.0 + i, 20.0, 40.0, 100.0 - i, s, az, S); double la, lo, S2; r.Direct(40.0, i, 60.0, 1.0e6, la, lo, S2); return V{s, az, S, la, lo, S2}; };
  p["rhumb_wgs84"] = [=](int i) { return rh(Rhumb::WGS84(), i); };
  p["rhumb_series"] = [=](int i) { return rh(G->rhumb, i); };
  p["rhumb_exact"] = [=](int i) { return rh(G->rhumbx, i); };
  p["rhumbline_pos"] = [](int i) { double la, lo, S; G->rline.Position(1.0e5 * (i + 1), la, lo, S); return V{la, lo, S}; };
  auto tmf = [](const TransverseMercator& t, int i) { double x, y, g, k, la, lo; t.Forward(3.0, 40.0 + i, 5.0, x, y, g, k); t.Reverse(3.0, x, y, la, lo, g, k); return V{x, y, g, k, la, lo}; };
  p["tm_utm"] = [=](int i) { return tmf(TransverseMercator::UTM(), i); };
  p["tm_obj"] = [=](int i) { return tmf(G->tm, i); };
  p["tmx_utm"] = [](int i) { double x, y, g, k, la, lo; TransverseMercatorExact::UTM().Forward(3.0, 40.0 + i, 5.0, x, y, g, k); TransverseMercatorExact::UTM().Reverse(3.0, x, y, la, lo, g, k); return V{x, y, g, k, la, lo}; };
  p["ps_ups"] = [](int i) { double x, y, g, k, la, lo; PolarStereographic::UPS().Forward(true, 85.0 - i, 30.0, x, y, g, k); PolarStereographic::UPS().Reverse(true, x, y, la, lo, g, k); return V{x, y, g, k, la, lo}; };
  auto lc = [](const LambertConformalConic& l, int i) { double x, y, g, k, la, lo; l.Forward(10.0, 40.0 + i, 20.0, x, y, g, k); l.Reverse(10.0, x, y, la, lo, g, k); return V{x, y, g, k, la, lo}; };
  p["lcc_mercator"] = [=](int i) { return lc(LambertConformalConic::Mercator(), i); };
  p["lcc_obj"] = [=](int i) { return lc(G->lcc, i); };
  auto al = [](const AlbersEqualArea& l, int i) { double x, y, g, k, la, lo; l.Forward(10.0, 40.0 + i, 20.0, x, y, g, k); l.Reverse(10.0, x, y, la, lo, g, k); return V{x, y, g, k, la, lo}; };
  p["albers_cea"] = [=](int i) { return al(AlbersEqualArea::CylindricalEqualArea(), i); };
  p["albers_obj"] = [=](int i) { return al(G->alb, i); };
  p["geoc_wgs84"] = [](int i) { double X, Y, Z, la, lo, h; vector<double> M(9); Geocentric::WGS84().Forward(40.0 + i, 20.0, 1000.0, X, Y, Z, M); Geocentric::WGS84().Reverse(X, Y, Z, la, lo, h); return V{X, Y, Z, la, lo, h, M[0], M[4], M[8]}; };
  p["local_obj"] = [](int i) { double x, y, z, la, lo, h; G->local.Forward(48.5 + 0.1 * i, 2.5, 200.0, x, y, z); G->local.Reverse(x, y, z, la, lo, h); return V{x, y, z, la, lo, h}; };
  p["ell_wgs84"] = [](int i) { const Ellipsoid& e = Ellipsoid::WGS84(); return V{e.MeridianDistance(30.0 + i), e.Area(), e.RectifyingLatitude(40.0 + i), e.ConformalLatitude(20.0 + i), e.AuthalicLatitude(50.0 - i), e.IsometricLatitude(60.0), e.CircleRadius(33.0 + i), e.QuarterMeridian()}; };
  p["aux_series"] = [](int i) { V r; for (int a = 0; a < 6; ++a) for (int b = 0; b < 6; ++b) r.push_back(G->aux.Convert(a, b, 30.0 + i + a - b, false)); return r; };
  p["aux_exact"] = [](int i) { V r; for (int a = 0; a < 6; ++a) for (int b = 0; b < 6; ++b) r.push_back(G->aux.Convert(a, b, 30.0 + i + a - b, true)); return r; };
  p["daux_series"] = [](int i) { V r; AuxAngle x(AuxAngle::degrees(20.0 + i)), y(AuxAngle::degrees(40.0 + i)); for (int a = 0; a < 6; ++a) for (int b = 0; b < 6; ++b) r.push_back(G->daux.DConvert(a, b, x, y)); return r; };
  p["elliptic_obj"] = [](int i) { double sn, cn, dn; G->ef.sncndn(0.3 + 0.1 * i, sn, cn, dn); return V{G->ef.K(), G->ef.E(), G->ef.F(0.5 + 0.1 * i), G->ef.E(0.4 + 0.1 * i), G->ef.Pi(0.3), sn, cn, dn, G->ef.Einv(0.7 + 0.05 * i)}; };
  p["normgrav_wgs84"] = [](int i) { const NormalGravity& n = NormalGravity::WGS84(); double gy, gz, gx, gy2, gz2; double u = n.U(7.0e6, 1.0e5 * i, 2.0e6, gx, gy2, gz2); double gg = n.Gravity(40.0 + i, 1000.0, gy, gz); return V{u, gx, gy2, gz2, gg, gy, gz, n.SurfaceGravity(30.0 + i)}; };
  p["harmonic_obj"] = [](int i) { double gx, gy, gz; double v = (*G->sh)(7.0e6, 1.0e5 * (i + 1), 2.0e6, gx, gy, gz); return V{v, gx, gy, gz}; };
  p["circle_obj"] = [](int i) { double gx, gy, gz; double v = (*G->circ)(10.0 * i, gx, gy, gz); return V{v, gx, gy, gz}; };
  p["geoid_ts"] = [](int i) { return V{(*G->geoid)(40.0 + i, 10.0 * i), (*G->geoid)(-85.0, 179.0 + i), G->geoid->ConvertHeight(10.0, 20.0 + i, 100.0, Geoid::GEOIDTOELLIPSOID)}; };
  p["geoid_ts_bilinear"] = [](int i) { return V{(*G->geoidl)(40.0 + 7 * i, 10.0 * i + 3), (*G->geoidl)(-85.0 + i, 179.0 + i), (*G->geoidl)(12.0 * i - 30, -77.0 + 31 * i), G->geoidl->ConvertHeight(10.0, 20.0 + 13 * i, 100.0, Geoid::GEOIDTOELLIPSOID)}; };
  p["utmups_fwd"] = [](int i) { int z; bool n; double x, y, la, lo; UTMUPS::Forward(40.0 + i, 10.0 * i, z, n, x, y); UTMUPS::Reverse(z, n, x, y, la, lo); int z2; bool n2; double x2, y2; UTMUPS::Forward(88.0, 10.0 * i, z2, n2, x2, y2); return V{double(z), double(n), x, y, la, lo, x2, y2}; };
  p["mgrs_fwd"] = [](int i) { string m; MGRS::Forward(31 + i, true, 5.0e5, 4.0e6 + 1000.0 * i, 5, m); int z, pr; bool n; double x, y; MGRS::Reverse(m, z, n, x, y, pr); return V{double(z), double(n), x, y, double(pr), double(m.size())}; };
  p["osgb_fwd"] = [](int i) { double x, y, la, lo; OSGB::Forward(52.0 + 0.1 * i, -1.0, x, y); OSGB::Reverse(x, y, la, lo); string g; OSGB::GridReference(x, y, 3, g); return V{x, y, la, lo, double(g.size())}; };
  p["dms_codec"] = [](int i) { DMS::flag f; double v = DMS::Decode("40d26'47\"N", f); string s = DMS::Encode(40.4464 + i, 3, DMS::LATITUDE); return V{v, double(f), double(s.size()), DMS::Decode(s, f)}; };
  p["gridcodes"] = [](int i) { string h, g, r; Geohash::Forward(40.0 + i, 10.0, 9, h); GARS::Forward(40.0 + i, 10.0, 2, g); Georef::Forward(40.0 + i, 10.0, 4, r); double la, lo; int pr; Geohash::Reverse(h, la, lo, pr); return V{la, lo, double(pr), double(g.size() + r.size())}; };
  p["azeq_obj"] = [](int i) { double x, y, la, lo; G->azeq.Forward(40.0, 10.0, 45.0 + i, 12.0, x, y); G->azeq.Reverse(40.0, 10.0, x, y, la, lo); return V{x, y, la, lo}; };
  p["gnomonic_obj"] = [](int i) { double x, y, la, lo; G->gno.Forward(40.0, 10.0, 45.0 + i, 12.0, x, y); G->gno.Reverse(40.0, 10.0, x, y, la, lo); return V{x, y, la, lo}; };
  p["cassini_obj"] = [](int i) { double x, y, la, lo; G->cas.Forward(45.0 + i, 12.0, x, y); G->cas.Reverse(x, y, la, lo); return V{x, y, la, lo}; };
  p["dst_obj"] = [](int i) { vector<double> F(96); auto f = [i](double x) { return sin(x) + 0.1 * (i + 1) * sin(3 * x); }; G->dst.transform(f, F.data()); return V{F[0], F[1], F[2], G->dst.eval(0.3, cos(0.3), F.data(), 48)}; };
  // ---- data-file models and their circles; const members that create line / circle objects from a shared solver ----
  p["gravmodel_obj"] = [](int i) { const GravityModel& m = *G->gm; double gx, gy, gz, dx, dy, dz, Dg, xi, eta, wx, wy, wz, tx, ty, tz;
    double W = m.Gravity(30.0 + i, 20.0 * i, 1000.0, gx, gy, gz), T = m.Disturbance(30.0 + i, 20.0 * i, 1000.0, dx, dy, dz); m.SphericalAnomaly(30.0 + i, 20.0 * i, 1000.0, Dg, xi, eta);
    double w = m.W(4.0e6, 3.0e6 + 1.0e5 * i, 4.0e6, wx, wy, wz), t = m.T(4.0e6, 3.0e6 + 1.0e5 * i, 4.0e6, tx, ty, tz);
    return V{W, gx, gy, gz, T, dx, dy, dz, Dg, xi, eta, w, wx, wy, wz, t, tx, ty, tz, m.GeoidHeight(30.0 + i, 20.0 * i), m.T(4.0e6, 3.0e6, 4.1e6 + i)}; };
  p["gravcircle_obj"] = [](int i) { const GravityCircle& c = *G->gc; double gx, gy, gz, dx, dy, dz, Dg, xi, eta; double W = c.Gravity(25.0 * i, gx, gy, gz), T = c.Disturbance(25.0 * i, dx, dy, dz);
    c.SphericalAnomaly(25.0 * i, Dg, xi, eta); return V{W, gx, gy, gz, T, dx, dy, dz, Dg, xi, eta, c.GeoidHeight(25.0 * i), c.T(25.0 * i), c.V(25.0 * i, gx, gy, gz)}; };
  p["gravmodel_circle"] = [](int i) { GravityCircle c = G->gm->Circle(10.0 + i, 500.0 * i, GravityModel::ALL); double gx, gy, gz; double W = c.Gravity(33.0, gx, gy, gz); return V{W, gx, gy, gz, c.GeoidHeight(33.0)}; };
  p["magmodel_obj"] = [](int i) { const MagneticModel& m = *G->mm; double bx, by, bz, bxt, byt, bzt, H, F, D, I; m(2001.0 + 3.0 * i, 30.0 + i, 20.0 * i, 1000.0, bx, by, bz, bxt, byt, bzt);
    MagneticModel::FieldComponents(bx, by, bz, H, F, D, I); double cx, cy, cz; m.FieldGeocentric(2004.0 + i, 4.0e6, 3.0e6, 4.0e6, cx, cy, cz, bxt, byt, bzt); return V{bx, by, bz, bxt, byt, bzt, H, F, D, I, cx, cy, cz}; };
  p["magcircle_obj"] = [](int i) { double bx, by, bz, bxt, byt, bzt; (*G->mc)(25.0 * i, bx, by, bz, bxt, byt, bzt); return V{bx, by, bz, bxt, byt, bzt}; };
  p["magmodel_circle"] = [](int i) { MagneticCircle c = G->mm->Circle(2002.0 + 4.0 * i, 10.0 + i, 500.0 * i); double bx, by, bz; c(33.0, bx, by, bz); return V{bx, by, bz}; };
  p["geod_line_make"] = [](int i) { GeodesicLine l = G->geod.Line(10.0 + i, 20.0, 30.0 + i, Geodesic::ALL), l2 = G->geod.InverseLine(10.0 + i, 20.0, -30.0, 100.0 + i, Geodesic::ALL);
    double la, lo, az, m, M1, M2, S, la2, lo2; l.Position(1.0e6, la, lo, az, m, M1, M2, S); l2.Position(0.5 * l2.Distance(), la2, lo2); return V{la, lo, az, m, M1, M2, S, la2, lo2, l2.Distance()}; };
  p["geodex_line_make"] = [](int i) { GeodesicLineExact l = G->geodex.Line(10.0 + i, 20.0, 30.0 + i, GeodesicExact::ALL), l2 = G->geodex.InverseLine(10.0 + i, 20.0, -30.0, 100.0 + i, GeodesicExact::ALL);
    double la, lo, az, m, M1, M2, S, la2, lo2; l.Position(1.0e6, la, lo, az, m, M1, M2, S); l2.Position(0.5 * l2.Distance(), la2, lo2); return V{la, lo, az, m, M1, M2, S, la2, lo2, l2.Distance()}; };
  p["rhumb_line_make"] = [](int i) { RhumbLine l = G->rhumb.Line(10.0 + i, 20.0, 30.0 + i), lx = G->rhumbx.Line(10.0 + i, 20.0, 30.0 + i); double la, lo, S, la2, lo2, S2; l.Position(1.0e6, la, lo, S); lx.Position(1.0e6, la2, lo2, S2);
    return V{la, lo, S, la2, lo2, S2}; };
  p["ps_obj"] = [](int i) { double x, y, g, k, la, lo; G->ps.Forward(i % 2 == 0, 80.0 - i, 30.0, x, y, g, k); G->ps.Reverse(i % 2 == 0, x, y, la, lo, g, k); return V{x, y, g, k, la, lo}; };
  p["tmx_obj"] = [](int i) { double x, y, g, k, la, lo; G->tmx.Forward(3.0, 40.0 + i, 5.0, x, y, g, k); G->tmx.Reverse(3.0, x, y, la, lo, g, k); return V{x, y, g, k, la, lo}; };
  p["ell_obj"] = [](int i) { const Ellipsoid& e = G->ell; return V{e.MeridianDistance(30.0 + i), e.Area(), e.RectifyingLatitude(40.0 + i), e.InverseRectifyingLatitude(40.0 + i), e.ConformalLatitude(20.0 + i),
    e.InverseConformalLatitude(20.0 + i), e.AuthalicLatitude(50.0 - i), e.InverseAuthalicLatitude(50.0 - i), e.IsometricLatitude(60.0), e.InverseIsometricLatitude(60.0 + i), e.CircleRadius(33.0 + i), e.QuarterMeridian()}; };
  p["normgrav_obj"] = [](int i) { const NormalGravity& n = G->ng; double gy, gz, gx, gy2, gz2; double u = n.U(7.0e6, 1.0e5 * i, 2.0e6, gx, gy2, gz2); double gg = n.Gravity(40.0 + i, 1000.0, gy, gz);
    return V{u, gx, gy2, gz2, gg, gy, gz, n.SurfaceGravity(30.0 + i), n.DynamicalFormFactor(2), n.DynamicalFormFactor(4 + 2 * i)}; };
  return p;
}

static bool same(const V& a, const V& b) {
  if (a.size() != b.size()) return false;
  for (size_t i = 0; i < a.size(); ++i) if (vt::bits(a[i]) != vt::bits(b[i]) && !(std::isnan(a[i]) && std::isnan(b[i]))) return false;
  return true;
}

int main(int argc, char** argv) {
  if (argc < 6) { fprintf(stderr, "usage: drv_threads progA progB cold nthreads dir | list\n"); return 2; }
  string A = argv[1], B = argv[2]; bool cold = atoi(argv[3]) != 0; int nt = atoi(argv[4]); string dir = argv[5];
  Shared shared(dir); G = &shared;
  auto P = programs();
  if (!P.count(A) || !P.count(B)) { vt::Rec r; r.str("e", "conc").str("a", A).str("b", B).b("cold", cold).b("known", false).b("same", false); r.emit(); return 0; }
  const int ITER = 3;
  if (!cold) for (int i = 0; i < ITER; ++i) { P[A](i); P[B](i); }     // warm: first touches happen before the threads start
  vector<vector<V>> res(nt, vector<V>(ITER));
  atomic<int> ready(0);
  vector<thread> th;
  for (int t = 0; t < nt; ++t) th.emplace_back([&, t] {
    const function<V(int)>& f = P[(t % 2 == 0) ? A : B];
    ready.fetch_add(1); while (ready.load() < nt) { }                   // start together
    for (int i = 0; i < ITER; ++i) res[t][i] = f(i);
  });
  for (auto& x : th) x.join();
  bool ok = true;
  for (int t = 0; t < nt; ++t) for (int i = 0; i < ITER; ++i) ok = ok && same(res[t][i], P[(t % 2 == 0) ? A : B](i));   // solo, afterwards
  vt::Rec r; r.str("e", "conc").str("a", A).str("b", B).b("cold", cold).b("known", true).b("same", ok).i("nt", nt); r.emit();
  return 0;
}
