// Driver for C14: runs one configuration <<program A, program B, cold>> chosen by TLC from Threads.tla on the real
// library with N threads (built with -fsanitize=thread).  ThreadSanitizer's verdict is read by the check script from
// the exit status / stderr; this program reports whether every concurrent call returned, bit for bit, what the same
// call returns when executed alone, and which of the library's singleton accessors were called before the threads
// started ("pre") and by the threads ("used").  It decides nothing.
//
// Inputs: a program is a function of (thread number t, iteration i); thread t runs f(t, 0), f(t, 1), ... so that no two
// threads evaluate the same point at the same time, and the reference values are f(t, i) executed alone afterwards.
//
// Singleton accessors are observed with the linker: the check script links this driver with -Wl,--wrap=<accessor> for
// every accessor declared in the headers, so that every call from another object file (this driver, header inline
// code, other library sources) passes through the __wrap_ functions below.
#include "trace.hpp"
#include <GeographicLib/Geodesic.hpp>
#include <GeographicLib/GeodesicExact.hpp>
#include <GeographicLib/GeodesicLine.hpp>
#include <GeographicLib/GeodesicLineExact.hpp>
#include <GeographicLib/Rhumb.hpp>
#include <GeographicLib/TransverseMercator.hpp>
#include <GeographicLib/TransverseMercatorExact.hpp>
#include <GeographicLib/PolarStereographic.hpp>
#include <GeographicLib/LambertConformalConic.hpp>
#include <GeographicLib/AlbersEqualArea.hpp>
#include <GeographicLib/Geocentric.hpp>
#include <GeographicLib/LocalCartesian.hpp>
#include <GeographicLib/Ellipsoid.hpp>
#include <GeographicLib/AuxLatitude.hpp>
#include <GeographicLib/DAuxLatitude.hpp>
#include <GeographicLib/EllipticFunction.hpp>
#include <GeographicLib/NormalGravity.hpp>
#include <GeographicLib/SphericalHarmonic.hpp>
#include <GeographicLib/CircularEngine.hpp>
#include <GeographicLib/Geoid.hpp>
#include <GeographicLib/UTMUPS.hpp>
#include <GeographicLib/MGRS.hpp>
#include <GeographicLib/OSGB.hpp>
#include <GeographicLib/DMS.hpp>
#include <GeographicLib/Geohash.hpp>
#include <GeographicLib/GARS.hpp>
#include <GeographicLib/Georef.hpp>
#include <GeographicLib/AzimuthalEquidistant.hpp>
#include <GeographicLib/Gnomonic.hpp>
#include <GeographicLib/CassiniSoldner.hpp>
#include <GeographicLib/DST.hpp>
#include <GeographicLib/GravityModel.hpp>
#include <GeographicLib/GravityCircle.hpp>
#include <GeographicLib/MagneticModel.hpp>
#include <GeographicLib/MagneticCircle.hpp>
#include <atomic>
#include <fstream>
#include <functional>
#include <map>
#include <memory>
#include <thread>
#include <sys/stat.h>

using namespace GeographicLib;
using namespace std;
typedef vector<double> V;

// ---- observation of the singleton accessors (linker --wrap) ----
// g_phase is written by main() only while no other thread exists (thread creation / join order the accesses);
// the touch masks are relaxed atomics, which ThreadSanitizer does not treat as synchronisation.
static int g_phase = 0;                       // 0: construction and warm-up in main, 1: threads running, 2: solo reference
static atomic<unsigned> g_touch[3];
static const char* const ACC[] = {
  "Geodesic::WGS84", "GeodesicExact::WGS84", "Rhumb::WGS84", "TransverseMercator::UTM", "TransverseMercatorExact::UTM",
  "PolarStereographic::UPS", "LambertConformalConic::Mercator", "AlbersEqualArea::CylindricalEqualArea",
  "AlbersEqualArea::AzimuthalEqualAreaNorth", "AlbersEqualArea::AzimuthalEqualAreaSouth", "Geocentric::WGS84", "Ellipsoid::WGS84",
  "NormalGravity::WGS84", "NormalGravity::GRS80", "AuxLatitude::WGS84", "OSGB::OSGBTM", "OSGB::northoffset" };
static const int NACC = int(sizeof(ACC) / sizeof(ACC[0]));
static inline void note(int idx) { unsigned b = 1u << idx; if (!(g_touch[g_phase].load(memory_order_relaxed) & b)) g_touch[g_phase].fetch_or(b, memory_order_relaxed); }
#define WRAPREF(sym, idx) extern "C" const void* __real_##sym(); extern "C" const void* __wrap_##sym() { note(idx); return __real_##sym(); }
WRAPREF(_ZN13GeographicLib8Geodesic5WGS84Ev, 0)
WRAPREF(_ZN13GeographicLib13GeodesicExact5WGS84Ev, 1)
WRAPREF(_ZN13GeographicLib5Rhumb5WGS84Ev, 2)
WRAPREF(_ZN13GeographicLib18TransverseMercator3UTMEv, 3)
WRAPREF(_ZN13GeographicLib23TransverseMercatorExact3UTMEv, 4)
WRAPREF(_ZN13GeographicLib18PolarStereographic3UPSEv, 5)
WRAPREF(_ZN13GeographicLib21LambertConformalConic8MercatorEv, 6)
WRAPREF(_ZN13GeographicLib15AlbersEqualArea20CylindricalEqualAreaEv, 7)
WRAPREF(_ZN13GeographicLib15AlbersEqualArea23AzimuthalEqualAreaNorthEv, 8)
WRAPREF(_ZN13GeographicLib15AlbersEqualArea23AzimuthalEqualAreaSouthEv, 9)
WRAPREF(_ZN13GeographicLib10Geocentric5WGS84Ev, 10)
WRAPREF(_ZN13GeographicLib9Ellipsoid5WGS84Ev, 11)
WRAPREF(_ZN13GeographicLib13NormalGravity5WGS84Ev, 12)
WRAPREF(_ZN13GeographicLib13NormalGravity5GRS80Ev, 13)
WRAPREF(_ZN13GeographicLib11AuxLatitude5WGS84Ev, 14)
WRAPREF(_ZN13GeographicLib4OSGB6OSGBTMEv, 15)
extern "C" double __real__ZN13GeographicLib4OSGB18computenorthoffsetEv();
extern "C" double __wrap__ZN13GeographicLib4OSGB18computenorthoffsetEv() { note(16); return __real__ZN13GeographicLib4OSGB18computenorthoffsetEv(); }

// ---- synthetic model files (formats: doc sections magneticformat / gravityformat) ----
static void put_i32(string& f, int v) { for (int i = 0; i < 4; ++i) f.push_back(char(((unsigned) v) >> (8 * i))); }
static void put_f64(string& f, double v) { uint64_t u = vt::bits(v); for (int i = 0; i < 8; ++i) f.push_back(char(u >> (8 * i))); }
static void put_set(string& f, int N, int M, vt::Rng& g, double scale) {
  put_i32(f, N); put_i32(f, M); int cs = (M + 1) * (2 * N - M + 2) / 2, ss = cs - (N + 1);
  for (int i = 0; i < cs; ++i) put_f64(f, i == 0 ? 0.0 : g.uni(-1, 1) * scale);
  for (int i = 0; i < ss; ++i) put_f64(f, g.uni(-1, 1) * scale);
}
static void write_models(const string& dir) {
  vt::Rng g(11);
  { ofstream m((dir + "/tsm.wmm").c_str()); m << "WMMF-2\nName tsm\nDescription synthetic\nReleaseDate 2026-01-01\nRadius 6371200\nNumModels 2\nNumConstants 1\nEpoch 2000\nDeltaEpoch 5\n"
      "MinTime 1990\nMaxTime 2030\nMinHeight -1000\nMaxHeight 600000\nNormalization schmidt\nType linear\nByteOrder little\nID THREADSM\n";
    string c = "THREADSM"; put_set(c, 6, 6, g, 1000); put_set(c, 6, 6, g, 900); put_set(c, 4, 4, g, 10); put_set(c, 2, 2, g, 5);
    ofstream f((dir + "/tsm.wmm.cof").c_str(), ios::binary); f.write(c.data(), streamsize(c.size())); }
  { ofstream m((dir + "/tsg.egm").c_str()); m << "EGMF-1\nName tsg\nDescription synthetic\nReleaseDate 2026-01-01\nModelRadius 6378136.3\nModelMass 3986004.415e8\nAngularVelocity 7292115e-11\n"
      "ReferenceRadius 6378137\nReferenceMass 3986004.418e8\nFlattening 0.0033528106647474805\nHeightOffset -0.41\nCorrectionMultiplier 0.01\n"
      "Normalization full\nByteOrder little\nID THREADSG\n";
    string c = "THREADSG"; put_set(c, 8, 8, g, 1e-6); put_set(c, 3, 3, g, 1e-2);
    ofstream f((dir + "/tsg.egm.cof").c_str(), ios::binary); f.write(c.data(), streamsize(c.size())); }
}

// ---- shared objects (constructed in main, before any thread starts) ----
// Nothing here may call a singleton accessor (not even through a defaulted "earth" argument): in a cold configuration
// the first touch of every singleton must be made by the threads.  The "pre" field of the record shows what main() touched.
static const double WA = 6378137.0, WF = 1 / 298.257223563;
struct Shared {
  Geodesic geod{WA, WF}; GeodesicExact geodex{WA, WF}; Geodesic geodx{WA, WF, true}; Geocentric geoc{WA, WF};
  GeodesicLine line; GeodesicLineExact lineex;
  Rhumb rhumb{WA, WF, false}; Rhumb rhumbx{WA, WF, true}; RhumbLine rline;
  TransverseMercator tm{WA, WF, 0.9996}; LambertConformalConic lcc{WA, WF, 40.0, 50.0, 1.0};
  AlbersEqualArea alb{WA, WF, 40.0, 50.0, 1.0}; LocalCartesian local{48.0, 2.0, 100.0, geoc};
  AuxLatitude aux{WA, WF}; AuxLatitude auxb{AuxLatitude::axes(WA, 6356752.314245)}; DAuxLatitude daux{WA, WF}; EllipticFunction ef{0.3, 0.2};
  vector<double> C, S; unique_ptr<SphericalHarmonic> sh; unique_ptr<CircularEngine> circ; unique_ptr<Geoid> geoid, geoidl;
  AzimuthalEquidistant azeq{geod}; Gnomonic gno{geod}; CassiniSoldner cas{40.0, 10.0, geod};
  DST dst{48};
  PolarStereographic ps{WA, WF, 0.994}; TransverseMercatorExact tmx{WA, WF, 0.9996};
  Ellipsoid ell{WA, WF}; NormalGravity ng{WA, 3.986004418e14, 7.292115e-5, WF, true};
  unique_ptr<GravityModel> gm; unique_ptr<MagneticModel> mm; unique_ptr<GravityCircle> gc; unique_ptr<MagneticCircle> mc;
  Shared(const string& dir) : line(geod.Line(40.6, -73.8, 53.5)), lineex(geodex.Line(40.6, -73.8, 53.5)), rline(rhumb.Line(40.6, -73.8, 53.5)) {
    int N = 8; vt::Rng g(7); for (int i = 0; i < (N + 1) * (N + 2) / 2; ++i) C.push_back(g.uni(-1, 1)); for (int i = 0; i < N * (N + 1) / 2; ++i) S.push_back(g.uni(-1, 1));
    SphericalEngine::RootTable(N + 2);
    sh.reset(new SphericalHarmonic(C, S, N, 6378137.0)); circ.reset(new CircularEngine(sh->Circle(7.0e6, 2.0e6, true)));
    mkdir(dir.c_str(), 0755);
    { ofstream f((dir + "/tsgeoid.pgm").c_str(), ios::binary); f << "P5\n# Offset -108\n# Scale 0.25\n36 19\n65535\n";
      for (int i = 0; i < 36 * 19; ++i) { unsigned v = unsigned((i * 7919) % 5000); f.put(char(v >> 8)); f.put(char(v & 255)); } }
    geoid.reset(new Geoid("tsgeoid", dir, true, true)); geoidl.reset(new Geoid("tsgeoid", dir, false, true));
    write_models(dir); gm.reset(new GravityModel("tsg", dir)); mm.reset(new MagneticModel("tsm", dir, geoc));
    gc.reset(new GravityCircle(gm->Circle(30.0, 1000.0, GravityModel::ALL))); mc.reset(new MagneticCircle(mm->Circle(2003.0, 30.0, 1000.0)));
  }
};
static Shared* G = nullptr;
static int NT = 3;           // number of threads
static double SD = 0;        // seed-dependent offset in [0, 0.1) added to inputs where no special case is intended

// ---- helpers to build the observation vectors ----
static void pushs(V& r, const string& s) { r.push_back(double(s.size())); for (unsigned char c : s) r.push_back(double(c)); }
static void pusha(V& r, const AuxAngle& a) { r.push_back(a.y()); r.push_back(a.x()); }
static void cat(V& r, const V& x) { r.insert(r.end(), x.begin(), x.end()); }

// ---- solver families, one lattice of inputs by branch class (k = input index, distinct for every (thread, iteration)) ----
// Inverse: ordinary, nearly antipodal (astroid starting point), meridional, equatorial, equatorial beyond the
// conjugate point, short, exactly antipodal, pole to pole, near a pole; reduced output masks.  Direct: distance and
// arc mode, LONG_UNROLL, reduced masks.
template<class Geo> static V solve(const Geo& g, int k) {
  V r; double e = 0.001 * k + SD;
  auto I = [&](double la1, double lo1, double la2, double lo2) { double s = 0, a1 = 0, a2 = 0, m = 0, M1 = 0, M2 = 0, S = 0;
    double a12 = g.Inverse(la1, lo1, la2, lo2, s, a1, a2, m, M1, M2, S); cat(r, V{a12, s, a1, a2, m, M1, M2, S}); };
  I(10.0 + k + SD, 20.0, -30.0, 140.0 - k);
  I(-1.0 - 0.1 * k - SD, 0.0, 1.3 + e, 179.6 - 0.01 * k);
  I(-0.3 - 0.01 * k, 10.0, 0.3 + 0.02 * k + SD, -170.2 + 0.005 * k);
  I(10.0 + k, 30.0, -40.0 + k + SD, 30.0);
  I(0.0, 10.0, 0.0, 100.0 + k + SD);
  I(0.0, 0.0, 0.0, 179.5 + 0.02 * k);
  I(40.0 + k, 10.0, 40.0 + k + 1.0e-4, 10.0 + 1.0e-4 * (k + 1));
  I(30.0 + k, 0.0, -30.0 - k, 180.0);
  I(90.0, 0.0, -90.0, 50.0 + k);
  I(89.9 - e, 15.0, 89.95, -160.0 + k);
  { double s = 0, a1 = 0, a2 = 0, m = 0, M1 = 0, M2 = 0, S = 0;
    g.Inverse(5.0 + k, 1.0, 20.0 + SD, 60.0 + k, s); r.push_back(s); g.Inverse(5.0 + k, 1.0, 20.0, 61.0 + k, a1, a2); cat(r, V{a1, a2});
    g.GenInverse(-5.0 - k, 1.0, 25.0, 62.0 + k + SD, Geo::AREA, s, a1, a2, m, M1, M2, S); r.push_back(S);
    g.GenInverse(-5.0 - k, 1.0, 25.0, 63.0 + k, Geo::REDUCEDLENGTH | Geo::GEODESICSCALE, s, a1, a2, m, M1, M2, S); cat(r, V{m, M1, M2}); }
  { double la = 0, lo = 0, az = 0, s = 0, m = 0, M1 = 0, M2 = 0, S = 0;
    double a12 = g.Direct(40.0, k, 30.0 + SD, 1.0e6 * (k + 1), la, lo, az, m, M1, M2, S); cat(r, V{a12, la, lo, az, m, M1, M2, S});
    g.ArcDirect(-20.0 + k, 5.0, 100.0 + 3 * k + SD, 50.0 + 7 * k, la, lo, az, s, m, M1, M2, S); cat(r, V{la, lo, az, s, m, M1, M2, S});
    g.GenDirect(10.0, 170.0, 80.0 + k, false, 3.0e6 + 1.0e5 * k, Geo::LATITUDE | Geo::LONGITUDE | Geo::LONG_UNROLL, la, lo, az, s, m, M1, M2, S); cat(r, V{la, lo});
    g.Direct(-33.0 - k, 2.0, 181.0 + k, 2.0e7 - 1.0e5 * k, la, lo); cat(r, V{la, lo});
    g.GenDirect(89.0, 0.0, 10.0 * k, true, 179.0 + e, Geo::ALL, la, lo, az, s, m, M1, M2, S); cat(r, V{la, lo, az, s, m, M1, M2, S}); }
  return r;
}
template<class Line> static V along(const Line& l, int k) {
  V r; double la = 0, lo = 0, az = 0, s = 0, m = 0, M1 = 0, M2 = 0, S = 0;
  l.Position(1.0e5 * (k + 1) + 1000 * SD, la, lo, az, m, M1, M2, S); cat(r, V{la, lo, az, m, M1, M2, S});
  l.ArcPosition(10.0 * k + 1.0 + SD, la, lo, az, s, m, M1, M2, S); cat(r, V{la, lo, az, s, m, M1, M2, S});
  l.Position(-2.0e5 * (k + 1), la, lo); cat(r, V{la, lo});
  l.GenPosition(false, 1.9e7 + 1.0e5 * k, Line::LATITUDE | Line::LONGITUDE | Line::AZIMUTH | Line::LONG_UNROLL, la, lo, az, s, m, M1, M2, S); cat(r, V{la, lo, az});
  l.GenPosition(true, 200.0 + k, Line::AREA | Line::DISTANCE, la, lo, az, s, m, M1, M2, S); cat(r, V{s, S});
  return r;
}
template<class Geo, class Line> static V makelines(const Geo& g, int k) {
  V r; double la = 0, lo = 0, az = 0, m = 0, M1 = 0, M2 = 0, S = 0, la2 = 0, lo2 = 0;
  Line l = g.Line(10.0 + k + SD, 20.0, 30.0 + k, Geo::ALL), l2 = g.InverseLine(10.0 + k, 20.0, -30.0, 100.0 + k + SD, Geo::ALL);
  l.Position(1.0e6, la, lo, az, m, M1, M2, S); l2.Position(0.5 * l2.Distance(), la2, lo2); cat(r, V{la, lo, az, m, M1, M2, S, la2, lo2, l2.Distance()});
  Line l3 = g.DirectLine(-10.0 - k, 5.0, 200.0 + k + SD, 4.0e6), l4 = g.ArcDirectLine(1.0 + k, 0.0, 90.0, 120.0 + k, Geo::LATITUDE | Geo::LONGITUDE),
    l5 = g.GenDirectLine(50.0, 10.0 * k, -45.0, false, 1.0e6 + k, Geo::DISTANCE_IN | Geo::LONGITUDE | Geo::LATITUDE), l6 = g.InverseLine(-1.0 - 0.1 * k, 0.0, 1.3, 179.6 - 0.01 * k);
  l3.Position(l3.Distance(), la, lo, az); cat(r, V{la, lo, az, l3.Arc()});
  l4.ArcPosition(l4.Arc(), la, lo); cat(r, V{la, lo});
  l5.Position(5.0e5, la, lo); cat(r, V{la, lo});
  l6.Position(l6.Distance(), la, lo, az); cat(r, V{la, lo, az, l6.Distance(), l6.Azimuth()});
  return r;
}
// Rhumb: ordinary, meridional, along a parallel, across the date line, to a pole; with and without the area
static V rhumbs(const Rhumb& h, int k) {
  V r; double s = 0, az = 0, S = 0, la = 0, lo = 0;
  h.Inverse(10.0 + k + SD, 20.0, 40.0, 100.0 - k, s, az, S); cat(r, V{s, az, S});
  h.Inverse(-10.0 - k, 30.0, 35.0 + k + SD, 30.0, s, az, S); cat(r, V{s, az, S});
  h.Inverse(33.0 + k, -10.0, 33.0 + k, 50.0 + k, s, az); cat(r, V{s, az});
  h.Inverse(-20.0, 170.0 + 0.1 * k, 25.0 + k, -160.0, s, az, S); cat(r, V{s, az, S});
  h.Inverse(80.0 - k, 5.0, 90.0, 77.0, s, az); cat(r, V{s, az});
  h.GenInverse(1.0 + k, 2.0, -3.0, 40.0 + k, Rhumb::AREA, s, az, S); r.push_back(S);
  h.Direct(40.0, k, 60.0 + SD, 1.0e6, la, lo, S); cat(r, V{la, lo, S});
  h.Direct(-30.0 + k, 0.0, 0.0, 2.0e6 + 1000.0 * k, la, lo); cat(r, V{la, lo});
  h.Direct(15.0 + k, 100.0, 90.0, 1.5e7, la, lo, S); cat(r, V{la, lo, S});
  h.GenDirect(60.0, 10.0, 270.0 - k, 3.0e7 + 1.0e5 * k, Rhumb::LATITUDE | Rhumb::LONGITUDE | Rhumb::LONG_UNROLL, la, lo, S); cat(r, V{la, lo});
  h.Direct(70.0, 10.0, 10.0 + k, 4.0e6, la, lo, S); cat(r, V{la, lo, S});
  return r;
}
static V rhumbalong(const RhumbLine& l, int k) {
  V r; double la = 0, lo = 0, S = 0;
  l.Position(1.0e5 * (k + 1) + 1000 * SD, la, lo, S); cat(r, V{la, lo, S});
  l.Position(-3.0e5 * (k + 1), la, lo); cat(r, V{la, lo});
  l.GenPosition(2.0e7 + 1.0e5 * k, RhumbLine::LONGITUDE | RhumbLine::LONG_UNROLL | RhumbLine::LATITUDE, la, lo, S); cat(r, V{la, lo});
  l.GenPosition(4.0e6 + k, RhumbLine::AREA, la, lo, S); r.push_back(S);
  return r;
}
// projections: near and far from the central meridian, both hemispheres, pole, with and without convergence and scale
template<class TM> static V tmerc(const TM& t, int k) {
  V r; double x = 0, y = 0, g = 0, s = 0, la = 0, lo = 0;
  t.Forward(3.0, 40.0 + k + SD, 5.0, x, y, g, s); t.Reverse(3.0, x, y, la, lo, g, s); cat(r, V{x, y, g, s, la, lo});
  t.Forward(-75.0, -20.0 - k, -75.0 + 0.01 * k, x, y); t.Reverse(-75.0, x, y, la, lo); cat(r, V{x, y, la, lo});
  t.Forward(10.0, 5.0 + k, 10.0 + 60.0 + k + SD, x, y, g, s); cat(r, V{x, y, g, s});
  t.Forward(0.0, 90.0, 33.0 + k, x, y, g, s); cat(r, V{x, y, g, s});
  t.Forward(177.0, 0.0, -179.0 + 0.1 * k, x, y, g, s); cat(r, V{x, y, g, s});
  t.Reverse(9.0, 1.0e5 * k - 4.0e5, 9.0e6 - 1.0e5 * k, la, lo, g, s); cat(r, V{la, lo, g, s});
  return r;
}
static V polar(const PolarStereographic& p, int k) {
  V r; double x = 0, y = 0, g = 0, s = 0, la = 0, lo = 0;
  p.Forward(true, 85.0 - k - SD, 30.0 + 20.0 * k, x, y, g, s); p.Reverse(true, x, y, la, lo, g, s); cat(r, V{x, y, g, s, la, lo});
  p.Forward(false, -80.0 + 0.5 * k, -100.0 + k, x, y); p.Reverse(false, x, y, la, lo); cat(r, V{x, y, la, lo});
  p.Forward(k % 2 == 0, k % 2 == 0 ? 90.0 : -90.0, 10.0 * k, x, y, g, s); cat(r, V{x, y, g, s});
  p.Reverse(true, 0.0, 0.0, la, lo, g, s); cat(r, V{la, lo, g, s});
  p.Forward(true, -10.0 - k, 5.0, x, y, g, s); cat(r, V{x, y, g, s});
  return r;
}
template<class Conic> static V conic(const Conic& l, int k, double latmax) {
  V r; double x = 0, y = 0, g = 0, s = 0, la = 0, lo = 0;
  l.Forward(10.0, 40.0 + k + SD, 20.0, x, y, g, s); l.Reverse(10.0, x, y, la, lo, g, s); cat(r, V{x, y, g, s, la, lo});
  l.Forward(-100.0, -25.0 - k, -130.0 + k, x, y); l.Reverse(-100.0, x, y, la, lo); cat(r, V{x, y, la, lo});
  l.Forward(0.0, latmax - 0.5 * k, 179.0 - k, x, y, g, s); cat(r, V{x, y, g, s});
  l.Reverse(5.0, 1.0e5 * (k + 1), -2.0e5 * k, la, lo, g, s); cat(r, V{la, lo, g, s});
  return r;
}
static V geocentric(const Geocentric& c, int k) {
  V r; double X = 0, Y = 0, Z = 0, la = 0, lo = 0, h = 0; vector<double> M(9), N(9);
  c.Forward(40.0 + k + SD, 20.0 - 3 * k, 1000.0 * k, X, Y, Z, M); c.Reverse(X, Y, Z, la, lo, h, N); cat(r, V{X, Y, Z, la, lo, h}); cat(r, M); cat(r, N);
  c.Forward(-60.0 + k, 170.0 + k, -500.0, X, Y, Z); c.Reverse(X, Y, Z, la, lo, h); cat(r, V{X, Y, Z, la, lo, h});
  c.Reverse(10.0 * k, 0.0, 6.0e6 + 1000.0 * k, la, lo, h, N); cat(r, V{la, lo, h}); cat(r, N);
  c.Reverse(100.0 + k, -50.0, 10.0 * k, la, lo, h); cat(r, V{la, lo, h});
  c.Forward(90.0, 10.0 * k, 10.0 + k, X, Y, Z, M); cat(r, V{X, Y, Z}); cat(r, M);
  return r;
}
static V localcart(const LocalCartesian& c, int k) {
  V r; double x = 0, y = 0, z = 0, la = 0, lo = 0, h = 0; vector<double> M(9), N(9);
  c.Forward(48.5 + 0.1 * k + SD, 2.5, 200.0, x, y, z); c.Reverse(x, y, z, la, lo, h); cat(r, V{x, y, z, la, lo, h});
  c.Forward(47.0 - 0.2 * k, 1.0 + 0.01 * k, 50.0 * k, x, y, z, M); c.Reverse(x, y, z, la, lo, h, N); cat(r, V{x, y, z, la, lo, h}); cat(r, M); cat(r, N);
  c.Reverse(1.0e4 * k, -2.0e4, 3.0e3 + k, la, lo, h, N); cat(r, V{la, lo, h}); cat(r, N);
  c.Forward(-48.0, -178.0 + k, 0.0, x, y, z, M); cat(r, V{x, y, z}); cat(r, M);
  return r;
}
static V ellipsoid(const Ellipsoid& e, int k) {
  double p = 30.0 + k + SD;
  return V{e.MeridianDistance(p), e.Area(), e.Volume(), e.QuarterMeridian(), e.RectifyingLatitude(40.0 + k), e.InverseRectifyingLatitude(40.0 + k), e.ConformalLatitude(20.0 + k),
    e.InverseConformalLatitude(20.0 + k), e.AuthalicLatitude(50.0 - k), e.InverseAuthalicLatitude(50.0 - k), e.IsometricLatitude(60.0 - k), e.InverseIsometricLatitude(60.0 + k),
    e.ParametricLatitude(p), e.InverseParametricLatitude(-p), e.GeocentricLatitude(p + 1), e.InverseGeocentricLatitude(-p - 1), e.CircleRadius(33.0 + k), e.CircleHeight(33.0 + k),
    e.MeridionalCurvatureRadius(p), e.TransverseCurvatureRadius(p), e.NormalCurvatureRadius(p, 10.0 * k), e.RectifyingLatitude(90.0), e.IsometricLatitude(-90.0),
    e.MeridianDistance(-89.0 + 0.1 * k)};
}
static V auxconv(const AuxLatitude& a, int k, bool exact) {
  V r;
  for (int i = 0; i < 6; ++i) for (int j = 0; j < 6; ++j) r.push_back(a.Convert(i, j, 30.0 + k + i - j + SD, exact));
  for (int i = 0; i < 6; ++i) for (int j = 0; j < 6; ++j) pusha(r, a.Convert(i, j, AuxAngle::degrees(-70.0 + 3 * k + i + 2 * j), exact));
  r.push_back(a.RectifyingRadius(exact)); r.push_back(a.AuthalicRadiusSquared(exact));
  if (exact) {
    AuxAngle phi(AuxAngle::degrees(25.0 + 2 * k + SD));
    for (int j = 0; j < 6; ++j) { double d = 0; int n = 0; AuxAngle z = a.ToAuxiliary(j, phi, &d); pusha(r, z); r.push_back(d); pusha(r, a.FromAuxiliary(j, z, &n)); r.push_back(n); }
    pusha(r, a.ToAuxiliary(AuxLatitude::CHI, AuxAngle::degrees(90.0))); pusha(r, a.FromAuxiliary(AuxLatitude::XI, AuxAngle::degrees(-90.0)));
  }
  return r;
}
static V normgrav(const NormalGravity& n, int k) {
  double gy = 0, gz = 0, gx = 0, gy2 = 0, gz2 = 0, Gx = 0, Gy = 0, Gz = 0, fx = 0, fy = 0;
  double u = n.U(7.0e6, 1.0e5 * k, 2.0e6 + SD, gx, gy2, gz2), gg = n.Gravity(40.0 + k + SD, 1000.0, gy, gz), v0 = n.V0(6.5e6 + 1000.0 * k, -1.0e6, 3.0e6, Gx, Gy, Gz),
    ph = n.Phi(5.0e6 + k, 4.0e6, fx, fy);
  return V{u, gx, gy2, gz2, gg, gy, gz, n.SurfaceGravity(30.0 + k), v0, Gx, Gy, Gz, ph, fx, fy, n.DynamicalFormFactor(2), n.DynamicalFormFactor(4 + 2 * (k % 8)), n.SurfaceGravity(-90.0),
    n.EquatorialGravity(), n.PolarGravity(), n.GravityFlattening(), n.SurfacePotential(), n.Gravity(-89.0 + k, -100.0 * k, gy, gz), gy, gz,
    NormalGravity::FlatteningToJ2(WA, 3.986004418e14, 7.292115e-5, WF * (1 + 0.01 * k)), NormalGravity::J2ToFlattening(WA, 3.986004418e14, 7.292115e-5, 1.08263e-3 * (1 + 0.01 * k))};
}

typedef function<V(int, int)> Prog;
struct Entry { Prog f; int iters; };
static const int ITER = 8;        // iterations per thread (cheap stateful programs run more, see the table)

// ---- access programs: the same names as Threads.tla!Names ----
static map<string, Entry> programs() {
  map<string, Entry> p;
  auto K = [](function<V(int)> f, int iters = ITER) { return Entry{[f](int t, int i) { return f(i * NT + t); }, iters}; };
  p["geod_wgs84"] = K([](int k) { return solve(Geodesic::WGS84(), k); });
  p["geod_obj"] = K([](int k) { return solve(G->geod, k); });
  p["geodex_wgs84"] = K([](int k) { return solve(GeodesicExact::WGS84(), k); });
  p["geodex_obj"] = K([](int k) { return solve(G->geodex, k); });
  p["geodexact_true"] = K([](int k) { return solve(G->geodx, k); });
  p["line_pos"] = K([](int k) { return along(G->line, k); });
  p["lineex_pos"] = K([](int k) { return along(G->lineex, k); });
  p["rhumb_wgs84"] = K([](int k) { return rhumbs(Rhumb::WGS84(), k); });
  p["rhumb_series"] = K([](int k) { return rhumbs(G->rhumb, k); });
  p["rhumb_exact"] = K([](int k) { return rhumbs(G->rhumbx, k); });
  p["rhumbline_pos"] = K([](int k) { return rhumbalong(G->rline, k); });
  p["tm_utm"] = K([](int k) { return tmerc(TransverseMercator::UTM(), k); });
  p["tm_obj"] = K([](int k) { return tmerc(G->tm, k); });
  p["tmx_utm"] = K([](int k) { return tmerc(TransverseMercatorExact::UTM(), k); });
  p["ps_ups"] = K([](int k) { return polar(PolarStereographic::UPS(), k); });
  p["lcc_mercator"] = K([](int k) { return conic(LambertConformalConic::Mercator(), k, 85.0); });
  p["lcc_obj"] = K([](int k) { return conic(G->lcc, k, 89.0); });
  p["albers_cea"] = K([](int k) { return conic(AlbersEqualArea::CylindricalEqualArea(), k, 90.0); });
  p["albers_aea_north"] = K([](int k) { return conic(AlbersEqualArea::AzimuthalEqualAreaNorth(), k, 90.0); });
  p["albers_aea_south"] = K([](int k) { return conic(AlbersEqualArea::AzimuthalEqualAreaSouth(), k, 90.0); });
  p["albers_obj"] = K([](int k) { return conic(G->alb, k, 90.0); });
  p["geoc_wgs84"] = K([](int k) { return geocentric(Geocentric::WGS84(), k); });
  p["geoc_obj"] = K([](int k) { return geocentric(G->geoc, k); });
  p["local_obj"] = K([](int k) { return localcart(G->local, k); });
  p["ell_wgs84"] = K([](int k) { return ellipsoid(Ellipsoid::WGS84(), k); });
  p["aux_series"] = K([](int k) { return auxconv(G->aux, k, false); });
  p["aux_axes_series"] = K([](int k) { return auxconv(G->auxb, k, false); });
  p["aux_wgs84"] = K([](int k) { return auxconv(AuxLatitude::WGS84(), k, false); });
  p["aux_exact"] = K([](int k) { return auxconv(G->aux, k, true); });
  p["daux_series"] = K([](int k) { V r; AuxAngle x(AuxAngle::degrees(20.0 + k + SD)), y(AuxAngle::degrees(40.0 + 2 * k));
    for (int a = 0; a < 6; ++a) for (int b = 0; b < 6; ++b) r.push_back(G->daux.DConvert(a, b, x, y));
    cat(r, V{G->daux.DParametric(x, y), G->daux.DRectifying(x, y), G->daux.DIsometric(x, y), G->daux.DParametric(x, x), G->daux.DRectifying(y, y), G->daux.DIsometric(x, x),
      DAuxLatitude::Dlam(0.1 * k, 0.3 + 0.1 * k)}); return r; });
  p["elliptic_obj"] = K([](int k) { const EllipticFunction& e = G->ef; double x = 0.3 + 0.1 * k + SD, sn = 0, cn = 0, dn = 0, sn2 = 0, cn2 = 0, dn2 = 0; e.sncndn(x, sn, cn, dn); double am = e.am(1.0 + 0.2 * k, sn2, cn2, dn2);
    return V{e.K(), e.E(), e.D(), e.KE(), e.Pi(), e.G(), e.H(), e.F(0.5 + 0.1 * k), e.E(0.4 + 0.1 * k), e.Ed(10.0 + 7.0 * k), e.Einv(0.7 + 0.05 * k), e.Pi(0.3 + 0.1 * k), e.D(0.2 + 0.1 * k), e.G(0.6 + 0.1 * k),
      e.H(0.1 + 0.1 * k), sn, cn, dn, e.F(sn, cn, dn), e.E(sn, cn, dn), e.Pi(sn, cn, dn), e.D(sn, cn, dn), e.G(sn, cn, dn), e.H(sn, cn, dn), e.deltaF(sn, cn, dn), e.deltaE(sn, cn, dn),
      e.deltaEinv(sn, cn), e.deltaPi(sn, cn, dn), e.deltaD(sn, cn, dn), e.deltaG(sn, cn, dn), e.deltaH(sn, cn, dn), am, sn2, cn2, dn2, e.am(-2.0 - 0.3 * k), e.Delta(sn, cn),
      EllipticFunction::RF(1.0 + k, 2.0, 3.0), EllipticFunction::RF(1.0 + k, 2.0), EllipticFunction::RC(1.0, 2.0 + k), EllipticFunction::RG(1.0, 2.0 + k, 3.0), EllipticFunction::RG(1.0 + k, 2.0),
      EllipticFunction::RJ(1.0, 2.0, 3.0 + k, 4.0), EllipticFunction::RD(1.0, 2.0 + k, 3.0)}; });
  p["normgrav_wgs84"] = K([](int k) { return normgrav(NormalGravity::WGS84(), k); });
  p["normgrav_grs80"] = K([](int k) { return normgrav(NormalGravity::GRS80(), k); });
  p["harmonic_obj"] = K([](int k) { double gx = 0, gy = 0, gz = 0; double v = (*G->sh)(7.0e6, 1.0e5 * (k + 1), 2.0e6 + SD, gx, gy, gz), w = (*G->sh)(-6.0e6 + 1.0e4 * k, 2.0e6, -3.0e6);
    CircularEngine c = G->sh->Circle(6.5e6 + 1.0e4 * k, 1.0e6, true), c0 = G->sh->Circle(6.6e6, -2.0e6 + 1.0e4 * k, false); double hx = 0, hy = 0, hz = 0, u = c(12.0 * k, hx, hy, hz);
    return V{v, gx, gy, gz, w, u, hx, hy, hz, c0(33.0 + k)}; });
  p["circle_obj"] = K([](int k) { const CircularEngine& c = *G->circ; double gx = 0, gy = 0, gz = 0, hx = 0, hy = 0, hz = 0, sl = sin(0.1 * k + SD), cl = cos(0.1 * k + SD); double v = c(10.0 * k + SD, gx, gy, gz), w = c(sl, cl, hx, hy, hz);
    return V{v, gx, gy, gz, w, hx, hy, hz, c(-17.0 * k), c(cl, -sl)}; });
  // thread-safe geoids: every call evaluates two points of one cell and then one of the neighbouring cell; the cell
  // depends on (t, i), so at any time the threads work in different cells (10 degree cells of the synthetic raster)
  auto geo = [](const Geoid& g, int t, int i) { int la = -80 + ((i / 2) * 7 + 3 * t + int(1000 * SD)) % 160, lo = ((i / 2) * 13 + 50 * t) % 360;
    return V{g(la + 1.0, lo + 1.0), g(la + 2.0, lo + 3.0), g(la + 2.5, lo + 12.0), g.ConvertHeight(la + 3.0, lo + 12.5, 100.0 + i, i % 2 ? Geoid::GEOIDTOELLIPSOID : Geoid::ELLIPSOIDTOGEOID)}; };
  p["geoid_ts"] = Entry{[=](int t, int i) { V r = geo(*G->geoid, t, i); if (i < 4) cat(r, V{(*G->geoid)(-85.0, 179.0 + i + t), (*G->geoid)(89.5, -0.5 * t), (*G->geoid)(90.0, 10.0 * i)}); return r; }, 8000};
  p["geoid_ts_bilinear"] = Entry{[=](int t, int i) { V r = geo(*G->geoidl, t, i); if (i < 4) cat(r, V{(*G->geoidl)(-85.0 + i, 179.0 + i + t), (*G->geoidl)(12.0 * i - 30, -77.0 + 31 * t), (*G->geoidl)(-90.0, 5.0 * t)}); return r; }, 8000};
  p["utmups_fwd"] = K([](int k) { V r; int z = 0, z2 = 0, z3 = 0; bool n = false, n2 = false, n3 = false; double x = 0, y = 0, la = 0, lo = 0, x2 = 0, y2 = 0, x3 = 0, y3 = 0, g = 0, s = 0;
    UTMUPS::Forward(40.0 + k + SD, 10.0 * k, z, n, x, y); UTMUPS::Reverse(z, n, x, y, la, lo); cat(r, V{double(z), double(n), x, y, la, lo});
    UTMUPS::Forward(88.0 - 0.1 * k, 10.0 * k, z2, n2, x2, y2, g, s); UTMUPS::Reverse(z2, n2, x2, y2, la, lo, g, s); cat(r, V{double(z2), double(n2), x2, y2, la, lo, g, s});
    UTMUPS::Forward(-85.0 - 0.2 * k, -20.0 * k, z3, n3, x3, y3); UTMUPS::Reverse(z3, n3, x3, y3, la, lo); cat(r, V{double(z3), double(n3), x3, y3, la, lo});
    UTMUPS::Forward(-33.0 + k, 17.0 * k, z3, n3, x3, y3, g, s, UTMUPS::UTM); cat(r, V{double(z3), double(n3), x3, y3, g, s});
    r.push_back(UTMUPS::StandardZone(60.0 + 0.5 * k, 3.0 + k)); r.push_back(UTMUPS::StandardZone(72.0 + k, 8.0 + 3 * k)); r.push_back(UTMUPS::StandardZone(-81.0, 3.0 * k, UTMUPS::STANDARD));
    { double xo = 0, yo = 0, x4 = 0, y4 = 0; int zo = 0, z4 = 0; bool n4 = false; int zn = remainder(10.0 * k - (6 * z - 183), 360.0) > 0 ? (z == 60 ? 1 : z + 1) : (z == 1 ? 60 : z - 1);      // the nearer neighbouring zone
      UTMUPS::Transfer(z, n, x, y, zn, n, xo, yo, zo); cat(r, V{xo, yo, double(zo)}); UTMUPS::Transfer(z, n, x, y, z, !n, xo, yo, zo); cat(r, V{xo, yo, double(zo)});
      UTMUPS::Forward(84.5 + 0.05 * k, 25.0 * k, z4, n4, x4, y4, UTMUPS::UTM); UTMUPS::Transfer(z4, n4, x4, y4, UTMUPS::UPS, true, xo, yo, zo); cat(r, V{double(z4), x4, y4, xo, yo, double(zo)});
      UTMUPS::Transfer(z2, n2, x2, y2, UTMUPS::STANDARD, n2, xo, yo, zo); cat(r, V{xo, yo, double(zo)}); }
    int zz = 1 + (13 * k) % 60; bool nn = k % 2 == 0;
    pushs(r, UTMUPS::EncodeZone(zz, nn, k % 3 == 0)); pushs(r, UTMUPS::EncodeZone(0, !nn, k % 3 != 0));
    { int zd = 0; bool nd = false; UTMUPS::DecodeZone(UTMUPS::EncodeZone(zz, nn, true), zd, nd); cat(r, V{double(zd), double(nd)}); UTMUPS::DecodeZone(k % 2 ? "south" : "N", zd, nd); cat(r, V{double(zd), double(nd)});
      int ep = UTMUPS::EncodeEPSG(zz, nn); UTMUPS::DecodeEPSG(ep, zd, nd); cat(r, V{double(ep), double(zd), double(nd)}); UTMUPS::DecodeEPSG(k % 2 ? 32661 : 32761, zd, nd); cat(r, V{double(zd), double(nd), double(UTMUPS::EncodeEPSG(0, nn))}); }
    r.push_back(UTMUPS::UTMShift()); return r; });
  p["mgrs_fwd"] = K([](int k) { V r; string m; int z = 0, pr = 0; bool n = false; double x = 0, y = 0;
    MGRS::Forward(31 + k, true, 5.0e5 + 10.0 * k + SD, 4.0e6 + 1000.0 * k, 5, m); pushs(r, m); MGRS::Reverse(m, z, n, x, y, pr); cat(r, V{double(z), double(n), x, y, double(pr)});
    { double la = 0, lo = 0; UTMUPS::Reverse(1 + (7 * k) % 60, false, 3.0e5 + 1234.5 * k, 7.0e6 - 54321.0 * k, la, lo); MGRS::Forward(1 + (7 * k) % 60, false, 3.0e5 + 1234.5 * k, 7.0e6 - 54321.0 * k, la, 8, m); } pushs(r, m); MGRS::Reverse(m, z, n, x, y, pr, false); cat(r, V{double(z), double(n), x, y, double(pr)});
    { double la = 0, lo = 0; UTMUPS::Reverse(0, k % 2 == 0, 2.0e6 + 1.0e4 * k, 2.0e6 - 3.0e4 * k, la, lo); MGRS::Forward(0, k % 2 == 0, 2.0e6 + 1.0e4 * k, 2.0e6 - 3.0e4 * k, la, 3 + k % 4, m); pushs(r, m); }
    MGRS::Forward(0, k % 2 != 0, 2.1e6 - 1.0e4 * k, 1.9e6 + 2.0e4 * k, 2 + k % 5, m); pushs(r, m); MGRS::Reverse(m, z, n, x, y, pr); cat(r, V{double(z), double(n), x, y, double(pr)});
    MGRS::Forward(32, true, 4.5e5, 8.0e6 + 1.0e4 * k, 0, m); pushs(r, m); MGRS::Reverse(m, z, n, x, y, pr); cat(r, V{double(z), double(n), x, y, double(pr)});
    MGRS::Forward(33, true, 5.0e5, 6.2e6 + 10 * k, -1, m); pushs(r, m); MGRS::Reverse(m, z, n, x, y, pr); cat(r, V{double(z), double(n), x, y, double(pr)});
    { string gz, bl, ea, no; MGRS::Decode("38SMB44" + to_string(10 + k) + "84" + to_string(10 + k), gz, bl, ea, no); pushs(r, gz); pushs(r, bl); pushs(r, ea); pushs(r, no); }
    if (k % 8 == 0) MGRS::Check();
    return r; });
  p["osgb_fwd"] = K([](int k) { V r; double x = 0, y = 0, la = 0, lo = 0, g = 0, s = 0, x2 = 0, y2 = 0; int pr = 0; string gr, gr2;
    OSGB::Forward(52.0 + 0.1 * k + SD, -1.0 - 0.05 * k, x, y); OSGB::Reverse(x, y, la, lo); OSGB::GridReference(x, y, 3 + k % 3, gr); cat(r, V{x, y, la, lo}); pushs(r, gr);
    OSGB::GridReference(gr, x2, y2, pr); cat(r, V{x2, y2, double(pr)});
    OSGB::Forward(57.0 - 0.2 * k, -4.0 + 0.1 * k, x, y, g, s); OSGB::Reverse(x, y, la, lo, g, s); cat(r, V{x, y, g, s, la, lo});
    gr2 = string("S") + "UVWXYZ"[k % 6] + " " + to_string(100 + 37 * k) + " " + to_string(100 + (41 * k) % 900); OSGB::GridReference(gr2, x2, y2, pr, k % 2 == 0); cat(r, V{x2, y2, double(pr)});
    OSGB::GridReference(string("n") + "abcdefghjk"[k % 10] + to_string(10000 + (4321 * k) % 90000) + to_string(98765 - 1234 * k), x2, y2, pr); cat(r, V{x2, y2, double(pr)});
    OSGB::GridReference(1.0e5 * (k % 7) + 0.5, 2.0e5 + 1.0e4 * k, 5, gr); pushs(r, gr); OSGB::GridReference(4.0e5, 3.0e5 + k, 0, gr); pushs(r, gr); return r; });
  p["dms_codec"] = K([](int k) { V r; DMS::flag f = DMS::NONE; double la = 0, lo = 0, d = 0, m = 0, s = 0;
    double v = DMS::Decode("40d26'47\"N", f); string e = DMS::Encode(40.4464 + k + SD, 3, DMS::LATITUDE); cat(r, V{v, double(f)}); pushs(r, e); r.push_back(DMS::Decode(e, f)); r.push_back(double(f));
    string sa = to_string(10 + k) + "d" + to_string((7 * k) % 60) + "'" + to_string((11 * k) % 60) + ".5\"" + (k % 2 ? "S" : "N"), sb = to_string(20 + 2 * k) + ":" + to_string((13 * k) % 60) + ":30" + (k % 3 ? "W" : "E");
    DMS::DecodeLatLon(sa, sb, la, lo); cat(r, V{la, lo}); DMS::DecodeLatLon(sb, sa, la, lo, true); cat(r, V{la, lo}); DMS::DecodeLatLon(to_string(100 + k) + "d30", to_string(-30 + k) + ".25", la, lo, true); cat(r, V{la, lo});
    r.push_back(DMS::DecodeAngle(to_string(k) + "d15'")); r.push_back(DMS::DecodeAngle("-" + to_string(3 * k) + ".125")); r.push_back(DMS::DecodeAzimuth(to_string(100 + 10 * k) + "d30'E")); r.push_back(DMS::DecodeAzimuth(to_string(20 + k) + "W"));
    r.push_back(DMS::Decode(10.0 + k, 20.0, 30.0 + k)); r.push_back(DMS::Decode(to_string(k) + "d" + to_string(k) + "'" + to_string(k) + "\"+1d", f)); r.push_back(double(f));
    pushs(r, DMS::Encode(-123.456789 - k, DMS::MINUTE, 4, DMS::LONGITUDE)); pushs(r, DMS::Encode(12.5 + 0.01 * k, DMS::DEGREE, 5, DMS::NONE)); pushs(r, DMS::Encode(271.25 + k, DMS::SECOND, 2, DMS::AZIMUTH, ':'));
    pushs(r, DMS::Encode(-0.5 - k, 6, DMS::NUMBER)); pushs(r, DMS::Encode(59.99999 + k, 0, DMS::LATITUDE, ':')); pushs(r, DMS::Encode(3.0 * k, 9, DMS::NONE));
    DMS::Encode(33.3 + k, d, m); cat(r, V{d, m}); DMS::Encode(-33.37 - k, d, m, s); cat(r, V{d, m, s}); return r; });
  p["gridcodes"] = K([](int k) { V r; string h, g, o; double la = 0, lo = 0; int pr = 0;
    Geohash::Forward(40.0 + k + SD, 10.0 - 7 * k, 9 + k % 4, h); pushs(r, h); Geohash::Reverse(h, la, lo, pr); cat(r, V{la, lo, double(pr)}); Geohash::Reverse(h.substr(0, 5), la, lo, pr, false); cat(r, V{la, lo, double(pr)});
    GARS::Forward(-40.0 + k + SD, 10.0 + 9 * k, k % 3, g); pushs(r, g); GARS::Reverse(g, la, lo, pr); cat(r, V{la, lo, double(pr)}); GARS::Reverse(g, la, lo, pr, false); cat(r, V{la, lo, double(pr)});
    Georef::Forward(40.0 - 2 * k + SD, -100.0 + 11 * k, k % 6, o); pushs(r, o); Georef::Reverse(o, la, lo, pr); cat(r, V{la, lo, double(pr)}); Georef::Forward(-89.0 + k, 179.0 - k, -1, o); pushs(r, o); Georef::Reverse(o, la, lo, pr, false); cat(r, V{la, lo, double(pr)});
    cat(r, V{Geohash::LatitudeResolution(k), Geohash::LongitudeResolution(k), double(Geohash::GeohashLength(1.0 / (k + 1))), double(Geohash::GeohashLength(0.1 / (k + 1), 0.2)), double(Geohash::DecimalPrecision(k)),
      GARS::Resolution(k % 3), double(GARS::Precision(0.1 * (k + 1))), Georef::Resolution(k % 12), double(Georef::Precision(1.0 / (1 + 10 * k)))}); return r; });
  p["azeq_obj"] = K([](int k) { double x = 0, y = 0, la = 0, lo = 0, az = 0, rk = 0, az2 = 0, rk2 = 0; G->azeq.Forward(40.0, 10.0, 45.0 + k + SD, 12.0 - 9 * k, x, y, az, rk); G->azeq.Reverse(40.0, 10.0, x, y, la, lo, az2, rk2);
    V r{x, y, az, rk, la, lo, az2, rk2}; G->azeq.Forward(-1.0, 0.0, 1.3, 179.6 - 0.01 * k, x, y); G->azeq.Reverse(10.0 + k, 0.0, 1.0e6, -2.0e6, la, lo); cat(r, V{x, y, la, lo}); return r; });
  p["gnomonic_obj"] = K([](int k) { double x = 0, y = 0, la = 0, lo = 0, az = 0, rk = 0, az2 = 0, rk2 = 0; G->gno.Forward(40.0, 10.0, 45.0 + k + SD, 12.0 - 3 * k, x, y, az, rk); G->gno.Reverse(40.0, 10.0, x, y, la, lo, az2, rk2);
    V r{x, y, az, rk, la, lo, az2, rk2}; G->gno.Forward(-20.0 - k, 5.0, 10.0, 40.0 + k, x, y); G->gno.Reverse(10.0 + k, 0.0, 1.0e6, -2.0e6, la, lo); cat(r, V{x, y, la, lo}); return r; });
  p["cassini_obj"] = K([](int k) { double x = 0, y = 0, la = 0, lo = 0, az = 0, rk = 0, az2 = 0, rk2 = 0; G->cas.Forward(45.0 + k + SD, 12.0 - 2 * k, x, y, az, rk); G->cas.Reverse(x, y, la, lo, az2, rk2);
    V r{x, y, az, rk, la, lo, az2, rk2}; G->cas.Forward(-30.0 + k, 100.0 + 5 * k, x, y); G->cas.Reverse(-1.0e5 * k, 2.0e6, la, lo); cat(r, V{x, y, la, lo}); return r; });
  p["dst_obj"] = K([](int k) { vector<double> F(96); auto f = [k](double x) { return sin(x) + 0.1 * (k + 1) * sin(3 * x) + 0.01 * sin((5 + 2 * (k % 7)) * x); }; G->dst.transform(f, F.data());
    V r{F[0], F[1], F[2], F[47], DST::eval(sin(0.3), cos(0.3), F.data(), 48)}; G->dst.refine(f, F.data()); cat(r, V{F[0], F[1], F[2], F[47], F[48], F[95], DST::eval(sin(0.3 + k), cos(0.3 + k), F.data(), 96),
      DST::integral(sin(0.4), cos(0.4), F.data(), 96), DST::integral(sin(0.1 * k), cos(0.1 * k), sin(1.0), cos(1.0), F.data(), 96)}); return r; }, 24);
  // ---- data-file models and their circles; const members that create line / circle objects from a shared solver ----
  p["gravmodel_obj"] = K([](int k) { const GravityModel& m = *G->gm; double gx = 0, gy = 0, gz = 0, dx = 0, dy = 0, dz = 0, Dg = 0, xi = 0, eta = 0, wx = 0, wy = 0, wz = 0, tx = 0, ty = 0, tz = 0, vx = 0, vy = 0, vz = 0, ux = 0, uy = 0, uz = 0, fx = 0, fy = 0;
    double W = m.Gravity(30.0 + k + SD, 20.0 * k, 1000.0, gx, gy, gz), T = m.Disturbance(30.0 + k, 20.0 * k + SD, 1000.0, dx, dy, dz); m.SphericalAnomaly(30.0 + k, 20.0 * k, 1000.0 + k, Dg, xi, eta);
    double w = m.W(4.0e6, 3.0e6 + 1.0e5 * k, 4.0e6, wx, wy, wz), t = m.T(4.0e6, 3.0e6 + 1.0e5 * k, 4.0e6, tx, ty, tz), v = m.V(-4.0e6 + 1.0e4 * k, 3.0e6, 4.1e6, vx, vy, vz), u = m.U(4.2e6, 3.0e6, -4.0e6 + 1.0e4 * k, ux, uy, uz),
      ph = m.Phi(4.0e6 + k, 3.0e6, fx, fy);
    return V{W, gx, gy, gz, T, dx, dy, dz, Dg, xi, eta, w, wx, wy, wz, t, tx, ty, tz, m.GeoidHeight(30.0 + k, 20.0 * k), m.T(4.0e6, 3.0e6, 4.1e6 + k), v, vx, vy, vz, u, ux, uy, uz, ph, fx, fy, m.GeoidHeight(-90.0, 3.0 * k)}; });
  p["gravcircle_obj"] = K([](int k) { const GravityCircle& c = *G->gc; double gx = 0, gy = 0, gz = 0, dx = 0, dy = 0, dz = 0, Dg = 0, xi = 0, eta = 0, wx = 0, wy = 0, wz = 0, vx = 0, vy = 0, vz = 0, tx = 0, ty = 0, tz = 0;
    double W = c.Gravity(25.0 * k + SD, gx, gy, gz), T = c.Disturbance(25.0 * k + 1, dx, dy, dz); c.SphericalAnomaly(25.0 * k + 2, Dg, xi, eta); double w = c.W(-13.0 * k, wx, wy, wz), v = c.V(25.0 * k + 3, vx, vy, vz), t = c.T(7.0 * k, tx, ty, tz);
    return V{W, gx, gy, gz, T, dx, dy, dz, Dg, xi, eta, c.GeoidHeight(25.0 * k + 4), c.T(25.0 * k + 5), v, vx, vy, vz, w, wx, wy, wz, t, tx, ty, tz}; });
  p["gravmodel_circle"] = K([](int k) { GravityCircle c = G->gm->Circle(10.0 + k + SD, 500.0 * k, GravityModel::ALL), c2 = G->gm->Circle(-60.0 + k, 100.0, GravityModel::GEOID_HEIGHT); double gx = 0, gy = 0, gz = 0; double W = c.Gravity(33.0 + k, gx, gy, gz);
    return V{W, gx, gy, gz, c.GeoidHeight(33.0), c2.GeoidHeight(-100.0 + 3 * k)}; });
  p["magmodel_obj"] = K([](int k) { const MagneticModel& m = *G->mm; double bx = 0, by = 0, bz = 0, bxt = 0, byt = 0, bzt = 0, H = 0, F = 0, D = 0, I = 0, Ht = 0, Ft = 0, Dt = 0, It = 0, ax = 0, ay = 0, az = 0;
    m(2001.0 + 1.5 * k + SD, 30.0 + k, 20.0 * k, 1000.0, bx, by, bz, bxt, byt, bzt); m(1995.0 + k, -30.0 - k, -15.0 * k, 5000.0 + k, ax, ay, az);
    MagneticModel::FieldComponents(bx, by, bz, H, F, D, I); V r{bx, by, bz, bxt, byt, bzt, ax, ay, az, H, F, D, I}; MagneticModel::FieldComponents(bx, by, bz, bxt, byt, bzt, H, F, D, I, Ht, Ft, Dt, It); cat(r, V{H, F, D, I, Ht, Ft, Dt, It});
    double cx = 0, cy = 0, cz = 0; m.FieldGeocentric(2004.0 + k, 4.0e6, 3.0e6 + 1.0e4 * k, 4.0e6, cx, cy, cz, bxt, byt, bzt); cat(r, V{cx, cy, cz, bxt, byt, bzt}); return r; });
  p["magcircle_obj"] = K([](int k) { const MagneticCircle& c = *G->mc; double bx = 0, by = 0, bz = 0, bxt = 0, byt = 0, bzt = 0, ax = 0, ay = 0, az = 0, cx = 0, cy = 0, cz = 0, cxt = 0, cyt = 0, czt = 0;
    c(25.0 * k + SD, bx, by, bz, bxt, byt, bzt); c(-11.0 * k, ax, ay, az); c.FieldGeocentric(25.0 * k + 0.1 + SD, cx, cy, cz, cxt, cyt, czt); return V{bx, by, bz, bxt, byt, bzt, ax, ay, az, cx, cy, cz, cxt, cyt, czt}; });
  p["magmodel_circle"] = K([](int k) { MagneticCircle c = G->mm->Circle(2002.0 + 1.5 * k + SD, 10.0 + k, 500.0 * k); double bx = 0, by = 0, bz = 0, cx = 0, cy = 0, cz = 0, cxt = 0, cyt = 0, czt = 0; c(33.0 + k, bx, by, bz);
    c.FieldGeocentric(-33.0 + k, cx, cy, cz, cxt, cyt, czt); return V{bx, by, bz, cx, cy, cz, cxt, cyt, czt}; });
  p["geod_line_make"] = K([](int k) { return makelines<Geodesic, GeodesicLine>(G->geod, k); });
  p["geodex_line_make"] = K([](int k) { return makelines<GeodesicExact, GeodesicLineExact>(G->geodex, k); });
  p["rhumb_line_make"] = K([](int k) { RhumbLine l = G->rhumb.Line(10.0 + k + SD, 20.0, 30.0 + k), lx = G->rhumbx.Line(10.0 + k, 20.0, 30.0 + k + SD); V r = rhumbalong(l, k); cat(r, rhumbalong(lx, k)); return r; });
  p["ps_obj"] = K([](int k) { return polar(G->ps, k); });
  p["tmx_obj"] = K([](int k) { return tmerc(G->tmx, k); });
  p["ell_obj"] = K([](int k) { return ellipsoid(G->ell, k); });
  p["normgrav_obj"] = K([](int k) { return normgrav(G->ng, k); });
  return p;
}

static bool same(const V& a, const V& b) {
  if (a.size() != b.size()) return false;
  for (size_t i = 0; i < a.size(); ++i) if (vt::bits(a[i]) != vt::bits(b[i]) && !(std::isnan(a[i]) && std::isnan(b[i]))) return false;
  return true;
}
// a call that throws is an observation too (the same call must throw when executed alone)
static V call(const Prog& f, int t, int i) {
  try { return f(t, i); }
  catch (const std::exception& e) { if (getenv("DRV_THREADS_DEBUG")) fprintf(stderr, "exception t=%d i=%d: %s\n", t, i, e.what()); V r{-7.0e300}; pushs(r, e.what()); return r; }
}
static string names(unsigned mask) {
  string s = "["; bool first = true;
  for (int j = 0; j < NACC; ++j) if (mask & (1u << j)) { if (!first) s += ","; first = false; s += string("\"") + ACC[j] + "\""; }
  return s + "]";
}

int main(int argc, char** argv) {
  if (argc < 6) { fprintf(stderr, "usage: drv_threads progA progB cold nthreads dir [seed] | list\n"); return 2; }
  string A = argv[1], B = argv[2]; bool cold = atoi(argv[3]) != 0; int nt = atoi(argv[4]); string dir = argv[5];
  int seed = argc > 6 ? atoi(argv[6]) : 1; NT = nt; SD = 0.001 * ((seed * 37) % 100);
  g_phase = 0;
  Shared shared(dir); G = &shared;
  auto P = programs();
  if (!P.count(A) || !P.count(B)) { vt::Rec r; r.str("e", "conc").str("a", A).str("b", B).b("cold", cold).b("known", false).b("same", false); r.emit(); return 0; }
  auto prog = [&](int t) -> const Entry& { return P[(t % 2 == 0) ? A : B]; };
  printf("{\"e\":\"start\"}\n"); fflush(stdout);     // set-up is complete (a failure before this line is not an observation of the run)
  if (!cold) for (int t = 0; t < nt; ++t) for (int i = 0; i < min(prog(t).iters, 32); ++i) call(prog(t).f, t, i);   // warm: first touches happen before the threads start
  vector<vector<V>> res(nt);
  for (int t = 0; t < nt; ++t) res[t].resize(prog(t).iters);
  atomic<int> ready(0);
  vector<thread> th;
  g_phase = 1;
  for (int t = 0; t < nt; ++t) th.emplace_back([&, t] {
    const Entry& e = prog(t);
    ready.fetch_add(1); while (ready.load() < nt) { }                   // start together
    for (int i = 0; i < e.iters; ++i) res[t][i] = call(e.f, t, i);
  });
  for (auto& x : th) x.join();
  g_phase = 2;
  long long nmis = 0, ncall = 0, nexc = 0, ft = -1, fi = -1;
  for (int t = 0; t < nt; ++t) for (int i = 0; i < prog(t).iters; ++i) { ++ncall; V solo = call(prog(t).f, t, i); if (!solo.empty() && solo[0] == -7.0e300) ++nexc;   // solo, afterwards
    if (!same(res[t][i], solo)) { if (!nmis) { ft = t; fi = i; } ++nmis; } }
  vt::Rec r; r.str("e", "conc").str("a", A).str("b", B).b("cold", cold).b("known", true).b("same", nmis == 0).i("nt", nt).i("ncall", ncall).i("nmis", nmis).i("nexc", nexc).i("ft", ft).i("fi", fi)
    .raw("pre", names(g_touch[0].load())).raw("used", names(g_touch[1].load())); r.emit();
  return 0;
}
