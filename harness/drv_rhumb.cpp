// Driver for Rhumb / RhumbLine (C09): lattice replays chosen by TLC and seeded random law records.
// The driver executes the library and reduces each law of the property to an integer residual in a declared
// unit, using fixed textbook formulas evaluated in long double (the DEFINING expressions of the rhumb line:
// meridian arc  M = int rho dphi, isometric latitude psi = int rho/R dphi, parallel radius R = a cos(beta),
// area S12 = c^2 int sin(xi) dlambda, evaluated by adaptive Gauss-Legendre quadrature).  Every tolerance,
// applicability guard and decision is in spec/Trace_Rhumb.tla.
//
// Units (L = max(a, b) is the size of the ellipsoid, so every residual is scale free):
//   "len"   length / L           in units of 1e-18, clipped to +-2e9 (vt::q1); 10 nm at WGS84 = 1568 units
//   "area"  area / L^2           in units of 1e-19, clipped
//   "du"    |lon2(unrolled) - lon2| mod 360 in units of 1e-3 ulp of max(|lon2u|, |lon1|, 180)
//   "udeg"  degrees              in units of 1e-6, clipped
//   "ppm"   dimensionless        in units of 1e-6, clipped
//   "pico"  sphere lattice value in units of 1e-12 as limbs [hi, lo] = hi*1e9 + lo (vt::limbs)
//   class tag of a double: 0 finite, 1 NaN, 2 +inf, 3 -inf
#include "trace.hpp"
#include <GeographicLib/Rhumb.hpp>
#include <GeographicLib/Ellipsoid.hpp>
#include <GeographicLib/Geodesic.hpp>
#include <GeographicLib/Math.hpp>
#include <memory>

using namespace GeographicLib;
using namespace std;
using vt::Rec;
typedef long double LD;

static const LD PIL = 3.14159265358979323846264338327950288L;
static const LD DEGL = PIL / 180;

// ------------------------------------------------------------------ configurations (index known to the spec)
// fc: 0 sphere, 1 |f| <= 0.01 (series and exact), 2 moderately eccentric (exact only), 3 very eccentric (exact only)
struct Cfg { double a, f; bool exact; int fc; };
static const double RS = 57.295779513082320876798154814105;   // 180/pi: one degree of arc = one metre
static const vector<Cfg>& cfgs() {
  static const vector<Cfg> C = {
    {RS, 0.0, false, 0}, {RS, 0.0, true, 0},                                        // 0,1   lattice sphere
    {6378137.0, 1 / 298.257223563, false, 1}, {6378137.0, 1 / 298.257223563, true, 1},   // 2,3   WGS84
    {6.4e6, 1.0 / 150, false, 1}, {6.4e6, 1.0 / 150, true, 1},                      // 4,5
    {6.4e6, -1.0 / 150, false, 1}, {6.4e6, -1.0 / 150, true, 1},                    // 6,7
    {1.0, 0.01, false, 1}, {1.0, 0.01, true, 1},                                    // 8,9
    {6378137.0, -0.01, false, 1}, {6378137.0, -0.01, true, 1},                      // 10,11
    {6378137.0, -1 / 298.257223563, false, 1}, {6378137.0, -1 / 298.257223563, true, 1},  // 12,13
    {6.4e6, 0.5, true, 2}, {6.4e6, -1.0, true, 2},                                  // 14,15  b/a = 1/2, 2
    {6.4e6, 0.9, true, 3}, {6.4e6, -9.0, true, 3},                                  // 16,17  b/a = 1/10, 10
    {1.0, 0.98, true, 3}, {6.4e6, -49.0, true, 3},                                  // 18,19  b/a = 1/50, 50
    {6371000.0, 0.0, false, 0}, {6371000.0, 0.0, true, 0},                          // 20,21  sphere
    {1.0, 1 - 1.0 / 90, true, 3}, {6.4e6, -89.0, true, 3},                          // 22,23  b/a = 1/90, 90 (documented: 1/100 < b/a < 100)
  };
  return C;
}
static const Rhumb& rhumb(int ci) {
  static vector<unique_ptr<Rhumb>> R(cfgs().size());
  if (!R[ci]) R[ci].reset(new Rhumb(cfgs()[ci].a, cfgs()[ci].f, cfgs()[ci].exact));
  return *R[ci];
}
static const Ellipsoid& ellip(int ci) {
  static vector<unique_ptr<Ellipsoid>> E(cfgs().size());
  if (!E[ci]) E[ci].reset(new Ellipsoid(cfgs()[ci].a, cfgs()[ci].f));
  return *E[ci];
}

// ------------------------------------------------------------------ textbook formulas in long double
static void sincosdL(LD x, LD& s, LD& c) {
  int q = 0; LD r = remquol(x, 90.0L, &q); r *= DEGL;
  LD ss = sinl(r), cc = cosl(r);
  switch (unsigned(q) & 3U) {
    case 0U: s = ss; c = cc; break;
    case 1U: s = cc; c = -ss; break;
    case 2U: s = -ss; c = -cc; break;
    default: s = -cc; c = ss; break;
  }
}

// Gauss-Legendre nodes/weights on [-1, 1]
static const int NGL = 16;
static LD GLX[NGL], GLW[NGL];
static void gl_init() {
  for (int i = 0; i < NGL; ++i) {
    LD x = cosl(PIL * (i + 0.75L) / (NGL + 0.5L));
    for (int it = 0; it < 100; ++it) {
      LD p0 = 1, p1 = x;
      for (int k = 2; k <= NGL; ++k) { LD p2 = ((2 * k - 1) * x * p1 - (k - 1) * p0) / k; p0 = p1; p1 = p2; }
      LD dp = NGL * (x * p1 - p0) / (x * x - 1);
      LD dx = p1 / dp; x -= dx;
      if (fabsl(dx) < 1e-21L) break;
    }
    LD p0 = 1, p1 = x;
    for (int k = 2; k <= NGL; ++k) { LD p2 = ((2 * k - 1) * x * p1 - (k - 1) * p0) / k; p0 = p1; p1 = p2; }
    LD dp = NGL * (x * p1 - p0) / (x * x - 1);
    GLX[i] = x; GLW[i] = 2 / ((1 - x * x) * dp * dp);
  }
}

struct V3 { LD m = 0, p = 0, x = 0; };   // int rho dphi, int rho/R dphi, int sin(xi) rho/R dphi

struct EL {
  LD a, f, b, e2, L, c2, Q, qp;
  mutable long budget = 0;
  explicit EL(const Cfg& c) : a(c.a), f(c.f) {
    b = a * (1 - f); e2 = f * (2 - f); L = fmaxl(a, b);
    qp = qfun(1.0L, 0.0L);
    c2 = a * a * (1 - e2) * qp / 2;           // authalic radius squared
    Q = 0;
  }
  // w = 1 - e^2 sin^2(phi) without cancellation (s, c = sin, cos(phi))
  LD wfun(LD s, LD c) const { return e2 > 0 ? (1 - e2) + e2 * c * c : 1 - e2 * s * s; }
  // atanh(e s)/e for either sign of e^2; atanh(x) = log1p(x) - log(1 - x^2)/2 with 1 - x^2 = w
  LD atanhee(LD s, LD c) const {
    if (e2 > 0) { LD e = sqrtl(e2); return (log1pl(e * s) - logl(wfun(s, c)) / 2) / e; }
    if (e2 < 0) { LD e = sqrtl(-e2); return atanl(e * s) / e; }
    return s;
  }
  LD qfun(LD s, LD c) const { return s / wfun(s, c) + atanhee(s, c); }     // q(phi)/(1-e2)
  LD sinxi(LD s, LD c) const { return s < 0 ? -qfun(-s, c) / qp : qfun(s, c) / qp; }
  LD circle(LD s, LD c) const { return a * c / sqrtl(wfun(s, c)); }        // R = a cos(beta)
  // integrand at colatitude th measured from the pole of the hemisphere (sin(phi) = cos(th) >= 0)
  V3 f3(LD th, bool monly) const {
    LD st = sinl(th), ct = cosl(th), w = wfun(ct, st);
    V3 v; v.m = a * (1 - e2) / (w * sqrtl(w));
    if (!monly) { v.p = (1 - e2) / (w * st); v.x = sinxi(ct, st) * v.p; }
    return v;
  }
  V3 gl(LD t0, LD h, bool monly) const {
    V3 r; LD hh = h / 2;
    for (int i = 0; i < NGL; ++i) {
      V3 v = f3(t0 + hh * (1 + GLX[i]), monly);
      r.m += GLW[i] * v.m; r.p += GLW[i] * v.p; r.x += GLW[i] * v.x;
    }
    r.m *= hh; r.p *= hh; r.x *= hh; return r;
  }
  void rec(LD t0, LD h, const V3& whole, bool monly, V3& acc, LD& err, int depth) const {
    V3 l = gl(t0, h / 2, monly), r = gl(t0 + h / 2, h / 2, monly);
    LD dm = fabsl(whole.m - (l.m + r.m)), dp = fabsl(whole.p - (l.p + r.p)), dx = fabsl(whole.x - (l.x + r.x));
    const LD tol = 4e-18L;
    LD sm = fabsl(l.m + r.m), sp = fabsl(l.p + r.p);
    bool ok = dm <= tol * sm && (monly || (dp <= tol * sp && dx <= tol * sp));
    if (ok || depth >= 60 || --budget <= 0) {
      acc.m += l.m + r.m; acc.p += l.p + r.p; acc.x += l.x + r.x;
      LD e = sm > 0 ? dm / sm : 0; if (!monly && sp > 0) e = fmaxl(e, fmaxl(dp, dx) / sp);
      err = fmaxl(err, e);
      return;
    }
    rec(t0, h / 2, l, monly, acc, err, depth + 1);
    rec(t0 + h / 2, h / 2, r, monly, acc, err, depth + 1);
  }
  // integral over the latitude band [la, lb], 0 <= la <= lb <= 90 (degrees, doubles) of one hemisphere
  V3 band(double la, double lb, bool monly, LD& err) const {
    V3 acc; if (!(lb > la)) return acc;
    budget = 20000;
    LD t0 = ((LD)90 - (LD)lb) * DEGL, h = ((LD)lb - (LD)la) * DEGL;
    // a few initial panels so that the first comparison is meaningful
    int n0 = 1 + int(h / 0.25L);
    for (int i = 0; i < n0; ++i) {
      LD a0 = t0 + h * i / n0, hh = h / n0;
      rec(a0, hh, gl(a0, hh, monly), monly, acc, err, 0);
    }
    return acc;
  }
  // signed integrals from latitude l1 to l2 (degrees)
  V3 between(double l1, double l2, bool monly, LD& err) const {
    double lo = min(l1, l2), hi = max(l1, l2); V3 r;
    if (lo < 0 && hi > 0) {
      V3 s = band(0, -lo, monly, err), n = band(0, hi, monly, err);
      r.m = s.m + n.m; r.p = s.p + n.p; r.x = n.x - s.x;
    } else if (hi <= 0) { r = band(-hi, -lo, monly, err); r.x = -r.x; }
    else r = band(lo, hi, monly, err);
    if (l2 < l1) { r.m = -r.m; r.p = -r.p; r.x = -r.x; }
    return r;
  }
  LD merid(double lat) const { LD e = 0; return between(0, lat, true, e).m; }    // M(phi), signed
};
static EL& ell(int ci) {
  static vector<unique_ptr<EL>> E(cfgs().size());
  if (!E[ci]) { E[ci].reset(new EL(cfgs()[ci])); E[ci]->Q = E[ci]->merid(90.0); }
  return *E[ci];
}

// reference quantities of the course between two points from the defining expressions
// kind: 0 general, 1 equal latitudes (parallel), 2 one end at a pole, 3 opposite poles, 4 same pole, 5 coincident
struct Ref {
  int kind = 0; LD s = 0, azi = 0, S = 0, qe = 0; bool hasazi = true, hasS = true;
  LD dM = 0, psi12 = 0, rbar = 0, lam = 0, R2 = 0, cr = 0;     // meridian arc M2-M1, isometric difference, int rho / int rho/R, lon12 (rad), circle radius at point 2, c^2/(R2 L)
};
static Ref ref_inverse(const EL& E, double lat1, double lat2, LD lon12) {
  Ref r; LD lam = lon12 * DEGL; r.lam = lam;
  bool p1 = fabs(lat1) == 90, p2 = fabs(lat2) == 90;
  { LD s2, c2; sincosdL(lat2, s2, c2); r.R2 = p2 ? 0 : E.circle(s2, c2); r.cr = p2 ? 4e3L : fminl(4e3L, E.c2 / (r.R2 * E.L)); }
  if (p1 && p2) {
    if (lat1 == lat2) { r.kind = 4; r.s = 0; r.hasazi = false; r.hasS = false; }
    else { r.kind = 3; r.s = 2 * E.Q; r.dM = lat2 > lat1 ? 2 * E.Q : -2 * E.Q; r.azi = lat2 > lat1 ? 0 : 180; r.hasS = false; }
    return r;
  }
  if (p1 || p2) {
    r.kind = 2;
    r.dM = E.merid(lat2) - E.merid(lat1);
    r.s = fabsl(r.dM);
    r.azi = lat2 > lat1 ? 0 : 180;
    r.S = E.c2 * lam * ((p2 ? lat2 : lat1) > 0 ? 1 : -1);
    return r;
  }
  if (lat1 == lat2) {
    LD s, c; sincosdL(lat1, s, c);
    r.kind = lon12 == 0 ? 5 : 1;
    r.rbar = E.circle(s, c);
    r.s = r.rbar * fabsl(lam);
    r.azi = lon12 > 0 ? 90 : -90; r.hasazi = lon12 != 0;
    r.S = E.c2 * lam * E.sinxi(s, c);
    return r;
  }
  V3 v = E.between(lat1, lat2, false, r.qe);
  r.rbar = v.m / v.p; r.psi12 = v.p; r.dM = v.m;
  r.s = r.rbar * hypotl(lam, r.psi12);
  r.azi = atan2l(lam, r.psi12) / DEGL;
  r.S = E.c2 * lam * (v.x / v.p);
  return r;
}
// the defining expressions as end-point misses for a course (s, azi) between the points described by rf:
//   mN  = | s cos(azi) - (M2 - M1) |                    meridian arc
//   mE1 = Rw | lam12 - tan(azi) psi12 |                  isometric latitude (well conditioned for |tan azi| <= 1)
//   mE2 = Rw | lam12 - s sin(azi) / Rbar |               parallel-circle form (well conditioned for |tan azi| >= 1)
// Rw = circle radius at which the longitude miss is turned into a length (direct: at point 2; inverse: the smaller one)
struct Miss { LD mN = -1, mE1 = -1, mE2 = -1; };
static Miss misses(const Ref& rf, LD s, LD azi, LD Rw) {
  Miss m; LD sa, ca; sincosdL(azi, sa, ca);
  if (rf.kind == 4) return m;
  m.mN = fabsl(s * ca - rf.dM);
  if (rf.kind == 0 || rf.kind == 1 || rf.kind == 5) {
    if (ca != 0 && rf.kind == 0) m.mE1 = Rw * fabsl(rf.lam - (sa / ca) * rf.psi12);
    if (rf.rbar > 0) m.mE2 = Rw * fabsl(rf.lam - s * sa / rf.rbar);
  }
  return m;
}

// ------------------------------------------------------------------ quantisation helpers
static long long qlen(LD v, const EL& E) { return vt::q1(v / E.L, 1e-18L); }
static long long qarea(LD v, const EL& E) { return vt::q1(v / (E.L * E.L), 1e-19L); }
static long long qudeg(LD v) { return vt::q1(v, 1e-6L); }
static long long qppm(LD v) { return vt::q1(v, 1e-6L); }
static vector<long long> pico(double v) {
  long long hi, lo; if (!std::isfinite(v) || !vt::limbs(v, 1e-12L, hi, lo) || llabs(hi) > 2000000000LL) return {2000000001LL, 0};
  return {hi, lo};
}
static LD angdiffL(LD a, LD b) { return remainderl(a - b, 360.0L); }     // a - b reduced to [-180, 180]
static string hx(initializer_list<double> v) { string s; for (double d : v) { if (!s.empty()) s.push_back(' '); s += vt::hexf(d); } return s; }
// exact 0 / 90 / 180 tag of |azi|, -1 otherwise
static int azx(double azi) { double a = fabs(azi); return a == 0 ? 0 : a == 90 ? 90 : a == 180 ? 180 : -1; }
static int sgn(double v) { return std::isnan(v) ? 0 : (v > 0) - (v < 0); }
static int sgnbit(double v) { return std::isnan(v) ? 0 : (signbit(v) ? -1 : 1); }

// input class of the longitude difference (inputs only): exact difference reduced mod 360 is +-180
static const char* tie_class(double lon1, double lon2) {
  LD d = (LD)lon2 - (LD)lon1;
  if (!std::isfinite((double)d)) return "none";
  LD r = remainderl(d, 360.0L);
  if (fabsl(r) != 180) return "none";
  return d > 0 ? "east180" : "west180";
}
// sign class of the reduced longitude difference: +1 / -1 when clearly inside (0,180) / (-180,0), else 0
static int lon_sign(double lon1, double lon2) {
  LD r = remainderl((LD)lon2 - (LD)lon1, 360.0L);
  if (fabsl(r) < 1e-12L || fabsl(r) > 180 - 1e-9L) return 0;
  return r > 0 ? 1 : -1;
}

// distance on the surface between two nearby points (local metric, long double)
static LD local_dist(const EL& E, double lat1, double lon1, double lat2, double lon2) {
  LD s, c; sincosdL(((LD)lat1 + lat2) / 2, s, c);
  LD w = E.wfun(s, c), rho = E.a * (1 - E.e2) / (w * sqrtl(w)), R = E.a * c / sqrtl(w);
  return hypotl(rho * ((LD)lat2 - lat1) * DEGL, R * angdiffL(lon2, lon1) * DEGL);
}

struct InvOut { double s12, azi12, S12; };
static InvOut do_inverse(int ci, double lat1, double lon1, double lat2, double lon2) {
  InvOut o; o.s12 = o.azi12 = o.S12 = vt::sentinel(7);
  rhumb(ci).Inverse(lat1, lon1, lat2, lon2, o.s12, o.azi12, o.S12);
  return o;
}
struct DirOut { double lat2, lon2, S12, lon2u, lat2u, S12u; bool pe, ue; };
static DirOut do_direct(int ci, double lat1, double lon1, double azi12, double s12) {
  DirOut o; const Rhumb& r = rhumb(ci);
  o.lat2 = o.lon2 = o.S12 = vt::sentinel(7);
  r.Direct(lat1, lon1, azi12, s12, o.lat2, o.lon2, o.S12);
  RhumbLine ln = r.Line(lat1, lon1, azi12);
  double la, lo, S; ln.Position(s12, la, lo, S);
  double la3, lo3; ln.Position(s12, la3, lo3);
  o.pe = vt::bits(la) == vt::bits(o.lat2) && vt::bits(lo) == vt::bits(o.lon2) && vt::bits(S) == vt::bits(o.S12)
      && vt::bits(la3) == vt::bits(la) && vt::bits(lo3) == vt::bits(lo);
  ln.GenPosition(s12, RhumbLine::LATITUDE | RhumbLine::LONGITUDE | RhumbLine::AREA | RhumbLine::LONG_UNROLL, o.lat2u, o.lon2u, o.S12u);
  double la4, lo4, S4; r.GenDirect(lat1, lon1, azi12, s12, Rhumb::ALL | Rhumb::LONG_UNROLL, la4, lo4, S4);
  o.ue = vt::bits(o.lat2u) == vt::bits(o.lat2) && vt::bits(o.S12u) == vt::bits(o.S12)
      && vt::bits(la4) == vt::bits(o.lat2u) && vt::bits(lo4) == vt::bits(o.lon2u) && vt::bits(S4) == vt::bits(o.S12u);
  return o;
}


// ------------------------------------------------------------------ call forms and output masks
// A mask of the specification (bits 0..5 = LATITUDE, LONGITUDE, AZIMUTH, DISTANCE, AREA, LONG_UNROLL) translated with the
// enum constants of the class that is called.
static int kappa(const Cfg& C);
static unsigned rmask(int m) {
  return (m & 1 ? unsigned(Rhumb::LATITUDE) : 0U) | (m & 2 ? unsigned(Rhumb::LONGITUDE) : 0U) | (m & 4 ? unsigned(Rhumb::AZIMUTH) : 0U)
       | (m & 8 ? unsigned(Rhumb::DISTANCE) : 0U) | (m & 16 ? unsigned(Rhumb::AREA) : 0U) | (m & 32 ? unsigned(Rhumb::LONG_UNROLL) : 0U);
}
static unsigned lmask(int m) {
  return (m & 1 ? unsigned(RhumbLine::LATITUDE) : 0U) | (m & 2 ? unsigned(RhumbLine::LONGITUDE) : 0U) | (m & 4 ? unsigned(RhumbLine::AZIMUTH) : 0U)
       | (m & 8 ? unsigned(RhumbLine::DISTANCE) : 0U) | (m & 16 ? unsigned(RhumbLine::AREA) : 0U) | (m & 32 ? unsigned(RhumbLine::LONG_UNROLL) : 0U);
}
static const unsigned SENT = 7;
// observation code of one output argument (see RhumbLattice.tla): 1 still the sentinel, 2 bit-identical to the general
// routine with ALL, 4 bit-identical to the general routine with ALL | LONG_UNROLL, 8 finite and outside [-180, 180]
static long long ocode(double v, double refn, double refu, bool lon) {
  long long c = 0;
  if (vt::is_sentinel(v, SENT)) c |= 1;
  if (vt::bits(v) == vt::bits(refn)) c |= 2;
  if (vt::bits(v) == vt::bits(refu)) c |= 4;
  if (lon && std::isfinite(v) && fabs(v) > 180) c |= 8;
  return c;
}
struct Obs { vector<long long> o, c; double v[3]; };      // codes, classes and values of the (up to) three output arguments
// the results of the general routines with ALL and with ALL | LONG_UNROLL: the values every call form must reproduce
struct DirRef { double lat, lon, S, latu, lonu, Su; };
static DirRef dir_ref(const Rhumb& r, double lat1, double lon1, double azi12, double s12) {
  DirRef R; R.lat = R.lon = R.S = R.latu = R.lonu = R.Su = vt::sentinel(SENT);
  r.GenDirect(lat1, lon1, azi12, s12, Rhumb::ALL, R.lat, R.lon, R.S);
  r.GenDirect(lat1, lon1, azi12, s12, Rhumb::ALL | Rhumb::LONG_UNROLL, R.latu, R.lonu, R.Su);
  return R;
}
static Obs dir_form(const Rhumb& r, const string& form, int m, double lat1, double lon1, double azi12, double s12, const DirRef& R) {
  double la = vt::sentinel(SENT), lo = vt::sentinel(SENT), S = vt::sentinel(SENT); bool hasS = true;
  if (form == "GenDirect") r.GenDirect(lat1, lon1, azi12, s12, rmask(m), la, lo, S);
  else if (form == "Direct3") r.Direct(lat1, lon1, azi12, s12, la, lo, S);
  else if (form == "Direct2") { r.Direct(lat1, lon1, azi12, s12, la, lo); hasS = false; }
  else {
    Rhumb::LineClass ln = r.Line(lat1, lon1, azi12);
    if (form == "GenPosition") ln.GenPosition(s12, lmask(m), la, lo, S);
    else if (form == "Position3") ln.Position(s12, la, lo, S);
    else { ln.Position(s12, la, lo); hasS = false; }
  }
  Obs b; b.v[0] = la; b.v[1] = lo; b.v[2] = S;
  b.o = {ocode(la, R.lat, R.latu, false), ocode(lo, R.lon, R.lonu, true), hasS ? ocode(S, R.S, R.Su, false) : -1};
  b.c = {vt::cls(la), vt::cls(lo), hasS ? vt::cls(S) : -1};
  return b;
}
struct InvRef { double s12, azi12, S12; };
static InvRef inv_ref(const Rhumb& r, double lat1, double lon1, double lat2, double lon2) {
  InvRef R; R.s12 = R.azi12 = R.S12 = vt::sentinel(SENT);
  r.GenInverse(lat1, lon1, lat2, lon2, Rhumb::ALL, R.s12, R.azi12, R.S12);
  return R;
}
static Obs inv_form(const Rhumb& r, const string& form, int m, double lat1, double lon1, double lat2, double lon2, const InvRef& R) {
  double s = vt::sentinel(SENT), az = vt::sentinel(SENT), S = vt::sentinel(SENT); bool hasS = true;
  if (form == "GenInverse") r.GenInverse(lat1, lon1, lat2, lon2, rmask(m), s, az, S);
  else if (form == "Inverse3") r.Inverse(lat1, lon1, lat2, lon2, s, az, S);
  else { r.Inverse(lat1, lon1, lat2, lon2, s, az); hasS = false; }
  Obs b; b.v[0] = s; b.v[1] = az; b.v[2] = S;
  b.o = {ocode(s, R.s12, R.s12, false), ocode(az, R.azi12, R.azi12, false), hasS ? ocode(S, R.S12, R.S12, false) : -1};
  b.c = {vt::cls(s), vt::cls(az), hasS ? vt::cls(S) : -1};
  return b;
}
// every call form of a problem for a record of the seeded random stage: the two general routines with the mask m,
// every overload, and the general routines with ALL as seen through the 3-argument overloads
static void dir_forms(Rec& r, const Rhumb& rh, int m, double lat1, double lon1, double azi12, double s12) {
  DirRef R = dir_ref(rh, lat1, lon1, azi12, s12);
  r.i("mm", m).li("gd", dir_form(rh, "GenDirect", m, lat1, lon1, azi12, s12, R).o).li("gp", dir_form(rh, "GenPosition", m, lat1, lon1, azi12, s12, R).o)
   .li("d3", dir_form(rh, "Direct3", 0, lat1, lon1, azi12, s12, R).o).li("d2", dir_form(rh, "Direct2", 0, lat1, lon1, azi12, s12, R).o)
   .li("p3", dir_form(rh, "Position3", 0, lat1, lon1, azi12, s12, R).o).li("p2", dir_form(rh, "Position2", 0, lat1, lon1, azi12, s12, R).o);
}
static void inv_forms(Rec& r, const Rhumb& rh, int m, double lat1, double lon1, double lat2, double lon2) {
  InvRef R = inv_ref(rh, lat1, lon1, lat2, lon2);
  r.i("mm", m).li("gi", inv_form(rh, "GenInverse", m, lat1, lon1, lat2, lon2, R).o)
   .li("i3", inv_form(rh, "Inverse3", 0, lat1, lon1, lat2, lon2, R).o).li("i2", inv_form(rh, "Inverse2", 0, lat1, lon1, lat2, lon2, R).o);
}
// members of the constructor family that must build the same solver: the default argument exact = false and the
// WGS84 singleton.  1 = bit-identical results, 0 = not, -1 = the configuration is not a member's
static bool same3(double a, double b, double c, double x, double y, double z) {
  return vt::bits(a) == vt::bits(x) && vt::bits(b) == vt::bits(y) && vt::bits(c) == vt::bits(z);
}
static const Rhumb* default_rhumb(int ci) {
  static vector<unique_ptr<Rhumb>> R(cfgs().size());
  if (cfgs()[ci].exact) return nullptr;
  if (!R[ci]) R[ci].reset(new Rhumb(cfgs()[ci].a, cfgs()[ci].f));
  return R[ci].get();
}
static bool is_wgs84_series(int ci) { return cfgs()[ci].a == 6378137.0 && cfgs()[ci].f == 1 / 298.257223563 && !cfgs()[ci].exact; }

// ------------------------------------------------------------------ lattice replays
// unit of length on configuration ci corresponding to one degree of rectifying latitude
static double unit_len(int ci) { return ci <= 1 ? 1.0 : ellip(ci).QuarterMeridian() / 90; }
// k1 = 0 vectors are also run on the extreme exact configurations f = 0.98 and f = -49 (thorough: also b/a = 1/10, 10, 1/90, 90):
// discrete content, pole and zero areas, and (not for f >= 0.9) the meridian arcs
static vector<int> lattice_cfgs(bool all, long long k1) {
  vector<int> c = all ? vector<int>{0, 1, 2, 3, 11, 14, 15} : vector<int>{0, 1, 3, 15};
  if (k1 == 0) { c.push_back(18); c.push_back(19); if (all) { c.push_back(16); c.push_back(17); c.push_back(22); c.push_back(23); } }
  return c;
}
static const vector<int>& mask_cfgs(bool all) {
  static const vector<int> few = {1, 2}, many = {1, 2, 15};
  return all ? many : few;
}
// integer multiples of the unit of length are lattice values of the model: not where a recorded accuracy defect of the
// length exceeds the lattice tolerance (exact, f >= 0.9: DIsometric, notes/C09.md F4)
static bool len_lattice(int ci) { return !(cfgs()[ci].exact && cfgs()[ci].f >= 0.9); }

// li lat1 k1 lat2 k2 d all
static void do_li(const vector<string>& t) {
  int lat1 = atoi(t[1].c_str()), lat2 = atoi(t[3].c_str()); long long k1 = atoll(t[2].c_str()), k2 = atoll(t[4].c_str());
  int d = atoi(t[5].c_str()); bool all = atoi(t[6].c_str()) != 0;
  double lon1 = double(k1), lon2 = vt::eps(k2, d);
  for (int ci : lattice_cfgs(all, k1)) {
    InvOut o = do_inverse(ci, lat1, lon1, lat2, lon2);
    InvOut w = do_inverse(ci, lat2, lon2, lat1, lon1);
    const EL& E = ell(ci);
    double strip = double(E.c2) * Math::degree();       // area c^2 * 1 degree: S12 / strip = lon12 * <sin xi>
    bool mul = ci <= 1 || (len_lattice(ci) && (lat1 == 0 || abs(lat1) == 90) && (lat2 == 0 || abs(lat2) == 90));   // rectifying latitudes are integers
    Rec r; r.str("e", "li").i("ci", ci).b("sph", ci <= 1).b("mul", mul).i("lat1", lat1).i("k1", k1).i("lat2", lat2).i("k2", k2).i("d", d)
      .str("tie", tie_class(lon1, lon2))
      .i("cs", vt::cls(o.s12)).i("ca", vt::cls(o.azi12)).i("cS", vt::cls(o.S12))
      .i("azx", azx(o.azi12)).i("azs", sgnbit(o.azi12)).li("az", pico(fabs(o.azi12)))
      .li("s12", pico(o.s12 / unit_len(ci))).li("S", pico(o.S12 / strip))
      .i("wazx", azx(w.azi12)).i("wazs", sgnbit(w.azi12)).li("waz", pico(fabs(w.azi12)))
      .li("ws12", pico(w.s12 / unit_len(ci))).li("wS", pico(w.S12 / strip)).i("wcS", vt::cls(w.S12));
    r.emit();
  }
}

// ld lat1 k1 azi s all      (s in degrees of rectifying latitude)
static void do_ld(const vector<string>& t) {
  int lat1 = atoi(t[1].c_str()); long long k1 = atoll(t[2].c_str()); int azi = atoi(t[3].c_str()); long long s = atoll(t[4].c_str());
  bool all = atoi(t[5].c_str()) != 0;
  for (int ci : lattice_cfgs(all, k1)) {
    if (ci > 1 && !(lat1 == 0 || abs(lat1) == 90)) continue;        // off the sphere only mu = phi latitudes stay on the lattice
    double s12 = double(s) * unit_len(ci);
    DirOut o = do_direct(ci, lat1, double(k1), azi, s12);
    const EL& E = ell(ci);
    double strip = double(E.c2) * Math::degree();
    Rec r; r.str("e", "ld").i("ci", ci).b("sph", ci <= 1).i("kap", kappa(cfgs()[ci])).i("lat1", lat1).i("k1", k1).i("azi", azi).i("s", s)
      .i("cl", vt::cls(o.lat2)).i("cn", vt::cls(o.lon2)).i("cu", vt::cls(o.lon2u)).i("cS", vt::cls(o.S12))
      .b("pe", o.pe).b("ue", o.ue)
      .li("lat2", pico(o.lat2)).li("lon2", pico(o.lon2)).li("lon2u", pico(o.lon2u)).li("S", pico(o.S12 / strip))
      .i("dls", sgn(o.lat2 - lat1)).i("dus", sgn(o.lon2u - double(k1)))
      .b("rng", fabs(o.lat2) <= 90 && (std::isnan(o.lon2) || fabs(o.lon2) <= 180));
    r.emit();
  }
}

// lm lat1 k1 azi s form m all      one call form of the direct problem with the output mask m
static void do_lm(const vector<string>& t) {
  int lat1 = atoi(t[1].c_str()); long long k1 = atoll(t[2].c_str()); int azi = atoi(t[3].c_str()); long long s = atoll(t[4].c_str());
  string form = t[5]; int m = atoi(t[6].c_str()); bool all = atoi(t[7].c_str()) != 0;
  for (int ci : mask_cfgs(all)) {
    if (ci > 1 && !(lat1 == 0 || abs(lat1) == 90)) continue;
    const Rhumb& rh = rhumb(ci);
    double s12 = double(s) * unit_len(ci);
    DirRef R = dir_ref(rh, lat1, double(k1), azi, s12);
    Obs b = dir_form(rh, form, m, lat1, double(k1), azi, s12, R);
    Rec r; r.str("e", "lm").i("ci", ci).b("sph", ci <= 1).i("kap", kappa(cfgs()[ci])).i("lat1", lat1).i("k1", k1).i("azi", azi).i("s", s).str("form", form).i("m", m)
      .li("o", b.o).li("c", b.c).li("lat2", pico(b.v[0]))
      .li("rc", {vt::cls(R.lat), vt::cls(R.lon), vt::cls(R.lonu), vt::cls(R.S)}).b("rue", vt::bits(R.lat) == vt::bits(R.latu) && vt::bits(R.S) == vt::bits(R.Su));
    r.emit();
  }
}
// im lat1 k1 lat2 k2 d form m all  one call form of the inverse problem with the output mask m
static void do_im(const vector<string>& t) {
  int lat1 = atoi(t[1].c_str()), lat2 = atoi(t[3].c_str()); long long k1 = atoll(t[2].c_str()), k2 = atoll(t[4].c_str());
  int d = atoi(t[5].c_str()); string form = t[6]; int m = atoi(t[7].c_str()); bool all = atoi(t[8].c_str()) != 0;
  double lon1 = double(k1), lon2 = vt::eps(k2, d);
  for (int ci : mask_cfgs(all)) {
    const Rhumb& rh = rhumb(ci);
    InvRef R = inv_ref(rh, lat1, lon1, lat2, lon2);
    Obs b = inv_form(rh, form, m, lat1, lon1, lat2, lon2, R);
    Rec r; r.str("e", "im").i("ci", ci).i("lat1", lat1).i("k1", k1).i("lat2", lat2).i("k2", k2).i("d", d).str("form", form).i("m", m)
      .li("o", b.o).li("c", b.c).li("rc", {vt::cls(R.s12), vt::cls(R.azi12), vt::cls(R.S12)});
    r.emit();
  }
}

// lp lat1 k1 azi sa sb all      two positions on ONE line object: the second one (sb) is observed after the line and a copy
// of it have been used for sa; written as an ld record of the problem (lat1, k1, azi, sb) with the history in "hist"
static void do_lp(const vector<string>& t) {
  int lat1 = atoi(t[1].c_str()); long long k1 = atoll(t[2].c_str()); int azi = atoi(t[3].c_str());
  long long sa = atoll(t[4].c_str()), sb = atoll(t[5].c_str()); bool all = atoi(t[6].c_str()) != 0;
  for (int ci : mask_cfgs(all)) {
    if (ci > 1 && !(lat1 == 0 || abs(lat1) == 90)) continue;
    const Rhumb& r = rhumb(ci); const EL& E = ell(ci);
    double u = unit_len(ci), strip = double(E.c2) * Math::degree();
    RhumbLine ln = r.Line(lat1, double(k1), azi);
    double a, b, c; ln.Position(double(sa) * u, a, b, c); ln.Position(double(sa) * u, a, b);
    RhumbLine cp(ln); cp.GenPosition(double(sa) * u, RhumbLine::ALL | RhumbLine::LONG_UNROLL, a, b, c);
    DirOut o; o.lat2 = o.lon2 = o.S12 = o.lat2u = o.lon2u = o.S12u = vt::sentinel(SENT);
    ln.Position(double(sb) * u, o.lat2, o.lon2, o.S12);
    cp.GenPosition(double(sb) * u, RhumbLine::ALL | RhumbLine::LONG_UNROLL, o.lat2u, o.lon2u, o.S12u);
    DirOut f = do_direct(ci, lat1, double(k1), azi, double(sb) * u);      // the same problem without a history
    o.pe = f.pe && same3(o.lat2, o.lon2, o.S12, f.lat2, f.lon2, f.S12);
    o.ue = f.ue && same3(o.lat2u, o.lon2u, o.S12u, f.lat2u, f.lon2u, f.S12u)
        && vt::bits(ln.Latitude()) == vt::bits(double(lat1)) && vt::bits(cp.Longitude()) == vt::bits(double(k1));
    Rec q; q.str("e", "ld").i("ci", ci).b("sph", ci <= 1).i("kap", kappa(cfgs()[ci])).i("lat1", lat1).i("k1", k1).i("azi", azi).i("s", sb).i("hist", sa)
      .i("cl", vt::cls(o.lat2)).i("cn", vt::cls(o.lon2)).i("cu", vt::cls(o.lon2u)).i("cS", vt::cls(o.S12))
      .b("pe", o.pe).b("ue", o.ue)
      .li("lat2", pico(o.lat2)).li("lon2", pico(o.lon2)).li("lon2u", pico(o.lon2u)).li("S", pico(o.S12 / strip))
      .i("dls", sgn(o.lat2 - lat1)).i("dus", sgn(o.lon2u - double(k1)))
      .b("rng", fabs(o.lat2) <= 90 && (std::isnan(o.lon2) || fabs(o.lon2) <= 180));
    q.emit();
  }
}

// ------------------------------------------------------------------ seeded random law records
static double logu(vt::Rng& g, double lo, double hi) { return pow(10.0, g.uni(lo, hi)); }
static double pm1(vt::Rng& g) { return g.coin() ? 1.0 : -1.0; }
static double clamp90(double v) { return v > 90 ? 90 : v < -90 ? -90 : v; }

// region tags of the inputs (structural, inputs only) used to match known findings:
//   "pro-exact-eq"   exact mode, prolate, the course touches the band |lat| < 10 degrees
//   "vobl-exact"     exact mode, very oblate (f >= 0.9)
static const char* region(const Cfg& C, double lata, double latb) {
  if (C.exact && C.f >= 0.9) return "vobl-exact";
  if (C.exact && C.f < 0 && (fabs(lata) < 10 || fabs(latb) < 10 || lata * latb < 0)) return "pro-exact-eq";
  return "none";
}
// narrower class for the prolate finding, from the same quantities as "reg" (proposed known-finding label, field "kf"):
//   "vobl-exact"       exact mode, f >= 0.9 (every course; same as reg)
//   "pro-exact-eq15"   exact mode, prolate, BOTH ends within 15 degrees of the equator
static const char* kf_class(const Cfg& C, double lata, double latb) {
  if (C.exact && C.f >= 0.9) return "vobl-exact";
  if (C.exact && C.f < 0 && fabs(lata) < 15 && fabs(latb) < 15) return "pro-exact-eq15";
  return "none";
}
static int kappa(const Cfg& C) { double k = C.f > 0 ? 1 / (1 - C.f) : 1 - C.f; return int(floor(k + 0.5)); }   // max(a/b, b/a)
static int series_edge(const Cfg& C) { return !C.exact && fabs(C.f) > 1.0 / 150 * (1 + 1e-12) ? 1 : 0; }

// authalic radius squared in units of 1e-6 L^2 (the scale of an area on this ellipsoid)
static long long c2q(const EL& E) { return qppm(E.c2 / (E.L * E.L)); }
static void rec_ell(int ci) {
  const EL& E = ell(ci); const Rhumb& r = rhumb(ci);
  LD A = 4 * PIL * E.c2;
  Geodesic gd(cfgs()[ci].a, cfgs()[ci].f);
  Rec q; q.str("e", "ell").i("ci", ci).i("ex", cfgs()[ci].exact).i("fc", cfgs()[ci].fc).i("kap", kappa(cfgs()[ci])).i("c2q", c2q(E))
    .i("dA", qarea((LD)r.EllipsoidArea() - A, E)).i("dAE", qarea((LD)r.EllipsoidArea() - (LD)ellip(ci).Area(), E))
    .i("dAG", qarea((LD)r.EllipsoidArea() - (LD)gd.EllipsoidArea(), E))
    .i("dQ", qlen((LD)ellip(ci).QuarterMeridian() - E.Q, E))
    .b("insp", r.EquatorialRadius() == cfgs()[ci].a && r.Flattening() == cfgs()[ci].f);
  // members of the constructor family: default argument, singleton (area and inspectors)
  const Rhumb* dr = default_rhumb(ci);
  q.i("dfl", dr ? (vt::bits(dr->EllipsoidArea()) == vt::bits(r.EllipsoidArea()) && dr->EquatorialRadius() == cfgs()[ci].a && dr->Flattening() == cfgs()[ci].f ? 1 : 0) : -1);
  const Rhumb& wg = Rhumb::WGS84();
  q.i("wg", is_wgs84_series(ci) ? (vt::bits(wg.EllipsoidArea()) == vt::bits(r.EllipsoidArea()) && wg.EquatorialRadius() == cfgs()[ci].a && wg.Flattening() == cfgs()[ci].f ? 1 : 0) : -1);
  q.emit();
}

struct Prev { bool have = false; InvOut inv; DirOut dir; };

static void rec_inv(int ci, int g, double lat1, double lon1, double lat2, double lon2, Prev& pv, int msk) {
  const EL& E = ell(ci); const Cfg& C = cfgs()[ci];
  InvOut o = do_inverse(ci, lat1, lon1, lat2, lon2);
  InvOut w = do_inverse(ci, lat2, lon2, lat1, lon1);
  LD lon12 = angdiffL(lon2, lon1);
  const char* tie = tie_class(lon1, lon2);
  // ties: there are two equally short courses; the defining expressions are evaluated for whichever was returned
  // (the sign of the returned azimuth) and the choice itself is judged by the separate law rh-tie-east
  if (string(tie) != "none") lon12 = signbit(o.azi12) ? -180 : 180;
  Ref rf = ref_inverse(E, lat1, lat2, lon12);
  Rec r; r.str("e", "inv").i("ci", ci).i("ex", C.exact).i("fc", C.fc).i("kap", kappa(C)).i("se", series_edge(C)).i("g", g)
    .str("in", hx({lat1, lon1, lat2, lon2})).str("reg", region(C, lat1, lat2)).str("kf", kf_class(C, lat1, lat2)).i("c2q", c2q(E))
    .str("tie", tie).i("sl", lon_sign(lon1, lon2)).i("rk", rf.kind)
    .i("cs", vt::cls(o.s12)).i("ca", vt::cls(o.azi12)).i("cS", vt::cls(o.S12))
    .i("azx", azx(o.azi12)).i("azs", sgnbit(o.azi12)).i("aq", qudeg(fabs(o.azi12)))
    .i("dlat", sgn(lat2 - lat1))
    .i("qe", vt::q1(rf.qe, 1e-20L)).i("sq", qppm(rf.s / E.L)).i("lq", qudeg(fabsl(lon12)));
  bool fin = std::isfinite(o.s12) && std::isfinite(o.azi12);
  LD Rw; { LD s1, c1; sincosdL(lat1, s1, c1); Rw = fminl(rf.R2, fabs(lat1) == 90 ? 0 : E.circle(s1, c1)); }   // weight of the E miss: the smaller circle radius
  Miss m; if (fin) m = misses(rf, o.s12, o.azi12, Rw);
  r.i("ds", std::isfinite(o.s12) ? qlen(fabsl((LD)o.s12 - rf.s), E) : -1);
  r.i("mN", m.mN >= 0 ? qlen(m.mN, E) : -1).i("mE1", m.mE1 >= 0 ? qlen(m.mE1, E) : -1).i("mE2", m.mE2 >= 0 ? qlen(m.mE2, E) : -1);
  r.i("dS", std::isfinite(o.S12) && rf.hasS ? qarea(fabsl((LD)o.S12 - rf.S), E) : -1);
  // cross-class: Ellipsoid::MeridianDistance, IsometricLatitude, CircleRadius
  {
    const Ellipsoid& el = ellip(ci);
    LD sa, ca; sincosdL(o.azi12, sa, ca);
    LD dM = (LD)el.MeridianDistance(lat2) - (LD)el.MeridianDistance(lat1);
    r.i("eM", fin ? qlen(fabsl((LD)o.s12 * ca - dM), E) : -1);
    LD dpsi = ((LD)el.IsometricLatitude(lat2) - (LD)el.IsometricLatitude(lat1)) * DEGL;     // radians
    bool okp = fin && std::isfinite((double)dpsi) && rf.kind == 0 && ca != 0;
    r.i("eP", okp ? qlen(Rw * fabsl(rf.lam - (sa / ca) * dpsi), E) : -1);
    r.i("eC", fin && rf.kind == 1 ? qlen(fabsl((LD)o.s12 - (LD)el.CircleRadius(lat1) * fabsl(lon12) * DEGL), E) : -1);
  }
  // exchange of the end points
  bool wfin = std::isfinite(w.s12) && std::isfinite(w.azi12);
  r.i("wcs", vt::cls(w.s12)).i("wca", vt::cls(w.azi12)).i("wcS", vt::cls(w.S12));
  r.i("rs", fin && wfin ? qlen(fabsl((LD)w.s12 - (LD)o.s12), E) : -1);
  { LD sa, ca, sb, cb; sincosdL(o.azi12, sa, ca); sincosdL(w.azi12, sb, cb);
    r.i("rN", fin && wfin ? qlen(fabsl((LD)w.s12 * cb + (LD)o.s12 * ca), E) : -1); }     // s cos(azi) changes sign
  r.i("rS", std::isfinite(o.S12) && std::isfinite(w.S12) ? qarea(fabsl((LD)w.S12 + (LD)o.S12), E) : -1);
  r.i("was", sgnbit(w.azi12));
  // series == exact (the exact member of a pair is emitted right after the series member of the same problem)
  if (C.exact && pv.have) {
    bool xf = fin && std::isfinite(pv.inv.s12) && std::isfinite(pv.inv.azi12);
    LD sa, ca, sb, cb; sincosdL(o.azi12, sa, ca); sincosdL(pv.inv.azi12, sb, cb);
    r.b("xp", true).i("xse", series_edge(cfgs()[ci - 1]))
     .i("xs", xf ? qlen(fabsl((LD)o.s12 - (LD)pv.inv.s12), E) : -1)
     .i("xN", xf ? qlen(fabsl((LD)o.s12 * ca - (LD)pv.inv.s12 * cb), E) : -1)
     .i("xE", xf ? qlen(fabsl((LD)o.s12 * sa - (LD)pv.inv.s12 * sb), E) : -1)
     .i("xS", std::isfinite(o.S12) && std::isfinite(pv.inv.S12) ? qarea(fabsl((LD)o.S12 - (LD)pv.inv.S12), E) : -1)
     .b("xc", vt::cls(o.s12) == vt::cls(pv.inv.s12) && vt::cls(o.azi12) == vt::cls(pv.inv.azi12) && vt::cls(o.S12) == vt::cls(pv.inv.S12));
  } else r.b("xp", false).i("xse", 0).i("xs", -1).i("xN", -1).i("xE", -1).i("xS", -1).b("xc", true);
  // every call form of the inverse problem; constructor family
  inv_forms(r, rhumb(ci), msk, lat1, lon1, lat2, lon2);
  { long long dfl = -1, wg = -1; double a, b, c;
    if (const Rhumb* dr = default_rhumb(ci)) { a = b = c = vt::sentinel(SENT); dr->Inverse(lat1, lon1, lat2, lon2, a, b, c); dfl = same3(a, b, c, o.s12, o.azi12, o.S12); }
    if (is_wgs84_series(ci)) { a = b = c = vt::sentinel(SENT); Rhumb::WGS84().Inverse(lat1, lon1, lat2, lon2, a, b, c); wg = same3(a, b, c, o.s12, o.azi12, o.S12); }
    r.i("dfl", dfl).i("wg", wg); }
  r.emit();
  pv.have = true; pv.inv = o;
}

static void rec_dir(int ci, int g, double lat1, double lon1, double azi12, double s12, Prev& pv, int msk) {
  const EL& E = ell(ci); const Cfg& C = cfgs()[ci];
  DirOut o = do_direct(ci, lat1, lon1, azi12, s12);
  Rec r; r.str("e", "dir").i("ci", ci).i("ex", C.exact).i("fc", C.fc).i("kap", kappa(C)).i("se", series_edge(C)).i("g", g)
    .str("in", hx({lat1, lon1, azi12, s12})).str("reg", region(C, lat1, std::isfinite(o.lat2) ? o.lat2 : lat1))
    .str("kf", kf_class(C, lat1, std::isfinite(o.lat2) ? o.lat2 : lat1)).i("c2q", c2q(E))
    .i("cl", vt::cls(o.lat2)).i("cn", vt::cls(o.lon2)).i("cu", vt::cls(o.lon2u)).i("cS", vt::cls(o.S12))
    .b("pe", o.pe).b("ue", o.ue).b("pst", fabs(lat1) == 90).b("s0", s12 == 0)
    .b("rng", fabs(o.lat2) <= 90 && (std::isnan(o.lon2) || fabs(o.lon2) <= 180));
  // the documented latitude: meridian arc M(lat1) + s12 cos(azi12), folded at the poles
  LD sa, ca; sincosdL(azi12, sa, ca);
  LD M1 = E.merid(lat1), Mt = M1 + (LD)s12 * ca, Q = E.Q;
  LD Mr = remainderl(Mt, 4 * Q); if (Mr > Q) Mr = 2 * Q - Mr; else if (Mr < -Q) Mr = -2 * Q - Mr;
  r.i("pm", qlen(fabsl(Mt) - Q, E)).i("sq", qppm(fabsl((LD)s12) / E.L)).i("aq", qudeg(fabsl(remainderl(azi12, 360.0L))));
  r.i("dlp", std::isfinite(o.lat2) ? qlen(fabsl(E.merid(o.lat2) - Mr), E) : -1);
  bool fin = std::isfinite(o.lat2) && std::isfinite(o.lon2u) && std::isfinite(o.lon2);
  LD lon12u = (LD)o.lon2u - (LD)lon1;
  { long long du = -1;
    if (fin) { double sc = max(max(fabs(o.lon2u), fabs(lon1)), 180.0); double ul = nextafter(sc, 1e300) - sc;
               du = vt::q1(fabsl(angdiffL(o.lon2u, o.lon2)) / ul, 1e-3L); }
    r.i("du", du); }                                   // |lon2(unrolled) - lon2| mod 360 in units of 1e-3 ulp(max(|lon2u|, |lon1|, 180))
  r.i("lq", fin ? qudeg(fabsl(lon12u)) : -1);
  r.i("lonsg", fin ? sgn((double)lon12u) : 0).i("latsg", std::isfinite(o.lat2) ? sgn(o.lat2 - lat1) : 0)
   .i("sas", sgn((double)((LD)s12 * sa))).i("cas", sgn((double)((LD)s12 * ca)));
  long long mE1 = -1, mE2 = -1, dS = -1, qe = 0, rk = -1, cr = -1, is = 0, iN = -1, iS = -1, ics = -1, tiei = 0;
  if (fin && fabs(lat1) != 90) {
    // defining expressions evaluated between the returned end points
    Ref rf = ref_inverse(E, lat1, o.lat2, lon12u);
    rk = rf.kind; qe = vt::q1(rf.qe, 1e-20L); cr = qppm(rf.cr);
    Miss m = misses(rf, s12, azi12, rf.R2);
    if (m.mE1 >= 0) mE1 = qlen(m.mE1, E);
    if (m.mE2 >= 0) mE2 = qlen(m.mE2, E);
    if (rf.hasS && std::isfinite(o.S12)) dS = qarea(fabsl((LD)o.S12 - rf.S), E);
    // direct followed by inverse
    InvOut v = do_inverse(ci, lat1, lon1, o.lat2, o.lon2);
    ics = vt::cls(v.s12) * 100 + vt::cls(v.azi12) * 10 + vt::cls(v.S12);
    if (std::isfinite(v.s12) && std::isfinite(v.azi12)) {
      LD sb, cb; sincosdL(v.azi12, sb, cb);
      is = qlen((LD)v.s12 - fabsl((LD)s12), E);
      iN = qlen(fabsl((LD)v.s12 * cb - (LD)s12 * ca), E);
      if (std::isfinite(v.S12) && std::isfinite(o.S12)) iS = qarea(fabsl((LD)v.S12 - (LD)o.S12), E);
    }
    tiei = fabsl(fabsl(remainderl(lon12u, 360.0L)) - 180) < 1e-9L ? 1 : 0;
  }
  r.i("rk", rk).i("qe", qe).i("cr", cr).i("mE1", mE1).i("mE2", mE2).i("dS", dS).i("ics", ics).i("is", is).i("iN", iN).i("iS", iS).i("tiei", tiei);
  // additivity along the line: 0 -> s12/2 -> s12
  long long ap = -1, ad = -1;
  if (fin && fabs(lat1) != 90 && std::isfinite(o.S12)) {
    DirOut h = do_direct(ci, lat1, lon1, azi12, s12 / 2);
    if (std::isfinite(h.lat2) && std::isfinite(h.lon2u) && std::isfinite(h.S12) && fabs(h.lat2) != 90) {
      DirOut k = do_direct(ci, h.lat2, h.lon2u, azi12, s12 - s12 / 2);
      if (std::isfinite(k.lat2) && std::isfinite(k.lon2u) && std::isfinite(k.S12)) {
        ap = qlen(local_dist(E, o.lat2, o.lon2u, k.lat2, k.lon2u), E);
        ad = qarea(fabsl((LD)o.S12 - (LD)h.S12 - (LD)k.S12), E);
      }
    }
  }
  r.i("ap", ap).i("ad", ad);
  if (C.exact && pv.have) {
    bool xf = fin && std::isfinite(pv.dir.lat2) && std::isfinite(pv.dir.lon2u);
    r.b("xp", true).i("xse", series_edge(cfgs()[ci - 1])).b("xc", vt::cls(o.lon2) == vt::cls(pv.dir.lon2) && vt::cls(o.S12) == vt::cls(pv.dir.S12))
     .i("xd", xf ? qlen(local_dist(E, o.lat2, o.lon2u, pv.dir.lat2, pv.dir.lon2u), E) : -1)
     .i("xS", xf && std::isfinite(o.S12) && std::isfinite(pv.dir.S12) ? qarea(fabsl((LD)o.S12 - (LD)pv.dir.S12), E) : -1)
     .i("xl2", std::isfinite(o.lat2) && std::isfinite(pv.dir.lat2) ? qlen(fabsl(E.merid(o.lat2) - E.merid(pv.dir.lat2)), E) : -1);
  } else r.b("xp", false).i("xse", 0).b("xc", true).i("xd", -1).i("xS", -1).i("xl2", -1);
  // every call form of the direct problem; constructor family; inspectors of the line object
  dir_forms(r, rhumb(ci), msk, lat1, lon1, azi12, s12);
  { long long dfl = -1, wg = -1; double a, b, c;
    if (const Rhumb* dr = default_rhumb(ci)) { a = b = c = vt::sentinel(SENT); dr->Direct(lat1, lon1, azi12, s12, a, b, c); dfl = same3(a, b, c, o.lat2, o.lon2, o.S12); }
    if (is_wgs84_series(ci)) { a = b = c = vt::sentinel(SENT); Rhumb::WGS84().Direct(lat1, lon1, azi12, s12, a, b, c); wg = same3(a, b, c, o.lat2, o.lon2, o.S12); }
    r.i("dfl", dfl).i("wg", wg);
    RhumbLine ln = rhumb(ci).Line(lat1, lon1, azi12);
    RhumbLine::BaseClass const& base = rhumb(ci);
    // a line object has no history: after other positions, and through a copy, the same s12 gives the same point
    { double p, q, t; ln.Position(s12 / 2, p, q, t); ln.GenPosition(-s12, RhumbLine::ALL | RhumbLine::LONG_UNROLL, p, q, t);
      RhumbLine cp(ln); a = b = c = vt::sentinel(SENT); ln.Position(s12, a, b, c);
      p = q = t = vt::sentinel(SENT); cp.Position(s12, p, q, t);
      r.b("lre", same3(a, b, c, o.lat2, o.lon2, o.S12) && same3(p, q, t, o.lat2, o.lon2, o.S12)); }
    r.b("linsp", vt::bits(ln.Latitude()) == vt::bits(lat1) && vt::bits(ln.Longitude()) == vt::bits(lon1)
                 && fabs(ln.Azimuth()) <= 180 && remainderl((LD)ln.Azimuth() - (LD)azi12, 360.0L) == 0
                 && ln.EquatorialRadius() == base.EquatorialRadius() && ln.Flattening() == base.Flattening()
                 && ln.EquatorialRadius() == C.a && ln.Flattening() == C.f); }
  r.emit();
  pv.have = true; pv.dir = o;
}

static void do_record(uint64_t seed, long long n) {
  vt::Rng g(seed);
  const int NC = int(cfgs().size());
  for (int ci = 0; ci < NC; ++ci) rec_ell(ci);
  // problem index -> configuration(s): pairs (series, exact) for fc <= 1, single exact configurations otherwise
  const vector<vector<int>> groups = {{0, 1}, {2, 3}, {2, 3}, {2, 3}, {4, 5}, {6, 7}, {8, 9}, {10, 11}, {12, 13}, {20, 21},
                                      {14}, {15}, {14}, {15}, {16}, {17}, {18}, {19}, {22}, {23}};
  for (long long it = 0; it < n; ++it) {
    const vector<int>& grp = groups[size_t(g.range(0, (long long)groups.size() - 1))];
    const EL& E = ell(grp[0]);
    double Q = double(E.Q), mdeg = Q / 90;       // metres per degree of rectifying latitude
    Prev pv;
    if (it % 2 == 0) {
      int k = int(g.range(0, 9));
      double lat1 = g.uni(-89.9, 89.9), lat2 = g.uni(-89.9, 89.9), lon1 = g.uni(-180, 180), lon12 = g.uni(-180, 180);
      if (g.range(0, 9) == 0) lon1 = g.uni(-540, 540);
      double lon2 = lon1 + lon12;
      switch (k) {
        case 1: lat2 = clamp90(lat1 + pm1(g) * logu(g, -13, -1)); break;
        case 2: lat2 = lat1; break;
        case 3: lon2 = lon1 + pm1(g) * logu(g, -13, -2); break;
        case 4: { double d = logu(g, -9, 3) / mdeg; double th = g.uni(0, 6.283185307179586);
                  lat2 = clamp90(lat1 + d * cos(th)); lon2 = lon1 + d * sin(th) / max(0.01, cos(lat1 * 0.017453292519943295)); break; }
        case 5: lat1 = pm1(g) * (90 - logu(g, -6, -1)); if (g.coin()) lat2 = pm1(g) * (90 - logu(g, -6, -1)); break;
        case 6: if (g.coin()) lat2 = pm1(g) * 90; else lat1 = pm1(g) * 90; if (g.range(0, 5) == 0) { lat1 = pm1(g) * 90; lat2 = pm1(g) * 90; } break;
        case 7: { lon1 = double(g.range(-180, 180)); int w = int(g.range(0, 3));
                  lon2 = w == 0 ? lon1 + 180 : w == 1 ? lon1 - 180 : lon1 + pm1(g) * (180 - logu(g, -13, -1)); break; }
        case 8: { lat2 = lat1; int u = int(g.range(1, 3)); for (int j = 0; j < u; ++j) lat2 = nextafter(lat2, 100.0); break; }
        case 9: lat1 = double(g.range(-89, 89)); lat2 = double(g.range(-89, 89)); lon1 = double(g.range(-180, 180)); lon2 = double(g.range(-180, 180)); break;
        default: break;
      }
      for (int ci : grp) rec_inv(ci, k, lat1, lon1, lat2, lon2, pv, int((it / 2) % 64));
    } else {
      int k = int(g.range(0, 9));
      double lat1 = g.uni(-89.9, 89.9), lon1 = g.uni(-180, 180), azi = g.uni(-180, 180), s12 = g.uni(-2.5, 2.5) * Q;
      LD M1 = E.merid(lat1);
      switch (k) {
        case 1: azi = pm1(g) * 90; s12 = pm1(g) * logu(g, -3, 0.3) * Q; break;
        case 2: azi = pm1(g) * 90 + pm1(g) * logu(g, -14, -2); s12 = pm1(g) * logu(g, -3, 0.3) * Q; break;
        case 3: { int w = int(g.range(0, 3)); azi = w == 0 ? 0 : w == 1 ? 180 : w == 2 ? -180 : (g.coin() ? 0 : 180) + pm1(g) * logu(g, -14, -2); break; }
        case 4: s12 = pm1(g) * logu(g, -9, 3) * mdeg / 111e3; break;
        case 5: { LD sa, ca; sincosdL(azi, sa, ca); if (fabsl(ca) < 0.05L) { azi = g.coin() ? 10 : 170; sincosdL(azi, sa, ca); }
                  LD target = (1 + g.uni(0.001, 4)) * E.Q * (g.coin() ? 1 : -1); s12 = double((target - M1) / ca); break; }
        case 6: { LD sa, ca; sincosdL(azi, sa, ca); if (fabsl(ca) < 0.05L) { azi = g.coin() ? 20 : -160; sincosdL(azi, sa, ca); }
                  LD target = (1 + pm1(g) * logu(g, -16, -3)) * E.Q * (g.coin() ? 1 : -1); s12 = double((target - M1) / ca); break; }
        case 7: lat1 = pm1(g) * 90; if (g.coin()) azi = lat1 > 0 ? 180 : 0; s12 = g.uni(0, 2) * Q; break;
        case 8: lat1 = g.uni(-70, 70); azi = pm1(g) * g.uni(80, 100); s12 = g.uni(-8, 8) * Q; break;
        case 9: lat1 = double(g.range(-89, 89)); lon1 = double(g.range(-540, 540)); azi = 15.0 * double(g.range(-12, 12)); s12 = double(g.range(-200, 200)) * mdeg; break;
        default: break;
      }
      for (int ci : grp) rec_dir(ci, k, lat1, lon1, azi, s12, pv, int((it / 2) % 64));
    }
  }
}

int main(int argc, char** argv) {
  vt::install_terminate();
  gl_init();
  if (argc >= 2 && string(argv[1]) == "replay") {
    string line;
    while (getline(cin, line)) {
      auto t = vt::split(line); if (t.empty()) continue;
      if (t[0] == "li" && t.size() >= 7) do_li(t);
      else if (t[0] == "ld" && t.size() >= 6) do_ld(t);
      else if (t[0] == "lp" && t.size() >= 7) do_lp(t);
      else if (t[0] == "lm" && t.size() >= 8) do_lm(t);
      else if (t[0] == "im" && t.size() >= 9) do_im(t);
    }
    return 0;
  }
  if (argc >= 4 && string(argv[1]) == "record") { do_record(strtoull(argv[2], 0, 10), atoll(argv[3])); return 0; }
  fprintf(stderr, "usage: drv_rhumb replay < vectors | record seed n\n"); return 2;
}
