// Driver for the geodesic problems (C01 direct, C02 inverse, C03 m12/M12/M21/S12).
//   replay          : executes lattice vectors chosen by TLC on the unit-degree sphere, all solver configurations
//   record S N SYM  : seeded random law records on the ellipsoid family; SYM = file of symmetry descriptors
//                     emitted by TLC from GeodSym.tla (the driver is a generic interpreter of them)
#include "trace.hpp"
#include <GeographicLib/Geodesic.hpp>
#include <GeographicLib/GeodesicLine.hpp>
#include <GeographicLib/GeodesicExact.hpp>
#include <GeographicLib/GeodesicLineExact.hpp>
#include <GeographicLib/Ellipsoid.hpp>
#include <GeographicLib/Rhumb.hpp>
#include <GeographicLib/PolygonArea.hpp>
#include <GeographicLib/Math.hpp>
#include <fstream>

using namespace GeographicLib;
using namespace std;
using vt::Rec;
typedef long double LD;
static const LD PIL = 3.14159265358979323846264338327950288L;
static const double RA = double(180.0L / PIL);

// value -> <<round(v*1e6), round(residual*1e12)>>
static void qr(vector<long long>& out, double v) {
  if (!std::isfinite(v)) { out.push_back(std::isnan(v) ? 2000000001LL : 2000000000LL); out.push_back(0); return; }
  LD x = (LD)v * 1.0e6L, q = nearbyintl(x);
  if (fabsl(q) > 2.0e9L) { out.push_back(2000000000LL); out.push_back(0); return; }
  out.push_back((long long) q); out.push_back((long long) nearbyintl((x - q) * 1.0e6L));
}

// ---- a uniform view of the three solver configurations ---------------------------------------
struct Sol {
  int kind; Geodesic g; GeodesicExact e;
  Sol(int k, double a, double f) : kind(k), g(a, f, k == 2), e(a, f) {}
  double GenDirect(double lat1, double lon1, double azi1, bool arc, double sa, bool unroll,
                   double& lat2, double& lon2, double& azi2, double& s12, double& m12, double& M12, double& M21, double& S12) const {
    if (kind == 1) return e.GenDirect(lat1, lon1, azi1, arc, sa, GeodesicExact::ALL | (unroll ? unsigned(GeodesicExact::LONG_UNROLL) : 0u), lat2, lon2, azi2, s12, m12, M12, M21, S12);
    return g.GenDirect(lat1, lon1, azi1, arc, sa, Geodesic::ALL | (unroll ? unsigned(Geodesic::LONG_UNROLL) : 0u), lat2, lon2, azi2, s12, m12, M12, M21, S12);
  }
  double LinePos(double lat1, double lon1, double azi1, bool arc, double sa, bool unroll,
                 double& lat2, double& lon2, double& azi2, double& s12, double& m12, double& M12, double& M21, double& S12) const {
    if (kind == 1) { GeodesicLineExact l = e.Line(lat1, lon1, azi1, GeodesicExact::ALL);
      return l.GenPosition(arc, sa, GeodesicExact::ALL | (unroll ? unsigned(GeodesicExact::LONG_UNROLL) : 0u), lat2, lon2, azi2, s12, m12, M12, M21, S12); }
    GeodesicLine l = g.Line(lat1, lon1, azi1, Geodesic::ALL);
    return l.GenPosition(arc, sa, Geodesic::ALL | (unroll ? unsigned(Geodesic::LONG_UNROLL) : 0u), lat2, lon2, azi2, s12, m12, M12, M21, S12);
  }
  double GenInverse(double lat1, double lon1, double lat2, double lon2, double& s12, double& azi1, double& azi2,
                    double& m12, double& M12, double& M21, double& S12) const {
    if (kind == 1) return e.GenInverse(lat1, lon1, lat2, lon2, GeodesicExact::ALL, s12, azi1, azi2, m12, M12, M21, S12);
    return g.GenInverse(lat1, lon1, lat2, lon2, Geodesic::ALL, s12, azi1, azi2, m12, M12, M21, S12);
  }
  // InverseLine: Arc(), Distance(), azimuth at the start and the end point it defines
  void InvLine(double lat1, double lon1, double lat2, double lon2, double& a13, double& s13, double& azi1, double& la, double& lo) const {
    if (kind == 1) { GeodesicLineExact l = e.InverseLine(lat1, lon1, lat2, lon2); a13 = l.Arc(); s13 = l.Distance(); azi1 = l.Azimuth(); l.Position(s13, la, lo); }
    else { GeodesicLine l = g.InverseLine(lat1, lon1, lat2, lon2); a13 = l.Arc(); s13 = l.Distance(); azi1 = l.Azimuth(); l.Position(s13, la, lo); }
  }
  double Area() const { return kind == 1 ? e.EllipsoidArea() : g.EllipsoidArea(); }
};

// ------------------------------------------------------------------ lattice replay
static void replay() {
  Sol S[3] = {Sol(0, RA, 0), Sol(1, RA, 0), Sol(2, RA, 0)};
  const LD U = PIL / 180.0L;          // m^2 -> U  (U = R^2 pi/180 = 180/pi m^2)
  string line;
  while (getline(cin, line)) {
    auto t = vt::split(line); if (t.empty()) continue;
    if (t[0] == "dir") {   // dir inc node sig1 a12 lat1 lon1 azi1
      long long inc = atoll(t[1].c_str()), node = atoll(t[2].c_str()), s1 = atoll(t[3].c_str()), a = atoll(t[4].c_str());
      double lat1 = atof(t[5].c_str()), lon1 = atof(t[6].c_str()), azi1 = atof(t[7].c_str());
      for (int k = 0; k < 3; ++k) for (int itf = 0; itf < 3; ++itf) {
        double lat2, lon2, azi2, s12, m12, M12, M21, S12, lat2u, lon2u, t2;
        double a12r;
        if (itf == 0) { a12r = S[k].GenDirect(lat1, lon1, azi1, true, double(a), false, lat2, lon2, azi2, s12, m12, M12, M21, S12);
                        S[k].GenDirect(lat1, lon1, azi1, true, double(a), true, lat2u, lon2u, t2, t2, t2, t2, t2, t2); }
        else if (itf == 1) { a12r = S[k].GenDirect(lat1, lon1, azi1, false, double(a), false, lat2, lon2, azi2, s12, m12, M12, M21, S12);
                             S[k].GenDirect(lat1, lon1, azi1, false, double(a), true, lat2u, lon2u, t2, t2, t2, t2, t2, t2); }
        else { a12r = S[k].LinePos(lat1, lon1, azi1, true, double(a), false, lat2, lon2, azi2, s12, m12, M12, M21, S12);
               S[k].LinePos(lat1, lon1, azi1, true, double(a), true, lat2u, lon2u, t2, t2, t2, t2, t2, t2); }
        vector<long long> q;
        qr(q, lat2); qr(q, lon2); qr(q, lon2u - lon1); qr(q, azi2); qr(q, s12); qr(q, a12r);
        qr(q, double((LD)m12 * 2 / RA)); qr(q, 2 * M12); qr(q, 2 * M21); qr(q, double((LD)S12 * U));
        Rec r; r.str("e", "dir").i("inc", inc).i("node", node).i("s1", s1).i("a", a).i("lon1", (long long) lon1).i("cfg", 3 * k + itf).li("q", q);
        r.b("rng", fabs(lon2) <= 180 && fabs(azi2) <= 180 && fabs(lat2) <= 90 && vt::bits(lat2) == vt::bits(lat2u)); r.emit();
      }
    } else if (t[0] == "inv" || t[0] == "pinv") {   // inv inc node s1 s2 lat1 lon1 lat2 lon2 | pinv pole L lat lon first lat1 lon1 lat2 lon2
      size_t o = t[0] == "inv" ? 5 : 6;
      double lat1 = atof(t[o].c_str()), lon1 = atof(t[o + 1].c_str()), lat2 = atof(t[o + 2].c_str()), lon2 = atof(t[o + 3].c_str());
      for (int k = 0; k < 3; ++k) for (int itf = 0; itf < 2; ++itf) {
        double s12 = 0, azi1 = 0, azi2 = 0, m12 = 0, M12 = 0, M21 = 0, S12 = 0, a12 = 0; bool hit = true;
        if (itf == 0) a12 = S[k].GenInverse(lat1, lon1, lat2, lon2, s12, azi1, azi2, m12, M12, M21, S12);
        else { double la, lo; S[k].InvLine(lat1, lon1, lat2, lon2, a12, s12, azi1, la, lo);
          // the end point of the line is point 2 (3-D distance on the unit-degree sphere, in 1e-12 m)
          LD c1 = cosl(la * PIL / 180), c2 = cosl(lat2 * PIL / 180);
          LD dx = c1 * cosl(lo * PIL / 180) - c2 * cosl(lon2 * PIL / 180), dy = c1 * sinl(lo * PIL / 180) - c2 * sinl(lon2 * PIL / 180), dz = sinl(la * PIL / 180) - sinl(lat2 * PIL / 180);
          hit = sqrtl(dx * dx + dy * dy + dz * dz) * RA < 1e-10L; }
        vector<long long> q; qr(q, a12); qr(q, s12); qr(q, azi1); qr(q, azi2);
        qr(q, double((LD)m12 * 2 / RA)); qr(q, 2 * M12); qr(q, 2 * M21); qr(q, double((LD)S12 * U));
        Rec r; r.str("e", t[0]);
        if (t[0] == "inv") r.i("inc", atoll(t[1].c_str())).i("node", atoll(t[2].c_str())).i("s1", atoll(t[3].c_str())).i("s2", atoll(t[4].c_str()));
        else r.str("pole", t[1]).i("L", atoll(t[2].c_str())).i("lat", atoll(t[3].c_str())).i("lon", atoll(t[4].c_str())).b("first", t[5] == "1");
        r.i("cfg", 2 * k + itf).b("full", itf == 0).li("q", q).b("hit", hit).b("rng", fabs(azi1) <= 180 && fabs(azi2) <= 180); r.emit();
      }
    }
  }
}

// ------------------------------------------------------------------ law records
struct V3 { LD x, y, z; };
static V3 cart(double a, double f, double lat, double lon) {     // closed-form geodetic -> cartesian on the ellipsoid (h = 0)
  LD e2 = (LD)f * (2 - (LD)f), sl = sinl(lat * PIL / 180), cl = cosl(lat * PIL / 180);
  if (fabs(lat) == 90) cl = 0;
  LD n = (LD)a / sqrtl(1 - e2 * sl * sl);
  return { n * cl * cosl(lon * PIL / 180), n * cl * sinl(lon * PIL / 180), n * (1 - e2) * sl };
}
static LD dist(const V3& p, const V3& q) { return sqrtl((p.x - q.x) * (p.x - q.x) + (p.y - q.y) * (p.y - q.y) + (p.z - q.z) * (p.z - q.z)); }
// unit tangent of heading azi at (lat, lon) in 3-D (east-north frame on the ellipsoid normal)
static V3 tangent(double lat, double lon, double azi) {
  LD sl = sinl(lat * PIL / 180), cl = cosl(lat * PIL / 180), so = sinl(lon * PIL / 180), co = cosl(lon * PIL / 180), sa = sinl(azi * PIL / 180), ca = cosl(azi * PIL / 180);
  if (fabs(lat) == 90) cl = 0;
  V3 e = {-so, co, 0}, n = {-sl * co, -sl * so, cl};
  return { sa * e.x + ca * n.x, sa * e.y + ca * n.y, sa * e.z + ca * n.z };
}
static long long nmq(LD metres) { LD v = fabsl(metres) * 1e9L; return v > 2e9L ? 2000000000LL : (std::isnan((double) v) ? 2000000001LL : (long long) ceill(v)); }
static long long uq(LD x, LD unit) { LD v = fabsl(x) / unit; return v > 2e9L ? 2000000000LL : (std::isnan((double) v) ? 2000000001LL : (long long) ceill(v)); }

static const double FS[] = {0, 1 / 298.257223563, -1 / 298.257223563, 1 / 150.0, -1 / 150.0, 0.01, -0.01, 0.02, -0.02};
static const int NF = 9;

struct Sym { int sw, ls, ms, as, ao, ss; };
static vector<Sym> load_sym(const char* path) {
  vector<Sym> v; ifstream f(path); Sym s;
  while (f >> s.sw >> s.ls >> s.ms >> s.as >> s.ao >> s.ss) v.push_back(s);
  return v;
}

static void direct_law(vt::Rng& g, long long id) {
  int fi = int(g.range(0, NF - 1)); double f = FS[fi], a = g.coin() ? 6378137.0 : (g.coin() ? 6.4e6 : 1.0);
  double lat1 = g.uni(-90, 90), lon1 = g.uni(-180, 180), azi1 = g.uni(-180, 180);
  int w = int(g.range(0, 9));
  if (w == 0) lat1 = g.coin() ? 90 : -90; if (w == 1) lat1 = 0; if (w == 2) azi1 = 90.0 * double(g.range(-2, 2)); if (w == 3) lon1 = g.uni(-720, 720);
  bool arc = g.coin();
  LD scale = a / 6378137.0L;
  double sa = arc ? g.uni(-1, 1) * pow(10.0, g.uni(-6, 3.5)) : g.uni(-1, 1) * pow(10.0, g.uni(-3, 8.5)) * double(scale);
  Sol S[3] = {Sol(0, a, f), Sol(1, a, f), Sol(2, a, f)};
  double la[4], lo[4], az[4], s12[4], m12[4], M12[4], M21[4], S12[4], a12[4], lou[4];
  for (int c = 0; c < 4; ++c) {
    const Sol& s = S[c < 3 ? c : 0]; double t;
    if (c < 3) { a12[c] = s.GenDirect(lat1, lon1, azi1, arc, sa, false, la[c], lo[c], az[c], s12[c], m12[c], M12[c], M21[c], S12[c]);
                 double l2; s.GenDirect(lat1, lon1, azi1, arc, sa, true, t, l2, t, t, t, t, t, t); lou[c] = l2; }
    else { a12[c] = s.LinePos(lat1, lon1, azi1, arc, sa, false, la[c], lo[c], az[c], s12[c], m12[c], M12[c], M21[c], S12[c]);
           double l2; s.LinePos(lat1, lon1, azi1, arc, sa, true, t, l2, t, t, t, t, t, t); lou[c] = l2; }
  }
  V3 p[4]; V3 tg[4]; for (int c = 0; c < 4; ++c) { p[c] = cart(a, f, la[c], lo[c]); tg[c] = tangent(la[c], lo[c], az[c]); }
  LD area = S[0].Area();
  Rec r; r.str("e", "dl").i("id", id).i("fi", fi).b("arc", arc).i("aq", vt::q1(a, 1.0L)).i("circ", vt::q1(fabs(arc ? sa : a12[0]) / 360, 1.0L));
  // conditioning of the area under the geodesic: it depends on the end points through their longitudes/azimuths,
  // whose sensitivity to a position error grows like 1 / cos(lat)
  r.i("cmin", max(1LL, vt::q1(min(cosl(lat1 * PIL / 180), cosl(la[1] * PIL / 180)), 1e-6L)));
  // L1 agreement: series vs exact, series vs exact=true, solver vs line  (end points in nm / scale, tangents in 1e-15)
  r.li("pos", {nmq(dist(p[0], p[1]) / scale), nmq(dist(p[2], p[1]) / scale), nmq(dist(p[0], p[3]) / scale)});
  r.li("tan", {uq(dist(tg[0], tg[1]), 1e-15L), uq(dist(tg[2], tg[1]), 1e-15L), uq(dist(tg[0], tg[3]), 1e-15L)});
  r.li("sa", {nmq(((LD)s12[0] - s12[1]) / scale), uq((LD)a12[0] - a12[1], 1e-13L), nmq(((LD)s12[0] - s12[3]) / scale), uq((LD)a12[0] - a12[3], 1e-13L)});
  r.li("mm", {nmq(((LD)m12[0] - m12[1]) / scale), uq((LD)M12[0] - M12[1], 1e-15L), uq((LD)M21[0] - M21[1], 1e-15L), uq(((LD)S12[0] - S12[1]) / (scale * scale), 1e-4L),
              nmq(((LD)m12[0] - m12[3]) / scale), uq((LD)M12[0] - M12[3], 1e-15L), uq((LD)M21[0] - M21[3], 1e-15L), uq(((LD)S12[0] - S12[3]) / (scale * scale), 1e-4L)});
  // L2 ranges
  bool rng = true; for (int c = 0; c < 4; ++c) rng = rng && fabs(lo[c]) <= 180 && fabs(az[c]) <= 180 && fabs(la[c]) <= 90;
  r.b("rng", rng);
  // unrolled longitude: congruent to the wrapped one, and all configurations count the same circuits
  r.li("unr", {uq(remainderl((LD)lou[0] - lo[0], 360), 1e-13L), uq((LD)lou[0] - lou[1], 1e-9L), uq((LD)lou[0] - lou[3], 1e-9L), uq((LD)lou[0] - lou[2], 1e-9L)});
  // L3 chain: n equal steps along the line; wrapped steps sum to the unrolled total; end point equals the one-shot result
  { int n = int(g.range(2, 6)); const Sol& s = S[0]; LD sum = 0; double plon = lon1; double lt = lat1, ln = lon1; bool ok = true;
    for (int k = 1; k <= n; ++k) { double t, l2; s.LinePos(lat1, lon1, azi1, arc, sa * k / n, false, lt, l2, t, t, t, t, t, t);
      LD step = remainderl((LD)l2 - plon, 360); if (fabsl(step) > 170.0L) ok = false; sum += step; plon = l2; ln = l2; }
    if (fabsl((LD)lou[0] - lon1) / n > 170.0L) ok = false;       // a step must span less than half a circuit in longitude
    LD coslat = cosl(la[0] * PIL / 180);
    r.li("chain", {(long long) ok, uq((sum - ((LD)lou[0] - lon1)) * coslat, 1e-13L), nmq(dist(cart(a, f, lt, ln), p[3]) / scale)}); }
  // L4 arc <-> distance
  { double t, l2a, l2o, a2; const Sol& s = S[0];
    if (arc) a2 = s.GenDirect(lat1, lon1, azi1, false, s12[0], false, l2a, l2o, t, t, t, t, t, t); else a2 = s.GenDirect(lat1, lon1, azi1, true, a12[0], false, l2a, l2o, t, t, t, t, t, t);
    r.li("ad", {nmq(dist(cart(a, f, l2a, l2o), p[0]) / scale), uq((LD)a2 - a12[0], 1e-13L)}); }
  // L6 Clairaut: sin(alpha) cos(beta) is the same at both ends  (tan beta = (1-f) tan phi)
  { auto cl = [&](double lat, double azi) { LD b = atanl((1 - (LD)f) * tanl(lat * PIL / 180)); if (fabs(lat) == 90) b = lat * PIL / 180; return sinl(azi * PIL / 180) * cosl(b); };
    r.li("clr", {uq(cl(lat1, azi1) - cl(la[0], az[0]), 1e-15L), uq(cl(lat1, azi1) - cl(la[1], az[1]), 1e-15L)}); }
  // C03 reversal through the line: going back from point 2 by -s12 recovers point 1, m12 unchanged in size, M12/M21 exchanged, S12 negated
  { double t, bl, bo, bm, bM12, bM21, bS; const Sol& s = S[0];
    s.GenDirect(la[0], lo[0], az[0], false, -s12[0], false, bl, bo, t, t, bm, bM12, bM21, bS);
    r.li("back", {nmq(dist(cart(a, f, bl, bo), cart(a, f, lat1, lon1)) / scale), nmq(((LD)bm + m12[0]) / scale), uq((LD)bM12 - M21[0], 1e-15L), uq((LD)bM21 - M12[0], 1e-15L),
                  uq(remainderl((LD)bS + S12[0], area) / (scale * scale), 1e-4L)}); }
  // C03 interfaces: the overloads that return only some of m12, M12, M21, S12 (solver, arc form and line object) return the same
  // values as the call that returns everything (units 1e-15, lengths relative to a, area relative to the ellipsoid area)
  { vector<long long> ov; double t, o1, o2, o3;
    auto rel = [&](double v, double ref, LD unit) { return uq(((LD)v - ref) / unit, 1e-15L); };
    const Geodesic& G = S[0].g; const GeodesicExact& E = S[1].e;
    if (!arc) {
      G.Direct(lat1, lon1, azi1, sa, t, t, t, o1); ov.push_back(rel(o1, m12[0], a));                                         // m12 only
      G.Direct(lat1, lon1, azi1, sa, t, t, t, o1, o2); ov.push_back(rel(o1, M12[0], 1)); ov.push_back(rel(o2, M21[0], 1));   // M12, M21 only
      G.Direct(lat1, lon1, azi1, sa, t, t, t, o1, o2, o3); ov.push_back(rel(o1, m12[0], a)); ov.push_back(rel(o2, M12[0], 1)); ov.push_back(rel(o3, M21[0], 1));
      E.Direct(lat1, lon1, azi1, sa, t, t, t, o1); ov.push_back(rel(o1, m12[1], a));
      E.Direct(lat1, lon1, azi1, sa, t, t, t, o1, o2); ov.push_back(rel(o1, M12[1], 1)); ov.push_back(rel(o2, M21[1], 1));
      GeodesicLine l = G.Line(lat1, lon1, azi1); l.Position(sa, t, t, t, o1, o2); ov.push_back(rel(o1, M12[0], 1)); ov.push_back(rel(o2, M21[0], 1));
      l.Position(sa, t, t, t, o1); ov.push_back(rel(o1, m12[0], a));
      GeodesicLineExact le = E.Line(lat1, lon1, azi1); le.Position(sa, t, t, t, o1, o2); ov.push_back(rel(o1, M12[1], 1)); ov.push_back(rel(o2, M21[1], 1));
      G.GenDirect(lat1, lon1, azi1, false, sa, Geodesic::GEODESICSCALE, t, t, t, t, t, o1, o2, t); ov.push_back(rel(o1, M12[0], 1)); ov.push_back(rel(o2, M21[0], 1));
      G.GenDirect(lat1, lon1, azi1, false, sa, Geodesic::AREA, t, t, t, t, t, t, t, o1); ov.push_back(rel(o1, S12[0], area));
      E.GenDirect(lat1, lon1, azi1, false, sa, GeodesicExact::AREA, t, t, t, t, t, t, t, o1); ov.push_back(rel(o1, S12[1], area));
    } else {
      G.ArcDirect(lat1, lon1, azi1, sa, t, t, t, t, o1); ov.push_back(rel(o1, m12[0], a));
      G.ArcDirect(lat1, lon1, azi1, sa, t, t, t, t, o1, o2); ov.push_back(rel(o1, M12[0], 1)); ov.push_back(rel(o2, M21[0], 1));
      G.ArcDirect(lat1, lon1, azi1, sa, t, t, t, t, o1, o2, o3); ov.push_back(rel(o1, m12[0], a)); ov.push_back(rel(o2, M12[0], 1)); ov.push_back(rel(o3, M21[0], 1));
      E.ArcDirect(lat1, lon1, azi1, sa, t, t, t, t, o1); ov.push_back(rel(o1, m12[1], a));
      E.ArcDirect(lat1, lon1, azi1, sa, t, t, t, t, o1, o2); ov.push_back(rel(o1, M12[1], 1)); ov.push_back(rel(o2, M21[1], 1));
      GeodesicLine l = G.Line(lat1, lon1, azi1); l.ArcPosition(sa, t, t, t, t, o1, o2); ov.push_back(rel(o1, M12[0], 1)); ov.push_back(rel(o2, M21[0], 1));
      l.ArcPosition(sa, t, t, t, t, o1); ov.push_back(rel(o1, m12[0], a));
      GeodesicLineExact le = E.Line(lat1, lon1, azi1); le.ArcPosition(sa, t, t, t, t, o1, o2); ov.push_back(rel(o1, M12[1], 1)); ov.push_back(rel(o2, M21[1], 1));
      G.GenDirect(lat1, lon1, azi1, true, sa, Geodesic::GEODESICSCALE, t, t, t, t, t, o1, o2, t); ov.push_back(rel(o1, M12[0], 1)); ov.push_back(rel(o2, M21[0], 1));
      G.GenDirect(lat1, lon1, azi1, true, sa, Geodesic::AREA, t, t, t, t, t, t, t, o1); ov.push_back(rel(o1, S12[0], area));
      E.GenDirect(lat1, lon1, azi1, true, sa, GeodesicExact::AREA, t, t, t, t, t, t, t, o1); ov.push_back(rel(o1, S12[1], area));
    }
    r.li("ovl", ov); }
  r.emit();
}

static void inverse_law(vt::Rng& g, long long id, const vector<Sym>& syms) {
  int fi = int(g.range(0, NF - 1)); double f = FS[fi], a = g.coin() ? 6378137.0 : (g.coin() ? 6.4e6 : 1.0);
  LD scale = a / 6378137.0L;
  double lat1 = g.uni(-90, 90), lon1 = g.uni(-180, 180), lat2 = g.uni(-90, 90), lon2 = g.uni(-180, 180);
  int cls = int(g.range(0, 12));   // regimes of the inverse problem
  switch (cls) {
  case 1: lon2 = lon1; break;                                                  // meridional
  case 2: lat1 = lat2 = 0; break;                                              // equatorial (incl. beyond the break-away longitude)
  case 3: lat2 = lat1 + g.uni(-1, 1) * pow(10.0, g.uni(-15, -5)); lon2 = lon1 + g.uni(-1, 1) * pow(10.0, g.uni(-15, -5)); lat2 = max(-90.0, min(90.0, lat2)); break; // short
  case 4: lat2 = -lat1 + g.uni(-1, 1) * pow(10.0, g.uni(-9, 0)); lon2 = lon1 + 180 + g.uni(-1, 1) * pow(10.0, g.uni(-9, 0.3)); lat2 = max(-90.0, min(90.0, lat2)); break; // nearly antipodal
  case 5: lat1 = g.coin() ? 90 : -90; break;                                   // a pole
  case 6: lat1 = 90; lat2 = -90; break;                                        // both poles (non-unique)
  case 7: lat2 = -lat1; lon2 = lon1 + 180; break;                              // exactly antipodal-ish (non-unique on a sphere)
  case 8: lat2 = lat1; lon2 = lon1; break;                                     // coincident
  case 9: lon1 = g.uni(-720, 720); lon2 = g.uni(-720, 720); break;             // unreduced longitudes
  case 10: { double sg = g.coin() ? 1 : -1;                                    // short lines right next to a pole, any two meridians
    lat1 = sg * (90 - pow(10.0, g.uni(-9, -5))); lat2 = sg * (90 - pow(10.0, g.uni(-9, -5))); break; }
  case 11: lat1 = g.uni(-90, 90); lat2 = lat1 + g.uni(-1, 1) * pow(10.0, g.uni(-9, -5)); lon2 = lon1 + g.uni(-1, 1) * pow(10.0, g.uni(-9, -5)); lat2 = max(-90.0, min(90.0, lat2)); break; // short (mm .. m)
  default: break;
  }
  Sol S[3] = {Sol(0, a, f), Sol(1, a, f), Sol(2, a, f)};
  double s12[3], azi1[3], azi2[3], m12[3], M12[3], M21[3], S12[3], a12[3];
  for (int c = 0; c < 3; ++c) a12[c] = S[c].GenInverse(lat1, lon1, lat2, lon2, s12[c], azi1[c], azi2[c], m12[c], M12[c], M21[c], S12[c]);
  LD area = S[0].Area();
  Rec r; r.str("e", "il").i("id", id).i("fi", fi).i("cls", cls).i("aq", vt::q1(a, 1.0L));
  r.i("cmin", max(1LL, vt::q1(min(cosl(lat1 * PIL / 180), cosl(lat2 * PIL / 180)), 1e-6L)));
  // how far the pair is from the non-unique configurations (degrees, 1e-9 units, clipped)
  r.li("deg", {uq(fabsl((LD)lat1 + lat2), 1e-9L), uq(180 - fabsl(remainderl((LD)lon2 - lon1, 360)), 1e-9L), nmq((LD)s12[1] / scale),
               uq(90 - fabs(lat1), 1e-9L), uq(90 - fabs(lat2), 1e-9L)});
  // the catalogue of non-unique shortest geodesics (Geodesic.hpp): lat1 = -lat2 is unique only if azi1 = azi2;
  // lon2 = lon1 +- 180 is unique only if azi1 = 0 or +-180
  r.i("m12m", vt::q1(fabsl((LD)m12[1]) / scale, 1.0L));      // |m12| in metres (WGS84 size): conditioning of the azimuths
  r.b("eqaz", azi1[1] == azi2[1] && azi1[0] == azi2[0]).b("meraz", fabs(azi1[1]) == 0 || fabs(azi1[1]) == 180);
  // I1 closure through the direct problem, each solver by itself
  vector<long long> clo, clt;
  for (int c = 0; c < 3; ++c) { double la, lo, az, t; S[c].GenDirect(lat1, lon1, azi1[c], false, s12[c], false, la, lo, az, t, t, t, t, t);
    clo.push_back(nmq(dist(cart(a, f, la, lo), cart(a, f, lat2, lon2)) / scale)); clt.push_back(uq(dist(tangent(la, lo, az), tangent(lat2, lon2, azi2[c])), 1e-15L)); }
  r.li("clo", clo).li("clt", clt);
  // I2 shortest: arc length in [0, 180]
  r.b("arc", a12[0] >= 0 && a12[0] <= 180 && a12[1] >= 0 && a12[1] <= 180 && a12[2] >= 0 && a12[2] <= 180 &&
             fabs(azi1[0]) <= 180 && fabs(azi2[0]) <= 180 && fabs(azi1[1]) <= 180 && fabs(azi2[1]) <= 180);
  // triangle inequality through a random third point, and s12 = s21
  { double la3 = g.uni(-90, 90), lo3 = g.uni(-180, 180), s13, s32, s21, t; S[1].GenInverse(lat1, lon1, la3, lo3, s13, t, t, t, t, t, t); S[1].GenInverse(la3, lo3, lat2, lon2, s32, t, t, t, t, t, t);
    S[1].GenInverse(lat2, lon2, lat1, lon1, s21, t, t, t, t, t, t);
    LD ex = ((LD)s12[1] - s13 - s32) / scale; r.li("tri", {ex > 0 ? nmq(ex) : 0, nmq(((LD)s12[1] - s21) / scale)}); }
  // I4 series == exact == exact=true
  r.li("agr", {nmq(((LD)s12[0] - s12[1]) / scale), nmq(((LD)s12[2] - s12[1]) / scale), uq((LD)a12[0] - a12[1], 1e-13L),
               uq(dist(tangent(lat1, lon1, azi1[0]), tangent(lat1, lon1, azi1[1])), 1e-15L), uq(dist(tangent(lat2, lon2, azi2[0]), tangent(lat2, lon2, azi2[1])), 1e-15L),
               nmq(((LD)m12[0] - m12[1]) / scale), uq((LD)M12[0] - M12[1], 1e-15L), uq((LD)M21[0] - M21[1], 1e-15L), uq(remainderl((LD)S12[0] - S12[1], area) / (scale * scale), 1e-4L)});
  // I3 symmetry group: interpret each descriptor emitted by TLC from GeodSym.tla
  { string sy = "[";
    for (size_t k = 0; k < syms.size(); ++k) { const Sym& y = syms[k]; int kk = int(g.range(-1, 1)), k2 = int(g.range(-1, 1));
      double A1 = y.ls * (y.sw ? lat2 : lat1), A2 = y.ls * (y.sw ? lat1 : lat2), O1 = y.ms * (y.sw ? lon2 : lon1) + 360.0 * kk, O2 = y.ms * (y.sw ? lon1 : lon2) + 360.0 * k2;
      double ts12, tz1, tz2, tm12, tM12, tM21, tS12; const Sol& s = S[k % 3]; int c = int(k % 3);
      double ta12 = s.GenInverse(A1, O1, A2, O2, ts12, tz1, tz2, tm12, tM12, tM21, tS12);
      LD p1 = y.as * (LD)(y.sw ? azi2[c] : azi1[c]) + y.ao, p2 = y.as * (LD)(y.sw ? azi1[c] : azi2[c]) + y.ao;
      vector<long long> d = { nmq(((LD)ts12 - s12[c]) / scale), uq((LD)ta12 - a12[c], 1e-13L),
                              uq(dist(tangent(A1, O1, tz1), tangent(A1, O1, double(p1))), 1e-15L), uq(dist(tangent(A2, O2, tz2), tangent(A2, O2, double(p2))), 1e-15L),
                              nmq(((LD)tm12 - m12[c]) / scale), uq((LD)tM12 - (y.sw ? M21[c] : M12[c]), 1e-15L), uq((LD)tM21 - (y.sw ? M12[c] : M21[c]), 1e-15L),
                              uq(remainderl((LD)tS12 - y.ss * (LD)S12[c], area) / (scale * scale), 1e-4L) };
      if (k) sy += ","; sy += "["; for (size_t j = 0; j < d.size(); ++j) { if (j) sy += ","; sy += to_string(d[j]); } sy += "]"; }
    sy += "]"; r.raw("sym", sy); }
  // C03 interface agreement: the direct solution along the returned azimuth gives the same m12, M12, M21, S12
  { double la, lo, az, t, dm, dM12, dM21, dS; S[0].GenDirect(lat1, lon1, azi1[0], false, s12[0], false, la, lo, az, t, dm, dM12, dM21, dS);
    r.li("itf", {nmq(((LD)dm - m12[0]) / scale), uq((LD)dM12 - M12[0], 1e-15L), uq((LD)dM21 - M21[0], 1e-15L), uq(remainderl((LD)dS - S12[0], area) / (scale * scale), 1e-4L)}); }
  // C03 interfaces: the Inverse overloads returning only some of m12, M12, M21, S12 agree with the call that returns everything
  { vector<long long> ov; double t, o1, o2, o3;
    auto rel = [&](double v, double ref, LD unit) { return uq(((LD)v - ref) / unit, 1e-15L); };
    const Geodesic& G = S[0].g; const GeodesicExact& E = S[1].e;
    G.Inverse(lat1, lon1, lat2, lon2, t, t, t, o1); ov.push_back(rel(o1, m12[0], a));
    G.Inverse(lat1, lon1, lat2, lon2, t, t, t, o1, o2); ov.push_back(rel(o1, M12[0], 1)); ov.push_back(rel(o2, M21[0], 1));
    G.Inverse(lat1, lon1, lat2, lon2, t, t, t, o1, o2, o3); ov.push_back(rel(o1, m12[0], a)); ov.push_back(rel(o2, M12[0], 1)); ov.push_back(rel(o3, M21[0], 1));
    E.Inverse(lat1, lon1, lat2, lon2, t, t, t, o1); ov.push_back(rel(o1, m12[1], a));
    E.Inverse(lat1, lon1, lat2, lon2, t, t, t, o1, o2); ov.push_back(rel(o1, M12[1], 1)); ov.push_back(rel(o2, M21[1], 1));
    G.GenInverse(lat1, lon1, lat2, lon2, Geodesic::GEODESICSCALE, t, t, t, t, o1, o2, t); ov.push_back(rel(o1, M12[0], 1)); ov.push_back(rel(o2, M21[0], 1));
    G.GenInverse(lat1, lon1, lat2, lon2, Geodesic::AREA, t, t, t, t, t, t, o1); ov.push_back(rel(o1, S12[0], area));
    E.GenInverse(lat1, lon1, lat2, lon2, GeodesicExact::AREA, t, t, t, t, t, t, o1); ov.push_back(rel(o1, S12[1], area));
    E.GenInverse(lat1, lon1, lat2, lon2, GeodesicExact::REDUCEDLENGTH, t, t, t, o1, t, t, t); ov.push_back(rel(o1, m12[1], a));
    r.li("ovl", ov); }
  r.emit();
}

// C03: addition rules on three collinear points, polygon closure, ellipsoid area
static void add_law(vt::Rng& g, long long id) {
  int fi = int(g.range(0, NF - 1)); double f = FS[fi], a = g.coin() ? 6378137.0 : 6.4e6; LD scale = a / 6378137.0L;
  int k = int(g.range(0, 2)); Sol s(k, a, f);
  double lat1 = g.uni(-90, 90), lon1 = g.uni(-180, 180), azi1 = g.uni(-180, 180);
  if (g.range(0, 5) == 0) azi1 = 90.0 * double(g.range(-2, 2)); if (g.range(0, 7) == 0) lat1 = 0;
  double s13 = g.uni(-1, 1) * pow(10.0, g.uni(2, 7.5)) * double(scale), fr = g.uni(0, 1); if (g.range(0, 6) == 0) fr = g.coin() ? 0 : 1;
  double s12 = s13 * fr;
  double la2, lo2, az2, t, m12, M12, M21, S12, a12, la3, lo3, az3, m13, M13, M31, S13, a13, m23, M23, M32, S23, a23, la3b, lo3b, az3b;
  a12 = s.GenDirect(lat1, lon1, azi1, false, s12, false, la2, lo2, az2, t, m12, M12, M21, S12);
  a13 = s.GenDirect(lat1, lon1, azi1, false, s13, false, la3, lo3, az3, t, m13, M13, M31, S13);
  a23 = s.GenDirect(la2, lo2, az2, false, s13 - s12, false, la3b, lo3b, az3b, t, m23, M23, M32, S23);
  LD area = s.Area();
  Rec r; r.str("e", "al").i("id", id).i("fi", fi).i("kind", k).i("aq", vt::q1(a, 1.0L));
  r.i("cmin", max(1LL, vt::q1(min(min(cosl(lat1 * PIL / 180), cosl(la2 * PIL / 180)), cosl(la3 * PIL / 180)), 1e-6L)));
  LD pm13 = (LD)m12 * M23 + (LD)m23 * M21;
  // the M rules divide by m12 / m23: state them multiplied through
  LD rM13 = ((LD)M13 - (LD)M12 * M23) * m12 + (1 - (LD)M12 * M21) * m23;
  LD rM31 = ((LD)M31 - (LD)M32 * M21) * m23 + (1 - (LD)M23 * M32) * m12;
  r.li("add", {nmq(dist(cart(a, f, la3, lo3), cart(a, f, la3b, lo3b)) / scale), uq((LD)a13 - a12 - a23, 1e-13L), nmq(((LD)m13 - pm13) / scale),
               nmq(rM13 / scale), nmq(rM31 / scale), uq(((LD)S13 - S12 - S23) / (scale * scale), 1e-4L)});
  // polygon closure: S12 of the sides of a triangle sum to its area modulo the ellipsoid area (crossing rule left to PolygonArea)
  { double la[3], lo[3]; for (int i = 0; i < 3; ++i) { la[i] = g.uni(-80, 80); lo[i] = g.uni(-180, 180); }
    LD sum = 0; for (int i = 0; i < 3; ++i) { double ss, z1, z2, mm, MM1, MM2, SS; s.GenInverse(la[i], lo[i], la[(i + 1) % 3], lo[(i + 1) % 3], ss, z1, z2, mm, MM1, MM2, SS); sum += SS; }
    PolygonAreaExact pe(s.e, false); PolygonArea pg(s.g, false);
    double per, ar; if (k == 1) { for (int i = 0; i < 3; ++i) pe.AddPoint(la[i], lo[i]); pe.Compute(false, true, per, ar); } else { for (int i = 0; i < 3; ++i) pg.AddPoint(la[i], lo[i]); pg.Compute(false, true, per, ar); }
    // counter-clockwise positive area = -sum (mod area/2: the crossing rule adds multiples of half the area)
    r.li("poly", {min(500000000LL, uq(remainderl(sum + (LD)ar, area / 2) / (scale * scale), 1e-4L))}); }
  // ellipsoid area: four classes and the closed form 2 pi (a^2 + b^2 atanh(e)/e)
  { LD b = (LD)a * (1 - (LD)f), e2 = (LD)f * (2 - (LD)f), cf;
    if (f == 0) cf = 4 * PIL * (LD)a * a; else if (f > 0) { LD e = sqrtl(e2); cf = 2 * PIL * ((LD)a * a + b * b * atanhl(e) / e); } else { LD e = sqrtl(-e2); cf = 2 * PIL * ((LD)a * a + b * b * atanl(e) / e); }
    Geodesic gg(a, f); GeodesicExact ge(a, f); Rhumb rh(a, f); Ellipsoid el(a, f);
    LD relu = 1e-16L * cf; r.li("area", {uq(gg.EllipsoidArea() - cf, relu), uq(ge.EllipsoidArea() - cf, relu), uq(rh.EllipsoidArea() - cf, relu), uq(el.Area() - cf, relu)}); }
  r.emit();
}

int main(int argc, char** argv) {
  vt::install_terminate();
  if (argc >= 2 && string(argv[1]) == "replay") { replay(); return 0; }
  if (argc >= 6 && string(argv[1]) == "record") {
    vt::Rng g(strtoull(argv[2], 0, 10)); long long n = atoll(argv[3]); vector<Sym> syms = load_sym(argv[4]); string which = argv[5];
    for (long long i = 0; i < n; ++i) { if (which == "dl") direct_law(g, i); else if (which == "il") inverse_law(g, i, syms); else add_law(g, i); }
    return 0;
  }
  fprintf(stderr, "usage: drv_geod replay < vectors | record seed n symfile dl|il|al\n"); return 2;
}
