// Driver for the geodesic problems (C01 direct, C02 inverse, C03 m12/M12/M21/S12).
//   replay OVL            : executes lattice vectors chosen by TLC (stdin) on spheres of radius rk * 180/pi (rk = 1, 2), all
//                           solver kinds and interfaces; `ell` vectors walk the ellipsoid lattice n = j/200 of the exact solver
//   record S N SYM K OVL  : seeded random law records; K = dl | il | al (base ellipsoid family |f| <= 0.02) or
//                           dx | ix | ax (extended family: series table |f| = 0.05, 0.1; exact solver b/a = 2^k; extra regimes)
//                           SYM = symmetry descriptors emitted by TLC from GeodSym.tla, OVL = table of public overloads and
//                           line-constructor forms emitted by TLC from GeodOverloads.tla (the driver interprets both)
// The driver only executes the library and logs observations / residuals of fixed textbook formulas; every tolerance,
// applicability guard and decision is in spec/Trace_Geod.tla.
#include "trace.hpp"
#include <GeographicLib/Geodesic.hpp>
#include <GeographicLib/GeodesicLine.hpp>
#include <GeographicLib/GeodesicExact.hpp>
#include <GeographicLib/GeodesicLineExact.hpp>
#include <GeographicLib/Ellipsoid.hpp>
#include <GeographicLib/Rhumb.hpp>
#include <GeographicLib/PolygonArea.hpp>
#include <GeographicLib/Math.hpp>
#include <algorithm>
#include <fstream>

using namespace GeographicLib;
using namespace std;
using vt::Rec;
typedef long double LD;
static const LD PIL = 3.14159265358979323846264338327950288L;
static const double RA = double(180.0L / PIL);

// value -> <<round(v*1e6), round(residual*1e12)>>
static void qr(vector<long long>& out, double v) {
  if (!std::isfinite(v)) { out.push_back(std::isnan(v) ? 2000000001LL : 2000000000LL); out.push_back(0); return; }
  LD x = (LD)v * 1.0e6L, q = nearbyintl(x);
  if (fabsl(q) > 2.0e9L) { out.push_back(2000000000LL); out.push_back(0); return; }
  out.push_back((long long) q); out.push_back((long long) nearbyintl((x - q) * 1.0e6L));
}

// distance of two doubles in units in the last place (0 = same bit pattern; +0 / -0 count as 1), clipped
static long long ulpd(double a, double b) {
  if (vt::bits(a) == vt::bits(b)) return 0;
  if (std::isnan(a) || std::isnan(b)) return 2000000001LL;
  if (std::isinf(a) || std::isinf(b)) return 2000000000LL;
  auto ord = [](double v) { uint64_t u = vt::bits(v); long long m = (long long)(u & 0x7fffffffffffffffULL); return (u >> 63) ? -m : m; };
  long long ia = ord(a), ib = ord(b);
  if ((ia < 0) != (ib < 0) && (fabs(a) > 1e-300 || fabs(b) > 1e-300)) return 2000000000LL;
  long long d = ia > ib ? ia - ib : ib - ia; if (d == 0) d = 1;
  return d > 2000000000LL ? 2000000000LL : d;
}
static const double SENT = -12345.678;        // outputs are preset to this value: an output that is not written keeps it

// ---- a uniform view of the three solver configurations ---------------------------------------
struct Sol {
  int kind; Geodesic g; GeodesicExact e;
  Sol(int k, double a, double f) : kind(k), g(a, f, k == 2), e(a, f) {}
  double GenDirect(double lat1, double lon1, double azi1, bool arc, double sa, bool unroll,
                   double& lat2, double& lon2, double& azi2, double& s12, double& m12, double& M12, double& M21, double& S12) const {
    if (kind == 1) return e.GenDirect(lat1, lon1, azi1, arc, sa, GeodesicExact::ALL | (unroll ? unsigned(GeodesicExact::LONG_UNROLL) : 0u), lat2, lon2, azi2, s12, m12, M12, M21, S12);
    return g.GenDirect(lat1, lon1, azi1, arc, sa, Geodesic::ALL | (unroll ? unsigned(Geodesic::LONG_UNROLL) : 0u), lat2, lon2, azi2, s12, m12, M12, M21, S12);
  }
  double LinePos(double lat1, double lon1, double azi1, bool arc, double sa, bool unroll,
                 double& lat2, double& lon2, double& azi2, double& s12, double& m12, double& M12, double& M21, double& S12) const {
    if (kind == 1) { GeodesicLineExact l = e.Line(lat1, lon1, azi1, GeodesicExact::ALL);
      return l.GenPosition(arc, sa, GeodesicExact::ALL | (unroll ? unsigned(GeodesicExact::LONG_UNROLL) : 0u), lat2, lon2, azi2, s12, m12, M12, M21, S12); }
    GeodesicLine l = g.Line(lat1, lon1, azi1, Geodesic::ALL);
    return l.GenPosition(arc, sa, Geodesic::ALL | (unroll ? unsigned(Geodesic::LONG_UNROLL) : 0u), lat2, lon2, azi2, s12, m12, M12, M21, S12);
  }
  double GenInverse(double lat1, double lon1, double lat2, double lon2, double& s12, double& azi1, double& azi2,
                    double& m12, double& M12, double& M21, double& S12) const {
    if (kind == 1) return e.GenInverse(lat1, lon1, lat2, lon2, GeodesicExact::ALL, s12, azi1, azi2, m12, M12, M21, S12);
    return g.GenInverse(lat1, lon1, lat2, lon2, Geodesic::ALL, s12, azi1, azi2, m12, M12, M21, S12);
  }
  // InverseLine: Arc(), Distance(), azimuth at the start, and the end point it defines reached by distance and by arc
  void InvLine(double lat1, double lon1, double lat2, double lon2, double& a13, double& s13, double& azi1, double& la, double& lo, double& laa, double& loa) const {
    if (kind == 1) { GeodesicLineExact l = e.InverseLine(lat1, lon1, lat2, lon2); a13 = l.Arc(); s13 = l.Distance(); azi1 = l.Azimuth(); l.Position(s13, la, lo); l.ArcPosition(a13, laa, loa); }
    else { GeodesicLine l = g.InverseLine(lat1, lon1, lat2, lon2); a13 = l.Arc(); s13 = l.Distance(); azi1 = l.Azimuth(); l.Position(s13, la, lo); l.ArcPosition(a13, laa, loa); }
  }
  double Area() const { return kind == 1 ? e.EllipsoidArea() : g.EllipsoidArea(); }
};

// ---- the table of public overloads and line-constructor forms (from GeodOverloads.tla) -----------------------------
// "ovl fam arity outs": fam 1 Direct, 2 ArcDirect, 3 Inverse, 4 Position, 5 ArcPosition; outs = documented output mask as a
// set of bits 1 LATITUDE, 2 LONGITUDE, 4 AZIMUTH, 8 DISTANCE, 32 REDUCEDLENGTH, 64 GEODESICSCALE, 128 AREA
// "ctor form arc": a way to obtain a line whose third point is point 2 of the direct problem (arc = 1: given as arc length)
struct Row { int fam, arity, outs; };
struct Form { int form, arc; };
static vector<Row> ROWS; static vector<Form> FORMS;
static void load_ovl(const char* path) {
  ifstream f(path); string tag; int a, b, c;
  while (f >> tag) { if (tag == "ovl") { f >> a >> b >> c; ROWS.push_back({a, b, c}); } else if (tag == "ctor") { f >> a >> b; FORMS.push_back({a, b}); } else break; }
  sort(ROWS.begin(), ROWS.end(), [](const Row& x, const Row& y) { return x.fam != y.fam ? x.fam < y.fam : x.arity < y.arity; });
  sort(FORMS.begin(), FORMS.end(), [](const Form& x, const Form& y) { return x.form < y.form; });
}
template<class G> static unsigned mk(int outs) {
  unsigned m = 0;
  if (outs & 1) m |= G::LATITUDE; if (outs & 2) m |= G::LONGITUDE; if (outs & 4) m |= G::AZIMUTH; if (outs & 8) m |= G::DISTANCE;
  if (outs & 32) m |= G::REDUCEDLENGTH; if (outs & 64) m |= G::GEODESICSCALE; if (outs & 128) m |= G::AREA;
  return m;
}
// outputs in slots: direct families 0 lat2 1 lon2 2 azi2 3 s12 4 m12 5 M12 6 M21 7 S12; inverse 0 s12 1 azi1 2 azi2 3 m12 4 M12 5 M21 6 S12; 8 = returned a12
struct Out { double v[9]; int sig; Out() : sig(0) { for (double& x : v) x = SENT; } };
// calls the overload of family Direct / ArcDirect (on a solver) or Position / ArcPosition (on a line) with `arity` outputs;
// sig = the slots that appear in the C++ signature (bit i = slot i, bit 8 = a returned value)
template<class T> static bool call_dist(const T& o, bool line, double lat1, double lon1, double azi1, double s, int arity, Out& r) {
  double* v = r.v;
  auto D = [&](auto&... a) { if constexpr (std::is_same<T, Geodesic>::value || std::is_same<T, GeodesicExact>::value) v[8] = o.Direct(lat1, lon1, azi1, s, a...); else v[8] = o.Position(s, a...); };
  (void) line;
  switch (arity) {
  case 2: D(v[0], v[1]); r.sig = 0x103; return true;
  case 3: D(v[0], v[1], v[2]); r.sig = 0x107; return true;
  case 4: D(v[0], v[1], v[2], v[4]); r.sig = 0x117; return true;
  case 5: D(v[0], v[1], v[2], v[5], v[6]); r.sig = 0x167; return true;
  case 6: D(v[0], v[1], v[2], v[4], v[5], v[6]); r.sig = 0x177; return true;
  case 7: D(v[0], v[1], v[2], v[4], v[5], v[6], v[7]); r.sig = 0x1f7; return true;
  }
  return false;
}
template<class T> static bool call_arc(const T& o, bool line, double lat1, double lon1, double azi1, double s, int arity, Out& r) {
  double* v = r.v;
  auto D = [&](auto&... a) { if constexpr (std::is_same<T, Geodesic>::value || std::is_same<T, GeodesicExact>::value) o.ArcDirect(lat1, lon1, azi1, s, a...); else o.ArcPosition(s, a...); };
  (void) line;
  switch (arity) {
  case 2: D(v[0], v[1]); r.sig = 0x003; return true;
  case 3: D(v[0], v[1], v[2]); r.sig = 0x007; return true;
  case 4: D(v[0], v[1], v[2], v[3]); r.sig = 0x00f; return true;
  case 5: D(v[0], v[1], v[2], v[3], v[4]); r.sig = 0x01f; return true;
  case 6: D(v[0], v[1], v[2], v[3], v[5], v[6]); r.sig = 0x06f; return true;
  case 7: D(v[0], v[1], v[2], v[3], v[4], v[5], v[6]); r.sig = 0x07f; return true;
  case 8: D(v[0], v[1], v[2], v[3], v[4], v[5], v[6], v[7]); r.sig = 0x0ff; return true;
  }
  return false;
}
template<class G> static bool call_inv(const G& o, double lat1, double lon1, double lat2, double lon2, int arity, Out& r) {
  double* v = r.v;
  switch (arity) {
  case 1: v[8] = o.Inverse(lat1, lon1, lat2, lon2, v[0]); r.sig = 0x101; return true;
  case 2: v[8] = o.Inverse(lat1, lon1, lat2, lon2, v[1], v[2]); r.sig = 0x106; return true;
  case 3: v[8] = o.Inverse(lat1, lon1, lat2, lon2, v[0], v[1], v[2]); r.sig = 0x107; return true;
  case 4: v[8] = o.Inverse(lat1, lon1, lat2, lon2, v[0], v[1], v[2], v[3]); r.sig = 0x10f; return true;
  case 5: v[8] = o.Inverse(lat1, lon1, lat2, lon2, v[0], v[1], v[2], v[4], v[5]); r.sig = 0x137; return true;
  case 6: v[8] = o.Inverse(lat1, lon1, lat2, lon2, v[0], v[1], v[2], v[3], v[4], v[5]); r.sig = 0x13f; return true;
  case 7: v[8] = o.Inverse(lat1, lon1, lat2, lon2, v[0], v[1], v[2], v[3], v[4], v[5], v[6]); r.sig = 0x17f; return true;
  }
  return false;
}
static long long relq(double v, double ref, LD unit) { LD x = fabsl(((LD)v - ref) / unit) / 1e-15L; return std::isnan((double) x) ? 2000000001LL : x > 2e9L ? 2000000000LL : (long long) ceill(x); }
// one entry of the overload-agreement law: [cls, fam, arity, sig, dpM, dmM, dpA, dmA]
//   dpM / dmM: largest ulp distance of a position-type / (m12, M12, M21, S12)-type output from the general call with the
//              documented mask of this overload;  dpA / dmA: the same against the general call with mask ALL, relative 1e-15
//              (angles relative to 360 deg, lengths to a, areas to the ellipsoid area)
static void ov_entry(string& out, int cls, const Row& w, const Out& o, const Out& refm, const Out& refa, bool inverse, double a, double area) {
  long long dpM = 0, dmM = 0, dpA = 0, dmA = 0;
  for (int i = 0; i < 9; ++i) if (o.sig & (1 << i)) {
    bool pos = inverse ? (i <= 2 || i == 8) : (i <= 3 || i == 8);
    LD unit = 360;
    if (inverse) { if (i == 0 || i == 3) unit = a; else if (i == 4 || i == 5) unit = 1; else if (i == 6) unit = area; }
    else { if (i == 3 || i == 4) unit = a; else if (i == 5 || i == 6) unit = 1; else if (i == 7) unit = area; }
    long long u = ulpd(o.v[i], refm.v[i]), q = relq(o.v[i], refa.v[i], unit);
    if (pos) { dpM = max(dpM, u); dpA = max(dpA, q); } else { dmM = max(dmM, u); dmA = max(dmA, q); }
  }
  if (!out.empty()) out += ",";
  out += "[" + to_string(cls) + "," + to_string(w.fam) + "," + to_string(w.arity) + "," + to_string(o.sig) + "," + to_string(dpM) + "," + to_string(dmM) + "," + to_string(dpA) + "," + to_string(dmA) + "]";
}
template<class G, class L> static void ov_direct(string& out, int cls, const G& g, double lat1, double lon1, double azi1, bool arc, double sa, double a, double area) {
  L line = g.Line(lat1, lon1, azi1);
  Out all; all.v[8] = g.GenDirect(lat1, lon1, azi1, arc, sa, G::ALL, all.v[0], all.v[1], all.v[2], all.v[3], all.v[4], all.v[5], all.v[6], all.v[7]);
  for (const Row& w : ROWS) {
    if (w.fam == 3 || (arc != (w.fam == 2 || w.fam == 5))) continue;
    bool ln = w.fam >= 4; Out o, rm; bool ok;
    if (arc) ok = ln ? call_arc(line, true, lat1, lon1, azi1, sa, w.arity, o) : call_arc(g, false, lat1, lon1, azi1, sa, w.arity, o);
    else ok = ln ? call_dist(line, true, lat1, lon1, azi1, sa, w.arity, o) : call_dist(g, false, lat1, lon1, azi1, sa, w.arity, o);
    if (!ok) continue;
    if (ln) rm.v[8] = line.GenPosition(arc, sa, mk<L>(w.outs), rm.v[0], rm.v[1], rm.v[2], rm.v[3], rm.v[4], rm.v[5], rm.v[6], rm.v[7]);
    else rm.v[8] = g.GenDirect(lat1, lon1, azi1, arc, sa, mk<G>(w.outs), rm.v[0], rm.v[1], rm.v[2], rm.v[3], rm.v[4], rm.v[5], rm.v[6], rm.v[7]);
    ov_entry(out, cls, w, o, rm, all, false, a, area);
  }
}
template<class G> static void ov_inverse(string& out, int cls, const G& g, double lat1, double lon1, double lat2, double lon2, double a, double area) {
  Out all; all.v[8] = g.GenInverse(lat1, lon1, lat2, lon2, G::ALL, all.v[0], all.v[1], all.v[2], all.v[3], all.v[4], all.v[5], all.v[6]);
  for (const Row& w : ROWS) {
    if (w.fam != 3) continue;
    Out o, rm; if (!call_inv(g, lat1, lon1, lat2, lon2, w.arity, o)) continue;
    rm.v[8] = g.GenInverse(lat1, lon1, lat2, lon2, mk<G>(w.outs), rm.v[0], rm.v[1], rm.v[2], rm.v[3], rm.v[4], rm.v[5], rm.v[6]);
    ov_entry(out, cls, w, o, rm, all, true, a, area);
  }
}

// ------------------------------------------------------------------ closed forms evaluated by the driver (long double)
struct V3 { LD x, y, z; };
static V3 cart(double a, double f, double lat, double lon) {     // closed-form geodetic -> cartesian on the ellipsoid (h = 0)
  LD e2 = (LD)f * (2 - (LD)f), sl = sinl(lat * PIL / 180), cl = cosl(lat * PIL / 180);
  if (fabs(lat) == 90) cl = 0;
  LD n = (LD)a / sqrtl(1 - e2 * sl * sl);
  return { n * cl * cosl(lon * PIL / 180), n * cl * sinl(lon * PIL / 180), n * (1 - e2) * sl };
}
static LD dist(const V3& p, const V3& q) { return sqrtl((p.x - q.x) * (p.x - q.x) + (p.y - q.y) * (p.y - q.y) + (p.z - q.z) * (p.z - q.z)); }
// unit tangent of heading azi at (lat, lon) in 3-D (east-north frame on the ellipsoid normal)
static V3 tangent(double lat, double lon, double azi) {
  LD sl = sinl(lat * PIL / 180), cl = cosl(lat * PIL / 180), so = sinl(lon * PIL / 180), co = cosl(lon * PIL / 180), sa = sinl(azi * PIL / 180), ca = cosl(azi * PIL / 180);
  if (fabs(lat) == 90) cl = 0;
  V3 e = {-so, co, 0}, n = {-sl * co, -sl * so, cl};
  return { sa * e.x + ca * n.x, sa * e.y + ca * n.y, sa * e.z + ca * n.z };
}
static long long nmq(LD metres) { LD v = fabsl(metres) * 1e9L; return v > 2e9L ? 2000000000LL : (std::isnan((double) v) ? 2000000001LL : (long long) ceill(v)); }
static long long uq(LD x, LD unit) { LD v = fabsl(x) / unit; return v > 2e9L ? 2000000000LL : (std::isnan((double) v) ? 2000000001LL : (long long) ceill(v)); }
// complete elliptic integral of the second kind, parameter m in [0, 1) (arithmetic-geometric mean, Abramowitz & Stegun 17.6)
static LD ellipE(LD m) {
  LD a = 1, b = sqrtl(1 - m), c = sqrtl(m), s = c * c / 2, p = 1;
  for (int n = 0; n < 40 && fabsl(c) > 1e-25L; ++n) { LD an = (a + b) / 2, bn = sqrtl(a * b); c = (a - b) / 2; a = an; b = bn; s += p * c * c; p *= 2; }
  return PIL / (2 * a) * (1 - s);
}
// quarter of the meridian ellipse (semi-axes a and b = a (1 - f))
static LD quarter_meridian(double a, double f) { LD b = (LD)a * (1 - (LD)f), hi = max((LD)a, b), lo = min((LD)a, b); return hi * ellipE(1 - (lo / hi) * (lo / hi)); }
static const LD QM_WGS84 = 10001965.729312736L;
// closed-form area of the ellipsoid 2 pi (a^2 + b^2 atanh(e)/e)
static LD area_closed(double a, double f) {
  LD b = (LD)a * (1 - (LD)f), e2 = (LD)f * (2 - (LD)f);
  if (f == 0) return 4 * PIL * (LD)a * a;
  if (f > 0) { LD e = sqrtl(e2); return 2 * PIL * ((LD)a * a + b * b * atanhl(e) / e); }
  LD e = sqrtl(-e2); return 2 * PIL * ((LD)a * a + b * b * atanl(e) / e);
}
// area between the equator and the parallel of geodetic latitude phi, per radian of longitude:
//   q(phi) = int_0^phi M N cos(phi) dphi = b^2/2 (sin(phi)/(1 - e2 sin^2(phi)) + atanh(e sin(phi))/e)
static LD qarea(double a, double f, LD x) {
  LD e2 = (LD)f * (2 - (LD)f), b = (LD)a * (1 - (LD)f);
  if (f == 0) return (LD)a * a * x;
  LD t = e2 > 0 ? atanhl(sqrtl(e2) * x) / sqrtl(e2) : atanl(sqrtl(-e2) * x) / sqrtl(-e2);
  return b * b / 2 * (x / (1 - e2 * x * x) + t);
}
// sensitivity of S12 to a displacement of an end point along its parallel: dS12 = q(phi) dlambda, dlambda = dx / (N cos(phi)),
// in m^2 per m (WGS84 mid-latitudes: a tan(phi) ~ 6.4e6)
static LD kappa(double a, double f, double lat) {
  LD e2 = (LD)f * (2 - (LD)f), sp = sinl(lat * PIL / 180), cp = cosl(lat * PIL / 180); if (fabs(lat) == 90) cp = 0;
  LD n = (LD)a / sqrtl(1 - e2 * sp * sp);
  return cp > 0 ? fabsl(qarea(a, f, sp)) / (n * cp) : 1e30L;
}
// kq: kappa in the units of the records (1e-4 m^2 of a WGS84-sized ellipsoid per nm of a WGS84-sized ellipsoid), rounded up
static long long kq(LD kap, LD scale, LD asc) { LD v = kap * scale * 1e-5L / asc; return v > 2e9L ? 2000000000LL : (long long) ceill(v); }
// definition of S12: the integral of q(phi) dlambda along the geodesic, dlambda/ds = sin(alpha) / (N cos(phi)); composite
// 8-point Gauss-Legendre rule with P panels in the distance, positions and azimuths taken from the line object `pos`
template<class F> static LD area_def(double a, double f, double s12, int P, F pos, LD& cmin, LD& kmax) {
  static const LD X[4] = {0.1834346424956498049L, 0.5255324099163289858L, 0.7966664774136267396L, 0.9602898564975362317L};
  static const LD W[4] = {0.3626837833783619830L, 0.3137066458778872873L, 0.2223810344533744706L, 0.1012285362903762592L};
  LD e2 = (LD)f * (2 - (LD)f), sum = 0, h = (LD)s12 / P;
  auto g = [&](LD s) { double la, az; pos(double(s), la, az); LD sp = sinl(la * PIL / 180), cp = cosl(la * PIL / 180); LD cb = cp / hypotl(cp, (1 - (LD)f) * sp); if (cb < cmin) cmin = cb; LD kp = kappa(a, f, la); if (kp > kmax) kmax = kp;
    return qarea(a, f, sp) * sinl(az * PIL / 180) * sqrtl(1 - e2 * sp * sp) / ((LD)a * cp); };
  for (int i = 0; i < P; ++i) { LD m = h * (i + 0.5L); for (int k = 0; k < 4; ++k) sum += W[k] * (g(m - X[k] * h / 2) + g(m + X[k] * h / 2)); }
  return sum * h / 2;
}

// ---- ellipsoid families (the index fi is interpreted by Trace_Geod.tla) --------------------------------------------------
//   fi 0..8  : f = 0, +-1/298.257223563, +-1/150, +-0.01, +-0.02        series solver at full accuracy
//   fi 9..12 : f = +-0.05, +-0.1                                         series solver by the published error table
//   fi 13    : b/a = bp/bq (exact solver only: the table of GeodesicExact.hpp)
static const double FS[] = {0, 1 / 298.257223563, -1 / 298.257223563, 1 / 150.0, -1 / 150.0, 0.01, -0.01, 0.02, -0.02, 0.05, -0.05, 0.1, -0.1};
static const int NF = 9;
struct Ell { int fi; double a, f; long long bp, bq; LD scale; };     // scale: size relative to WGS84 (quarter meridian for fi = 13)
static Ell base_ell(int fi, double a) { return {fi, a, FS[fi], 0, 0, (LD)a / 6378137.0L}; }
static Ell ratio_ell(long long bp, long long bq, double a) { double f = double(((LD)bq - bp) / bq); return {13, a, f, bp, bq, quarter_meridian(a, f) / QM_WGS84}; }
static void ell_fields(Rec& r, const Ell& E) { r.i("fi", E.fi); if (E.fi == 13) r.li("bq", {E.bp, E.bq}); r.i("aq", vt::q1(E.a, 1.0L)); }

struct Sym { int sw, ls, ms, as, ao, ss; };
static vector<Sym> load_sym(const char* path) {
  vector<Sym> v; ifstream f(path); Sym s;
  while (f >> s.sw >> s.ls >> s.ms >> s.as >> s.ao >> s.ss) v.push_back(s);
  return v;
}

void walk_record(long long j, long long lat1, long long azi1, long long a12, long long mode);
// ------------------------------------------------------------------ lattice replay
static void replay() {
  string line;
  // spheres of radius rk * 180/pi: one degree of arc is rk metres
  vector<vector<Sol>> SS; for (int rk = 1; rk <= 2; ++rk) { vector<Sol> v; for (int k = 0; k < 3; ++k) v.emplace_back(k, rk * RA, 0.0); SS.push_back(v); }
  const LD U = PIL / 180.0L;          // m^2 -> U  (U = (180/pi)^2 pi/180 = 180/pi m^2: area unit of the sphere with rk = 1)
  while (getline(cin, line)) {
    auto t = vt::split(line); if (t.empty()) continue;
    if (t[0] == "dir") {   // dir inc node sig1 a12 rk li lat1 lon1 azi1
      long long inc = atoll(t[1].c_str()), node = atoll(t[2].c_str()), s1 = atoll(t[3].c_str()), a = atoll(t[4].c_str()), rk = atoll(t[5].c_str()), li = atoll(t[6].c_str());
      double lat1 = atof(t[7].c_str()), lon1 = atof(t[8].c_str()), azi1 = atof(t[9].c_str());
      const vector<Sol>& S = SS[rk - 1];
      // interfaces: 0 GenDirect by arc, 1 GenDirect by distance, and the line interface chosen by TLC for this vector:
      //   2 Line + GenPosition by arc, 3 Line + GenPosition by distance, 4 DirectLine, 5 ArcDirectLine, 6 GenDirectLine (by arc
      //   when a is even, else by distance), 7 Line + SetDistance / SetArc (same parity rule); for 4..7 the position is
      //   evaluated at the line's own third point (Distance() / Arc())
      const int itfs[3] = {0, 1, int(li)};
      for (int k = 0; k < 3; ++k) for (int ii = 0; ii < 3; ++ii) {
        int itf = itfs[ii];
        double lat2 = SENT, lon2 = SENT, azi2 = SENT, s12 = SENT, m12 = SENT, M12 = SENT, M21 = SENT, S12 = SENT, lat2u = SENT, lon2u = SENT, t2;
        double a12r = SENT, d13 = SENT, a13 = SENT; double sd = double(rk * a), ad = double(a);
        if (itf <= 1) { bool arc = itf == 0; a12r = S[k].GenDirect(lat1, lon1, azi1, arc, arc ? ad : sd, false, lat2, lon2, azi2, s12, m12, M12, M21, S12);
                        S[k].GenDirect(lat1, lon1, azi1, arc, arc ? ad : sd, true, lat2u, lon2u, t2, t2, t2, t2, t2, t2); }
        else if (itf <= 3) { bool arc = itf == 2; a12r = S[k].LinePos(lat1, lon1, azi1, arc, arc ? ad : sd, false, lat2, lon2, azi2, s12, m12, M12, M21, S12);
                             S[k].LinePos(lat1, lon1, azi1, arc, arc ? ad : sd, true, lat2u, lon2u, t2, t2, t2, t2, t2, t2); }
        else {
          bool arc = itf == 5 || (itf >= 6 && a % 2 == 0);
          auto run = [&](auto& l, unsigned ALLM, unsigned UNR) {
            d13 = l.Distance(); a13 = l.Arc();
            a12r = l.GenPosition(arc, arc ? a13 : d13, ALLM, lat2, lon2, azi2, s12, m12, M12, M21, S12);
            l.GenPosition(arc, arc ? a13 : d13, ALLM | UNR, lat2u, lon2u, t2, t2, t2, t2, t2, t2); };
          if (S[k].kind == 1) { const GeodesicExact& E = S[k].e;
            GeodesicLineExact l = itf == 4 ? E.DirectLine(lat1, lon1, azi1, sd) : itf == 5 ? E.ArcDirectLine(lat1, lon1, azi1, ad) : itf == 6 ? E.GenDirectLine(lat1, lon1, azi1, arc, arc ? ad : sd) : E.Line(lat1, lon1, azi1);
            if (itf == 7) { if (arc) l.SetArc(ad); else l.SetDistance(sd); }
            run(l, GeodesicExact::ALL, GeodesicExact::LONG_UNROLL); }
          else { const Geodesic& G = S[k].g;
            GeodesicLine l = itf == 4 ? G.DirectLine(lat1, lon1, azi1, sd) : itf == 5 ? G.ArcDirectLine(lat1, lon1, azi1, ad) : itf == 6 ? G.GenDirectLine(lat1, lon1, azi1, arc, arc ? ad : sd) : G.Line(lat1, lon1, azi1);
            if (itf == 7) { if (arc) l.SetArc(ad); else l.SetDistance(sd); }
            run(l, Geodesic::ALL, Geodesic::LONG_UNROLL); }
        }
        vector<long long> q;
        qr(q, lat2); qr(q, lon2); qr(q, lon2u - lon1); qr(q, azi2); qr(q, s12); qr(q, a12r);
        qr(q, double((LD)m12 * 2 / RA)); qr(q, 2 * M12); qr(q, 2 * M21); qr(q, double((LD)S12 * U));
        if (itf >= 4) { qr(q, d13); qr(q, a13); }
        Rec r; r.str("e", "dir").i("inc", inc).i("node", node).i("s1", s1).i("a", a).i("rk", rk).i("lon1", (long long) lon1).i("k", k).i("itf", itf).li("q", q);
        r.b("rng", fabs(lon2) <= 180 && fabs(azi2) <= 180 && fabs(lat2) <= 90 && vt::bits(lat2) == vt::bits(lat2u)); r.emit();
      }
    } else if (t[0] == "inv" || t[0] == "pinv" || t[0] == "sp") {
      // inv inc node s1 s2 rk lat1 lon1 lat2 lon2 | pinv pole L lat lon first rk lat1 lon1 lat2 lon2 | sp lat lon1 mirror dl rk lat1 lon1 lat2 lon2
      size_t o = t[0] == "pinv" ? 7 : 6;
      long long rk = atoll(t[o - 1].c_str());
      double lat1 = atof(t[o].c_str()), lon1 = atof(t[o + 1].c_str()), lat2 = atof(t[o + 2].c_str()), lon2 = atof(t[o + 3].c_str());
      const vector<Sol>& S = SS[rk - 1];
      for (int k = 0; k < 3; ++k) for (int itf = 0; itf < 2; ++itf) {
        double s12 = SENT, azi1 = SENT, azi2 = SENT, m12 = SENT, M12 = SENT, M21 = SENT, S12 = SENT, a12 = SENT; bool hit = true;
        if (itf == 0) a12 = S[k].GenInverse(lat1, lon1, lat2, lon2, s12, azi1, azi2, m12, M12, M21, S12);
        else { double la, lo, laa, loa; azi2 = m12 = M12 = M21 = S12 = 0;     // not outputs of this interface
          S[k].InvLine(lat1, lon1, lat2, lon2, a12, s12, azi1, la, lo, laa, loa);
          // the third point of the line is point 2, reached by Distance() and by Arc() (3-D distance on the unit sphere x RA)
          auto miss = [&](double la_, double lo_) { LD c1 = cosl(la_ * PIL / 180), c2 = cosl(lat2 * PIL / 180);
            LD dx = c1 * cosl(lo_ * PIL / 180) - c2 * cosl(lon2 * PIL / 180), dy = c1 * sinl(lo_ * PIL / 180) - c2 * sinl(lon2 * PIL / 180), dz = sinl(la_ * PIL / 180) - sinl(lat2 * PIL / 180);
            return sqrtl(dx * dx + dy * dy + dz * dz) * RA; };
          hit = miss(la, lo) < 1e-10L && miss(laa, loa) < 1e-10L; }
        vector<long long> q; qr(q, a12); qr(q, s12); qr(q, azi1); qr(q, azi2);
        qr(q, double((LD)m12 * 2 / RA)); qr(q, 2 * M12); qr(q, 2 * M21); qr(q, double((LD)S12 * U));
        Rec r; r.str("e", t[0]);
        if (t[0] == "inv") r.i("inc", atoll(t[1].c_str())).i("node", atoll(t[2].c_str())).i("s1", atoll(t[3].c_str())).i("s2", atoll(t[4].c_str()));
        else if (t[0] == "pinv") r.str("pole", t[1]).i("L", atoll(t[2].c_str())).i("lat", atoll(t[3].c_str())).i("lon", atoll(t[4].c_str())).b("first", t[5] == "1");
        else r.i("lat", atoll(t[1].c_str())).i("lon", atoll(t[2].c_str())).b("mirror", t[3] == "1").i("dl", atoll(t[4].c_str()));
        r.i("rk", rk).i("cfg", 2 * k + itf).b("full", itf == 0).li("q", q).b("hit", hit).b("rng", fabs(azi1) <= 180 && fabs(azi2) <= 180); r.emit();
      }
    } else if (t[0] == "ell") {   // ell j lat1 azi1 a12 : third flattening n = j/200, integer start, azimuth and arc (degrees)
      walk_record(atoll(t[1].c_str()), atoll(t[2].c_str()), atoll(t[3].c_str()), atoll(t[4].c_str()), t.size() > 5 ? atoll(t[5].c_str()) : 0);
    }
  }
}

// ------------------------------------------------------------------ law records: the direct problem
// One direct problem on the ellipsoid E.  g: the main stream (only the chain length is drawn from it: the base records keep
// the inputs they had before the record was extended); ovl: carry the overload and constructor-form blocks.
static void direct_core(Rec& r, const Ell& E, double lat1, double lon1, double azi1, bool arc, double sa, int nchain, bool ovl, bool adef) {
  double a = E.a, f = E.f; LD scale = E.scale;
  Sol S[3] = {Sol(0, a, f), Sol(1, a, f), Sol(2, a, f)};
  // configurations 0..2: GenDirect of the three solver kinds; 3..5: the line object of each kind
  double la[6], lo[6], az[6], s12[6], m12[6], M12[6], M21[6], S12[6], a12[6], lou[6];
  for (int c = 0; c < 6; ++c) {
    const Sol& s = S[c % 3]; double t;
    if (c < 3) { a12[c] = s.GenDirect(lat1, lon1, azi1, arc, sa, false, la[c], lo[c], az[c], s12[c], m12[c], M12[c], M21[c], S12[c]);
                 double l2; s.GenDirect(lat1, lon1, azi1, arc, sa, true, t, l2, t, t, t, t, t, t); lou[c] = l2; }
    else { a12[c] = s.LinePos(lat1, lon1, azi1, arc, sa, false, la[c], lo[c], az[c], s12[c], m12[c], M12[c], M21[c], S12[c]);
           double l2; s.LinePos(lat1, lon1, azi1, arc, sa, true, t, l2, t, t, t, t, t, t); lou[c] = l2; }
  }
  V3 p[6]; V3 tg[6]; for (int c = 0; c < 6; ++c) { p[c] = cart(a, f, la[c], lo[c]); tg[c] = tangent(la[c], lo[c], az[c]); }
  LD area = S[1].Area(), asc = area / 510065621724088.44L;      // size of the ellipsoid's area relative to WGS84
  if (E.fi <= 8) asc = scale * scale;
  if (getenv("VERIF_DBG")) { char b[200]; snprintf(b, 200, "\"%.17g %.17g %.17g %.17g a=%.17g f=%.17g\"", lat1, lon1, azi1, sa, a, f); r.raw("dbg", b); }
  r.b("arc", arc).i("circ", vt::q1(fabs(arc ? sa : a12[E.fi == 13 ? 1 : 0]) / 360, 1.0L));
  // conditioning of the area under the geodesic: it depends on the end points through their longitudes/azimuths,
  // whose sensitivity to a position error grows like 1 / cos(lat)
  r.i("cmin", max(1LL, vt::q1(min(cosl(lat1 * PIL / 180), cosl(la[1] * PIL / 180)), 1e-6L)));
  r.i("kq", kq(max(kappa(a, f, lat1), kappa(a, f, la[1])), scale, asc));
  // conditioning of m12 with respect to the end point: d m12 / d s2 = M21 (and M12 for the reversed segment), rounded up
  r.i("mx", vt::q1(ceill(max((LD)1, max(fabsl((LD)M12[1]), fabsl((LD)M21[1])))), 1.0L));
  // L1 agreement: series vs exact, exact=true vs exact, series vs its line  (end points in nm / scale, tangents in 1e-15)
  r.li("pos", {nmq(dist(p[0], p[1]) / scale), nmq(dist(p[2], p[1]) / scale), nmq(dist(p[0], p[3]) / scale)});
  r.li("tan", {uq(dist(tg[0], tg[1]), 1e-15L), uq(dist(tg[2], tg[1]), 1e-15L), uq(dist(tg[0], tg[3]), 1e-15L)});
  r.li("sa", {nmq(((LD)s12[0] - s12[1]) / scale), uq((LD)a12[0] - a12[1], 1e-13L), nmq(((LD)s12[0] - s12[3]) / scale), uq((LD)a12[0] - a12[3], 1e-13L)});
  r.li("mm", {nmq(((LD)m12[0] - m12[1]) / scale), uq((LD)M12[0] - M12[1], 1e-15L), uq((LD)M21[0] - M21[1], 1e-15L), uq(((LD)S12[0] - S12[1]) / asc, 1e-4L),
              nmq(((LD)m12[0] - m12[3]) / scale), uq((LD)M12[0] - M12[3], 1e-15L), uq((LD)M21[0] - M21[3], 1e-15L), uq(((LD)S12[0] - S12[3]) / asc, 1e-4L)});
  // every solver kind against its own line object, in the mode of this record: [end point nm, tangent, s12 nm, a12 1e-13 deg,
  // unrolled longitude 1e-9 deg, m12 nm, M12, M21 1e-15, S12 1e-4 m^2]
  { string s = "[";
    for (int k = 0; k < 3; ++k) { int c = k + 3;
      vector<long long> d = {nmq(dist(p[k], p[c]) / scale), uq(dist(tg[k], tg[c]), 1e-15L), nmq(((LD)s12[k] - s12[c]) / scale), uq((LD)a12[k] - a12[c], 1e-13L), uq((LD)lou[k] - lou[c], 1e-9L),
                             nmq(((LD)m12[k] - m12[c]) / scale), uq((LD)M12[k] - M12[c], 1e-15L), uq((LD)M21[k] - M21[c], 1e-15L), uq(((LD)S12[k] - S12[c]) / asc, 1e-4L)};
      if (k) s += ","; s += "["; for (size_t j = 0; j < d.size(); ++j) { if (j) s += ","; s += to_string(d[j]); } s += "]"; }
    s += "]"; r.raw("lin", s); }
  // exact=true must reproduce the exact solver: every output of GenDirect and of the line object, in ulps
  r.li("x2", {ulpd(la[2], la[1]), ulpd(lo[2], lo[1]), ulpd(az[2], az[1]), ulpd(s12[2], s12[1]), ulpd(a12[2], a12[1]), ulpd(m12[2], m12[1]), ulpd(M12[2], M12[1]), ulpd(M21[2], M21[1]), ulpd(S12[2], S12[1]), ulpd(lou[2], lou[1]),
              ulpd(la[5], la[4]), ulpd(lo[5], lo[4]), ulpd(az[5], az[4]), ulpd(s12[5], s12[4]), ulpd(a12[5], a12[4]), ulpd(m12[5], m12[4]), ulpd(M12[5], M12[4]), ulpd(M21[5], M21[4]), ulpd(S12[5], S12[4]), ulpd(lou[5], lou[4])});
  // L2 ranges
  bool rng = true; for (int c = 0; c < 6; ++c) rng = rng && fabs(lo[c]) <= 180 && fabs(az[c]) <= 180 && fabs(la[c]) <= 90;
  r.b("rng", rng);
  // unrolled longitude: congruent to the wrapped one, and all configurations count the same circuits
  r.li("unr", {uq(remainderl((LD)lou[0] - lo[0], 360), 1e-13L), uq((LD)lou[0] - lou[1], 1e-9L), uq((LD)lou[0] - lou[3], 1e-9L), uq((LD)lou[0] - lou[2], 1e-9L), uq(remainderl((LD)lou[1] - lo[1], 360), 1e-13L)});
  // L3 chain: n equal steps along the line; wrapped steps sum to the unrolled total; end point equals the one-shot result
  // (series solver; `ex` has the same for the exact solver)
  auto chain = [&](int k, vector<long long>& out) { const Sol& s = S[k]; LD sum = 0; double plon = lon1; double lt = lat1, ln = lon1; bool ok = true; int n = nchain;
    for (int j = 1; j <= n; ++j) { double t, l2; s.LinePos(lat1, lon1, azi1, arc, sa * j / n, false, lt, l2, t, t, t, t, t, t);
      LD step = remainderl((LD)l2 - plon, 360); if (fabsl(step) > 170.0L) ok = false; sum += step; plon = l2; ln = l2; }
    if (fabsl((LD)lou[k] - lon1) / n > 170.0L) ok = false;       // a step must span less than half a circuit in longitude
    LD coslat = cosl(la[k] * PIL / 180);
    out.push_back((long long) ok); out.push_back(uq((sum - ((LD)lou[k] - lon1)) * coslat, 1e-13L)); out.push_back(nmq(dist(cart(a, f, lt, ln), p[k + 3]) / scale)); };
  { vector<long long> c; chain(0, c); r.li("chain", c); }
  // L4 arc <-> distance
  auto arcdist = [&](int k, vector<long long>& out) { double t, l2a, l2o, a2; const Sol& s = S[k];
    if (arc) a2 = s.GenDirect(lat1, lon1, azi1, false, s12[k], false, l2a, l2o, t, t, t, t, t, t); else a2 = s.GenDirect(lat1, lon1, azi1, true, a12[k], false, l2a, l2o, t, t, t, t, t, t);
    out.push_back(nmq(dist(cart(a, f, l2a, l2o), p[k]) / scale)); out.push_back(uq((LD)a2 - a12[k], 1e-13L)); };
  { vector<long long> c; arcdist(0, c); r.li("ad", c); }
  // L6 Clairaut: sin(alpha) cos(beta) is the same at both ends  (tan beta = (1-f) tan phi)
  { auto cl = [&](double lat, double azi) { LD b = atanl((1 - (LD)f) * tanl(lat * PIL / 180)); if (fabs(lat) == 90) b = lat * PIL / 180; return sinl(azi * PIL / 180) * cosl(b); };
    r.li("clr", {uq(cl(lat1, azi1) - cl(la[0], az[0]), 1e-15L), uq(cl(lat1, azi1) - cl(la[1], az[1]), 1e-15L)}); }
  // C03 reversal through the line: going back from point 2 by -s12 recovers point 1, m12 unchanged in size, M12/M21 exchanged, S12 negated
  auto back = [&](int k, vector<long long>& out) { double t, bl, bo, bm, bM12, bM21, bS; const Sol& s = S[k];
    s.GenDirect(la[k], lo[k], az[k], false, -s12[k], false, bl, bo, t, t, bm, bM12, bM21, bS);
    out.push_back(nmq(dist(cart(a, f, bl, bo), cart(a, f, lat1, lon1)) / scale)); out.push_back(nmq(((LD)bm + m12[k]) / scale)); out.push_back(uq((LD)bM12 - M21[k], 1e-15L)); out.push_back(uq((LD)bM21 - M12[k], 1e-15L));
    out.push_back(uq(remainderl((LD)bS + S12[k], area) / asc, 1e-4L)); };
  { vector<long long> c; back(0, c); r.li("back", c); }
  // the same laws for the exact solver by itself: chain[3], arc<->distance[2], reversal[5]
  { vector<long long> c; chain(1, c); arcdist(1, c); back(1, c); r.li("ex", c); }
  // C03 interfaces: calls that request only some of m12, M12, M21, S12 return the same values as the call that returns everything
  // (units 1e-15, lengths relative to a, area relative to the ellipsoid area); kept from the first version of the record
  { vector<long long> ov; double t, o1 = SENT, o2 = SENT, o3 = SENT;
    auto rel = [&](double v, double ref, LD unit) { return uq(((LD)v - ref) / unit, 1e-15L); };
    const Geodesic& G = S[0].g; const GeodesicExact& X = S[1].e; LD ar0 = S[0].Area();
    G.GenDirect(lat1, lon1, azi1, arc, sa, Geodesic::GEODESICSCALE, t, t, t, t, t, o1, o2, t); ov.push_back(rel(o1, M12[0], 1)); ov.push_back(rel(o2, M21[0], 1));
    G.GenDirect(lat1, lon1, azi1, arc, sa, Geodesic::AREA, t, t, t, t, t, t, t, o1); ov.push_back(rel(o1, S12[0], ar0));
    X.GenDirect(lat1, lon1, azi1, arc, sa, GeodesicExact::AREA, t, t, t, t, t, t, t, o1); ov.push_back(rel(o1, S12[1], area));
    X.GenDirect(lat1, lon1, azi1, arc, sa, GeodesicExact::GEODESICSCALE, t, t, t, t, t, o1, o2, t); ov.push_back(rel(o1, M12[1], 1)); ov.push_back(rel(o2, M21[1], 1));
    X.GenDirect(lat1, lon1, azi1, arc, sa, GeodesicExact::REDUCEDLENGTH, t, t, t, t, o3, t, t, t); ov.push_back(rel(o3, m12[1], a));
    G.GenDirect(lat1, lon1, azi1, arc, sa, Geodesic::REDUCEDLENGTH, t, t, t, t, o3, t, t, t); ov.push_back(rel(o3, m12[0], a));
    r.li("ovl", ov); }
  if (ovl) {
    // overload agreement: every public overload of Direct / ArcDirect / Position / ArcPosition of the three solver kinds
    string s; LD ar0 = S[0].Area();
    ov_direct<Geodesic, GeodesicLine>(s, 0, S[0].g, lat1, lon1, azi1, arc, sa, a, double(ar0));
    ov_direct<GeodesicExact, GeodesicLineExact>(s, 1, S[1].e, lat1, lon1, azi1, arc, sa, a, double(area));
    ov_direct<Geodesic, GeodesicLine>(s, 2, S[2].g, lat1, lon1, azi1, arc, sa, a, double(area));
    r.raw("ov", "[" + s + "]");
    // constructor forms: a line whose third point is point 2 of this direct problem.  [cls, form, d given (ulp of GenDistance in
    // the mode the third point was given in), d other (1e-15, relative), ulps of the position at the third point against
    // GenDirect, nm of the position reached through the other measure]
    string c;
    for (int k = 0; k < 3; ++k) for (const Form& fm : FORMS) {
      if (fm.arc != (arc ? 1 : 0)) continue;
      double dg = SENT, dz = SENT, x[3] = {SENT, SENT, SENT}, y[2] = {SENT, SENT};
      auto probe = [&](auto& l, unsigned m3, unsigned m2) { dg = l.GenDistance(arc); dz = l.GenDistance(!arc); double t;
        l.GenPosition(arc, dg, m3, x[0], x[1], x[2], t, t, t, t, t);
        l.GenPosition(!arc, dz, m2, y[0], y[1], t, t, t, t, t, t); };
      if (k == 1) { const GeodesicExact& X = S[1].e; GeodesicLineExact l;
        switch (fm.form) { case 1: l = X.DirectLine(lat1, lon1, azi1, sa); break; case 2: l = X.ArcDirectLine(lat1, lon1, azi1, sa); break;
          case 3: case 4: l = X.GenDirectLine(lat1, lon1, azi1, arc, sa); break;
          case 5: l = X.Line(lat1, lon1, azi1); l.SetDistance(sa); break; case 6: l = X.Line(lat1, lon1, azi1); l.SetArc(sa); break;
          case 7: case 8: l = GeodesicLineExact(X, lat1, lon1, azi1); l.GenSetDistance(arc, sa); break; }
        probe(l, GeodesicExact::LATITUDE | GeodesicExact::LONGITUDE | GeodesicExact::AZIMUTH, GeodesicExact::LATITUDE | GeodesicExact::LONGITUDE); }
      else { const Geodesic& G = S[k].g; GeodesicLine l;
        switch (fm.form) { case 1: l = G.DirectLine(lat1, lon1, azi1, sa); break; case 2: l = G.ArcDirectLine(lat1, lon1, azi1, sa); break;
          case 3: case 4: l = G.GenDirectLine(lat1, lon1, azi1, arc, sa); break;
          case 5: l = G.Line(lat1, lon1, azi1); l.SetDistance(sa); break; case 6: l = G.Line(lat1, lon1, azi1); l.SetArc(sa); break;
          case 7: case 8: l = GeodesicLine(G, lat1, lon1, azi1); l.GenSetDistance(arc, sa); break; }
        probe(l, Geodesic::LATITUDE | Geodesic::LONGITUDE | Geodesic::AZIMUTH, Geodesic::LATITUDE | Geodesic::LONGITUDE); }
      long long du = max(max(ulpd(x[0], la[k]), ulpd(x[1], lo[k])), ulpd(x[2], az[k]));
      if (!c.empty()) c += ",";
      c += "[" + to_string(k) + "," + to_string(fm.form) + "," + to_string(ulpd(dg, sa)) + "," + to_string(arc ? relq(dz, s12[k], a) : relq(dz, a12[k], 360)) + "," + to_string(du) + "," +
           to_string(nmq(dist(cart(a, f, y[0], y[1]), p[k]) / scale)) + "]"; }
    r.raw("ct", "[" + c + "]");
  }
  if (adef) {
    // definition of S12 by quadrature along the exact line (P and 2P panels): [|S12 exact - I(2P)|, |I(2P) - I(P)|, |S12 series - I(2P)|,
    // |S12 exact=true line - I(2P)|] in 1e-4 m^2 (WGS84 size), the smallest cos(beta) along the path (1e-6), the conditioning kq, |sin(alpha0)|
    GeodesicLineExact l = S[1].e.Line(lat1, lon1, azi1, GeodesicExact::LATITUDE | GeodesicExact::AZIMUTH | GeodesicExact::DISTANCE_IN);
    auto pos = [&](double s, double& la_, double& az_) { double t; l.Position(s, la_, t, az_); };
    int P = 8 + int((fabs(a12[1]) <= 720 ? fabs(a12[1]) : 720.0) / 6);       // (bounded also when the library returns garbage)
    auto cbeta = [&](double lat) { LD sp = sinl(lat * PIL / 180), cp = cosl(lat * PIL / 180); if (fabs(lat) == 90) cp = 0; return cp / hypotl(cp, (1 - (LD)f) * sp); };
    LD cpath = min(cbeta(lat1), cbeta(la[1]));      // smallest cos(beta) met along the path (at the nodes and the ends)
    LD kmax = max(kappa(a, f, lat1), kappa(a, f, la[1]));
    LD i1 = area_def(a, f, s12[1], P, pos, cpath, kmax), i2 = area_def(a, f, s12[1], 2 * P, pos, cpath, kmax);
    // refine while the two rules disagree by more than 1e-3 m^2 (WGS84 size); the disagreement is part of the record
    for (int it = 0; it < 4 && fabsl(i2 - i1) / asc > 1e-3L; ++it) { P *= 2; i1 = i2; i2 = area_def(a, f, s12[1], 2 * P, pos, cpath, kmax); }
    r.li("adef", {uq(((LD)S12[1] - i2) / asc, 1e-4L), uq((i2 - i1) / asc, 1e-4L), uq(((LD)S12[0] - i2) / asc, 1e-4L), uq(((LD)S12[5] - i2) / asc, 1e-4L), max(1LL, vt::q1(cpath, 1e-6L)), kq(kmax, scale, asc),
                  // smallest cos(beta) that the whole geodesic reaches (Clairaut: |sin(alpha0)| = |sin(azi1)| cos(beta1)), 1e-6
                  max(1LL, vt::q1(fabsl(sinl(azi1 * PIL / 180) * cosl(atanl((1 - (LD)f) * tanl(lat1 * PIL / 180)))) * (fabs(lat1) == 90 ? 0 : 1), 1e-6L))});
  }
}

static void direct_law(vt::Rng& g, long long id, uint64_t seed, bool ext) {
  vt::Rng g2(seed * 1000003ULL + uint64_t(id) * 7919ULL + (ext ? 17 : 5));
  Ell E; double lat1, lon1, azi1, sa; bool arc;
  if (!ext) {
    int fi = int(g.range(0, NF - 1)); double a = g.coin() ? 6378137.0 : (g.coin() ? 6.4e6 : 1.0);
    E = base_ell(fi, a);
    lat1 = g.uni(-90, 90); lon1 = g.uni(-180, 180); azi1 = g.uni(-180, 180);
    int w = int(g.range(0, 9));
    if (w == 0) lat1 = g.coin() ? 90 : -90; if (w == 1) lat1 = 0; if (w == 2) azi1 = 90.0 * double(g.range(-2, 2)); if (w == 3) lon1 = g.uni(-720, 720);
    arc = g.coin();
    sa = arc ? g.uni(-1, 1) * pow(10.0, g.uni(-6, 3.5)) : g.uni(-1, 1) * pow(10.0, g.uni(-3, 8.5)) * double(E.scale);
  } else {
    // extended family: the published table of the series solver (|f| = 0.05, 0.1) and b/a = 2^k, k = +-1 .. +-6, for the exact solver
    double a = g.coin() ? 6378137.0 : 6.4e6;
    if (g.range(0, 3) == 0) E = base_ell(int(g.range(9, 12)), a);
    else { int k = int(g.range(1, 6)); E = g.coin() ? ratio_ell(1, 1LL << k, a) : ratio_ell(1LL << k, 1, a); }
    lat1 = g.uni(-90, 90); lon1 = g.uni(-180, 180); azi1 = g.uni(-180, 180);
    int w = int(g.range(0, 9));
    if (w == 0) lat1 = g.coin() ? 90 : -90; if (w == 1) lat1 = 0; if (w == 2) azi1 = 90.0 * double(g.range(-2, 2)); if (w == 3) lon1 = g.uni(-720, 720);
    arc = g.coin();
    // distances in units of the quarter meridian, up to about 10 circuits
    sa = arc ? g.uni(-1, 1) * pow(10.0, g.uni(-6, 3.5)) : g.uni(-1, 1) * pow(10.0, g.uni(-3, 8.5)) * double(E.scale);
  }
  int nchain = int(g.range(2, 6));
  Rec r; r.str("e", "dl").i("id", id); ell_fields(r, E);
  bool adef = id % 4 == 1 && fabs(sa) < (arc ? 200.0 : 2.0e7 * double(E.scale));
  direct_core(r, E, lat1, lon1, azi1, arc, sa, nchain, id % 4 == 0, adef);
  (void) g2;
  r.emit();
}

// one record of the ellipsoid walk (TLC chooses j, lat1, azi1, a12, mode): the exact solver on n = j/200, quarter meridian 10 000 km
void walk_record(long long j, long long lat1, long long azi1, long long a12, long long mode) {
  // b/a = (1 - n)/(1 + n) = (200 - j)/(200 + j); a chosen so that the quarter meridian is 10 000 km (the normalisation of the
  // error table in GeodesicExact.hpp)
  double f = double(2 * (LD)j / (200 + (LD)j));
  double a = double(1.0e7L / quarter_meridian(1.0, f));
  Ell E = ratio_ell(200 - j, 200 + j, a);
  Rec r; r.str("e", "dl").i("id", 4 * (j + 200) + 1).i("j", j).li("in", {lat1, azi1, a12, mode}); ell_fields(r, E);
  bool arc = mode == 0; double sa = double(a12);
  if (!arc) { GeodesicExact ge(a, f); double t; ge.ArcDirect(double(lat1), 0.0, double(azi1), double(a12), t, t, t, sa); }
  direct_core(r, E, double(lat1), 10.0, double(azi1), arc, sa, 3, true, true);
  // anchors that need no second solver: along a meridian the quarter meridian (complete elliptic integral, AGM) leads from the
  // equator to the pole and twice that to the equator on the opposite meridian; along the equator lon2 - lon1 = s12 / a;
  // the inverse problem from the equator to a pole returns the quarter meridian.  [nm x 4] for GeodesicExact
  { GeodesicExact ge(a, f); LD qm = quarter_meridian(a, f); double la, lo, s; LD scale = E.scale;
    vector<long long> an;
    ge.Direct(0.0, 10.0, 0.0, double(qm), la, lo); an.push_back(nmq(dist(cart(a, f, la, lo), cart(a, f, 90, 10)) / scale));
    ge.Direct(0.0, 10.0, 0.0, double(2 * qm), la, lo); an.push_back(nmq(dist(cart(a, f, la, lo), cart(a, f, 0, 190)) / scale));
    ge.Direct(0.0, 10.0, 90.0, double((LD)a * PIL / 3), la, lo); an.push_back(nmq(dist(cart(a, f, la, lo), cart(a, f, 0, 70)) / scale));
    ge.Inverse(0.0, 10.0, 90.0, -55.0, s); an.push_back(nmq(((LD)s - qm) / scale));
    r.li("anc", an);
    // input class of a known finding (inputs only): the equatorial anchor on b/a < 1/32
    if (32 * (200 - j) < 200 + j) r.str("kf", "exact-direct-equator-very-oblate"); }
  // ellipsoid area of both classes against the closed form (1e-16 relative)
  { Geodesic gg(a, f); GeodesicExact ge(a, f); Geodesic gx(a, f, true); LD cf = area_closed(a, f), relu = 1e-16L * cf;
    r.li("area", {uq(gg.EllipsoidArea() - cf, relu), uq(ge.EllipsoidArea() - cf, relu), uq(gx.EllipsoidArea() - cf, relu)}); }
  r.emit();
}

// ------------------------------------------------------------------ law records: the inverse problem
static void inverse_core(Rec& r, vt::Rng& g, const Ell& E, int cls, double lat1, double lon1, double lat2, double lon2, const vector<Sym>& syms, bool ovl) {
  double a = E.a, f = E.f; LD scale = E.scale;
  Sol S[3] = {Sol(0, a, f), Sol(1, a, f), Sol(2, a, f)};
  double s12[3], azi1[3], azi2[3], m12[3], M12[3], M21[3], S12[3], a12[3];
  for (int c = 0; c < 3; ++c) a12[c] = S[c].GenInverse(lat1, lon1, lat2, lon2, s12[c], azi1[c], azi2[c], m12[c], M12[c], M21[c], S12[c]);
  LD area = S[1].Area(), asc = area / 510065621724088.44L; if (E.fi <= 8) asc = scale * scale;
  r.i("cls", cls);
  if (getenv("VERIF_DBG")) { char b[200]; snprintf(b, 200, "\"%.17g %.17g %.17g %.17g a=%.17g f=%.17g\"", lat1, lon1, lat2, lon2, a, f); r.raw("dbg", b); }
  r.i("cmin", max(1LL, vt::q1(min(cosl(lat1 * PIL / 180), cosl(lat2 * PIL / 180)), 1e-6L)));
  // how far the pair is from the non-unique configurations (degrees, 1e-9 units, clipped)
  r.li("deg", {uq(fabsl((LD)lat1 + lat2), 1e-9L), uq(180 - fabsl(remainderl((LD)lon2 - lon1, 360)), 1e-9L), nmq((LD)s12[1] / scale),
               uq(90 - fabs(lat1), 1e-9L), uq(90 - fabs(lat2), 1e-9L)});
  // the catalogue of non-unique shortest geodesics (Geodesic.hpp): lat1 = -lat2 is unique only if azi1 = azi2;
  // lon2 = lon1 +- 180 is unique only if azi1 = 0 or +-180
  r.i("m12m", vt::q1(fabsl((LD)m12[1]) / scale, 1.0L));
  r.i("s12m", vt::q1(fabsl((LD)s12[1]) / scale, 1.0L));    // length in metres (WGS84 size): short lines
  r.i("kq", kq(max(kappa(a, f, lat1), kappa(a, f, lat2)), scale, asc));
  // input classes of known findings (computed from the inputs only)
  { double l12 = fabs(double(remainderl((LD)lon2 - lon1, 360)));
    if (f <= -0.2 && max(fabs(lat1), fabs(lat2)) < 1e-3 && max(fabs(lat1), fabs(lat2)) > 0 && l12 >= 90) r.str("kf", "exact-inverse-prolate-nearly-equatorial"); }
  r.i("mx", vt::q1(ceill(max((LD)1, max(fabsl((LD)M12[1]), fabsl((LD)M21[1])))), 1.0L));      // |m12| in metres (WGS84 size): conditioning of the azimuths
  r.b("eqaz", azi1[1] == azi2[1] && azi1[0] == azi2[0]).b("meraz", fabs(azi1[1]) == 0 || fabs(azi1[1]) == 180);
  // I1 closure through the direct problem, each solver by itself: by distance (clo, clt) and by the returned arc length (cla)
  vector<long long> clo, clt, cla;
  for (int c = 0; c < 3; ++c) { double la, lo, az, t; S[c].GenDirect(lat1, lon1, azi1[c], false, s12[c], false, la, lo, az, t, t, t, t, t);
    clo.push_back(nmq(dist(cart(a, f, la, lo), cart(a, f, lat2, lon2)) / scale)); clt.push_back(uq(dist(tangent(la, lo, az), tangent(lat2, lon2, azi2[c])), 1e-15L));
    S[c].GenDirect(lat1, lon1, azi1[c], true, a12[c], false, la, lo, az, t, t, t, t, t);
    cla.push_back(nmq(dist(cart(a, f, la, lo), cart(a, f, lat2, lon2)) / scale)); }
  r.li("clo", clo).li("clt", clt).li("cla", cla);
  // I2 shortest: arc length in [0, 180]
  r.b("arc", a12[0] >= 0 && a12[0] <= 180 && a12[1] >= 0 && a12[1] <= 180 && a12[2] >= 0 && a12[2] <= 180 &&
             fabs(azi1[0]) <= 180 && fabs(azi2[0]) <= 180 && fabs(azi1[1]) <= 180 && fabs(azi2[1]) <= 180);
  r.b("arcx", a12[1] >= 0 && a12[1] <= 180 && a12[2] >= 0 && a12[2] <= 180 && fabs(azi1[1]) <= 180 && fabs(azi2[1]) <= 180 && fabs(azi1[2]) <= 180 && fabs(azi2[2]) <= 180);
  // triangle inequality through a random third point, and s12 = s21
  { double la3 = g.uni(-90, 90), lo3 = g.uni(-180, 180), s13, s32, s21, t; S[1].GenInverse(lat1, lon1, la3, lo3, s13, t, t, t, t, t, t); S[1].GenInverse(la3, lo3, lat2, lon2, s32, t, t, t, t, t, t);
    S[1].GenInverse(lat2, lon2, lat1, lon1, s21, t, t, t, t, t, t);
    LD ex = ((LD)s12[1] - s13 - s32) / scale; r.li("tri", {ex > 0 ? nmq(ex) : 0, nmq(((LD)s12[1] - s21) / scale)}); }
  // shortest: the detours through either pole and through the two equatorial points of the mid-meridian are not shorter
  { vector<long long> t2; double t; double mid = double((LD)lon1 + remainderl((LD)lon2 - lon1, 360) / 2);
    const double P3[4][2] = {{90, 0}, {-90, 0}, {0, mid}, {0, mid + 180}};
    for (const auto& q : P3) { double s13, s32; S[1].GenInverse(lat1, lon1, q[0], q[1], s13, t, t, t, t, t, t); S[1].GenInverse(q[0], q[1], lat2, lon2, s32, t, t, t, t, t, t);
      LD ex = ((LD)s12[1] - s13 - s32) / scale; t2.push_back(ex > 0 ? nmq(ex) : 0); }
    r.li("tri2", t2); }
  // I4 series == exact == exact=true
  r.li("agr", {nmq(((LD)s12[0] - s12[1]) / scale), nmq(((LD)s12[2] - s12[1]) / scale), uq((LD)a12[0] - a12[1], 1e-13L),
               uq(dist(tangent(lat1, lon1, azi1[0]), tangent(lat1, lon1, azi1[1])), 1e-15L), uq(dist(tangent(lat2, lon2, azi2[0]), tangent(lat2, lon2, azi2[1])), 1e-15L),
               nmq(((LD)m12[0] - m12[1]) / scale), uq((LD)M12[0] - M12[1], 1e-15L), uq((LD)M21[0] - M21[1], 1e-15L), uq(remainderl((LD)S12[0] - S12[1], area) / asc, 1e-4L)});
  // exact=true must reproduce the exact solver: every output, in ulps
  r.li("x2", {ulpd(a12[2], a12[1]), ulpd(s12[2], s12[1]), ulpd(azi1[2], azi1[1]), ulpd(azi2[2], azi2[1]), ulpd(m12[2], m12[1]), ulpd(M12[2], M12[1]), ulpd(M21[2], M21[1]), ulpd(S12[2], S12[1])});
  // I3 symmetry group: interpret each descriptor emitted by TLC from GeodSym.tla (on the exact-only family kind 0 is replaced by kind 1)
  { string sy = "[";
    for (size_t k = 0; k < syms.size(); ++k) { const Sym& y = syms[k]; int kk = int(g.range(-1, 1)), k2 = int(g.range(-1, 1));
      double A1 = y.ls * (y.sw ? lat2 : lat1), A2 = y.ls * (y.sw ? lat1 : lat2), O1 = y.ms * (y.sw ? lon2 : lon1) + 360.0 * kk, O2 = y.ms * (y.sw ? lon1 : lon2) + 360.0 * k2;
      double ts12, tz1, tz2, tm12, tM12, tM21, tS12; int c = int(k % 3); if (E.fi > 8 && c == 0) c = 1; const Sol& s = S[c];
      double ta12 = s.GenInverse(A1, O1, A2, O2, ts12, tz1, tz2, tm12, tM12, tM21, tS12);
      LD p1 = y.as * (LD)(y.sw ? azi2[c] : azi1[c]) + y.ao, p2 = y.as * (LD)(y.sw ? azi1[c] : azi2[c]) + y.ao;
      vector<long long> d = { nmq(((LD)ts12 - s12[c]) / scale), uq((LD)ta12 - a12[c], 1e-13L),
                              uq(dist(tangent(A1, O1, tz1), tangent(A1, O1, double(p1))), 1e-15L), uq(dist(tangent(A2, O2, tz2), tangent(A2, O2, double(p2))), 1e-15L),
                              nmq(((LD)tm12 - m12[c]) / scale), uq((LD)tM12 - (y.sw ? M21[c] : M12[c]), 1e-15L), uq((LD)tM21 - (y.sw ? M12[c] : M21[c]), 1e-15L),
                              uq(remainderl((LD)tS12 - y.ss * (LD)S12[c], area) / asc, 1e-4L) };
      if (k) sy += ","; sy += "["; for (size_t j = 0; j < d.size(); ++j) { if (j) sy += ","; sy += to_string(d[j]); } sy += "]"; }
    sy += "]"; r.raw("sym", sy); }
  // C03 interface agreement: the direct solution along the returned azimuth gives the same m12, M12, M21, S12 (series; itf1: exact)
  for (int c = 0; c < 2; ++c) { double la, lo, az, t, dm, dM12, dM21, dS; S[c].GenDirect(lat1, lon1, azi1[c], false, s12[c], false, la, lo, az, t, dm, dM12, dM21, dS);
    r.li(c ? "itf1" : "itf", {nmq(((LD)dm - m12[c]) / scale), uq((LD)dM12 - M12[c], 1e-15L), uq((LD)dM21 - M21[c], 1e-15L), uq(remainderl((LD)dS - S12[c], area) / asc, 1e-4L)}); }
  // InverseLine of every kind: [Distance() vs s12 (nm), Arc() vs a12 (1e-13 deg), tangent of Azimuth() vs azi1 (1e-15),
  // nm from point 2 of the third point reached by Distance(), and by Arc()]
  { string s = "[";
    for (int c = 0; c < 3; ++c) { double a13, s13, z1, la, lo, laa, loa; S[c].InvLine(lat1, lon1, lat2, lon2, a13, s13, z1, la, lo, laa, loa);
      V3 p2 = cart(a, f, lat2, lon2);
      vector<long long> d = {nmq(((LD)s13 - s12[c]) / scale), uq((LD)a13 - a12[c], 1e-13L), uq(dist(tangent(lat1, lon1, z1), tangent(lat1, lon1, azi1[c])), 1e-15L),
                             nmq(dist(cart(a, f, la, lo), p2) / scale), nmq(dist(cart(a, f, laa, loa), p2) / scale)};
      if (c) s += ","; s += "["; for (size_t j = 0; j < d.size(); ++j) { if (j) s += ","; s += to_string(d[j]); } s += "]"; }
    s += "]"; r.raw("ln", s); }
  // calls that request only some outputs through the output mask
  { vector<long long> ov; double t, o1 = SENT, o2 = SENT;
    auto rel = [&](double v, double ref, LD unit) { return uq(((LD)v - ref) / unit, 1e-15L); };
    const Geodesic& G = S[0].g; const GeodesicExact& X = S[1].e; LD ar0 = S[0].Area();
    G.GenInverse(lat1, lon1, lat2, lon2, Geodesic::GEODESICSCALE, t, t, t, t, o1, o2, t); ov.push_back(rel(o1, M12[0], 1)); ov.push_back(rel(o2, M21[0], 1));
    G.GenInverse(lat1, lon1, lat2, lon2, Geodesic::AREA, t, t, t, t, t, t, o1); ov.push_back(rel(o1, S12[0], ar0));
    X.GenInverse(lat1, lon1, lat2, lon2, GeodesicExact::AREA, t, t, t, t, t, t, o1); ov.push_back(rel(o1, S12[1], area));
    X.GenInverse(lat1, lon1, lat2, lon2, GeodesicExact::REDUCEDLENGTH, t, t, t, o1, t, t, t); ov.push_back(rel(o1, m12[1], a));
    X.GenInverse(lat1, lon1, lat2, lon2, GeodesicExact::GEODESICSCALE, t, t, t, t, o1, o2, t); ov.push_back(rel(o1, M12[1], 1)); ov.push_back(rel(o2, M21[1], 1));
    r.li("ovl", ov); }
  if (ovl) {
    string s; LD ar0 = S[0].Area();
    ov_inverse(s, 0, S[0].g, lat1, lon1, lat2, lon2, a, double(ar0));
    ov_inverse(s, 1, S[1].e, lat1, lon1, lat2, lon2, a, double(area));
    ov_inverse(s, 2, S[2].g, lat1, lon1, lat2, lon2, a, double(area));
    r.raw("ov", "[" + s + "]");
  }
}

static void inverse_law(vt::Rng& g, long long id, const vector<Sym>& syms, bool ext, bool astroid = false) {
  Ell E; int cls;
  double lat1, lon1, lat2, lon2;
  if (!ext) {
    int fi = int(g.range(0, NF - 1)); double a = g.coin() ? 6378137.0 : (g.coin() ? 6.4e6 : 1.0);
    E = base_ell(fi, a);
    lat1 = g.uni(-90, 90); lon1 = g.uni(-180, 180); lat2 = g.uni(-90, 90); lon2 = g.uni(-180, 180);
    cls = int(g.range(0, 12));   // regimes of the inverse problem
  } else {
    // extended records: half of them on the base family in the regimes 13..16, half on the extended family in every regime
    double a = g.coin() ? 6378137.0 : 6.4e6;
    bool newcls = g.coin();
    if (newcls) E = base_ell(int(g.range(0, NF - 1)), a);
    else if (g.range(0, 3) == 0) E = base_ell(int(g.range(9, 12)), a);
    else { int k = int(g.range(1, 6)); E = g.coin() ? ratio_ell(1, 1LL << k, a) : ratio_ell(1LL << k, 1, a); }
    lat1 = g.uni(-90, 90); lon1 = g.uni(-180, 180); lat2 = g.uni(-90, 90); lon2 = g.uni(-180, 180);
    cls = newcls ? int(g.range(13, 16)) : int(g.range(0, 16));
    // a third of the records on the eccentric members fall into the astroid region (regime 17), where the Newton iteration of the
    // inverse problem is hardest and the bisection fallback is reached
    if (!newcls && E.fi == 13 && g.range(0, 2) == 0) cls = 17;
    // record kind "iy": only the astroid region of the eccentric OBLATE members (b/a = 1/2 .. 1/64), where the bisection fallback of the
    // inverse problem is entered most often (a fault there shows on a fraction of a percent of these pairs only)
    if (astroid) { int k = int(g.range(1, 6)); E = ratio_ell(1, 1LL << k, a); cls = 17; }
  }
  double f = E.f;
  switch (cls) {
  case 1: lon2 = lon1; break;                                                  // meridional
  case 2: lat1 = lat2 = 0; break;                                              // equatorial (incl. beyond the break-away longitude)
  case 3: lat2 = lat1 + g.uni(-1, 1) * pow(10.0, g.uni(-15, -5)); lon2 = lon1 + g.uni(-1, 1) * pow(10.0, g.uni(-15, -5)); lat2 = max(-90.0, min(90.0, lat2)); break; // short
  case 4: lat2 = -lat1 + g.uni(-1, 1) * pow(10.0, g.uni(-9, 0)); lon2 = lon1 + 180 + g.uni(-1, 1) * pow(10.0, g.uni(-9, 0.3)); lat2 = max(-90.0, min(90.0, lat2)); break; // nearly antipodal
  case 5: lat1 = g.coin() ? 90 : -90; break;                                   // a pole
  case 6: lat1 = 90; lat2 = -90; break;                                        // both poles (non-unique)
  case 7: lat2 = -lat1; lon2 = lon1 + 180; break;                              // exactly antipodal-ish (non-unique on a sphere)
  case 8: lat2 = lat1; lon2 = lon1; break;                                     // coincident
  case 9: lon1 = g.uni(-720, 720); lon2 = g.uni(-720, 720); break;             // unreduced longitudes
  case 10: { double sg = g.coin() ? 1 : -1;                                    // short lines right next to a pole, any two meridians
    lat1 = sg * (90 - pow(10.0, g.uni(-9, -5))); lat2 = sg * (90 - pow(10.0, g.uni(-9, -5))); break; }
  case 11: lat1 = g.uni(-90, 90); lat2 = lat1 + g.uni(-1, 1) * pow(10.0, g.uni(-9, -5)); lon2 = lon1 + g.uni(-1, 1) * pow(10.0, g.uni(-9, -5)); lat2 = max(-90.0, min(90.0, lat2)); break; // short (mm .. m)
  case 13: lat2 = lat1; break;                                                 // same parallel, generic longitude difference
  case 14: lat2 = -lat1; break;                                                // mirror parallels, generic longitude difference
  case 15: { lat1 = lat2 = 0; double t = g.uni(0, 2); lon2 = lon1 + (g.coin() ? 1 : -1) * 180 * (1 - fabs(f) * t); break; }   // equator, around the break-away longitude 180 (1 - f)
  case 16: { double t = g.uni(0, 2); lat1 = g.uni(-1, 1) * pow(10.0, g.uni(-12, -3)); lat2 = g.uni(-1, 1) * pow(10.0, g.uni(-12, -3));   // nearly equatorial, same longitudes
    lon2 = lon1 + (g.coin() ? 1 : -1) * 180 * (1 - fabs(f) * t); break; }
  case 17: {   // astroid region: lat2 ~ -lat1, lon12 = 180 + x lamscale, x in [-2.5, 0] (the envelope of the geodesics from point 1 has
    // the extent lamscale = |f| cos(beta1) 180 deg in longitude and lamscale cos(beta1) in latitude around the antipode)
    LD cb = cosl(atanl((1 - (LD)f) * tanl(lat1 * PIL / 180))); double lamscale = double(fabsl((LD)f) * cb * 180), x = g.uni(-2.5, 0), y = g.uni(-1, 1) * pow(10.0, g.uni(-6, 0.4));
    if (lamscale > 170) lamscale = 170;
    lat2 = -lat1 + (g.coin() ? 0 : y * lamscale * double(cb)); lon2 = lon1 + (g.coin() ? 1 : -1) * (180 + x * lamscale / 2.5 * (g.coin() ? 2.5 : 1)); lat2 = max(-90.0, min(90.0, lat2)); break; }
  default: break;
  }
  Rec r; r.str("e", "il").i("id", id); ell_fields(r, E);
  inverse_core(r, g, E, cls, lat1, lon1, lat2, lon2, syms, id % 4 == 0);
  r.emit();
}

// C03: addition rules on three collinear points, polygon closure, ellipsoid area
static void add_law(vt::Rng& g, long long id, bool ext) {
  Ell E; int k;
  if (!ext) { int fi = int(g.range(0, NF - 1)); double a = g.coin() ? 6378137.0 : 6.4e6; E = base_ell(fi, a); k = int(g.range(0, 2)); }
  else { double a = g.coin() ? 6378137.0 : 6.4e6; int kk = int(g.range(1, 6)); E = g.coin() ? ratio_ell(1, 1LL << kk, a) : ratio_ell(1LL << kk, 1, a); k = 1 + int(g.range(0, 1)); }
  double a = E.a, f = E.f; LD scale = E.scale;
  Sol s(k, a, f);
  double lat1 = g.uni(-90, 90), lon1 = g.uni(-180, 180), azi1 = g.uni(-180, 180);
  if (g.range(0, 5) == 0) azi1 = 90.0 * double(g.range(-2, 2)); if (g.range(0, 7) == 0) lat1 = 0;
  double s13 = g.uni(-1, 1) * pow(10.0, g.uni(2, 7.5)) * double(scale), fr = g.uni(0, 1); if (g.range(0, 6) == 0) fr = g.coin() ? 0 : 1;
  double s12 = s13 * fr;
  double la2, lo2, az2, t, m12, M12, M21, S12, a12, la3, lo3, az3, m13, M13, M31, S13, a13, m23, M23, M32, S23, a23, la3b, lo3b, az3b;
  a12 = s.GenDirect(lat1, lon1, azi1, false, s12, false, la2, lo2, az2, t, m12, M12, M21, S12);
  a13 = s.GenDirect(lat1, lon1, azi1, false, s13, false, la3, lo3, az3, t, m13, M13, M31, S13);
  a23 = s.GenDirect(la2, lo2, az2, false, s13 - s12, false, la3b, lo3b, az3b, t, m23, M23, M32, S23);
  LD area = s.Area(), asc = area / 510065621724088.44L; if (E.fi <= 8) asc = scale * scale;
  Rec r; r.str("e", "al").i("id", id); ell_fields(r, E); r.i("kind", k).i("circ", vt::q1(fabs(a13) / 360, 1.0L));
  r.i("cmin", max(1LL, vt::q1(min(min(cosl(lat1 * PIL / 180), cosl(la2 * PIL / 180)), cosl(la3 * PIL / 180)), 1e-6L)));
  r.i("mx", vt::q1(ceill(max(max((LD)1, max(fabsl((LD)M12), fabsl((LD)M21))), max(max(fabsl((LD)M13), fabsl((LD)M31)), max(fabsl((LD)M23), fabsl((LD)M32))))), 1.0L));
  r.i("kq", kq(max(max(kappa(a, f, lat1), kappa(a, f, la2)), kappa(a, f, la3)), scale, asc));
  LD pm13 = (LD)m12 * M23 + (LD)m23 * M21;
  // the M rules divide by m12 / m23: state them multiplied through
  LD rM13 = ((LD)M13 - (LD)M12 * M23) * m12 + (1 - (LD)M12 * M21) * m23;
  LD rM31 = ((LD)M31 - (LD)M32 * M21) * m23 + (1 - (LD)M23 * M32) * m12;
  r.li("add", {nmq(dist(cart(a, f, la3, lo3), cart(a, f, la3b, lo3b)) / scale), uq((LD)a13 - a12 - a23, 1e-13L), nmq(((LD)m13 - pm13) / scale),
               nmq(rM13 / scale), nmq(rM31 / scale), uq(((LD)S13 - S12 - S23) / asc, 1e-4L)});
  // polygon closure: S12 of the sides of a triangle sum to its area modulo the ellipsoid area (crossing rule left to PolygonArea)
  { double la[3], lo[3]; for (int i = 0; i < 3; ++i) { la[i] = g.uni(-80, 80); lo[i] = g.uni(-180, 180); }
    LD sum = 0; for (int i = 0; i < 3; ++i) { double ss, z1, z2, mm, MM1, MM2, SS; s.GenInverse(la[i], lo[i], la[(i + 1) % 3], lo[(i + 1) % 3], ss, z1, z2, mm, MM1, MM2, SS); sum += SS; }
    PolygonAreaExact pe(s.e, false); PolygonArea pg(s.g, false);
    double per, ar; if (k == 1) { for (int i = 0; i < 3; ++i) pe.AddPoint(la[i], lo[i]); pe.Compute(false, true, per, ar); } else { for (int i = 0; i < 3; ++i) pg.AddPoint(la[i], lo[i]); pg.Compute(false, true, per, ar); }
    // counter-clockwise positive area = -sum (mod area/2: the crossing rule adds multiples of half the area)
    r.li("poly", {min(500000000LL, uq(remainderl(sum + (LD)ar, area / 2) / asc, 1e-4L))}); }
  // ellipsoid area: four classes and the closed form 2 pi (a^2 + b^2 atanh(e)/e)
  { LD cf = area_closed(a, f);
    Geodesic gg(a, f); GeodesicExact ge(a, f); Rhumb rh(a, f); Ellipsoid el(a, f);
    LD relu = 1e-16L * cf; r.li("area", {uq(gg.EllipsoidArea() - cf, relu), uq(ge.EllipsoidArea() - cf, relu), uq(rh.EllipsoidArea() - cf, relu), uq(el.Area() - cf, relu)}); }
  r.emit();
}

int main(int argc, char** argv) {
  vt::install_terminate();
  if (argc >= 2 && string(argv[1]) == "replay") { if (argc >= 3) load_ovl(argv[2]); replay(); return 0; }
  if (argc >= 7 && string(argv[1]) == "record") {
    uint64_t seed = strtoull(argv[2], 0, 10);
    vt::Rng g(seed); long long n = atoll(argv[3]); vector<Sym> syms = load_sym(argv[4]); string which = argv[5]; load_ovl(argv[6]);
    // the extended kinds use their own stream
    vt::Rng gx(seed * 2654435761ULL + 12345);
    for (long long i = 0; i < n; ++i) {
      if (which == "dl") direct_law(g, i, seed, false); else if (which == "il") inverse_law(g, i, syms, false); else if (which == "al") add_law(g, i, false);
      else if (which == "dx") direct_law(gx, i, seed, true); else if (which == "ix") inverse_law(gx, i, syms, true); else if (which == "ax") add_law(gx, i, true);
      else if (which == "iy") inverse_law(gx, i, syms, true, true);
      else { fprintf(stderr, "unknown record kind %s\n", which.c_str()); return 2; }
    }
    return 0;
  }
  fprintf(stderr, "usage: drv_geod replay ovlfile < vectors | record seed n symfile dl|il|al|dx|ix|ax|iy ovlfile\n"); return 2;
}
