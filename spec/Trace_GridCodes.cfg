INIT Init
NEXT Next
CONSTANTS NB = 8
POSTCONDITION Summary
CHECK_DEADLOCK FALSE
