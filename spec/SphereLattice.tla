---------------------------- MODULE SphereLattice ----------------------------
(***************************************************************************)
(* The direct and inverse geodesic problems on a lattice where every       *)
(* answer is an integer (properties C01, C02, C03).                         *)
(*                                                                          *)
(* Sphere of radius 180/pi: one degree of arc is one metre.  A great circle *)
(* is <<inc, node>>: inclination inc (0 = equator eastward, 90 = meridian   *)
(* northward at the node, 180 = equator westward) and longitude of the      *)
(* ascending node.  A position on the circle is the arc sig (degrees) from  *)
(* the node.  Lattice positions: any integer sig on the equator and on      *)
(* meridians; multiples of 90 on oblique circles (inc in 30, 45, 60, 120,   *)
(* 135, 150), where latitude, longitude and azimuth are integers by         *)
(* spherical trigonometry (Napier's rules at right angles).                 *)
(*                                                                          *)
(* Area unit U = R^2 pi/180 (sphere = 720 U): the area between a segment    *)
(* and the equator is S12 = (alpha2 - alpha1) U with the azimuth followed   *)
(* continuously along the segment.                                          *)
(*                                                                          *)
(* Azimuth at a pole (Geodesic.hpp): keep the longitude fixed, put the      *)
(* point at latitude +-(90 - eps) and let eps -> 0+.  Hence at the north    *)
(* pole with nominal longitude L, azimuth alpha heads down the meridian     *)
(* L + 180 - alpha; at the south pole, up the meridian L + alpha.           *)
(***************************************************************************)
EXTENDS Integers, FiniteSets

Norm180(x) == ((x + 179) % 360) - 179          \* into (-180, 180]
Abs(x) == IF x < 0 THEN -x ELSE x
Obliques == {30, 45, 60, 120, 135, 150}
IsLattice(inc, sig) == inc \in {0, 90, 180} \/ sig % 90 = 0

Lat(inc, sig) ==
  LET s == sig % 360 IN
  IF inc \in {0, 180} THEN 0
  ELSE IF inc = 90 THEN (IF s <= 90 THEN s ELSE IF s < 270 THEN 180 - s ELSE s - 360)
  ELSE LET top == IF inc < 90 THEN inc ELSE 180 - inc IN
       CASE s = 0 -> 0 [] s = 90 -> top [] s = 180 -> 0 [] s = 270 -> -top

AtPole(inc, sig) == inc = 90 /\ sig % 180 = 90
\* number of poles at arcs k with lo < k < hi on a meridian (poles sit at 90 + 180 j)
PolesBetween(lo, hi) == Cardinality({k \in (lo + 1)..(hi - 1) : k % 180 = 90})

\* longitude of a position that is not a pole, relative to the node and reduced mod 360
LonAt(inc, sig) ==
  IF inc = 0 THEN sig % 360
  ELSE IF inc = 180 THEN (-sig) % 360
  ELSE IF inc = 90 THEN (IF (sig + 90) % 360 < 180 THEN 0 ELSE 180)
  ELSE (IF inc < 90 THEN sig ELSE -sig) % 360

\* azimuth followed continuously along the circle (not reduced); on meridians: between poles
AziC(inc, sig) ==
  IF inc = 0 THEN 90 ELSE IF inc = 180 THEN -90
  ELSE IF inc = 90 THEN (IF (sig + 90) % 360 < 180 THEN 0 ELSE 180)
  ELSE LET a0 == 90 - inc
           s == sig % 360
           east == IF inc < 90 THEN 90 ELSE -90
       IN CASE s = 0 -> a0 [] s = 90 -> east [] s = 180 -> 2 * east - a0 [] s = 270 -> east
Azi(inc, sig) == Norm180(AziC(inc, sig))

\* sin and cos of multiples of 30 degrees, times 2, when rational (99 otherwise)
Sin2(a) == LET s == a % 360 IN
  CASE s = 0 -> 0 [] s = 30 -> 1 [] s = 90 -> 2 [] s = 150 -> 1 [] s = 180 -> 0
    [] s = 210 -> -1 [] s = 270 -> -2 [] s = 330 -> -1 [] OTHER -> 99
Cos2(a) == Sin2(a + 90)

(* ------------------------------------------------------------------------ *)
(* Direct problem: start at the (non-pole) position sig1 of circle inc with   *)
(* the circle's azimuth, arc a12 of any sign and any number of circuits.      *)
(* ends = admissible <<unrolled lon2 - lon1, azi2>> pairs.                    *)
(* ------------------------------------------------------------------------ *)
Direct(inc, sig1, a12) ==
  LET sig2 == sig1 + a12
      lo == IF a12 >= 0 THEN sig1 ELSE sig2
      hi == IF a12 >= 0 THEN sig2 ELSE sig1
      dir == IF a12 >= 0 THEN 1 ELSE -1
      \* meridian: poles strictly inside the arc; each passage changes the longitude by +-180
      np == IF inc = 90 THEN PolesBetween(lo, hi) ELSE 0
      endpole == AtPole(inc, sig2)
      \* azimuth just before the end point when it is a pole (dir = +1: arriving; the travel direction is kept for a12 < 0
      \* because the azimuth always refers to the forward direction of the circle)
      before == AziC(inc, sig2 - dir)
      Js == {j \in (-np - 1)..(np + 1) : (IF endpole THEN Abs(j) <= np + 1 ELSE Abs(j) <= np /\ (j - np) % 2 = 0)}
  IN [ lat2 |-> Lat(inc, sig2),
       ends |-> IF inc = 0 THEN {<<a12, 90>>}
                ELSE IF inc = 180 THEN {<<-a12, -90>>}
                ELSE IF inc = 90 THEN
                  {<<180 * j, IF endpole THEN Norm180(before + (IF (j - np) % 2 = 0 THEN 0 ELSE 180)) ELSE Azi(inc, sig2)>> : j \in Js}
                ELSE {<<IF inc < 90 THEN a12 ELSE -a12, Azi(inc, sig2)>>},
       s12 |-> a12,
       m2 |-> Sin2(a12),                 \* 2 m12 / R
       M2 |-> Cos2(a12),                 \* 2 M12 = 2 M21
       S12 |-> IF inc \in {0, 180} THEN {0}
               ELSE IF inc = 90 THEN (IF np > 0 \/ endpole THEN {} ELSE {0})
               ELSE {AziC(inc, sig2) - AziC(inc, sig1)} ]

(* ------------------------------------------------------------------------ *)
(* Inverse problem between non-pole lattice positions sig1, sig2 of one       *)
(* circle with |sig2 - sig1| <= 180: that arc is a shortest geodesic.         *)
(* ------------------------------------------------------------------------ *)
Inverse(inc, sig1, sig2) ==
  LET d == sig2 - sig1
      fwd == d >= 0
      lo == IF fwd THEN sig1 ELSE sig2
      hi == IF fwd THEN sig2 ELSE sig1
  IN [ a12 |-> Abs(d),
       unique |-> Abs(d) < 180 /\ Abs(d) > 0,
       azi1 |-> IF fwd THEN Azi(inc, sig1) ELSE Norm180(Azi(inc, sig1) + 180),
       azi2 |-> IF fwd THEN Azi(inc, sig2) ELSE Norm180(Azi(inc, sig2) + 180),
       m2 |-> Sin2(Abs(d)), M2 |-> Cos2(Abs(d)),
       S12 |-> IF inc \in {0, 180} THEN {0}
               ELSE IF inc = 90 THEN (IF PolesBetween(lo, hi) > 0 THEN {} ELSE {0})
               ELSE {AziC(inc, sig2) - AziC(inc, sig1)} ]

(* Inverse problem with a pole end: pole = "N"/"S" with nominal longitude L,  *)
(* other point (lat, lon), lat not a pole.  first = TRUE: the pole is point 1 *)
PoleInverse(pole, L, lat, lon, first) ==
  LET north == pole = "N" IN
  [ a12 |-> IF north THEN 90 - lat ELSE 90 + lat,
    azi1 |-> IF first THEN (IF north THEN Norm180(L + 180 - lon) ELSE Norm180(lon - L))
             ELSE (IF north THEN 0 ELSE 180),
    azi2 |-> IF first THEN (IF north THEN 180 ELSE 0)
             ELSE (IF north THEN Norm180(L - lon) ELSE Norm180(lon + 180 - L)) ]

(* ------------------------------------------------------------------------ *)
(* Spheres of radius rk * 180/pi (rk = 1, 2): one degree of arc is rk        *)
(* metres, so an arc length (degrees) and a distance (metres) are different   *)
(* numbers for rk = 2.  Angles do not depend on rk; s12 = rk a12,             *)
(* m12 = rk R sin(a12), S12 = rk^2 (alpha2 - alpha1) U.                       *)
(* ------------------------------------------------------------------------ *)
Radii == {1, 2}

(* ------------------------------------------------------------------------ *)
(* Pairs with lat2 = +-lat1 and a generic longitude difference (the first     *)
(* item of the catalogue of Geodesic.hpp): lat1 = +-45, lon2 - lon1 = +-90.   *)
(* Same parallel: cos(a12) = sin^2 + cos^2 cos(90) = 1/2, a12 = 60; the       *)
(* geodesic is symmetric about its vertex, azi2 = 180 - azi1, with            *)
(* tan(azi1) = sqrt(2): A = 54.735610317245346 degrees.  Mirror parallels:    *)
(* cos(a12) = -1/2, a12 = 120; the geodesic is symmetric about its node,      *)
(* azi2 = azi1 (the unique case of the catalogue), S12 = 0.                   *)
(* Azimuths are c0 + c1 A, written <<c0, c1>>.                                *)
(* ------------------------------------------------------------------------ *)
AQ == 54735610       \* A in micro-degrees (rounded) ...
AR == 317245         \* ... and the remainder in 1e-12 degree
\* c0 + c1 A as the pair <<round(v 1e6), remainder in 1e-12>> the driver logs
Lin(c0, c1) ==
  LET q == 1000000 * c0 + c1 * AQ  r == c1 * AR IN
  IF r > 500000 THEN <<q + 1, r - 1000000>> ELSE IF r < -500000 THEN <<q - 1, r + 1000000>> ELSE <<q, r>>
Sqrt3 == <<1732051, -192431>>     \* 2 sin(60) = 2 sin(120) = 1.7320508075688772

SameParallel(lat, mirror, dl) ==
  LET e == IF dl > 0 THEN 1 ELSE -1          \* eastward / westward
      n == IF lat > 0 THEN 1 ELSE -1         \* hemisphere of point 1
      pole == <<180 * e, -e>>                \* heading on the poleward side of due east / west (180 - A, or -(180 - A))
      eq == <<0, e>>                         \* A, or -A
  IN IF mirror
     THEN [ a12 |-> 120, azi1 |-> IF n = 1 THEN pole ELSE eq, azi2 |-> IF n = 1 THEN pole ELSE eq,
            m2 |-> Sqrt3, M2 |-> -1, S12 |-> <<0, 0>> ]
     ELSE [ a12 |-> 60, azi1 |-> IF n = 1 THEN eq ELSE pole, azi2 |-> IF n = 1 THEN pole ELSE eq,
            m2 |-> Sqrt3, M2 |-> 1, S12 |-> <<180 * n * e, -2 * n * e>> ]
=============================================================================
