-------------------------- MODULE Trace_AngleArith --------------------------
(* Validates observations of GeographicLib::Math / Accumulator (C16).                                           *)
(* Record kinds (field e): one (all one-argument functions at x), two (sum, AngDiff, atan2d at (a, b)),          *)
(* trp (sincosd at two related arguments), tau (taupf / tauf), acc (accumulator history on the limb lattice),    *)
(* accr (random accumulator history).  Field ty: "f" binary32, "d" binary64, "l" x87 extended.                   *)
(* binary32 values are Nums <<c, m, e>> and are judged by the EXACT model AngleArith.tla in addition to the      *)
(* type-independent laws; binary64/extended values are bit patterns <<c, s, limbs...>> (c = class, s = sign)     *)
(* and are judged through integer residuals computed by the driver with exact (MPFR) arithmetic:                 *)
(*   nk, dk   0 iff the difference is an exact multiple of 360        es, ec, et, ea, eat  error in 1/1000 ulp    *)
(*   us, uc   number of representable values between the result and the correctly rounded value                 *)
(*   n180, d180, de180, l90, r16, dh, e26   three-way comparisons (-1, 0, 1; 2 = NaN)                            *)
(*   rel, etp relative error in 1/1000 eps;  amp  conditioning of taupf, ((1+e)/(1-e))^e rounded up              *)
(* The tolerances, the applicability guards and every decision are here.                                         *)
EXTENDS AngleArith, Accumulator, TraceKit

CONSTANTS TolTrig,   \* 1/1000 ulp: sind, cosd, sincosd ("a couple of units in the last place")
          TolTan,    \* 1/1000 ulp: tand = sin / cos, a couple of ulp each
          TolAtan,   \* 1/1000 ulp: atan2d, atand ("round-off": atan2, conversion to degrees, quadrant shift)
          TolTau     \* 1/1000 eps per unit of conditioning: tauf o taupf and taupf against its definition
VARIABLE l

(* ----------------------------- value encodings --------------------------- *)
IsNumV(v) == v[1] \in {FIN, PZ, NZ}
IsZeroV(v) == v[1] \in {PZ, NZ}
IsNaNV(v) == v[1] = NAN
IsInfV(v) == v[1] \in {PINF, NINF}
NegV(v) == IF Len(v) = 3 THEN NegN(v)
           ELSE IF v[1] = NAN THEN v
           ELSE [v EXCEPT ![1] = CASE @ = PZ -> NZ [] @ = NZ -> PZ [] @ = PINF -> NINF [] @ = NINF -> PINF [] OTHER -> @,
                          ![2] = 1 - @]
EqZ(a, b) == a = b \/ (IsZeroV(a) /\ IsZeroV(b))
\* value kind of a binary32 Num, as reported by the driver in sk/ck/tk
VKind(v) == CASE v[1] = NAN -> 5 [] IsInfV(v) -> 6 [] IsZeroV(v) -> 1
              [] Abs(v[2]) = 1 /\ v[3] = -1 -> 2 [] Abs(v[2]) = 1 /\ v[3] = 0 -> 3 [] Abs(v[2]) = 1 /\ v[3] = 46 -> 4
              [] OTHER -> 0

(* ----------------------------- one-argument laws ------------------------- *)
\* expected <<kind, value kind or 0, negative?>> of a sine/cosine-like output with symbolic value <<sg, fn>>:
\* kind "exact" (value kind and sign fixed), "cr" (correctly rounded), "tol"
TrigWant(sym, rc, zeroneg) ==
  CASE rc = 1 /\ sym[2] = "sin" -> <<"exact", 1, zeroneg>>
    [] rc = 1 /\ sym[2] = "cos" -> <<"exact", 3, sym[1] < 0>>
    [] rc = 30 /\ sym[2] = "sin" -> <<"exact", 2, sym[1] < 0>>
    [] rc \in {30, 45} -> <<"cr", 0, sym[1] < 0>>
    [] OTHER -> <<"tol", 0, sym[1] < 0>>
TrigGot(w, val, kind, err, ucr, tol) ==
  /\ SignG(val) = w[3]
  /\ CASE w[1] = "exact" -> kind = w[2] [] w[1] = "cr" -> ucr = 0 /\ IsNumV(val) [] OTHER -> err <= tol /\ IsNumV(val)

OneLaws(r) ==
  LET x == r.x
      num == IsNumV(x)
      t == [q |-> r.q, r |-> IF r.rs THEN <<NZ, 0, 0>> ELSE <<PZ, 0, 0>>]     \* only the sign of r is used by the symbols
      ss == SinSym(t)   cs == CosSym(t)
      tanneg == IF r.rc = 1 THEN (IF r.q % 2 = 0 THEN SignG(x) # (r.q = 2) ELSE ss[1] < 0) ELSE ss[1] * cs[1] < 0
  IN <<
  <<"norm-equivalent", num => r.nk = 0 /\ IsNumV(r.nrm)>>,
  <<"norm-range", num => r.n180 <= 0>>,
  <<"norm-sign", num /\ (IsZeroV(r.nrm) \/ r.n180 = 0) => SignG(r.nrm) = SignG(x)>>,
  <<"norm-nonfinite", ~num => IsNaNV(r.nrm)>>,
  <<"latfix", IF num /\ r.l90 <= 0 THEN r.lat = x ELSE IsNaNV(r.lat)>>,
  <<"round-identity", r.r16 >= 0 => r.rnd = x>>,
  <<"round-grid", r.r16 < 0 => r.rmul = 0 /\ r.rdev <= 2 /\ IsNumV(r.rnd) /\ SignG(r.rnd) = SignG(x)>>,
  <<"round-monotone", r.rmono \in {0, 1, 2}>>,
  <<"trig-nonfinite", ~num => IsNaNV(r.s) /\ IsNaNV(r.c) /\ IsNaNV(r.sd) /\ IsNaNV(r.cd) /\ IsNaNV(r.td)>>,
  <<"trig-same", r.sd = r.s /\ r.cd = r.c>>,
  <<"sin", num => TrigGot(TrigWant(ss, r.rc, SignG(x)), r.s, r.sk, r.es, r.us, TolTrig)>>,
  <<"cos", num => TrigGot(TrigWant(cs, r.rc, FALSE), r.c, r.ck, r.ec, r.uc, TolTrig)>>,
  <<"tan", num => /\ SignG(r.td) = tanneg
                  /\ CASE r.rc = 1 -> r.tk = (IF r.q % 2 = 0 THEN 1 ELSE 4)
                       [] r.rc = 45 -> r.tk = 3
                       [] OTHER -> r.et <= TolTan /\ IsNumV(r.td)>>,
  <<"sincosde0", "de" \in DOMAIN r /\ r.d16 >= 0 => r.de[1] = r.s /\ r.de[2] = r.c>>,
  <<"atand", IF IsNaNV(x) THEN IsNaNV(r.at)
             ELSE SignG(r.at) = SignG(x) /\ (r.atsub < 0 \/ r.eat <= TolAtan) /\ (IsZeroV(x) => r.at = x)>>,
  \* ---- exact binary32 model
  <<"f-normalize", r.ty = "f" => r.nrm = AngNormalize(x)>>,
  <<"f-latfix", r.ty = "f" => r.lat = LatFix(x)>>,
  <<"f-round", r.ty = "f" => r.rnd = AngRound(x)>>,
  <<"f-reduction", r.ty = "f" /\ num =>
       LET m == TrigRed(x) IN m.q = r.q /\ RClass(m.r) = r.rc /\ SignBit(m.r) = r.rs
                              /\ VKind(r.s) = r.sk /\ VKind(r.c) = r.ck /\ VKind(r.td) = r.tk>>
  >>

(* ----------------------------- two-argument laws ------------------------- *)
TwoLaws(r) ==
  LET a == r.a  b == r.b
      fin == IsNumV(a) /\ IsNumV(b)
      ac == Atan2Class(a, b)
  IN <<
  <<"sum-exact", fin /\ IsNumV(r.s) => r.sk = 0 /\ IsNumV(r.t)>>,
  <<"sum-rounded", fin /\ IsNumV(r.s) => r.s = r.sref>>,
  <<"sum-zero", fin /\ IsZeroV(r.s) => IsZeroV(r.t)>>,
  <<"diff-exact", fin => r.dk = 0 /\ IsNumV(r.d) /\ IsNumV(r.de)>>,
  <<"diff-range", fin => r.d180 <= 0 /\ r.de180 <= 0>>,
  <<"diff-nearest", fin => r.dh <= 0>>,
  <<"diff-e26", fin /\ r.ty = "d" => r.e26 <= 0>>,
  <<"diff-sign", fin /\ r.ez = 0 /\ (IsZeroV(r.d) \/ r.d180 = 0) => SignG(r.d) = r.syx>>,
  <<"diff-oneterm", r.d1 = r.d>>,
  <<"diff-nonfinite", ~fin => IsNaNV(r.d)>>,
  \* sincosde(d, e) = sine and cosine of the exact difference; AngRound is the identity for a reduced angle >= 1/16 (guard at 1/8),
  \* so the only extra error is the rounding of the reduced angle plus correction: one more ulp
  <<"sincosde", fin /\ r.dg \in {0, 1} => r.dse <= TolTrig + 1000 /\ r.dce <= TolTrig + 1000>>,
  <<"atan2", CASE ac[1] = "nan" -> IsNaNV(r.at)
               [] ac[1] = "deg" -> r.ak = ac[2] /\ SignG(r.at) = ac[3] /\ (ac[2] = 0 => IsZeroV(r.at))
               [] OTHER -> SignG(r.at) = ac[2] /\ IsNumV(r.at) /\ (r.asub < 0 \/ r.ea <= TolAtan)>>,
  \* ---- exact binary32 model
  <<"f-sum", r.ty = "f" /\ SumDefined(a, b) => LET S == Sum(a, b) IN r.s = S[1] /\ SameVal(r.t, S[2])>>,
  <<"f-diff", r.ty = "f" /\ AngDiffDefined(a, b) => \E p \in AngDiffSet(a, b) : r.d = p[1] /\ SameVal(r.de, p[2])>>
  >>

(* ----------------------------- trig relations ---------------------------- *)
\* sincosd(x2) predicted from sincosd(x) when x2 = sg x + 90 dq exactly
TrpWant(sg, dq, s1, c1) ==
  IF sg = 1 THEN CASE dq = 0 -> <<s1, c1>> [] dq = 1 -> <<c1, NegV(s1)>> [] dq = 2 -> <<NegV(s1), NegV(c1)>> [] OTHER -> <<NegV(c1), s1>>
  ELSE CASE dq = 0 -> <<NegV(s1), c1>> [] dq = 1 -> <<c1, s1>> [] dq = 2 -> <<s1, NegV(c1)>> [] OTHER -> <<NegV(c1), NegV(s1)>>
\* the relation derived by the exact binary32 reduction: <<sg, dq>> or <<0, -1>>
TrpRel(x, x2) ==
  IF ~IsNum(x) \/ ~IsNum(x2) THEN <<0, -1>>
  ELSE LET t1 == TrigRed(x)  t2 == TrigRed(x2) IN
       IF SameVal(t1.r, t2.r) THEN <<1, (t2.q - t1.q + 4) % 4>>
       ELSE IF SameVal(NegN(t1.r), t2.r) THEN <<-1, (t2.q + t1.q) % 4>>
       ELSE <<0, -1>>
TrpLaws(r) ==
  LET fin == IsNumV(r.x) /\ IsNumV(r.x2)
      rel == IF r.ty = "f" THEN TrpRel(r.x, r.x2) ELSE <<r.sg, r.dq>>
      w == TrpWant(rel[1], rel[2], r.s1, r.c1)
  IN <<
  <<"trp-driver-relation", r.ty = "f" /\ r.dq >= 0 /\ RClass(TrigRed(r.x).r) = 0 => TrpRel(r.x, r.x2) = <<r.sg, r.dq>>>>,
  <<"trp-identity", fin /\ rel[2] >= 0 => EqZ(r.s2, w[1]) /\ EqZ(r.c2, w[2])>>,
  <<"trp-finite", fin => IsNumV(r.s1) /\ IsNumV(r.c1) /\ IsNumV(r.s2) /\ IsNumV(r.c2)>>
  >>

(* ----------------------------- conformal tangent maps -------------------- *)
TauLaws(r) ==
  LET tau == r.tau  gen == tau[1] = FIN IN <<
  <<"tau-nan", IsNaNV(tau) => IsNaNV(r.tp) /\ IsNaNV(r.back)>>,
  <<"tau-infinite", IsInfV(tau) => r.tp = tau /\ r.back = tau>>,
  <<"tau-zero", IsZeroV(tau) => IsZeroV(r.tp) /\ IsZeroV(r.back)>>,
  <<"tau-sphere", r.reg = "sphere" /\ IsNumV(tau) => EqZ(r.tp, tau) /\ EqZ(r.back, tau)>>,
  <<"tau-sign", gen => IsNumV(r.tp) /\ IsNumV(r.back) /\ SignG(r.tp) = SignG(tau) /\ SignG(r.back) = SignG(tau)>>,
  <<"tau-forward", gen => r.etp <= TolTau * r.amp>>,
  <<"tau-roundtrip", gen => r.rel <= TolTau * r.amp>>
  >>

(* ----------------------------- accumulator ------------------------------- *)
\* obs[i] = <<peeled ok, l0, l1, top, distance of a(0) from the rounded held value, probe mismatch, probe changed state>>
\* followed, for a comparison (kind 7), by <<c, ==, !=, <, <=, >, >=>> and, for remainder (kind 8), by the low-word flag
AccObsOK(r, op, o, E, E2) ==
  /\ o[1] = 1 /\ o[5] = 0 /\ o[6] = 0 /\ o[7] = 0
  /\ IF op[1] \in AccTerminalKinds
     THEN \* remainder(y): what is held afterwards is congruent to the sum modulo y (its range: the "rem" record)
          op[2] = 0 /\ op[3] > 0 /\ AccResidue(<<o[2], o[3], o[4]>>, op[3], r.bb) = AccResidue(E, op[3], r.bb)
     ELSE <<o[2], o[3], o[4]>> = AccNorm(E2, r.bb)
  /\ (op[1] = 7 => /\ Len(o) = 8 /\ AccCmpFamily(o[8])
                   /\ (AccCmpDecided(E, op[2], op[3], r.bb) => o[8][1] = AccCmp3(E, op[2], op[3], r.bb)))
RECURSIVE AccRun(_, _, _)
AccRun(r, i, E) ==
  IF i > Len(r.ops) THEN TRUE
  ELSE LET E2 == AccApply(E, r.ops[i]) IN
       /\ AccObsOK(r, r.ops[i], r.obs[i], E, E2)
       /\ AccRun(r, i + 1, E2)
RECURSIVE AccFinal(_, _, _)
AccFinal(r, i, E) == IF i > Len(r.ops) THEN AccNorm(E, r.bb) ELSE AccFinal(r, i + 1, AccApply(E, r.ops[i]))
AccLaws(r) == <<
  <<"acc-shape", /\ Len(r.ops) = Len(r.obs) /\ r.bb = (IF r.ty = "f" THEN 15 ELSE 30) /\ Len(r.ops) >= 1
                 /\ r.ops[1][1] \in AccCtorKinds /\ \A i \in 2..Len(r.ops) : r.ops[i][1] \notin AccCtorKinds
                 /\ \A i \in 1..(Len(r.ops) - 1) : r.ops[i][1] \notin AccTerminalKinds>>,
  <<"acc-holds-exact-sum", Len(r.ops) = Len(r.obs) => AccRun(r, 1, AccZero)>>
  >>
\* obs[i] = <<op kind, peeled ok, |held - exact| in units of 2^(2-2p) max|partial|, number of rounding operations so far
\*            (0 right after "set sum = y"), distance of a(0) from the rounded held value, probe mismatch, probe changed state>>
AccrLaws(r) == <<
  <<"acc-holds-sum", \A i \in 1..Len(r.obs) : r.obs[i][2] = 1 /\ r.obs[i][3] <= r.obs[i][4]>>,
  <<"acc-rounded-value", \A i \in 1..Len(r.obs) : r.obs[i][5] = 0>>,
  <<"acc-probe", \A i \in 1..Len(r.obs) : r.obs[i][6] = 0 /\ r.obs[i][7] = 0>>,
  <<"acc-compare", \A i \in 1..Len(r.cmps) : AccCmpFamily(r.cmps[i])>>,
  <<"acc-remainder", r.rk = 0>>
  >>
\* remainder(y): "Reduce accumulator to the range [-y/2, y/2]".  rh = exact comparison of |held afterwards| with y/2;
\* on the integer lattice the value is the centred residue of the value held before (Accumulator!AccRemSet)
RemLaws(r) == <<
  <<"acc-remainder-range", r.rh <= 0>>,
  <<"acc-remainder-centred", r.lat = 1 /\ r.b > 0 => AccSmall(r.after, r.bb) \in AccRemSet(r.before, r.b, r.bb)>>
  >>

(* ----------------------------- helpers ---------------------------------- *)
\* polyval on the integer lattice: the exact value (logged as an integer, ex = it is one); sq on the binary32 lattice: the exact
\* square; otherwise exact residuals from the driver (number of representable values between the result and the correctly
\* rounded exact value: 0 = correctly rounded)
MscLaws(r) ==
  CASE r.k = "pv" -> <<
         <<"polyval", r.ex /\ r.v = PolyVal(r.p, r.x)>>,
         <<"polyval-constant", r.n0nan /\ r.n0inf>> >>       \* N = 0 returns p_0 even if x is infinite or a nan
    [] r.k = "sq" -> <<
         <<"sq", r.u = 0>>,
         <<"f-sq", r.ty = "f" /\ 2 * r.xe >= -126 /\ 2 * r.xe <= 100 => r.y = SqN(r.xm, r.xe)>> >>
    [] r.k = "nrm" -> << <<"norm", r.ux = 0 /\ r.uy = 0>> >>       \* x / h, y / h correctly rounded (h exact on the lattice)
    [] r.k = "h3" -> << <<"hypot3-axis", r.same>> >>               \* sqrt(x^2 + 0 + 0) = |x| bit for bit, in every position
    [] r.k = "swab" -> << <<"swab", r.rev /\ r.inv>> >>            \* bytes reversed; an involution
    [] r.k = "const" -> << <<"nan-infinity", r.nan /\ r.pinf>> >>
    [] OTHER -> << <<"unknown-helper", FALSE>> >>

Laws(r) ==
  CASE r.e = "msc" -> MscLaws(r) [] r.e = "one" -> OneLaws(r) [] r.e = "two" -> TwoLaws(r) [] r.e = "trp" -> TrpLaws(r)
    [] r.e = "tau" -> TauLaws(r) [] r.e = "acc" -> AccLaws(r) [] r.e = "accr" -> AccrLaws(r) [] r.e = "rem" -> RemLaws(r)
    [] OTHER -> << <<"unknown-record-kind", FALSE>> >>

Obligation(r) == LET L == Laws(r) IN \A i \in 1..Len(L) : L[i][2]
Failed(r) == LET L == Laws(r) IN
  <<[i \in 1..Len(SelectSeq(L, LAMBDA p : ~p[2])) |-> SelectSeq(L, LAMBDA p : ~p[2])[i][1]],
    IF r.e = "acc" /\ Len(r.ops) = Len(r.obs) THEN AccFinal(r, 1, AccZero) ELSE <<>> >>

Init == l = 1 /\ KitInit
Next == /\ l <= NT
        /\ Require(Obligation(T[l]), l, "c16-" \o T[l].e, Failed(T[l]))
        /\ Consumed(l)
        /\ l' = l + 1
=============================================================================
