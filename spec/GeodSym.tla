------------------------------- MODULE GeodSym -------------------------------
(***************************************************************************)
(* The symmetry group of the inverse geodesic problem (property C02) and   *)
(* the way every output transforms under it, as documented in Geodesic.hpp: *)
(*   S  exchange the end points                                             *)
(*   E  reflect both points in the equator      (lat -> -lat)               *)
(*   M  reflect both points in a meridian       (lon -> -lon)               *)
(* plus adding multiples of 360 to either longitude (outputs unchanged).    *)
(* A group element is described by what it does to the inputs and by an     *)
(* affine map on the outputs; the driver is a generic interpreter of such   *)
(* descriptors, so all knowledge of the symmetries lives here.              *)
(*                                                                          *)
(* Descriptor: [sw, ls, ms, as, ao, ss]                                     *)
(*   inputs:  sw = 1: points exchanged; ls = -1: latitudes negated;         *)
(*            ms = -1: longitudes negated                                   *)
(*   outputs: azi1' = as * azi[sw ? 2 : 1] + ao,  azi2' = as * azi[sw ? 1 : 2] + ao (mod 360) *)
(*            S12' = ss * S12;  M12', M21' exchanged iff sw = 1;            *)
(*            s12, a12, m12 unchanged                                       *)
(***************************************************************************)
EXTENDS Integers, Sequences

Id == [sw |-> 0, ls |-> 1, ms |-> 1, as |-> 1, ao |-> 0, ss |-> 1]
GenS == [sw |-> 1, ls |-> 1, ms |-> 1, as |-> 1, ao |-> 180, ss |-> -1]     \* azi1' = azi2 + 180, azi2' = azi1 + 180
GenE == [sw |-> 0, ls |-> -1, ms |-> 1, as |-> -1, ao |-> 180, ss |-> -1]   \* azi' = 180 - azi
GenM == [sw |-> 0, ls |-> 1, ms |-> -1, as |-> -1, ao |-> 0, ss |-> -1]     \* azi' = -azi
Gen(n) == CASE n = "S" -> GenS [] n = "E" -> GenE [] n = "M" -> GenM

\* apply g after f
Compose(g, f) ==
  [sw |-> (g.sw + f.sw) % 2, ls |-> g.ls * f.ls, ms |-> g.ms * f.ms,
   as |-> g.as * f.as, ao |-> (g.as * f.ao + g.ao) % 360, ss |-> g.ss * f.ss]

RECURSIVE OfWord(_)
OfWord(w) == IF w = <<>> THEN Id ELSE Compose(Gen(w[Len(w)]), OfWord(SubSeq(w, 1, Len(w) - 1)))

\* canonical element for a parity vector
Canon(s, e, m) ==
  LET w == (IF s = 1 THEN <<"S">> ELSE <<>>) \o (IF e = 1 THEN <<"E">> ELSE <<>>) \o (IF m = 1 THEN <<"M">> ELSE <<>>)
  IN OfWord(w)
Count(w, x) == Len(SelectSeq(w, LAMBDA y : y = x))
=============================================================================
