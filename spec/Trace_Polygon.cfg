INIT Init
NEXT Next
CONSTANTS TolPer = 50 TolArea = 1000 AreaPerVertex = 1000 TolPerNm = 400
POSTCONDITION Summary
CHECK_DEADLOCK FALSE
