INIT Init
NEXT Next
CONSTANTS TolPer = 50 TolArea = 1000 AreaPerVertex = 1000 TolPerNm = 400
          RoundoffUlps = 4 TolPosNm = 50 TolRhumbLegNm = 40 EvMaxArc = 120000000 EvMaxLatRhumb = 80000000 EvGeodPerNm = 250 EvRhumbPerNm = 1200
POSTCONDITION Summary
CHECK_DEADLOCK FALSE
