----------------------------- MODULE AngleArith -----------------------------
(***************************************************************************)
(* Angle arithmetic and the error-free sum of GeographicLib::Math          *)
(* (property C16) as EXACT functions on IEEE binary32 values.  Written from *)
(* Math.hpp (doxygen of AngNormalize, AngDiff, AngRound, LatFix, sum,      *)
(* sincosd, sind, cosd, tand, atan2d), the IEEE-754 definitions of         *)
(* remainder/remquo/round-to-nearest-even and C99 Annex F for atan2.       *)
(*                                                                         *)
(* A Num is <<c, m, e>>:  c = FIN: the non-zero value m * 2^e (m integer,   *)
(* |m| < 2^24; canonical when m is odd); PZ/NZ: +0/-0; PINF/NINF; NAN.      *)
(* Every operator below is integer arithmetic that fits TLC's 32 bits for  *)
(* EVERY finite binary32 argument (the reductions work modulo 360), except  *)
(* the two-argument ones, which carry a `...Defined` guard.                 *)
(***************************************************************************)
EXTENDS Integers, Sequences, FiniteSets

FIN == 0  PZ == 1  NZ == 2  PINF == 3  NINF == 4  NAN == 5
PB == 24                         \* significand bits of binary32

Pow2(k) == 2^k                   \* 0 <= k <= 30
Abs(n) == IF n < 0 THEN -n ELSE n
Sgn(n) == IF n < 0 THEN -1 ELSE IF n > 0 THEN 1 ELSE 0
Min(a, b) == IF a < b THEN a ELSE b
RECURSIVE BL(_)
BL(n) == IF n = 0 THEN 0 ELSE 1 + BL(n \div 2)          \* bit length of n >= 0

ZeroN(neg) == IF neg THEN <<NZ, 0, 0>> ELSE <<PZ, 0, 0>>
InfN(neg) == IF neg THEN <<NINF, 0, 0>> ELSE <<PINF, 0, 0>>
NaNN == <<NAN, 0, 0>>
RECURSIVE Strip(_, _)
Strip(m, e) == IF m % 2 = 0 THEN Strip(m \div 2, e + 1) ELSE <<FIN, m, e>>      \* m # 0
Mk(n, u, neg0) == IF n = 0 THEN ZeroN(neg0) ELSE Strip(n, u)                  \* n * 2^u; zero takes the sign neg0
Canon(x) == IF x[1] = FIN THEN Strip(x[2], x[3]) ELSE <<x[1], 0, 0>>

IsFin(x) == x[1] = FIN
IsZero(x) == x[1] \in {PZ, NZ}
IsNum(x) == x[1] \in {FIN, PZ, NZ}
IsNaN(x) == x[1] = NAN
IsInf(x) == x[1] \in {PINF, NINF}
SignBit(x) == (x[1] = FIN /\ x[2] < 0) \/ x[1] \in {NZ, NINF}
NegN(x) == CASE x[1] = FIN -> <<FIN, -x[2], x[3]>>
             [] x[1] = PZ -> <<NZ, 0, 0>> [] x[1] = NZ -> <<PZ, 0, 0>>
             [] x[1] = PINF -> <<NINF, 0, 0>> [] x[1] = NINF -> <<PINF, 0, 0>>
             [] OTHER -> x
CopySign(x, neg) == IF SignBit(x) = neg THEN x ELSE NegN(x)
SgnN(x) == IF x[1] = FIN THEN Sgn(x[2]) ELSE IF x[1] = PINF THEN 1 ELSE IF x[1] = NINF THEN -1 ELSE 0
\* a finite binary32 value (normal or subnormal)
ValidN(x) == /\ x[1] \in 0..5
             /\ x[1] = FIN => /\ x[2] # 0 /\ BL(Abs(x[2])) <= PB /\ x[3] >= -149
                              /\ BL(Abs(x[2])) + x[3] <= 128
\* equal as real numbers / same datum (zeros of either sign are the same value)
SameVal(x, y) == (IsZero(x) /\ IsZero(y)) \/ Canon(x) = Canon(y)

\* value in [2^(Top-1), 2^Top)
Top(x) == BL(Abs(x[2])) + x[3]
\* sign of |x| - c for finite non-zero x and an integer 1 <= c < 2^20
CmpMagInt(x, c) ==
  LET a == Abs(x[2])  e == x[3]  t == BL(a) + e  tc == BL(c) IN
  IF t < tc THEN -1 ELSE IF t > tc THEN 1
  ELSE IF e >= 0 THEN Sgn(a * Pow2(e) - c) ELSE Sgn(a - c * Pow2(-e))
\* sign of |x| - |y| for finite non-zero x, y
CmpMag(x, y) ==
  LET a == Abs(x[2])  b == Abs(y[2])  tx == BL(a) + x[3]  ty == BL(b) + y[3] IN
  IF tx # ty THEN Sgn(tx - ty) ELSE Sgn(a * Pow2(PB - BL(a)) - b * Pow2(PB - BL(b)))
\* sign of x - y for numbers (zeros equal)
CmpN(x, y) ==
  LET sx == SgnN(x)  sy == SgnN(y) IN
  IF sx # sy THEN Sgn(sx - sy) ELSE IF sx = 0 THEN 0 ELSE sx * CmpMag(x, y)

(* ------------------------------------------------------------------------ *)
(* Round to nearest, ties to even, to PB significant bits (integers).        *)
(* ------------------------------------------------------------------------ *)
Round24(n) ==
  LET a == Abs(n)  b == BL(a) IN
  IF b <= PB THEN n
  ELSE LET k == b - PB  q == a \div Pow2(k)  r == a % Pow2(k)  h == Pow2(k - 1)
           q2 == IF r > h \/ (r = h /\ q % 2 = 1) THEN q + 1 ELSE q
       IN Sgn(n) * q2 * Pow2(k)
\* the set of representable integers nearest to n (two elements on a tie)
Near24(n) ==
  LET a == Abs(n)  b == BL(a) IN
  IF b <= PB THEN {n}
  ELSE LET k == b - PB  lo == (a \div Pow2(k)) * Pow2(k)  r == a - lo  h == Pow2(k - 1) IN
       IF r < h THEN {Sgn(n) * lo} ELSE IF r > h THEN {Sgn(n) * (lo + Pow2(k))}
       ELSE {Sgn(n) * lo, Sgn(n) * (lo + Pow2(k))}

(* ------------------------------------------------------------------------ *)
(* IEEE remainder / remquo by Q in {90, 360} for every finite non-zero       *)
(* binary32 x.  Result <<n mod 4, r>>, r = x - n Q with n = x / Q rounded to  *)
(* nearest (ties to even n); a zero r has the sign of x.                      *)
(* For Q = 360 the tie (r = +-180) is resolved towards +180 for x > 0: users  *)
(* of Reduce(x, 360) below never depend on that choice.                       *)
(* ------------------------------------------------------------------------ *)
P2M(e) == IF e < 3 THEN Pow2(e) ELSE 8 * (Pow2((e - 3) % 12) % 45)          \* 2^e mod 360 (2^12 = 1 mod 45)
MulMod360(a, p) == ((a \div 4096) * ((4096 * p) % 360) + (a % 4096) * p) % 360
Reduce(x, Q) ==
  LET a == Abs(x[2])  e == x[3]  neg == x[2] < 0
      Out(n, rr, u) == <<IF neg THEN (4 - (n % 4)) % 4 ELSE n % 4, Mk(IF neg THEN -rr ELSE rr, u, neg)>>
  IN IF e >= 0 THEN
       LET A == MulMod360(a, P2M(e))                                          \* |x| mod 360, integer degrees
           n0 == A \div Q   r0 == A % Q
           up == 2 * r0 > Q \/ (2 * r0 = Q /\ Q = 90 /\ n0 % 2 = 1)
       IN IF up THEN Out(n0 + 1, r0 - Q, 0) ELSE Out(n0, r0, 0)
     ELSE IF BL(a) + e <= BL(Q \div 2) - 1 THEN <<0, x>>                      \* |x| < Q/2: nothing to do
     ELSE \* here -e <= 18, so the modulus 4 Q 2^-e < 2^27
       LET Mq == Q * Pow2(-e)
           A == a % ((IF Q = 90 THEN 4 ELSE 1) * Mq)
           n0 == A \div Mq   r0 == A % Mq
           up == 2 * r0 > Mq \/ (2 * r0 = Mq /\ Q = 90 /\ n0 % 2 = 1)
       IN IF up THEN Out(n0 + 1, r0 - Mq, e) ELSE Out(n0, r0, e)

N180 == <<FIN, 45, 2>>
N90 == <<FIN, 45, 1>>

(* AngNormalize: "the angle reduced to the range [-180, 180] ... If the result is +-0 or +-180 then the
   sign is the sign of x."  Non-finite arguments give NaN (remainder(inf, 360)). *)
AngNormalize(x) ==
  IF ~IsNum(x) THEN NaNN
  ELSE IF IsZero(x) THEN x
  ELSE LET r == Reduce(x, 360)[2] IN
       IF IsFin(r) /\ CmpMagInt(r, 180) = 0 THEN CopySign(N180, SignBit(x)) ELSE r

(* LatFix: "x if it is in the range [-90, 90], otherwise return NaN." *)
LatFix(x) ==
  IF ~IsNum(x) THEN NaNN
  ELSE IF IsZero(x) THEN x
  ELSE IF CmpMagInt(x, 90) > 0 THEN NaNN ELSE x

(* AngRound: "makes the smallest gap in x = 1/16 - nextafter(1/16, 0)" = 2^-28 for binary32, "the sign of +-0
   is preserved"; values with |x| >= 1/16 are unchanged; below 1/16 the value is rounded (nearest, ties to even)
   to the grid of multiples of 2^-28, so tiny non-zero values become +-0 with the sign of x. *)
AngRound(x) ==
  IF x[1] # FIN THEN x
  ELSE LET a == Abs(x[2])  e == x[3] IN
    IF BL(a) + e > -4 THEN x
    ELSE IF e >= -28 THEN x
    ELSE LET s == -28 - e IN
         IF s >= 26 THEN ZeroN(x[2] < 0)
         ELSE LET q == a \div Pow2(s)  r == a % Pow2(s)  h == Pow2(s - 1)
                  k == IF r > h \/ (r = h /\ q % 2 = 1) THEN q + 1 ELSE q
              IN Mk(IF x[2] < 0 THEN -k ELSE k, -28, x[2] < 0)

(* ------------------------------------------------------------------------ *)
(* Fixed point view: x as an integer in units of 2^u.                         *)
(* ------------------------------------------------------------------------ *)
FitsAt(x, u) == IsZero(x) \/ (IsFin(x) /\ x[3] >= u /\ x[3] - u <= 29 /\ BL(Abs(x[2])) + x[3] - u <= 29)
FixAt(x, u) == IF IsZero(x) THEN 0 ELSE x[2] * Pow2(x[3] - u)
ExpOr(x, d) == IF IsFin(x) THEN x[3] ELSE d
UnitOf(x, y) == Min(ExpOr(x, ExpOr(y, 0)), ExpOr(y, ExpOr(x, 0)))

(* sum: "s = round(u + v)", "t the exact error given by (u + v) - s".  A zero sum is -0 only for (-0) + (-0)
   (IEEE addition); the sign of a zero error term is not specified (rule TZeroSignFree: compare with SameVal). *)
SumDefined(u, v) ==
  /\ IsNum(u) /\ IsNum(v)
  /\ LET U == UnitOf(u, v) IN U >= -120 /\ U <= 90 /\ FitsAt(u, U) /\ FitsAt(v, U)
Sum(u, v) ==
  LET U == UnitOf(u, v)
      S == FixAt(u, U) + FixAt(v, U)
      s == Round24(S)
  IN IF S = 0 THEN <<ZeroN(u[1] = NZ /\ v[1] = NZ), ZeroN(FALSE)>>
     ELSE <<Mk(s, U, FALSE), Mk(S - s, U, FALSE)>>

(* AngDiff(x, y): "computes z = y - x exactly, reduced to [-180, 180]; and then sets z = d + e where d is the
   nearest representable number to z and e is the truncation error.  If z = +-0 or +-180, then the sign of d is
   given by the sign of y - x."  The sign of y - x for y = x is that of the IEEE subtraction (-0 only for
   (-0) - (+0)).  On a tie either nearest value is admitted (rule NearestTieFree). *)
NegYX(x, y) == LET c == CmpN(y, x) IN IF c # 0 THEN c < 0 ELSE y[1] = NZ /\ x[1] = PZ
RemN(x) == IF IsZero(x) THEN x ELSE Reduce(x, 360)[2]
AngDiffDefined(x, y) ==
  /\ IsNum(x) /\ IsNum(y)
  /\ LET r1 == RemN(NegN(x))  r2 == RemN(y)  U == Min(0, UnitOf(r1, r2)) IN U >= -22 /\ FitsAt(r1, U) /\ FitsAt(r2, U)
\* set of admissible <<d, e>>
AngDiffSet(x, y) ==
  LET r1 == RemN(NegN(x))  r2 == RemN(y)
      U == Min(0, UnitOf(r1, r2))
      H == 180 * Pow2(-U)
      z0 == FixAt(r1, U) + FixAt(r2, U)
      Z == IF z0 > H THEN z0 - 2 * H ELSE IF z0 < -H THEN z0 + 2 * H ELSE z0
      neg == NegYX(x, y)
  IN IF Z = 0 THEN {<<ZeroN(neg), ZeroN(FALSE)>>}
     ELSE IF Abs(Z) = H THEN {<<CopySign(N180, neg), ZeroN(FALSE)>>}
     ELSE {<<Mk(d, U, FALSE), Mk(Z - d, U, FALSE)>> : d \in Near24(Z)}

(* ------------------------------------------------------------------------ *)
(* Degree-argument trigonometry: exact reduction structure.                   *)
(* "exactly reduces the argument to the range [-45, 45]", "obey exactly the  *)
(* elementary properties of the trigonometric functions", "If x = -0 or a   *)
(* negative multiple of 180 then sinx = -0; this is the only case where -0   *)
(* is returned", cosd: "+0 for x an odd multiple of 90".                      *)
(* TrigRed(x) = [q, r]: x = 90 n + r, q = n mod 4, r in [-45, 45] (Num).      *)
(* ------------------------------------------------------------------------ *)
TrigRed(x) == IF IsZero(x) THEN [q |-> 0, r |-> x] ELSE LET R == Reduce(x, 90) IN [q |-> R[1], r |-> R[2]]
\* classification of |r|: 1 zero, 30, 45 (exact special cases) or 0
RClass(r) == IF IsZero(r) THEN 1
             ELSE IF Canon(<<FIN, Abs(r[2]), r[3]>>) = <<FIN, 15, 1>> THEN 30
             ELSE IF Canon(<<FIN, Abs(r[2]), r[3]>>) = <<FIN, 45, 0>> THEN 45 ELSE 0
\* symbolic values: <<sg, fn>> means sg * fn(|r| degrees), fn in {"sin", "cos"}, sg in {-1, 1}
RSign(r) == IF SignBit(r) THEN -1 ELSE 1
SinSym(t) == CASE t.q = 0 -> <<RSign(t.r), "sin">> [] t.q = 1 -> <<1, "cos">>
               [] t.q = 2 -> <<-RSign(t.r), "sin">> [] OTHER -> <<-1, "cos">>
CosSym(t) == CASE t.q = 0 -> <<1, "cos">> [] t.q = 1 -> <<-RSign(t.r), "sin">>
               [] t.q = 2 -> <<-1, "cos">> [] OTHER -> <<RSign(t.r), "sin">>

(* atan2d exact cases (C99 F.10.1.4 in degrees; Math.hpp: "atan2d(+-0, -1) = +-180").  Works on any value
   encoding whose first component is the class and whose sign is given by SignG: returns <<"nan">>,
   <<"deg", k, neg>> (the result is exactly (-1)^neg * k degrees) or <<"gen", neg>> (general case, sign of y). *)
SignG(x) == IF Len(x) = 3 THEN SignBit(x) ELSE x[2] = 1
Atan2Class(y, x) ==
  LET ny == SignG(y)  nx == SignG(x)
      yinf == y[1] \in {PINF, NINF}  xinf == x[1] \in {PINF, NINF}
      yz == y[1] \in {PZ, NZ}  xz == x[1] \in {PZ, NZ}
  IN IF y[1] = NAN \/ x[1] = NAN THEN <<"nan">>
     ELSE IF yz THEN <<"deg", IF nx THEN 180 ELSE 0, ny>>
     ELSE IF xz THEN <<"deg", 90, ny>>
     ELSE IF yinf THEN <<"deg", IF ~xinf THEN 90 ELSE IF nx THEN 135 ELSE 45, ny>>
     ELSE IF xinf THEN <<"deg", IF nx THEN 180 ELSE 0, ny>>
     ELSE <<"gen", ny>>
(* ------------------------------------------------------------------------ *)
(* Small helpers of Math.hpp that the other functions are built from.        *)
(* polyval(N, p, x): "Evaluate sum_{n=0..N} p_n x^(N-n).  Return 0 if N < 0. *)
(* Return p_0, if N = 0 (even if x is infinite or a nan).  The evaluation    *)
(* uses Horner's method."  On small integers every intermediate is exact.    *)
(* sq(x) = x^2.  norm(x, y): "x/hypot(x, y), y/hypot(x, y)"; on a            *)
(* Pythagorean triple scaled by a power of two hypot is exact.  hypot3 =     *)
(* sqrt(x^2 + y^2 + z^2): exact when two arguments are zero.                 *)
(* ------------------------------------------------------------------------ *)
RECURSIVE Horner(_, _, _, _)
Horner(p, i, x, acc) == IF i > Len(p) THEN acc ELSE Horner(p, i + 1, x, acc * x + p[i])
PolyVal(p, x) == IF Len(p) = 0 THEN 0 ELSE Horner(p, 2, x, p[1])          \* p = <<p_0, ..., p_N>>, N = Len(p) - 1
SqN(m, e) == Canon(<<FIN, m * m, 2 * e>>)                                  \* (m 2^e)^2 for 0 < |m| < 2^12: exact
Triples == {<<3, 4, 5>>, <<5, 12, 13>>, <<8, 15, 17>>, <<7, 24, 25>>, <<20, 21, 29>>, <<12, 35, 37>>, <<9, 40, 41>>,
            <<28, 45, 53>>, <<33, 56, 65>>, <<119, 120, 169>>, <<696, 697, 985>>}
=============================================================================
