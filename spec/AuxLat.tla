------------------------------- MODULE AuxLat -------------------------------
(***************************************************************************)
(* Auxiliary latitudes (property C15), written from AuxLatitude.hpp,       *)
(* AuxAngle.hpp, Ellipsoid.hpp and doc/GeographicLib.dox.in (pages auxlat  *)
(* and rhumb).                                                             *)
(*                                                                         *)
(* Six latitudes are six charts of the same meridian point:                *)
(*   0 PHI geographic, 1 BETA parametric, 2 THETA geocentric,              *)
(*   3 MU rectifying, 4 CHI conformal, 5 XI authalic.                      *)
(* A conversion a -> b is a change of chart, hence conversions compose     *)
(* (path independence), a -> b and b -> a are mutually inverse, every      *)
(* chart is odd, increasing and fixes the equator and the poles.  The      *)
(* PHI/BETA/THETA charts are exact: tan(beta) = (1-f) tan(phi),            *)
(* tan(theta) = (1-f)^2 tan(phi); with 1 - f = P * 2^-k they are integer   *)
(* arithmetic and the model below is the oracle for them.  The other       *)
(* charts are transcendental: the trace records carry an integer residual  *)
(* (unit 2^-53) against the defining closed form / integral and this       *)
(* module holds the tolerance, the applicability guard and the decision.   *)
(***************************************************************************)
EXTENDS Integers, Sequences, FiniteSets

CONSTANTS RO,      \* round-off budget of one library result, relative, unit 2^-53 (documentation: "errors close to
                   \* round-off (about 5-15 nanometers)": 15 nm of latitude on the WGS84 ellipsoid is a relative error
                   \* of the tangent of 2 * 15e-9 / 6378137 = 4.7e-15 = 42.4 units at 45 degrees, where it is tightest)
          AngRO    \* the same 15 nm as an angle: 2.35e-15 rad = 21.2 units

Max(a, b) == IF a > b THEN a ELSE b
Min(a, b) == IF a < b THEN a ELSE b
Abs(a) == IF a < 0 THEN -a ELSE a
RECURSIVE BitLen(_)
BitLen(n) == IF n = 0 THEN 0 ELSE 1 + BitLen(n \div 2)
RECURSIVE Pow2(_)
Pow2(n) == IF n = 0 THEN 1 ELSE 2 * Pow2(n - 1)
RECURSIVE IPow(_, _)
IPow(p, n) == IF n = 0 THEN 1 ELSE p * IPow(p, n - 1)

NaNRes == 2000000001          \* residual of a NaN
Clip == 2000000000            \* residual too large to quantise
Good(r, tol) == r >= 0 /\ r <= tol
GoodOrSkipped(r, tol) == r = -1 \/ Good(r, tol)       \* -1: the driver did not evaluate this residual

(* ------------------------------------------------------------------------ *)
(* Ellipsoid classes.  F is the flattening in units of 1e-6.                  *)
(* ------------------------------------------------------------------------ *)
SeriesOK(F) == Abs(F) <= 6667       \* "The series method is accurate for abs(f) <= 1/150"

\* EccScale: squared axis ratio, in 1/100, rounded up.  The documentation promises full accuracy for |f| <= 0.01 and
\* "reasonably accurate" results to |f| <= 0.1; for the extreme ellipsoids of the property (b/a down to 0.01, up to
\* 100) there is no published bound.  1 - e^2 = (b/a)^2 is the cancelling factor of the defining closed forms
\* (psi = asinh(tan phi) - e atanh(e sin phi), q(phi), the meridian integrand), so the admissible round-off is
\* scaled by max((a/b)^2, (b/a)^2).  Named rule, reported with its observed use in notes/C15.md.
S100(F) ==
  LET b1000 == (1000000 - F) \div 1000
      r == IF b1000 >= 1000 THEN b1000 \div 10 + 1 ELSE 100000 \div Max(b1000, 10) + 1
  IN (r * r) \div 100 + 1
TolTan(F) == (RO * S100(F)) \div 100 + 2         \* one exact conversion, relative error of the tangent
TolAng(F) == (AngRO * S100(F)) \div 100 + 4      \* one exact conversion, as an angle (+ the ulp of 90 degrees)

(* Truncation error of the 6th order series at f = 1/150 in units of 2^-53 rad (table "Auxiliary latitude        *)
(* truncation errors (ulp)", column "n series, f = 1/150, order 6"), rounded up; row "X - Y" is the series giving  *)
(* X in terms of Y.  The error scales as f^7, so the entry is an upper bound for |f| <= 1/150.                     *)
TruncU(a, b) ==      \* a = from, b = to
  CASE a = 0 /\ b = 2 -> 3  [] a = 2 /\ b = 0 -> 3
    [] a = 4 /\ b = 0 -> 9  [] a = 4 /\ b = 1 -> 2
    [] OTHER -> 1
\* Round-off of a series result: the same page says truncation errors above 8 ulp dominate round-off and below 1 ulp
\* are dominated by it; the budget used is the general AngRO.
TolSer(a, b) == TruncU(a, b) + AngRO + 1

(* ------------------------------------------------------------------------ *)
(* Exact dyadic comparison.  A double is logged as v = <<s, e, hi, lo>> with  *)
(* |v| = (hi * 2^31 + lo) * 2^e, 2^21 <= hi < 2^22 (s = 0: zero, +-2: inf,    *)
(* 3: NaN).  DyNear: v equals sg * m * 2^e0 within tol units of 2^-53         *)
(* relative (1 <= m < 2^22).                                                   *)
(* ------------------------------------------------------------------------ *)
DyNear(v, sg, m, e0, tol) ==
  LET L == BitLen(m)
      hiE == m * Pow2(22 - L)
      eE == e0 - 53 + L
      allowed == ((hiE \div 1024) * Min(tol, 500000)) \div 4096
  IN /\ v[1] = sg
     /\ \/ v[2] = eE /\ v[3] = hiE /\ v[4] <= allowed
        \/ v[2] = eE /\ v[3] = hiE - 1 /\ hiE > 2097152 /\ 2147483647 - v[4] < allowed
        \/ v[2] = eE - 1 /\ hiE = 2097152 /\ v[3] = 4194303 /\ 2147483647 - v[4] < 2 * allowed
IsZero(v) == v[1] = 0
IsInf(v) == v[1] = 2 \/ v[1] = -2
IsNaN(v) == v[1] = 3

(* ------------------------------------------------------------------------ *)
(* The lattice ellipsoids: 1 - f = P * 2^-k.                                   *)
(* ------------------------------------------------------------------------ *)
LatP == <<1, 1, 1, 3, 3, 127, 129, 1, 1, 255, 257, 511, 513>>
LatK == <<0, 1, -1, 2, 1, 7, 7, 6, -6, 8, 8, 9, 9>>
NLat == Len(LatP)
\* the logged flattening (1e-6, rounded) of lattice ellipsoid fi: f = 1 - P 2^-k
LatFOK(fi, F) ==
  LET P == LatP[fi + 1]  k == LatK[fi + 1]
  IN IF k >= 0 THEN Abs(F * Pow2(k) - 1000000 * (Pow2(k) - P)) <= Pow2(k)
     ELSE F = 1000000 * (1 - P * Pow2(-k))

(* Angle lattice: <<s, mm, e>>: tangent s * mm * 2^e; mm = 0: the equator, mm = -1: the pole (sign s).          *)
IsEq(z) == z[2] = 0
IsPole(z) == z[2] = -1
Generic(z) == z[2] > 0

(* The exact charts: Conv3(fi, a, b, z) for a, b in 0..2 is multiplication of the tangent by (1-f)^(b-a).        *)
(* Result as <<s, mm, e, j>>: tangent s * mm * P^j * 2^e (j may be negative: division by P^-j).                   *)
Conv3(fi, a, b, z) ==
  IF ~Generic(z) THEN <<z[1], z[2], z[3], 0>>
  ELSE <<z[1], z[2], z[3] - LatK[fi + 1] * (b - a), IF LatP[fi + 1] = 1 THEN 0 ELSE b - a>>
\* composition on the extended form
Conv3x(fi, a, b, w) ==
  IF w[2] <= 0 THEN w ELSE <<w[1], w[2], w[3] - LatK[fi + 1] * (b - a), IF LatP[fi + 1] = 1 THEN 0 ELSE w[4] + (b - a)>>
Neg4(w) == <<-w[1], w[2], w[3], w[4]>>
\* w1 < w2 for results of the same conversion of positive generic inputs (same j): compare mm * 2^e
LessPos(z1, z2) ==
  LET e == Min(z1[3], z2[3]) IN
  IF z1[3] - e > 20 THEN FALSE ELSE IF z2[3] - e > 20 THEN TRUE
  ELSE z1[2] * Pow2(z1[3] - e) < z2[2] * Pow2(z2[3] - e)
\* is the expected tangent a dyadic number the spec can state exactly?
Dyadic3(fi, w) == w[4] >= 0 \/ LatP[fi + 1] = 1
DyM(fi, w) == w[2] * IPow(LatP[fi + 1], Max(w[4], 0))
InRangeE(e) == e >= -1000 /\ e <= 1000

(* ------------------------------------------------------------------------ *)
(* Laws on conversion records                                                 *)
(* ------------------------------------------------------------------------ *)
\* classes: 0 zero, 1 generic, 2 pole, 3 NaN
ClassOK(zc, zs, oc, os) ==
  CASE zc = 0 -> oc = 0
    [] zc = 2 -> oc = 2 /\ os = zs
    [] zc = 1 -> oc \in {0, 1, 2} /\ (oc # 0 => os = zs)      \* the tangent may under/overflow; the residual judges it
    [] OTHER -> FALSE

\* one conversion against its definition
ConvAccOK(r) ==
  IF r.zc # 1 THEN TRUE
  ELSE IF r.m = 1 THEN Good(r.rt, TolTan(r.F)) /\ GoodOrSkipped(r.rq, TolTan(r.F))
  ELSE IF SeriesOK(r.F) THEN Good(r.ra, TolSer(r.a, r.b)) /\ GoodOrSkipped(r.rq, TolSer(r.a, r.b) + TolTan(r.F))
  ELSE TRUE                                   \* series outside its documented range: classes only
\* the series outside |f| <= 1/150 carries no promise at all (not even the sign); the equator and the poles are
\* still fixed, because the correction is a sine series in 2 zeta
Judged(r) == r.m = 1 \/ SeriesOK(r.F) \/ r.zc # 1
CvRandomOK(r) == Judged(r) => ClassOK(r.zc, r.zs, r.oc, r.os) /\ ConvAccOK(r)

\* lattice line: the model states the expected tangent exactly on the PHI/BETA/THETA charts and on the sphere
CvLatticeOK(r) ==
  LET z == r.z  fi == r.fi
      w == Conv3(fi, r.a, r.b, z)
      exact == /\ Generic(z) /\ r.m = 1
               /\ ((r.a <= 2 /\ r.b <= 2) \/ fi = 0)
               /\ (fi = 0 \/ Dyadic3(fi, w)) /\ InRangeE(z[3]) /\ InRangeE(w[3])
      wx == IF fi = 0 \/ r.a > 2 \/ r.b > 2 THEN <<z[1], z[2], z[3], 0>> ELSE w
  IN /\ LatFOK(fi, r.F)
     /\ r.zc = (IF IsEq(z) THEN 0 ELSE IF IsPole(z) THEN 2 ELSE 1) /\ (r.zc # 0 => r.zs = z[1])
     /\ (Judged(r) => ClassOK(r.zc, r.zs, r.oc, r.os) /\ ConvAccOK(r))
     /\ (exact => DyNear(r.ot, wx[1], DyM(fi, wx), wx[3], TolTan(r.F)))
     \* the degree interface fixes 0 and +-90 exactly
     /\ (IsEq(z) => IsZero(r.zd) /\ IsZero(r.od))
     /\ (IsPole(z) => DyNear(r.zd, z[1], 45, 1, 0) /\ DyNear(r.od, z[1], 45, 1, 0))
CvOK(r) == IF r.fi >= 0 THEN CvLatticeOK(r) ELSE CvRandomOK(r)

\* conditioning d log tan(to) / d log tan(from), in 1/1000; laws that propagate an error through a conversion are
\* applicable where it is known and moderate
CondOK(kap) == kap >= 0 /\ kap <= 4000
Chain(F, kap) == ((TolTan(F) \div 8 + 1) * (2000 + kap)) \div 125 + 2

\* a conversion followed by its inverse
RtpOK(r) ==
  /\ r.wc = r.zc /\ (r.zc # 0 => r.ws = r.zs)
  /\ r.zc = 1 =>
       IF r.m = 1 THEN (CondOK(r.kap) => Good(r.rt, Chain(r.F, r.kap)))
       ELSE SeriesOK(r.F) => Good(r.ra, 2 * TolSer(r.a, r.b) + TolSer(r.b, r.a) + 2)

\* series against exact
SeOK(r) ==
  /\ r.sc = r.zc /\ r.xc = r.zc /\ (r.zc # 0 => r.ss = r.xs)
  /\ (r.zc = 1 /\ SeriesOK(r.F)) => Good(r.ra, TolSer(r.a, r.b) + (TolTan(r.F) + 1) \div 2 + 1)

\* oddness (AuxAngle and degree interfaces)
OddOK(r) ==
  /\ r.oc # 3 /\ r.onc = r.oc /\ r.ons = -r.os
  /\ Good(r.rt, 2 * TolTan(r.F))
  /\ Good(r.rd, 116 * (TolSer(r.a, r.b) + TolAng(r.F)))        \* degrees: 2 results, 180/pi < 58

\* monotonicity: cz, ce are the exact signs of the differences of the input and output tangents
MonoOK(r) ==
  LET slack == IF r.m = 1 THEN r.ge <= 2 * TolTan(r.F) ELSE r.ga <= 2 * TolSer(r.a, r.b)
      judged == r.m = 1 \/ SeriesOK(r.F)
  IN /\ r.ac # 3 /\ r.bc # 3 /\ r.ce \in {-1, 0, 1}
     /\ (r.cz = 0 => r.ce = 0)
     /\ judged => /\ (r.cz > 0 => r.ce >= 0 \/ slack)
                  /\ (r.cz < 0 => r.ce <= 0 \/ slack)
                  /\ (r.gz >= Clip /\ r.ac = 1 /\ r.bc = 1 => r.ce = r.cz)      \* distinct inputs far apart: strictly

\* path independence: a -> b -> c against a -> c
PathOK(r) ==
  (r.m = 1 \/ SeriesOK(r.F) \/ r.zc # 1) =>
  /\ r.wc = r.dc /\ (r.zc = 0 => r.wc = 0) /\ (r.zc = 2 => r.wc = 2 /\ r.ws = r.zs) /\ (r.wc # 0 => r.ws = r.ds)
  /\ r.wc # 3
  /\ r.zc = 1 =>
       IF r.m = 1 THEN (CondOK(r.kap) => Good(r.rt, Chain(r.F, r.kap) + TolTan(r.F)))
       ELSE SeriesOK(r.F) => Good(r.ra, 2 * TolSer(r.a, r.b) + TolSer(r.b, r.c) + TolSer(r.a, r.c) + 2)
PathLatticeOK(r) == LatFOK(r.fi, r.F) /\ PathOK(r)

\* ToAuxiliary (with the derivative d tan(eta) / d tan(phi)) and FromAuxiliary
TauxOK(r) ==
  /\ ClassOK(r.pc, r.ps, r.oc, r.os) /\ r.bc = r.oc /\ (r.oc # 0 => r.bs = r.os)
  /\ r.pc = 1 => /\ Good(r.rt, TolTan(r.F))
                 /\ Good(r.rd, 2 * TolTan(r.F))
                 /\ (r.oc = 1 => Good(r.rf, 2 * TolTan(r.F)))

\* the derivative of ToAuxiliary at the equator (pc = 0) and at the poles (pc = 2): d tan(eta) / d tan(phi) is the limit of
\* tan(eta) / tan(phi) of the defining closed forms; a finite number, to the same budget as the derivative elsewhere
TdpOK(r) == r.pc \in {0, 2} /\ r.dc = 0 /\ Good(r.rd, 2 * TolTan(r.F))

\* rectifying radius, authalic radius squared: exact and series forms against the defining integrals; the inspectors
\* a, b, f of the object (ab), whichever constructor built it
RadOK(r) ==
  /\ \A i \in DOMAIN r.ab : Good(r.ab[i], TolTan(r.F))
  /\ Good(r.rx, TolTan(r.F)) /\ Good(r.cx, TolTan(r.F)) /\ GoodOrSkipped(r.rqx, TolTan(r.F)) /\ GoodOrSkipped(r.cqx, TolTan(r.F))
  /\ SeriesOK(r.F) => Good(r.rs, TolTan(r.F)) /\ Good(r.cs, TolTan(r.F))

\* divided differences (DAuxLatitude): the definition (eta2 - eta1) / (zeta2 - zeta1); a coarse anchor (2^-33)
\* Point classes pc: 0 generic pair, 1 neighbouring doubles, 2 both at a pole, 3 both at the equator, 4 one at a pole
\* ("valid for arbitrary latitude").  ie: the isometric latitude of one of the points is infinite, so the divided difference of
\* the (increasing) isometric latitude is +infinity (vc = 2); otherwise the result is a finite number (vc = 0).
DDTol == 1048576
DdOK(r) ==
  LET judged == IF r.k = 0 THEN SeriesOK(r.F) ELSE Abs(r.F) <= 100000
  IN /\ r.pc \in 0..4
     /\ (r.ie <=> (r.k = 3 /\ r.pc \in {2, 4}))
     /\ IF r.ie THEN r.vc = 2
        ELSE judged => r.vc = 0 /\ Good(r.rr, DDTol)

(* ------------------------------------------------------------------------ *)
(* The AuxAngle class (AuxAngle.hpp): a direction (y, x) in the plane.         *)
(* ------------------------------------------------------------------------ *)
\* random record: residuals in units of 2^-53 (angles in radians; relative for the accessors and tangents, so that angles
\* close to the cardinal points keep their accuracy, as the class promises); budget: the general round-off AngRO / RO
AngOK(r) ==
  /\ Good(r.nr, AngRO) /\ Good(r.nd, AngRO) /\ r.ns                            \* normalized(): unit circle, direction, signs
  /\ Good(r.ad, AngRO) /\ Good(r.ar, AngRO) /\ GoodOrSkipped(r.al, RO) /\ GoodOrSkipped(r.ald, RO) /\ r.at
  /\ Good(r.fd, AngRO) /\ GoodOrSkipped(r.fdt, RO) /\ Good(r.fdb, AngRO)      \* degrees(d) and back
  /\ Good(r.fr, AngRO) /\ GoodOrSkipped(r.frt, RO) /\ Good(r.frb, AngRO)      \* radians(r) and back
  /\ Good(r.fl, RO) /\ Good(r.flb, RO) /\ Good(r.fld, RO) /\ Good(r.fldb, RO)  \* lam(psi), lamd(psid): tan = sinh(psi), and back
  /\ r.cq                                                                       \* copyquadrant
  /\ Good(r.pa, AngRO)                                                          \* += adds the angles
  /\ r.nn

\* lattice: small integer components (y, x) 2^j (j = 99: the non-zero component is infinite); the model is exact.
Sgn(n) == IF n > 0 THEN 1 ELSE IF n < 0 THEN -1 ELSE 0
\* direction of the sum of two angles: complex multiplication (x1 + i y1)(x2 + i y2)
AddY(y1, x1, y2, x2) == y1 * x2 + x1 * y2
AddX(y1, x1, y2, x2) == x1 * x2 - y1 * y2
\* angle in degrees of an axis direction (one component zero), atan2 convention
AxisDeg(y, x) == IF y = 0 THEN (IF x > 0 THEN 0 ELSE 180) ELSE (IF y > 0 THEN 90 ELSE -90)
DegIs(v, d) == IF d = 0 THEN IsZero(v) ELSE DyNear(v, Sgn(d), Abs(d), 0, 0)
AngLatticeOK(r) ==
  LET y1 == r.p[1]  x1 == r.p[2]  y2 == r.p[4]  x2 == r.p[5] IN
  CASE r.op = 0 ->      \* normalized() of an axis direction (finite or infinite): the unit vector on that axis
         r.ex /\ r.ry = Sgn(y1) /\ r.rx = Sgn(x1)
    [] r.op = 1 ->      \* copyquadrant: magnitudes of the first, signs of the second
         r.ex /\ r.ry = Sgn(y2) * Abs(y1) /\ r.rx = Sgn(x2) * Abs(x1)
    [] r.op = 2 ->      \* +=: the direction of the sum (any positive multiple)
         LET ey == AddY(y1, x1, y2, x2)  ex == AddX(y1, x1, y2, x2)
         IN r.ex /\ r.ry * ex - r.rx * ey = 0 /\ r.ry * ey + r.rx * ex > 0
    [] r.op = 3 -> DegIs(r.deg, AxisDeg(y1, x1))            \* degrees() of an axis direction
    [] r.op = 4 ->      \* degrees(90 k) is exactly the axis direction, and degrees() returns 90 k (-180 = 180 as a direction)
         LET k == y1  cy == IF k = 1 THEN 1 ELSE IF k = -1 THEN -1 ELSE 0  cx == IF k = 0 THEN 1 ELSE IF Abs(k) = 2 THEN -1 ELSE 0
         IN r.ex /\ r.ry = cy /\ r.rx = cx /\ DegIs(r.deg, 90 * k)
    [] OTHER -> FALSE
=============================================================================
