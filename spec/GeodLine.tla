------------------------------ MODULE GeodLine ------------------------------
(***************************************************************************)
(* Output masks, capabilities and line objects of the geodesic and rhumb   *)
(* solvers (property C12).  Masks are sets of OUTPUT BITS numbered from the *)
(* least significant output bit of Geodesic::mask:                          *)
(*   0 LATITUDE  1 LONGITUDE  2 AZIMUTH  3 DISTANCE  4 DISTANCE_IN          *)
(*   5 REDUCEDLENGTH  6 GEODESICSCALE  7 AREA  8 LONG_UNROLL                *)
(* and are exchanged with the driver as integers 0..511 (bit i <-> 2^i).    *)
(* Written from the documentation of Geodesic::mask, GeodesicLine and       *)
(* Rhumb (what each bit requests, which constructors add which capability,  *)
(* when NaN is returned).                                                    *)
(***************************************************************************)
EXTENDS Integers, FiniteSets

LAT == 0  LON == 1  AZI == 2  DIST == 3  DIST_IN == 4  REDLEN == 5  SCALE == 6  AREA == 7  UNROLL == 8
Bits == 0..8
\* bits that correspond to output arguments of GenPosition / GenDirect
OutputBits == {LAT, LON, AZI, DIST, REDLEN, SCALE, AREA}
Set(m) == {i \in Bits : (m \div (2 ^ i)) % 2 = 1}
RECURSIVE Num(_)
Num(S) == IF S = {} THEN 0 ELSE LET i == CHOOSE x \in S : TRUE IN 2 ^ i + Num(S \ {i})

\* a line always has the capability to return latitude and azimuth and to unroll
Forced == {LAT, AZI, UNROLL}

\* capabilities of the line object produced by each constructor form, from the requested caps
CapsOf(ctor, c) ==
  CASE ctor = "line"      -> c \cup Forced
    [] ctor = "direct"    -> c \cup Forced \cup {DIST_IN}           \* DISTANCE_IN supplied automatically
    [] ctor = "arcdirect" -> c \cup Forced
    [] ctor = "inverse"   -> c \cup Forced \cup (IF DIST_IN \in c THEN {DIST} ELSE {})

\* third point after construction and a sequence of SetDistance / SetArc / GenSetDistance calls: the LAST call defines it
\* <<Distance() is a number, Arc() is a number>>
LastOp(so) == CASE so \in {"setdist", "setarc+setdist", "gsetdist"} -> "setdist"
                [] so \in {"setarc", "setdist+setarc", "gsetarc"} -> "setarc"
                [] OTHER -> "none"
Third(ctor, caps, so) ==
  CASE LastOp(so) = "setdist" -> <<TRUE, DIST_IN \in caps>>
    [] LastOp(so) = "setarc"  -> <<DIST \in caps, TRUE>>
    [] OTHER ->
       CASE ctor = "line"      -> <<FALSE, FALSE>>
         [] ctor = "direct"    -> <<TRUE, TRUE>>
         [] ctor = "arcdirect" -> <<DIST \in caps, TRUE>>
         [] ctor = "inverse"   -> <<DIST \in caps, TRUE>>

\* GenPosition on a line with capabilities caps: <<returns a number, set of outputs written>>
Position(caps, arcmode, outmask) ==
  IF ~arcmode /\ DIST_IN \notin caps THEN <<FALSE, {}>>
  ELSE <<TRUE, outmask \cap caps \cap OutputBits>>

\* solver-level calls
GenDirectWritten(outmask) == outmask \cap OutputBits
GenInverseWritten(outmask) == outmask \cap {AZI, DIST, REDLEN, SCALE, AREA}

\* rhumb: outputs LATITUDE, LONGITUDE, AZIMUTH (inverse), DISTANCE (inverse), AREA
RhumbDirectWritten(outmask) == outmask \cap {LAT, LON, AREA}
RhumbInverseWritten(outmask) == outmask \cap {AZI, DIST, AREA}
=============================================================================
