------------------------------ MODULE GeodLine ------------------------------
(***************************************************************************)
(* Output masks, capabilities and line objects of the geodesic and rhumb   *)
(* solvers (property C12).  Masks are sets of OUTPUT BITS numbered from the *)
(* least significant output bit of Geodesic::mask:                          *)
(*   0 LATITUDE  1 LONGITUDE  2 AZIMUTH  3 DISTANCE  4 DISTANCE_IN          *)
(*   5 REDUCEDLENGTH  6 GEODESICSCALE  7 AREA  8 LONG_UNROLL                *)
(* and are exchanged with the driver as integers 0..511 (bit i <-> 2^i).    *)
(* Written from the documentation of Geodesic::mask, GeodesicLine and       *)
(* Rhumb (what each bit requests, which constructors add which capability,  *)
(* when NaN is returned).                                                    *)
(***************************************************************************)
EXTENDS Integers, FiniteSets

LAT == 0  LON == 1  AZI == 2  DIST == 3  DIST_IN == 4  REDLEN == 5  SCALE == 6  AREA == 7  UNROLL == 8
Bits == 0..8
\* bits that correspond to output arguments of GenPosition / GenDirect
OutputBits == {LAT, LON, AZI, DIST, REDLEN, SCALE, AREA}
Set(m) == {i \in Bits : (m \div (2 ^ i)) % 2 = 1}
RECURSIVE Num(_)
Num(S) == IF S = {} THEN 0 ELSE LET i == CHOOSE x \in S : TRUE IN 2 ^ i + Num(S \ {i})

\* a line always has the capability to return latitude and azimuth and to unroll
Forced == {LAT, AZI, UNROLL}

\* capabilities of the line object produced by each constructor form, from the requested caps
CapsOf(ctor, c) ==
  CASE ctor = "line"      -> c \cup Forced
    [] ctor = "direct"    -> c \cup Forced \cup {DIST_IN}           \* DISTANCE_IN supplied automatically
    [] ctor = "arcdirect" -> c \cup Forced
    [] ctor = "inverse"   -> c \cup Forced \cup (IF DIST_IN \in c THEN {DIST} ELSE {})

\* third point after construction and a sequence of SetDistance / SetArc / GenSetDistance calls: the LAST call defines it
\* <<Distance() is a number, Arc() is a number>>
LastOp(so) == CASE so \in {"setdist", "setarc+setdist", "gsetdist"} -> "setdist"
                [] so \in {"setarc", "setdist+setarc", "gsetarc"} -> "setarc"
                [] OTHER -> "none"
Third(ctor, caps, so) ==
  CASE LastOp(so) = "setdist" -> <<TRUE, DIST_IN \in caps>>
    [] LastOp(so) = "setarc"  -> <<DIST \in caps, TRUE>>
    [] OTHER ->
       CASE ctor = "line"      -> <<FALSE, FALSE>>
         [] ctor = "direct"    -> <<TRUE, TRUE>>
         [] ctor = "arcdirect" -> <<DIST \in caps, TRUE>>
         [] ctor = "inverse"   -> <<DIST \in caps, TRUE>>

\* GenPosition on a line with capabilities caps: <<returns a number, set of outputs written>>
Position(caps, arcmode, outmask) ==
  IF ~arcmode /\ DIST_IN \notin caps THEN <<FALSE, {}>>
  ELSE <<TRUE, outmask \cap caps \cap OutputBits>>

\* solver-level calls
GenDirectWritten(outmask) == outmask \cap OutputBits
GenInverseWritten(outmask) == outmask \cap {AZI, DIST, REDLEN, SCALE, AREA}

\* rhumb: outputs LATITUDE, LONGITUDE, AZIMUTH (inverse), DISTANCE (inverse), AREA
RhumbDirectWritten(outmask) == outmask \cap {LAT, LON, AREA}
RhumbInverseWritten(outmask) == outmask \cap {AZI, DIST, AREA}
\* the bits that exist in Rhumb::mask / RhumbLine::mask
RhumbBits == {LAT, LON, AZI, DIST, AREA, UNROLL}

(***************************************************************************)
(* Inline overloads ("overloaded versions ... which omit some of the        *)
(* output parameters").  Within one family an overload is identified by the *)
(* NUMBER of its output arguments; the table gives the quantities in its    *)
(* argument list, read off the @param[out] lists / signatures of            *)
(* Geodesic.hpp, GeodesicExact.hpp, GeodesicLine.hpp, GeodesicLineExact.hpp *)
(* and Rhumb.hpp.  Every output argument of an overload is an output: it is *)
(* set (for a line: if the line has the capability) to the value the        *)
(* general routine returns for it.  M12 and M21 are two arguments for one   *)
(* bit, and so are azi1 and azi2 of the inverse problem.                    *)
(*   Direct / Position     : the distance s12 is the input, never an output *)
(*   ArcDirect/ArcPosition : s12 is the fourth output                       *)
(*   R* : Rhumb::Direct, Rhumb::Inverse, RhumbLine::Position                *)
(***************************************************************************)
OvSolverFamilies == {"Direct", "ArcDirect", "Inverse"}
OvLineFamilies == {"Position", "ArcPosition"}
OvRhumbFamilies == {"RDirect", "RInverse", "RPosition"}
OvFamilies == OvSolverFamilies \cup OvLineFamilies \cup OvRhumbFamilies
OvArities(fam) ==
  CASE fam \in {"Direct", "Position"} -> 2..7
    [] fam \in {"ArcDirect", "ArcPosition"} -> 2..8
    [] fam = "Inverse" -> 1..7
    [] fam \in OvRhumbFamilies -> 2..3
OverloadOut(fam, n) ==
  CASE fam \in {"Direct", "Position"} ->
         (CASE n = 2 -> {LAT, LON}
            [] n = 3 -> {LAT, LON, AZI}
            [] n = 4 -> {LAT, LON, AZI, REDLEN}
            [] n = 5 -> {LAT, LON, AZI, SCALE}
            [] n = 6 -> {LAT, LON, AZI, REDLEN, SCALE}
            [] n = 7 -> {LAT, LON, AZI, REDLEN, SCALE, AREA})
    [] fam \in {"ArcDirect", "ArcPosition"} ->
         (CASE n = 2 -> {LAT, LON}
            [] n = 3 -> {LAT, LON, AZI}
            [] n = 4 -> {LAT, LON, AZI, DIST}
            [] n = 5 -> {LAT, LON, AZI, DIST, REDLEN}
            [] n = 6 -> {LAT, LON, AZI, DIST, SCALE}
            [] n = 7 -> {LAT, LON, AZI, DIST, REDLEN, SCALE}
            [] n = 8 -> {LAT, LON, AZI, DIST, REDLEN, SCALE, AREA})
    [] fam = "Inverse" ->
         (CASE n = 1 -> {DIST}
            [] n = 2 -> {AZI}
            [] n = 3 -> {DIST, AZI}
            [] n = 4 -> {DIST, AZI, REDLEN}
            [] n = 5 -> {DIST, AZI, SCALE}
            [] n = 6 -> {DIST, AZI, REDLEN, SCALE}
            [] n = 7 -> {DIST, AZI, REDLEN, SCALE, AREA})
    [] fam \in {"RDirect", "RPosition"} -> (CASE n = 2 -> {LAT, LON} [] n = 3 -> {LAT, LON, AREA})
    [] fam = "RInverse" -> (CASE n = 2 -> {DIST, AZI} [] n = 3 -> {DIST, AZI, AREA})
\* number of output arguments that carry the quantities S
ArgCount(fam, S) == Cardinality(S) + (IF SCALE \in S THEN 1 ELSE 0) + (IF fam = "Inverse" /\ AZI \in S THEN 1 ELSE 0)
OvArcmode(fam) == fam \in {"ArcDirect", "ArcPosition"}
\* Direct, Inverse and Position return the arc length a12; the others return nothing
OvReturns(fam) == fam \in {"Direct", "Inverse", "Position"}
\* everything the general routine behind the family can write
OvGeneral(fam) ==
  CASE fam \in {"Direct", "ArcDirect", "Position", "ArcPosition"} -> GenDirectWritten(Bits)
    [] fam = "Inverse" -> GenInverseWritten(Bits)
    [] fam \in {"RDirect", "RPosition"} -> RhumbDirectWritten(Bits)
    [] fam = "RInverse" -> RhumbInverseWritten(Bits)
\* <<returns a number, written set>> of overload (fam, n); for the line families on a line made by Line(caps)
OverloadWritten(fam, n, caps) ==
  IF fam \in OvLineFamilies THEN Position(CapsOf("line", caps), OvArcmode(fam), OverloadOut(fam, n))
  ELSE <<TRUE, OverloadOut(fam, n)>>
=============================================================================
