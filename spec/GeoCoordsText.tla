----------------------------- MODULE GeoCoordsText -----------------------------
(***************************************************************************)
(* GeoCoords::Reset(string) (property C10), written from GeoCoords.hpp and  *)
(* the GeoConvert man page: the string is broken into space or comma        *)
(* separated pieces; 1 piece is an MGRS reference, 2 pieces are latitude    *)
(* and longitude (DMS::DecodeLatLon, longitudes reduced to [-180, 180]),    *)
(* 3 pieces are "Zone Easting Northing" or "Easting Northing Zone"; anything *)
(* else is malformed.  Zone strings and the legal coordinate rectangles come *)
(* from UTMUPS.tla (property C04).                                           *)
(***************************************************************************)
EXTENDS DMS

UT == INSTANCE UTMUPS

IsSep(c) == c \in {9, 10, 11, 12, 13, 32, 44}                  \* white space and comma
IsAlpha(c) == (c >= 65 /\ c <= 90) \/ (c >= 97 /\ c <= 122)

RECURSIVE TokScan(_, _, _, _)
\* i: position, st: start of the current token (0 = between tokens)
TokScan(s, i, st, acc) ==
  IF i > Len(s) THEN (IF st = 0 THEN acc ELSE Append(acc, SubSeq(s, st, Len(s))))
  ELSE IF IsSep(s[i]) THEN TokScan(s, i + 1, 0, IF st = 0 THEN acc ELSE Append(acc, SubSeq(s, st, i - 1)))
  ELSE TokScan(s, i + 1, IF st = 0 THEN i ELSE st, acc)
Tokens(s) == TokScan(s, 1, 0, <<>>)

\* longitude reduced to [-180, 180]: <<"az", neg, D, R, exact, half, big>>; big: magnitude before the reduction too
\* large for a double to resolve units
Reduce180(r) ==
  IF r[6] \/ r[3] >= 1048576 THEN <<"az", FALSE, 0, 0, FALSE, FALSE, TRUE>>
  ELSE LET Dm == r[3] % 360
           over == Dm > 180 \/ (Dm = 180 /\ r[4] > 0)
           D2 == IF ~over THEN Dm ELSE IF r[4] = 0 THEN 360 - Dm ELSE 359 - Dm
           R2 == IF ~over \/ r[4] = 0 THEN r[4] ELSE U - r[4]
       IN <<"az", IF over THEN ~r[2] ELSE r[2], D2, R2, r[5], D2 = 180 /\ R2 = 0, FALSE>>

\* observed longitude (class, sign, quantised magnitude) against the reduced expectation
LonMatch(x, c, n, q, np, tolulp) ==
  /\ c = 0
  /\ \/ x[7]
     \/ x[5] /\ q = <<x[3], x[4]>> /\ (x[6] \/ (x[3] = 0 /\ x[4] = 0) \/ n = x[2])
     \/ ~x[5] /\ LET dD == q[1] - x[3]  e == dD * U + (q[2] - x[4]) IN dD <= 1 /\ dD >= -1 /\ e <= 2 * np + 1 /\ -e <= 2 * np + 1

SigLenN(M) == Len(DigitsOf(M))
\* a decimal number as nanometre limbs <<floor(metres), nanometres>>; <<>> when not representable here, <<0, 0, 0>> when
\* its magnitude is 10^9 m or more
NmLimbs(v) ==
  LET neg == v[2]  M == v[3]  E == v[4] IN
  IF ~v[5] \/ E < -9 \/ E > 9 THEN <<>>
  ELSE IF M = 0 THEN <<0, 0>>
  ELSE IF E >= 0 THEN (IF SigLenN(M) + E > 9 THEN <<0, 0, 0>> ELSE (IF neg THEN <<-(M * Pow10(E)), 0>> ELSE <<M * Pow10(E), 0>>))
  ELSE LET m == M \div Pow10(-E)
           f == (M % Pow10(-E)) * Pow10(9 + E)
       IN IF ~neg THEN <<m, f>> ELSE IF f = 0 THEN <<-m, 0>> ELSE <<-m - 1, 1000000000 - f>>

\* the examples of GeoCoords.hpp (centre / south-west corner of the square)
MGRSDoc(t, centerp) ==
  LET u == UpperS(t) IN
  CASE u = <<51, 56, 83, 77, 66>> -> <<"mgrs", 38, TRUE, <<IF centerp THEN 450000 ELSE 400000, 0>>, <<IF centerp THEN 3650000 ELSE 3600000, 0>> >>
    [] u = <<51, 56, 83, 77, 66, 52, 52, 56, 52>> -> <<"mgrs", 38, TRUE, <<IF centerp THEN 444500 ELSE 444000, 0>>, <<IF centerp THEN 3684500 ELSE 3684000, 0>> >>
    [] u = <<51, 56, 83, 77, 66, 52, 52, 49, 52, 56, 52, 55, 48>> -> <<"mgrs", 38, TRUE, <<IF centerp THEN 444145 ELSE 444140, 0>>, <<IF centerp THEN 3684705 ELSE 3684700, 0>> >>
    [] Len(u) >= 3 /\ SubSeq(u, 1, 3) = <<73, 78, 86>> -> <<"nanpos">>
    [] Len(u) >= 1 /\ ~IsDigit(u[1]) /\ ~IsAlpha(u[1]) -> <<"throw">>          \* neither a zone number nor a letter
    [] OTHER -> <<"any">>                                                          \* the business of C05

(* Reset(s, centerp, longfirst):                                                                     *)
(*  <<"throw">>, <<"any">> (not decided here), <<"nanpos">>,                                         *)
(*  <<"geo", lat, lon reduced, pieces, mixed>>, <<"mgrs", zone, northp, x, y>> or                    *)
(*  <<"utm", zone, northp, x, y, kept>>: kept = FALSE when the northing lies across the equator      *)
(*  from the stated hemisphere: rule HemisphereCanonical admits the position as given or the same    *)
(*  point expressed in the hemisphere of its latitude (northing shifted by 10000 km).                *)
Reset(s, centerp, longfirst) ==
  LET tk == Tokens(s)  n == Len(tk) IN
  CASE n = 1 -> MGRSDoc(tk[1], centerp)
    [] n = 2 ->
         LET x == DecodeLatLon(tk[1], tk[2], longfirst) IN
         IF x[1] = "throw" THEN <<"throw">>
         ELSE IF x[1] = "edge" \/ x[2][1] = "sp" \/ x[3][1] = "sp" THEN <<"any">>
         ELSE <<"geo", x[2], Reduce180(x[3]), NPieces(tk[1]) + NPieces(tk[2]), x[2][9] \/ x[3][9]>>
    [] n = 3 ->
         LET zfirst == IsAlpha(tk[1][Len(tk[1])])
             zlast == IsAlpha(tk[3][Len(tk[3])])
         IN IF ~zfirst /\ ~zlast THEN <<"throw">>
            ELSE
              LET z == UT!DecodeZone(IF zfirst THEN tk[1] ELSE tk[3])
                  ve == Val(IF zfirst THEN tk[2] ELSE tk[1])
                  vn == Val(IF zfirst THEN tk[3] ELSE tk[2])
              IN IF z[1] = "throw" \/ ve[1] = "throw" \/ vn[1] = "throw" THEN <<"throw">>
                 ELSE IF z[2] = UT!INVALID \/ ve[1] = "sp" \/ vn[1] = "sp" THEN <<"any">>
                 ELSE LET X == NmLimbs(ve)  Y == NmLimbs(vn) IN
                      IF X = <<>> \/ Y = <<>> THEN <<"any">>
                      ELSE IF Len(X) = 3 \/ Len(Y) = 3 THEN <<"throw">>                \* beyond 10^9 m
                      ELSE IF UT!RectClass(z[2] # 0, z[3], FALSE, X, Y, 0) # "in" THEN <<"throw">>
                      ELSE LET across == z[2] # 0 /\ ((z[3] /\ Y[1] < 0) \/ (~z[3] /\ (Y[1] > 10000000 \/ (Y[1] = 10000000 /\ Y[2] > 0))))
                           IN <<"utm", z[2], z[3], X, Y, ~across>>
    [] OTHER -> <<"throw">>

(* UTM/UPS string of a position on a quarter-unit lattice: the coordinates are E4/4 and N4/4 units, the unit   *)
(* being 10^-prec metres; "zone designator, easting, northing" with prec digits after the point (prec > 0)     *)
(* or rounded to the unit and written out in metres (prec <= 0).  A coordinate half way between two units      *)
(* may go either way.  The result is the set of admissible strings.                                             *)
RoundQ(c4) == IF c4 % 4 = 2 THEN {c4 \div 4, c4 \div 4 + 1} ELSE IF c4 % 4 = 3 THEN {c4 \div 4 + 1} ELSE {c4 \div 4}
CoordStr(c, prec) ==
  IF prec > 0 THEN DigitsOf(c \div Pow10(prec)) \o <<46>> \o Pad(DigitsOf(c % Pow10(prec)), prec)
  ELSE DigitsOf(c) \o (IF c = 0 THEN <<>> ELSE [i \in 1..(-prec) |-> 48])
\* a coordinate of either sign (c4 in quarter units, % and \div are floor operations so RoundQ is right for negative
\* counts too); a negative coordinate that rounds to zero may keep its sign (rule NegZero: "-0" names the same number)
CoordStrs(c4, prec) ==
  UNION {IF c > 0 THEN {CoordStr(c, prec)}
         ELSE IF c < 0 THEN {<<45>> \o CoordStr(-c, prec)}
         ELSE IF c4 < 0 THEN {CoordStr(0, prec), <<45>> \o CoordStr(0, prec)} ELSE {CoordStr(0, prec)} : c \in RoundQ(c4)}
UTMUPSStrQ(zone, northp, abbrev, E4, N4, prec) ==
  LET z == UT!EncodeZone(zone, northp, abbrev) IN
  {z[2] \o <<32>> \o e \o <<32>> \o n : e \in CoordStrs(E4, prec), n \in CoordStrs(N4, prec)}

(* GeoCoords.hpp, UTMUPSRepresentation(northp, prec, abbrev) / AltUTMUPSRepresentation(northp, ...): "UTM/UPS string *)
(* with hemisphere override": the same point of a UTM zone written in the convention of hemisphere np2 - the false   *)
(* northing of the southern hemisphere is 10 000 km (UTMUPS.hpp, UTMShift), so the northing moves by that much and   *)
(* may become negative (north convention for a southern point) or exceed 10 000 km (the converse).                    *)
ShiftCount(prec) == IF prec > 0 THEN 10000000 * Pow10(prec) ELSE 10000000 \div Pow10(-prec)
OverrideN4(northp, np2, N4, prec) == IF northp = np2 THEN N4 ELSE IF np2 THEN N4 - 4 * ShiftCount(prec) ELSE N4 + 4 * ShiftCount(prec)
UTMUPSStrOverride(zone, northp, np2, abbrev, E4, N4, prec) == UTMUPSStrQ(zone, np2, abbrev, E4, OverrideN4(northp, np2, N4, prec), prec)

(* The undefined position (GeoCoords.hpp: "The default constructor sets the coordinate as undefined"; so does a NaN    *)
(* latitude and longitude).  Its representations: numbers print as nan (Utility::str), the zone as inv (UTMUPS.hpp,     *)
(* EncodeZone: "INVALID ... inv"), the MGRS reference as INVALID (MGRS.hpp: "if lat is NaN ... INVALID"); closure: each *)
(* of them is read back by Reset as an undefined position ("invalid" with the long names: the over-demand of my first   *)
(* version of this law, corrected).  rep: 0 geo 1 dms 2 utm 3 utm, long names 4 mgrs 5 alt utm                            *)
(* 6 alt mgrs 7 utm with hemisphere override.                                                                            *)
W_nan == <<110, 97, 110>>
InvRep(rep) == CASE rep \in {0, 1} -> W_nan \o <<32>> \o W_nan
                 [] rep \in {4, 6} -> <<73, 78, 86, 65, 76, 73, 68>>
                 [] OTHER -> UT!EncodeZone(UT!INVALID, FALSE, rep # 3)[2] \o <<32>> \o W_nan \o <<32>> \o W_nan

(* The family of calls that GeoCoords.hpp declares equivalent to Reset(s, centerp, longfirst): the constructor from  *)
(* a string, and both with trailing arguments left out ("centerp ... (default = true)", "longfirst ... (default      *)
(* false)").  via: 0 Reset(s, c, w)  1 Reset(s, c)  2 Reset(s)  3 GeoCoords(s, c, w)  4 GeoCoords(s, c)  5 GeoCoords(s) *)
DefCenterp == TRUE
DefLongfirst == FALSE
ViaOK(via, c, w) == CASE via \in {0, 3} -> TRUE [] via \in {1, 4} -> w = DefLongfirst [] via \in {2, 5} -> c = DefCenterp /\ w = DefLongfirst [] OTHER -> FALSE
=============================================================================
