INIT Init
NEXT Next
CONSTANTS TolSer = 5000 TolEx = 8000 TolKs = 6000 TolKe = 7000 TolGs = 3438 TolGe = 4011 Ang35 = 35000000
          FDTol = 1000 LatTol = 10000 TolEll = 5000 SingK = 10000
POSTCONDITION Summary
CHECK_DEADLOCK FALSE
