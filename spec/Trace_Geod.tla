---------------------------- MODULE Trace_Geod ----------------------------
(* Validates observations of the geodesic solvers: lattice records (dir,     *)
(* inv, pinv, sp: exact answers on the spheres of radius rk * 180/pi) and law *)
(* records on the ellipsoid families (dl: direct, il: inverse, al: addition,  *)
(* polygon closure, ellipsoid area).  Properties C01, C02, C03.               *)
(* The law name of a rejected record is "geod-<kind>-<first failing group>".  *)
EXTENDS SphereLattice, GeodOverloads, Sequences, TraceKit

CONSTANT Prop        \* "C01", "C02" or "C03": which clauses are judged (each record kind carries all residuals)
VARIABLE l

Max(a, b) == IF a >= b THEN a ELSE b

(* ---------------- lattice: values are <<round(v * 1e6), residual in 1e-12>> pairs ---------------- *)
LatTol == 20                       \* 2e-11 (unit-scale values are reproduced to <= 1e-13)
Q(r, i) == <<r.q[2 * i - 1], r.q[2 * i]>>
Is(p, x) == p[1] = 1000000 * x /\ Abs(p[2]) <= LatTol
IsAzi(p, x) == Is(p, x) \/ (x = 180 /\ Is(p, -180)) \/ (x = -180 /\ Is(p, 180))
\* against an irrational lattice value given as <<micro-units, remainder>>
NormP(q, rr) == LET k == (rr + 500000) \div 1000000 IN <<q + k, rr - 1000000 * k>>
MulP(w, k) == NormP(k * w[1], k * w[2])
LinP(c0, c1) == NormP(1000000 * c0 + c1 * AQ, c1 * AR)
IsP(p, w) == p[1] = w[1] /\ Abs(p[2] - w[2]) <= LatTol
IsLinAzi(p, z) == \E k \in {-360, 0, 360} : IsP(p, LinP(z[1] + k, z[2]))      \* c0 + c1 A reduced to [-180, 180]

\* interfaces of a direct lattice record: 0 GenDirect by arc, 1 by distance, 2 Line + GenPosition by arc, 3 by distance,
\* 4 DirectLine, 5 ArcDirectLine, 6 GenDirectLine, 7 Line + SetDistance / SetArc (4..7: evaluated at the third point, and the
\* line reports Distance() = rk a and Arc() = a).  On the sphere of radius rk * 180/pi: s12 (m) = rk a12 (deg).
DirOK(r) ==
  LET d == Direct(r.inc, r.s1, r.a) IN
  /\ r.rng /\ r.rk \in Radii /\ r.itf \in 0..7 /\ r.k \in 0..2
  /\ Is(Q(r, 1), d.lat2)
  /\ \E e \in d.ends :
       /\ Is(Q(r, 3), e[1])                                           \* unrolled lon2 - lon1: number and sense of circuits
       /\ (IsAzi(Q(r, 4), e[2]) \/ (d.lat2 \in {90, -90} /\ FALSE))
       /\ LET w == Norm180(r.lon1 + e[1]) IN IsAzi(Q(r, 2), w)          \* wrapped longitude in [-180, 180]
  /\ Is(Q(r, 5), r.rk * r.a) /\ Is(Q(r, 6), r.a)                        \* s12 = rk a12 metres, a12 degrees, whatever was given
  /\ (IF r.itf >= 4 THEN Len(r.q) = 24 /\ Is(Q(r, 11), r.rk * r.a) /\ Is(Q(r, 12), r.a) ELSE Len(r.q) = 20)
  /\ (Prop = "C03" =>
        /\ (d.m2 # 99 => Is(Q(r, 7), r.rk * d.m2))
        /\ (d.M2 # 99 => Is(Q(r, 8), d.M2) /\ Is(Q(r, 9), d.M2))
        /\ (d.S12 # {} => \E x \in d.S12 : Is(Q(r, 10), r.rk * r.rk * x)))

InvOK(r) ==
  LET i == Inverse(r.inc, r.s1, r.s2) IN
  /\ r.rng /\ r.hit /\ r.rk \in Radii
  /\ Is(Q(r, 1), i.a12) /\ Is(Q(r, 2), r.rk * i.a12)                  \* a12 / Arc() in degrees, s12 / Distance() in metres
  /\ (i.unique /\ r.full => IsAzi(Q(r, 3), i.azi1) /\ IsAzi(Q(r, 4), i.azi2))
  /\ (i.unique /\ ~r.full => IsAzi(Q(r, 3), i.azi1))
  /\ (Prop = "C03" /\ r.full =>
        /\ (i.m2 # 99 => Is(Q(r, 5), r.rk * i.m2))
        /\ (i.M2 # 99 => Is(Q(r, 6), i.M2) /\ Is(Q(r, 7), i.M2))
        /\ (i.unique /\ i.S12 # {} => \E x \in i.S12 : Is(Q(r, 8), r.rk * r.rk * x)))

PinvOK(r) ==
  LET p == PoleInverse(r.pole, r.L, r.lat, r.lon, r.first) IN
  /\ r.rng /\ r.hit /\ r.rk \in Radii
  /\ Is(Q(r, 1), p.a12) /\ Is(Q(r, 2), r.rk * p.a12)
  /\ IsAzi(Q(r, 3), p.azi1) /\ (r.full => IsAzi(Q(r, 4), p.azi2))

\* lat2 = +-lat1 with a longitude difference of 90 degrees: the geodesic is unique, both azimuths are determined
SpOK(r) ==
  LET i == SameParallel(r.lat, r.mirror, r.dl) IN
  /\ r.rng /\ r.hit /\ r.rk \in Radii
  /\ Is(Q(r, 1), i.a12) /\ Is(Q(r, 2), r.rk * i.a12)
  /\ IsLinAzi(Q(r, 3), i.azi1) /\ (r.full => IsLinAzi(Q(r, 4), i.azi2))
  /\ (Prop = "C03" /\ r.full =>
        /\ IsP(Q(r, 5), MulP(i.m2, r.rk)) /\ Is(Q(r, 6), i.M2) /\ Is(Q(r, 7), i.M2)
        /\ IsP(Q(r, 8), LinP(r.rk * r.rk * i.S12[1], r.rk * r.rk * i.S12[2])))

(* ---------------- laws: tolerances from the documentation ---------------- *)
\* fi: 0: f = 0; 1, 2: +-1/298; 3, 4: +-1/150; 5, 6: +-0.01; 7, 8: +-0.02; 9, 10: +-0.05; 11, 12: +-0.1   (index = fi + 1)
\*     13: b/a = bq[1] / bq[2], exact solver only
\* Documented accuracy of the series solver (nm at WGS84 size; Geodesic.hpp: 15 nm on WGS84, table 25 nm at |f| = 0.01, 30 nm at
\* 0.02; beyond that the "approximate maximum error" table 10 um at 0.05, 1.5 mm at 0.1 with the factor 4 of DESIGN section 4)
Series == <<15, 15, 15, 20, 20, 25, 25, 30, 30, 40000, 40000, 6000000, 6000000>>
Exact == 40
\* GeodesicExact.hpp: "If the quarter meridian distance is 10000 km and the ratio b/a = 1 - f is varied then the approximate
\* maximum error (expressed as a distance) is" 387 nm at 1/128 ... 15 at 1 ... 19024 at 128 (b/a = 2^-7 .. 2^7).  A ratio between
\* two table entries takes the entry further from 1; the same factor 4 for "approximate maximum" tables; within 2 % of the
\* sphere the 40 nm of the prose.  Lengths are scaled to a quarter meridian of 10 000 km by the driver.
ExTab == <<387, 345, 269, 210, 115, 69, 36, 15, 25, 96, 318, 985, 2352, 6008, 19024>>
RECURSIVE Lg(_, _, _)
Lg(p, q, k) == IF p * (2 ^ k) >= q \/ k >= 7 THEN k ELSE Lg(p, q, k + 1)        \* smallest k with p 2^k >= q
ExactDoc(p, q) == IF p <= q THEN ExTab[8 - Lg(p, q, 0)] ELSE ExTab[8 + Lg(q, p, 0)]
\* Rule ExtremeMemberFactor: the table is an "approximate maximum error"; for the extreme members of the family
\* (b/a >= 64 or b/a <= 1/64) the factor is 8 instead of 4.  (Decided by the ellipsoid alone.  Seen in the thorough tier, clang build:
\* a sub-centimetre line at the tip of the needle b/a = 64 whose distance differs from that of its mirror image by 4.5 x the table.)
ExtremeMember(p, q) == 64 * p <= q \/ 64 * q <= p
TableFactor(p, q) == IF ExtremeMember(p, q) THEN 8 ELSE 4
ExNm(r) == IF r.fi # 13 THEN Exact
           ELSE IF 50 * r.bq[1] >= 49 * r.bq[2] /\ 50 * r.bq[2] >= 49 * r.bq[1] THEN Exact
           ELSE TableFactor(r.bq[1], r.bq[2]) * ExactDoc(r.bq[1], r.bq[2])
SerNm(r) == Series[r.fi + 1]
HasSeries(r) == r.fi <= 12                    \* the series solver has a documented accuracy on this ellipsoid
Circ(r) == 1 + r.circ                         \* errors accumulate with the number of circuits
TolSE(fi) == Series[fi + 1] + Exact           \* two independent solvers: each is allowed its own error
TolSS(fi) == 2 * Series[fi + 1]               \* two evaluations by the series solver
TolEE == 2 * Exact
SE(r) == SerNm(r) + ExNm(r)
SS(r) == 2 * SerNm(r)
EE(r) == 2 * ExNm(r)
\* azimuths as 3-D unit tangents (1e-15): max(1e-13, position tolerance / a)
TanTol(nm) == IF nm > 2000000 THEN 2000000000 ELSE 100 + (nm * 1000) \div 6
\* on a prolate ellipsoid of the exact-only family the smallest radius of curvature is a^2 / b: the same with a (a / b) for a
TanTolR(nm, r) ==
  LET k == IF r.fi = 13 /\ r.bq[1] > r.bq[2] THEN (r.bq[1] + r.bq[2] - 1) \div r.bq[2] ELSE 1
  IN IF nm > 2000000 \div k THEN 2000000000 ELSE TanTol(nm * k)
\* Area under a geodesic (units 1e-4 m^2).  Base: 0.1 m^2, the documented area accuracy per edge (PolygonArea.hpp; GeodesicExact:
\* "full double precision accuracy" of the area for b/a in [0.01, 100], i.e. 2e-16 of the ellipsoid's area, scaled by the driver).
\* S12 depends on the end points through longitude/azimuth differences times c2 ~ a^2; a position error of p nm at
\* latitude phi moves the longitude by p/(a cos phi), i.e. S12 by about 6.3e-3 p / cos(phi) m^2: the area obligation is
\* stated at the position accuracy, so this conditioning term is added (cmin = cos of the highest end latitude, 1e-6).
\* Within 0.06 degree of a pole (cmin < 1e-3) the longitude itself is ill-defined at this accuracy: no area obligation.
AreaTolAt0(nm, cmin) == 1000 + (63 * nm * 1000) \div (cmin \div 1000)
AreaTol == 1000
\* the same with the conditioning evaluated on the ellipsoid at hand: dS12 = q(phi) dlambda, dlambda = p / (N cos(phi)); the
\* driver logs kq = q / (N cos(phi)) in the units of the record (64 tan(phi) on WGS84); no obligation when kq > 20000
AreaTolK(nm, kq) == 1000 + kq * nm
AreaOKK(v, nm, kq) == kq > 20000 \/ nm > 100000 \/ v <= AreaTolK(nm, kq)
\* the accuracy of the series expansions is documented for |f| <= 0.01 (table in Geodesic.hpp is a distance table; for
\* |f| = 0.02 the 6th-order area series has no documented bound): area obligations OF THE SERIES SOLVER are stated for fi <= 6
AreaOK(v, nm, r) == r.cmin < 1000 \/ r.fi > 6 \/ v <= AreaTolAt0(nm, r.cmin)
\* inverse problem: the azimuths at the end points are determined to (position error) / m12, and S12 ~ c2 (azi2 - azi1):
\* an additional 4e13 m^2 x nm x 1e-9 / m12 (no obligation when |m12| < 1 km on a LONG line, i.e. next to a conjugate point).
\* On a line shorter than 1 km S12 is q(phi) (lon2 - lon1) to first order and is as well conditioned as the longitudes.
AreaOKInv(v, nm, r) ==
  \/ r.cmin < 1000 \/ r.fi > 6
  \/ IF r.s12m < 1000 THEN v <= AreaTolAt0(nm, r.cmin)
     ELSE r.m12m < 1000 \/ v <= AreaTolAt0(nm, r.cmin) + (400000 * nm) \div (r.m12m \div 1000)
ScaleTol == 1000                              \* 1e-12: geodesic scales M12, M21
OvlTol == 100                                 \* 1e-13 (relative): the same quantity through another overload / output mask
UlpTol == 1                                   \* the same call through another entry point: bit for bit (1 ulp allowed)
\* a length whose sensitivity to the end point is mx = max(1, |M12|, |M21|) (d m12 / d s2 = M21): t mx, without overflow
LenTol(t, mx) == IF mx > 1000 \/ t > 1000000 THEN 2000000000 ELSE t * mx

(* ---------------- overload agreement (GeodOverloads) ---------------- *)
RowTab == [f \in Families |-> [n \in 1..8 |-> {w \in Rows : w[1] = f /\ w[2] = n}]]
\* entries [cls, fam, arity, sig, dpM, dmM, dpA, dmA]; fams: the families this record exercises
OvOK(ov, fams) ==
  /\ {<<x[1], x[2], x[3]>> : x \in {ov[k] : k \in 1..Len(ov)}} = {<<c, w[1], w[2]>> : c \in Classes, w \in {y \in Rows : y[1] \in fams}}
  /\ Len(ov) = Cardinality(Classes) * Cardinality({y \in Rows : y[1] \in fams})
  /\ \A k \in 1..Len(ov) :
       LET x == ov[k]  ws == RowTab[x[2]][x[3]] IN
       /\ \E w \in ws : x[4] = Sig(w[1], w[3])          \* the C++ signature has exactly the documented outputs
       /\ x[5] <= UlpTol /\ x[7] <= OvlTol              \* lat2, lon2, azi2, s12 (azi1, azi2, s12) and the returned a12
       /\ (Prop = "C03" => x[6] <= UlpTol /\ x[8] <= OvlTol)      \* m12, M12, M21, S12
\* constructor forms [cls, form, d given (ulp), d other (1e-15), position at the third point (ulp), via the other measure (nm)]
CtOK(ct, arc, r) ==
  /\ {<<x[1], x[2]>> : x \in {ct[k] : k \in 1..Len(ct)}} = {<<c, w[1]>> : c \in Classes, w \in FormsOf(arc)}
  /\ \A k \in 1..Len(ct) :
       LET x == ct[k] IN
       /\ x[3] <= UlpTol /\ x[4] <= OvlTol /\ x[5] <= UlpTol
       /\ (IF x[1] = 0 THEN (HasSeries(r) => x[6] <= SS(r) * Circ(r)) ELSE x[6] <= EE(r) * Circ(r))
OvPresent(r) == r.id % 4 = 0 => Has(r, "ov")

(* ---------------- direct problem ---------------- *)
DlRange(r) == r.rng
\* L1: series = exact = series line; chain, arc <-> distance, Clairaut for the series solver
DlSeries(r) ==
  LET c == Circ(r)  se == SE(r) * c  ss == SS(r) * c IN
  HasSeries(r) =>
  /\ r.pos[1] <= se /\ r.pos[3] <= ss
  /\ r.tan[1] <= TanTol(se) /\ r.tan[3] <= TanTol(ss)
  /\ r.sa[1] <= se /\ r.sa[3] <= ss
  /\ r.sa[2] <= 10 * se /\ r.sa[4] <= 10 * ss           \* arc length: 1e-13 deg ~ 0.011 nm
  \* unrolled longitude: congruent to the wrapped one; every configuration counts the same circuits
  /\ r.unr[1] <= 1000 /\ r.unr[2] <= 100000 /\ r.unr[3] <= 100000 /\ r.unr[4] <= 100000
  \* L3 chain along the line
  /\ (r.chain[1] = 1 => r.chain[2] <= 10 * ss) /\ r.chain[3] <= ss
  \* L4 arc <-> distance
  /\ r.ad[1] <= ss /\ r.ad[2] <= 10 * ss
  \* L6 Clairaut's relation holds for the returned azimuths
  /\ r.clr[1] <= TanTol(ss)
  /\ r.lin[1][1] <= ss /\ r.lin[1][2] <= TanTol(ss) /\ r.lin[1][3] <= ss /\ r.lin[1][4] <= 10 * ss /\ r.lin[1][5] <= 100000
\* the exact solver by itself, on every ellipsoid of its documented range: exact=true and both line objects agree with it,
\* arc <-> distance, chain, Clairaut, congruent unrolled longitude
DlExact(r) ==
  LET c == Circ(r)  ee == EE(r) * c IN
  /\ r.pos[2] <= ee /\ r.tan[2] <= TanTolR(ee, r)
  /\ \A k \in 1..Len(r.x2) : r.x2[k] <= UlpTol                      \* exact=true IS the exact solver: every output
  /\ \A k \in 2..3 : r.lin[k][1] <= ee /\ r.lin[k][2] <= TanTolR(ee, r) /\ r.lin[k][3] <= ee /\ r.lin[k][4] <= 10 * ee /\ r.lin[k][5] <= 100000
  /\ r.ex[3] <= ee /\ (r.fi # 13 /\ r.ex[1] = 1 => r.ex[2] <= 10 * ee)      \* chain
  /\ r.ex[4] <= ee /\ r.ex[5] <= 10 * ee                                \* arc <-> distance
  /\ r.ex[6] <= ee                                                      \* there and back
  /\ r.clr[2] <= TanTolR(ee, r)
  /\ r.unr[5] <= 1000
  \* anchors on the walk: quarter meridian to the pole, half meridian to the opposite equator, and the inverse problem
  \* equator -> pole (the quarter meridian is evaluated by the driver with the AGM)
  /\ (Has(r, "anc") => r.anc[1] <= EE(r) /\ r.anc[2] <= EE(r) /\ r.anc[4] <= EE(r))
\* the definition of S12 by quadrature: [S12 exact - I, I(2P) - I(P), S12 series - I, S12 exact=true line - I, cos(beta) min on
\* the path, kq, |sin(alpha0)|]: stated when the path keeps clear of the poles (a meridional passage changes the longitude by 180)
PoleFree(ad) == ad[5] >= 1000 /\ (ad[7] >= 1000 \/ ad[5] >= 50000)
DlAreaDef(r) ==
  Has(r, "adef") /\ PoleFree(r.adef) /\ r.adef[2] <= 100000 /\ r.adef[6] <= 20000 =>
    LET ee == EE(r) * Circ(r)  se == SE(r) * Circ(r) IN
    /\ (ee <= 100000 => r.adef[1] <= AreaTolK(ee, r.adef[6]) + 10 * r.adef[2] /\ r.adef[4] <= AreaTolK(ee, r.adef[6]) + 10 * r.adef[2])
    /\ (r.fi <= 6 => r.adef[3] <= AreaTolK(se, r.adef[6]) + 10 * r.adef[2])
DlC03(r) ==
  LET c == Circ(r)  se == SE(r) * c  ss == SS(r) * c  ee == EE(r) * c IN
  /\ (HasSeries(r) => r.mm[1] <= se /\ r.mm[5] <= ss /\ r.back[1] <= ss /\ r.back[2] <= ss /\ r.lin[1][6] <= ss)
  /\ (r.fi <= 8 =>
        /\ r.mm[2] <= ScaleTol * c /\ r.mm[3] <= ScaleTol * c
        \* series vs exact area: stated where the series accuracy is documented (|f| <= 0.01)
        /\ AreaOK(r.mm[4], se, r)
        /\ r.mm[6] <= ScaleTol * c /\ r.mm[7] <= ScaleTol * c /\ AreaOK(r.mm[8], ss, r)
        \* reversal: m12 negated by travelling backwards, M12 and M21 exchanged, S12 negated
        /\ r.back[3] <= ScaleTol * c /\ r.back[4] <= ScaleTol * c /\ AreaOK(r.back[5], ss, r)
        /\ r.ex[8] <= ScaleTol * c /\ r.ex[9] <= ScaleTol * c
        /\ \A k \in 1..3 : r.lin[k][7] <= ScaleTol * c /\ r.lin[k][8] <= ScaleTol * c)
  \* the exact solver: reversal of m12 (conditioning d m12 / d s2 = M21) and of S12, line = solver, on every ellipsoid
  /\ r.ex[7] <= LenTol(ee, r.mx)
  /\ (r.cmin >= 1000 => AreaOKK(r.ex[10], ee, r.kq))
  /\ \A k \in 2..3 : r.lin[k][6] <= LenTol(ee, r.mx) /\ (r.cmin >= 1000 => AreaOKK(r.lin[k][9], ee, r.kq))
  /\ (r.fi <= 6 /\ r.cmin >= 1000 => AreaOKK(r.lin[1][9], ss, r.kq))
  /\ DlAreaDef(r)
  \* a call that requests only some of m12, M12, M21, S12 through the output mask returns what the full call returns
  /\ \A k \in 1..Len(r.ovl) : r.ovl[k] <= OvlTol
  /\ (Has(r, "area") => \A k \in 1..Len(r.area) : r.area[k] <= 100)      \* closed-form ellipsoid area on the walk
\* anchor on the walk: along the equator lon2 - lon1 = s12 / a
DlAnchorEq(r) == Has(r, "anc") => r.anc[3] <= EE(r)
DlOverload(r) ==
  /\ OvPresent(r)
  /\ (Has(r, "ov") => OvOK(r.ov, IF r.arc THEN {2, 5} ELSE {1, 4}) /\ Has(r, "ct") /\ CtOK(r.ct, r.arc, r))
DlLaw(r) ==
  IF ~DlRange(r) THEN "range" ELSE IF ~DlSeries(r) THEN "series" ELSE IF ~DlExact(r) THEN "exact"
  ELSE IF ~DlOverload(r) THEN "overload" ELSE IF Prop = "C03" /\ ~DlC03(r) THEN "c03"
  ELSE IF ~DlAnchorEq(r) THEN "anchor-eq" ELSE "ok"

(* ---------------- inverse problem ---------------- *)
\* the inverse problem is well conditioned for azimuths: not (nearly) coincident, antipodal or polar-antipodal
\* (catalogue in Geodesic.hpp: lat1 = -lat2 with azi1 # azi2, and lon2 = lon1 +- 180 with azi1 not 0/180, have two solutions)
\* cls 3: separations down to 1e-15 degree; 4: nearly antipodal; 6, 7: antipodal / both poles; 8: coincident;
\* 15, 16: (nearly) equatorial pairs around the break-away longitude 180 (1 - f), nearly antipodal for small f; 17: astroid region
Conditioned(r) ==
  /\ r.cls \notin {3, 4, 6, 7, 8, 15, 16, 17} /\ r.deg[3] >= 1000000       \* at least 1 mm apart
  /\ (r.deg[1] = 0 => r.eqaz) /\ (r.deg[2] = 0 => r.meraz)
\* closure does not need a unique answer: whichever shortest geodesic is returned, following it arrives with the returned azimuth
CondClosure(r) == r.cls \notin {3, 8} /\ r.deg[3] >= 1000000
\* azimuth of a line of length s12 between points known to p nm: p / s12 radians (1e-15 units), added for short lines
ShortTerm(nm, s12nm) ==
  IF s12nm >= 2000000000 THEN 0
  ELSE IF nm > 2000000 THEN 2000000000
  ELSE LET mm == s12nm \div 1000000
           q2 == ((nm + 8) * 1000) \div mm
           q == IF nm <= 2000 THEN ((nm + 8) * 1000000) \div mm ELSE IF q2 > 1000 THEN 2000000 ELSE q2 * 1000
       IN IF q > 1000000 THEN 2000000000 ELSE q * 1000
\* (deg[3] saturates at 2 m; on the exact-only family, where p is hundreds of nm, the same term continues with the length in metres)
ShortTermM(nm, m) ==
  IF m < 1 \/ nm > 2000000 THEN 2000000000
  ELSE LET q2 == ((nm + 8) * 1000) \div m IN
       IF nm <= 2000 THEN ((nm + 8) * 1000000) \div m ELSE IF q2 > 1000000 THEN 2000000000 ELSE q2 * 1000
TanTolS(nm, r) ==
  LET a == TanTolR(nm, r)
      b == IF r.deg[3] < 2000000000 \/ r.fi # 13 THEN ShortTerm(nm, r.deg[3]) ELSE ShortTermM(nm, r.s12m)
  IN IF a >= 1000000000 \/ b >= 1000000000 THEN 2000000000 ELSE a + b
IlRange(r) == IF HasSeries(r) THEN r.arc ELSE r.arcx
\* I1: following the returned azimuth for the returned distance (clo) or arc length (cla) arrives at point 2 with the returned azimuth
IlClosure(r) ==
  LET ss == SS(r)  ee == EE(r) IN
  /\ (HasSeries(r) => r.clo[1] <= ss /\ r.cla[1] <= ss)
  /\ r.clo[2] <= ee /\ r.clo[3] <= ee /\ r.cla[2] <= ee /\ r.cla[3] <= ee
  /\ (CondClosure(r) => (HasSeries(r) => r.clt[1] <= TanTolS(ss, r)) /\ r.clt[2] <= TanTolS(ee, r) /\ r.clt[3] <= TanTolS(ee, r))
\* shortest: triangle inequality through a third point; symmetric in its end points
\* (third points: a random one, and the poles and the equatorial points of the mid-meridian: the competing routes of the
\* meridional, equatorial and nearly antipodal cases)
IlShortest(r) == r.tri[1] <= 3 * ExNm(r) /\ r.tri[2] <= EE(r) /\ \A k \in 1..Len(r.tri2) : r.tri2[k] <= 3 * ExNm(r)
\* I4: the solvers agree; exact=true IS the exact solver
IlAgree(r) ==
  LET se == SE(r) IN
  /\ (HasSeries(r) => r.agr[1] <= se /\ r.agr[3] <= 10 * se
                      /\ (Conditioned(r) => r.agr[4] <= TanTolS(se, r) /\ r.agr[5] <= TanTolS(se, r)))
  /\ r.agr[2] <= EE(r)
  /\ \A k \in 1..Len(r.x2) : r.x2[k] <= UlpTol
\* I3: every element of the symmetry group (descriptors from GeodSym) changes the outputs as documented
IlSym(r) ==
  LET ee == EE(r) IN
  \A k \in 1..Len(r.sym) :
     LET d == r.sym[k] IN
     /\ d[1] <= ee /\ d[2] <= 10 * ee
     /\ (Conditioned(r) => d[3] <= TanTolS(ee, r) /\ d[4] <= TanTolS(ee, r))
     /\ (Prop = "C03" /\ r.fi <= 8 /\ Conditioned(r) => d[5] <= ee /\ d[6] <= ScaleTol /\ d[7] <= ScaleTol)
     /\ (Prop = "C03" /\ r.fi <= 8 /\ (Conditioned(r) \/ r.s12m < 1000) => AreaOKInv(d[8], ee, r))
\* InverseLine: the line starts with azi1, its third point is point 2: Distance() = s12, Arc() = a12
IlLine(r) ==
  \A k \in 1..3 :
     LET d == r.ln[k]  t == IF k = 1 THEN SS(r) ELSE EE(r) IN
     (k = 1 => HasSeries(r)) =>
       /\ d[1] <= t /\ d[2] <= 10 * t /\ d[4] <= t /\ d[5] <= t
       /\ (CondClosure(r) => d[3] <= TanTolS(t, r))
IlC03(r) ==
  LET se == SE(r)  ss == SS(r)  ee == EE(r) IN
  /\ (r.fi <= 8 /\ Conditioned(r) =>
        /\ r.agr[6] <= se /\ r.agr[7] <= ScaleTol /\ r.agr[8] <= ScaleTol
        /\ r.itf[1] <= ss /\ r.itf[2] <= ScaleTol /\ r.itf[3] <= ScaleTol
        /\ r.itf1[2] <= ScaleTol /\ r.itf1[3] <= ScaleTol)
  /\ (r.fi <= 8 /\ (Conditioned(r) \/ r.s12m < 1000) =>
        /\ AreaOKInv(r.agr[9], se, r) /\ AreaOKInv(r.itf[4], ss, r))
  /\ (Conditioned(r) => r.itf1[1] <= LenTol(ee, r.mx))
  /\ \A k \in 1..Len(r.ovl) : r.ovl[k] <= OvlTol
IlOverload(r) == OvPresent(r) /\ (Has(r, "ov") => OvOK(r.ov, {3}))
IlLaw(r) ==
  IF ~IlRange(r) THEN "range" ELSE IF ~IlClosure(r) THEN "closure" ELSE IF ~IlShortest(r) THEN "shortest"
  ELSE IF ~IlAgree(r) THEN "agree" ELSE IF ~IlSym(r) THEN "sym" ELSE IF ~IlLine(r) THEN "line"
  ELSE IF ~IlOverload(r) THEN "overload" ELSE IF Prop = "C03" /\ ~IlC03(r) THEN "c03" ELSE "ok"

(* ---------------- addition rules, polygon closure, ellipsoid area ---------------- *)
AlOK(r) ==
  \* (on the eccentric ellipsoids of the exact-only family a segment of three quarter meridians can wind several times)
  LET t == (IF r.kind = 0 THEN SS(r) ELSE EE(r)) * (IF r.fi = 13 THEN Circ(r) ELSE 1) IN
  /\ (r.kind = 0 => HasSeries(r))
  /\ r.add[1] <= t /\ r.add[2] <= 10 * t
  /\ r.add[3] <= LenTol(t, r.mx) /\ r.add[4] <= LenTol(10 * t, r.mx) /\ r.add[5] <= LenTol(10 * t, r.mx)       \* (the M rules are stated multiplied by m12, m23: metres)
  /\ (IF r.kind = 0 THEN AreaOK(r.add[6], t, r) ELSE r.cmin < 1000 \/ AreaOKK(r.add[6], t, r.kq))
  /\ (IF r.kind = 0 THEN r.fi > 6 \/ r.poly[1] <= 3 * AreaTol + 3 * AreaTolAt0(t, 200000)
      ELSE IF r.fi <= 6 THEN r.poly[1] <= 3 * AreaTol + 3 * AreaTolAt0(t, 200000) ELSE r.poly[1] <= 3 * AreaTol)
  \* 1e-14 relative: all classes equal the closed-form ellipsoid area (Rhumb only where its series is documented)
  /\ r.area[1] <= 100 /\ r.area[2] <= 100 /\ r.area[4] <= 100 /\ (r.fi <= 8 => r.area[3] <= 100)

LawOf(r) ==
  CASE r.e = "dl" -> DlLaw(r) [] r.e = "il" -> IlLaw(r)
    [] r.e = "dir" -> (IF DirOK(r) THEN "ok" ELSE "lattice")
    [] r.e = "inv" -> (IF InvOK(r) THEN "ok" ELSE "lattice")
    [] r.e = "pinv" -> (IF PinvOK(r) THEN "ok" ELSE "lattice")
    [] r.e = "sp" -> (IF SpOK(r) THEN "ok" ELSE "lattice")
    [] r.e = "al" -> (IF AlOK(r) THEN "ok" ELSE "laws")
    [] OTHER -> "unknown-record"

Expected(r) ==
  CASE r.e = "dir" -> Direct(r.inc, r.s1, r.a)
    [] r.e = "inv" -> Inverse(r.inc, r.s1, r.s2)
    [] r.e = "pinv" -> PoleInverse(r.pole, r.L, r.lat, r.lon, r.first)
    [] r.e = "sp" -> SameParallel(r.lat, r.mirror, r.dl)
    [] OTHER -> <<>>

Init == l = 1 /\ KitInit
Next == /\ l <= NT
        /\ LET law == LawOf(T[l]) IN
           Require(law = "ok", l, (IF T[l].e \in {"dir", "inv", "pinv", "sp"} THEN "geod-" \o T[l].e ELSE "geod-" \o T[l].e \o "-" \o law), Expected(T[l]))
        /\ Consumed(l)
        /\ l' = l + 1
=============================================================================
