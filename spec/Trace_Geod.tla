---------------------------- MODULE Trace_Geod ----------------------------
(* Validates observations of the geodesic solvers: lattice records (dir,     *)
(* inv, pinv: exact integer answers on the unit-degree sphere) and law        *)
(* records on the ellipsoid family (dl: direct, il: inverse, al: addition,    *)
(* polygon closure, ellipsoid area).  Properties C01, C02, C03.               *)
EXTENDS SphereLattice, Sequences, TraceKit

CONSTANT Prop        \* "C01", "C02" or "C03": which clauses are judged (each record kind carries all residuals)
VARIABLE l

(* ---------------- lattice: values are <<round(v * 1e6), residual in 1e-12>> pairs ---------------- *)
LatTol == 20                       \* 2e-11 (unit-scale values are reproduced to <= 1e-13)
Q(r, i) == <<r.q[2 * i - 1], r.q[2 * i]>>
Is(p, x) == p[1] = 1000000 * x /\ Abs(p[2]) <= LatTol
IsAzi(p, x) == Is(p, x) \/ (x = 180 /\ Is(p, -180)) \/ (x = -180 /\ Is(p, 180))
DirOK(r) ==
  LET d == Direct(r.inc, r.s1, r.a)
      arcmode == r.cfg % 3 # 1
  IN /\ r.rng
     /\ Is(Q(r, 1), d.lat2)
     /\ \E e \in d.ends :
          /\ Is(Q(r, 3), e[1])                                           \* unrolled lon2 - lon1: number and sense of circuits
          /\ (IsAzi(Q(r, 4), e[2]) \/ (d.lat2 \in {90, -90} /\ FALSE))
          /\ LET w == Norm180(r.lon1 + e[1]) IN IsAzi(Q(r, 2), w)          \* wrapped longitude in [-180, 180]
     /\ Is(Q(r, 5), r.a) /\ Is(Q(r, 6), r.a)                               \* s12 (m) = a12 (deg) on this sphere
     /\ (Prop = "C03" =>
           /\ (d.m2 # 99 => Is(Q(r, 7), d.m2))
           /\ (d.M2 # 99 => Is(Q(r, 8), d.M2) /\ Is(Q(r, 9), d.M2))
           /\ (d.S12 # {} => \E x \in d.S12 : Is(Q(r, 10), x)))

InvOK(r) ==
  LET i == Inverse(r.inc, r.s1, r.s2) IN
  /\ r.rng /\ r.hit
  /\ Is(Q(r, 1), i.a12) /\ Is(Q(r, 2), i.a12)
  /\ (i.unique /\ r.full => IsAzi(Q(r, 3), i.azi1) /\ IsAzi(Q(r, 4), i.azi2))
  /\ (i.unique /\ ~r.full => IsAzi(Q(r, 3), i.azi1))
  /\ (Prop = "C03" /\ r.full =>
        /\ (i.m2 # 99 => Is(Q(r, 5), i.m2))
        /\ (i.M2 # 99 => Is(Q(r, 6), i.M2) /\ Is(Q(r, 7), i.M2))
        /\ (i.unique /\ i.S12 # {} => \E x \in i.S12 : Is(Q(r, 8), x)))

PinvOK(r) ==
  LET p == PoleInverse(r.pole, r.L, r.lat, r.lon, r.first) IN
  /\ r.rng /\ r.hit
  /\ Is(Q(r, 1), p.a12) /\ Is(Q(r, 2), p.a12)
  /\ IsAzi(Q(r, 3), p.azi1) /\ (r.full => IsAzi(Q(r, 4), p.azi2))

(* ---------------- laws: tolerances from the documentation ---------------- *)
\* fi: 1: f = 0; 2, 3: +-1/298; 4, 5: +-1/150; 6, 7: +-0.01; 8, 9: +-0.02   (index = fi + 1)
\* documented accuracy of the series solver (nm at WGS84 size; Geodesic.hpp accuracy table) and of the exact solver
Series == <<15, 15, 15, 20, 20, 25, 25, 30, 30>>
Exact == 40
TolSE(fi) == Series[fi + 1] + Exact           \* two independent solvers: each is allowed its own error
TolSS(fi) == 2 * Series[fi + 1]               \* two evaluations by the series solver
TolEE == 2 * Exact
Circ(r) == 1 + r.circ                         \* errors accumulate with the number of circuits
\* azimuths as 3-D unit tangents (1e-15): max(1e-13, position tolerance / a)
TanTol(nm) == 100 + (nm * 1000) \div 6
\* Area under a geodesic (units 1e-4 m^2).  Base: 0.1 m^2, the documented area accuracy per edge (PolygonArea.hpp).
\* S12 depends on the end points through longitude/azimuth differences times c2 ~ a^2; a position error of p nm at
\* latitude phi moves the longitude by p/(a cos phi), i.e. S12 by about 6.3e-3 p / cos(phi) m^2: the area obligation is
\* stated at the position accuracy, so this conditioning term is added (cmin = cos of the highest end latitude, 1e-6).
\* Within 0.06 degree of a pole (cmin < 1e-3) the longitude itself is ill-defined at this accuracy: no area obligation.
AreaTolAt0(nm, cmin) == 1000 + (63 * nm * 1000) \div (cmin \div 1000)
AreaTol == 1000
\* the accuracy of the series expansions is documented for |f| <= 0.01 (table in Geodesic.hpp is a distance table; for
\* |f| = 0.02 the 6th-order area series has no documented bound): area obligations are stated for fi <= 6
AreaOK(v, nm, r) == r.cmin < 1000 \/ r.fi > 6 \/ v <= AreaTolAt0(nm, r.cmin)
\* inverse problem: the azimuths at the end points are determined to (position error) / m12, and S12 ~ c2 (azi2 - azi1):
\* an additional 4e13 m^2 x nm x 1e-9 / m12 (no obligation when |m12| < 1 km, i.e. next to a conjugate point)
AreaOKInv(v, nm, r) ==
  r.cmin < 1000 \/ r.fi > 6 \/ r.m12m < 1000 \/ v <= AreaTolAt0(nm, r.cmin) + (400000 * nm) \div (r.m12m \div 1000)
ScaleTol == 1000                              \* 1e-12: geodesic scales M12, M21
OvlTol == 100                                 \* 1e-13 (relative): the same quantity through another overload / output mask

DlOK(r) ==
  LET c == Circ(r)  se == TolSE(r.fi) * c  ss == TolSS(r.fi) * c IN
  /\ r.rng
  \* L1: series = exact = exact(delegating) = line
  /\ r.pos[1] <= se /\ r.pos[2] <= TolEE * c /\ r.pos[3] <= ss
  /\ r.tan[1] <= TanTol(se) /\ r.tan[2] <= TanTol(TolEE * c) /\ r.tan[3] <= TanTol(ss)
  /\ r.sa[1] <= se /\ r.sa[3] <= ss
  /\ r.sa[2] <= 10 * se /\ r.sa[4] <= 10 * ss           \* arc length: 1e-13 deg ~ 0.011 nm
  \* unrolled longitude: congruent to the wrapped one; every configuration counts the same circuits
  /\ r.unr[1] <= 1000 /\ r.unr[2] <= 100000 /\ r.unr[3] <= 100000 /\ r.unr[4] <= 100000
  \* L3 chain along the line
  /\ (r.chain[1] = 1 => r.chain[2] <= 10 * ss) /\ r.chain[3] <= ss
  \* L4 arc <-> distance
  /\ r.ad[1] <= ss /\ r.ad[2] <= 10 * ss
  \* L6 Clairaut's relation holds for the returned azimuths
  /\ r.clr[1] <= TanTol(ss) /\ r.clr[2] <= TanTol(TolEE * c)
  /\ (Prop = "C03" =>
        /\ r.mm[1] <= se /\ r.mm[2] <= ScaleTol * c /\ r.mm[3] <= ScaleTol * c
        \* series vs exact area: stated where the series accuracy is documented (|f| <= 0.01)
        /\ AreaOK(r.mm[4], se, r)
        /\ r.mm[5] <= ss /\ r.mm[6] <= ScaleTol * c /\ r.mm[7] <= ScaleTol * c /\ AreaOK(r.mm[8], ss, r)
        \* reversal: m12 negated by travelling backwards, M12 and M21 exchanged, S12 negated
        /\ r.back[1] <= ss /\ r.back[2] <= ss /\ r.back[3] <= ScaleTol * c /\ r.back[4] <= ScaleTol * c /\ AreaOK(r.back[5], ss, r)
        \* every overload that returns only some of m12, M12, M21, S12 returns what the full call returns (round-off: the same
        \* formulas are evaluated whatever else is requested)
        /\ \A k \in 1..Len(r.ovl) : r.ovl[k] <= OvlTol)

\* the inverse problem is well conditioned for azimuths: not (nearly) coincident, antipodal or polar-antipodal
\* (catalogue in Geodesic.hpp: lat1 = -lat2 with azi1 # azi2, and lon2 = lon1 +- 180 with azi1 not 0/180, have two solutions)
\* cls 3: separations down to 1e-15 degree; 4: nearly antipodal; 6, 7: antipodal / both poles; 8: coincident
Conditioned(r) ==
  /\ r.cls \notin {3, 4, 6, 7, 8} /\ r.deg[3] >= 1000000           \* at least 1 mm apart
  /\ (r.deg[1] = 0 => r.eqaz) /\ (r.deg[2] = 0 => r.meraz)
\* azimuth of a line of length s12 between points known to p nm: p / s12 radians (1e-15 units), added for short lines
ShortTerm(nm, s12nm) ==
  IF s12nm >= 2000000000 THEN 0
  ELSE LET q == ((nm + 8) * 1000000) \div (s12nm \div 1000000) IN IF q > 2000000 THEN 2000000000 ELSE q * 1000
TanTolS(nm, r) == TanTol(nm) + ShortTerm(nm, r.deg[3])
IlOK(r) ==
  LET se == TolSE(r.fi)  ss == TolSS(r.fi) IN
  /\ r.arc
  \* I1: following the returned azimuth for the returned distance arrives at point 2 with the returned azimuth
  /\ r.clo[1] <= ss /\ r.clo[2] <= TolEE /\ r.clo[3] <= TolEE
  /\ (Conditioned(r) => r.clt[1] <= TanTolS(ss, r) /\ r.clt[2] <= TanTolS(TolEE, r) /\ r.clt[3] <= TanTolS(TolEE, r))
  \* shortest: triangle inequality through a third point; symmetric in its end points
  /\ r.tri[1] <= 3 * Exact /\ r.tri[2] <= TolEE
  \* I4: the solvers agree
  /\ r.agr[1] <= se /\ r.agr[2] <= TolEE /\ r.agr[3] <= 10 * se
  /\ (Conditioned(r) => r.agr[4] <= TanTolS(se, r) /\ r.agr[5] <= TanTolS(se, r))
  \* I3: every element of the symmetry group (descriptors from GeodSym) changes the outputs as documented
  /\ \A k \in 1..Len(r.sym) :
       LET d == r.sym[k] IN
       /\ d[1] <= TolEE /\ d[2] <= 10 * TolEE
       /\ (Conditioned(r) => d[3] <= TanTolS(TolEE, r) /\ d[4] <= TanTolS(TolEE, r))
       /\ (Prop = "C03" /\ Conditioned(r) => d[5] <= TolEE /\ d[6] <= ScaleTol /\ d[7] <= ScaleTol /\ AreaOKInv(d[8], TolEE, r))
  /\ (Prop = "C03" /\ Conditioned(r) =>
        /\ r.agr[6] <= se /\ r.agr[7] <= ScaleTol /\ r.agr[8] <= ScaleTol /\ AreaOKInv(r.agr[9], se, r)
        /\ r.itf[1] <= ss /\ r.itf[2] <= ScaleTol /\ r.itf[3] <= ScaleTol /\ AreaOKInv(r.itf[4], ss, r))
  /\ (Prop = "C03" => \A k \in 1..Len(r.ovl) : r.ovl[k] <= OvlTol)

AlOK(r) ==
  LET t == IF r.kind = 0 THEN TolSS(r.fi) ELSE TolEE IN
  /\ r.add[1] <= t /\ r.add[2] <= 10 * t
  /\ r.add[3] <= t /\ r.add[4] <= 10 * t /\ r.add[5] <= 10 * t        \* (the M rules are stated multiplied by m12, m23: metres)
  /\ AreaOK(r.add[6], t, r)
  /\ (r.fi > 6 \/ r.poly[1] <= 3 * AreaTol + 3 * AreaTolAt0(t, 200000))
  /\ \A k \in 1..4 : r.area[k] <= 100          \* 1e-14 relative: all classes equal the closed-form ellipsoid area

Obligation(r) ==
  CASE r.e = "dir" -> DirOK(r) [] r.e = "inv" -> InvOK(r) [] r.e = "pinv" -> PinvOK(r)
    [] r.e = "dl" -> DlOK(r) [] r.e = "il" -> IlOK(r) [] r.e = "al" -> AlOK(r)
    [] OTHER -> FALSE

Expected(r) ==
  CASE r.e = "dir" -> Direct(r.inc, r.s1, r.a)
    [] r.e = "inv" -> Inverse(r.inc, r.s1, r.s2)
    [] r.e = "pinv" -> PoleInverse(r.pole, r.L, r.lat, r.lon, r.first)
    [] OTHER -> <<>>

Init == l = 1 /\ KitInit
Next == /\ l <= NT
        /\ Require(Obligation(T[l]), l, "geod-" \o T[l].e, Expected(T[l]))
        /\ Consumed(l)
        /\ l' = l + 1
=============================================================================
