------------------------------- MODULE LineTool -------------------------------
(***************************************************************************)
(* Line protocol of the command-line tools (GeoConvert.pod / GeodSolve.pod, *)
(* section ERRORS): every input line produces exactly one output line; an   *)
(* illegal line produces a line beginning with ERROR: and causes the exit   *)
(* status 1, but does not terminate the tool.                                *)
(* State: exit status so far, lines read, lines written.                     *)
(* The same section of RhumbSolve.pod, TransverseMercatorProj.pod,           *)
(* ConicProj.pod, GeodesicProj.pod, CartConvert.pod and IntersectTool.pod    *)
(* gives these tools the same machine.                                       *)
(* Planimeter.pod has another one: vertices are accumulated until a blank    *)
(* line, a line that is not a vertex, or the end of input; each polygon      *)
(* gives one summary line beginning with its number of points.  State: the   *)
(* number of vertices of the open polygon (pcur) and the counts of the       *)
(* polygons closed so far that have at least one vertex (pdone; whether a    *)
(* polygon without vertices is reported is not said).                        *)
(***************************************************************************)
EXTENDS ToolText

VARIABLES status, nin, nout, pcur, pdone

LInit == status = 0 /\ nin = 0 /\ nout = 0 /\ pcur = 0 /\ pdone = <<>>
Line(bad) == /\ nin' = nin + 1
             /\ nout' = nout + 1
             /\ status' = IF bad THEN 1 ELSE status
             /\ UNCHANGED <<pcur, pdone>>

\* Planimeter: a vertex line or a terminator
PClosed == IF pcur > 0 THEN Append(pdone, pcur) ELSE pdone
PLine(term) == /\ nin' = nin + 1
               /\ pcur' = IF term THEN 0 ELSE pcur + 1
               /\ pdone' = IF term THEN PClosed ELSE pdone
               /\ UNCHANGED <<status, nout>>
\* the counts that the summary lines must show once the input has ended
PCounts == PClosed
=============================================================================
