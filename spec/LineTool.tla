------------------------------- MODULE LineTool -------------------------------
(***************************************************************************)
(* Line protocol of the command-line tools (GeoConvert.pod / GeodSolve.pod, *)
(* section ERRORS): every input line produces exactly one output line; an   *)
(* illegal line produces a line beginning with ERROR: and causes the exit   *)
(* status 1, but does not terminate the tool.                                *)
(* State: exit status so far, lines read, lines written.                     *)
(***************************************************************************)
EXTENDS LineText

VARIABLES status, nin, nout

LInit == status = 0 /\ nin = 0 /\ nout = 0
Line(bad) == /\ nin' = nin + 1
             /\ nout' = nout + 1
             /\ status' = IF bad THEN 1 ELSE status
=============================================================================
