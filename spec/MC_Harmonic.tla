---------------------------- MODULE MC_Harmonic ----------------------------
(* Lattice enumeration for Harmonic (C19): root -> chunk c -> vectors.       *)
EXTENDS Harmonic, TLC, Json

CONSTANTS Part, Quick, NChunks
VARIABLE v

B2 == {TRUE, FALSE}
InChunk(S, C) == {x \in S : x % NChunks = C}

(* ------------------------------------------------------------------ part "idx": storage, reader, capabilities *)
NMaxIdx == IF Quick THEN 6 ELSE 8
VecIdx(C) ==
  \/ \E N \in InChunk(-1..NMaxIdx, C), M \in -1..NMaxIdx : PairValid(N, M) /\ v' = <<"idx", N, M>>
  \/ \E N \in InChunk(-1..5, C), nmx \in -2..6, mmx \in -2..6, dc \in -1..1, ds \in -1..1 :
        LET needc == IF CoeffValid(N, nmx, mmx) /\ nmx >= 0 THEN Index(N, nmx, mmx) + 1 ELSE 1
            needs == IF CoeffValid(N, nmx, mmx) /\ mmx >= 1 THEN SIndex(N, nmx, mmx) + 1 ELSE 1
        IN v' = <<"co", N, nmx, mmx, Max(needc + dc, 0), Max(needs + ds, 0)>>
  \/ \E N0 \in InChunk(-2..5, C), M0 \in -2..5 :
        \/ v' = <<"rd", N0, M0, 0, 0, FALSE>>
        \/ \E N \in -2..6, M \in -2..6 : v' = <<"rd", N0, M0, N, M, TRUE>>
  \/ \E req \in InChunk(0..33, C), h0 \in B2 : v' = <<"cap", req, h0>>

(* ------------------------------------------------------------------ part "val": exact harmonic values *)
Vec7(code) == [i \in 1..7 |-> ((code \div (3^(i - 1))) % 3) - 1]
Weight(c) == Cardinality({i \in 1..7 : c[i] # 0})
JJ == {<<-1, 0>>, <<-1, 1>>, <<0, 0>>, <<0, 1>>, <<1, 0>>, <<1, 1>>, <<2, 0>>}       \* <<j, ja>>, j + ja <= 2
JJfew == {<<-1, 1>>, <<0, 0>>, <<1, 1>>, <<2, 0>>}
Few == {Vec7(k) : k \in {1093 + 1, 2186, 0, 1093 + 3 + 27, 1093 - 9 + 243, 2186 - 81 - 2}}   \* a few dense vectors (1093 = all zero)
Shapes == {<<4, 4, 1>>, <<2, 2, 1>>, <<1, 1, 0>>, <<3, 2, 0>>, <<-1, -1, -1>>, <<4, 1, 1>>}     \* <<N, nmx, mmx>> of correction sets
\* every harmonic carries the constructor form ct, the normalisation argument (norm = "default": argument left out), the
\* normalisation wn in which the driver has to express the coefficients (a coefficient c of the Schmidt lattice is written as
\* c / sqrt(2n + 1) for full normalisation: "fully normalized" = sqrt(2n + 1) x "Schmidt semi-normalized"), and asg (object
\* default-constructed first, then copy-assigned)
Form(h, ct, nrm, asg) == h @@ [ct |-> ct, norm |-> nrm, wn |-> NormEff(nrm, HarmNormDefault), asg |-> asg]
H1(c, N, nmx, mmx) == Form([L |-> 1, tau |-> <<1>>, N |-> <<N>>, nmx |-> <<nmx>>, mmx |-> <<mmx>>, c |-> <<c>>], "general", "schmidt", FALSE)
Norms == {"schmidt", "full", "default"}
FullSet(L, taus, Ns, cs) == [L |-> L, tau |-> taus, N |-> Ns, nmx |-> Ns, mmx |-> Ns, c |-> cs]        \* "full set of coefficients"
Dense == <<Vec7(2186), Vec7(1093 + 3 + 27 - 81 + 243 + 729), Vec7(1093 - 1 - 9 + 27 + 243 - 729)>>   \* three dense coefficient vectors
VecVal(C) ==
  \* one-component form, all coefficient vectors over {-1,0,1} (quick: weight <= 2 and a sample)
  \/ \E code \in InChunk(0..2186, C), pt \in 1..6, jj \in JJ :
        /\ (Quick => Weight(Vec7(code)) <= 2 \/ code % 13 = 0)
        /\ v' = <<"val", H1(Vec7(code), 4, 4, 1), pt, jj[1], jj[2]>>
  \* truncation of degree and order
  \/ \E c \in Few, sh \in {<<4, 3, 1>>, <<4, 2, 0>>, <<5, 4, 1>>, <<4, 1, 1>>, <<4, 1, 0>>, <<4, 0, 0>>, <<3, 3, 0>>, <<2, -1, -1>>, <<-1, -1, -1>>},
        pt \in 1..6, jj \in JJfew : C = 0 /\ v' = <<"val", H1(c, sh[1], sh[2], sh[3]), pt, jj[1], jj[2]>>
  \* two- and three-component forms
  \/ \E c0 \in Few, c1 \in Few, s1 \in Shapes, t1 \in {-1, 2}, pt \in 1..6, jj \in JJfew :
        /\ C = 1
        /\ (Quick => c1 \in {Vec7(2186), Vec7(0), Vec7(1093 - 9 + 243)})
        /\ v' = <<"val", Form([L |-> 2, tau |-> <<1, t1>>, N |-> <<4, s1[1]>>, nmx |-> <<4, s1[2]>>, mmx |-> <<1, s1[3]>>, c |-> <<c0, c1>>],
                               "general", "schmidt", FALSE), pt, jj[1], jj[2]>>
  \/ \E c0 \in {Vec7(2186), Vec7(1093 + 3 + 27)}, c1 \in {Vec7(2186), Vec7(0)}, c2 \in {Vec7(2186), Vec7(1093 - 9 + 243)},
        s1 \in Shapes, s2 \in {<<4, 4, 1>>, <<2, 2, 0>>, <<1, 1, 1>>}, t1 \in {-1, 2}, t2 \in {-1, 2}, pt \in 1..6, jj \in JJfew :
        /\ C = 2 + (pt % 4)
        /\ (Quick => jj \in {<<0, 0>>, <<1, 1>>})
        /\ v' = <<"val", Form([L |-> 3, tau |-> <<1, t1, t2>>, N |-> <<4, s1[1], s2[1]>>, nmx |-> <<4, s1[2], s2[2]>>, mmx |-> <<1, s1[3], s2[3]>>,
                                c |-> <<c0, c1, c2>>], "general", "schmidt", FALSE), pt, jj[1], jj[2]>>
  \* general form, layout degree N' > N with nmx' <= nmx, mmx' <= mmx: the header documents GeographicErr ("N >= N1"), the library
  \* accepts: recorded known finding, the records carry the label kf = sh-general-layout-n1-gt-n computed from these inputs
  \/ \E ci \in 1..3, nrm \in Norms, pt \in 1..6, jj \in {<<0, 0>>, <<1, 1>>} :
        /\ C = 23
        /\ v' = <<"val", Form([L |-> 2, tau |-> <<1, 2>>, N |-> <<1, 4>>, nmx |-> <<1, 1>>, mmx |-> <<1, 1>>, c |-> <<Dense[ci], Dense[(ci % 3) + 1]>>],
                               "general", nrm, FALSE), pt, jj[1], jj[2]>>
  \* the constructor family: every form (general / simple, normalisation given / left out, assigned) of every class on full
  \* sets of degree N_l (simple form applicable); N_l > N is the documented exception of both forms
  \/ \E ci \in 1..3, N0 \in {0, 1, 2, 4}, ct \in {"general", "simple"}, nrm \in Norms, asg \in B2, pt \in 1..6, jj \in JJfew :
        /\ C = 3 + (pt % 4)
        /\ (Quick => jj \in {<<0, 0>>, <<1, 1>>} /\ (ci + N0 + pt) % 2 = 0)
        /\ v' = <<"val", Form(FullSet(1, <<1>>, <<N0>>, <<Dense[ci]>>), ct, nrm, asg), pt, jj[1], jj[2]>>
  \/ \E ci \in 1..3, N0 \in {1, 2, 4}, N1 \in {-1, 0, 1, 2, 4}, ct \in {"general", "simple"}, nrm \in Norms, asg \in B2, t1 \in {-1, 2},
        pt \in 1..6, jj \in JJfew :
        /\ C = 7 + (pt % 4) + 4 * (N1 % 2)
        /\ (Quick => jj \in {<<0, 0>>, <<1, 1>>} /\ t1 = 2 /\ ~asg /\ (ci + N0 + N1 + pt) % 3 = 0)
        /\ v' = <<"val", Form(FullSet(2, <<1, t1>>, <<N0, N1>>, <<Dense[ci], Dense[(ci % 3) + 1]>>), ct, nrm, asg), pt, jj[1], jj[2]>>
  \/ \E N0 \in {2, 4}, N1 \in {-1, 1, 2, 4}, N2 \in {-1, 0, 2, 4}, ct \in {"general", "simple"}, nrm \in Norms, asg \in B2, t1 \in {-1, 2},
        pt \in 1..6, jj \in JJfew :
        /\ C = 15 + (pt % 4) + 4 * (N1 % 2)
        /\ (Quick => jj \in {<<0, 0>>, <<1, 1>>} /\ t1 = 2 /\ ~asg /\ (N0 + N1 + N2 + pt) % 3 = 0)
        /\ v' = <<"val", Form(FullSet(3, <<1, t1, -t1>>, <<N0, N1, N2>>, <<Dense[1], Dense[2], Dense[3]>>), ct, nrm, asg), pt, jj[1], jj[2]>>

(* ------------------------------------------------------------------ part "mag": magnetic model assembly *)
Pal == << <<3, 1, 1, 0, 0, 0, 0>>, <<3, 1, 0, 1, -1, 0, 0>>, <<3, 1, -1, 1, 0, 1, 0>>, <<3, 1, 0, 0, 1, -1, 1>>,
          <<2, 0, 1, 0, 0, 1, 0>>, <<3, 0, 1, 0, 0, 0, -1>>, <<1, 1, 1, 1, 1, 0, 0>>, <<-1, -1, 0, 0, 0, 0, 0>> >>
\* coefficient sets of a model chosen from the palette by a seed
Sets(nm, nc, s) == [i \in 1..(nm + 1 + nc) |-> Pal[((s + 3 * i + i * i) % 8) + 1]]
\* a model file: meta = the keywords that are present in NAME.wmm (Harmonic.tla section 3), sets = the content of NAME.wmm.cof;
\* wn = the normalisation in which the driver has to express the coefficients = the one the documentation says the file has
MagAll(nm, nc, dt0, nrm) == [NumModels |-> nm, NumConstants |-> nc, DeltaEpoch |-> dt0, Normalization |-> nrm, Type |-> "linear",
                             ByteOrder |-> "little", Description |-> "synthetic", ReleaseDate |-> "2026-01-01", Name |-> "synth", Radius |-> 4]
Keep(full, omit) == [k \in (DOMAIN full) \ omit |-> full[k]]
\* deco: the metadata file is written with comment lines, trailing comments, blank lines, tabs and keywords that the class does
\* not know ("A # character and everything after it are discarded. If the result is just white space it is discarded ...
\* Other keywords are ignored"): the model it denotes is the same
MagFile(meta, nsets, tq, s, j, pt, Nmax, Mmax) ==
  [meta |-> meta, deco |-> (tq + pt + nsets + Cardinality(DOMAIN meta) + s) % 2 = 0, sets |-> [i \in 1..nsets |-> Pal[((s + 3 * i + i * i) % 8) + 1]], tq |-> tq, j |-> j, pt |-> pt, Nmax |-> Nmax, Mmax |-> Mmax,
   wn |-> Meta(meta, MagKeyDefault, "Normalization")]
MagRec(nm, nc, dt0, tq, s, j, pt, Nmax, Mmax) == MagFile(MagAll(nm, nc, dt0, "schmidt"), nm + 1 + nc, tq, s, j, pt, Nmax, Mmax)
LimAll == {<<a, b>> : a \in -2..4, b \in -2..4}
LimFew == {<<0, -1>>, <<1, -1>>, <<1, 0>>, <<2, -1>>, <<2, 1>>, <<3, 0>>, <<5, -1>>, <<-1, 0>>, <<-1, 1>>, <<2, 2>>, <<-2, 1>>, <<0, 1>>, <<1, 2>>, <<-1, -2>>, <<0, 0>>}
FieldKeys == {"NumModels", "NumConstants", "DeltaEpoch", "Normalization"}
OtherKeys == {"Type", "ByteOrder", "Description", "ReleaseDate", "Name"}
VecMag(C) ==
  \/ \E nm \in 1..3, nc \in 0..1, dt0 \in {1, 2}, s \in 0..(IF Quick THEN 3 ELSE 7), j \in {-1, 0, 1, 2}, pt \in 1..12 :
        \E tq \in InChunk(-4..(4 * dt0 * nm + 4), C) :
          /\ (Quick => (pt + j + tq) % 4 = 0)
          /\ v' = <<"mag", MagRec(nm, nc, dt0, tq, s, j, pt, -1, -1)>>
  \* the lattice of truncation requests (Nmax, Mmax): negative = not given, Mmax > Nmax >= 0 = documented exception
  \/ \E nm \in {1, 2}, nc \in 0..1, s \in InChunk(0..7, C), tq \in {-2, 1, 4, 7}, pt \in {1, 2, 5, 10}, lim \in (IF Quick THEN LimFew ELSE LimAll) :
          v' = <<"mag", MagRec(nm, nc, 1, tq, s, 0, pt, lim[1], lim[2])>>
  \* every optional keyword present or absent; the .cof file holds nmA + 1 + ncA sets, NumModels / NumConstants / DeltaEpoch /
  \* Normalization are written with the values nmA / ncA / dtW / nrm unless omitted (an omitted NumModels with nmA = 2 sets is a
  \* corrupt file, etc.); full normalisation written explicitly as well
  \/ \E nmA \in {1, 2}, ncA \in 0..1, dtW \in {1, 2}, nrm \in {"schmidt", "full"}, om \in SUBSET FieldKeys, oth \in {{}, OtherKeys},
        s \in InChunk(0..(IF Quick THEN 1 ELSE 3), C), tq \in {-2, 1, 4, 7}, pt \in {1, 5, 10}, lim \in {<<-1, -1>>, <<2, 1>>} :
          /\ (Quick => (tq + pt + nmA + ncA + dtW) % 2 = 0)
          /\ v' = <<"mag", MagFile(Keep(MagAll(nmA, ncA, dtW, nrm), om \cup oth), nmA + 1 + ncA, tq, s, 0, pt, lim[1], lim[2])>>

(* ------------------------------------------------------------------ part "grv": gravity model and normal gravity lattice *)
GrvAll(z0, cm, nrm) == [HeightOffset |-> z0, CorrectionMultiplier |-> cm, Normalization |-> nrm, ByteOrder |-> "little",
                        Description |-> "synthetic", ReleaseDate |-> "2026-01-01", Name |-> "synth", ModelRadius |-> 0]
Pars == {<<1, 1, 3, 2>>, <<1, 1, 3, 3>>, <<0, 1, 2, 2>>, <<1, 1, 2, 2>>}        \* <<ja, jr, km, kr>>
JOf(par) == IF par[1] = 0 THEN {1, 2} ELSE {-1, 0, 1}                               \* R = 2^(ja + j); ja + j = jr is the surface
GSets == << <<4, 1, Vec7(2186 - 1)>>, <<4, 0, Vec7(2014)>>, <<3, 1, Vec7(624 + 1)>>, <<2, 1, Vec7(2186 - 1)>>, <<1, 1, Vec7(2014)>>, <<4, 1, Vec7(1093 + 243)>> >>
CSets == << <<2, 1, Vec7(2186)>>, <<-1, -1, Vec7(1093)>>, <<4, 0, Vec7(624)>>, <<1, 1, Vec7(2014)>> >>
GrvFile(meta, par, rk, gi, ci, Nmax, Mmax, p, j, req) ==
  [meta |-> meta, deco |-> (p + j + gi + ci + Cardinality(DOMAIN meta)) % 2 = 0, par |-> par, refkey |-> rk, gs |-> GSets[gi], cs |-> CSets[ci], Nmax |-> Nmax, Mmax |-> Mmax, p |-> p, j |-> j, req |-> req,
   wn |-> Meta(meta, GrvKeyDefault, "Normalization")]
GLimAll == {<<a, b>> : a \in -2..5, b \in -2..5}
GLimFew == {<<-1, -1>>, <<-1, 0>>, <<-1, 1>>, <<-2, 3>>, <<0, -1>>, <<0, 0>>, <<1, -1>>, <<1, 0>>, <<2, -2>>, <<2, 1>>, <<2, 2>>, <<3, -1>>, <<3, 0>>,
            <<4, 1>>, <<5, -1>>, <<0, 1>>, <<1, 2>>, <<2, 5>>, <<-1, 5>>, <<3, 1>>}
Reqs == {32, 33, 0, 1, 2, 4, 8, 16, 3, 5, 6, 9, 17, 18, 20, 24, 31, 23, 30, 7, 19}
VecGrv(C) ==
  \* truncation lattice x file shapes x points, the circle with ALL capabilities
  \/ \E lim \in (IF Quick THEN GLimFew ELSE GLimAll), gi \in 1..6, ci \in 1..4, par \in Pars, p \in InChunk(1..12, C) : \E j \in JOf(par) :
        /\ (Quick => (lim[1] + lim[2] + gi + ci + p + j + par[3] + par[4]) % 16 = 0)
        /\ (~Quick => (lim[1] + gi + ci + p + j + par[3]) % 4 = 0)
        /\ v' = <<"grv", GrvFile(GrvAll(0, 1, "schmidt"), par, "Flattening", gi, ci, lim[1], lim[2], p, j, 32)>>
  \* capability requests x points (h = 0 and h # 0)
  \/ \E req \in (IF Quick THEN Reqs ELSE 0..33), gi \in {1, 3}, ci \in {1, 3}, par \in Pars, p \in InChunk(1..12, C), lim \in {<<-1, -1>>, <<2, 1>>} : \E j \in JOf(par) :
        /\ (Quick => (req + gi + ci + p + j + par[4]) % 12 = 0)
        /\ v' = <<"grv", GrvFile(GrvAll(1, 2, "schmidt"), par, "Flattening", gi, ci, lim[1], lim[2], p, j, req)>>
  \* optional keywords present or absent, HeightOffset / CorrectionMultiplier values, either normalisation, J2 instead of f
  \/ \E z0 \in {0, 1, -2}, cm \in {1, 2}, nrm \in {"schmidt", "full"}, om \in SUBSET {"HeightOffset", "CorrectionMultiplier", "Normalization"},
        oth \in {{}, {"ByteOrder", "Description", "ReleaseDate", "Name"}}, rk \in {"Flattening", "DynamicalFormFactor"},
        gi \in {1, 2}, ci \in {1, 2, 3}, par \in {<<1, 1, 3, 2>>, <<0, 1, 2, 2>>}, p \in InChunk(1..12, C) :
        /\ (Quick => (z0 + cm + gi + ci + p + par[1] + Cardinality(om) + Cardinality(oth)) % 24 = 0)
        /\ (~Quick => (gi + ci + p + Cardinality(om)) % 2 = 0)
        /\ v' = <<"grv", GrvFile(Keep(GrvAll(z0, cm, nrm), om \cup oth), par, rk, gi, ci, -1, -1, p, par[2] - par[1], 32)>>
  \* NormalGravity of the non-rotating sphere
  \/ \E ja \in 0..2, km \in {1, 3}, via \in B2, n \in -2..9, p \in InChunk(1..12, C), j \in {0, 1} :
        /\ (Quick => (ja + km + n + p + j) % 4 = 0)
        /\ v' = <<"ngl", [ja |-> ja, km |-> km, via |-> via, n |-> n, p |-> p, j |-> j]>>

Init == v = <<"root">>
Next ==
  \/ v = <<"root">> /\ \E c \in 0..(NChunks - 1) : v' = <<"chunk", c>>
  \/ /\ v[1] = "chunk"
     /\ CASE Part = "idx" -> VecIdx(v[2]) [] Part = "val" -> VecVal(v[2]) [] Part = "mag" -> VecMag(v[2]) [] Part = "grv" -> VecGrv(v[2])

(* ------------------------------------------------------------------ model invariants *)
IdxInv ==
  /\ v[1] = "idx" =>
       LET N == v[2]  M == v[3]  L == CList(N, M)  S == SList(N, M) IN
       /\ Len(L) = Csize(N, M) /\ Len(S) = Ssize(N, M) /\ Len(S) = Len(L) - (N + 1)
       /\ \A k \in 1..Len(L) : Index(N, L[k][1], L[k][2]) = k - 1 /\ L[k][2] <= L[k][1] /\ L[k][1] <= N /\ L[k][2] <= M
       /\ \A k \in 1..Len(S) : SIndex(N, S[k][1], S[k][2]) = k - 1 /\ S[k][2] >= 1
       /\ Cardinality({L[k] : k \in 1..Len(L)}) = Len(L)
       \* truncation is restriction: the pairs of a smaller set keep their relative order in the larger one
       /\ \A N1 \in -1..N, M1 \in -1..M : PairValid(N1, M1) =>
            LET L1 == CList(N1, M1) IN \A k \in 1..Len(L1) : \E k2 \in k..Len(L) : L[k2] = L1[k]
  /\ v[1] = "co" =>
       LET N == v[2]  nmx == v[3]  mmx == v[4]  o == CoeffOutcome(N, nmx, mmx, v[5], v[6]) IN
       /\ (o = "ok" => CoeffOutcome(N, nmx, mmx, v[5] + 1, v[6] + 1) = "ok")                 \* larger arrays are fine too
       /\ (o = "ok" /\ nmx >= 0 => v[5] >= Csize(nmx, mmx))                                   \* at least the coefficients used
       /\ (CoeffValid(N, nmx, mmx) /\ nmx >= 0 => CoeffOutcome(N, nmx, mmx, Csize(N, mmx), Max(Ssize(N, mmx), 0)) = "ok")
  /\ v[1] = "rd" =>
       LET r == ReadSpec(v[2], v[3], v[4], v[5], v[6]) IN
       r[1] = "ok" =>
         /\ PairValid(r[2], r[3]) /\ r[2] <= v[2] /\ r[3] <= v[3]
         /\ Len(r[4]) = Csize(r[2], r[3]) /\ Len(r[5]) = Ssize(r[2], r[3])
         /\ (v[6] => r[2] <= v[4] /\ r[3] <= v[5])
         \* reading everything and truncating afterwards gives the same coefficients
         /\ LET full == ReadSpec(v[2], v[3], 0, 0, FALSE) IN
            \A k \in 1..Len(r[4]) : \E k2 \in 1..Len(full[4]) : full[4][k2] = r[4][k]
  /\ v[1] = "cap" =>
       LET req == v[2]  h0 == v[3] IN
       /\ \A fn \in Fns : Avail(fn, req, h0) => Avail(fn, 32, h0) /\ Avail(fn, req, TRUE)
       /\ \A fn \in Fns : ~Avail(fn, 33, h0)
       /\ \A fn \in Fns \ {"geoid"} : Avail(fn, 32, h0)
       /\ Avail("geoid", req, h0) => h0
       /\ (Avail("disturbance", req, h0) => Avail("t", req, h0)) /\ (Avail("anomaly", req, h0) => Avail("disturbance", req, h0))
       /\ (req < 32 => \A b \in {1, 2, 4, 8, 16} : \A fn \in Fns : Avail(fn, req, h0) /\ ~Bit(req, b) => Avail(fn, req + b, h0))

Single(h, l) == [L |-> 1, tau |-> <<1>>, N |-> <<h.N[l]>>, nmx |-> <<Min(h.nmx[l], h.nmx[1])>>, mmx |-> <<Min(h.mmx[l], h.mmx[1])>>, c |-> <<h.c[l]>>]
Opp(pt) == CASE pt = 1 -> 3 [] pt = 2 -> 4 [] pt = 3 -> 1 [] pt = 4 -> 2 [] pt = 5 -> 6 [] pt = 6 -> 5
RotZ(pt) == CASE pt = 1 -> 2 [] pt = 2 -> 3 [] pt = 3 -> 4 [] pt = 4 -> 1 [] OTHER -> pt
ValInv ==
  v[1] = "val" =>
    LET h == v[2]  pt == v[3]  j == v[4]  ja == v[5]  d == AXIS[pt] IN
    \* Euler: each degree-n part is homogeneous of degree -(n+1):  x . grad V_n = -(n+1) V_n
    /\ \A n \in 0..4 : Dot(d, GradDeg(h, n, pt, j, ja)) * 2^(ja + j + 1) = -(n + 1) * ValDeg(h, n, pt, j) * 2
    \* parity: V_n(-x) = (-1)^n V_n(x)
    /\ \A n \in 0..4 : ValDeg(h, n, Opp(pt), j) = (IF n % 2 = 0 THEN 1 ELSE -1) * ValDeg(h, n, pt, j)
    \* radial scaling V_n(2r) = V_n(r) / 2^(n+1)
    /\ (j <= 1 => \A n \in 0..4 : ValDeg(h, n, pt, j + 1) * 2^(n + 1) = ValDeg(h, n, pt, j))
    \* superposition: the L-component form is the weighted sum of one-component forms
    /\ ValNum(h, pt, j) = SumSeq([l \in 1..h.L |-> (IF l = 1 THEN 1 ELSE h.tau[l]) * ValNum(Single(h, l), pt, j)], 1)
    /\ GradNum(h, pt, j, ja) = LET g(l) == Scale(IF l = 1 THEN 1 ELSE h.tau[l], GradNum(Single(h, l), pt, j, ja))
                               IN IF h.L = 1 THEN g(1) ELSE IF h.L = 2 THEN Add3(g(1), g(2)) ELSE Add3(g(1), Add3(g(2), g(3)))
    \* C <-> S phase: rotating the point by +90 degrees about the axis equals replacing (C11, S11) by (S11, -C11)
    /\ (h.L = 1 => LET c == h.c[1]  hr == [h EXCEPT !.c = <<[c EXCEPT ![3] = c[4], ![4] = -c[3]]>>]
                   IN ValNum(h, RotZ(pt), j) = ValNum(hr, pt, j))
    \* the gradient is radial + axial at lattice points of a zonal field
    /\ (h.L = 1 /\ h.c[1][3] = 0 /\ h.c[1][4] = 0 => LET g == GradNum(h, pt, j, ja) IN d[3] # 0 => g[1] = 0 /\ g[2] = 0)

MagInv ==
  v[1] = "mag" /\ MagFileOK(v[2]) =>
    LET g == MagEff(v[2])  seg == Segment(g)  per == 4 * g.dt0 IN
    \* the driver is told to write the coefficients in the normalisation that the documentation attributes to the file
    /\ v[2].wn = MagNorm(v[2])
    \* continuity at the knots of the piecewise linear time dependence
    /\ (g.tq % per = 0 /\ seg >= 1 /\ g.tq \div per = seg => MagB(g, seg) = MagB(g, seg - 1))
    \* the rate is the slope: B(t + 1/4) - B(t) = rate / 4 inside a segment
    /\ LET g2 == [g EXCEPT !.tq = g.tq + 1] IN
       Segment(g2) = seg => Scale(4, Add3(MagB(g2, seg), Scale(-1, MagB(g, seg)))) = MagBt(g, seg)
    \* at an epoch the field is that epoch's model (+ constant)
    /\ (g.tq % per = 0 /\ g.tq \div per = seg =>
          \A n \in 1..3 : Coef8(g, seg, n, 0, 0) = 8 * (SetCoef(g.sets[seg + 1], Limits(g.Nmax, g.Mmax), n, 0, 0)
                                                        + IF g.nc = 1 THEN SetCoef(g.sets[g.nm + 2], Limits(g.Nmax, g.Mmax), n, 0, 0) ELSE 0))
    \* truncation above every degree changes nothing
    /\ (g.Nmax >= 3 /\ g.Mmax \in {-1, 1, 2, 3} /\ LimitsValid(g.Nmax, g.Mmax) => MagB([g EXCEPT !.Nmax = -1, !.Mmax = -1], seg) = MagB(g, seg))
    /\ MagDegree(g) \in -1..3 /\ MagOrder(g) \in -1..1

\* a file with every optional keyword written with its default value denotes the same model as the file without them
MetaInv ==
  /\ v[1] = "mag" => LET f == v[2]  full == [k \in DOMAIN MagKeyDefault |-> Meta(f.meta, MagKeyDefault, k)] @@ f.meta
                     IN MagEff([f EXCEPT !.meta = full]) = MagEff(f) /\ MagOutcome([f EXCEPT !.meta = full]) = MagOutcome(f)
  /\ v[1] = "grv" => LET G == v[2]  full == [k \in DOMAIN GrvKeyDefault |-> Meta(G.meta, GrvKeyDefault, k)] @@ G.meta
                     IN GrvOutcome([G EXCEPT !.meta = full]) = GrvOutcome(G) /\ (GrvOutcome(G) = "ok" => GGeoid([G EXCEPT !.meta = full]) = GGeoid(G))

\* the primitive quantities of which every observation of a lattice gravity model is composed
GrvPrim(G) == <<GV(G), GVg(G), GU(G), GTpg(G), GAnom(G), GGeoid(G)>>
GrvInv ==
  /\ v[1] = "grv" /\ GrvOutcome(v[2]) = "ok" =>
      LET G == v[2]  lim == GLim(G)  R == GJa(G) + G.j  ax == GAx(G)
          cut == [G EXCEPT !.gs = <<Min(G.gs[1], lim[1]), Min(G.gs[2], lim[2]), G.gs[3]>>,
                           !.cs = <<Min(G.cs[1], lim[1]), Min(G.cs[2], lim[2]), G.cs[3]>>, !.Nmax = -1, !.Mmax = -1]
      IN
      /\ G.wn = GrvNorm(G)
      \* the divisions in Sh are exact
      /\ (R > 0 => (2 * GTp(G, G.j)) % (2^R) = 0)
      /\ (GKr(G) > 2 * GJr(G) => GTp(G, GJr(G) - GJa(G)) % (2^(GKr(G) - 2 * GJr(G))) = 0)
      /\ (GKr(G) > 2 * R => \A i \in 1..3 : GTpg(G)[i] % (2^(GKr(G) - 2 * R)) = 0)
      \* truncating when the model is loaded = loading a file that holds the truncated sets
      /\ GrvOutcome(cut) = "ok" /\ GrvPrim(cut) = GrvPrim(G) /\ GrvDegree(cut) = GrvDegree(G) /\ GrvOrder(cut) = GrvOrder(G)
      \* "if non-negative, truncate the degree / order": bounds; a request at or above the file's degree and order is the identity
      /\ (G.Nmax >= 0 => GrvDegree(G) <= G.Nmax) /\ (G.Mmax >= 0 => GrvOrder(G) <= G.Mmax)
      /\ (G.Nmax < 0 /\ G.Mmax >= 0 => GrvDegree(G) = Max(G.gs[1], Max(G.cs[1], 0)))                \* the order only
      /\ (lim[1] >= 4 /\ lim[2] >= 1 => GrvPrim([G EXCEPT !.Nmax = -1, !.Mmax = -1]) = GrvPrim(G))
      \* W = T + U and g = gamma + delta
      /\ GV(G) = GT(G) + GU(G) /\ GVg(G) = Add3(GTg(G), GUg(G))
      \* H+M: a disturbing potential of degree n has gravity anomaly (n - 1) T_n / R
      /\ Sh(GAnom(G), R) = 2^GKa(G) * SumSeq([n \in 1..4 |-> (n - 1) * ValDeg(GH(G), n, ax, G.j)], 1)
      \* the geoid height is affine in HeightOffset and the correction enters with CorrectionMultiplier
      /\ LET Z == [G EXCEPT !.meta = [k \in (DOMAIN G.meta) \ {"HeightOffset"} |-> G.meta[k]]]
         IN GGeoid(G) - GGeoid(Z) = Meta(G.meta, GrvKeyDefault, "HeightOffset") * 2^K
      \* the circle: everything with ALL (geoid height for h = 0 only), nothing with NONE
      /\ LET x == GrvExp(G) IN
         /\ (G.req = 32 /\ GH0(G) => \A f \in {"cv", "cw", "cg", "cd", "ct1", "ct", "cn", "ca", "cx"} : \A i \in 1..Len(x[f]) : x[f][i] # NaNK)
         /\ (G.req = 33 => x.cv = NaNs(4) /\ x.ct1 = NaNs(1) /\ x.cn = NaNs(1))
         /\ (~GH0(G) => x.cn = NaNs(1))
  /\ v[1] = "ngl" =>
      LET g == v[2] IN
      /\ \A n \in 0..9 : n % 2 = 1 => NgJn(n) = 0
      \* the Legendre sum of V0 with the coefficients -J_n reproduces GM / r:  U = - GM/r sum_n J_n (a/r)^n P_n
      /\ NgU(g) * 2^(g.ja + g.j) = -NgJn(0) * 2^g.km /\ \A n \in 1..9 : NgJn(n) = 0
      \* gamma = grad U is radial and Euler-homogeneous of degree -1:  x . grad U = - U
      /\ Dot(AXIS[AxisOf(g.p)], NgUg(g)) * 2^(g.ja + g.j) = -NgU(g)

Emit == v[1] \notin {"root", "chunk"} => PrintT(ToJson(v))
=============================================================================
