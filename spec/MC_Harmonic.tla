---------------------------- MODULE MC_Harmonic ----------------------------
(* Lattice enumeration for Harmonic (C19): root -> chunk c -> vectors.       *)
EXTENDS Harmonic, TLC, Json

CONSTANTS Part, Quick, NChunks
VARIABLE v

B2 == {TRUE, FALSE}
InChunk(S, C) == {x \in S : x % NChunks = C}

(* ------------------------------------------------------------------ part "idx": storage, reader, capabilities *)
NMaxIdx == IF Quick THEN 6 ELSE 8
VecIdx(C) ==
  \/ \E N \in InChunk(-1..NMaxIdx, C), M \in -1..NMaxIdx : PairValid(N, M) /\ v' = <<"idx", N, M>>
  \/ \E N \in InChunk(-1..5, C), nmx \in -2..6, mmx \in -2..6, dc \in -1..1, ds \in -1..1 :
        LET needc == IF CoeffValid(N, nmx, mmx) /\ nmx >= 0 THEN Index(N, nmx, mmx) + 1 ELSE 1
            needs == IF CoeffValid(N, nmx, mmx) /\ mmx >= 1 THEN SIndex(N, nmx, mmx) + 1 ELSE 1
        IN v' = <<"co", N, nmx, mmx, Max(needc + dc, 0), Max(needs + ds, 0)>>
  \/ \E N0 \in InChunk(-2..5, C), M0 \in -2..5 :
        \/ v' = <<"rd", N0, M0, 0, 0, FALSE>>
        \/ \E N \in -2..6, M \in -2..6 : v' = <<"rd", N0, M0, N, M, TRUE>>
  \/ \E req \in InChunk(0..33, C), h0 \in B2 : v' = <<"cap", req, h0>>

(* ------------------------------------------------------------------ part "val": exact harmonic values *)
Vec7(code) == [i \in 1..7 |-> ((code \div (3^(i - 1))) % 3) - 1]
Weight(c) == Cardinality({i \in 1..7 : c[i] # 0})
JJ == {<<-1, 0>>, <<-1, 1>>, <<0, 0>>, <<0, 1>>, <<1, 0>>, <<1, 1>>, <<2, 0>>}       \* <<j, ja>>, j + ja <= 2
JJfew == {<<-1, 1>>, <<0, 0>>, <<1, 1>>, <<2, 0>>}
Few == {Vec7(k) : k \in {1093 + 1, 2186, 0, 1093 + 3 + 27, 1093 - 9 + 243, 2186 - 81 - 2}}   \* a few dense vectors (1093 = all zero)
Shapes == {<<4, 4, 1>>, <<2, 2, 1>>, <<1, 1, 0>>, <<3, 2, 0>>, <<-1, -1, -1>>, <<4, 1, 1>>}     \* <<N, nmx, mmx>> of correction sets
H1(c, N, nmx, mmx) == [L |-> 1, tau |-> <<1>>, N |-> <<N>>, nmx |-> <<nmx>>, mmx |-> <<mmx>>, c |-> <<c>>]
VecVal(C) ==
  \* one-component form, all coefficient vectors over {-1,0,1} (quick: weight <= 2 and a sample)
  \/ \E code \in InChunk(0..2186, C), pt \in 1..6, jj \in JJ :
        /\ (Quick => Weight(Vec7(code)) <= 2 \/ code % 13 = 0)
        /\ v' = <<"val", H1(Vec7(code), 4, 4, 1), pt, jj[1], jj[2]>>
  \* truncation of degree and order
  \/ \E c \in Few, sh \in {<<4, 3, 1>>, <<4, 2, 0>>, <<5, 4, 1>>, <<4, 1, 1>>, <<4, 1, 0>>, <<4, 0, 0>>, <<3, 3, 0>>, <<2, -1, -1>>, <<-1, -1, -1>>},
        pt \in 1..6, jj \in JJfew : C = 0 /\ v' = <<"val", H1(c, sh[1], sh[2], sh[3]), pt, jj[1], jj[2]>>
  \* two- and three-component forms
  \/ \E c0 \in Few, c1 \in Few, s1 \in Shapes, t1 \in {-1, 2}, pt \in 1..6, jj \in JJfew :
        /\ C = 1
        /\ (Quick => c1 \in {Vec7(2186), Vec7(0), Vec7(1093 - 9 + 243)})
        /\ v' = <<"val", [L |-> 2, tau |-> <<1, t1>>, N |-> <<4, s1[1]>>, nmx |-> <<4, s1[2]>>, mmx |-> <<1, s1[3]>>, c |-> <<c0, c1>>], pt, jj[1], jj[2]>>
  \/ \E c0 \in {Vec7(2186), Vec7(1093 + 3 + 27)}, c1 \in {Vec7(2186), Vec7(0)}, c2 \in {Vec7(2186), Vec7(1093 - 9 + 243)},
        s1 \in Shapes, s2 \in {<<4, 4, 1>>, <<2, 2, 0>>, <<1, 1, 1>>}, t1 \in {-1, 2}, t2 \in {-1, 2}, pt \in 1..6, jj \in JJfew :
        /\ C = 2 + (pt % 4)
        /\ (Quick => jj \in {<<0, 0>>, <<1, 1>>})
        /\ v' = <<"val", [L |-> 3, tau |-> <<1, t1, t2>>, N |-> <<4, s1[1], s2[1]>>, nmx |-> <<4, s1[2], s2[2]>>, mmx |-> <<1, s1[3], s2[3]>>,
                          c |-> <<c0, c1, c2>>], pt, jj[1], jj[2]>>

(* ------------------------------------------------------------------ part "mag": magnetic model assembly *)
Pal == << <<3, 1, 1, 0, 0, 0, 0>>, <<3, 1, 0, 1, -1, 0, 0>>, <<3, 1, -1, 1, 0, 1, 0>>, <<3, 1, 0, 0, 1, -1, 1>>,
          <<2, 0, 1, 0, 0, 1, 0>>, <<3, 0, 1, 0, 0, 0, -1>>, <<1, 1, 1, 1, 1, 0, 0>>, <<-1, -1, 0, 0, 0, 0, 0>> >>
\* coefficient sets of a model chosen from the palette by a seed
Sets(nm, nc, s) == [i \in 1..(nm + 1 + nc) |-> Pal[((s + 3 * i + i * i) % 8) + 1]]
MagRec(nm, nc, dt0, tq, s, j, pt, Nmax, Mmax) ==
  [nm |-> nm, nc |-> nc, dt0 |-> dt0, tq |-> tq, sets |-> Sets(nm, nc, s), j |-> j, pt |-> pt, Nmax |-> Nmax, Mmax |-> Mmax]
VecMag(C) ==
  \/ \E nm \in 1..3, nc \in 0..1, dt0 \in {1, 2}, s \in 0..(IF Quick THEN 3 ELSE 7), j \in {-1, 0, 1, 2}, pt \in 1..12 :
        \E tq \in InChunk(-4..(4 * dt0 * nm + 4), C) :
          /\ (Quick => (pt + j + tq) % 4 = 0)
          /\ v' = <<"mag", MagRec(nm, nc, dt0, tq, s, j, pt, -1, -1)>>
  \/ \E nm \in {1, 2}, nc \in 0..1, s \in InChunk(0..7, C), tq \in {-2, 1, 4, 7}, pt \in {1, 2, 5, 10},
        lim \in {<<0, -1>>, <<1, -1>>, <<1, 0>>, <<2, -1>>, <<2, 1>>, <<3, 0>>, <<5, -1>>, <<-1, 0>>, <<-1, 1>>, <<2, 2>>} :
          v' = <<"mag", MagRec(nm, nc, 1, tq, s, 0, pt, lim[1], lim[2])>>

Init == v = <<"root">>
Next ==
  \/ v = <<"root">> /\ \E c \in 0..(NChunks - 1) : v' = <<"chunk", c>>
  \/ /\ v[1] = "chunk"
     /\ CASE Part = "idx" -> VecIdx(v[2]) [] Part = "val" -> VecVal(v[2]) [] Part = "mag" -> VecMag(v[2])

(* ------------------------------------------------------------------ model invariants *)
IdxInv ==
  /\ v[1] = "idx" =>
       LET N == v[2]  M == v[3]  L == CList(N, M)  S == SList(N, M) IN
       /\ Len(L) = Csize(N, M) /\ Len(S) = Ssize(N, M) /\ Len(S) = Len(L) - (N + 1)
       /\ \A k \in 1..Len(L) : Index(N, L[k][1], L[k][2]) = k - 1 /\ L[k][2] <= L[k][1] /\ L[k][1] <= N /\ L[k][2] <= M
       /\ \A k \in 1..Len(S) : SIndex(N, S[k][1], S[k][2]) = k - 1 /\ S[k][2] >= 1
       /\ Cardinality({L[k] : k \in 1..Len(L)}) = Len(L)
       \* truncation is restriction: the pairs of a smaller set keep their relative order in the larger one
       /\ \A N1 \in -1..N, M1 \in -1..M : PairValid(N1, M1) =>
            LET L1 == CList(N1, M1) IN \A k \in 1..Len(L1) : \E k2 \in k..Len(L) : L[k2] = L1[k]
  /\ v[1] = "co" =>
       LET N == v[2]  nmx == v[3]  mmx == v[4]  o == CoeffOutcome(N, nmx, mmx, v[5], v[6]) IN
       /\ (o = "ok" => CoeffOutcome(N, nmx, mmx, v[5] + 1, v[6] + 1) = "ok")                 \* larger arrays are fine too
       /\ (o = "ok" /\ nmx >= 0 => v[5] >= Csize(nmx, mmx))                                   \* at least the coefficients used
       /\ (CoeffValid(N, nmx, mmx) /\ nmx >= 0 => CoeffOutcome(N, nmx, mmx, Csize(N, mmx), Max(Ssize(N, mmx), 0)) = "ok")
  /\ v[1] = "rd" =>
       LET r == ReadSpec(v[2], v[3], v[4], v[5], v[6]) IN
       r[1] = "ok" =>
         /\ PairValid(r[2], r[3]) /\ r[2] <= v[2] /\ r[3] <= v[3]
         /\ Len(r[4]) = Csize(r[2], r[3]) /\ Len(r[5]) = Ssize(r[2], r[3])
         /\ (v[6] => r[2] <= v[4] /\ r[3] <= v[5])
         \* reading everything and truncating afterwards gives the same coefficients
         /\ LET full == ReadSpec(v[2], v[3], 0, 0, FALSE) IN
            \A k \in 1..Len(r[4]) : \E k2 \in 1..Len(full[4]) : full[4][k2] = r[4][k]
  /\ v[1] = "cap" =>
       LET req == v[2]  h0 == v[3] IN
       /\ \A fn \in Fns : Avail(fn, req, h0) => Avail(fn, 32, h0) /\ Avail(fn, req, TRUE)
       /\ \A fn \in Fns : ~Avail(fn, 33, h0)
       /\ \A fn \in Fns \ {"geoid"} : Avail(fn, 32, h0)
       /\ Avail("geoid", req, h0) => h0
       /\ (Avail("disturbance", req, h0) => Avail("t", req, h0)) /\ (Avail("anomaly", req, h0) => Avail("disturbance", req, h0))
       /\ (req < 32 => \A b \in {1, 2, 4, 8, 16} : \A fn \in Fns : Avail(fn, req, h0) /\ ~Bit(req, b) => Avail(fn, req + b, h0))

Single(h, l) == [L |-> 1, tau |-> <<1>>, N |-> <<h.N[l]>>, nmx |-> <<Min(h.nmx[l], h.nmx[1])>>, mmx |-> <<Min(h.mmx[l], h.mmx[1])>>, c |-> <<h.c[l]>>]
Opp(pt) == CASE pt = 1 -> 3 [] pt = 2 -> 4 [] pt = 3 -> 1 [] pt = 4 -> 2 [] pt = 5 -> 6 [] pt = 6 -> 5
RotZ(pt) == CASE pt = 1 -> 2 [] pt = 2 -> 3 [] pt = 3 -> 4 [] pt = 4 -> 1 [] OTHER -> pt
ValInv ==
  v[1] = "val" =>
    LET h == v[2]  pt == v[3]  j == v[4]  ja == v[5]  d == AXIS[pt] IN
    \* Euler: each degree-n part is homogeneous of degree -(n+1):  x . grad V_n = -(n+1) V_n
    /\ \A n \in 0..4 : Dot(d, GradDeg(h, n, pt, j, ja)) * 2^(ja + j + 1) = -(n + 1) * ValDeg(h, n, pt, j) * 2
    \* parity: V_n(-x) = (-1)^n V_n(x)
    /\ \A n \in 0..4 : ValDeg(h, n, Opp(pt), j) = (IF n % 2 = 0 THEN 1 ELSE -1) * ValDeg(h, n, pt, j)
    \* radial scaling V_n(2r) = V_n(r) / 2^(n+1)
    /\ (j <= 1 => \A n \in 0..4 : ValDeg(h, n, pt, j + 1) * 2^(n + 1) = ValDeg(h, n, pt, j))
    \* superposition: the L-component form is the weighted sum of one-component forms
    /\ ValNum(h, pt, j) = SumSeq([l \in 1..h.L |-> (IF l = 1 THEN 1 ELSE h.tau[l]) * ValNum(Single(h, l), pt, j)], 1)
    /\ GradNum(h, pt, j, ja) = LET g(l) == Scale(IF l = 1 THEN 1 ELSE h.tau[l], GradNum(Single(h, l), pt, j, ja))
                               IN IF h.L = 1 THEN g(1) ELSE IF h.L = 2 THEN Add3(g(1), g(2)) ELSE Add3(g(1), Add3(g(2), g(3)))
    \* C <-> S phase: rotating the point by +90 degrees about the axis equals replacing (C11, S11) by (S11, -C11)
    /\ (h.L = 1 => LET c == h.c[1]  hr == [h EXCEPT !.c = <<[c EXCEPT ![3] = c[4], ![4] = -c[3]]>>]
                   IN ValNum(h, RotZ(pt), j) = ValNum(hr, pt, j))
    \* the gradient is radial + axial at lattice points of a zonal field
    /\ (h.L = 1 /\ h.c[1][3] = 0 /\ h.c[1][4] = 0 => LET g == GradNum(h, pt, j, ja) IN d[3] # 0 => g[1] = 0 /\ g[2] = 0)

MagInv ==
  v[1] = "mag" =>
    LET g == v[2]  seg == Segment(g)  per == 4 * g.dt0 IN
    \* continuity at the knots of the piecewise linear time dependence
    /\ (g.tq % per = 0 /\ seg >= 1 /\ g.tq \div per = seg => MagB(g, seg) = MagB(g, seg - 1))
    \* the rate is the slope: B(t + 1/4) - B(t) = rate / 4 inside a segment
    /\ LET g2 == [g EXCEPT !.tq = g.tq + 1] IN
       Segment(g2) = seg => Scale(4, Add3(MagB(g2, seg), Scale(-1, MagB(g, seg)))) = MagBt(g, seg)
    \* at an epoch the field is that epoch's model (+ constant)
    /\ (g.tq % per = 0 /\ g.tq \div per = seg =>
          \A n \in 1..3 : Coef8(g, seg, n, 0, 0) = 8 * (SetCoef(g.sets[seg + 1], Limits(g.Nmax, g.Mmax), n, 0, 0)
                                                        + IF g.nc = 1 THEN SetCoef(g.sets[g.nm + 2], Limits(g.Nmax, g.Mmax), n, 0, 0) ELSE 0))
    \* truncation above every degree changes nothing
    /\ (g.Nmax >= 3 /\ g.Mmax \in {-1, 1, 2, 3} /\ LimitsValid(g.Nmax, g.Mmax) => MagB([g EXCEPT !.Nmax = -1, !.Mmax = -1], seg) = MagB(g, seg))
    /\ MagDegree(g) \in -1..3 /\ MagOrder(g) \in -1..1

Emit == v[1] \notin {"root", "chunk"} => PrintT(ToJson(v))
=============================================================================
