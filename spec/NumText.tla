------------------------------- MODULE NumText -------------------------------
(***************************************************************************)
(* Text <-> number conventions of GeographicLib (property C10), written     *)
(* from Utility.hpp: trim, lookup, val<real> ("readable as a T", inf and    *)
(* nan recognised, white space at both ends ignored), nummatch ("nan",      *)
(* "inf" and variants thereof), str(x, p) (fixed format with p digits,      *)
(* inf/nan spelled out), fract ("a simple fraction, e.g., 3/4") and         *)
(* ParseLine.  Text is a sequence of byte codes.                             *)
(***************************************************************************)
EXTENDS Integers, Sequences, FiniteSets

IsDigit(c) == c >= 48 /\ c <= 57
IsSpace(c) == c \in {9, 10, 11, 12, 13, 32}              \* isspace in the C locale
Upper(c) == IF c >= 97 /\ c <= 122 THEN c - 32 ELSE c
Lower(c) == IF c >= 65 /\ c <= 90 THEN c + 32 ELSE c
UpperS(s) == [i \in 1..Len(s) |-> Upper(s[i])]
LowerS(s) == [i \in 1..Len(s) |-> Lower(s[i])]
IsSign(c) == c = 43 \/ c = 45

Pow10(n) == CASE n <= 0 -> 1 [] n = 1 -> 10 [] n = 2 -> 100 [] n = 3 -> 1000 [] n = 4 -> 10000 [] n = 5 -> 100000
              [] n = 6 -> 1000000 [] n = 7 -> 10000000 [] n = 8 -> 100000000 [] OTHER -> 1000000000

RECURSIVE TrimL(_, _)
TrimL(s, i) == IF i <= Len(s) /\ IsSpace(s[i]) THEN TrimL(s, i + 1) ELSE i
RECURSIVE TrimR(_, _, _)
TrimR(s, b, e) == IF e >= b /\ IsSpace(s[e]) THEN TrimR(s, b, e - 1) ELSE e
Trim(s) == LET b == TrimL(s, 1) IN SubSeq(s, b, TrimR(s, b, Len(s)))

\* Utility::lookup(table, c): index (from 0) of the upper-cased c in table, -1 if absent; NUL never matches
Lookup(tbl, c) ==
  LET u == Upper(c)  S == {i \in 1..Len(tbl) : tbl[i] = u}
  IN IF c = 0 \/ S = {} THEN -1 ELSE (CHOOSE i \in S : \A j \in S : i <= j) - 1

(* ------------------------------------------------------------------------ *)
(* digit strings                                                             *)
(* ------------------------------------------------------------------------ *)
RECURSIVE SkipDigits(_, _)
SkipDigits(s, i) == IF i <= Len(s) /\ IsDigit(s[i]) THEN SkipDigits(s, i + 1) ELSE i
RECURSIVE SkipZeros(_, _)
SkipZeros(s, i) == IF i <= Len(s) /\ s[i] = 48 THEN SkipZeros(s, i + 1) ELSE i
RECURSIVE SkipZerosR(_, _)
SkipZerosR(s, e) == IF e >= 1 /\ s[e] = 48 THEN SkipZerosR(s, e - 1) ELSE e
RECURSIVE DV(_, _, _)
DV(ds, i, acc) == IF i > Len(ds) THEN acc ELSE DV(ds, i + 1, 10 * acc + (ds[i] - 48))
\* value of a digit string with at most 9 significant digits (callers check SigLen first)
SigLen(ds) == Len(ds) - SkipZeros(ds, 1) + 1
DigitsVal(ds) == DV(ds, SkipZeros(ds, 1), 0)
AllZero(ds, from) == \A i \in from..Len(ds) : ds[i] = 48

RECURSIVE DigitsOf(_)
DigitsOf(n) == IF n < 10 THEN <<48 + n>> ELSE Append(DigitsOf(n \div 10), 48 + (n % 10))
Pad(ds, w) == IF Len(ds) >= w THEN ds ELSE [i \in 1..(w - Len(ds)) |-> 48] \o ds

(* ------------------------------------------------------------------------ *)
(* nummatch: "nan", "inf" and variants thereof; no white space allowed       *)
(* Result "nan", "inf", "-inf" or "none".  The variants (rule NumVariants)   *)
(* are the Windows spellings and trailing zeros of a fixed-format print.     *)
(* ------------------------------------------------------------------------ *)
W_NAN == <<78, 65, 78>>
W_INF == <<73, 78, 70>>
W_INFINITY == <<73, 78, 70, 73, 78, 73, 84, 89>>
W_1QNAN == <<49, 46, 35, 81, 78, 65, 78>>
W_1SNAN == <<49, 46, 35, 83, 78, 65, 78>>
W_1IND == <<49, 46, 35, 73, 78, 68>>
W_1R == <<49, 46, 35, 82>>
W_1INF == <<49, 46, 35, 73, 78, 70>>
Special(s) ==
  IF Len(s) < 3 THEN "none"
  ELSE
    LET u == UpperS(s)
        p0 == IF IsSign(u[1]) THEN 2 ELSE 1
        p1 == SkipZerosR(u, Len(u))
        body == SubSeq(u, p0, p1)
    IN IF p1 - p0 + 1 < 3 THEN "none"
       ELSE IF body \in {W_NAN, W_1QNAN, W_1SNAN, W_1IND, W_1R} THEN "nan"
       ELSE IF body \in {W_INF, W_INFINITY, W_1INF} THEN (IF u[1] = 45 THEN "-inf" ELSE "inf")
       ELSE "none"

(* ------------------------------------------------------------------------ *)
(* val<real>: decimal floating literal as read by a C++ stream               *)
(*   [sign] (digits [. digits] | . digits) [e|E [sign] digits], whole string *)
(* Result <<"num", neg, M, E, exact>> (value (-1)^neg * M * 10^E, M < 10^9;   *)
(* exact = FALSE when the literal has more than 9 significant digits or an   *)
(* exponent out of the modelled range), <<"sp", class>> or <<"throw">>.       *)
(* ------------------------------------------------------------------------ *)
ParseNum(t) ==
  LET n == Len(t)
      i1 == IF n >= 1 /\ IsSign(t[1]) THEN 2 ELSE 1
      a == SkipDigits(t, i1)
      haspt == a <= n /\ t[a] = 46
      b == IF haspt THEN SkipDigits(t, a + 1) ELSE a
      ip == SubSeq(t, i1, a - 1)
      fp == IF haspt THEN SubSeq(t, a + 1, b - 1) ELSE <<>>
      hase == b <= n /\ t[b] \in {69, 101}
      c0 == IF hase /\ b + 1 <= n /\ IsSign(t[b + 1]) THEN b + 2 ELSE b + 1
      c == IF hase THEN SkipDigits(t, c0) ELSE b
      ed == IF hase THEN SubSeq(t, c0, c - 1) ELSE <<>>
      eneg == hase /\ b + 1 <= n /\ t[b + 1] = 45
  IN IF Len(ip) + Len(fp) = 0 \/ (hase /\ Len(ed) = 0) \/ c # n + 1 THEN <<"bad">>
     ELSE
       LET mant == ip \o fp
           z == SkipZerosR(mant, Len(mant))                 \* drop trailing zeros of the mantissa
           m2 == SubSeq(mant, 1, z)
           ok == SigLen(m2) <= 9 /\ SigLen(ed) <= 3
           ev == IF SigLen(ed) <= 3 THEN DigitsVal(ed) ELSE 0
           E == (IF eneg THEN -ev ELSE ev) - Len(fp) + (Len(mant) - z)
           M == IF SigLen(m2) <= 9 THEN DigitsVal(m2) ELSE 0
       IN <<"num", n >= 1 /\ t[1] = 45, M, IF M = 0 THEN 0 ELSE E, ok>>

Val(s) ==
  LET t == Trim(s)  p == ParseNum(t) IN
  IF p[1] = "num" THEN p
  ELSE LET sp == Special(t) IN IF sp = "none" THEN <<"throw">> ELSE <<"sp", sp>>

(* ------------------------------------------------------------------------ *)
(* The other specialisations of val<T> that Utility.hpp documents.           *)
(*  val<std::string>: "s is returned (with the white space at the beginning  *)
(*    and end removed)".                                                      *)
(*  val<int>: "readable as a T", white space at both ends ignored: a decimal  *)
(*    integer literal [sign] digits and nothing else; inf and nan are         *)
(*    recognised only "if T is a floating point type".  <<"int", neg, n>>,    *)
(*    <<"big">> (more than 9 significant digits: not modelled) or <<"throw">>.*)
(*  val<bool>: "s should either be string a representing 0 (false) or 1       *)
(*    (true) or one of the strings false f nil no n off "" meaning false,     *)
(*    true t yes y on meaning true; case is ignored".  <<"bool", b>>,         *)
(*    <<"throw">>, or <<"any">> for the spellings of 0 and 1 that are numbers *)
(*    but not integer literals (1.0, 1e0: rule BoolNumberForms).              *)
(* ------------------------------------------------------------------------ *)
ValStr(s) == Trim(s)
IntLit(t) ==
  LET n == Len(t)
      i1 == IF n >= 1 /\ IsSign(t[1]) THEN 2 ELSE 1
      a == SkipDigits(t, i1)
  IN IF a = i1 \/ a # n + 1 THEN <<"bad">>
     ELSE LET ds == SubSeq(t, i1, n) IN
          IF SigLen(ds) > 9 THEN <<"big">> ELSE <<"int", t[1] = 45, DigitsVal(ds)>>
ValInt(s) == LET r == IntLit(Trim(s)) IN IF r[1] = "bad" THEN <<"throw">> ELSE r

BoolFalseWords == {<<102, 97, 108, 115, 101>>, <<102>>, <<110, 105, 108>>, <<110, 111>>, <<110>>, <<111, 102, 102>>, <<>>}   \* false f nil no n off ""
BoolTrueWords == {<<116, 114, 117, 101>>, <<116>>, <<121, 101, 115>>, <<121>>, <<111, 110>>}                                   \* true t yes y on
ValBool(s) ==
  LET t == LowerS(Trim(s))  i == IntLit(t)  p == ParseNum(t) IN
  IF t \in BoolFalseWords THEN <<"bool", FALSE>>
  ELSE IF t \in BoolTrueWords THEN <<"bool", TRUE>>
  ELSE IF i[1] = "int" THEN (IF i[3] = 0 THEN <<"bool", FALSE>> ELSE IF i[3] = 1 /\ ~i[2] THEN <<"bool", TRUE>> ELSE <<"throw">>)
  ELSE IF i[1] = "big" THEN <<"any">>
  ELSE IF p[1] = "num" /\ p[5] /\ (p[3] = 0 \/ (p[3] = 1 /\ p[4] = 0 /\ ~p[2])) THEN <<"any">>
  ELSE <<"throw">>

(* fract: "a/b" with both sides non-empty is val(a)/val(b); otherwise val(s)  *)
SlashPos(s) == LET S == {i \in 1..Len(s) : s[i] = 47} IN IF S = {} THEN 0 ELSE CHOOSE i \in S : \A j \in S : i <= j
Fract(s) ==
  LET d == SlashPos(s) IN
  IF d >= 2 /\ d + 1 <= Len(s)
  THEN LET a == Val(SubSeq(s, 1, d - 1))  b == Val(SubSeq(s, d + 1, Len(s)))
       IN IF a[1] = "throw" \/ b[1] = "throw" THEN <<"throw">> ELSE <<"div", a, b>>
  ELSE Val(s)

(* ------------------------------------------------------------------------ *)
(* str(x, p), p >= 0: fixed format.  x = (-1)^neg * (I + F / 10^p)            *)
(* ------------------------------------------------------------------------ *)
FracStr(f, p) == IF p = 0 THEN <<>> ELSE <<46>> \o Pad(DigitsOf(f), p)
StrFixed(neg, I, F, p) == (IF neg THEN <<45>> ELSE <<>>) \o DigitsOf(I) \o FracStr(F, p)
StrSpecial(cls) == CASE cls = "nan" -> <<110, 97, 110>> [] cls = "inf" -> <<105, 110, 102>> [] cls = "-inf" -> <<45, 105, 110, 102>>

(* ------------------------------------------------------------------------ *)
(* ParseLine(line, equals, comment) -> <<found, key, value>>                  *)
(* ------------------------------------------------------------------------ *)
FirstPos(s, P(_)) == LET S == {i \in 1..Len(s) : P(s[i])} IN IF S = {} THEN 0 ELSE CHOOSE i \in S : \A j \in S : i <= j
ParseLine(line, equals, comment) ==
  LET cp == IF comment = 0 THEN 0 ELSE FirstPos(line, LAMBDA c : c = comment)
      la == Trim(IF cp = 0 THEN line ELSE SubSeq(line, 1, cp - 1))
      ep == IF equals = 0 THEN FirstPos(la, IsSpace) ELSE FirstPos(la, LAMBDA c : c = equals)
      key == Trim(IF ep = 0 THEN la ELSE SubSeq(la, 1, ep - 1))
      value == IF ep = 0 THEN <<>> ELSE Trim(SubSeq(la, ep + 1, Len(la)))
  IN IF la = <<>> \/ key = <<>> THEN <<FALSE, <<>>, <<>> >> ELSE <<TRUE, key, value>>
=============================================================================
