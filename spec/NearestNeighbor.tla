--------------------------- MODULE NearestNeighbor ---------------------------
(***************************************************************************)
(* Nearest-neighbour search in a metric space (property C17), written from  *)
(* NearestNeighbor.hpp (Search, Save/Load documentation) and the "nearest"  *)
(* page of the manual.                                                       *)
(*                                                                          *)
(* ABSTRACT SPEC.  A search is judged only through distances: dq[i] is the   *)
(* distance of point i (1-based here, 0-based in the library) to the query.  *)
(* With exhaustive = TRUE and tol = 0 the result is the k nearest points      *)
(* with distance in (mindist, maxdist], closest first; ties may be broken    *)
(* either way ("an arbitrary one of them"), so the result is characterised   *)
(* as a set S with  max dq[S] <= dq[i]  for every candidate i outside S.      *)
(*                                                                          *)
(* REFINEMENT.  The vantage-point tree in the form written by Save(): a      *)
(* sequence of nodes, root last; an internal node is                         *)
(*    <<index, lower0, upper0, child0, lower1, upper1, child1>>              *)
(* (child = node number, 0-based, -1 = none), a leaf is <<-1, leaves...>>    *)
(* (bucket entries, -1 = empty slot).  TreeValid is the data-structure       *)
(* invariant the manual describes (every point once; lower/upper = exact     *)
(* min/max distance from the vantage point to the points of that child;      *)
(* median split; buckets at the leaves) and Search is the documented search  *)
(* (priority queue of nodes, pruning with the bounds).  MC_GeodConstr checks *)
(* that on EVERY valid tree every run of Search meets the abstract spec.     *)
(*                                                                          *)
(* Distances are integers: lattice metrics, or order-preserving ranks of     *)
(* doubles (a search only compares distances, so it commutes with a          *)
(* monotone relabelling as long as tol = 0).                                 *)
(***************************************************************************)
EXTENDS Integers, Sequences, FiniteSets

NAbs(x) == IF x < 0 THEN -x ELSE x
NMax(S) == CHOOSE x \in S : \A y \in S : y <= x
NMin(S) == CHOOSE x \in S : \A y \in S : x <= y
Range(s) == {s[i] : i \in 1..Len(s)}

\* the lattice metrics of the model (driver: IntMetric): 0 = |a - b|, 1 = L1 on a 3 x 3 grid (points 0..8), 2 = discrete
Dist(m, a, b) ==
  CASE m = 0 -> NAbs(a - b)
    [] m = 1 -> NAbs((a % 3) - (b % 3)) + NAbs((a \div 3) - (b \div 3))
    [] OTHER -> IF a = b THEN 0 ELSE 1

(* ------------------------------------------------------------------------ *)
(* Abstract search                                                           *)
(* ------------------------------------------------------------------------ *)
Cands(dq, mind, maxd) == {i \in 1..Len(dq) : dq[i] > mind /\ dq[i] <= maxd}

\* S = set of returned points (1-based).  Named rules:
\*  Exact        : exhaustive, tol = 0: the k nearest candidates
\*  AnyK         : exhaustive = FALSE, tol = 0: any min(k, #candidates) candidates ("exit as soon as k results ... are found";
\*                 "if less than k results are returned then the search was exhaustive")
\*  Approx       : tol > 0 and k results: every candidate closer than dk - tol is in the result ("all results with distances
\*                 <= dk - tol are correct; ... there may be other closer results with distances >= dk - tol")
\*  ShortIsExact : tol > 0 and fewer than k results: "the search is exact"
SetOK(dq, k, mind, maxd, exh, tol, S) ==
  LET C == Cands(dq, mind, maxd)
      kk == IF k < 0 THEN 0 ELSE k
      want == IF Cardinality(C) < kk THEN Cardinality(C) ELSE kk
  IN /\ S \subseteq C
     /\ IF tol = 0
        THEN /\ Cardinality(S) = want
             /\ exh /\ S # {} => LET far == NMax({dq[i] : i \in S}) IN \A i \in C \ S : dq[i] >= far
        ELSE /\ Cardinality(S) <= kk
             /\ IF Cardinality(S) < kk THEN S = C
                ELSE exh /\ S # {} => LET dk == NMax({dq[i] : i \in S}) IN \A i \in C \ S : dq[i] >= dk - tol

\* what the mechanism guarantees when tol > 0 and fewer than k results are found (weaker than ShortIsExact; used only as the
\* invariant of the model of Search in MC_GeodConstr, see notes/C17.md finding 3): missed candidates lie in (maxd - tol, maxd]
SetOKModel(dq, k, mind, maxd, exh, tol, S) ==
  IF tol > 0 /\ Cardinality(S) < k
  THEN S \subseteq Cands(dq, mind, maxd) /\ \A i \in Cands(dq, mind, maxd) \ S : dq[i] > maxd - tol
  ELSE SetOK(dq, k, mind, maxd, exh, tol, S)

\* ind = sequence of 0-based indices as returned, d = returned value
SearchFails(dq, k, mind, maxd, exh, tol, ind, d) ==
  LET n == Len(ind)
      inrange == \A j \in 1..n : ind[j] >= 0 /\ ind[j] < Len(dq)
  IN IF ~inrange THEN <<"index-range">>
     ELSE (IF \A i, j \in 1..n : i # j => ind[i] # ind[j] THEN <<>> ELSE <<"distinct">>)
       \o (IF \A j \in 1..(n - 1) : dq[ind[j] + 1] <= dq[ind[j + 1] + 1] THEN <<>> ELSE <<"sorted-closest-first">>)
       \o (IF d = (IF n = 0 THEN -1 ELSE dq[ind[1] + 1]) THEN <<>> ELSE <<"returned-distance">>)
       \o (IF SetOK(dq, k, mind, maxd, exh, tol, {ind[j] + 1 : j \in 1..n}) THEN <<>>
           ELSE <<IF tol = 0 THEN (IF exh THEN "k-nearest-brute-force" ELSE "any-k-within-limits") ELSE "tolerance-guarantee">>)

(* ------------------------------------------------------------------------ *)
(* The tree                                                                  *)
(* ------------------------------------------------------------------------ *)
IsLeaf(nd) == nd[1] < 0
WellFormed(tree, np, bucket) ==
  \A n \in 1..Len(tree) :
    LET nd == tree[n] IN
    IF IsLeaf(nd)
    THEN /\ Len(nd) = bucket + 1 /\ bucket >= 1
         /\ nd[2] >= 0                                                   \* at least one point
         /\ \A l \in 2..Len(nd) : nd[l] >= -1 /\ nd[l] < np
         /\ \A l \in 2..(Len(nd) - 1) : nd[l] = -1 => nd[l + 1] = -1        \* valid entries first, then end markers
    ELSE /\ Len(nd) = 7 /\ nd[1] < np
         /\ \A c \in {nd[4], nd[7]} : c >= -1 /\ c < n - 1                 \* children are earlier nodes (no cycles)

RECURSIVE Sub(_, _)
\* the points (0-based) stored below node n (0-based), as a sequence
Sub(tree, n) ==
  LET nd == tree[n + 1] IN
  IF IsLeaf(nd) THEN SelectSeq(Tail(nd), LAMBDA x : x >= 0)
  ELSE <<nd[1]>> \o (IF nd[4] >= 0 THEN Sub(tree, nd[4]) ELSE <<>>) \o (IF nd[7] >= 0 THEN Sub(tree, nd[7]) ELSE <<>>)

\* D[i+1][j+1] = distance from point i to point j as the metric functor returns it (first argument = vantage point)
TreeFails(tree, D, np, bucket) ==
  IF ~WellFormed(tree, np, bucket) THEN <<"well-formed">>
  ELSE IF np = 0 THEN (IF tree = <<>> THEN <<>> ELSE <<"empty-set-empty-tree">>)
  ELSE IF tree = <<>> THEN <<"every-point-once">>
  ELSE
    LET root == Len(tree) - 1
        all == Sub(tree, root)
        internal == {n \in 0..root : ~IsLeaf(tree[n + 1])}
        BoundsOK(n, l) ==       \* l = 0 inside, 1 outside
          LET nd == tree[n + 1]  lo == nd[2 + 3 * l]  up == nd[3 + 3 * l]  ch == nd[4 + 3 * l] IN
          ch >= 0 => LET ds == {D[nd[1] + 1][p + 1] : p \in Range(Sub(tree, ch))} IN lo = NMin(ds) /\ up = NMax(ds)
        Size(n, l) == LET ch == tree[n + 1][4 + 3 * l] IN IF ch >= 0 THEN Len(Sub(tree, ch)) ELSE 0
    IN (IF Len(all) = np /\ Range(all) = 0..(np - 1) THEN <<>> ELSE <<"every-point-once">>)
       \o (IF \A n \in internal : BoundsOK(n, 0) /\ BoundsOK(n, 1) THEN <<>> ELSE <<"bounds-are-min-max">>)
       \o (IF \A n \in internal : tree[n + 1][4] >= 0 /\ tree[n + 1][7] >= 0 => tree[n + 1][3] <= tree[n + 1][5]
           THEN <<>> ELSE <<"inside-not-beyond-outside">>)
       \o (IF \A n \in internal : NAbs(Size(n, 0) - Size(n, 1)) <= 1 THEN <<>> ELSE <<"equal-halves">>)
       \o (IF \A n \in 0..root : IsLeaf(tree[n + 1]) => Len(Sub(tree, n)) <= bucket THEN <<>> ELSE <<"bucket-size">>)

(* ------------------------------------------------------------------------ *)
(* All valid trees over a set of points (model side): any vantage point, any  *)
(* median split compatible with the distances, children laid out before the   *)
(* parent.  S = set of 0-based points, off = number of nodes already placed.  *)
(* ------------------------------------------------------------------------ *)
RECURSIVE SetToSortedSeq(_)
SetToSortedSeq(S) == IF S = {} THEN <<>> ELSE LET m == NMin(S) IN <<m>> \o SetToSortedSeq(S \ {m})
Pad(s, n) == s \o [i \in 1..(n - Len(s)) |-> -1]

RECURSIVE Trees(_, _, _, _)
Trees(S, bucket, D, off) ==
  LET n == Cardinality(S) IN
  IF n <= (IF bucket = 0 THEN 1 ELSE bucket)
  THEN IF bucket = 0 THEN {<< <<NMin(S), 0, 0, -1, 0, 0, -1>> >>}
       ELSE {<< <<-1>> \o Pad(SetToSortedSeq(S), bucket) >>}
  ELSE
    LET nin == ((n + 1) \div 2) - 1 IN
    UNION { LET R == S \ {vp}
                dv(p) == D[vp + 1][p + 1]
            IN UNION { LET O == R \ I
                           TI == IF I = {} THEN {<<>>} ELSE Trees(I, bucket, D, off)
                       IN UNION { { ti \o to \o << <<vp,
                                                      IF I = {} THEN 0 ELSE NMin({dv(p) : p \in I}),
                                                      IF I = {} THEN 0 ELSE NMax({dv(p) : p \in I}),
                                                      IF I = {} THEN -1 ELSE off + Len(ti) - 1,
                                                      NMin({dv(p) : p \in O}), NMax({dv(p) : p \in O}),
                                                      off + Len(ti) + Len(to) - 1>> >>
                                    : to \in Trees(O, bucket, D, off + Len(ti)) } : ti \in TI }
                     : I \in {J \in SUBSET R : Cardinality(J) = nin /\ \A p \in J, q \in R \ J : dv(p) <= dv(q)} }
          : vp \in S }

(* ------------------------------------------------------------------------ *)
(* Search on a tree: the set of possible results over all orders in which     *)
(* entries of equal priority may leave the queue.  C = [tree, dq, k, mind,    *)
(* exh, tol]; todo = set of <<priority, node>>; res = set of <<dist, point>>; *)
(* tau = current radius.  Priority 1 = the query may lie inside the node's    *)
(* shell, -d = it is at least d outside.                                      *)
(* ------------------------------------------------------------------------ *)
PairMax(R) == CHOOSE x \in R : \A y \in R : y[1] < x[1] \/ (y[1] = x[1] /\ y[2] <= x[2])

\* offer point p (0-based): returns <<res, tau, exit>>
Offer(C, p, res, tau) ==
  LET dst == C.dq[p + 1] IN
  IF dst > C.mind /\ dst <= tau
  THEN LET r1 == IF Cardinality(res) = C.k THEN res \ {PairMax(res)} ELSE res
           r2 == r1 \cup {<<dst, p>>}
       IN IF Cardinality(r2) = C.k
          THEN IF C.exh THEN LET t2 == PairMax(r2)[1] IN <<r2, t2, t2 <= C.tol>>
               ELSE <<r2, tau, TRUE>>
          ELSE <<r2, tau, FALSE>>
  ELSE <<res, tau, FALSE>>

RECURSIVE LeafScan(_, _, _, _, _)
LeafScan(C, nd, l, res, tau) ==
  IF l > Len(nd) \/ nd[l] < 0 THEN <<res, tau, FALSE>>
  ELSE LET o == Offer(C, nd[l], res, tau) IN IF o[3] THEN o ELSE LeafScan(C, nd, l + 1, o[1], o[2])

Pushes(C, nd, dst, tau) ==
  LET tau1 == tau - C.tol
      One(l) == LET lo == nd[2 + 3 * l]  up == nd[3 + 3 * l]  ch == nd[4 + 3 * l] IN
                IF ch >= 0 /\ dst + up >= C.mind
                THEN IF dst < lo THEN (IF tau1 >= lo - dst THEN {<<dst - lo, ch>>} ELSE {})
                     ELSE IF dst > up THEN (IF tau1 >= dst - up THEN {<<up - dst, ch>>} ELSE {})
                     ELSE {<<1, ch>>}
                ELSE {}
  IN One(0) \cup One(1)

RECURSIVE Go(_, _, _, _)
Go(C, todo, res, tau) ==
  IF todo = {} THEN {res}
  ELSE LET top == NMax({x[1] : x \in todo}) IN
       UNION { LET rest == todo \ {it}
                   d == -it[1]
               IN IF ~(tau - C.tol >= d) THEN Go(C, rest, res, tau)
                  ELSE LET nd == C.tree[it[2] + 1] IN
                       IF IsLeaf(nd)
                       THEN LET o == LeafScan(C, nd, 2, res, tau) IN IF o[3] THEN {o[1]} ELSE Go(C, rest, o[1], o[2])
                       ELSE LET o == Offer(C, nd[1], res, tau) IN
                            IF o[3] THEN {o[1]}
                            ELSE Go(C, rest \cup Pushes(C, nd, C.dq[nd[1] + 1], o[2]), o[1], o[2])
             : it \in {x \in todo : x[1] = top} }

\* all possible result sets (1-based points) of Search(query, k, maxd, mind, exh, tol) on the tree
SearchResults(tree, dq, k, maxd, mind, exh, tol) ==
  IF ~(tree # <<>> /\ k > 0 /\ maxd > mind) THEN {{}}
  ELSE LET C == [tree |-> tree, dq |-> dq, k |-> k, mind |-> mind, exh |-> exh, tol |-> tol]
       IN {{x[2] + 1 : x \in r} : r \in Go(C, {<<1, Len(tree) - 1>>}, {}, maxd)}
=============================================================================
