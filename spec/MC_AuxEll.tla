---------------------------- MODULE MC_AuxEll ----------------------------
(* Lattice enumeration for C15: root -> chunk c -> vectors.                  *)
(*  cv   : every (lattice ellipsoid, from, to, series/exact, lattice angle)  *)
(*  path : every (ellipsoid, a, b, c, mode) conversion path on a few angles  *)
(*  ell  : Legendre schemas x modulus classes x parameter classes x arguments*)
(*  rc   : Carlson functions on the argument lattice (documented domain)     *)
EXTENDS EllipsoidLaws, TLC, Json

CONSTANTS Part, NChunks, Quick
VARIABLE v

Nodes == 0..5
Signs == {1, -1}
AngE == IF Quick THEN {-1074, -30, -1, 0, 30, 900}
        ELSE {-1074, -1060, -1000, -200, -30, -2, -1, 0, 1, 2, 30, 200, 900}
AngMM == {1, 3, 5}
Angles == {<<s, 0, 0>> : s \in Signs} \cup {<<s, -1, 0>> : s \in Signs}
          \cup {<<s, mm, e>> : s \in Signs, mm \in AngMM, e \in AngE}
PathAng == IF Quick THEN {<<1, 0, 0>>, <<-1, -1, 0>>, <<-1, 3, -1>>}
           ELSE {<<1, 0, 0>>, <<-1, -1, 0>>, <<1, 1, 0>>, <<-1, 3, -30>>, <<1, 5, 30>>, <<1, 1, -1000>>}

\* form: 0 (tan, 1); 1 (s mm, 2^-e); 2 the special forms of the fixed points: the pole as (+-inf, 1), the equator as (+-0, 4)
\* cm: 0 AuxLatitude(a, f); 1 AuxLatitude::axes(a, b) - the lattice ellipsoids have an exactly representable b = a P 2^-k
VecCv(C) ==
  \E fi \in 0..(NLat - 1), a \in Nodes, b \in Nodes, m \in {0, 1}, z \in Angles, form \in {0, 1, 2}, cm \in {0, 1} :
    /\ (fi * 36 + a * 6 + b) % NChunks = C
    /\ (form = 1 => z[2] = 3 /\ z[3] >= -30 /\ z[3] <= 30)
    /\ (form = 2 => ~Generic(z))
    /\ (cm = 1 => form = 0 /\ (~Generic(z) \/ z[3] \in {-30, 0}))
    /\ v' = <<"cv", fi, a, b, m, z[1], z[2], z[3], form, cm>>
VecPath(C) ==
  \E fi \in 0..(NLat - 1), a \in Nodes, b \in Nodes, c \in Nodes, m \in {0, 1}, z \in PathAng :
    /\ (fi * 216 + a * 36 + b * 6 + c) % NChunks = C
    /\ v' = <<"path", fi, a, b, c, m, z[1], z[2], z[3]>>

Args == IF Quick THEN ArgFew ELSE ArgClasses
\* cm: the way the EllipticFunction object gets its parameters (0..3, see InspOK); every mode for the complete integrals, one
\* mode per vector (spread over the lattice) for the others
VecEll(C) ==
  \/ C < 4 /\ \E kp \in ParamClasses, ap \in ParamClasses : v' = <<"ec", kp[1], kp[2], ap[1], ap[2], C>>
  \/ \E kp \in ParamClasses, ap \in ParamClasses, x \in Args, s \in Signs :
       /\ (kp[1] + 7 * ap[1] + 3 * x[1]) % NChunks = C
       /\ v' = <<"ei", kp[1], kp[2], ap[1], ap[2], s * x[1], x[2], (kp[1] + ap[1] + x[1] + BitLen(x[1])) % 4>>
  \/ \E kp \in ParamClasses, x \in Args, s \in Signs :
       /\ (kp[1] + 3 * x[1]) % NChunks = C
       /\ v' = <<"ej", kp[1], kp[2], 1, 0, s * x[1], x[2], (kp[1] + x[1] + BitLen(x[1])) % 4>>

\* the AuxAngle class on small integer directions (y, x) 2^j (j = 99: the non-zero component is infinite), and the singletons
Small == -2..2
AxisDirs == {<<sv, 0>> : sv \in {-3, -1, 1, 3}} \cup {<<0, sv>> : sv \in {-3, -1, 1, 3}}
VecAng(C) ==
  \/ C = 0 /\ \E d \in AxisDirs, j \in {-2, 0, 3, 99} : v' = <<"angl", 0, d[1], d[2], j, 0, 0, 0>>
  \/ C = 1 /\ \E y1 \in {-3, 1}, x1 \in {-1, 2}, j \in {-2, 0, 3}, y2 \in {-1, 1}, x2 \in {-1, 1} : v' = <<"angl", 1, y1, x1, j, y2, x2, 0>>
  \/ \E y1 \in Small, x1 \in Small, y2 \in Small, x2 \in Small, j1 \in {0, 3}, j2 \in {0, -2} :
       /\ (y1 + 5 * x1 + 11 * y2 + 17 * x2 + 100) % NChunks = C
       /\ (y1 # 0 \/ x1 # 0) /\ (y2 # 0 \/ x2 # 0)
       /\ v' = <<"angl", 2, y1, x1, j1, y2, x2, j2>>
  \/ C = 2 /\ \E d \in AxisDirs, j \in {-2, 0, 3} : v' = <<"angl", 3, d[1], d[2], j, 0, 0, 0>>
  \/ C = 3 /\ \E k \in Small : v' = <<"angl", 4, k, 0, 0, 0, 0, 0>>
  \/ C = 4 /\ \E which \in {0, 1} : v' = <<"sing", which>>

CA == IF Quick THEN CarlsonFew ELSE CarlsonArgs
One == <<1, 0>>
VecRc(C) ==
  \E fn \in 0..6, x \in CA, y \in CA, z \in CA, p \in CA :
    /\ (fn + 3 * x[2] + 5 * y[2] + 7 * z[2] + 11 * p[2] + 13 * x[1] + 17 * y[1]) % NChunks = C
    /\ (fn \in {1, 2, 4} => z = One /\ p = One) /\ (fn \in {0, 3, 6} => p = One)
    /\ RcDomain(fn, x, y, z, p)
    /\ v' = <<"rc", fn, x[1], x[2], y[1], y[2], z[1], z[2], p[1], p[2]>>

Init == v = <<"root">>
Next ==
  \/ v = <<"root">> /\ \E c \in 0..(NChunks - 1) : v' = <<"chunk", c>>
  \/ /\ v[1] = "chunk"
     /\ CASE Part = "cv" -> VecCv(v[2])
          [] Part = "path" -> VecPath(v[2])
          [] Part = "ell" -> VecEll(v[2]) \/ VecRc(v[2]) \/ VecAng(v[2])

(* ------------------------------ model invariants ------------------------- *)
\* the chart model on the exact sub-graph PHI/BETA/THETA: inverse pairs, oddness, fixed points, the sphere,
\* monotonicity on the sorted lattice, path independence
Plain(z) == <<z[1], z[2], z[3], 0>>
GraphInv ==
  /\ v[1] = "cv" =>
       LET fi == v[2]  a == v[3]  b == v[4]  z == <<v[6], v[7], v[8]>> IN
       (a <= 2 /\ b <= 2) =>
         LET w == Conv3(fi, a, b, z) IN
         /\ Conv3x(fi, b, a, w) = Plain(z)
         /\ Conv3(fi, a, b, <<-z[1], z[2], z[3]>>) = Neg4(w)
         /\ (~Generic(z) => w = Plain(z))
         /\ (LatP[fi + 1] = 1 /\ LatK[fi + 1] = 0 => w = Plain(z))
         /\ (a = b => w = Plain(z))
         /\ \A z2 \in Angles : (Generic(z) /\ Generic(z2) /\ z[1] = 1 /\ z2[1] = 1 /\ LessPos(z, z2))
                                  => LessPos(w, Conv3(fi, a, b, z2))
  /\ v[1] = "path" =>
       LET fi == v[2]  a == v[3]  b == v[4]  c == v[5]  z == <<v[7], v[8], v[9]>> IN
       (a <= 2 /\ b <= 2 /\ c <= 2) => Conv3x(fi, b, c, Conv3(fi, a, b, z)) = Conv3(fi, a, c, z)
EllInv ==
  /\ v[1] \in {"ec", "ei", "ej"} => ExactComplement(<<v[2], v[3]>>) /\ ExactComplement(<<v[4], v[5]>>) /\ v[Len(v)] \in 0..3
  \* the angle-addition model is the multiplication of unit complex numbers: commutative, norm-multiplicative, (0, 1) is the
  \* identity, and adding the reflected angle (-y, x) gives the positive x axis
  /\ (v[1] = "angl" /\ v[2] = 2) =>
       LET y1 == v[3]  x1 == v[4]  y2 == v[6]  x2 == v[7]
           ey == AddY(y1, x1, y2, x2)  ex == AddX(y1, x1, y2, x2) IN
       /\ ey = AddY(y2, x2, y1, x1) /\ ex = AddX(y2, x2, y1, x1)
       /\ ey * ey + ex * ex = (y1 * y1 + x1 * x1) * (y2 * y2 + x2 * x2)
       /\ AddY(y1, x1, 0, 1) = y1 /\ AddX(y1, x1, 0, 1) = x1
       /\ AddY(y1, x1, -y1, x1) = 0 /\ AddX(y1, x1, -y1, x1) > 0
RcInv ==
  v[1] = "rc" =>
    LET fn == v[2]  x == <<v[3], v[4]>>  y == <<v[5], v[6]>>  z == <<v[7], v[8]>>  p == <<v[9], v[10]>> IN
    /\ RcDomain(fn, x, y, z, p)
    /\ AllEq4(fn, x, y, z, p) =>
         LET j == x[2] \div 2  a == AnchorExp(fn, j) IN
         CASE fn \in {0, 2} -> 2 * a + x[2] = 0          \* R^2 x = 1
           [] fn = 3 -> 2 * a - x[2] = 0                 \* R^2 = x
           [] OTHER -> 2 * a + 3 * x[2] = 0              \* R^2 x^3 = 1

Emit == v[1] \notin {"root", "chunk"} => PrintT(ToJson(v))
=============================================================================
