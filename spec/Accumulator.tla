----------------------------- MODULE Accumulator -----------------------------
(***************************************************************************)
(* GeographicLib::Accumulator<T> (property C16) on an integer lattice.      *)
(* From Accumulator.hpp: the accumulator "allows many numbers of floating   *)
(* point type T to be added together with twice the normal precision";      *)
(* operator+= / -= add a number, operator*=(int) multiplies ("use n = -1 to  *)
(* negate"), operator*=(T) multiplies using fma, operator()(y) returns the   *)
(* sum plus y "but don't change sum".                                        *)
(* Abstract state: the EXACT sum as three unnormalised limbs <<c0, c1, c2>>  *)
(* = c0 + c1 B + c2 B^2, B = 2^bb.  On the lattice (all addends integers,    *)
(* |sum| < 2^(2p-3)) the documented error "1 ulp of the less significant     *)
(* word during each addition" is smaller than one unit, hence the value held *)
(* by the object must EQUAL the abstract state.                              *)
(* Operations <<k, a, b>> (y = b B^a):                                       *)
(*   0 += y    1 negate             2 *= int b    3 *= T(b)    6 -= y          *)
(*   4 probe a(y) ("Return the result of adding a number to sum (but don't    *)
(*     change sum)")                                                          *)
(*   5 a = y       operator=(T): "Set the accumulator to a number ... set     *)
(*     sum = y"                                                               *)
(*   7 compare with y: the six operators ==, !=, <, <=, >, >= "on an          *)
(*     Accumulator and a number" (non mutating)                               *)
(*   8 remainder(y): "Reduce accumulator to the range [-y/2, y/2]" (a = 0)    *)
(*   9 copy construction (the history continues on the copy)                  *)
(*   10 assignment of the accumulator over an unrelated one (continues there) *)
(*   11 a = Accumulator(y): construction from T followed by assignment        *)
(* Constructor forms (first operation of every history, and only there):      *)
(*   12 Accumulator a(y)   13 Accumulator a = y ("This is not declared        *)
(*      explicit, so that you can write Accumulator<double> a = 5;")          *)
(*   14 Accumulator a  (y defaults to 0)                                      *)
(* every one of them: "set sum = y".                                          *)
(***************************************************************************)
EXTENDS Integers, Sequences

AccZero == <<0, 0, 0>>
AccScale(E, n) == <<E[1] * n, E[2] * n, E[3] * n>>
AccUnit(a, b) == [i \in 1..3 |-> IF i = a + 1 THEN b ELSE 0]
AccCtorKinds == {12, 13, 14}
AccSetKinds == {5, 11, 12, 13}            \* "set sum = y" whatever was held before
AccKeepKinds == {4, 7, 9, 10}             \* the sum is not changed
AccTerminalKinds == {8}                   \* the successor is a set (ties, see AccRemSet): only as the last operation
AccApply(E, op) ==
  CASE op[1] = 0 -> [E EXCEPT ![op[2] + 1] = @ + op[3]]
    [] op[1] = 6 -> [E EXCEPT ![op[2] + 1] = @ - op[3]]
    [] op[1] = 1 -> AccScale(E, -1)
    [] op[1] \in {2, 3} -> AccScale(E, op[3])
    [] op[1] \in AccSetKinds -> AccUnit(op[2], op[3])
    [] op[1] = 14 -> AccZero
    [] OTHER -> E
\* canonical form: l0, l1 in [0, B), top signed
AccNorm(E, bb) ==
  LET B == 2^bb
      l0 == E[1] % B   k0 == (E[1] - l0) \div B
      c1 == E[2] + k0
      l1 == c1 % B     k1 == (c1 - l1) \div B
  IN <<l0, l1, E[3] + k1>>
AbsI(n) == IF n < 0 THEN -n ELSE n
\* limbs small enough for 32-bit arithmetic in the model and |sum| < 2^(2p-3) (p = 24: bb = 15; p = 53: bb = 30)
AccInRange(E, bb) ==
  /\ \A i \in 1..3 : AbsI(E[i]) <= 2^27
  /\ LET t == AccNorm(E, bb)[3] IN IF bb = 15 THEN t >= -(2^14) /\ t < 2^14 ELSE t >= -(2^20) /\ t < 2^20

(* ------------------------------------------------------------------------ *)
(* Comparison with a number y = b B^a.  AccCmp3 is the exact three-way       *)
(* comparison of the sum with y (on canonical limbs the order is             *)
(* lexicographic from the top).  The class comment allows the value reported *)
(* by a() to be off by "1 ulp in the reported sum", so the outcome of a      *)
(* comparison is only decided by the model when y = 0 (the sum is zero iff   *)
(* the reported value is, and they have the same sign) or when sum and y     *)
(* differ by more than B^2 (far more than an ulp of any sum in range).       *)
(* Whatever the values, the six operators must be the six relations of ONE   *)
(* three-way comparison c (the comparison of a() with y):                    *)
(* ------------------------------------------------------------------------ *)
AccSgnN(n) == IF n[3] # 0 THEN (IF n[3] > 0 THEN 1 ELSE -1) ELSE IF n[2] # 0 \/ n[1] # 0 THEN 1 ELSE 0
AccDiff(E, a, b, bb) == AccNorm([E EXCEPT ![a + 1] = @ - b], bb)
AccCmp3(E, a, b, bb) == AccSgnN(AccDiff(E, a, b, bb))
AccCmpDecided(E, a, b, bb) == b = 0 \/ AccDiff(E, a, b, bb)[3] \notin {-2, -1, 0, 1}
\* o = <<c, eq, ne, lt, le, gt, ge>>
AccCmpFamily(o) == /\ o[1] \in {-1, 0, 1}
                   /\ o[2] = (o[1] = 0) /\ o[3] = (o[1] # 0) /\ o[4] = (o[1] < 0)
                   /\ o[5] = (o[1] <= 0) /\ o[6] = (o[1] > 0) /\ o[7] = (o[1] >= 0)

(* ------------------------------------------------------------------------ *)
(* remainder(y), y = b > 0 an integer below B: the accumulator afterwards    *)
(* holds a value congruent to the sum modulo y in [-y/2, y/2]: the centred   *)
(* residue; at an exact tie (2 c = y) the documentation does not say which   *)
(* end (named freedom RemTieFree), so the result is a set.                   *)
(* ------------------------------------------------------------------------ *)
AccResidue(E, b, bb) ==          \* (c0 + c1 B + c2 B^2) mod b with 32-bit intermediates (b < 2^15)
  LET Bm == (2^bb) % b IN ((E[1] % b) + ((E[2] % b) * Bm) + (((((E[3] % b) * Bm) % b) * Bm))) % b
AccRemSet(E, b, bb) ==
  LET c == AccResidue(E, b, bb) IN
  IF 2 * c < b THEN {c} ELSE IF 2 * c > b THEN {c - b} ELSE {c, c - b}
\* value of canonical limbs that hold a small integer (|v| < B), else "big"
AccSmall(n, bb) == IF n[3] = 0 /\ n[2] = 0 THEN n[1]
                   ELSE IF n[3] = -1 /\ n[2] = 2^bb - 1 /\ n[1] > 0 THEN n[1] - 2^bb ELSE 2^bb
=============================================================================
