----------------------------- MODULE Accumulator -----------------------------
(***************************************************************************)
(* GeographicLib::Accumulator<T> (property C16) on an integer lattice.      *)
(* From Accumulator.hpp: the accumulator "allows many numbers of floating   *)
(* point type T to be added together with twice the normal precision";      *)
(* operator+= / -= add a number, operator*=(int) multiplies ("use n = -1 to  *)
(* negate"), operator*=(T) multiplies using fma, operator()(y) returns the   *)
(* sum plus y "but don't change sum".                                        *)
(* Abstract state: the EXACT sum as three unnormalised limbs <<c0, c1, c2>>  *)
(* = c0 + c1 B + c2 B^2, B = 2^bb.  On the lattice (all addends integers,    *)
(* |sum| < 2^(2p-3)) the documented error "1 ulp of the less significant     *)
(* word during each addition" is smaller than one unit, hence the value held *)
(* by the object must EQUAL the abstract state.                              *)
(* Operations <<k, a, b>>: 0 add b B^a; 1 negate; 2 *= int b; 3 *= T(b);      *)
(* 4 probe a(b B^a) (non mutating).                                          *)
(***************************************************************************)
EXTENDS Integers, Sequences

AccZero == <<0, 0, 0>>
AccScale(E, n) == <<E[1] * n, E[2] * n, E[3] * n>>
AccApply(E, op) ==
  CASE op[1] = 0 -> [E EXCEPT ![op[2] + 1] = @ + op[3]]
    [] op[1] = 1 -> AccScale(E, -1)
    [] op[1] \in {2, 3} -> AccScale(E, op[3])
    [] OTHER -> E
\* canonical form: l0, l1 in [0, B), top signed
AccNorm(E, bb) ==
  LET B == 2^bb
      l0 == E[1] % B   k0 == (E[1] - l0) \div B
      c1 == E[2] + k0
      l1 == c1 % B     k1 == (c1 - l1) \div B
  IN <<l0, l1, E[3] + k1>>
AbsI(n) == IF n < 0 THEN -n ELSE n
\* limbs small enough for 32-bit arithmetic in the model and |sum| < 2^(2p-3) (p = 24: bb = 15; p = 53: bb = 30)
AccInRange(E, bb) ==
  /\ \A i \in 1..3 : AbsI(E[i]) <= 2^27
  /\ LET t == AccNorm(E, bb)[3] IN IF bb = 15 THEN t >= -(2^14) /\ t < 2^14 ELSE t >= -(2^20) /\ t < 2^20
=============================================================================
