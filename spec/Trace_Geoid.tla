---------------------------- MODULE Trace_Geoid ----------------------------
(* Stateful validation of Geoid observations (C20).  A "Reset" record starts *)
(* a fresh object (raster kind/size/mode); the spec tracks the cache flag    *)
(* and judges every height, cache operation and inspector.                    *)
EXTENDS Geoid, TraceKit

VARIABLES l, cubic, ts, cached

YMax == 8 * (H - 1)
XPer == 8 * W
TolPoly == 1000       \* 1e-3 of 1/512 raster unit: cubic fit must reproduce a cubic polynomial (round-off only)
TolPer == 1000        \* 1e-12 of the raster span: periodicity / continuity on arbitrary doubles
TolConv == 50         \* 5e-11 m on ConvertHeight inverse pair (heights <= 1e4 m)

\* the stencil of a cubic query stays inside the raster (no longitude seam, no pole reflection)
Interior(x, y) ==
  LET ix == CellX(x)  iy == CellY(y) IN ix >= 1 /\ ix <= W - 3 /\ iy >= 1 /\ iy <= H - 3

\* window logic uses the raster size reported with the record (random rasters vary)
Full(r) == r.win[2] - r.win[1] = 8 * r.W
\* window [west, east) x [north, south] contains the request <<s, w, n, e>> (eighths; Y8 grows southwards)
\* slack = 0: exact lattice request (east and south edges excluded from the window);
\* slack = 1: the request was rounded outwards to integers by the observer
Contains(r, a, slack) ==
  LET win == r.win  xper == 8 * r.W  ymax == 8 * (r.H - 1) IN
  /\ win[3] <= a[3]
  /\ (win[4] + slack > a[1] \/ (win[4] = ymax /\ a[1] >= ymax))
  /\ \/ Full(r)
     \/ LET e == IF a[4] <= a[2] THEN a[4] + xper ELSE a[4]
        IN \E k \in {-1, 0, 1} : win[1] <= a[2] + k * xper /\ e + k * xper < win[2] + slack

ResetOK(r) == r.out = "ok" /\ r.tsflag = r.ts /\ r.meta /\ r.cache = r.ts /\ r.kind = Kind /\ (Kind # "rnd" => r.W = W /\ r.H = H)

HeightOK(r) ==
  /\ r.out = "ok" /\ r.fin /\ r.eqf /\ r.eqt
  /\ r.cache = cached
  /\ (Kind = "grid" /\ ~cubic => r.v = H64(r.x, r.y) /\ r.r = 0)
  /\ (Kind = "poly" /\ cubic /\ Interior(r.x, r.y) => r.v = P512(r.x, r.y) /\ r.r <= TolPoly)

CaOK(r, a) ==
  IF ts THEN r.out = "throw" /\ r.cache
  ELSE IF a[1] < a[3] THEN r.out = "ok" /\ ~r.cache
  ELSE r.out = "ok" /\ r.cache /\ Contains(r, a, 0)

CallOK(r) == IF ts THEN r.out = "throw" /\ r.cache ELSE r.out = "ok" /\ r.cache /\ Full(r) /\ r.win[3] = 0 /\ r.win[4] = 8 * (r.H - 1)
CcOK(r) == r.out = "ok" /\ r.cache = ts

RhOK(r) ==
  /\ r.out = "ok" /\ r.fin /\ r.eqf /\ r.eqt /\ r.cache = cached
  \* cubic interpolation is a per-cell fit (discontinuous at cell boundaries): periodicity is stated away from them
  /\ (~cubic \/ r.edge > 1000 => r.per <= TolPer)
  /\ r.cont <= TolPer /\ r.conv <= TolConv /\ r.convdef

RcaOK(r) ==
  IF r.empty THEN r.out = "ok" /\ ~r.cache
  ELSE r.out = "ok" /\ r.cache /\ Contains(r, r.req, 1)

FileOK(r) == IF r.fault \in {"none", "comment-junk"} THEN r.out = "ok" ELSE r.out = "throw"

Obligation(r) ==
  CASE r.e = "Reset" -> ResetOK(r)
    [] r.e = "h" -> HeightOK(r)
    [] r.e = "ca" -> CaOK(r, r.a)
    [] r.e = "call" -> CallOK(r)
    [] r.e = "cc" -> CcOK(r)
    [] r.e = "rh" -> RhOK(r)
    [] r.e = "rca" -> RcaOK(r)
    [] r.e = "rnan" -> r.isnan
    [] r.e = "file" -> FileOK(r)
    [] OTHER -> FALSE

\* successor of the abstract state according to the SPEC (not the observation)
NextCached(r) ==
  CASE r.e = "Reset" -> r.ts
    [] r.e = "ca" -> IF ts THEN TRUE ELSE ~(r.a[1] < r.a[3])
    [] r.e = "rca" -> ~r.empty
    [] r.e = "call" -> TRUE
    [] r.e = "cc" -> ts
    [] OTHER -> cached

Expected(r) ==
  CASE r.e = "h" -> <<IF Kind = "grid" /\ ~cubic THEN H64(r.x, r.y) ELSE IF Kind = "poly" THEN P512(r.x, r.y) ELSE 0, cached>>
    [] OTHER -> <<cached, ts>>

Init == l = 1 /\ KitInit /\ cubic = FALSE /\ ts = FALSE /\ cached = FALSE
Next == /\ l <= NT
        /\ Require(Obligation(T[l]), l, "geoid-" \o T[l].e, Expected(T[l]))
        /\ Consumed(l)
        /\ l' = l + 1
        /\ cubic' = (IF T[l].e = "Reset" THEN T[l].cubic ELSE cubic)
        /\ ts' = (IF T[l].e = "Reset" THEN T[l].ts ELSE ts)
        /\ cached' = NextCached(T[l])
=============================================================================
