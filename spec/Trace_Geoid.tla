---------------------------- MODULE Trace_Geoid ----------------------------
(* Stateful validation of Geoid observations (C20).  A "Reset" record starts *)
(* a fresh object (raster kind/size/mode); the spec tracks the cache flag    *)
(* and judges every height, cache operation and inspector.                    *)
EXTENDS Geoid, TraceKit

VARIABLES l, cubic, ts, cached

YMax == 8 * (H - 1)
XPer == 8 * W
TolPoly == 1000       \* 1e-3 of 1/512 raster unit: cubic fit must reproduce a cubic polynomial (round-off only)
TolPer == 1000        \* 1e-12 of the raster span: periodicity / continuity on arbitrary doubles
TolConv == 50         \* 5e-11 m on ConvertHeight inverse pair (heights <= 1e4 m)

\* the stencil of a cubic query stays inside the raster (no longitude seam, no pole reflection)
Interior(x, y) ==
  LET ix == CellX(x)  iy == CellY(y) IN ix >= 1 /\ ix <= W - 3 /\ iy >= 1 /\ iy <= H - 3

\* window logic uses the raster size reported with the record (random rasters vary)
Full(r) == r.win[2] - r.win[1] = 8 * r.W
\* window [west, east) x [north, south] contains the request <<s, w, n, e>> (eighths; Y8 grows southwards)
\* slack = 0: exact lattice request (east and south edges excluded from the window);
\* slack = 1: the request was rounded outwards to integers by the observer
Contains(r, a, slack) ==
  LET win == r.win  xper == 8 * r.W  ymax == 8 * (r.H - 1) IN
  /\ win[3] <= a[3]
  /\ (win[4] + slack > a[1] \/ (win[4] = ymax /\ a[1] >= ymax))
  /\ \/ Full(r)
     \/ LET e == IF a[4] <= a[2] THEN a[4] + xper ELSE a[4]
        IN \E k \in {-1, 0, 1} : win[1] <= a[2] + k * xper /\ e + k * xper < win[2] + slack

ResetOK(r) == r.out = "ok" /\ r.tsflag = r.ts /\ r.meta /\ r.cache = r.ts /\ r.kind = Kind /\ (Kind # "rnd" => r.W = W /\ r.H = H)

HeightOK(r) ==
  /\ r.out = "ok" /\ r.fin /\ r.eqf /\ r.eqt
  /\ r.cache = cached
  /\ (Kind = "grid" /\ ~cubic => r.v = H64(r.x, r.y) /\ r.r = 0)
  /\ (Kind = "poly" /\ cubic /\ Interior(r.x, r.y) => r.v = P512(r.x, r.y) /\ r.r <= TolPoly)
  \* polar cell rows: the constrained least-squares cubic reproduces a cubic that is constant along the pole (Geoid.tla)
  /\ (Kind = "ppoly" /\ cubic /\ PolarInterior(r.x, r.y) => r.v = PQ512(r.x, r.y) /\ r.r <= TolPoly)

CaOK(r, a) ==
  IF ts THEN r.out = "throw" /\ r.cache
  ELSE IF a[1] < a[3] THEN r.out = "ok" /\ ~r.cache
  ELSE r.out = "ok" /\ r.cache /\ Contains(r, a, 0)

CallOK(r) == IF ts THEN r.out = "throw" /\ r.cache ELSE r.out = "ok" /\ r.cache /\ Full(r) /\ r.win[3] = 0 /\ r.win[4] = 8 * (r.H - 1)
CcOK(r) == r.out = "ok" /\ r.cache = ts

RhOK(r) ==
  /\ r.out = "ok" /\ r.fin /\ r.eqf /\ r.eqt /\ r.cache = cached
  \* cubic interpolation is a per-cell fit (discontinuous at cell boundaries): periodicity is stated away from them
  /\ (~cubic \/ r.edge > 1000 => r.per <= TolPer)
  /\ r.cont <= TolPer /\ r.conv <= TolConv /\ r.convdef
  \* cubic at a pole (record field present only then): "constrained to be independent of longitude when evaluating the
  \* height at one of the poles" - a second longitude of the same cell gives the same height (round-off of the raster span);
  \* stated away from the cell boundaries in longitude (edgex, 1e-12 cell), where "the same cell" is decided by round-off
  /\ ("pole" \in DOMAIN r /\ r.edgex > 1000 => r.pole <= TolPer)

RcaOK(r) ==
  IF r.empty THEN r.out = "ok" /\ ~r.cache
  ELSE r.out = "ok" /\ r.cache /\ Contains(r, r.req, 1)

\* r.ctor: outcome of the constructor alone ("@exception GeographicErr if the data file cannot be found, is unreadable, or
\* is corrupt"); r.out: outcome of constructor + one evaluation
FileOK(r) == IF r.fault \in {"none", "comment-junk"} THEN r.out = "ok" /\ r.ctor = "ok" ELSE r.out = "throw" /\ r.ctor = "throw"

(* ---------------------------------------------------------------------------------------------------------------- *)
(* GeoidEval (man page).  One record per input line of one run of the real tool on the synthetic raster (offset     *)
(* -108 m, scale 1/4 m): options, position (eighths), the height to convert in quarter metres, input and output     *)
(* tokens (byte codes).  Output: the geoid height N, or with --msltohae / --haetomsl "the output echoes the input    *)
(* line with the height converted": h = N + H, H = -N + h.  N is the documented interpolation: cubic unless -l,      *)
(* whatever cache (-a, -c) is in use.  Heights are printed as fixed-point decimals: 4 digits for N (man page example *)
(* 28.7068); for converted heights the example shows 3 (-10.842), so 3 or 4 are admitted (named rule DecDigits).     *)
(* The printed number must be the exact value correctly rounded to the printed digits (either neighbour on a tie).   *)
(* ---------------------------------------------------------------------------------------------------------------- *)
IsDigit(c) == c >= 48 /\ c <= 57
RECURSIVE DigitsVal(_, _, _)
DigitsVal(t, i, j) == IF j < i THEN 0 ELSE 10 * DigitsVal(t, i, j - 1) + (t[j] - 48)
\* fixed-point decimal [-]ddd.ddd -> [ok, nd (fraction digits), val (integer, in units of 10^-nd)]
ParseDec(t) ==
  LET n == Len(t)
      neg == n > 0 /\ t[1] = 45
      s == IF neg THEN 2 ELSE 1
      dots == {i \in s..n : t[i] = 46}
  IN IF Cardinality(dots) # 1 THEN [ok |-> FALSE, nd |-> 0, val |-> 0]
     ELSE LET d == CHOOSE i \in dots : TRUE
              wf == d > s /\ d < n /\ d - s <= 5 /\ n - d <= 4 /\ \A i \in s..n : i = d \/ IsDigit(t[i])
          IN IF ~wf THEN [ok |-> FALSE, nd |-> 0, val |-> 0]
             ELSE LET nd == n - d
                      p10 == IF nd = 1 THEN 10 ELSE IF nd = 2 THEN 100 ELSE IF nd = 3 THEN 1000 ELSE 10000
                      mag == DigitsVal(t, s, d - 1) * p10 + DigitsVal(t, d + 1, n)
                  IN [ok |-> TRUE, nd |-> nd, val |-> IF neg THEN 0 - mag ELSE mag]

\* exact interpolated raster value V over denominator 4 * Dd (bilinear 64, cubic 512), where the value law applies
ToolHasValue(r) == IF r.cubic THEN Kind = "poly" /\ Interior(r.x, r.y) ELSE Kind \in {"grid", "poly"}
ToolV(r) == IF r.cubic THEN P512(r.x, r.y) ELSE H64(r.x, r.y)
ToolDd(r) == IF r.cubic THEN 128 ELSE 16
\* N in units of 1e-4 m is  -1080000 + 2500 V / (4 Dd) = NQ + NR / Dd  with  NQ integer and 0 <= NR < 625 Dd  (no overflow)
NQ(r) == 625 * (ToolV(r) \div ToolDd(r)) - 1080000
NR(r) == 625 * (ToolV(r) % ToolDd(r))
\* printed value p (units 1e-4 m, nd digits printed) is sign * N + base correctly rounded: | Dd (p - base - sign NQ) - sign NR | <= Dd u / 2,
\* u = 10^(4 - nd); cubic heights carry round-off (TolPoly: < 1/128 of 1e-4 m), which may move a value across a rounding tie
RoundedOK(r, p, nd, base, sign) ==
  LET u == IF nd = 4 THEN 1 ELSE 10
      dq == p * u - base - sign * NQ(r)                   \* within 1 + 625 of zero when correct; bounded first (32-bit integers)
      e == ToolDd(r) * dq - sign * NR(r)
      half == (ToolDd(r) * u) \div 2 + (IF r.cubic THEN 1 ELSE 0)
  IN dq <= 1000 /\ 0 - dq <= 1000 /\ e <= half /\ 0 - e <= half
DecDigits(mode) == IF mode = "n" THEN {4} ELSE {3, 4}
ToolOK(r) ==
  /\ r.status = 0 /\ r.has
  /\ Len(r.tok) = (IF r.mode = "n" THEN 1 ELSE 3)
  /\ (r.mode # "n" => r.tok[1] = r.inp[1] /\ r.tok[2] = r.inp[2])          \* echo of the input line
  /\ LET d == ParseDec(r.tok[Len(r.tok)])   h4 == 2500 * r.hq IN
     /\ d.ok /\ d.nd \in DecDigits(r.mode)
     /\ (r.mode = "n" /\ ToolHasValue(r) => RoundedOK(r, d.val, d.nd, 0, 1))
     /\ (r.mode = "m2h" /\ ToolHasValue(r) => RoundedOK(r, d.val, d.nd, h4, 1))      \* h = N + H
     /\ (r.mode = "h2m" /\ ToolHasValue(r) => RoundedOK(r, d.val, d.nd, h4, -1))     \* H = -N + h
     \* --msltohae piped into --haetomsl returns the height to the documented print precision (1e-3 m: two roundings of
     \* at most half a unit of the third decimal each)
     /\ (r.mode = "rt" => LET u == IF d.nd = 4 THEN 1 ELSE 10 IN d.val * u - h4 <= 10 /\ h4 - d.val * u <= 10)

Obligation(r) ==
  CASE r.e = "Reset" -> ResetOK(r)
    [] r.e = "h" -> HeightOK(r)
    [] r.e = "ca" -> CaOK(r, r.a)
    [] r.e = "call" -> CallOK(r)
    [] r.e = "cc" -> CcOK(r)
    [] r.e = "rh" -> RhOK(r)
    [] r.e = "rca" -> RcaOK(r)
    [] r.e = "rnan" -> r.isnan
    [] r.e = "file" -> FileOK(r)
    [] r.e = "tool" -> r.mode \in {"n", "m2h", "h2m", "rt"} /\ ToolOK(r)
    [] OTHER -> FALSE

\* successor of the abstract state according to the SPEC (not the observation)
NextCached(r) ==
  CASE r.e = "Reset" -> r.ts
    [] r.e = "ca" -> IF ts THEN TRUE ELSE ~(r.a[1] < r.a[3])
    [] r.e = "rca" -> ~r.empty
    [] r.e = "call" -> TRUE
    [] r.e = "cc" -> ts
    [] OTHER -> cached

Expected(r) ==
  CASE r.e = "h" -> <<IF Kind = "grid" /\ ~cubic THEN H64(r.x, r.y) ELSE IF Kind = "poly" THEN P512(r.x, r.y)
                      ELSE IF Kind = "ppoly" /\ PolarRow(r.y) THEN PQ512(r.x, r.y) ELSE 0, cached>>
    [] r.e = "tool" -> <<ToolV(r), NQ(r), NR(r)>>
    [] OTHER -> <<cached, ts>>

Init == l = 1 /\ KitInit /\ cubic = FALSE /\ ts = FALSE /\ cached = FALSE
Next == /\ l <= NT
        /\ Require(Obligation(T[l]), l, "geoid-" \o T[l].e, Expected(T[l]))
        /\ Consumed(l)
        /\ l' = l + 1
        /\ cubic' = (IF T[l].e = "Reset" THEN T[l].cubic ELSE cubic)
        /\ ts' = (IF T[l].e = "Reset" THEN T[l].ts ELSE ts)
        /\ cached' = NextCached(T[l])
=============================================================================
