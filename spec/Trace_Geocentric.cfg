INIT Init
NEXT Next
CONSTANTS TolRel = 1100 TolOut = 627 TolH = 1254 TolFR = 1402 TolLatNm = 5 ShellPpm = 783928 ExtSlack = 16 UflowLo = 600 UflowHi = 440
POSTCONDITION Summary
CHECK_DEADLOCK FALSE
