------------------------------- MODULE ConicSym -------------------------------
(***************************************************************************)
(* Polar stereographic, Lambert conformal conic and Albers equal-area       *)
(* projections (property C11): the exact, discrete part of the              *)
(* specification.  Written from PolarStereographic.hpp,                     *)
(* LambertConformalConic.hpp, AlbersEqualArea.hpp and Snyder (USGS PP 1395) *)
(* as cited there - not from the .cpp files.                                *)
(*                                                                          *)
(*  1. Admissibility: which constructor / SetScale calls succeed.          *)
(*  2. Canonical description of the projection a constructor call denotes   *)
(*     (two-parallel / one-parallel / sin-cos forms, argument order, polar  *)
(*     limits across classes): equal canon = same projection.               *)
(*  3. The symmetry group acting on (standard parallels, hemisphere, lat,   *)
(*     lon, lon0) and its representation on the outputs (x, y, gamma, k).   *)
(*  4. Sphere anchors: points where the textbook closed form is rational.   *)
(*                                                                          *)
(* Latitudes of the lattice are Eps numbers <<p, d>>: p integer degrees,    *)
(* d in {-1,0,1} ulps.                                                      *)
(***************************************************************************)
EXTENDS Integers, Sequences, FiniteSets

Fams == {"ps", "lcc", "alb"}
Abs(x) == IF x < 0 THEN -x ELSE x
Sgn(x) == IF x < 0 THEN -1 ELSE IF x > 0 THEN 1 ELSE 0
Min(a, b) == IF a <= b THEN a ELSE b
Max(a, b) == IF a >= b THEN a ELSE b
Mod4(x) == ((x % 4) + 4) % 4

(* ---------------------------------------------------------------------- *)
(* 1. Admissibility                                                        *)
(* ---------------------------------------------------------------------- *)
\* scalar argument codes (the driver maps a code to a double; see drv_conic.cpp)
\*   k : 1 -> 1/2, 2 -> 1, 3 -> 2 (good);  0 -> 0, -1 -> -1, 8 -> +inf, 9 -> NaN (bad)
\*       4 -> 0.994 (good; used only as the scale an object is BUILT with before SetScale calls: a value that no call writes)
\*       7 -> the argument is omitted: SetScale(lat), documented "k scale at latitude lat (default 1)"  (SetScale calls only)
\*   f : 0 -> 0, 1 -> 1/298.257223563, 2 -> -1/150, 3 -> 1/2 (good);  5 -> 1, 6 -> 3/2, 7 -> -inf, 8 -> +inf, 9 -> NaN (bad)
\*   a : 0 -> 6378137, 1 -> 1 (good);  5 -> 0, 6 -> -1, 8 -> +inf, 9 -> NaN (bad)
KCodes == {-1, 0, 1, 2, 3, 8, 9}
FCodes == {0, 1, 2, 3, 5, 6, 7, 8, 9}
ACodes == {0, 1, 5, 6, 8, 9}
KGood(kc) == kc \in {1, 2, 3}        \* "k0 is not positive" -> GeographicErr
KCallCodes == KCodes \cup {7}        \* the k argument of SetScale: a code, or omitted
KGoodCall(kc) == KGood(kc) \/ kc = 7 \* "(default 1)"
KObjCodes == {1, 4}                  \* scales of the objects that SetScale is called on
FGood(fc) == fc \in {0, 1, 2, 3}     \* "(1 - f) a is not positive" -> GeographicErr (f < 1, finite)
AGood(ac) == ac \in {0, 1}           \* "a is not positive" -> GeographicErr
KNum(kc) == IF kc = 3 THEN 2 ELSE 1  \* the good scales as rationals KNum/KDen
KDen(kc) == IF kc = 1 THEN 2 ELSE 1

\* A standard parallel as given to a constructor.  ct = 1 (one parallel, degrees), 2 (two parallels, degrees):
\* an Eps number <<p, d>>.  ct = 3 (sines and cosines) and 4 (the same, both multiplied by 1/2: "un-normalised"):
\* <<c, 0>> with c an integer degree in -90..90 (sin c, cos c) or a special code
\*   100 -> (0, 0)   101 -> (1/2, -1/2) negative cosine   102 -> (3/2, 0) |sin| > 1   103 -> (0, 3/2) cos > 1
\*   104 -> (0.3, 0.4) valid, un-normalised   105 -> (NaN, 1)
\*   106 -> (1/2, NaN)   107 -> (NaN, NaN)   108 -> (+inf, 1/2)   109 -> (1/2, +inf)   110 -> (-3/2, 0)   111 -> (1/2, -inf)
\* Degree latitudes beyond the Eps lattice: p = 999 -> NaN, 998 -> +inf, -998 -> -inf (d = 0): "not in [-90d, 90d]".
SCBad == {100, 101, 102, 103, 105, 106, 107, 108, 109, 110, 111}
LatNaN == 999
LatInf == 998
EpsBad(P) == P[1] > 90 \/ (P[1] = 90 /\ P[2] > 0) \/ P[1] < -90 \/ (P[1] = -90 /\ P[2] < 0)
ParKind(ct, P) ==
  IF ct \in {1, 2} THEN (IF EpsBad(P) THEN "bad" ELSE IF P = <<90, 0>> THEN "np" ELSE IF P = <<-90, 0>> THEN "sp" ELSE "in")
  ELSE (IF P[1] \in SCBad \/ P[1] > 105 \/ P[1] < -90 \/ (P[1] > 90 /\ P[1] < 100) THEN "bad"
        ELSE IF P[1] = 90 THEN "np" ELSE IF P[1] = -90 THEN "sp" ELSE "in")
IsPole(kd) == kd \in {"np", "sp"}

\* headers: LCC "either stdlat1 or stdlat2 is a pole and stdlat1 is not equal stdlat2" -> GeographicErr;
\*          Albers "stdlat1 and stdlat2 are opposite poles" -> GeographicErr;  latitude outside [-90, 90] -> GeographicErr.
\* c = [fam, ct, P1, P2, kc, fc, ac]; for ct = 1 and for "ps" P2 is ignored.
CtorOutcome(c) ==
  LET k1 == ParKind(c.ct, c.P1)
      k2 == IF c.ct = 1 THEN k1 ELSE ParKind(c.ct, c.P2)
      eq == c.ct = 1 \/ c.P1 = c.P2
  IN IF ~AGood(c.ac) \/ ~FGood(c.fc) \/ ~KGood(c.kc) THEN "throw"
     ELSE IF c.fam = "ps" THEN "ok"
     ELSE IF k1 = "bad" \/ k2 = "bad" THEN "throw"
     ELSE IF c.fam = "lcc" THEN (IF (IsPole(k1) \/ IsPole(k2)) /\ ~eq THEN "throw" ELSE "ok")
     ELSE (IF IsPole(k1) /\ IsPole(k2) /\ k1 # k2 THEN "throw" ELSE "ok")

\* SetScale(lat, k) on an object.  obj = [fam, pol] with pol in {"np", "sp", "no"}: the pole at which the projection is
\* polar (PS objects: "np", SetScale refers to northp = true).
\*   PS:     lat in (-90, 90]          Albers: lat in (-90, 90)            LCC: lat in [-90, 90]
\* LCC_SetScale_Pole (named rule): at a pole where the projection is not polar the scale is 0 or infinite, no finite
\* rescaling exists, and the call must fail; at the pole of a polar LCC it succeeds (k there is CentralScale).
SetScaleOutcome(fam, pol, lat, kc) ==
  LET np == lat = <<90, 0>>   sp == lat = <<-90, 0>> IN
  IF ~KGoodCall(kc) \/ EpsBad(lat) THEN "throw"
  ELSE IF fam = "ps" THEN (IF sp THEN "throw" ELSE "ok")
  ELSE IF fam = "alb" THEN (IF np \/ sp THEN "throw" ELSE "ok")
  ELSE IF np THEN (IF pol = "np" THEN "ok" ELSE "throw")
  ELSE IF sp THEN (IF pol = "sp" THEN "ok" ELSE "throw")
  ELSE "ok"

(* The object as a state machine under SetScale.  The scale in force is either the one given to the constructor       *)
(* (state <<0, 0, 0>>) or the one prescribed by the last SetScale call that did not throw (state <<p, d, kc>>: the scale  *)
(* at the latitude <<p, d>> is the value of kc).  PolarStereographic.hpp, CentralScale: "the value of k0 used in the      *)
(* constructor ... unless overridden by SetScale": a call that throws has not overridden anything (the object is exactly *)
(* as before), a call that returns overrides whatever was in force, so the state depends on the last such call only.     *)
ScaleCtor == <<0, 0, 0>>
SetScaleStep(fam, pol, st, call) ==
  IF SetScaleOutcome(fam, pol, <<call[1], call[2]>>, call[3]) = "ok" THEN call ELSE st
\* calls: a sequence of <<p, d, kc>>; the state after the first i calls
RECURSIVE ScaleAfter(_, _, _, _)
ScaleAfter(fam, pol, calls, i) ==
  IF i = 0 THEN ScaleCtor ELSE SetScaleStep(fam, pol, ScaleAfter(fam, pol, calls, i - 1), calls[i])
\* the pole at which an object of the lattice is polar: PS "np" (SetScale "assuming northp = true")
PolOf(fam, p1, p2) == IF fam = "ps" THEN "np" ELSE IF p1 = 90 /\ p2 = 90 THEN "np" ELSE IF p1 = -90 /\ p2 = -90 THEN "sp" ELSE "no"

(* ---------------------------------------------------------------------- *)
(* 2. Canonical description (integer-degree parallels, admissible calls)   *)
(* ---------------------------------------------------------------------- *)
\* d = [fam, ct, p1, p2, kc] with ct = 0 for PolarStereographic used with northp = (p1 = 90).
\* "the two-parallel, one-parallel and sin/cos constructors describe the same projection whenever their parameters
\* coincide"; LCC "correctly becomes ... the polar stereographic projection when the standard latitude is a pole".
DescOK(d) ==
  /\ d.fam \in Fams /\ KGood(d.kc)
  /\ IF d.fam = "ps" THEN d.ct = 0 /\ d.p1 \in {-90, 90} /\ d.p2 = d.p1
     ELSE /\ d.ct \in 1..4 /\ d.p1 \in -90..90 /\ d.p2 \in -90..90 /\ (d.ct = 1 => d.p2 = d.p1)
          /\ CtorOutcome([fam |-> d.fam, ct |-> IF d.ct = 4 THEN 3 ELSE d.ct, P1 |-> <<d.p1, 0>>, P2 |-> <<d.p2, 0>>,
                          kc |-> d.kc, fc |-> 0, ac |-> 0]) = "ok"
Canon(d) ==
  LET lo == Min(d.p1, d.p2)  hi == Max(d.p1, d.p2) IN
  IF d.fam = "ps" \/ (d.fam = "lcc" /\ lo = hi /\ Abs(lo) = 90) THEN <<"ps", lo, hi, d.kc>>
  ELSE <<d.fam, lo, hi, d.kc>>
Equivalent(d1, d2) == Canon(d1) = Canon(d2)
MirrorDesc(d) == [d EXCEPT !.p1 = -d.p1, !.p2 = -d.p2]
MirrorCanon(c) == <<c[1], -c[3], -c[2], c[4]>>
\* cone constant class of a canon: +1 / -1 polar (azimuthal), 0 cylinder, 2 northern cone, -2 southern cone
ConeClass(c) ==
  IF c[1] = "ps" THEN Sgn(c[2])
  ELSE IF c[2] = -c[3] THEN 0
  ELSE IF c[1] = "alb" /\ c[2] = c[3] /\ Abs(c[2]) = 90 THEN Sgn(c[2])
  ELSE 2 * Sgn(c[2] + c[3])

(* ---------------------------------------------------------------------- *)
(* 3. Symmetry group                                                       *)
(* ---------------------------------------------------------------------- *)
\* g = <<m, e, u, v>>:  m = 1 north/south mirror (parallels, hemisphere and lat change sign);
\*   lon -> eps lon + (1 - eps) lon0 + 90 u   (eps = -1 iff e = 1: reflection in the central meridian);   lon0 -> lon0 + 90 v.
EpsOf(g) == IF g[2] = 1 THEN -1 ELSE 1
MuOf(g) == IF g[1] = 1 THEN -1 ELSE 1
Ident == <<0, 0, 0, 0>>
\* apply g first, then h
Compose(h, g) ==
  <<(g[1] + h[1]) % 2, (g[2] + h[2]) % 2, EpsOf(h) * g[3] + (1 - EpsOf(h)) * g[4] + h[3], g[4] + h[4]>>
\* inputs: in = [p1, p2, s, lat, lon, lon0]  (s = +1/-1 hemisphere of a PS call, ignored by conics)
ApplyIn(g, in) ==
  [p1 |-> MuOf(g) * in.p1, p2 |-> MuOf(g) * in.p2, s |-> MuOf(g) * in.s, lat |-> MuOf(g) * in.lat,
   lon |-> EpsOf(g) * in.lon + (1 - EpsOf(g)) * in.lon0 + 90 * g[3], lon0 |-> in.lon0 + 90 * g[4]]
\* Conics depend on lon - lon0 only, and have no symmetry under a shift of lon - lon0 by an odd multiple of 90.
\* PS calls have lon0 = 0 throughout.
Applicable(g, fam) == IF fam = "ps" THEN g[4] = 0 ELSE (g[3] - g[4]) % 4 = 0

\* representation on the outputs: <<a, b, c, d, sg, rq>>:  (x', y') = [[a, b], [c, d]] (x, y),
\* gamma' = sg gamma + 90 rq (mod 360), k' = k.
RotM(t) == CASE Mod4(t) = 0 -> <<1, 0, 0, 1>> [] Mod4(t) = 1 -> <<0, -1, 1, 0>>
             [] Mod4(t) = 2 -> <<-1, 0, 0, -1>> [] OTHER -> <<0, 1, -1, 0>>
MatMul(A, B) == <<A[1] * B[1] + A[2] * B[3], A[1] * B[2] + A[2] * B[4], A[3] * B[1] + A[4] * B[3], A[3] * B[2] + A[4] * B[4]>>
\* s = hemisphere sign of the call the element is applied to (PS only)
Rep(g, fam, s) ==
  LET ep == EpsOf(g)  mu == MuOf(g)  D == <<ep, 0, 0, mu>> IN
  IF fam = "ps"
  THEN \* F_s(lat, lam) = rho (sin lam, -s cos lam): a longitude shift of 90 w turns the plane by s' 90 w, s' = s mu
       LET t == s * mu * g[3]  M == MatMul(RotM(t), D) IN <<M[1], M[2], M[3], M[4], ep * mu, Mod4(t)>>
  ELSE <<ep, 0, 0, mu, ep * mu, 0>>
\* apply G first, then H
RepMul(H, G) ==
  LET M == MatMul(<<H[1], H[2], H[3], H[4]>>, <<G[1], G[2], G[3], G[4]>>)
  IN <<M[1], M[2], M[3], M[4], H[5] * G[5], Mod4(H[5] * G[6] + H[6])>>
Generators(fam) ==
  IF fam = "ps" THEN {<<1, 0, 0, 0>>, <<0, 1, 0, 0>>, <<0, 0, 1, 0>>, <<0, 0, -1, 0>>, <<0, 0, 4, 0>>}
  ELSE {<<1, 0, 0, 0>>, <<0, 1, 0, 0>>, <<0, 0, 4, 0>>, <<0, 0, -4, 0>>, <<0, 0, 0, 4>>, <<0, 0, 0, -4>>, <<0, 0, 1, 1>>, <<0, 0, -1, -1>>}

(* ---------------------------------------------------------------------- *)
(* 4. Sphere anchors (f = 0): rational values of the textbook closed forms *)
(* ---------------------------------------------------------------------- *)
\* 2 sin p and 2 cos p where they are integers
HasSin2(p) == p \in {-90, -30, 0, 30, 90}
Sin2(p) == CASE p = -90 -> -2 [] p = -30 -> -1 [] p = 0 -> 0 [] p = 30 -> 1 [] p = 90 -> 2
HasCos2(p) == p \in {-90, -60, 0, 60, 90}
Cos2(p) == CASE Abs(p) = 90 -> 0 [] Abs(p) = 60 -> 1 [] p = 0 -> 2
\* sine / cosine of a multiple of 90 degrees
SinQ(t) == CASE Mod4(t \div 90) = 0 -> 0 [] Mod4(t \div 90) = 1 -> 1 [] Mod4(t \div 90) = 2 -> 0 [] OTHER -> -1
CosQ(t) == SinQ(t + 90)
Norm180(t) == ((t + 180) % 360) - 180          \* [-180, 180)

\* An anchor is <<quantity, num, den, unit>>: quantity in {"x", "y", "xx" (x^2), "k", "kk" (k^2), "g" (gamma, degrees)};
\* unit "a" (lengths in units of the radius; "xx" in a^2), "arc" (a pi/180: one degree of arc), "1".
\* c = canon, lat integer degrees, dl = lon - lon0 integer degrees in (-180, 180].
\* K = k0 = kn/kd.
Anchors(c, lat, dl) ==
  LET kn == KNum(c[4])  kd == KDen(c[4])  cls == ConeClass(c)  lo == c[2]  hi == c[3]
      q90 == dl % 90 = 0
      sgnok == Abs(dl) < 180      \* lon - lon0 = +-180 is one point with two images: sign-sensitive anchors are not stated there
  IN
  IF c[1] = "ps" THEN
    \* Snyder 21-1..21-4 (sphere): rho = 2 k0 a tan(45 - s lat/2); k = 2 k0/(1 + s sin lat); gamma = s dl
    LET s == cls  sl == s * lat IN
    (IF q90 /\ sl = 0 THEN {<<"x", 2 * kn * SinQ(dl), kd, "a">>, <<"y", -s * 2 * kn * CosQ(dl), kd, "a">>} ELSE {})
    \cup (IF sl = 90 THEN {<<"x", 0, 1, "a">>, <<"y", 0, 1, "a">>, <<"k", kn, kd, "1">>} ELSE {})
    \cup (IF HasSin2(sl) /\ sl # -90 THEN {<<"k", 4 * kn, kd * (2 + Sin2(sl)), "1">>} ELSE {})
    \cup (IF Abs(dl) < 180 THEN {<<"g", s * dl, 1, "1">>} ELSE {})
  ELSE IF c[1] = "lcc" THEN
    (IF cls = 0 THEN
       \* Mercator with scale k1 on the parallels +-hi (Snyder 7-1, 7-2): x = a k1 cos(hi) lam, y(0) = 0, k = k1 cos(hi)/cos(lat)
       (IF HasCos2(hi) /\ hi # 90 THEN
          (IF sgnok THEN {<<"x", kn * Cos2(hi) * dl, 2 * kd, "arc">>} ELSE {}) \cup {<<"g", 0, 1, "1">>}
          \cup (IF lat = 0 THEN {<<"y", 0, 1, "a">>} ELSE {})
          \cup (IF HasCos2(lat) /\ Abs(lat) # 90 THEN {<<"k", kn * Cos2(hi), kd * Cos2(lat), "1">>} ELSE {})
        ELSE {})
     ELSE IF lo = hi THEN
       \* one standard parallel: n = sin(lo) (15-8 limit), gamma = n dl; on the parallel k = k0 and y(dl = 0) = 0
       (IF HasSin2(lo) /\ (Sin2(lo) * dl) % 2 = 0 /\ sgnok THEN {<<"g", (Sin2(lo) * dl) \div 2, 1, "1">>} ELSE {})
       \cup (IF lat = lo THEN {<<"k", kn, kd, "1">>} ELSE {})
       \cup (IF lat = lo /\ dl = 0 THEN {<<"x", 0, 1, "a">>, <<"y", 0, 1, "a">>} ELSE {})
     ELSE
       \* two parallels: scale k1 on both
       (IF lat = lo \/ lat = hi THEN {<<"k", kn, kd, "1">>} ELSE {}))
  ELSE
    \* Albers (Snyder 14-1..14-7, sphere): (n rho / a)^2 = C - 2 n sin lat, theta = k0^2 n dl, k = k0 sqrt(C - 2 n sin lat)/cos lat,
    \* x = rho sin(theta)/k0 ... ; rho and theta with the scale k0: rho / k0, k0^2 n dl
    (IF cls = 0 THEN
       \* cylindrical equal area with standard parallels +-hi (10-..): x = a k1 cos(hi) lam, y = a sin(lat)/(k1 cos hi)
       (IF HasCos2(hi) /\ hi # 90 THEN
          (IF sgnok THEN {<<"x", kn * Cos2(hi) * dl, 2 * kd, "arc">>} ELSE {}) \cup {<<"g", 0, 1, "1">>}
          \cup (IF HasSin2(lat) THEN {<<"y", kd * Sin2(lat), kn * Cos2(hi), "a">>} ELSE {})
          \cup (IF HasCos2(lat) /\ Abs(lat) # 90 THEN {<<"k", kn * Cos2(hi), kd * Cos2(lat), "1">>} ELSE {})
        ELSE {})
     ELSE IF Abs(cls) = 1 THEN
       \* Lambert azimuthal equal area, polar aspect (24-..): rho^2 = 2 a^2 (1 - s sin lat)/k0^2, theta = k0^2 s dl,
       \* k^2 = 2 k0^2/(1 + s sin lat)
       LET s == cls  sl == s * lat  th == (kn * kn * dl) \div (kd * kd) IN
       (IF HasSin2(sl) /\ sl # -90 THEN {<<"kk", 4 * kn * kn, kd * kd * (2 + Sin2(sl)), "1">>} ELSE {})
       \cup (IF sl = 90 THEN {<<"x", 0, 1, "a">>, <<"y", 0, 1, "a">>} ELSE {})
       \cup (IF HasSin2(sl) /\ (kn * kn * dl) % (kd * kd) = 0 /\ th % 90 = 0 /\ Abs(th) < 180 THEN
               \* x^2 = rho^2 sin^2 theta, y^2 = rho^2 cos^2 theta
               {<<"xx", (2 - Sin2(sl)) * kd * kd * SinQ(th) * SinQ(th), kn * kn, "a">>,
                <<"g", s * th, 1, "1">>}
               \cup (IF sl = 30 THEN {<<"x", kd * SinQ(th), kn, "a">>, <<"y", -s * kd * CosQ(th), kn, "a">>} ELSE {})
               \cup (IF sl = -90 THEN {<<"x", 2 * kd * SinQ(th), kn, "a">>, <<"y", -s * 2 * kd * CosQ(th), kn, "a">>} ELSE {})
             ELSE {})
     ELSE IF lo = hi /\ Abs(lo) = 30 THEN
       \* one parallel at +-30: n = s/2, C = 5/4: (rho/a)^2 = (5 - 4 s sin lat)/k0^2, k^2 = k0^2 (5 - 4 s sin lat)/(4 cos^2 lat)
       LET s == Sgn(lo)  sl == s * lat IN
       (IF HasSin2(sl) /\ Abs(sl) # 90 THEN {<<"kk", kn * kn * (5 - 2 * Sin2(sl)), kd * kd * (4 - Sin2(sl) * Sin2(sl)), "1">>} ELSE {})
       \cup (IF c[4] = 2 /\ dl % 2 = 0 /\ sgnok THEN {<<"g", s * (dl \div 2), 1, "1">>} ELSE {})
       \cup (IF c[4] = 2 /\ dl = 180 /\ HasSin2(sl) THEN {<<"xx", 5 - 2 * Sin2(sl), 1, "a">>} ELSE {})
       \cup (IF lat = lo /\ dl = 0 THEN {<<"x", 0, 1, "a">>, <<"y", 0, 1, "a">>} ELSE {})
     ELSE IF (lo = 0 /\ hi = 90) \/ (lo = -90 /\ hi = 0) THEN
       \* parallels 0 and s 90: n = s/2, C = 1: (rho/a)^2 = 4 (1 - s sin lat)/k1^2, k^2 = k1^2/(1 + s sin lat)
       LET s == Sgn(lo + hi)  sl == s * lat IN
       (IF HasSin2(sl) /\ sl # -90 THEN {<<"kk", 2 * kn * kn, kd * kd * (2 + Sin2(sl)), "1">>} ELSE {})
       \cup (IF c[4] = 2 /\ dl = 180 /\ HasSin2(sl) THEN {<<"xx", 2 * (2 - Sin2(sl)), 1, "a">>} ELSE {})
       \cup (IF c[4] = 2 /\ dl % 2 = 0 /\ sgnok THEN {<<"g", s * (dl \div 2), 1, "1">>} ELSE {})
     ELSE IF lo = hi /\ lat = lo THEN {<<"k", kn, kd, "1">>}
     ELSE {})

\* twice the cone constant of an Albers canon where it is an integer (used by the model invariant "equal area")
HasN2(c) == c[1] = "alb" /\ ((c[2] = c[3] /\ Abs(c[2]) \in {30, 90}) \/ (c[2] = 0 /\ c[3] = 90) \/ (c[2] = -90 /\ c[3] = 0))
N2(c) == IF c[2] = c[3] THEN Sin2(c[2]) ELSE Sgn(c[2] + c[3])
=============================================================================
