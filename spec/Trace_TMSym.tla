---------------------------- MODULE Trace_TMSym ----------------------------
(***************************************************************************)
(* Validates observations of TransverseMercator / TransverseMercatorExact  *)
(* (C06) against TMSym.tla.  One obligation per trace line.                *)
(*                                                                         *)
(* Lattice lines (sl, slr) are compared with the exact sphere lattice;     *)
(* sym lines with the group model; bp / bpr lines with the branch-point    *)
(* lattice; cfg lines with the constructor family; law lines (cmp rt cm cr *)
(* pl ext utm rxy) carry residuals the driver reduced to integers:         *)
(*   pmW   ground distance (map distance / scale k) in picometres at WGS84 *)
(*         scale (metres / a * 6378137 * 1e12), clipped to 2e9             *)
(*   fdeg  1e-15 degree;  e17  1e-17 relative;  e10  1e-10;  udeg 1e-6 deg *)
(* 2000000001 stands for NaN and fails every bound.  Every tolerance, every *)
(* applicability guard and every decision is in this module.               *)
(***************************************************************************)
EXTENDS TMSym, TraceKit

CONSTANTS
  TolSer,   \* pmW.  TransverseMercator.hpp: "The maximum error is 5 nm (5 nanometers), ground distance, for all positions
            \*       within 35 degrees of the central meridian."
  TolEx,    \* pmW.  TransverseMercatorExact.hpp: "The maximum error is about 8 nm (8 nanometers), ground distance, for the
            \*       forward and reverse transformations."
  TolKs,    \* e17.  "the relative error in the scale is 6e-12 %" (series) = 6e-14
  TolKe,    \* e17.  "... 7e-12 %" (exact) = 7e-14
  TolGs,    \* fdeg. Convergence.  The documented figure (2e-15 arc seconds = 5.6e-19 degree) is far below one ulp of gamma
  TolGe,    \*       (1.4e-14 degree at 90) and cannot be met by any double implementation (see notes/C06.md).  gamma and
            \*       ln k are the imaginary and real part of the same analytic function ln(dw/dz), so the documented scale
            \*       bound is used for gamma in radians: 6e-14 rad = 3438 fdeg (series), 7e-14 rad = 4011 fdeg (exact).
  Ang35,    \* udeg. "within 35 degrees of the central meridian": spherical distance from the central meridian great circle
  FDTol,    \* e10.  Finite-difference laws (Cauchy-Riemann, k = magnification, gamma = rotation): 1e-7 (DESIGN C06 T5);
            \*       central differences over 1e-5 a: truncation <= (1e-5 a / rho)^2 / 6 with rho >= 2 degrees, round-off 1e-10
  LatTol,   \* 1e-15 relative units: round-off tolerance on exact lattice values, 1e-11 (DESIGN section 5)
  TolEll,   \* pmW.  allowance for Ellipsoid::MeridianDistance / QuarterMeridian in the cross-class law (no documented figure;
            \*       the same nanometre level as the projection is assumed)
  SingK     \* udeg. the scale and convergence of the exact form are compared only this far from the branch point
            \*       lat = 0, |lam| = 90 (1 - e), where k and gamma are not differentiable (named guard BranchPoint)
VARIABLE l

Cap == 2000000000
Mul(a, b) == IF a = 0 \/ b = 0 THEN 0 ELSE IF a > Cap \div b THEN Cap ELSE a * b
Add(a, b) == IF a > Cap - b THEN Cap ELSE a + b
Le(x, t) == x >= 0 /\ x <= t            \* residuals are non-negative; NaN (2000000001) fails; a bound of Cap is vacuous

(* ------------------------------ guards ----------------------------------- *)
CfgOK(r) == r.fi \in 0..(NF - 1) /\ r.nq = NQ[r.fi + 1] /\ r.cls \in 0..4 /\ Admissible(r.cls, r.fi)
Back(r) == AbsI(r.lamq) > 90000000                      \* far side of the ellipsoid
Rho(r) == 90000000 - AbsI(r.latq)                       \* udeg from the nearer pole
KL(k) == IF k = -99 THEN 99 ELSE k                      \* floor(log2(k / k0)); -99 = not finite

\* Series: documented domain and ellipsoid family (named guard Series35)
S35(r) == SeriesOK(r.fi) /\ r.ang <= Ang35
\* Far side (named rule FarSide2): northings reach 2 * 10^7 m there, twice the range the documented round-off bounds were
\* established on (the test set covers lam in [0, 90]); one ulp of y doubles, so the position bounds are doubled.
BF(back) == IF back THEN 2 ELSE 1
\* Equator on the far side (named rule EquatorFarSide): lat = 0, |lam| > 90 is reached over either pole, so the northing
\* is +-(2 y_pole - y): the documentation does not choose; both are admitted.
EqBack(r) == r.latq = 0 /\ Back(r)

TolP(cls, fi) == IF cls = 0 THEN Mul(TolSer, Trunc(fi)) ELSE TolEx
TolK(cls, fi) == IF cls = 0 THEN Mul(TolKs, Trunc(fi)) ELSE TolKe
TolG(cls, fi) == IF cls = 0 THEN Mul(TolGs, Trunc(fi)) ELSE TolGe

\* Convergence returned by Forward: the plain bound everywhere.  FINDING (notes/C06.md, known_findings.json
\* "tmx-gamma-nearpole"): TransverseMercatorExact::Forward loses the convergence near a pole like 1 / (distance to the pole);
\* those lines are REJECTED here and matched structurally by their input class (field kf), nothing is scaled.
GFwd(cls, fi, rho) == TolG(cls, fi)
\* Convergence returned by Reverse (named guard PoleConditioning): gamma ~ lon is ill-conditioned as a function of (x, y) near
\* a pole: a position error tp (pmW) turns the direction to the pole by tp / (a rho); in fdeg that is tp * 515000 / rho[udeg].
GRev(tg, tp, rho) ==
  IF rho < 1000 THEN Cap
  ELSE LET m == Mul(tp, 515) IN IF m >= Cap THEN Cap ELSE Add(tg, m \div (rho \div 1000))

\* FINDING (notes/C06.md, known_findings.json "tmx-ext-lower"): in the lower part of the extended domain (extendp, lat < 0,
\* |lam| >= 90 (1 - e)) the accuracy of TransverseMercatorExact degrades in proportion to the scale k.  The documented bound
\* is required there as everywhere else; the rejected lines are matched structurally by their input class (field kf).

(* ------------------------------ known-finding classes --------------------- *)
\* kf is computed by the driver from the inputs only; the spec re-derives it from the quantised inputs it sees.  A record of
\* class "tmx-gamma-nearpole" is written as two lines: part "pos" (kf "none": every law except those on the gamma that Forward
\* of the exact class returned) and part "gam" (only those laws); part "all" otherwise.
NearPoleQ(r) == AbsI(r.latq) >= 89000000 /\ AbsI(r.latq) <= 90000000
NearPoleStrictQ(r) == AbsI(r.latq) > 89000000 /\ AbsI(r.latq) < 90000000
\* A record of class "tmx-ext-lower" is written as two lines as well: part "strict" (kf "tmx-ext-lower": the plain documented
\* bounds, rejected and matched by the known finding) and part "coarse" (kf "none": what the finding itself still owes in
\* that region - the documented bounds times the conditioning factor CondFactor(kl) >= k / k0, finiteness, ranges, the
\* documented image rectangles away from the south pole, the finite-difference laws with the position bound scaled the same
\* way).  So a different defect in the lower extended region is reported even though the strict line is matched.
DoPos(r) == r.part \in {"all", "pos", "coarse", "strict"}
DoGam(r) == r.part \in {"all", "gam", "coarse", "strict"}
Coarse(r) == r.part = "coarse"
\* exg: the record evaluates gamma from Forward of the exact class;  lowMay / lowMust: extendp and the point is in the lower
\* extended region, judged on the quantised latitude (lat in (-5e-7, 0) is quantised to 0: either label is accepted there)
KfOK(r, exg, lowMay, lowMust) ==
  LET ext == r.kf = "tmx-ext-lower"  low == r.part \in {"coarse", "strict"} IN
  /\ r.kf \in {"none", "tmx-gamma-nearpole", "tmx-ext-lower"} /\ r.part \in {"all", "pos", "gam", "coarse", "strict"}
  /\ (r.part = "gam") = (r.kf = "tmx-gamma-nearpole")
  /\ (r.part = "strict") = ext
  /\ (r.part \in {"pos", "gam"} => exg /\ NearPoleQ(r))
  /\ (r.part = "all" /\ exg => ~NearPoleStrictQ(r))
  /\ (low => lowMay) /\ (lowMust => low)
\* conditioning factor of a coarse line (1 on every other line); kl = floor(log2(k / k0)) of the scale the library returned
SC(r, kl) == IF Coarse(r) THEN CondFactor(KL(kl)) ELSE 1
\* GarbageScale (coarse lines): the finding states that the answers are garbage for k > 2^48 (wrong sign of the northing,
\* 1e20 m).  In the lower extended region the scale is, to a factor of a few, a function of the latitude alone (log
\* singularity at the south pole): k / k0 < 2^42 for lat >= -75 and k / k0 > 2^48 only south of -79 for every ellipsoid of
\* the family (flatter ellipsoids have the larger scale).  So, on INPUTS: north of -75 degrees the image must be in the
\* documented rectangles, the scale returned must be below 2^48, and the second leg of the round trip is judged.
CoarseDom(r) == r.latq >= -75000000

(* ------------------------------ sphere lattice --------------------------- *)
\* V = <<nearest integer, deviation in 1e-15>>; 2000000001 = not finite
DevOK(V, v) == V[2] <= LatTol * MaxI(1, AbsI(v)) /\ -V[2] <= LatTol * MaxI(1, AbsI(v))
Match(e, V, d) ==
  CASE e[1] = "int" -> V[1] = e[2] /\ DevOK(V, e[2])
    [] e[1] = "pm" -> (V[1] = e[2] \/ V[1] = -e[2]) /\ DevOK(V, e[2])
    [] e[1] = "lon" -> (V[1] = e[2] \/ (AbsI(e[2]) = 180 /\ V[1] = -e[2])) /\ DevOK(V, e[2])
    [] e[1] = "sgn" ->
         \/ d # 0                       \* one ulp from a critical meridian: the sheet is decided, the sign of a tiny value is not
         \/ LET m == e[2] * V[1]  f == e[2] * V[2] IN
            /\ V[1] # 2000000001
            /\ (m > e[3] \/ (m = e[3] /\ f > 0))
            /\ (e[4] = 0 \/ m < e[4] \/ (m = e[4] /\ f < 0))
    [] e[1] = "any" -> TRUE
    [] OTHER -> FALSE

SlExp(r) == SphFwd(r.lat[1], Norm180(r.lon[1] - r.lon0), r.lon[2])
SlOK(r) ==
  LET e == SlExp(r)  d == r.lon[2] IN
  /\ r.ki \in {1, 2, 3, 4} /\ r.lat[2] = 0 /\ ~SphSkip(r.lat[1], Norm180(r.lon[1] - r.lon0))
  /\ r.fin
  /\ Match(e.x, r.X, d) /\ Match(e.y, r.Y, d) /\ Match(e.g, r.G, d) /\ Match(e.k, r.K, d)

SlrOK(r) ==
  LET e == SphRev(r.lon0, r.y[1]) IN
  /\ r.ki \in {1, 2, 3, 4} /\ r.fin
  /\ Match(e.lat, r.LA, 0) /\ Match(e.lon, r.LO, 0) /\ Match(e.g, r.G, 0) /\ Match(e.k, r.K, 0)
  /\ AbsI(r.LA[1]) <= 90 /\ AbsI(r.LO[1]) <= 180

(* ------------------------------ symmetry group --------------------------- *)
SymOK(r) ==
  LET e == [slat |-> r.el[1], s |-> r.el[2], b |-> r.el[3], wl |-> r.el[4], w0 |-> r.el[5]]
      cls == r.cls  fi == r.fi
      pure == r.bk = "gen" /\ e.b = 0 /\ e.wl = 0 /\ e.w0 = 0      \* a pure reflection of a generic point: bitwise parity
      dom == cls = 0 => S35(r)
      bf == IF e.b = 1 THEN 2 ELSE 1
      tp == Mul(TolP(cls, fi), 2 * bf)                            \* both answers are within the documented bound of the truth
      tk == Mul(TolK(cls, fi), 2)
      rho == Rho(r)
      fd == IF r.bk = "eq" /\ e.b = 1 THEN MinI(r.fd, r.fdm) ELSE r.fd      \* EquatorFarSide
      kg == cls = 0 \/ r.sing >= SingK
  IN
  /\ CfgOK(r) /\ cls \in 0..2 /\ KfOK(r, cls >= 1, FALSE, FALSE)
  /\ e \in Elem /\ r.out = DrvOut(Pred(e))                         \* the transform the driver applied is the model's
  /\ (dom /\ DoPos(r)) =>
       /\ r.fin /\ r.rfin /\ r.rng
       /\ (pure => r.rbit /\ (r.part = "all" => r.fbit))
       /\ Le(fd, tp) /\ Le(r.rd, tp)
       /\ kg => /\ Le(r.fk, tk) /\ Le(r.rk, tk)
                /\ Le(r.rg, Mul(GRev(TolG(cls, fi), Mul(TolP(cls, fi), bf), rho), 2))
  /\ (dom /\ DoGam(r)) =>
       /\ (pure /\ r.part = "gam" => r.fbit)
       /\ (kg => Le(r.fg, Mul(GFwd(cls, fi, rho), 2)))

(* ------------------------------ laws ------------------------------------- *)
\* T2: series = exact = independent high-order evaluation of the Gauss-Krueger mapping (Krueger series to order 30 from
\* the documentation, long double); Reverse of the oracle's image returns the point
CmpOK(r) ==
  LET fi == r.fi  b == BF(Back(r))  rho == Rho(r)
      ts == Mul(TolP(0, fi), b)  te == Mul(TolEx, b)
      orc == r.otr <= 10                        \* the oracle's own truncation estimate is below 0.01 nm
      so == IF EqBack(r) THEN MinI(r.so, r.som) ELSE r.so
  IN
  /\ CfgOK(r) /\ r.cls = 0 /\ r.ex = FPos(fi) /\ KfOK(r, r.ex, FALSE, FALSE)
  /\ DoPos(r) => (S35(r) => r.sfin)
  /\ (DoPos(r) /\ S35(r) /\ orc) =>
       /\ Le(so, ts) /\ Le(r.sog, TolG(0, fi)) /\ Le(r.sok, TolK(0, fi))
       /\ r.srfin /\ Le(r.rso, ts) /\ Le(r.rsok, TolK(0, fi)) /\ Le(r.rsog, GRev(TolG(0, fi), ts, rho))
       \* DocumentedOrder: the class documents a series of order 6 in n, so at any flattening its error at a point is the
       \* round-off bound plus the truncation error of the order-6 series there (|order 6 - order 30| of the documented series,
       \* evaluated by the driver in long double), with a factor 2; a more accurate implementation passes a fortiori
       /\ Le(so, Add(Mul(TolSer, b), Mul(2, r.t6f)))
       /\ Le(r.rso, Add(Mul(TolSer, b), Mul(2, r.t6r)))
  /\ r.ex =>
       LET eo == IF EqBack(r) THEN MinI(r.eo, r.eom) ELSE r.eo IN
       /\ DoPos(r) =>
            /\ r.efin
            /\ orc => /\ Le(eo, te) /\ r.erfin /\ Le(r.reo, te)
                      /\ (r.sing >= SingK => Le(r.eok, TolKe) /\ Le(r.reok, TolKe) /\ Le(r.reog, GRev(TolGe, te, rho)))
            /\ S35(r) => Le(r.se, Add(ts, te)) /\ Le(r.sek, Add(TolK(0, fi), TolKe))
       /\ DoGam(r) =>                                \* the convergence returned by Forward of the exact class
            /\ (orc /\ r.sing >= SingK => Le(r.eog, GFwd(1, fi, rho)))
            /\ (S35(r) => Le(r.seg, Add(TolG(0, fi), GFwd(1, fi, rho))))

\* T1: Forward o Reverse and Reverse o Forward
InImage(r) == AbsI(r.latq) >= 100 \/ AbsI(r.lamq) < 45000000 \/ r.cls >= 3     \* the rounded grid point is an image point
RtOK(r) ==
  LET cls == r.cls  fi == r.fi  b == BF(Back(r))  rho == Rho(r)
      low == cls >= 3 /\ r.lower
      sc == SC(r, r.kl)  sc3 == SC(r, r.kl3)           \* coarse line of the lower extended region: conditioning factor
      tp == Mul(Mul(TolP(cls, fi), 2 * b), sc)  tp3 == Mul(Mul(TolP(cls, fi), 2 * b), sc3)
      tk == Mul(Mul(TolK(cls, fi), 2), sc)  tk3 == Mul(Mul(TolK(cls, fi), 2), sc3)
      tg0 == Add(GFwd(cls, fi, rho), GRev(TolG(cls, fi), Mul(TolP(cls, fi), b), rho))
      tg == Mul(tg0, sc)  tg3 == Mul(tg0, sc3)
      dom == cls = 0 => S35(r)
      \* EquatorFarSide: next to the far-side equator the rounded northing may exceed 2 y_pole; Reverse accepts it and
      \* Forward answers with the canonical representation over the other pole, so the grid point is not compared there
      \* GarbageScale (coarse line): the second leg starts from the image Forward returned
      dom2 == /\ (IF cls = 0 THEN r.ang3 <= Ang35 ELSE InImage(r)) /\ ~(Back(r) /\ AbsI(r.lat3) < 100)
              /\ (Coarse(r) => CoarseDom(r))
      kg == cls = 0 \/ r.sing >= SingK
      rfd == r.rfd
  IN
  /\ CfgOK(r) /\ KfOK(r, cls >= 1, low /\ r.latq <= 0, low /\ r.latq < 0)
  \* OverloadAgreement: "Forward / Reverse without returning the convergence and scale" return the same doubles
  /\ DoPos(r) => r.ovf /\ r.ovr
  /\ (Coarse(r) /\ CoarseDom(r)) => KL(r.kl) <= 47
  /\ (dom /\ DoPos(r)) => /\ r.fin /\ r.rng /\ Le(r.frd, tp)
                          /\ (kg => Le(r.frk, tk))
  /\ (dom /\ dom2 /\ DoPos(r)) => /\ r.fin2 /\ Le(rfd, tp3)
                                   /\ (kg => Le(r.rfk, tk3))
  \* gamma of Forward against gamma of Reverse at the same point (both calls)
  /\ (dom /\ DoGam(r) /\ kg) => Le(r.frg, tg)
  /\ (dom /\ dom2 /\ DoGam(r) /\ kg) => Le(r.rfg, tg3)

\* T4: the central meridian (and its far side) is mapped with constant scale k0 at true meridian distance
CmOK(r) ==
  LET cls == r.cls  fi == r.fi  b == BF(r.back)
      tp == Mul(TolP(cls, fi), b)
  IN
  /\ CfgOK(r) /\ r.kf = "none" /\ r.part = "all"
  /\ (cls = 0 => SeriesOK(fi)) =>
       /\ r.fin /\ r.ysgn
       /\ Le(r.xq, tp) /\ Le(r.gq, TolG(cls, fi)) /\ Le(r.kq, TolK(cls, fi))
       /\ Le(r.yq, tp)                                   \* against the meridian arc integral (long double quadrature)
       /\ Le(r.ym, Add(tp, Mul(TolEll, b)))              \* against Ellipsoid::MeridianDistance / QuarterMeridian

\* poles
PlOK(r) ==
  LET cls == r.cls  fi == r.fi  tp == TolP(cls, fi) IN
  /\ CfgOK(r) /\ AbsI(r.latq) = 90000000 /\ r.kf = "none" /\ r.part = "all"
  /\ (cls = 0 => SeriesOK(fi)) =>
       /\ r.fin /\ Le(r.xq, tp) /\ Le(r.yq, tp) /\ Le(r.ym, Add(tp, TolEll))
       /\ Le(r.gq, TolG(cls, fi)) /\ Le(r.kq, TolK(cls, fi))
       /\ r.rfin /\ r.rng /\ Le(r.rp, Mul(tp, 2)) /\ Le(r.rk, Mul(TolK(cls, fi), 2))

\* T5: conformality, k = magnification, gamma = rotation, by central differences
CrOK(r) ==
  LET dom == /\ AbsI(r.latq) <= 88000000
             /\ (r.cls = 0 => S35(r)) /\ (r.cls > 0 => r.sing >= 1000000)
             \* the northing of the equator's far side jumps (EquatorFarSide); keep the stencil off that line
             /\ (AbsI(r.latq) >= 5000 \/ AbsI(r.lamq) < 45000000 \/ r.cls >= 3)
  IN
  /\ CfgOK(r) /\ KfOK(r, FALSE, r.cls >= 3 /\ r.lower /\ r.latq <= 0, r.cls >= 3 /\ r.lower /\ r.latq < 0)
  \* coarse line: a position error of TolEx * CondFactor (ground) at both ends of a stencil of 2e-5 a changes a central difference
  \* by TolEx * CondFactor / (1e-5 a) = 1.25e-10 * CondFactor relative (8 nm / 63.78 m): 2 units of 1e-10 per unit of CondFactor
  /\ LET ft == IF Coarse(r) THEN Add(FDTol, Mul(2, CondFactor(KL(r.kl)))) ELSE FDTol IN
     dom => r.fin /\ Le(r.cr1, ft) /\ Le(r.cr2, ft) /\ Le(r.mk, ft) /\ Le(r.rg, ft)

\* T6: the UTM() singletons equal fresh (WGS84, 0.9996) objects bit for bit
UtmOK(r) == r.sf /\ r.sr /\ r.ef /\ r.er /\ r.par /\ r.ov /\ r.kf = "none" /\ r.part = "all"

\* extendp = true: equals extendp = false on the first quadrant; the image of the extended domain is the documented one
ExtOK(r) ==
  /\ CfgOK(r) /\ r.cls \in {3, 4} /\ KfOK(r, FALSE, r.lower /\ r.latq <= 0, r.lower /\ r.latq < 0)
  /\ IF ~r.lower
     THEN /\ r.fin /\ r.fin2 /\ Le(r.qd, Mul(TolEx, 2))
          /\ Le(r.qg, Mul(GFwd(1, r.fi, Rho(r)), 2)) /\ Le(r.qk, Mul(TolKe, 2))
     ELSE   /\ r.fin
            \* coarse line: the finding states that the northing has the wrong sign for lat < -83 / k > 2^48; the documented
            \* image (union of the two rectangles) and a scale below 2^48 are still owed north of -75 (GarbageScale)
            /\ (Coarse(r) /\ CoarseDom(r)) => KL(r.kl) <= 47
            /\ (Coarse(r) /\ ~CoarseDom(r))
               \/ (r.my >= -1 /\ r.mt >= -1 /\ r.mx0 >= -1)
               \/ (r.my <= 1 /\ r.mx >= -1)

(* ------------------------------ branch point of the exact form ------------ *)
\* geographic side (vectors of MC_TMSym part "bp" and random configurations): Forward at lat = +-0, lam = reflection of
\* 90 (1 - e) at d ulps.  Expectation BpFwd of TMSym; residuals are ground distances with the documented scale k0 / e.
BpOK(r) ==
  LET cls == r.cls
      e == [slat |-> r.el[1], s |-> r.el[2], b |-> r.el[3], wl |-> 0, w0 |-> 0]  d == r.el[4]
      ex == BpFwd(cls, e, d)
      far == e.b = 1
      tp == Mul(TolEx, BF(far))
  IN
  /\ CfgOK(r) /\ cls \in 1..4 /\ e \in BpElem(cls) /\ d \in {-1, 0, 1} /\ r.out = DrvOut(Pred(e))
  /\ r.kf = "none" /\ r.part = "all" /\ r.latq = 0 /\ r.sing <= 1
  /\ r.fin /\ r.rfin /\ r.rng
  /\ r.xsg = ex.xs /\ Le(r.xq, tp)                         \* x = +- k0 a (K(1-e^2) - E(1-e^2))
  /\ Le(r.yq, tp)                                          \* y = 0 | +- 2 y_pole (EquatorFarSide: either sign)
  \* side = sign(folded |lon - lon0| - 90 (1 - e)) of the input the library sees (the far-side reflections lam + 180 round)
  /\ r.side \in {-1, 0, 1} /\ (r.xct => r.side = d)
  /\ (ex.g[1] # "any" /\ r.side <= 0 => Le(r.gq, TolGe))    \* convergence 0 | +- 180 up to the branch point
  /\ (ex.k[1] # "any" /\ r.side = 0 => Le(r.kq, TolKe))     \* scale k0 / e at the branch point
  /\ (cls <= 2 /\ ~far => r.fbit)                           \* pure reflections: bitwise parity (as T3)
  /\ Le(IF far THEN MinI(r.fd, r.fdm) ELSE r.fd, Mul(tp, 2))
  /\ Le(r.frd, Mul(tp, 2))                                  \* Reverse o Forward, geographic side
  /\ Le(IF far THEN MinI(r.rfd, r.rfdm) ELSE r.rfd, Mul(tp, 2))     \* Forward o Reverse o Forward, grid side
  /\ r.ovf /\ r.ovr
\* grid side (part "bpr"): Reverse at x = +- (x_bp at d ulps), y = +-0 | +- 2 y_pole returns the branch point (the map is
\* conformal there with scale k0 / e: the nudge moves the ground point by r.off), and Forward returns the grid point
BprOK(r) ==
  LET cls == r.cls  far == r.el[3] = 1  tp == Mul(TolEx, BF(far)) IN
  /\ CfgOK(r) /\ cls \in 1..4 /\ <<r.el[1], r.el[2], r.el[3]>> \in BprElem(cls) /\ r.el[4] \in -6..6
  /\ r.kf = "none" /\ r.part = "all"
  /\ r.fin /\ r.rfin /\ r.rng
  /\ Le(r.rp, Add(tp, r.off))
  /\ Le(IF far THEN MinI(r.rfd, r.rfdm) ELSE r.rfd, Mul(tp, 2))
  /\ r.ovr

(* ------------------------------ constructor family ----------------------- *)
\* every documented way of writing the constructor gives the same projection bit for bit, the inspectors return the
\* constructor arguments, TransverseMercator(exact = true) equals TransverseMercatorExact (same extendp) bit for bit
CtorOK(r) ==
  /\ CfgOK(r) /\ r.kf = "none" /\ r.part = "all"
  /\ r.ok /\ r.built /\ r.nf = CtorForms(r.cls) /\ r.dl = Delegate(r.cls)
  /\ r.dflt /\ r.insp /\ r.dlg

(* ------------------------------ grid plane -------------------------------- *)
\* Points (x, y) sampled over the documented domain of Reverse.  latq, lamq, ang, sing describe the ANSWER of Reverse;
\* las = latitude of the answer times the sign of y (classes 0..2) / the latitude (extendp).
\*   ImagePoint:   las >= 100 udeg: the answer is an image point of Forward of the same class -> Forward returns (x, y) to the
\*                 plain documented bound, gamma and k of the two calls agree.
\*   Continuation: las <= -100 (standard convention: "Reverse analytically continues this in the +- x direction"; extendp:
\*                 the lower extended region) -> Forward of the EXTENDED class returns the (folded) grid point to the documented
\*                 bound times the conditioning factor (what the known finding tmx-ext-lower still owes).
\*   in between (the equator) either closure is accepted.
\*   StripAgreement: on the strip 0 <= y <= y_pole the standard and the extended class are the same analytic function.
\*   SolverAgreement: series and exact Reverse agree where the answer is an image point within 35 degrees.
RxyOK(r) ==
  LET cls == r.cls  fi == r.fi  back == Back(r)  b == BF(back)  rho == Rho(r)
      img == r.las >= 100  cont == r.las <= -100
      sc == CondFactor(KL(r.kl))
      tp == Mul(TolP(cls, fi), 2 * b)
      tk == Mul(TolK(cls, fi), 2)
      tg == Add(GFwd(cls, fi, rho), GRev(TolG(cls, fi), Mul(TolP(cls, fi), b), rho))
      eqb == back /\ AbsI(r.latq) < 100                           \* EquatorFarSide
      kg == (cls = 0 \/ r.sing >= SingK) /\ (cls = 0 \/ AbsI(r.latq) < 89000000)    \* BranchPoint; tmx-gamma-nearpole is judged on rt / cmp
      ts == Mul(TolP(0, fi), b)  te == Mul(TolEx, b)
      solv == /\ r.oth => /\ r.ofin /\ Le(r.sd, Add(ts, te))
                          /\ (r.sing >= SingK) => /\ Le(r.sdk, Add(TolK(0, fi), TolKe))
                                                  /\ Le(r.sdg, Add(GRev(TolG(0, fi), ts, rho), GRev(TolGe, te, rho)))
  IN
  /\ CfgOK(r) /\ r.part = "all" /\ r.ovr
  \* proposed known-finding class, re-derived from the quantised inputs: exact class, f = 0.1, 1.25 <= |eta| / B <= 1.27,
  \* 0.6 <= folded |xi| / L <= 0.95 (Reverse does not converge there; the laws are NOT relaxed)
  /\ LET axi == IF AbsI(r.xiq) <= 1000000 THEN AbsI(r.xiq) ELSE 2000000 - AbsI(r.xiq)
         bigf == cls >= 1 /\ fi = 13 /\ AbsI(r.etaq) >= 1250000 /\ AbsI(r.etaq) <= 1270000 /\ axi >= 600000 /\ axi <= 950000
     IN r.kf = (IF bigf THEN "tmx-rev-bigf" ELSE "none")
  /\ IF cls = 0 THEN
       \* Series35 for a grid point: the answer lies within 35 degrees AND the easting is one that a point within 35 degrees
       \* can have (x / (k0 a) <= asinh(tan 35 deg) = 0.653 on the sphere, + 1 % for the ellipsoids of the family); far outside
       \* its domain the reverted series returns an unrelated point that may lie within 35 degrees
       (SeriesOK(fi) /\ r.ang <= Ang35 /\ r.etaa <= 660000) =>
          /\ r.fin /\ r.fin2 /\ r.rng
          /\ (~eqb => Le(r.cd, tp) /\ Le(r.ck, tk) /\ Le(r.cg, tg))
          /\ solv
     ELSE
       /\ r.fin /\ r.rng
       /\ (img /\ ~eqb) => /\ r.fin2 /\ Le(r.cd, tp)
                            /\ (kg => Le(r.ck, tk) /\ Le(r.cg, tg))
       /\ (cls >= 3 /\ ~img) => r.fin2 /\ Le(r.cd, Mul(tp, sc))
       /\ (cls <= 2 /\ r.cx) => /\ r.xfin
                                 /\ Le(r.xd, IF img THEN tp ELSE Mul(tp, sc))
                                 /\ (~img => Le(IF cont THEN r.cde ELSE MinI(r.cd, r.cde), Mul(tp, sc)))
       /\ (img /\ SeriesOK(fi) /\ r.ang <= Ang35) => solv

Obligation(r) ==
  CASE r.e = "sl" -> SlOK(r) [] r.e = "slr" -> SlrOK(r) [] r.e = "sym" -> SymOK(r)
    [] r.e = "cmp" -> CmpOK(r) [] r.e = "rt" -> RtOK(r) [] r.e = "cm" -> CmOK(r) [] r.e = "pl" -> PlOK(r)
    [] r.e = "cr" -> CrOK(r) [] r.e = "utm" -> UtmOK(r) [] r.e = "ext" -> ExtOK(r)
    [] r.e = "bp" -> BpOK(r) [] r.e = "bpr" -> BprOK(r) [] r.e = "cfg" -> CtorOK(r) [] r.e = "rxy" -> RxyOK(r)
    [] OTHER -> FALSE

Expected(r) ==
  CASE r.e = "sl" -> SlExp(r)
    [] r.e = "slr" -> SphRev(r.lon0, r.y[1])
    [] r.e = "sym" -> DrvOut(Pred([slat |-> r.el[1], s |-> r.el[2], b |-> r.el[3], wl |-> r.el[4], w0 |-> r.el[5]]))
    [] r.e \in {"cmp", "rt", "cm", "pl"} -> <<TolP(r.cls, r.fi), TolK(r.cls, r.fi), GFwd(r.cls, r.fi, Rho(r))>>
    [] r.e = "bp" -> BpFwd(r.cls, [slat |-> r.el[1], s |-> r.el[2], b |-> r.el[3], wl |-> 0, w0 |-> 0], r.el[4])
    [] r.e = "rxy" -> <<TolP(r.cls, r.fi), CondFactor(KL(r.kl))>>
    [] r.e = "cfg" -> <<CtorForms(r.cls), Delegate(r.cls)>>
    [] OTHER -> <<>>

Init == l = 1 /\ KitInit
Next == /\ l <= NT
        /\ Require(Obligation(T[l]), l, "tm-" \o T[l].e, Expected(T[l]))
        /\ Consumed(l)
        /\ l' = l + 1
=============================================================================
