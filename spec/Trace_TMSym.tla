---------------------------- MODULE Trace_TMSym ----------------------------
(***************************************************************************)
(* Validates observations of TransverseMercator / TransverseMercatorExact  *)
(* (C06) against TMSym.tla.  One obligation per trace line.                *)
(*                                                                         *)
(* Lattice lines (sl, slr) are compared with the exact sphere lattice;     *)
(* sym lines with the group model; law lines (cmp rt cm cr pl ext utm)     *)
(* carry residuals the driver reduced to integers:                         *)
(*   pmW   ground distance (map distance / scale k) in picometres at WGS84 *)
(*         scale (metres / a * 6378137 * 1e12), clipped to 2e9             *)
(*   fdeg  1e-15 degree;  e17  1e-17 relative;  e10  1e-10;  udeg 1e-6 deg *)
(* 2000000001 stands for NaN and fails every bound.  Every tolerance, every *)
(* applicability guard and every decision is in this module.               *)
(***************************************************************************)
EXTENDS TMSym, TraceKit

CONSTANTS
  TolSer,   \* pmW.  TransverseMercator.hpp: "The maximum error is 5 nm (5 nanometers), ground distance, for all positions
            \*       within 35 degrees of the central meridian."
  TolEx,    \* pmW.  TransverseMercatorExact.hpp: "The maximum error is about 8 nm (8 nanometers), ground distance, for the
            \*       forward and reverse transformations."
  TolKs,    \* e17.  "the relative error in the scale is 6e-12 %" (series) = 6e-14
  TolKe,    \* e17.  "... 7e-12 %" (exact) = 7e-14
  TolGs,    \* fdeg. Convergence.  The documented figure (2e-15 arc seconds = 5.6e-19 degree) is far below one ulp of gamma
  TolGe,    \*       (1.4e-14 degree at 90) and cannot be met by any double implementation (see notes/C06.md).  gamma and
            \*       ln k are the imaginary and real part of the same analytic function ln(dw/dz), so the documented scale
            \*       bound is used for gamma in radians: 6e-14 rad = 3438 fdeg (series), 7e-14 rad = 4011 fdeg (exact).
  Ang35,    \* udeg. "within 35 degrees of the central meridian": spherical distance from the central meridian great circle
  FDTol,    \* e10.  Finite-difference laws (Cauchy-Riemann, k = magnification, gamma = rotation): 1e-7 (DESIGN C06 T5);
            \*       central differences over 1e-5 a: truncation <= (1e-5 a / rho)^2 / 6 with rho >= 2 degrees, round-off 1e-10
  LatTol,   \* 1e-15 relative units: round-off tolerance on exact lattice values, 1e-11 (DESIGN section 5)
  TolEll,   \* pmW.  allowance for Ellipsoid::MeridianDistance / QuarterMeridian in the cross-class law (no documented figure;
            \*       the same nanometre level as the projection is assumed)
  SingK     \* udeg. the scale and convergence of the exact form are compared only this far from the branch point
            \*       lat = 0, |lam| = 90 (1 - e), where k and gamma are not differentiable (named guard BranchPoint)
VARIABLE l

Cap == 2000000000
Mul(a, b) == IF a = 0 \/ b = 0 THEN 0 ELSE IF a > Cap \div b THEN Cap ELSE a * b
Add(a, b) == IF a > Cap - b THEN Cap ELSE a + b
Le(x, t) == x >= 0 /\ x <= t            \* residuals are non-negative; NaN (2000000001) fails; a bound of Cap is vacuous

(* ------------------------------ guards ----------------------------------- *)
CfgOK(r) == r.fi \in 0..(NF - 1) /\ r.nq = NQ[r.fi + 1] /\ r.cls \in 0..4 /\ Admissible(r.cls, r.fi)
Back(r) == AbsI(r.lamq) > 90000000                      \* far side of the ellipsoid
Rho(r) == 90000000 - AbsI(r.latq)                       \* udeg from the nearer pole
KL(k) == IF k = -99 THEN 99 ELSE k                      \* floor(log2(k / k0)); -99 = not finite

\* Series: documented domain and ellipsoid family (named guard Series35)
S35(r) == SeriesOK(r.fi) /\ r.ang <= Ang35
\* Far side (named rule FarSide2): northings reach 2 * 10^7 m there, twice the range the documented round-off bounds were
\* established on (the test set covers lam in [0, 90]); one ulp of y doubles, so the position bounds are doubled.
BF(back) == IF back THEN 2 ELSE 1
\* Equator on the far side (named rule EquatorFarSide): lat = 0, |lam| > 90 is reached over either pole, so the northing
\* is +-(2 y_pole - y): the documentation does not choose; both are admitted.
EqBack(r) == r.latq = 0 /\ Back(r)

TolP(cls, fi) == IF cls = 0 THEN Mul(TolSer, Trunc(fi)) ELSE TolEx
TolK(cls, fi) == IF cls = 0 THEN Mul(TolKs, Trunc(fi)) ELSE TolKe
TolG(cls, fi) == IF cls = 0 THEN Mul(TolGs, Trunc(fi)) ELSE TolGe

\* Convergence returned by Forward: the plain bound everywhere.  FINDING (notes/C06.md, known_findings.json
\* "tmx-gamma-nearpole"): TransverseMercatorExact::Forward loses the convergence near a pole like 1 / (distance to the pole);
\* those lines are REJECTED here and matched structurally by their input class (field kf), nothing is scaled.
GFwd(cls, fi, rho) == TolG(cls, fi)
\* Convergence returned by Reverse (named guard PoleConditioning): gamma ~ lon is ill-conditioned as a function of (x, y) near
\* a pole: a position error tp (pmW) turns the direction to the pole by tp / (a rho); in fdeg that is tp * 515000 / rho[udeg].
GRev(tg, tp, rho) ==
  IF rho < 1000 THEN Cap
  ELSE LET m == Mul(tp, 515) IN IF m >= Cap THEN Cap ELSE Add(tg, m \div (rho \div 1000))

\* FINDING (notes/C06.md, known_findings.json "tmx-ext-lower"): in the lower part of the extended domain (extendp, lat < 0,
\* |lam| >= 90 (1 - e)) the accuracy of TransverseMercatorExact degrades in proportion to the scale k.  The documented bound
\* is required there as everywhere else; the rejected lines are matched structurally by their input class (field kf).

(* ------------------------------ known-finding classes --------------------- *)
\* kf is computed by the driver from the inputs only; the spec re-derives it from the quantised inputs it sees.  A record of
\* class "tmx-gamma-nearpole" is written as two lines: part "pos" (kf "none": every law except those on the gamma that Forward
\* of the exact class returned) and part "gam" (only those laws); part "all" otherwise.
NearPoleQ(r) == AbsI(r.latq) >= 89000000 /\ AbsI(r.latq) <= 90000000
NearPoleStrictQ(r) == AbsI(r.latq) > 89000000 /\ AbsI(r.latq) < 90000000
DoPos(r) == r.part \in {"all", "pos"}
DoGam(r) == r.part \in {"all", "gam"}
\* exg: the record evaluates gamma from Forward of the exact class;  lowMay / lowMust: extendp and the point is in the lower
\* extended region, judged on the quantised latitude (lat in (-5e-7, 0) is quantised to 0: either label is accepted there)
KfOK(r, exg, lowMay, lowMust) ==
  LET ext == r.kf = "tmx-ext-lower" IN
  /\ r.kf \in {"none", "tmx-gamma-nearpole", "tmx-ext-lower"} /\ r.part \in {"all", "pos", "gam"}
  /\ (r.part = "gam") = (r.kf = "tmx-gamma-nearpole")
  /\ (r.part \in {"pos", "gam"} => exg /\ NearPoleQ(r))
  /\ (r.part = "all" /\ exg /\ ~ext => ~NearPoleStrictQ(r))
  /\ (ext => lowMay) /\ (lowMust => ext)

(* ------------------------------ sphere lattice --------------------------- *)
\* V = <<nearest integer, deviation in 1e-15>>; 2000000001 = not finite
DevOK(V, v) == V[2] <= LatTol * MaxI(1, AbsI(v)) /\ -V[2] <= LatTol * MaxI(1, AbsI(v))
Match(e, V, d) ==
  CASE e[1] = "int" -> V[1] = e[2] /\ DevOK(V, e[2])
    [] e[1] = "pm" -> (V[1] = e[2] \/ V[1] = -e[2]) /\ DevOK(V, e[2])
    [] e[1] = "lon" -> (V[1] = e[2] \/ (AbsI(e[2]) = 180 /\ V[1] = -e[2])) /\ DevOK(V, e[2])
    [] e[1] = "sgn" ->
         \/ d # 0                       \* one ulp from a critical meridian: the sheet is decided, the sign of a tiny value is not
         \/ LET m == e[2] * V[1]  f == e[2] * V[2] IN
            /\ V[1] # 2000000001
            /\ (m > e[3] \/ (m = e[3] /\ f > 0))
            /\ (e[4] = 0 \/ m < e[4] \/ (m = e[4] /\ f < 0))
    [] e[1] = "any" -> TRUE
    [] OTHER -> FALSE

SlExp(r) == SphFwd(r.lat[1], Norm180(r.lon[1] - r.lon0), r.lon[2])
SlOK(r) ==
  LET e == SlExp(r)  d == r.lon[2] IN
  /\ r.ki \in {1, 2, 3, 4} /\ r.lat[2] = 0 /\ ~SphSkip(r.lat[1], Norm180(r.lon[1] - r.lon0))
  /\ r.fin
  /\ Match(e.x, r.X, d) /\ Match(e.y, r.Y, d) /\ Match(e.g, r.G, d) /\ Match(e.k, r.K, d)

SlrOK(r) ==
  LET e == SphRev(r.lon0, r.y[1]) IN
  /\ r.ki \in {1, 2, 3, 4} /\ r.fin
  /\ Match(e.lat, r.LA, 0) /\ Match(e.lon, r.LO, 0) /\ Match(e.g, r.G, 0) /\ Match(e.k, r.K, 0)
  /\ AbsI(r.LA[1]) <= 90 /\ AbsI(r.LO[1]) <= 180

(* ------------------------------ symmetry group --------------------------- *)
SymOK(r) ==
  LET e == [slat |-> r.el[1], s |-> r.el[2], b |-> r.el[3], wl |-> r.el[4], w0 |-> r.el[5]]
      cls == r.cls  fi == r.fi
      pure == r.bk = "gen" /\ e.b = 0 /\ e.wl = 0 /\ e.w0 = 0      \* a pure reflection of a generic point: bitwise parity
      dom == cls = 0 => S35(r)
      bf == IF e.b = 1 THEN 2 ELSE 1
      tp == Mul(TolP(cls, fi), 2 * bf)                            \* both answers are within the documented bound of the truth
      tk == Mul(TolK(cls, fi), 2)
      rho == Rho(r)
      fd == IF r.bk = "eq" /\ e.b = 1 THEN MinI(r.fd, r.fdm) ELSE r.fd      \* EquatorFarSide
      kg == cls = 0 \/ r.sing >= SingK
  IN
  /\ CfgOK(r) /\ cls \in 0..2 /\ KfOK(r, cls >= 1, FALSE, FALSE)
  /\ e \in Elem /\ r.out = DrvOut(Pred(e))                         \* the transform the driver applied is the model's
  /\ (dom /\ DoPos(r)) =>
       /\ r.fin /\ r.rfin /\ r.rng
       /\ (pure => r.rbit /\ (r.part = "all" => r.fbit))
       /\ Le(fd, tp) /\ Le(r.rd, tp)
       /\ kg => /\ Le(r.fk, tk) /\ Le(r.rk, tk)
                /\ Le(r.rg, Mul(GRev(TolG(cls, fi), Mul(TolP(cls, fi), bf), rho), 2))
  /\ (dom /\ DoGam(r)) =>
       /\ (pure /\ r.part = "gam" => r.fbit)
       /\ (kg => Le(r.fg, Mul(GFwd(cls, fi, rho), 2)))

(* ------------------------------ laws ------------------------------------- *)
\* T2: series = exact = independent high-order evaluation of the Gauss-Krueger mapping (Krueger series to order 30 from
\* the documentation, long double); Reverse of the oracle's image returns the point
CmpOK(r) ==
  LET fi == r.fi  b == BF(Back(r))  rho == Rho(r)
      ts == Mul(TolP(0, fi), b)  te == Mul(TolEx, b)
      orc == r.otr <= 10                        \* the oracle's own truncation estimate is below 0.01 nm
      so == IF EqBack(r) THEN MinI(r.so, r.som) ELSE r.so
  IN
  /\ CfgOK(r) /\ r.cls = 0 /\ r.ex = FPos(fi) /\ KfOK(r, r.ex, FALSE, FALSE)
  /\ DoPos(r) => (S35(r) => r.sfin)
  /\ (DoPos(r) /\ S35(r) /\ orc) =>
       /\ Le(so, ts) /\ Le(r.sog, TolG(0, fi)) /\ Le(r.sok, TolK(0, fi))
       /\ r.srfin /\ Le(r.rso, ts) /\ Le(r.rsok, TolK(0, fi)) /\ Le(r.rsog, GRev(TolG(0, fi), ts, rho))
       \* DocumentedOrder: the class documents a series of order 6 in n, so at any flattening its error at a point is the
       \* round-off bound plus the truncation error of the order-6 series there (|order 6 - order 30| of the documented series,
       \* evaluated by the driver in long double), with a factor 2; a more accurate implementation passes a fortiori
       /\ Le(so, Add(Mul(TolSer, b), Mul(2, r.t6f)))
       /\ Le(r.rso, Add(Mul(TolSer, b), Mul(2, r.t6r)))
  /\ r.ex =>
       LET eo == IF EqBack(r) THEN MinI(r.eo, r.eom) ELSE r.eo IN
       /\ DoPos(r) =>
            /\ r.efin
            /\ orc => /\ Le(eo, te) /\ r.erfin /\ Le(r.reo, te)
                      /\ (r.sing >= SingK => Le(r.eok, TolKe) /\ Le(r.reok, TolKe) /\ Le(r.reog, GRev(TolGe, te, rho)))
            /\ S35(r) => Le(r.se, Add(ts, te)) /\ Le(r.sek, Add(TolK(0, fi), TolKe))
       /\ DoGam(r) =>                                \* the convergence returned by Forward of the exact class
            /\ (orc /\ r.sing >= SingK => Le(r.eog, GFwd(1, fi, rho)))
            /\ (S35(r) => Le(r.seg, Add(TolG(0, fi), GFwd(1, fi, rho))))

\* T1: Forward o Reverse and Reverse o Forward
InImage(r) == AbsI(r.latq) >= 100 \/ AbsI(r.lamq) < 45000000 \/ r.cls >= 3     \* the rounded grid point is an image point
RtOK(r) ==
  LET cls == r.cls  fi == r.fi  b == BF(Back(r))  rho == Rho(r)
      low == cls >= 3 /\ r.lower
      tp == Mul(TolP(cls, fi), 2 * b)
      tk == Mul(TolK(cls, fi), 2)
      tg == Add(GFwd(cls, fi, rho), GRev(TolG(cls, fi), Mul(TolP(cls, fi), b), rho))
      dom == cls = 0 => S35(r)
      \* EquatorFarSide: next to the far-side equator the rounded northing may exceed 2 y_pole; Reverse accepts it and
      \* Forward answers with the canonical representation over the other pole, so the grid point is not compared there
      dom2 == (IF cls = 0 THEN r.ang3 <= Ang35 ELSE InImage(r)) /\ ~(Back(r) /\ AbsI(r.lat3) < 100)
      kg == cls = 0 \/ r.sing >= SingK
      rfd == r.rfd
  IN
  /\ CfgOK(r) /\ KfOK(r, cls >= 1, low /\ r.latq <= 0, low /\ r.latq < 0)
  /\ (dom /\ DoPos(r)) => /\ r.fin /\ r.rng /\ Le(r.frd, tp)
                          /\ (kg => Le(r.frk, tk))
  /\ (dom /\ dom2 /\ DoPos(r)) => /\ r.fin2 /\ Le(rfd, tp)
                                   /\ (kg => Le(r.rfk, tk))
  \* gamma of Forward against gamma of Reverse at the same point (both calls)
  /\ (dom /\ DoGam(r) /\ kg) => Le(r.frg, tg)
  /\ (dom /\ dom2 /\ DoGam(r) /\ kg) => Le(r.rfg, tg)

\* T4: the central meridian (and its far side) is mapped with constant scale k0 at true meridian distance
CmOK(r) ==
  LET cls == r.cls  fi == r.fi  b == BF(r.back)
      tp == Mul(TolP(cls, fi), b)
  IN
  /\ CfgOK(r) /\ r.kf = "none" /\ r.part = "all"
  /\ (cls = 0 => SeriesOK(fi)) =>
       /\ r.fin /\ r.ysgn
       /\ Le(r.xq, tp) /\ Le(r.gq, TolG(cls, fi)) /\ Le(r.kq, TolK(cls, fi))
       /\ Le(r.yq, tp)                                   \* against the meridian arc integral (long double quadrature)
       /\ Le(r.ym, Add(tp, Mul(TolEll, b)))              \* against Ellipsoid::MeridianDistance / QuarterMeridian

\* poles
PlOK(r) ==
  LET cls == r.cls  fi == r.fi  tp == TolP(cls, fi) IN
  /\ CfgOK(r) /\ AbsI(r.latq) = 90000000 /\ r.kf = "none" /\ r.part = "all"
  /\ (cls = 0 => SeriesOK(fi)) =>
       /\ r.fin /\ Le(r.xq, tp) /\ Le(r.yq, tp) /\ Le(r.ym, Add(tp, TolEll))
       /\ Le(r.gq, TolG(cls, fi)) /\ Le(r.kq, TolK(cls, fi))
       /\ r.rfin /\ r.rng /\ Le(r.rp, Mul(tp, 2)) /\ Le(r.rk, Mul(TolK(cls, fi), 2))

\* T5: conformality, k = magnification, gamma = rotation, by central differences
CrOK(r) ==
  LET dom == /\ AbsI(r.latq) <= 88000000
             /\ (r.cls = 0 => S35(r)) /\ (r.cls > 0 => r.sing >= 1000000)
             \* the northing of the equator's far side jumps (EquatorFarSide); keep the stencil off that line
             /\ (AbsI(r.latq) >= 5000 \/ AbsI(r.lamq) < 45000000 \/ r.cls >= 3)
  IN
  /\ CfgOK(r) /\ KfOK(r, FALSE, r.cls >= 3 /\ r.lower /\ r.latq <= 0, r.cls >= 3 /\ r.lower /\ r.latq < 0)
  /\ dom => r.fin /\ Le(r.cr1, FDTol) /\ Le(r.cr2, FDTol) /\ Le(r.mk, FDTol) /\ Le(r.rg, FDTol)

\* T6: the UTM() singletons equal fresh (WGS84, 0.9996) objects bit for bit
UtmOK(r) == r.sf /\ r.sr /\ r.ef /\ r.er /\ r.par /\ r.kf = "none" /\ r.part = "all"

\* extendp = true: equals extendp = false on the first quadrant; the image of the extended domain is the documented one
ExtOK(r) ==
  /\ CfgOK(r) /\ r.cls \in {3, 4} /\ KfOK(r, FALSE, r.lower /\ r.latq <= 0, r.lower /\ r.latq < 0)
  /\ IF ~r.lower
     THEN /\ r.fin /\ r.fin2 /\ Le(r.qd, Mul(TolEx, 2))
          /\ Le(r.qg, Mul(GFwd(1, r.fi, Rho(r)), 2)) /\ Le(r.qk, Mul(TolKe, 2))
     ELSE   /\ r.fin
            /\ \/ (r.my >= -1 /\ r.mt >= -1 /\ r.mx0 >= -1)
               \/ (r.my <= 1 /\ r.mx >= -1)

Obligation(r) ==
  CASE r.e = "sl" -> SlOK(r) [] r.e = "slr" -> SlrOK(r) [] r.e = "sym" -> SymOK(r)
    [] r.e = "cmp" -> CmpOK(r) [] r.e = "rt" -> RtOK(r) [] r.e = "cm" -> CmOK(r) [] r.e = "pl" -> PlOK(r)
    [] r.e = "cr" -> CrOK(r) [] r.e = "utm" -> UtmOK(r) [] r.e = "ext" -> ExtOK(r)
    [] OTHER -> FALSE

Expected(r) ==
  CASE r.e = "sl" -> SlExp(r)
    [] r.e = "slr" -> SphRev(r.lon0, r.y[1])
    [] r.e = "sym" -> DrvOut(Pred([slat |-> r.el[1], s |-> r.el[2], b |-> r.el[3], wl |-> r.el[4], w0 |-> r.el[5]]))
    [] r.e \in {"cmp", "rt", "cm", "pl"} -> <<TolP(r.cls, r.fi), TolK(r.cls, r.fi), GFwd(r.cls, r.fi, Rho(r))>>
    [] OTHER -> <<>>

Init == l = 1 /\ KitInit
Next == /\ l <= NT
        /\ Require(Obligation(T[l]), l, "tm-" \o T[l].e, Expected(T[l]))
        /\ Consumed(l)
        /\ l' = l + 1
=============================================================================
