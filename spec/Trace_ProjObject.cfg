INIT Init
NEXT Next
CONSTANTS TolLat = 10 TolScale = 20
POSTCONDITION Summary
CHECK_DEADLOCK FALSE
