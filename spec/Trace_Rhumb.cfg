INIT Init
NEXT Next
CONSTANTS TolLen = 2352 RelTol = 1776 SeriesEdge = 4 TolArea = 100000 TolPico = 10 QeMax = 1000 CrMax = 20000000
POSTCONDITION Summary
CHECK_DEADLOCK FALSE
