--------------------------- MODULE MC_AngleArith ---------------------------
(* Lattice / state-graph enumeration for C16.  root -> chunk c -> vectors (function-like parts);              *)
(* root -> histories of the Accumulator (a tree: the state is the history itself).                             *)
(* Model invariants are checked on every vector; Emit prints it for the replay on the real library.           *)
EXTENDS AngleArith, Accumulator, TLC, Json

CONSTANTS Stride,    \* sweep stride of the 1/16 degree lattice (1 = every point)
          Part,      \* "one", "two", "trp", "acc", "msc"
          NChunks,
          NHist      \* length of the accumulator histories
VARIABLE v

InChunk(S, C) == {x \in S : x % NChunks = C}
L16(n) == Mk(n, -4, FALSE)                                  \* n / 16 degrees (n = 0: +0)
\* the binary32 value k steps of the last place away from n * 2^u (n > 0), with sign sg
Ulp(n, u, k, sg) == LET s == PB - BL(n) IN Canon(<<FIN, sg * (n * Pow2(s) + k), u - s>>)
SG == {1, -1}

Sweep16 == {n \in 0..11520 : n % Stride = 0 \/ (n % 240) \in {0, 1, 2, 238, 239}}

Specials == {<<PZ, 0, 0>>, <<NZ, 0, 0>>, <<PINF, 0, 0>>, <<NINF, 0, 0>>, <<NAN, 0, 0>>,
             <<FIN, 16777215, 104>>, <<FIN, -16777215, 104>>, <<FIN, 1, -149>>, <<FIN, -1, -149>>, <<FIN, 1, -126>>}

VecOne(C) ==
  \/ \E n \in InChunk(Sweep16, C), sg \in SG : v' = <<"one", L16(sg * n)>>
  \/ \E d \in InChunk(1..48, C), k \in {-2, -1, 1, 2}, sg \in SG : v' = <<"one", Ulp(15 * d, 0, k, sg)>>
  \/ \E j \in InChunk(0..100, C), w \in {1, 2, 3, 4, 5, 6, 7, 9, 11, 12}, k \in {-1, 0, 1}, sg \in SG : v' = <<"one", Ulp(30 * w, j, k, sg)>>
  \/ \E e \in InChunk(20..149, C), m \in {1, 3, 8388609, 16777215}, sg \in SG : v' = <<"one", <<FIN, sg * m, -e>>>>
  \/ \E k \in InChunk(1..256, C), u \in {29, 30, 31, 33}, sg \in SG : v' = <<"one", Mk(sg * k, -u, FALSE)>>
  \/ \E u \in InChunk(3..8, C), n \in {1, 3}, k \in -3..3, sg \in SG : v' = <<"one", Ulp(n, -u, k, sg)>>
  \/ C = 0 /\ \E x \in Specials : v' = <<"one", x>>

\* edge set for the two-argument functions
E2 == {L16(sg * 240 * d) : d \in 0..24, sg \in SG}
      \cup {Ulp(n, 0, k, sg) : n \in {5, 45, 90, 180, 360}, k \in {-1, 1}, sg \in SG}
      \cup {L16(sg * n) : n \in {1, 7, 16, 33, 100, 1437, 2881, 5000, 5761, 11519}, sg \in SG}
      \cup {<<FIN, sg, e>> : e \in {-23, -20, -10, -149, 30, 100}, sg \in SG}
      \cup {<<FIN, sg * 45, 43>> : sg \in SG} \cup {<<FIN, sg * 11796481, 20>> : sg \in SG}
      \cup {<<PZ, 0, 0>>, <<NZ, 0, 0>>, <<PINF, 0, 0>>, <<NINF, 0, 0>>, <<NAN, 0, 0>>}
Key(x) == Abs(x[2]) + x[1] + Abs(x[3])
VecTwo(C) ==
  \/ \E a \in {x \in E2 : Key(x) % NChunks = C}, b \in E2 : v' = <<"two", a, b>>
  \/ \E n \in InChunk({k \in -2880..2880 : k % (7 * Stride) = 0}, C), m \in {k \in -2880..2880 : k % (97 * Stride) = 0} :
        v' = <<"two", L16(n), L16(m)>>

\* pairs related by the elementary identities: x2 = -x, x + 360 j, 90 - x, 180 - x, x + 90 j, 90 j - x  (unit 1/16 degree)
TrpX2(n, rel, j) == CASE rel = "neg" -> -n [] rel = "per" -> n + 5760 * j [] rel = "co" -> 1440 - n
                      [] rel = "sup" -> 2880 - n [] rel = "q" -> n + 1440 * j [] OTHER -> 1440 * j - n
SweepT == {n \in -5760..5760 : n % (3 * Stride) = 0 \/ (n % 240) \in {0, 1, 239}}
VecTrp(C) ==
  \/ \E n \in InChunk(SweepT, C), rel \in {"neg", "per", "co", "sup", "q", "cq"}, j \in {-3, -1, 1, 2} :
        v' = <<"trp", L16(n), L16(TrpX2(n, rel, j)), rel, j>>
  \/ C = 0 /\ v' = <<"trp", <<PZ, 0, 0>>, <<NZ, 0, 0>>, "neg", 1>>
  \/ \E d \in InChunk(1..24, C), k \in {-1, 1}, sg \in SG : v' = <<"trp", Ulp(15 * d, 0, k, sg), Ulp(15 * d, 0, k, -sg), "neg", 1>>

\* helpers: polyval over small integers (every order -1..4), sq, norm on scaled Pythagorean triples, hypot3 on the axes
Coef == -2..2
Polys == {<<>>} \cup {<<a>> : a \in Coef} \cup {<<a, b>> : a \in Coef, b \in Coef} \cup {<<a, b, c>> : a \in Coef, b \in Coef, c \in Coef}
         \cup {<<a, b, c, 3>> : a \in {1, -2}, b \in Coef, c \in Coef} \cup {<<a, -3, c, 1, b>> : a \in {1, -2}, b \in Coef, c \in Coef}
VecMsc(C) ==
  \/ \E x \in InChunk(-4..4, C), p \in Polys : v' = <<"pv", p, x>>
  \/ \E m \in InChunk(1..4095, C), e \in {-70, -12, 0, 40}, sg \in SG : (m % 64 \in {1, 21, 63} \/ m < 64) /\ v' = <<"sq", sg * m, e>>
  \/ \E k \in InChunk(-60..60, C), t \in Triples, sx \in SG, sy \in SG, sw \in {0, 1} : k % 6 = 0 /\ v' = <<"nrm", sx * t[1 + sw], sy * t[2 - sw], t[3], k>>
  \/ \E m \in InChunk({1, 3, 5, 4097, 16777215}, C), e \in {-149, -30, 0, 60, 100}, n \in 1..3, sg \in SG : v' = <<"h3", n, sg * m, e>>

\* accumulator operations on the limb lattice (Accumulator.tla lists the kinds)
AccCs(ty) == IF ty = "f" THEN {1, -1, 3, -4095, 16383} ELSE {1, -1, 3, -67108863, 134217727}
AccBig(ty) == IF ty = "f" THEN 16383 ELSE 134217727
\* operations that change the sum: += (15 values), negate, *= int, *= T, a = y, a = Accumulator(y), -=
AccMut(ty) ==
  {<<0, j, c>> : j \in 0..2, c \in AccCs(ty)} \cup {<<1, 0, 0>>, <<2, 0, 2>>, <<3, 0, 3>>, <<3, 0, -2>>}
  \cup {<<5, 0, 3>>, <<5, 2, -1>>, <<11, 1, 3>>} \cup {<<6, 0, 1>>, <<6, 1, AccBig(ty)>>}
\* operations that only observe (probe, the six comparisons, copy construction, assignment) or whose successor is a set
\* (remainder): last operation of a history only - they leave the sum alone, so every (state, operation) pair is still reached
AccObs(ty) ==
  {<<4, 0, 1>>, <<4, 2, -3>>} \cup {<<7, 0, 0>>, <<7, 0, 3>>, <<7, 0, -1>>, <<7, 2, 3>>}
  \cup {<<9, 0, 0>>, <<10, 0, 0>>} \cup {<<8, 0, 360>>, <<8, 0, 3>>, <<8, 0, 16383>>}
\* constructor forms: default, Accumulator a(y), Accumulator a = y
AccCtors(ty) == {<<14, 0, 0>>} \cup {<<k, 0, 3>> : k \in {12, 13}} \cup {<<k, 1, -4095>> : k \in {12, 13}}
                \cup {<<k, 2, 3>> : k \in {12, 13}}
BB(ty) == IF ty = "f" THEN 15 ELSE 30
RECURSIVE AccEval(_, _, _)
AccEval(ops, i, E) == IF i > Len(ops) THEN E ELSE AccEval(ops, i + 1, AccApply(E, ops[i]))
\* a history is a constructor form followed by at most NHist operations (NHist - 1 after a constructor with a value,
\* which already is the first addend)
AccMaxLen(ops) == IF ops[1][1] = 14 THEN NHist + 1 ELSE NHist
AccComplete(ty, ops) == Len(ops) = AccMaxLen(ops) \/ ops[Len(ops)] \in AccObs(ty)

Init == v = <<"root">>
Next ==
  \/ /\ v = <<"root">> /\ Part # "acc" /\ \E c \in 0..(NChunks - 1) : v' = <<"chunk", c>>
  \/ /\ v = <<"root">> /\ Part = "acc" /\ \E ty \in {"f", "d"} : \E c \in AccCtors(ty) : v' = <<"acc", ty, <<c>>>>
  \/ /\ v[1] = "chunk"
     /\ CASE Part = "one" -> VecOne(v[2]) [] Part = "two" -> VecTwo(v[2]) [] Part = "msc" -> VecMsc(v[2]) [] OTHER -> VecTrp(v[2])
  \/ /\ v[1] = "acc" /\ ~AccComplete(v[2], v[3])
     /\ \E op \in AccMut(v[2]) \cup AccObs(v[2]) :
          /\ AccInRange(AccApply(AccEval(v[3], 1, AccZero), op), BB(v[2]))
          /\ v' = <<"acc", v[2], Append(v[3], op)>>

(* ------------------------------ model invariants ------------------------- *)
NegT(t) == [q |-> (4 - t.q) % 4, r |-> NegN(t.r)]
NegSym(s) == <<-s[1], s[2]>>
OneInv ==
  v[1] = "one" =>
    LET x == v[2]
        n == AngNormalize(x)
        t == TrigRed(x)
    IN /\ ValidN(x) /\ Canon(x) = x
       /\ IsNum(x) =>
            /\ ValidN(n) /\ (IsZero(n) \/ CmpMagInt(n, 180) <= 0)
            /\ AngNormalize(n) = n                                   \* idempotent
            /\ AngNormalize(NegN(x)) = NegN(n)                       \* odd
            /\ (IsZero(n) \/ CmpMagInt(n, 180) = 0 => SignBit(n) = SignBit(x))
            /\ TrigRed(n).q = t.q /\ SameVal(TrigRed(n).r, t.r)      \* n = x (mod 360)
            /\ (IsZero(t.r) \/ CmpMagInt(t.r, 45) <= 0)
            /\ TrigRed(NegN(x)) = NegT(t)                            \* remquo is odd
            /\ SinSym(NegT(t)) = NegSym(SinSym(t)) /\ CosSym(NegT(t)) = CosSym(t)
            /\ {SinSym(t)[2], CosSym(t)[2]} = {"sin", "cos"}
       /\ LatFix(x) \in {x, NaNN} /\ LatFix(LatFix(x)) = LatFix(x)
       /\ LET a == AngRound(x) IN
            /\ ValidN(a) /\ AngRound(a) = a /\ AngRound(NegN(x)) = NegN(a)
            /\ (IsNum(x) => IsNum(a) /\ SignBit(a) = SignBit(x))
            /\ (IsFin(x) /\ IsFin(a) => a[3] >= -28 \/ a = x)

TwoInv ==
  v[1] = "two" =>
    LET a == v[2]  b == v[3] IN
    /\ ValidN(a) /\ ValidN(b)
    /\ SumDefined(a, b) =>
         LET S == Sum(a, b)  U == UnitOf(a, b) IN
         /\ SumDefined(b, a) /\ Sum(b, a) = S
         /\ ValidN(S[1]) /\ ValidN(S[2])
         /\ FixAt(S[1], U) + FixAt(S[2], U) = FixAt(a, U) + FixAt(b, U)
    /\ AngDiffDefined(a, b) =>
         /\ AngDiffDefined(b, a)
         /\ \A p \in AngDiffSet(a, b) :
              /\ ValidN(p[1]) /\ ValidN(p[2])
              /\ (IsZero(p[1]) \/ CmpMagInt(p[1], 180) <= 0)
              /\ (IsFin(p[2]) /\ IsFin(p[1]) => CmpMag(p[2], p[1]) < 0)
              \* antisymmetry away from the cut
              /\ (IsFin(p[1]) /\ CmpMagInt(p[1], 180) < 0 => <<NegN(p[1]), NegN(p[2])>> \in
                    {<<q[1], IF IsZero(q[2]) THEN NegN(p[2]) ELSE q[2]>> : q \in AngDiffSet(b, a)})
         /\ (IsFin(a) => AngDiffSet(a, a) = {<<ZeroN(FALSE), ZeroN(FALSE)>>})
    /\ Atan2Class(a, b)[1] \in {"nan", "deg", "gen"}
    /\ (Atan2Class(a, b)[1] = "deg" => Atan2Class(NegN(a), b) = <<"deg", Atan2Class(a, b)[2], ~Atan2Class(a, b)[3]>>)

AbsR(t) == IF SignBit(t.r) THEN NegN(t.r) ELSE t.r
TrpInv ==
  v[1] = "trp" =>
    LET t1 == TrigRed(v[2])  t2 == TrigRed(v[3])  rel == v[4] IN
    /\ ValidN(v[2]) /\ ValidN(v[3])
    /\ SameVal(AbsR(t1), AbsR(t2))
    /\ (IsFin(t1.r) /\ RClass(t1.r) # 45 =>
         CASE rel = "neg" -> SinSym(t2) = NegSym(SinSym(t1)) /\ CosSym(t2) = CosSym(t1)
           [] rel = "per" -> t2 = t1
           [] rel = "co" -> SinSym(t2) = CosSym(t1) /\ CosSym(t2) = SinSym(t1)
           [] rel = "sup" -> SinSym(t2) = SinSym(t1) /\ CosSym(t2) = NegSym(CosSym(t1))
           [] OTHER -> TRUE)

AccInv ==
  v[1] = "acc" =>
    LET E == AccEval(v[3], 1, AccZero)  bb == BB(v[2]) IN
    /\ AccInRange(E, bb)
    /\ AccApply(AccApply(E, <<1, 0, 0>>), <<1, 0, 0>>) = E                          \* negation is an involution
    /\ AccNorm(AccApply(E, <<2, 0, 2>>), bb) = AccNorm(<<E[1] + E[1], E[2] + E[2], E[3] + E[3]>>, bb)
    /\ AccApply(E, <<4, 1, 5>>) = E                                                  \* a probe does not change the sum
    /\ LET n == AccNorm(E, bb) IN n[1] \in 0..(2^bb - 1) /\ n[2] \in 0..(2^bb - 1) /\ AccNorm(n, bb) = n
    \* shape of a history: exactly one constructor form, first; an observing operation only last
    /\ v[3][1] \in AccCtors(v[2]) /\ \A i \in 2..Len(v[3]) : v[3][i][1] \notin AccCtorKinds
    /\ \A i \in 1..(Len(v[3]) - 1) : v[3][i] \notin AccObs(v[2])
    \* every way a number enters other than by += is "set sum = y": the same as a default-constructed accumulator plus y
    /\ \A k \in AccSetKinds, a \in 0..2, b \in {3, -1} :
         AccApply(E, <<k, a, b>>) = AccApply(AccZero, <<0, a, b>>) /\ AccApply(AccApply(E, <<14, 0, 0>>), <<0, a, b>>) = AccUnit(a, b)
    /\ \A a \in 0..2 : AccApply(AccApply(E, <<6, a, 5>>), <<0, a, 5>>) = E                 \* -= undoes +=
    /\ \A k \in AccKeepKinds \cup AccTerminalKinds : AccApply(E, <<k, 0, 7>>) = E
    \* comparisons: a three-way comparison, antisymmetric under negation, invariant under a common shift
    /\ \A a \in {0, 2}, b \in {0, 3, -1} :
         /\ AccCmp3(E, a, b, bb) \in {-1, 0, 1}
         /\ AccCmp3(AccScale(E, -1), a, -b, bb) = -AccCmp3(E, a, b, bb)
         /\ AccCmp3(AccApply(E, <<6, a, b>>), 0, 0, bb) = AccCmp3(E, a, b, bb)
         /\ (AccCmp3(E, a, b, bb) = 0 <=> AccNorm(E, bb) = AccNorm(AccUnit(a, b), bb))
         /\ AccCmpFamily(<<AccCmp3(E, a, b, bb), AccCmp3(E, a, b, bb) = 0, AccCmp3(E, a, b, bb) # 0, AccCmp3(E, a, b, bb) < 0,
                           AccCmp3(E, a, b, bb) <= 0, AccCmp3(E, a, b, bb) > 0, AccCmp3(E, a, b, bb) >= 0>>)
    \* remainder: a non-empty set of values in [-y/2, y/2] congruent to the sum; unchanged by adding a multiple of y
    /\ \A y \in {3, 360, 16383} :
         /\ AccRemSet(E, y, bb) # {}
         /\ \A c \in AccRemSet(E, y, bb) : 2 * c <= y /\ -2 * c <= y /\ (AccResidue(E, y, bb) - c) % y = 0
         /\ AccRemSet(AccApply(E, <<0, 0, y>>), y, bb) = AccRemSet(E, y, bb)
         /\ AccRemSet(AccApply(E, <<6, 1, y>>), y, bb) = AccRemSet(E, y, bb)
         /\ (AccNorm(E, bb)[3] = 0 /\ AccNorm(E, bb)[2] = 0 /\ 2 * AccNorm(E, bb)[1] < y => AccRemSet(E, y, bb) = {AccNorm(E, bb)[1]})

MscInv ==
  /\ v[1] = "pv" =>
       LET p == v[2]  x == v[3] IN
       /\ PolyVal(p, 0) = (IF Len(p) = 0 THEN 0 ELSE p[Len(p)])                     \* constant term
       /\ PolyVal(p, 1) = Horner(p, 1, 1, 0)                                           \* sum of the coefficients
       /\ \A c \in {-1, 2} : PolyVal(Append(p, c), x) = x * PolyVal(p, x) + c         \* Horner step
       /\ (Len(p) = 1 => PolyVal(p, x) = p[1])
       /\ PolyVal(p, x) < 2^24 /\ -PolyVal(p, x) < 2^24                             \* exact in binary32
  /\ v[1] = "sq" => ValidN(SqN(v[2], v[3])) \/ 2 * v[3] < -149 \/ 2 * v[3] > 100
  /\ v[1] = "nrm" => v[2] * v[2] + v[3] * v[3] = v[4] * v[4]

Emit == (v[1] \in {"one", "two", "trp", "pv", "sq", "nrm", "h3"} \/ (v[1] = "acc" /\ AccComplete(v[2], v[3]))) => PrintT(ToJson(v))
=============================================================================
