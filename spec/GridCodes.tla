---------------------------- MODULE GridCodes ----------------------------
(***************************************************************************)
(* Geohash, GARS, Georef and OSGB grid references as exact integer          *)
(* functions (property C18).  Written from the class documentation          *)
(* (Geohash.hpp, GARS.hpp, Georef.hpp, OSGB.hpp) and the public definitions *)
(* of the schemes, not from the .cpp files.                                  *)
(*                                                                           *)
(* Positions are "Eps numbers" <<k, d>>: the real k*unit displaced by d      *)
(* ulps (d \in {-1,0,1}); unit is a per-scheme lattice unit.  When k*unit    *)
(* is exactly representable in binary the cell of <<k,d>> is determined;     *)
(* when it is not (e.g. k/12 degree) the doubles within one ulp of k*unit lie  *)
(* within round-off of the edge and both neighbours are admissible.          *)
(* Strings are sequences of byte codes.                                      *)
(***************************************************************************)
EXTENDS Integers, Sequences, FiniteSets

Upper(c) == IF c >= 97 /\ c <= 122 THEN c - 32 ELSE c
Lower(c) == IF c >= 65 /\ c <= 90 THEN c + 32 ELSE c
UpperS(s) == [i \in 1..Len(s) |-> Upper(s[i])]

\* 0-based index of (the upper-cased) c in alphabet alpha, or -1 (definition).
LookupDef(alpha, c) ==
  LET u == Upper(c)
      S == {i \in 1..Len(alpha) : alpha[i] = u}
  IN IF S = {} THEN -1 ELSE (CHOOSE i \in S : TRUE) - 1

Digits  == <<48, 49, 50, 51, 52, 53, 54, 55, 56, 57>>
\* "0123456789BCDEFGHJKMNPQRSTUVWXYZ"  (geohash base 32: no A, I, L, O)
GHAlpha == <<48, 49, 50, 51, 52, 53, 54, 55, 56, 57, 66, 67, 68, 69, 70, 71,
             72, 74, 75, 77, 78, 80, 81, 82, 83, 84, 85, 86, 87, 88, 89, 90>>
\* "ABCDEFGHJKLMNPQRSTUVWXYZ" (no I, O)
L24 == <<65, 66, 67, 68, 69, 70, 71, 72, 74, 75, 76, 77, 78, 80, 81, 82, 83,
         84, 85, 86, 87, 88, 89, 90>>
L12 == SubSeq(L24, 1, 12)
L15 == SubSeq(L24, 1, 15)
\* "ABCDEFGHJKLMNOPQRSTUVWXYZ" (no I) -- OSGB
L25 == <<65, 66, 67, 68, 69, 70, 71, 72, 74, 75, 76, 77, 78, 79, 80, 81, 82,
         83, 84, 85, 86, 87, 88, 89, 90>>

INV == <<73, 78, 86>>       \* "INV"
NAN == <<78, 65, 78>>       \* "NAN"


(* Reverse tables (byte code + 1 -> 0-based index in the alphabet, either case, or -1);
   generated from the alphabets above, checked against them by ASSUME RevOK. *)
RevGH ==
  <<-1, -1, -1, -1, -1, -1, -1, -1, -1, -1, -1, -1, -1, -1, -1, -1, -1, -1, -1, -1, -1, -1, -1, -1, -1, -1, -1, -1, -1, -1, -1, -1,
    -1, -1, -1, -1, -1, -1, -1, -1, -1, -1, -1, -1, -1, -1, -1, -1, 0, 1, 2, 3, 4, 5, 6, 7, 8, 9, -1, -1, -1, -1, -1, -1,
    -1, -1, 10, 11, 12, 13, 14, 15, 16, -1, 17, 18, -1, 19, 20, -1, 21, 22, 23, 24, 25, 26, 27, 28, 29, 30, 31, -1, -1, -1, -1, -1,
    -1, -1, 10, 11, 12, 13, 14, 15, 16, -1, 17, 18, -1, 19, 20, -1, 21, 22, 23, 24, 25, 26, 27, 28, 29, 30, 31, -1, -1, -1, -1, -1,
    -1, -1, -1, -1, -1, -1, -1, -1, -1, -1, -1, -1, -1, -1, -1, -1, -1, -1, -1, -1, -1, -1, -1, -1, -1, -1, -1, -1, -1, -1, -1, -1,
    -1, -1, -1, -1, -1, -1, -1, -1, -1, -1, -1, -1, -1, -1, -1, -1, -1, -1, -1, -1, -1, -1, -1, -1, -1, -1, -1, -1, -1, -1, -1, -1,
    -1, -1, -1, -1, -1, -1, -1, -1, -1, -1, -1, -1, -1, -1, -1, -1, -1, -1, -1, -1, -1, -1, -1, -1, -1, -1, -1, -1, -1, -1, -1, -1,
    -1, -1, -1, -1, -1, -1, -1, -1, -1, -1, -1, -1, -1, -1, -1, -1, -1, -1, -1, -1, -1, -1, -1, -1, -1, -1, -1, -1, -1, -1, -1, -1>>
RevDigits ==
  <<-1, -1, -1, -1, -1, -1, -1, -1, -1, -1, -1, -1, -1, -1, -1, -1, -1, -1, -1, -1, -1, -1, -1, -1, -1, -1, -1, -1, -1, -1, -1, -1,
    -1, -1, -1, -1, -1, -1, -1, -1, -1, -1, -1, -1, -1, -1, -1, -1, 0, 1, 2, 3, 4, 5, 6, 7, 8, 9, -1, -1, -1, -1, -1, -1,
    -1, -1, -1, -1, -1, -1, -1, -1, -1, -1, -1, -1, -1, -1, -1, -1, -1, -1, -1, -1, -1, -1, -1, -1, -1, -1, -1, -1, -1, -1, -1, -1,
    -1, -1, -1, -1, -1, -1, -1, -1, -1, -1, -1, -1, -1, -1, -1, -1, -1, -1, -1, -1, -1, -1, -1, -1, -1, -1, -1, -1, -1, -1, -1, -1,
    -1, -1, -1, -1, -1, -1, -1, -1, -1, -1, -1, -1, -1, -1, -1, -1, -1, -1, -1, -1, -1, -1, -1, -1, -1, -1, -1, -1, -1, -1, -1, -1,
    -1, -1, -1, -1, -1, -1, -1, -1, -1, -1, -1, -1, -1, -1, -1, -1, -1, -1, -1, -1, -1, -1, -1, -1, -1, -1, -1, -1, -1, -1, -1, -1,
    -1, -1, -1, -1, -1, -1, -1, -1, -1, -1, -1, -1, -1, -1, -1, -1, -1, -1, -1, -1, -1, -1, -1, -1, -1, -1, -1, -1, -1, -1, -1, -1,
    -1, -1, -1, -1, -1, -1, -1, -1, -1, -1, -1, -1, -1, -1, -1, -1, -1, -1, -1, -1, -1, -1, -1, -1, -1, -1, -1, -1, -1, -1, -1, -1>>
RevL24 ==
  <<-1, -1, -1, -1, -1, -1, -1, -1, -1, -1, -1, -1, -1, -1, -1, -1, -1, -1, -1, -1, -1, -1, -1, -1, -1, -1, -1, -1, -1, -1, -1, -1,
    -1, -1, -1, -1, -1, -1, -1, -1, -1, -1, -1, -1, -1, -1, -1, -1, -1, -1, -1, -1, -1, -1, -1, -1, -1, -1, -1, -1, -1, -1, -1, -1,
    -1, 0, 1, 2, 3, 4, 5, 6, 7, -1, 8, 9, 10, 11, 12, -1, 13, 14, 15, 16, 17, 18, 19, 20, 21, 22, 23, -1, -1, -1, -1, -1,
    -1, 0, 1, 2, 3, 4, 5, 6, 7, -1, 8, 9, 10, 11, 12, -1, 13, 14, 15, 16, 17, 18, 19, 20, 21, 22, 23, -1, -1, -1, -1, -1,
    -1, -1, -1, -1, -1, -1, -1, -1, -1, -1, -1, -1, -1, -1, -1, -1, -1, -1, -1, -1, -1, -1, -1, -1, -1, -1, -1, -1, -1, -1, -1, -1,
    -1, -1, -1, -1, -1, -1, -1, -1, -1, -1, -1, -1, -1, -1, -1, -1, -1, -1, -1, -1, -1, -1, -1, -1, -1, -1, -1, -1, -1, -1, -1, -1,
    -1, -1, -1, -1, -1, -1, -1, -1, -1, -1, -1, -1, -1, -1, -1, -1, -1, -1, -1, -1, -1, -1, -1, -1, -1, -1, -1, -1, -1, -1, -1, -1,
    -1, -1, -1, -1, -1, -1, -1, -1, -1, -1, -1, -1, -1, -1, -1, -1, -1, -1, -1, -1, -1, -1, -1, -1, -1, -1, -1, -1, -1, -1, -1, -1>>
RevL12 ==
  <<-1, -1, -1, -1, -1, -1, -1, -1, -1, -1, -1, -1, -1, -1, -1, -1, -1, -1, -1, -1, -1, -1, -1, -1, -1, -1, -1, -1, -1, -1, -1, -1,
    -1, -1, -1, -1, -1, -1, -1, -1, -1, -1, -1, -1, -1, -1, -1, -1, -1, -1, -1, -1, -1, -1, -1, -1, -1, -1, -1, -1, -1, -1, -1, -1,
    -1, 0, 1, 2, 3, 4, 5, 6, 7, -1, 8, 9, 10, 11, -1, -1, -1, -1, -1, -1, -1, -1, -1, -1, -1, -1, -1, -1, -1, -1, -1, -1,
    -1, 0, 1, 2, 3, 4, 5, 6, 7, -1, 8, 9, 10, 11, -1, -1, -1, -1, -1, -1, -1, -1, -1, -1, -1, -1, -1, -1, -1, -1, -1, -1,
    -1, -1, -1, -1, -1, -1, -1, -1, -1, -1, -1, -1, -1, -1, -1, -1, -1, -1, -1, -1, -1, -1, -1, -1, -1, -1, -1, -1, -1, -1, -1, -1,
    -1, -1, -1, -1, -1, -1, -1, -1, -1, -1, -1, -1, -1, -1, -1, -1, -1, -1, -1, -1, -1, -1, -1, -1, -1, -1, -1, -1, -1, -1, -1, -1,
    -1, -1, -1, -1, -1, -1, -1, -1, -1, -1, -1, -1, -1, -1, -1, -1, -1, -1, -1, -1, -1, -1, -1, -1, -1, -1, -1, -1, -1, -1, -1, -1,
    -1, -1, -1, -1, -1, -1, -1, -1, -1, -1, -1, -1, -1, -1, -1, -1, -1, -1, -1, -1, -1, -1, -1, -1, -1, -1, -1, -1, -1, -1, -1, -1>>
RevL15 ==
  <<-1, -1, -1, -1, -1, -1, -1, -1, -1, -1, -1, -1, -1, -1, -1, -1, -1, -1, -1, -1, -1, -1, -1, -1, -1, -1, -1, -1, -1, -1, -1, -1,
    -1, -1, -1, -1, -1, -1, -1, -1, -1, -1, -1, -1, -1, -1, -1, -1, -1, -1, -1, -1, -1, -1, -1, -1, -1, -1, -1, -1, -1, -1, -1, -1,
    -1, 0, 1, 2, 3, 4, 5, 6, 7, -1, 8, 9, 10, 11, 12, -1, 13, 14, -1, -1, -1, -1, -1, -1, -1, -1, -1, -1, -1, -1, -1, -1,
    -1, 0, 1, 2, 3, 4, 5, 6, 7, -1, 8, 9, 10, 11, 12, -1, 13, 14, -1, -1, -1, -1, -1, -1, -1, -1, -1, -1, -1, -1, -1, -1,
    -1, -1, -1, -1, -1, -1, -1, -1, -1, -1, -1, -1, -1, -1, -1, -1, -1, -1, -1, -1, -1, -1, -1, -1, -1, -1, -1, -1, -1, -1, -1, -1,
    -1, -1, -1, -1, -1, -1, -1, -1, -1, -1, -1, -1, -1, -1, -1, -1, -1, -1, -1, -1, -1, -1, -1, -1, -1, -1, -1, -1, -1, -1, -1, -1,
    -1, -1, -1, -1, -1, -1, -1, -1, -1, -1, -1, -1, -1, -1, -1, -1, -1, -1, -1, -1, -1, -1, -1, -1, -1, -1, -1, -1, -1, -1, -1, -1,
    -1, -1, -1, -1, -1, -1, -1, -1, -1, -1, -1, -1, -1, -1, -1, -1, -1, -1, -1, -1, -1, -1, -1, -1, -1, -1, -1, -1, -1, -1, -1, -1>>
RevL25 ==
  <<-1, -1, -1, -1, -1, -1, -1, -1, -1, -1, -1, -1, -1, -1, -1, -1, -1, -1, -1, -1, -1, -1, -1, -1, -1, -1, -1, -1, -1, -1, -1, -1,
    -1, -1, -1, -1, -1, -1, -1, -1, -1, -1, -1, -1, -1, -1, -1, -1, -1, -1, -1, -1, -1, -1, -1, -1, -1, -1, -1, -1, -1, -1, -1, -1,
    -1, 0, 1, 2, 3, 4, 5, 6, 7, -1, 8, 9, 10, 11, 12, 13, 14, 15, 16, 17, 18, 19, 20, 21, 22, 23, 24, -1, -1, -1, -1, -1,
    -1, 0, 1, 2, 3, 4, 5, 6, 7, -1, 8, 9, 10, 11, 12, 13, 14, 15, 16, 17, 18, 19, 20, 21, 22, 23, 24, -1, -1, -1, -1, -1,
    -1, -1, -1, -1, -1, -1, -1, -1, -1, -1, -1, -1, -1, -1, -1, -1, -1, -1, -1, -1, -1, -1, -1, -1, -1, -1, -1, -1, -1, -1, -1, -1,
    -1, -1, -1, -1, -1, -1, -1, -1, -1, -1, -1, -1, -1, -1, -1, -1, -1, -1, -1, -1, -1, -1, -1, -1, -1, -1, -1, -1, -1, -1, -1, -1,
    -1, -1, -1, -1, -1, -1, -1, -1, -1, -1, -1, -1, -1, -1, -1, -1, -1, -1, -1, -1, -1, -1, -1, -1, -1, -1, -1, -1, -1, -1, -1, -1,
    -1, -1, -1, -1, -1, -1, -1, -1, -1, -1, -1, -1, -1, -1, -1, -1, -1, -1, -1, -1, -1, -1, -1, -1, -1, -1, -1, -1, -1, -1, -1, -1>>

\* fast lookup through the reverse table rev (bytes 0..255)
Lookup(rev, c) == IF c >= 0 /\ c <= 255 THEN rev[c + 1] ELSE -1
RevOK == \A c \in 0..255 :
  /\ RevGH[c + 1] = LookupDef(GHAlpha, c) /\ RevDigits[c + 1] = LookupDef(Digits, c)
  /\ RevL24[c + 1] = LookupDef(L24, c) /\ RevL12[c + 1] = LookupDef(L12, c)
  /\ RevL15[c + 1] = LookupDef(L15, c) /\ RevL25[c + 1] = LookupDef(L25, c)
ASSUME RevOK

Clamp(x, lo, hi) == IF x < lo THEN lo ELSE IF x > hi THEN hi ELSE x
Pow10(n) == IF n <= 0 THEN 1 ELSE
            CASE n = 1 -> 10 [] n = 2 -> 100 [] n = 3 -> 1000 [] n = 4 -> 10000
              [] n = 5 -> 100000 [] n = 6 -> 1000000 [] n = 7 -> 10000000
              [] n = 8 -> 100000000 [] n = 9 -> 1000000000
Pow2(n) == 2 ^ n
Billion == 1000000000

(* ------------------------------------------------------------------------ *)
(* Eps numbers.  FloorSet gives the admissible <<cell, below>> pairs: cell   *)
(* is the index of the lattice cell containing the number, below = TRUE      *)
(* when the number sits just below the upper edge of that cell (all finer    *)
(* digits are the largest digit), FALSE when it sits on/just above the lower *)
(* edge (all finer digits are 0).                                             *)
(* ------------------------------------------------------------------------ *)
FloorSet(k, d, exact) ==
  IF ~exact THEN {<<k - 1, TRUE>>, <<k, FALSE>>}      \* edge not representable: within round-off
  ELSE IF d < 0 THEN {<<k - 1, TRUE>>} ELSE {<<k, FALSE>>}

\* latitude: outside [-90, 90] is an error; +90 belongs to the last row
LatBad(k, d, K90) == k > K90 \/ (k = K90 /\ d > 0) \/ k < -K90 \/ (k = -K90 /\ d < 0)
LatFloorSet(k, d, exact, K90) ==
  IF k = K90 THEN {<<K90 - 1, TRUE>>} ELSE FloorSet(k, d, exact)

\* digits of n (most significant first) as a sequence of length w
DigitSeq(n, w) == [i \in 1..w |-> 48 + ((n \div Pow10(w - i)) % 10)]
\* value of a digit-code sequence (caller guarantees it fits)
RECURSIVE DigitVal(_)
DigitVal(s) == IF s = <<>> THEN 0 ELSE 10 * DigitVal(SubSeq(s, 1, Len(s) - 1)) + (s[Len(s)] - 48)
AllDigits(s) == \A i \in 1..Len(s) : s[i] >= 48 /\ s[i] <= 57
HasPrefix(s, p) == Len(s) >= Len(p) /\ UpperS(SubSeq(s, 1, Len(p))) = p

(* ======================================================================== *)
(* Geohash.  Lattice unit 360/2^NB degrees, so that every cell edge of a     *)
(* geohash of length L with ceil(5L/2) <= NB is a lattice point.             *)
(* ======================================================================== *)
GHMax == 18

\* bit j (1-based, most significant first) of the 45-bit cell coordinate
GHBit(idx, nb, below, j) ==
  IF j <= nb THEN (idx \div Pow2(nb - j)) % 2 ELSE IF below THEN 1 ELSE 0

GHCode(NB, lonc, latc, len) ==
  \* lonc = <<cell index in 0..2^NB-1, below>>, latc = <<index in 0..2^(NB-1)-1, below>>
  LET B(t) == IF t % 2 = 1 THEN GHBit(lonc[1], NB, lonc[2], (t + 1) \div 2)
                           ELSE GHBit(latc[1], NB - 1, latc[2], t \div 2)
      Ch(i) == 16 * B(5*i - 4) + 8 * B(5*i - 3) + 4 * B(5*i - 2) + 2 * B(5*i - 1) + B(5*i)
  IN [i \in 1..len |-> Lower(GHAlpha[Ch(i) + 1])]

GHEnc(NB, lat, lon, len0) ==
  LET len == Clamp(len0, 0, GHMax)
      K90 == Pow2(NB - 2)
      N   == Pow2(NB)
  IN IF LatBad(lat[1], lat[2], K90) THEN {<<"throw">>}
     ELSE { <<"ok", GHCode(NB, <<(lo[1] + N \div 2) % N, lo[2]>>, <<la[1] + K90, la[2]>>, len)>> :
              lo \in FloorSet(lon[1], lon[2], TRUE),
              la \in LatFloorSet(lat[1], lat[2], TRUE, K90) }

RECURSIVE BitsAcc(_, _, _, _)
BitsAcc(f, i, hi, acc) == IF i > hi THEN acc ELSE BitsAcc(f, i + 1, hi, 2 * acc + f[i])
\* value of bits f[lo..hi], most significant first
BitsVal(f, lo, hi) == BitsAcc(f, lo, hi, 0)

\* Decoded coordinate as the 46-bit integer (coordinate - origin)/(range/2^46), split
\* into <<top 23 bits, low 23 bits>>.
GHDec(code, centerp) ==
  LET n == IF Len(code) < GHMax THEN Len(code) ELSE GHMax
      c == SubSeq(code, 1, n)
  IN IF n >= 3 /\ (HasPrefix(c, INV) \/ HasPrefix(c, NAN)) THEN <<"nan">>
     ELSE IF \E i \in 1..n : Lookup(RevGH, c[i]) < 0 THEN <<"throw">>
     ELSE
       LET v(i) == Lookup(RevGH, c[i])
           bit(t) == (v((t + 4) \div 5) \div Pow2(4 - ((t - 1) % 5))) % 2   \* t in 1..5n
           nlon == (5 * n + 1) \div 2
           nlat == (5 * n) \div 2
           lonb == [j \in 1..46 |-> IF j <= nlon THEN bit(2 * j - 1)
                                   ELSE IF j = nlon + 1 /\ centerp THEN 1 ELSE 0]
           latb == [j \in 1..46 |-> IF j <= nlat THEN bit(2 * j)
                                   ELSE IF j = nlat + 1 /\ centerp THEN 1 ELSE 0]
       IN <<"ok", n, <<BitsVal(lonb, 1, 23), BitsVal(lonb, 24, 46)>>,
                     <<BitsVal(latb, 1, 23), BitsVal(latb, 24, 46)>> >>

(* ======================================================================== *)
(* GARS.  Lattice unit 5' = 1/12 degree (exact iff k is a multiple of 3).    *)
(* ======================================================================== *)
GARSExact(k) == k % 3 = 0

GARSCode(x, y, prec) ==
  \* x in 0..4319, y in 0..2159: 5' cell indices from (-180, -90)
  LET ilon == x \div 6   ilat == y \div 6
      base == DigitSeq(ilon + 1, 3) \o <<L24[(ilat \div 24) + 1], L24[(ilat % 24) + 1]>>
      xq == (x % 6) \div 3   yq == (y % 6) \div 3
      xk == x % 3            yk == y % 3
      c6 == 48 + 2 * (1 - yq) + xq + 1
      c7 == 48 + 3 * (2 - yk) + xk + 1
  IN IF prec = 0 THEN base ELSE IF prec = 1 THEN Append(base, c6)
     ELSE Append(Append(base, c6), c7)

GARSEnc(lat, lon, prec0) ==
  LET prec == Clamp(prec0, 0, 2)
  IN IF LatBad(lat[1], lat[2], 1080) THEN {<<"throw">>}
     ELSE { <<"ok", GARSCode((lo[1] + 2160) % 4320, la[1] + 1080, prec)>> :
              lo \in FloorSet(lon[1], lon[2], GARSExact(lon[1])),
              la \in LatFloorSet(lat[1], lat[2], GARSExact(lat[1]), 1080) }

\* result in units of 1/24 degree from (-180, -90)
GARSDec(code, centerp) ==
  LET n == Len(code) IN
  IF n >= 3 /\ HasPrefix(code, INV) THEN <<"nan">>
  ELSE IF n < 5 \/ n > 7 THEN <<"throw">>
  ELSE
    LET d(i) == Lookup(RevDigits, code[i])
        l(i) == Lookup(RevL24, code[i])
    IN IF d(1) < 0 \/ d(2) < 0 \/ d(3) < 0 \/ l(4) < 0 \/ l(5) < 0 THEN <<"throw">>
       ELSE
         LET ilon1 == 100 * d(1) + 10 * d(2) + d(3)
             ilat  == 24 * l(4) + l(5)
         IN IF ilon1 < 1 \/ ilon1 > 720 \/ ilat >= 360 THEN <<"throw">>
            ELSE IF n >= 6 /\ (d(6) < 1 \/ d(6) > 4) THEN <<"throw">>
            ELSE IF n = 7 /\ (d(7) < 1 \/ d(7) > 9) THEN <<"throw">>
            ELSE
              LET k6 == IF n >= 6 THEN d(6) - 1 ELSE 0
                  k7 == IF n = 7 THEN d(7) - 1 ELSE 0
                  \* SW corner in 5' units
                  x5 == 6 * (ilon1 - 1) + (IF n >= 6 THEN 3 * (k6 % 2) ELSE 0)
                                        + (IF n = 7 THEN k7 % 3 ELSE 0)
                  y5 == 6 * ilat + (IF n >= 6 THEN 3 * (1 - k6 \div 2) ELSE 0)
                                 + (IF n = 7 THEN 2 - k7 \div 3 ELSE 0)
                  half == IF n = 5 THEN 6 ELSE IF n = 6 THEN 3 ELSE 1  \* half cell in 1/24 deg
                  c == IF centerp THEN half ELSE 0
              IN <<"ok", n - 5, 2 * x5 + c, 2 * y5 + c>>

(* ======================================================================== *)
(* Georef.  Lattice unit 1' = 1/60 degree (exact iff k is a multiple of 15). *)
(* ======================================================================== *)
GeorefExact(k) == k % 15 = 0
GeorefPrec(p0) == LET p == Clamp(p0, -1, 11) IN IF p = 1 THEN 2 ELSE p

GeorefCode(xc, yc, prec) ==
  \* xc = <<minute index 0..21599, below>>, yc = <<0..10799, below>>
  LET x == xc[1]  y == yc[1]
      ilon == x \div 60   ilat == y \div 60
      tiles == <<L24[(ilon \div 15) + 1], L12[(ilat \div 15) + 1]>>
      degs == <<L15[(ilon % 15) + 1], L15[(ilat % 15) + 1]>>
      tail(b) == [i \in 1..(prec - 2) |-> IF b THEN 57 ELSE 48]
  IN IF prec = -1 THEN tiles
     ELSE IF prec = 0 THEN tiles \o degs
     ELSE tiles \o degs \o DigitSeq(x % 60, 2) \o tail(xc[2]) \o DigitSeq(y % 60, 2) \o tail(yc[2])

GeorefEnc(lat, lon, prec0) ==
  LET prec == GeorefPrec(prec0)
  IN IF LatBad(lat[1], lat[2], 5400) THEN {<<"throw">>}
     ELSE { <<"ok", GeorefCode(<<(lo[1] + 10800) % 21600, lo[2]>>, <<la[1] + 5400, la[2]>>, prec)>> :
              lo \in FloorSet(lon[1], lon[2], GeorefExact(lon[1])),
              la \in LatFloorSet(lat[1], lat[2], GeorefExact(lat[1]), 5400) }

\* result: coordinate - origin in units of 1/(120e9) degree (half a nano-minute), as
\* limbs <<hi, lo>> base 10^9.
Norm9(hi, lo) == <<hi + lo \div Billion, lo % Billion>>
GeorefDec(code, centerp) ==
  LET n == Len(code) IN
  IF n >= 3 /\ HasPrefix(code, INV) THEN <<"nan">>
  ELSE IF n < 2 \/ n = 3 THEN <<"throw">>
  ELSE
    LET t1 == Lookup(RevL24, code[1])  t2 == Lookup(RevL12, code[2]) IN
    IF t1 < 0 \/ t2 < 0 THEN <<"throw">>
    ELSE IF n = 2 THEN
      <<"ok", -1, <<2 * 900 * t1 + (IF centerp THEN 900 ELSE 0), 0>>,
                   <<2 * 900 * t2 + (IF centerp THEN 900 ELSE 0), 0>> >>
    ELSE
      LET d1 == Lookup(RevL15, code[3])  d2 == Lookup(RevL15, code[4]) IN
      IF d1 < 0 \/ d2 < 0 THEN <<"throw">>
      ELSE IF n = 4 THEN
        <<"ok", 0, <<2 * 60 * (15 * t1 + d1) + (IF centerp THEN 60 ELSE 0), 0>>,
                    <<2 * 60 * (15 * t2 + d2) + (IF centerp THEN 60 ELSE 0), 0>> >>
      ELSE
        LET tail == SubSeq(code, 5, n)
            m == n - 4
            p == m \div 2
        IN IF ~AllDigits(tail) \/ m % 2 = 1 \/ p < 2 \/ p > 11 THEN <<"throw">>
           ELSE
             LET xs == SubSeq(tail, 1, p)       ys == SubSeq(tail, p + 1, 2 * p)
                 xm == DigitVal(SubSeq(xs, 1, 2))   ym == DigitVal(SubSeq(ys, 1, 2))
                 xf == DigitVal(SubSeq(xs, 3, p))   yf == DigitVal(SubSeq(ys, 3, p))
                 sc == Pow10(11 - p)
                 c  == IF centerp THEN sc ELSE 0      \* p = 2: sc = 10^9 -> carried by Norm9
             IN IF xm >= 60 \/ ym >= 60 THEN <<"throw">>
                ELSE <<"ok", p,
                       Norm9(2 * (60 * (15 * t1 + d1) + xm), 2 * xf * sc + c),
                       Norm9(2 * (60 * (15 * t2 + d2) + ym), 2 * yf * sc + c) >>

(* ======================================================================== *)
(* OSGB grid references.  Lattice unit 1 metre (always exact).               *)
(* ======================================================================== *)
OSGBMinX == -1000000   OSGBMaxX == 1500000
OSGBMinY == -500000    OSGBMaxY == 2000000

OSGBBad(p, lo, hi) == p[1] < lo \/ (p[1] = lo /\ p[2] < 0) \/ p[1] > hi \/ (p[1] = hi /\ p[2] >= 0)

OSGBDigits(mc, prec) ==
  \* mc = <<metres within the 100 km tile (0..99999), below>>
  LET m == mc[1]
      hi == DigitSeq(m \div Pow10(5 - (IF prec < 5 THEN prec ELSE 5)), IF prec < 5 THEN prec ELSE 5)
      lo == [i \in 1..(prec - 5) |-> IF mc[2] THEN 57 ELSE 48]
  IN hi \o lo

OSGBCode(xc, yc, prec) ==
  LET X == xc[1] + 1000000    Y == yc[1] + 500000        \* from the false origin of the letters
      xh == X \div 100000     yh == Y \div 100000
      l1 == L25[(4 - yh \div 5) * 5 + (xh \div 5) + 1]
      l2 == L25[(4 - (yh % 5)) * 5 + (xh % 5) + 1]
  IN <<l1, l2>> \o OSGBDigits(<<X % 100000, xc[2]>>, prec) \o OSGBDigits(<<Y % 100000, yc[2]>>, prec)

\* Grid references are formed from the offset within the 100 km tile, a quantity of
\* magnitude 10^5 m whose round-off (1.5e-11 m) exceeds the ulp of a small coordinate.
\* A coordinate one ulp below a cell edge is therefore within round-off of the edge and
\* may be assigned to either adjacent cell (never to any other).
OSGBFloorSet(k, d) == IF d < 0 THEN {<<k - 1, TRUE>>, <<k, FALSE>>} ELSE {<<k, FALSE>>}

OSGBEnc(x, y, prec) ==
  IF OSGBBad(x, OSGBMinX, OSGBMaxX) \/ OSGBBad(y, OSGBMinY, OSGBMaxY) \/ prec < 0 \/ prec > 11
  THEN {<<"throw">>}
  ELSE { <<"ok", OSGBCode(xc, yc, prec)>> : xc \in {c \in OSGBFloorSet(x[1], x[2]) : c[1] < OSGBMaxX},
                                           yc \in {c \in OSGBFloorSet(y[1], y[2]) : c[1] < OSGBMaxY} }

IsSpace(c) == c = 32 \/ (c >= 9 /\ c <= 13)
Strip(s) == SelectSeq(s, LAMBDA c : ~IsSpace(c))

\* result: (coordinate - minimum) in units of half a micrometre as limbs base 10^9.
\* Deviation from the header text, kept as a named rule: white space anywhere in the
\* string is ignored (OSGB_SpacesIgnored); the usual written form is "SU 387 148".
OSGBDec(code0, centerp) ==
  IF Len(code0) >= 2 /\ HasPrefix(code0, <<73, 78>>) THEN <<"nan">>
  ELSE
    LET code == Strip(code0)
        n == Len(code)
    IN IF n < 2 \/ n % 2 = 1 \/ n > 24 THEN <<"throw">>
       ELSE
         LET a == Lookup(RevL25, code[1])   b == Lookup(RevL25, code[2])
             p == (n - 2) \div 2
             xs == SubSeq(code, 3, 2 + p)     ys == SubSeq(code, 3 + p, 2 + 2 * p)
         IN IF a < 0 \/ b < 0 \/ ~AllDigits(xs) \/ ~AllDigits(ys) THEN <<"throw">>
            ELSE
              LET xh == 5 * (a % 5) + (b % 5)               \* 100 km tile index from the letter origin
                  yh == 5 * (4 - a \div 5) + (4 - b \div 5)
                  q  == IF p < 5 THEN p ELSE 5
                  xm == xh * 100000 + DigitVal(SubSeq(xs, 1, q)) * Pow10(5 - q)
                  ym == yh * 100000 + DigitVal(SubSeq(ys, 1, q)) * Pow10(5 - q)
                  xf == IF p > 5 THEN DigitVal(SubSeq(xs, 6, p)) * Pow10(11 - p) ELSE 0  \* micrometres
                  yf == IF p > 5 THEN DigitVal(SubSeq(ys, 6, p)) * Pow10(11 - p) ELSE 0
                  cm == IF centerp /\ p <= 5 THEN Pow10(5 - p) ELSE 0      \* added to 2*metres
                  cu == IF centerp /\ p > 5 THEN Pow10(11 - p) ELSE 0      \* half-micrometres
                  L(m, f) == Norm9((2 * m + cm) \div 1000, ((2 * m + cm) % 1000) * 1000000 + 2 * f + cu)
              IN <<"ok", p, L(xm, xf), L(ym, yf)>>

(* ------------------------------------------------------------------------ *)
(* Dispatch                                                                   *)
(* ------------------------------------------------------------------------ *)
Enc(s, NB, a, b, prec) ==
  CASE s = "geohash" -> GHEnc(NB, a, b, prec)
    [] s = "gars"    -> GARSEnc(a, b, prec)
    [] s = "georef"  -> GeorefEnc(a, b, prec)
    [] s = "osgb"    -> OSGBEnc(b, a, prec)       \* (a, b) = (y, x) to keep (lat, lon) order

Dec(s, code, centerp) ==
  CASE s = "geohash" -> GHDec(code, centerp)
    [] s = "gars"    -> GARSDec(code, centerp)
    [] s = "georef"  -> GeorefDec(code, centerp)
    [] s = "osgb"    -> OSGBDec(code, centerp)

\* every character of an encoder output belongs to the scheme's alphabet
InAlphabet(s, code) ==
  \A i \in 1..Len(code) :
    CASE s = "geohash" -> Lookup(RevGH, code[i]) >= 0 /\ code[i] = Lower(code[i])
      [] s = "gars"    -> Lookup(RevDigits, code[i]) >= 0 \/ Lookup(RevL24, code[i]) >= 0
      [] s = "georef"  -> Lookup(RevDigits, code[i]) >= 0 \/ Lookup(RevL24, code[i]) >= 0
      [] s = "osgb"    -> Lookup(RevDigits, code[i]) >= 0 \/ Lookup(RevL25, code[i]) >= 0

IsPrefixOf(p, s) == Len(p) <= Len(s) /\ SubSeq(s, 1, Len(p)) = p
=============================================================================
