---------------------------- MODULE MC_Polygon ----------------------------
(* State graph of the polygon object: all build histories up to Depth.      *)
EXTENDS PolygonOps, TLC, Json

CONSTANTS Depth, Size        \* Size = "small" (quick) or "full"

Verts == IF Size = "small"
         THEN {<<"N", 0>>, <<"N", 77>>, <<"N", 360>>, <<"S", -120>>, <<"E", 0>>, <<"E", 1>>, <<"E", 90>>, <<"E", 180>>, <<"E", -180>>,
               <<"E", -90>>, <<"E", 270>>, <<"E", 359>>}
         ELSE {<<"N", 0>>, <<"N", 77>>, <<"N", 360>>, <<"S", 0>>, <<"S", -120>>, <<"E", 0>>, <<"E", 1>>, <<"E", 90>>, <<"E", 179>>, <<"E", 180>>,
               <<"E", -180>>, <<"E", -90>>, <<"E", 270>>, <<"E", 359>>, <<"E", 540>>, <<"E", -1>>, <<"E", 45>>}
Edges == IF Size = "small" THEN {<<1, 90>>, <<1, 181>>, <<-1, 270>>}
         ELSE {<<1, 90>>, <<1, 181>>, <<-1, 1>>, <<-1, 270>>, <<1, 359>>, <<-1, 180>>}
\* lead = 1: the current object received one AddEdge while it was still empty (documented: "This does nothing if no points
\* have been added yet"); the call is part of the history (one operation of the depth budget) but not of the abstract state
VARIABLES pre, polyline, verts, hows, lead
EmptyEdge == <<"ed", 1, 90>>

\* a fixed prefix executed and then cleared: clearing must restore the empty state
\* (the first prefix crosses the prime meridian an odd number of times, so that a stale crossing count shows in the next polygon)
Garbage == << <<"pt", "E", -10>>, <<"pt", "E", 10>>, <<"ed", 1, 100>> >>
GarbageN == << <<"pt", "N", 0>>, <<"pt", "E", 10>>, <<"ed", 1, 100>> >>

Init == /\ pre \in (IF Size = "small" THEN {<<>>, Garbage} ELSE {<<>>, Garbage, GarbageN}) /\ polyline \in {FALSE, TRUE} /\ verts = <<>> /\ hows = <<>> /\ lead = 0

\* operations spent before a Clear chosen by the model (the fixed prefixes are free)
Fixed == {<<>>, Garbage, GarbageN}
Used == IF pre \in Fixed THEN 0 ELSE Len(pre)
Spent == Len(verts) + lead + Used

AddPoint(p) ==
  /\ Spent < Depth
  /\ ~(verts # <<>> /\ Antipodal(verts[Len(verts)], p))        \* shortest line must be unique
  /\ verts' = Append(verts, p) /\ hows' = Append(hows, <<"pt">>)
  /\ UNCHANGED <<pre, polyline, lead>>
AddEdge(e) ==
  /\ Spent < Depth /\ AddEdgeOK(verts)
  /\ LET r == AddEdgeS(verts, hows, e[1], e[2]) IN verts' = r[1] /\ hows' = r[2]
  /\ UNCHANGED <<pre, polyline, lead>>
\* AddEdge on the empty object (fresh, or directly after Clear): no effect on the abstract state
AddEdgeEmpty ==
  /\ verts = <<>> /\ lead = 0 /\ Spent < Depth
  /\ lead' = 1 /\ UNCHANGED <<pre, polyline, verts, hows>>
\* the history as an operation list
Ops == (IF lead = 1 THEN <<EmptyEdge>> ELSE <<>>) \o
       [i \in 1..Len(verts) |-> IF hows[i][1] = "pt" THEN <<"pt", verts[i][1], verts[i][2]>>
                                ELSE <<"ed", hows[i][2], hows[i][3]>>]

\* Clear at any point of a history (once): what was built becomes the prefix, the object must be empty again
Clear == /\ pre = <<>> /\ (Len(verts) + lead) \in 1..(Depth - 1)
         /\ pre' = Ops /\ verts' = <<>> /\ hows' = <<>> /\ lead' = 0 /\ UNCHANGED polyline
Next == (\E p \in Verts : AddPoint(p)) \/ (\E e \in Edges : AddEdge(e)) \/ AddEdgeEmpty \/ Clear

(* ------------------------ invariants of the model ------------------------ *)
Rot(s, k) == [i \in 1..Len(s) |-> s[((i + k - 1) % Len(s)) + 1]]
AllPts == \A i \in 1..Len(hows) : hows[i][1] = "pt"
Rev(s) == [i \in 1..Len(s) |-> s[Len(s) + 1 - i]]
Shift(vs, d) == [i \in 1..Len(vs) |-> IF vs[i][1] = "E" THEN <<"E", vs[i][2] + d>> ELSE <<vs[i][1], vs[i][2] + d>>]

\* the oracle itself obeys the laws the property states (checked where all edges are shortest lines)
OracleInv ==
  (Len(verts) >= 3 /\ AllPts /\ ~Ambiguous(verts, hows, TRUE)) =>
    LET A == AreaCCW(verts, hows)  P == Perimeter(verts, hows, TRUE) IN
    /\ A \in 0..719
    \* independent of the starting vertex
    /\ \A k \in 1..(Len(verts) - 1) : AreaCCW(Rot(verts, k), hows) = A /\ Perimeter(Rot(verts, k), hows, TRUE) = P
    \* reversal complements the area, keeps the perimeter
    \* (a degenerate polygon with a U-turn has its algebraic area determined only modulo half the sphere)
    /\ (AreaCCW(Rev(verts), hows) + A) % (IF Simple(verts, hows) THEN 720 ELSE 360) = 0 /\ Perimeter(Rev(verts), hows, TRUE) = P
    \* shifting all longitudes, or any one by a multiple of 360, changes nothing
    /\ AreaCCW(Shift(verts, 77), hows) = A /\ AreaCCW(Shift(verts, -360), hows) = A
    /\ AreaCCW([verts EXCEPT ![2] = <<@[1], @[2] + 360>>], hows) = A
    \* a simple polygon encloses a non-empty region and leaves a non-empty complement
    /\ (Simple(verts, hows) => A # 0)

\* cutting a quadrilateral along a diagonal: areas and perimeters add up
DiagInv ==
  (Len(verts) = 4 /\ AllPts /\ ~Ambiguous(verts, hows, TRUE) /\ ~Antipodal(verts[1], verts[3])
     /\ Simple(verts, hows)) =>
    LET t1 == <<verts[1], verts[2], verts[3]>>  t2 == <<verts[1], verts[3], verts[4]>>
        h3 == << <<"pt">>, <<"pt">>, <<"pt">> >>
        d == EdgeOf(verts[1], verts[3], <<"pt">>).len
    IN /\ (AreaCCW(t1, h3) + AreaCCW(t2, h3) - AreaCCW(verts, hows)) % 720 = 0
       /\ Perimeter(t1, h3, TRUE) + Perimeter(t2, h3, TRUE) = Perimeter(verts, hows, TRUE) + 2 * d

ReportInv ==
  \A f \in 1..4 : LET c == ComputeExp(verts, hows, polyline, Flags[f][1], Flags[f][2]) IN
    /\ c[1] = Len(verts)
    /\ \A a \in c[3] : IF Flags[f][2] THEN a >= -360 /\ a <= 360 ELSE a >= 0 /\ a <= 720

Emit == Spent = Depth => PrintT(ToJson(<<"hist", polyline, pre, Ops>>))
=============================================================================
