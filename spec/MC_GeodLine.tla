---------------------------- MODULE MC_GeodLine ----------------------------
(* State graph of a line object: construct (4 forms x capabilities), set the *)
(* third point, query a position (arcmode x outmask).  Every transition is   *)
(* emitted for replay.                                                        *)
EXTENDS GeodLine, TLC, Json

CONSTANTS CapsStride, MaskStride, NChunks
VARIABLES st      \* <<"root">> | <<"chunk", c>> | <<"obj", ctor, capsNum, setop>> | <<"pos", ctor, caps, setop, arcmode, outmask>>
                  \* | <<"gi", class, kind, outmask>> | <<"ri", class, exact, outmask>> | <<"ov", family, n, kind, caps>>

Ctors == {"line", "direct", "arcdirect", "inverse"}
\* the third point may be (re)defined after any constructor, also twice: only the last call counts
SetOps(ctor) == {"none", "setdist", "setarc", "setdist+setarc", "setarc+setdist", "gsetdist", "gsetarc"}
\* the full outmask sweep is made for the basic forms; the other forms are queried with a few masks (their subject is the third point)
Basic(ctor, so) == (ctor = "line" /\ so \in {"none", "setdist", "setarc"}) \/ (ctor # "line" /\ so = "none")
AllMasks == 0..511
CapsSample == {m \in AllMasks : m % CapsStride = 0 \/ m \in {0, 1, 5, 16, 24, 261, 277, 511}}
MaskSample == {m \in AllMasks : m % MaskStride = 0 \/ m \in {0, 8, 15, 127, 255, 256, 383, 511}}

\* Solver-level calls on one fixed input per END-POINT CLASS (the driver holds the coordinates of each class): the inverse
\* problem has several exits (coincident / short / meridional / equatorial / nearly antipodal / general, end points swapped or
\* not, prolate or oblate), each of which handles the mask on its own.  kind: 0 series, 1 GeodesicExact, 2 Geodesic(exact=true).
GiClasses == {"generic", "generic-swapped", "coincident", "short", "short-swapped", "merid", "merid-long", "merid-pole",
              "equatorial", "equatorial-far", "equatorial-prolate", "antipodal", "antipodal-exact", "pole-pole",
              "prolate-merid", "prolate-antipodal", "sphere"}
RiClasses == {"generic", "north", "south", "poles", "meridian", "parallel", "coincident", "antimeridian", "pole-coincident"}
RhumbMasks == {m \in AllMasks : Set(m) \subseteq RhumbBits}
\* inline overloads: every (family, arity); the line families on lines with sampled capability sets
OvKinds(fam) == IF fam \in OvRhumbFamilies THEN {0, 1} ELSE {0, 1, 2}
OvCaps(fam) == IF fam \in OvLineFamilies THEN CapsSample \cup {8, 24, 58, 455} ELSE {511}

Init == st = <<"root">>
Next ==
  \/ st = <<"root">> /\ \E c \in 0..(NChunks - 1) : st' = <<"chunk", c>>
  \/ st[1] = "chunk" /\ \E ctor \in Ctors, c \in {m \in AllMasks : m % NChunks = st[2]} :
        \E so \in SetOps(ctor) : st' = <<"obj", ctor, c, so>>
  \/ st[1] = "obj" /\ \E am \in {TRUE, FALSE}, om \in (IF ~Basic(st[2], st[4]) THEN {0, 15, 511} ELSE IF st[3] \in CapsSample THEN AllMasks ELSE MaskSample) :
        st' = <<"pos", st[2], st[3], st[4], am, om>>
  \/ st[1] = "chunk" /\ \E cls \in GiClasses, kind \in {0, 1, 2}, om \in {m \in AllMasks : m % NChunks = st[2]} :
        st' = <<"gi", cls, kind, om>>
  \/ st[1] = "chunk" /\ \E cls \in RiClasses, ex \in {0, 1}, om \in {m \in RhumbMasks : m % NChunks = st[2]} :
        st' = <<"ri", cls, ex, om>>
  \/ st[1] = "chunk" /\ \E fam \in OvFamilies : \E n \in OvArities(fam), kind \in OvKinds(fam), c \in {m \in OvCaps(fam) : m % NChunks = st[2]} :
        st' = <<"ov", fam, n, kind, c>>

(* invariants of the model *)
PosInv ==
  st[1] = "pos" =>
    LET caps == CapsOf(st[2], Set(st[3]))
        p == Position(caps, st[5], Set(st[6]))
        full == Position(caps \cup Bits, st[5], Set(st[6]))
    IN /\ p[2] \subseteq Set(st[6])                       \* nothing is written that was not requested
       /\ p[2] \subseteq caps                              \* nor anything the line cannot compute
       /\ (~p[1] => p[2] = {})                            \* NaN return writes nothing
       /\ p[2] \subseteq full[2] /\ (p[1] => full[1])      \* adding capabilities never removes an output
       /\ (st[5] => p[1])                                  \* a position by arc length can always be located
       /\ (st[2] = "direct" => p[1])                       \* DirectLine can always locate by distance
ThirdInv ==
  st[1] = "obj" =>
    LET caps == CapsOf(st[2], Set(st[3]))  t == Third(st[2], caps, st[4]) IN
    /\ (st[2] # "line" \/ st[4] # "none" => t[1] \/ t[2])
    /\ (Set(st[3]) = Bits => (st[2] = "line" /\ st[4] = "none") \/ (t[1] /\ t[2]))
NumInv == st[1] = "obj" => Num(Set(st[3])) = st[3]

SolverInv ==
  /\ st[1] = "gi" => GenInverseWritten(Set(st[4])) \subseteq Set(st[4])
  /\ st[1] = "ri" => RhumbInverseWritten(Set(st[4])) \subseteq Set(st[4]) \cap RhumbBits
\* the overload table is consistent with the signatures: the number of output arguments is the arity; an overload never has an
\* output the general routine lacks; the largest overload of a family returns everything the general routine can (except the
\* distance when the distance is the input); a line never writes more than the solver overload of the same arity and never
\* more than it is capable of
OvInv ==
  st[1] = "ov" =>
    LET fam == st[2]  n == st[3]  outs == OverloadOut(fam, n)  w == OverloadWritten(fam, n, Set(st[5])) IN
    /\ n \in OvArities(fam) /\ ArgCount(fam, outs) = n
    /\ outs \subseteq OvGeneral(fam)
    /\ (\A m \in OvArities(fam) : m <= n) => outs = OvGeneral(fam) \ (IF fam \in {"Direct", "Position"} THEN {DIST} ELSE {})
    /\ \A m \in OvArities(fam) : m # n => OverloadOut(fam, m) # outs
    /\ w[2] \subseteq outs /\ (~w[1] => w[2] = {})
    /\ (fam \in OvLineFamilies => w[2] \subseteq CapsOf("line", Set(st[5])) /\ (Set(st[5]) = Bits => w = <<TRUE, outs>>))
    /\ (fam = "Position" => OverloadOut("Direct", n) = outs) /\ (fam = "ArcPosition" => OverloadOut("ArcDirect", n) = outs)

Emit == st[1] \in {"pos", "gi", "ri", "ov"} => PrintT(ToJson(st))
=============================================================================
