---------------------------- MODULE MC_GeodLine ----------------------------
(* State graph of a line object: construct (4 forms x capabilities), set the *)
(* third point, query a position (arcmode x outmask).  Every transition is   *)
(* emitted for replay.                                                        *)
EXTENDS GeodLine, TLC, Json

CONSTANTS CapsStride, MaskStride, NChunks
VARIABLES st      \* <<"root">> | <<"chunk", c>> | <<"obj", ctor, capsNum, setop>> | <<"pos", ctor, caps, setop, arcmode, outmask>>

Ctors == {"line", "direct", "arcdirect", "inverse"}
\* the third point may be (re)defined after any constructor, also twice: only the last call counts
SetOps(ctor) == {"none", "setdist", "setarc", "setdist+setarc", "setarc+setdist", "gsetdist", "gsetarc"}
\* the full outmask sweep is made for the basic forms; the other forms are queried with a few masks (their subject is the third point)
Basic(ctor, so) == (ctor = "line" /\ so \in {"none", "setdist", "setarc"}) \/ (ctor # "line" /\ so = "none")
AllMasks == 0..511
CapsSample == {m \in AllMasks : m % CapsStride = 0 \/ m \in {0, 1, 5, 16, 24, 261, 277, 511}}
MaskSample == {m \in AllMasks : m % MaskStride = 0 \/ m \in {0, 8, 15, 127, 255, 256, 383, 511}}

Init == st = <<"root">>
Next ==
  \/ st = <<"root">> /\ \E c \in 0..(NChunks - 1) : st' = <<"chunk", c>>
  \/ st[1] = "chunk" /\ \E ctor \in Ctors, c \in {m \in AllMasks : m % NChunks = st[2]} :
        \E so \in SetOps(ctor) : st' = <<"obj", ctor, c, so>>
  \/ st[1] = "obj" /\ \E am \in {TRUE, FALSE}, om \in (IF ~Basic(st[2], st[4]) THEN {0, 15, 511} ELSE IF st[3] \in CapsSample THEN AllMasks ELSE MaskSample) :
        st' = <<"pos", st[2], st[3], st[4], am, om>>

(* invariants of the model *)
PosInv ==
  st[1] = "pos" =>
    LET caps == CapsOf(st[2], Set(st[3]))
        p == Position(caps, st[5], Set(st[6]))
        full == Position(caps \cup Bits, st[5], Set(st[6]))
    IN /\ p[2] \subseteq Set(st[6])                       \* nothing is written that was not requested
       /\ p[2] \subseteq caps                              \* nor anything the line cannot compute
       /\ (~p[1] => p[2] = {})                            \* NaN return writes nothing
       /\ p[2] \subseteq full[2] /\ (p[1] => full[1])      \* adding capabilities never removes an output
       /\ (st[5] => p[1])                                  \* a position by arc length can always be located
       /\ (st[2] = "direct" => p[1])                       \* DirectLine can always locate by distance
ThirdInv ==
  st[1] = "obj" =>
    LET caps == CapsOf(st[2], Set(st[3]))  t == Third(st[2], caps, st[4]) IN
    /\ (st[2] # "line" \/ st[4] # "none" => t[1] \/ t[2])
    /\ (Set(st[3]) = Bits => (st[2] = "line" /\ st[4] = "none") \/ (t[1] /\ t[2]))
NumInv == st[1] = "obj" => Num(Set(st[3])) = st[3]

Emit == st[1] = "pos" => PrintT(ToJson(st))
=============================================================================
