---------------------------- MODULE Trace_Rhumb ----------------------------
(* Validates observations of Rhumb / RhumbLine (C09).                              *)
(*   li, ld : replays of the lattice vectors of MC_Rhumb, judged by RhumbLattice   *)
(*   ell    : one record per ellipsoid configuration                              *)
(*   inv    : seeded random inverse problems                                       *)
(*   dir    : seeded random direct problems (Rhumb::Direct, RhumbLine::Position,   *)
(*            GenPosition/GenDirect with LONG_UNROLL)                              *)
(* For inv/dir the driver reduces each law of the property to an integer residual  *)
(* (units below); tolerances, applicability guards and decisions are here.         *)
(*   len  : length / L in 1e-18 (L = max(a, b)); 10 nm at WGS84 = 1568             *)
(*   area : area / L^2 in 1e-19;  udeg: 1e-6 degree;  ppm: 1e-6                    *)
(* One law name per rejected line: the FIRST failing law in the order listed.      *)
EXTENDS RhumbLattice, TraceKit

CONSTANTS TolLen,      \* len: absolute part of the full-accuracy bound on a position / distance
          RelTol,      \* len per unit of L: relative part of the bound (ulps of the length of the course)
          SeriesEdge,  \* factor for the series variant with 1/150 < |f| <= 0.01
          TolArea,     \* area: bound on S12 per 180 degrees of longitude
          TolPico,     \* pico: bound on unit-scale lattice values
          QeMax,       \* 1e-20: largest admissible error estimate of the driver's quadrature
          CrMax        \* ppm: largest c^2/(R2 L) (about 1/cos(lat2)) for laws that amplify a position error by it
VARIABLE l

Ceil(a, b) == (a \div b) + (IF a % b = 0 THEN 0 ELSE 1)
ScaleL(lq) == Max(1, Ceil(lq, 180000000))
\* round-off level = the documented absolute figure + a few ulps of the length x of the course (x in ppm of L)
Rel(x) == ((Min(x, 50000000) \div 1000) * RelTol) \div 1000
\* length of lq micro-degrees of longitude on the equator, ppm of L
Turns(lq) == (lq \div 100000) * 1745
\* kap = max(a/b, b/a): one ulp of latitude is kap times longer on the flat side of an eccentric ellipsoid
TolL(r, x) == (TolLen + Rel(x)) * r.kap * (IF r.se = 1 THEN SeriesEdge ELSE 1)
TolA(r) == TolArea * r.kap * (IF r.se = 1 THEN SeriesEdge ELSE 1)
\* sum of the bounds of the series and the exact variant (record of the exact variant; xse = edge flag of the series one)
TolLX(r, x) == (TolLen + Rel(x)) * r.kap * (1 + (IF r.xse = 1 THEN SeriesEdge ELSE 1))
TolAX(r) == TolArea * r.kap * (1 + (IF r.xse = 1 THEN SeriesEdge ELSE 1))
Within(x, tol) == x >= 0 /\ x <= tol
Meridional(aq) == aq <= 45000000 \/ aq >= 135000000        \* |tan(azi)| <= 1

FirstFail(S) ==
  IF \A i \in 1..Len(S) : S[i][2] THEN ""
  ELSE S[CHOOSE i \in 1..Len(S) : ~S[i][2] /\ \A j \in 1..(i - 1) : S[j][2]][1]

(* ----------------------------------------------------------- lattice: li *)
\* observed azimuth (azx: exact 0/90/180 tag or -1, azs: sign, az: pico limbs of |azi|) against a class
AziObs(c, azx, azs, az, ca) ==
  CASE c = "any" -> TRUE
    [] c = "N" -> ca = 0 /\ azx = 0
    [] c = "S" -> ca = 0 /\ azx = 180
    [] c = "E" -> ca = 0 /\ azx = 90 /\ azs = 1
    [] c = "W" -> ca = 0 /\ azx = 90 /\ azs = -1
    [] c = "NE" -> ca = 0 /\ azx = -1 /\ azs = 1 /\ az[1] < 90000
    [] c = "NW" -> ca = 0 /\ azx = -1 /\ azs = -1 /\ az[1] < 90000
    \* (an azimuth within half an ulp of +-180 is returned as +-180: the sign still tells east from west)
    [] c = "SE" -> ca = 0 /\ azs = 1 /\ ((azx = -1 /\ az[1] >= 90000 /\ az[1] <= 180000) \/ azx = 180)
    [] c = "SW" -> ca = 0 /\ azs = -1 /\ ((azx = -1 /\ az[1] >= 90000 /\ az[1] <= 180000) \/ azx = 180)
NumOK(obs, exp) == exp = <<>> \/ NearP(obs, exp, TolPico)

LiLaws(r) ==
  LET tie == IsTie(r.k1, r.k2, r.d)
      lDoc == Lon12(r.k1, r.k2, r.d)
      lAlt == Lon12SignOfDiff(r.k1, r.k2, r.d)
      cDoc == AziClass(r.lat1, r.lat2, lDoc)
      cAlt == AziClass(r.lat1, r.lat2, lAlt)
      okDoc == AziObs(cDoc, r.azx, r.azs, r.az, r.ca)
      okAlt == AziObs(cAlt, r.azx, r.azs, r.az, r.ca)
      \* on a tie the numeric laws are evaluated for whichever of the two equally short courses was returned;
      \* the choice itself is the law tie-east
      lU == IF tie /\ ~okDoc /\ okAlt THEN lAlt ELSE lDoc
      \* the exchanged problem; on a tie either sense is accepted here (it is judged on its own vector)
      lR == Lon12(r.k2, r.k1, -r.d)
      lRa == ENeg(lR)
      cR == AziClass(r.lat2, r.lat1, lR)
      cRa == AziClass(r.lat2, r.lat1, lRa)
      okR == AziObs(cR, r.wazx, r.wazs, r.waz, 0)
      okRa == tie /\ AziObs(cRa, r.wazx, r.wazs, r.waz, 0)
      lRU == IF okRa /\ ~okR THEN lRa ELSE lR
      area == AnyArea(r.lat1, r.lat2, lU)
      \* a tie whose azimuth class does not depend on the sense (a pole at either end) shows the sense taken only in the area
      areaDoc == AnyArea(r.lat1, r.lat2, lDoc)
      areaAlt == AnyArea(r.lat1, r.lat2, lAlt)
      areaR == AnyArea(r.lat2, r.lat1, lRU)
      areaRa == AnyArea(r.lat2, r.lat1, lRa)
  IN <<
    <<"li-finite", r.cs = 0 /\ (~(IsPole(r.lat1) /\ IsPole(r.lat2)) => r.cS = 0)>>,
    <<"li-azi", okDoc \/ (tie /\ okAlt)>>,
    <<"li-s12", /\ (r.mul => NumOK(r.s12, MerS12(r.lat1, r.lat2, lU)))
                /\ (r.sph => NumOK(r.s12, ParS12(r.lat1, r.lat2, lU)))>>,
    <<"li-area", \/ NumOK(r.S, area) /\ (r.sph => NumOK(r.S, SphArea(r.lat1, r.lat2, lU)))
                 \/ tie /\ cDoc = cAlt /\ NumOK(r.S, areaAlt)>>,
    <<"li-swap", /\ (okR \/ okRa)
                 /\ (r.mul => NumOK(r.ws12, MerS12(r.lat2, r.lat1, lRU)))
                 /\ (r.sph => NumOK(r.ws12, ParS12(r.lat2, r.lat1, lRU)))
                 /\ (areaR # <<>> => r.wcS = 0) /\ (NumOK(r.wS, areaR) \/ (tie /\ NumOK(r.wS, areaRa)))
                 /\ (r.sph => NumOK(r.wS, SphArea(r.lat2, r.lat1, lRU)))>>,
    <<"tie-east", (r.tie = "none") = ~tie /\ (tie => okDoc /\ NumOK(r.S, areaDoc))>>
  >>

(* ----------------------------------------------------------- lattice: ld *)
LdLaws(r) ==
  LET m == Mu2(r.lat1, r.azi, r.s)
      lat2 == Reflect(m)
      cls == DirClass(r.lat1, r.azi, r.s)
      mer == MerLon12(r.azi)
      sph == IF r.sph THEN SphLon12(r.lat1, r.azi, r.s) ELSE <<>>
      dl == IF mer # <<>> THEN mer ELSE sph
      allNaN == r.cn = 1 /\ r.cu = 1 /\ r.cS = 1
      allFin == r.cn = 0 /\ r.cu = 0 /\ r.cS = 0
      noneFin == r.cn # 0 /\ r.cu # 0 /\ r.cS # 0
      lonOK == dl # <<>> =>
                 /\ NearP(r.lon2u, PInt(r.k1 + dl[1]), TolPico)
                 /\ \E x \in NormSet(r.k1 + dl[1]) : NearP(r.lon2, PInt(x), TolPico)
      areaOK == (mer # <<>> \/ (r.lat1 = 0 /\ C2(r.azi) = 0)) => NearP(r.S, <<0, 0>>, TolPico)
  IN <<
    <<"ld-line-eq", r.pe /\ r.ue>>,
    <<"ld-lat", r.cl = 0 /\ r.rng /\ ((r.sph \/ lat2 \in {0, 90, -90}) => NearP(r.lat2, PInt(lat2), TolPico))>>,
    <<"ld-pole-nan", cls = "cross" => allNaN>>,
    <<"ld-finite", cls = "reg" => allFin>>,
    <<"ld-edge", cls \in {"edge", "polestart"} => (noneFin \/ (allFin /\ lonOK /\ areaOK))>>,
    <<"ld-sense", cls = "reg" => /\ (C2(r.azi) # 0 /\ r.s # 0 => r.dls = Sgn(r.s * C2(r.azi)))
                                 /\ (SinSgn(r.azi) # 0 => r.dus = Sgn(r.s) * SinSgn(r.azi))>>,
    <<"ld-lon", cls = "reg" => lonOK>>,
    <<"ld-area", cls = "reg" => areaOK>>
  >>

(* ------------------------------------------------------------------ ell *)
EllLaws(r) ==
  LET ta == 4 * TolArea * r.kap IN <<
    <<"ell-area", -r.dA <= ta /\ r.dA <= ta>>,
    <<"ell-xclass", -r.dAE <= 2 * ta /\ r.dAE <= 2 * ta /\ -r.dAG <= 2 * ta /\ r.dAG <= 2 * ta>>,
    <<"ell-oracle", -r.dQ <= TolLen * r.kap /\ r.dQ <= TolLen * r.kap>>,
    <<"ell-insp", r.insp>>
  >>

(* ------------------------------------------------------------------ inv *)
InvLaws(r) ==
  LET tl == TolL(r, r.sq)
      tx == TolLX(r, r.sq)
      ta == TolA(r) * ScaleL(r.lq)
      qok == r.qe <= QeMax                       \* guard: the reference quadrature converged
      gen == r.rk \in {0, 1}                     \* neither end at a pole, not coincident
      mE == IF r.rk = 0 /\ Meridional(r.aq) THEN r.mE1 ELSE r.mE2
  IN <<
    <<"inv-finite", r.cs = 0 /\ (r.rk # 4 => r.ca = 0) /\ (r.rk \notin {3, 4} => r.cS = 0)>>,
    <<"inv-s12", qok => Within(r.ds, tl)>>,
    <<"inv-merid", (qok /\ r.rk # 4) => Within(r.mN, tl)>>,
    <<"inv-lon", (qok /\ gen) => Within(mE, tl)>>,
    <<"inv-cardinal", /\ (r.rk \in {2, 3} => r.azx = (IF r.dlat > 0 THEN 0 ELSE 180))
                      /\ (r.rk = 1 => r.azx = 90)>>,
    <<"inv-shortest", /\ (r.rk # 4 => r.aq <= 180000000)
                      /\ (gen /\ r.sl # 0 => r.azs = r.sl)
                      \* (the azimuth of a course shorter than 1e-6 L is not determined at the tolerance of a position)
                      /\ (r.rk = 0 /\ r.sq >= 1 => (IF r.dlat > 0 THEN r.aq <= 90000000 ELSE r.aq >= 90000000))>>,
    <<"inv-area", (qok /\ r.rk \notin {3, 4}) => Within(r.dS, ta)>>,
    <<"inv-xclass", /\ (r.rk # 4 => Within(r.eM, 2 * tl))
                    /\ (r.rk = 0 /\ Meridional(r.aq) /\ r.eP >= 0 => r.eP <= 2 * tl)
                    /\ (r.rk = 1 => Within(r.eC, 2 * tl))>>,
    <<"inv-swap", /\ r.wcs = 0
                  /\ (r.rk # 4 => r.wca = 0 /\ Within(r.rs, 2 * tl) /\ Within(r.rN, 2 * tl))
                  /\ (r.rk \notin {3, 4} /\ r.tie = "none" => r.wcS = 0 /\ Within(r.rS, 2 * ta))
                  /\ (gen /\ r.tie = "none" /\ r.sl # 0 => r.was = -r.azs)>>,
    <<"inv-ser-exact", r.xp => /\ r.xc
                               /\ (r.rk # 4 => Within(r.xs, tx) /\ Within(r.xN, tx) /\ Within(r.xE, tx))
                               /\ (r.rk \notin {3, 4} => Within(r.xS, TolAX(r) * ScaleL(r.lq)))>>,
    <<"tie-east", (r.tie # "none" /\ gen) => r.azs = 1>>
  >>

(* ------------------------------------------------------------------ dir *)
DirLaws(r) ==
  LET tl == TolL(r, r.sq)
      wide == r.lq >= 0 /\ r.lq < 2000000000          \* guard: number of turns known (not clipped)
      \* east-west position: the course may wind round the pole many times; its round-off follows the longitude swept
      xw == IF wide THEN Max(r.sq, Turns(r.lq)) ELSE r.sq
      tlw == TolL(r, xw)
      crok == r.cr >= 0 /\ r.cr <= CrMax            \* guard: end point not in the polar cap where lon/area amplify errors
      crr == (r.cr \div 1000000) + 1
      \* area tolerance: own bound plus the area swept by the admissible east-west position error at point 2
      ta == TolA(r) * ScaleL(r.lq) + crr * tlw * 10
      cross == r.pm > tl
      inside == r.pm < -tl
      reg == inside /\ ~r.pst
      qok == r.qe <= QeMax
      mE == IF r.rk = 0 /\ Meridional(r.aq) THEN r.mE1 ELSE r.mE2
      short == wide /\ r.lq < 179000000 /\ ~r.s0
  IN <<
    <<"dir-line-eq", r.pe /\ r.ue>>,
    <<"dir-lat", r.cl = 0 /\ r.rng /\ Within(r.dlp, tl)>>,
    <<"dir-pole-nan", cross => (r.cn = 1 /\ r.cu = 1 /\ r.cS = 1)>>,
    <<"dir-finite", reg => (r.cn = 0 /\ r.cu = 0 /\ r.cS = 0)>>,
    <<"dir-unroll", reg => Within(r.du, 4000)>>,
    <<"dir-lon", (reg /\ qok /\ wide /\ r.rk \in {0, 1}) => Within(mE, tlw)>>,
    <<"dir-area", (reg /\ qok /\ wide /\ crok /\ r.rk \in {0, 1, 5}) => Within(r.dS, ta)>>,
    <<"dir-inverse", (reg /\ crok /\ r.rk \in {0, 1}) =>
                        /\ r.ics = 0
                        /\ r.is <= 2 * tl * (1 + crr)                                   \* never longer than the given course
                        /\ (short => /\ -r.is <= 2 * tl * (1 + crr) /\ Within(r.iN, 2 * tl * (1 + crr))
                                     /\ (wide => r.iS >= 0 /\ Ceil(r.iS, 2) <= ta))>>,
    <<"dir-additive", (reg /\ crok /\ wide) => /\ (r.ap >= 0 => r.ap <= 3 * tlw * (1 + crr))
                                               /\ (r.ad >= 0 => Ceil(r.ad, 3) <= ta)>>,
    <<"dir-ser-exact", (r.xp /\ ~r.pst) =>
                          /\ ((cross \/ inside) => r.xc)
                          /\ Within(r.xl2, TolLX(r, r.sq))
                          /\ (reg /\ wide => Within(r.xd, TolLX(r, xw)))
                          /\ (reg /\ wide /\ crok => Within(r.xS, TolAX(r) * ScaleL(r.lq) + crr * TolLX(r, xw) * 10))>>
  >>

Laws(r) ==
  CASE r.e = "li" -> LiLaws(r) [] r.e = "ld" -> LdLaws(r) [] r.e = "ell" -> EllLaws(r)
    [] r.e = "inv" -> InvLaws(r) [] r.e = "dir" -> DirLaws(r)
    [] OTHER -> << <<"unknown-record", FALSE>> >>

Expected(r) ==
  CASE r.e = "li" -> <<AziClass(r.lat1, r.lat2, Lon12(r.k1, r.k2, r.d)), Lon12(r.k1, r.k2, r.d)>>
    [] r.e = "ld" -> <<DirClass(r.lat1, r.azi, r.s), Reflect(Mu2(r.lat1, r.azi, r.s))>>
    [] OTHER -> <<>>

Init == l = 1 /\ KitInit
Next == /\ l <= NT
        /\ LET ff == FirstFail(Laws(T[l])) IN
           Require(ff = "", l, "rh-" \o ff, Expected(T[l]))
        /\ Consumed(l)
        /\ l' = l + 1
=============================================================================
