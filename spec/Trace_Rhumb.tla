---------------------------- MODULE Trace_Rhumb ----------------------------
(* Validates observations of Rhumb / RhumbLine (C09).                              *)
(*   li, ld : replays of the lattice vectors of MC_Rhumb, judged by RhumbLattice   *)
(*   lm, im : replays of the call-form x output-mask vectors of MC_Rhumb           *)
(*   ell    : one record per ellipsoid configuration                              *)
(*   inv    : seeded random inverse problems                                       *)
(*   dir    : seeded random direct problems (Rhumb::Direct, RhumbLine::Position,   *)
(*            GenPosition/GenDirect with LONG_UNROLL)                              *)
(* For inv/dir the driver reduces each law of the property to an integer residual  *)
(* (units below); tolerances, applicability guards and decisions are here.         *)
(*   len  : length / L in 1e-18 (L = max(a, b)); 10 nm at WGS84 = 1568             *)
(*   area : area / L^2 in 1e-19;  udeg: 1e-6 degree;  ppm: 1e-6                    *)
(* One law name per rejected line: the FIRST failing law in the order listed.      *)
EXTENDS RhumbLattice, TraceKit

CONSTANTS TolLen,      \* len: absolute part of the full-accuracy bound on a position / distance
          RelTol,      \* len per unit of L: relative part of the bound (ulps of the length of the course)
          SeriesEdge,  \* factor for the series variant with 1/150 < |f| <= 0.01
          TolArea,     \* area: bound on S12 per 180 degrees of longitude
          TolPico,     \* pico: bound on unit-scale lattice values
          QeMax,       \* 1e-20: largest admissible error estimate of the driver's quadrature
          CrMax        \* ppm: largest c^2/(R2 L) (about 1/cos(lat2)) for laws that amplify a position error by it
VARIABLE l

Ceil(a, b) == (a \div b) + (IF a % b = 0 THEN 0 ELSE 1)
ScaleL(lq) == Max(1, Ceil(lq, 180000000))
\* round-off level = the documented absolute figure + a few ulps of the length x of the course (x in ppm of L)
Rel(x) == ((Min(x, 50000000) \div 1000) * RelTol) \div 1000
\* length of lq micro-degrees of longitude on the equator, ppm of L
Turns(lq) == (lq \div 100000) * 1745
\* kap = max(a/b, b/a): one ulp of latitude is kap times longer on the flat side of an eccentric ellipsoid
TolL(r, x) == (TolLen + Rel(x)) * r.kap * (IF r.se = 1 THEN SeriesEdge ELSE 1)
\* areas are judged on the scale of the ellipsoid's own area: TolArea is a fraction of c^2 (authalic radius squared) per
\* 180 degrees of longitude; c2q = c^2 / L^2 in ppm turns it into the unit of the residuals (1e-19 L^2), rounded up
AreaScale(r, x) == ((x \div 1000) * ((r.c2q \div 1000) + 1)) + 1
TolA(r) == AreaScale(r, TolArea * r.kap * (IF r.se = 1 THEN SeriesEdge ELSE 1))
\* sum of the bounds of the series and the exact variant (record of the exact variant; xse = edge flag of the series one)
TolLX(r, x) == (TolLen + Rel(x)) * r.kap * (1 + (IF r.xse = 1 THEN SeriesEdge ELSE 1))
TolAX(r) == AreaScale(r, TolArea * r.kap * (1 + (IF r.xse = 1 THEN SeriesEdge ELSE 1)))
Within(x, tol) == x >= 0 /\ x <= tol
Meridional(aq) == aq <= 45000000 \/ aq >= 135000000        \* |tan(azi)| <= 1

FirstFail(S) ==
  IF \A i \in 1..Len(S) : S[i][2] THEN ""
  ELSE S[CHOOSE i \in 1..Len(S) : ~S[i][2] /\ \A j \in 1..(i - 1) : S[j][2]][1]

(* ----------------------------------------------------------- lattice: li *)
\* observed azimuth (azx: exact 0/90/180 tag or -1, azs: sign, az: pico limbs of |azi|) against a class
AziObs(c, azx, azs, az, ca) ==
  CASE c = "any" -> TRUE
    [] c = "N" -> ca = 0 /\ azx = 0
    [] c = "S" -> ca = 0 /\ azx = 180
    [] c = "E" -> ca = 0 /\ azx = 90 /\ azs = 1
    [] c = "W" -> ca = 0 /\ azx = 90 /\ azs = -1
    [] c = "NE" -> ca = 0 /\ azx = -1 /\ azs = 1 /\ az[1] < 90000
    [] c = "NW" -> ca = 0 /\ azx = -1 /\ azs = -1 /\ az[1] < 90000
    \* (an azimuth within half an ulp of +-180 is returned as +-180: the sign still tells east from west)
    [] c = "SE" -> ca = 0 /\ azs = 1 /\ ((azx = -1 /\ az[1] >= 90000 /\ az[1] <= 180000) \/ azx = 180)
    [] c = "SW" -> ca = 0 /\ azs = -1 /\ ((azx = -1 /\ az[1] >= 90000 /\ az[1] <= 180000) \/ azx = 180)
NumOK(obs, exp) == exp = <<>> \/ NearP(obs, exp, TolPico)
\* a latitude on the lattice: the tolerance is one of position; on the sharp end of an eccentric ellipsoid (the pole of a
\* prolate, the equator of an oblate one) a degree of latitude is up to kap^2 times shorter than the unit of length
LatTol(r) == TolPico * r.kap * r.kap

LiLaws(r) ==
  LET tie == IsTie(r.k1, r.k2, r.d)
      lDoc == Lon12(r.k1, r.k2, r.d)
      lAlt == Lon12SignOfDiff(r.k1, r.k2, r.d)
      cDoc == AziClass(r.lat1, r.lat2, lDoc)
      cAlt == AziClass(r.lat1, r.lat2, lAlt)
      okDoc == AziObs(cDoc, r.azx, r.azs, r.az, r.ca)
      okAlt == AziObs(cAlt, r.azx, r.azs, r.az, r.ca)
      \* on a tie the numeric laws are evaluated for whichever of the two equally short courses was returned;
      \* the choice itself is the law tie-east
      lU == IF tie /\ ~okDoc /\ okAlt THEN lAlt ELSE lDoc
      \* the exchanged problem; on a tie either sense is accepted here (it is judged on its own vector)
      lR == Lon12(r.k2, r.k1, -r.d)
      lRa == ENeg(lR)
      cR == AziClass(r.lat2, r.lat1, lR)
      cRa == AziClass(r.lat2, r.lat1, lRa)
      okR == AziObs(cR, r.wazx, r.wazs, r.waz, 0)
      okRa == tie /\ AziObs(cRa, r.wazx, r.wazs, r.waz, 0)
      lRU == IF okRa /\ ~okR THEN lRa ELSE lR
      area == AnyArea(r.lat1, r.lat2, lU)
      \* a tie whose azimuth class does not depend on the sense (a pole at either end) shows the sense taken only in the area
      areaDoc == AnyArea(r.lat1, r.lat2, lDoc)
      areaAlt == AnyArea(r.lat1, r.lat2, lAlt)
      areaR == AnyArea(r.lat2, r.lat1, lRU)
      areaRa == AnyArea(r.lat2, r.lat1, lRa)
  IN <<
    <<"li-finite", r.cs = 0 /\ (~(IsPole(r.lat1) /\ IsPole(r.lat2)) => r.cS = 0)>>,
    <<"li-azi", okDoc \/ (tie /\ okAlt)>>,
    <<"li-s12", /\ (r.mul => NumOK(r.s12, MerS12(r.lat1, r.lat2, lU)))
                /\ (r.sph => NumOK(r.s12, ParS12(r.lat1, r.lat2, lU)))>>,
    <<"li-area", \/ NumOK(r.S, area) /\ (r.sph => NumOK(r.S, SphArea(r.lat1, r.lat2, lU)))
                 \/ tie /\ cDoc = cAlt /\ NumOK(r.S, areaAlt)>>,
    <<"li-swap", /\ (okR \/ okRa)
                 /\ (r.mul => NumOK(r.ws12, MerS12(r.lat2, r.lat1, lRU)))
                 /\ (r.sph => NumOK(r.ws12, ParS12(r.lat2, r.lat1, lRU)))
                 /\ (areaR # <<>> => r.wcS = 0) /\ (NumOK(r.wS, areaR) \/ (tie /\ NumOK(r.wS, areaRa)))
                 /\ (r.sph => NumOK(r.wS, SphArea(r.lat2, r.lat1, lRU)))>>,
    <<"tie-east", (r.tie = "none") = ~tie /\ (tie => okDoc /\ NumOK(r.S, areaDoc))>>
  >>

(* ----------------------------------------------------------- lattice: ld *)
LdLaws(r) ==
  LET m == Mu2(r.lat1, r.azi, r.s)
      lat2 == Reflect(m)
      cls == DirClass(r.lat1, r.azi, r.s)
      mer == MerLon12(r.azi)
      sph == IF r.sph THEN SphLon12(r.lat1, r.azi, r.s) ELSE <<>>
      dl == IF mer # <<>> THEN mer ELSE sph
      allNaN == r.cn = 1 /\ r.cu = 1 /\ r.cS = 1
      allFin == r.cn = 0 /\ r.cu = 0 /\ r.cS = 0
      noneFin == r.cn # 0 /\ r.cu # 0 /\ r.cS # 0
      lonOK == dl # <<>> =>
                 /\ NearP(r.lon2u, PInt(r.k1 + dl[1]), TolPico)
                 /\ \E x \in NormSet(r.k1 + dl[1]) : NearP(r.lon2, PInt(x), TolPico)
      areaOK == (mer # <<>> \/ (r.lat1 = 0 /\ C2(r.azi) = 0)) => NearP(r.S, <<0, 0>>, TolPico)
  IN <<
    <<"ld-line-eq", r.pe /\ r.ue>>,
    <<"ld-lat", r.cl = 0 /\ r.rng /\ ((r.sph \/ lat2 \in {0, 90, -90}) => NearP(r.lat2, PInt(lat2), LatTol(r)))>>,
    <<"ld-pole-nan", cls = "cross" => allNaN>>,
    <<"ld-finite", cls = "reg" => allFin>>,
    <<"ld-edge", cls \in {"edge", "polestart"} => (noneFin \/ (allFin /\ lonOK /\ areaOK))>>,
    <<"ld-sense", cls = "reg" => /\ (C2(r.azi) # 0 /\ r.s # 0 => r.dls = Sgn(r.s * C2(r.azi)))
                                 /\ (SinSgn(r.azi) # 0 => r.dus = Sgn(r.s) * SinSgn(r.azi))>>,
    <<"ld-lon", cls = "reg" => lonOK>>,
    <<"ld-area", cls = "reg" => areaOK>>
  >>

(* ------------------------------------------------- lattice: lm, im (call forms) *)
\* c: class of each output argument after the call (0 finite, 1 NaN, 2/3 +-inf, -1 no such argument); judged where written
LmLaws(r) ==
  LET W == Written(r.form, r.m)
      cls == DirClass(r.lat1, r.azi, r.s)
      lat2 == Reflect(Mu2(r.lat1, r.azi, r.s))
  IN <<
    <<"lm-form", r.form \in DirectForms /\ r.m \in 0..63>>,
    \* the general routine with and without LONG_UNROLL differs in lon2 only; its full-mask answer has the class of the model
    <<"lm-ref", /\ r.rue /\ r.rc[1] = 0
                /\ (cls = "cross" => r.rc[2] = 1 /\ r.rc[3] = 1 /\ r.rc[4] = 1)
                /\ (cls = "reg" => r.rc[2] = 0 /\ r.rc[3] = 0 /\ r.rc[4] = 0)>>,
    <<"lm-set", FormSet(r.form, r.m, r.o)>>,
    <<"lm-val", FormVal(r.form, r.m, r.o)>>,
    <<"lm-range", FormRange(r.form, r.m, r.o)>>,
    <<"lm-lat", BLAT \in W => r.c[1] = 0 /\ ((r.sph \/ lat2 \in {0, 90, -90}) => NearP(r.lat2, PInt(lat2), LatTol(r)))>>,
    <<"lm-pole-nan", cls = "cross" => (BLON \in W => r.c[2] = 1) /\ (BAREA \in W => r.c[3] = 1)>>,
    <<"lm-finite", cls = "reg" => (BLON \in W => r.c[2] = 0) /\ (BAREA \in W => r.c[3] = 0)>>
  >>

ImLaws(r) ==
  LET W == Written(r.form, r.m)
      poles == IsPole(r.lat1) /\ IsPole(r.lat2)
  IN <<
    <<"im-form", r.form \in InverseForms /\ r.m \in 0..63>>,
    <<"im-ref", r.rc[1] = 0 /\ (~(poles /\ r.lat1 = r.lat2) => r.rc[2] = 0) /\ (~poles => r.rc[3] = 0)>>,
    <<"im-set", FormSet(r.form, r.m, r.o)>>,
    <<"im-val", FormVal(r.form, r.m, r.o)>>,
    <<"im-finite", /\ (BDIST \in W => r.c[1] = 0)
                   /\ (BAZI \in W /\ ~(poles /\ r.lat1 = r.lat2) => r.c[2] = 0)
                   /\ (BAREA \in W /\ ~poles => r.c[3] = 0)>>
  >>

(* Call forms on a seeded random record: the general routine(s) with the mask mm, every overload.   *)
(* Constructor family: the default argument exact = false and the singleton WGS84() build the same   *)
(* solver as the three-argument constructor (dfl, wg: 1 same results bit for bit, 0 not, -1 n/a).    *)
OverloadMask(form) == MaskNum(Args(form))
DirFormsSet(r) == /\ FormSet("GenDirect", r.mm, r.gd) /\ FormSet("GenPosition", r.mm, r.gp)
                  /\ FormSet("Direct3", OverloadMask("Direct3"), r.d3) /\ FormSet("Direct2", OverloadMask("Direct2"), r.d2)
                  /\ FormSet("Position3", OverloadMask("Position3"), r.p3) /\ FormSet("Position2", OverloadMask("Position2"), r.p2)
DirFormsVal(r) == /\ FormVal("GenDirect", r.mm, r.gd) /\ FormVal("GenPosition", r.mm, r.gp)
                  /\ FormVal("Direct3", OverloadMask("Direct3"), r.d3) /\ FormVal("Direct2", OverloadMask("Direct2"), r.d2)
                  /\ FormVal("Position3", OverloadMask("Position3"), r.p3) /\ FormVal("Position2", OverloadMask("Position2"), r.p2)
DirFormsRange(r) == /\ FormRange("GenDirect", r.mm, r.gd) /\ FormRange("GenPosition", r.mm, r.gp)
                    /\ FormRange("Direct3", OverloadMask("Direct3"), r.d3) /\ FormRange("Direct2", OverloadMask("Direct2"), r.d2)
                    /\ FormRange("Position3", OverloadMask("Position3"), r.p3) /\ FormRange("Position2", OverloadMask("Position2"), r.p2)
InvFormsSet(r) == /\ FormSet("GenInverse", r.mm, r.gi)
                  /\ FormSet("Inverse3", OverloadMask("Inverse3"), r.i3) /\ FormSet("Inverse2", OverloadMask("Inverse2"), r.i2)
InvFormsVal(r) == /\ FormVal("GenInverse", r.mm, r.gi)
                  /\ FormVal("Inverse3", OverloadMask("Inverse3"), r.i3) /\ FormVal("Inverse2", OverloadMask("Inverse2"), r.i2)
CtorFamily(r) == (r.ex = 0 => r.dfl = 1) /\ (r.ex = 1 => r.dfl = -1) /\ r.wg # 0 /\ (r.ci = 2 => r.wg = 1)

(* ------------------------------------------------------------------ ell *)
EllLaws(r) ==
  LET ta == AreaScale(r, 4 * TolArea * r.kap) IN <<
    <<"ell-area", -r.dA <= ta /\ r.dA <= ta>>,
    <<"ell-xclass", -r.dAE <= 2 * ta /\ r.dAE <= 2 * ta /\ -r.dAG <= 2 * ta /\ r.dAG <= 2 * ta>>,
    <<"ell-oracle", -r.dQ <= TolLen * r.kap /\ r.dQ <= TolLen * r.kap>>,
    <<"ell-insp", r.insp>>,
    <<"ell-ctor", CtorFamily(r)>>
  >>

(* ------------------------------------------------------------------ inv *)
InvLaws(r) ==
  LET tl == TolL(r, r.sq)
      tx == TolLX(r, r.sq)
      ta == TolA(r) * ScaleL(r.lq)
      qok == r.qe <= QeMax                       \* guard: the reference quadrature converged
      gen == r.rk \in {0, 1}                     \* neither end at a pole, not coincident
      mE == IF r.rk = 0 /\ Meridional(r.aq) THEN r.mE1 ELSE r.mE2
  IN <<
    \* (exact laws on the call forms first: they are named differently from the numeric laws of the record)
    <<"form-inv-set", r.mm \in 0..63 /\ InvFormsSet(r)>>,
    <<"form-inv-val", InvFormsVal(r)>>,
    <<"ctor-inv", CtorFamily(r)>>,
    <<"inv-finite", r.cs = 0 /\ (r.rk # 4 => r.ca = 0) /\ (r.rk \notin {3, 4} => r.cS = 0)>>,
    <<"inv-s12", qok => Within(r.ds, tl)>>,
    <<"inv-merid", (qok /\ r.rk # 4) => Within(r.mN, tl)>>,
    <<"inv-lon", (qok /\ gen) => Within(mE, tl)>>,
    <<"inv-cardinal", /\ (r.rk \in {2, 3} => r.azx = (IF r.dlat > 0 THEN 0 ELSE 180))
                      /\ (r.rk = 1 => r.azx = 90)>>,
    <<"inv-shortest", /\ (r.rk # 4 => r.aq <= 180000000)
                      /\ (gen /\ r.sl # 0 => r.azs = r.sl)
                      \* (the azimuth of a course shorter than 1e-6 L is not determined at the tolerance of a position)
                      /\ (r.rk = 0 /\ r.sq >= 1 => (IF r.dlat > 0 THEN r.aq <= 90000000 ELSE r.aq >= 90000000))>>,
    <<"inv-area", (qok /\ r.rk \notin {3, 4}) => Within(r.dS, ta)>>,
    <<"inv-xclass", /\ (r.rk # 4 => Within(r.eM, 2 * tl))
                    /\ (r.rk = 0 /\ Meridional(r.aq) /\ r.eP >= 0 => r.eP <= 2 * tl)
                    /\ (r.rk = 1 => Within(r.eC, 2 * tl))>>,
    <<"inv-swap", /\ r.wcs = 0
                  /\ (r.rk # 4 => r.wca = 0 /\ Within(r.rs, 2 * tl) /\ Within(r.rN, 2 * tl))
                  /\ (r.rk \notin {3, 4} /\ r.tie = "none" => r.wcS = 0 /\ Within(r.rS, 2 * ta))
                  /\ (gen /\ r.tie = "none" /\ r.sl # 0 => r.was = -r.azs)>>,
    <<"inv-ser-exact", r.xp => /\ r.xc
                               /\ (r.rk # 4 => Within(r.xs, tx) /\ Within(r.xN, tx) /\ Within(r.xE, tx))
                               /\ (r.rk \notin {3, 4} => Within(r.xS, TolAX(r) * ScaleL(r.lq)))>>,
    <<"tie-east", (r.tie # "none" /\ gen) => r.azs = 1>>
  >>

(* ------------------------------------------------------------------ dir *)
DirLaws(r) ==
  LET tl == TolL(r, r.sq)
      wide == r.lq >= 0 /\ r.lq < 2000000000          \* guard: number of turns known (not clipped)
      \* east-west position: the course may wind round the pole many times; its round-off follows the longitude swept
      xw == IF wide THEN Max(r.sq, Turns(r.lq)) ELSE r.sq
      tlw == TolL(r, xw)
      crok == r.cr >= 0 /\ r.cr <= CrMax            \* guard: end point not in the polar cap where lon/area amplify errors
      crr == (r.cr \div 1000000) + 1
      \* area tolerance: own bound plus the area swept by the admissible east-west position error at point 2
      ta == TolA(r) * ScaleL(r.lq) + crr * tlw * 10
      cross == r.pm > tl
      inside == r.pm < -tl
      reg == inside /\ ~r.pst
      qok == r.qe <= QeMax
      mE == IF r.rk = 0 /\ Meridional(r.aq) THEN r.mE1 ELSE r.mE2
      short == wide /\ r.lq < 179000000 /\ ~r.s0
  IN <<
    <<"form-dir-set", r.mm \in 0..63 /\ DirFormsSet(r)>>,
    <<"form-dir-val", DirFormsVal(r)>>,
    <<"form-dir-range", DirFormsRange(r)>>,
    <<"ctor-dir", CtorFamily(r)>>,
    <<"line-insp", r.linsp>>,
    <<"line-reuse", r.lre>>,
    <<"dir-line-eq", r.pe /\ r.ue>>,
    <<"dir-lat", r.cl = 0 /\ r.rng /\ Within(r.dlp, tl)>>,
    <<"dir-pole-nan", cross => (r.cn = 1 /\ r.cu = 1 /\ r.cS = 1)>>,
    <<"dir-finite", reg => (r.cn = 0 /\ r.cu = 0 /\ r.cS = 0)>>,
    <<"dir-unroll", reg => Within(r.du, 4000)>>,
    <<"dir-lon", (reg /\ qok /\ wide /\ r.rk \in {0, 1}) => Within(mE, tlw)>>,
    <<"dir-area", (reg /\ qok /\ wide /\ crok /\ r.rk \in {0, 1, 5}) => Within(r.dS, ta)>>,
    <<"dir-inverse", (reg /\ crok /\ r.rk \in {0, 1}) =>
                        /\ r.ics = 0
                        /\ r.is <= 2 * tl * (1 + crr)                                   \* never longer than the given course
                        /\ (short => /\ -r.is <= 2 * tl * (1 + crr) /\ Within(r.iN, 2 * tl * (1 + crr))
                                     /\ (wide => r.iS >= 0 /\ Ceil(r.iS, 2) <= ta))>>,
    <<"dir-additive", (reg /\ crok /\ wide) => /\ (r.ap >= 0 => r.ap <= 3 * tlw * (1 + crr))
                                               /\ (r.ad >= 0 => Ceil(r.ad, 3) <= ta)>>,
    <<"dir-ser-exact", (r.xp /\ ~r.pst) =>
                          /\ ((cross \/ inside) => r.xc)
                          /\ Within(r.xl2, TolLX(r, r.sq))
                          /\ (reg /\ wide => Within(r.xd, TolLX(r, xw)))
                          /\ (reg /\ wide /\ crok => Within(r.xS, TolAX(r) * ScaleL(r.lq) + crr * TolLX(r, xw) * 10))>>
  >>

Laws(r) ==
  CASE r.e = "li" -> LiLaws(r) [] r.e = "ld" -> LdLaws(r) [] r.e = "ell" -> EllLaws(r)
    [] r.e = "inv" -> InvLaws(r) [] r.e = "dir" -> DirLaws(r)
    [] r.e = "lm" -> LmLaws(r) [] r.e = "im" -> ImLaws(r)
    [] OTHER -> << <<"unknown-record", FALSE>> >>

Expected(r) ==
  CASE r.e = "li" -> <<AziClass(r.lat1, r.lat2, Lon12(r.k1, r.k2, r.d)), Lon12(r.k1, r.k2, r.d)>>
    [] r.e = "ld" -> <<DirClass(r.lat1, r.azi, r.s), Reflect(Mu2(r.lat1, r.azi, r.s))>>
    [] r.e = "lm" -> <<DirClass(r.lat1, r.azi, r.s), r.form, MaskNum(Written(r.form, r.m)), Unrolled(r.form, r.m)>>
    [] r.e = "im" -> <<r.form, MaskNum(Written(r.form, r.m))>>
    [] OTHER -> <<>>

Init == l = 1 /\ KitInit
Next == /\ l <= NT
        /\ LET ff == FirstFail(Laws(T[l])) IN
           Require(ff = "", l, "rh-" \o ff, Expected(T[l]))
        /\ Consumed(l)
        /\ l' = l + 1
=============================================================================
