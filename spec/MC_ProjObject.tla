---------------------------- MODULE MC_ProjObject ----------------------------
(* State graph of the projection objects (C17): every history                  *)
(*      constructor (without / with a centre) ; Reset^n ,  n <= Depth           *)
(* over the lattice centres Origins.  TLC explores the graph, checks on every    *)
(* state that the object's state is the one of a freshly constructed object      *)
(* for the last centre (HistoryFree), that the probes chosen for the state are   *)
(* lattice cases and that ProjLattice is consistent on them (Reverse o Forward,  *)
(* Forward o Reverse), and emits the history with its probes; the driver         *)
(* replays every history on ONE real object and Trace_ProjObject follows it.     *)
EXTENDS ProjObject, TLC, Json

CONSTANTS Depth       \* longest sequence of Resets after the constructor
VARIABLE hist         \* <<form, centres>>: form 0 = CassiniSoldner(earth), then Reset(c) for every centre c;
                      \*                    form 1 = CassiniSoldner(c1, earth), then Reset(c) for the remaining centres;  <<>> = no object yet

\* centres: equator, mid latitudes, both poles; pairs on one meridian with different latitudes (30,10 / -45,10 / 90,10 / 60,370: the same
\* meridian given as lon + 360), on one parallel with different meridians (30,10 / 30,-120), on opposite meridians (-30,190 vs lon 10)
Origins == {<<0, 0>>, <<30, 10>>, <<-45, 10>>, <<30, -120>>, <<90, 10>>, <<-90, 0>>, <<60, 370>>, <<-30, 190>>}

\* ---- probes for the centre o (all lattice cases of ProjLattice)
OnMer(o, dl) == <<MLat(o, o[1] + dl), MLon(o, o[1] + dl)>>
FPts(o) ==
  {<<l, o[2]>> : l \in {50, -20, 0}} \cup {<<l, o[2] + 180>> : l \in {50, -20, 0, -o[1]}}
  \cup {<<30, o[2] + 90>>, <<-60, o[2] - 90>>, <<20, o[2] + 90>>, <<-30, o[2] + 450>>}
  \cup {<<0, o[2] + 60>>, <<0, o[2] - 120>>, <<0, o[2] + 10>>, <<0, o[2] + 170>>}
  \cup {<<90, o[2] + 33>>, <<-90, 7>>}
RPts(o) ==
  {<<0, 40>>, <<0, -100>>, <<0, 200>>, <<0, 90 - o[1]>>, <<60, -o[1]>>, <<-120, -o[1]>>, <<30, 180 - o[1]>>, <<90, 25>>, <<-90, -70>>,
   <<40, 90 - o[1]>>, <<-100, 270 - o[1]>>}
\* points of the central meridian for the azimuthal projections (centre and point not poles)
MDeltas == {45, -60, 120, -30, 90}
APts(o) == IF Abs(o[1]) = 90 THEN {} ELSE {OnMer(o, dl) : dl \in {d \in MDeltas : ~MPole(o[1] + d)}}
AQts(o) == IF Abs(o[1]) = 90 THEN {} ELSE {<<0, dl>> : dl \in {d \in MDeltas : ~MPole(o[1] + d)}}

Last(h) == h[2][Len(h[2])]
StateOf(h) == IF h[2] = <<>> THEN Uninit ELSE Fresh(Last(h))
Centre(h) == IF h[2] = <<>> THEN <<0, 0>> ELSE Last(h)

Init == hist = <<>> /\ cs = Uninit /\ ret = "none"
Next ==
  \/ hist = <<>> /\ New0 /\ hist' = <<0, <<>> >>
  \/ hist = <<>> /\ \E o \in Origins : New(o) /\ hist' = <<1, <<o>> >>
  \/ hist # <<>> /\ Len(hist[2]) - hist[1] < Depth /\ \E o \in Origins : Reset(o) /\ hist' = <<hist[1], Append(hist[2], o)>>

\* the only state is the last centre: any history ends in the state of a freshly constructed object
HistoryFree == hist # <<>> => cs = StateOf(hist)

\* the probes are lattice cases and the oracle is consistent on them
OracleInv ==
  hist # <<>> /\ cs.init =>
    LET o == cs.o IN
    /\ \A p \in FPts(o) : CsFwd(o, p).kind = "pt" /\ CsRoundTripOK(o, p)
    /\ \A q \in RPts(o) : CsRev(o, q).kind \in {"pt", "pole"} /\ CsBackOK(o, q)
    /\ \A p \in APts(o) : AzFwd(o, p).kind = "pt" /\ GnFwd(o, p).kind = "pt" /\ AzRoundTripOK(o, p)
    /\ \A q \in AQts(o) : AzRev(o, q).kind = "pt" /\ AzFwd(o, <<AzRev(o, q).lat, AzRev(o, q).lon>>).y = {q[2]}

SetSeq(S) == LET RECURSIVE f(_) f(T) == IF T = {} THEN <<>> ELSE LET x == CHOOSE x \in T : TRUE IN <<x>> \o f(T \ {x}) IN f(S)
Emit ==
  hist # <<>> =>
    LET o == Centre(hist) IN
    PrintT(ToJson(<<"ph", hist[1], hist[2], SetSeq(FPts(o)), SetSeq(RPts(o)), SetSeq(APts(o)), SetSeq(AQts(o))>>))
=============================================================================
