---------------------------- MODULE MC_Calendar ----------------------------
(* Enumeration of dates, day numbers and date strings for Utility's calendar *)
(* functions; model invariants: day and date are mutually inverse bijections *)
(* between the existing dates and the positive integers, the day number is   *)
(* strictly increasing in (y, m, d), dow advances by one per day.            *)
EXTENDS Calendar, TLC, Json

CONSTANTS NChunks, Dense
VARIABLE v

Years == {1, 2, 3, 4, 5, 99, 100, 101, 399, 400, 401, 1000, 1581, 1582, 1583, 1699, 1700, 1701, 1751, 1752, 1753, 1799, 1800, 1801,
          1899, 1900, 1901, 1999, 2000, 2001, 2023, 2024, 2025, 2026, 2099, 2100, 2101, 2400, 9999, 10000, 12345} \cup
         (IF Dense THEN 1740..1760 \cup 1990..2030 ELSE {})
Days == (1..800) \cup (639700..639900) \cup (730000..730800) \cup {146097, 146098, 365, 366, 367, 1461, 1462, 36524, 36525, 36526, 3652059, 3652060, 4500000} \cup
        (IF Dense THEN 639000..641000 ELSE {})
\* abstract alphabet for short strings: digits 0 1 2 9, hyphen, a letter, a space, a point
Alpha == {48, 49, 50, 57, 45, 120, 32, 46}
StrDepth == IF Dense THEN 5 ELSE 4

Pad(n, w) == LET ds == [i \in 1..w |-> 48 + ((n \div (10 ^ (w - i))) % 10)] IN ds
Canon(y, m, d) == Pad(y, 4) \o <<45>> \o Pad(m, 2) \o <<45>> \o Pad(d, 2)

Init == v = <<"root">>
Next ==
  \/ v = <<"root">> /\ \E c \in 0..(NChunks - 1) : v' = <<"chunk", c>>
  \/ v[1] = "chunk" /\ \E y \in {x \in Years : x % NChunks = v[2]}, m \in 1..12, d \in 1..31 : v' = <<"day", y, m, d>>
  \/ v[1] = "chunk" /\ \E s \in {x \in Days : x % NChunks = v[2]} : v' = <<"date", s>>
  \* canonical strings for existing and non-existing dates, and the shorter forms
  \/ v[1] = "chunk" /\ \E y \in {x \in Years : x % NChunks = v[2] /\ x <= 9999}, m \in 0..13, d \in {0, 1, 2, 3, 13, 14, 28, 29, 30, 31, 32} :
        v' = <<"str", Canon(y, m, d)>>
  \/ v[1] = "chunk" /\ \E y \in {x \in Years : x % NChunks = v[2] /\ x <= 9999}, m \in 0..13 : v' = <<"str", Pad(y, 4) \o <<45>> \o Pad(m, 2)>>
  \/ v[1] = "chunk" /\ \E y \in {x \in Years : x % NChunks = v[2] /\ x <= 9999} : v' = <<"str", Pad(y, 4)>>
  \* every short string over the abstract alphabet
  \/ v[1] = "chunk" /\ v[2] = 0 /\ v' = <<"str", <<>>>>
  \/ v[1] = "str" /\ Len(v[2]) < StrDepth /\ (\A i \in 1..Len(v[2]) : v[2][i] \in Alpha) /\ \E b \in Alpha : v' = <<"str", Append(v[2], b)>>

DayInv ==
  v[1] = "day" =>
    LET y == v[2]  m == v[3]  d == v[4] IN
    Valid(y, m, d) =>
      /\ DateOf(Day(y, m, d)) = <<y, m, d>>
      \* the next existing date has the next day number
      /\ (Valid(y, m, d + 1) => Day(y, m, d + 1) = Day(y, m, d) + 1)
      /\ (~Valid(y, m, d + 1) /\ ~(y = 1752 /\ m = 9 /\ d = 2) => IF m < 12 THEN Day(y, m + 1, 1) = Day(y, m, d) + 1 ELSE Day(y + 1, 1, 1) = Day(y, m, d) + 1)
      /\ Dow(Day(y, m, d) + 1) = (Dow(Day(y, m, d)) + 1) % 7
      /\ YearFrac(y, m, d)[1] >= 0 /\ YearFrac(y, m, d)[1] < YearFrac(y, m, d)[2] /\ YearFrac(y, m, d)[2] \in {355, 365, 366}
DateInv ==
  v[1] = "date" => LET t == DateOf(v[2]) IN Valid(t[1], t[2], t[3]) /\ Day(t[1], t[2], t[3]) = v[2]
StrInv ==
  v[1] = "str" => LET p == ParseDate(v[2]) IN (Canonical(v[2]) /\ AllDigits(SelectSeq(v[2], LAMBDA c : c # 45)) /\ v[2][Len(v[2])] # 45 => p[1] = "ok")

Emit == v[1] \in {"day", "date", "str"} => PrintT(ToJson(v))
=============================================================================
