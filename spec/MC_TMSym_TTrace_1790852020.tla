---- MODULE MC_TMSym_TTrace_1790852020 ----
EXTENDS Sequences, TLCExt, Toolbox, MC_TMSym, Naturals, TLC

_expression ==
    LET MC_TMSym_TEExpression == INSTANCE MC_TMSym_TEExpression
    IN MC_TMSym_TEExpression!expression
----

_trace ==
    LET MC_TMSym_TETrace == INSTANCE MC_TMSym_TETrace
    IN MC_TMSym_TETrace!trace
----

_inv ==
    ~(
        TLCGet("level") = Len(_TETrace)
        /\
        v = (<<"chunk", 2>>)
    )
----

_init ==
    /\ v = _TETrace[1].v
----

_next ==
    /\ \E i,j \in DOMAIN _TETrace:
        /\ \/ /\ j = i + 1
              /\ i = TLCGet("level")
        /\ v  = _TETrace[i].v
        /\ v' = _TETrace[j].v

\* Uncomment the ASSUME below to write the states of the error trace
\* to the given file in Json format. Note that you can pass any tuple
\* to `JsonSerialize`. For example, a sub-sequence of _TETrace.
    \* ASSUME
    \*     LET J == INSTANCE Json
    \*         IN J!JsonSerialize("MC_TMSym_TTrace_1790852020.json", _TETrace)

=============================================================================

 Note that you can extract this module `MC_TMSym_TEExpression`
  to a dedicated file to reuse `expression` (the module in the 
  dedicated `MC_TMSym_TEExpression.tla` file takes precedence 
  over the module `MC_TMSym_TEExpression` below).

---- MODULE MC_TMSym_TEExpression ----
EXTENDS Sequences, TLCExt, Toolbox, MC_TMSym, Naturals, TLC

expression == 
    [
        \* To hide variables of the `MC_TMSym` spec from the error trace,
        \* remove the variables below.  The trace will be written in the order
        \* of the fields of this record.
        v |-> v
        
        \* Put additional constant-, state-, and action-level expressions here:
        \* ,_stateNumber |-> _TEPosition
        \* ,_vUnchanged |-> v = v'
        
        \* Format the `v` variable as Json value.
        \* ,_vJson |->
        \*     LET J == INSTANCE Json
        \*     IN J!ToJson(v)
        
        \* Lastly, you may build expressions over arbitrary sets of states by
        \* leveraging the _TETrace operator.  For example, this is how to
        \* count the number of times a spec variable changed up to the current
        \* state in the trace.
        \* ,_vModCount |->
        \*     LET F[s \in DOMAIN _TETrace] ==
        \*         IF s = 1 THEN 0
        \*         ELSE IF _TETrace[s].v # _TETrace[s-1].v
        \*             THEN 1 + F[s-1] ELSE F[s-1]
        \*     IN F[_TEPosition - 1]
    ]

=============================================================================



Parsing and semantic processing can take forever if the trace below is long.
 In this case, it is advised to uncomment the module below to deserialize the
 trace from a generated binary file.

\*
\*---- MODULE MC_TMSym_TETrace ----
\*EXTENDS IOUtils, MC_TMSym, TLC
\*
\*trace == IODeserialize("MC_TMSym_TTrace_1790852020.bin", TRUE)
\*
\*=============================================================================
\*

---- MODULE MC_TMSym_TETrace ----
EXTENDS MC_TMSym, TLC

trace == 
    <<
    ([v |-> <<"root">>]),
    ([v |-> <<"chunk", 2>>])
    >>
----


=============================================================================

---- CONFIG MC_TMSym_TTrace_1790852020 ----
CONSTANTS
    Part = "sl"
    NChunks = 16
    Stride = 3

INVARIANT
    _inv

CHECK_DEADLOCK
    \* CHECK_DEADLOCK off because of PROPERTY or INVARIANT above.
    FALSE

INIT
    _init

NEXT
    _next

CONSTANT
    _TETrace <- _trace

ALIAS
    _expression
=============================================================================
\* Generated on Thu Oct 01 10:53:42 UTC 2026