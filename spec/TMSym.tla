-------------------------------- MODULE TMSym --------------------------------
(***************************************************************************)
(* Transverse Mercator (property C06): the discrete part of the mapping.   *)
(*                                                                         *)
(* 1. The symmetry group of the projection as a state machine: generators  *)
(*    act on the INPUT (latitude reflection, reflection of the longitude   *)
(*    offset, "backside" lam -> 180 - lam, wrap of lon and of lon0 by 360) *)
(*    and, by the rules stated in the documentation, on the OUTPUT         *)
(*    (x odd in lam, y odd in lat, gamma odd in both; far side:            *)
(*    y -> 2 y_pole - y, gamma -> 180 - gamma).  The closed-form           *)
(*    prediction Pred(e) for a group element in normal form must agree     *)
(*    with the generator-by-generator composition on every path of the     *)
(*    Cayley graph (homomorphism invariant, checked by TLC).               *)
(* 2. The sphere lattice: f = 0, a = 180/pi (one degree of arc is one      *)
(*    metre), k0 dyadic.  On the central meridian, its far side, the       *)
(*    meridians lam = +-90, the equator and the poles the projection has   *)
(*    integer values; elsewhere only the sheet / sign structure is exact.  *)
(* 3. Per-ellipsoid constants used by the laws of Trace_TMSym.             *)
(*                                                                         *)
(* Written from TransverseMercator.hpp, TransverseMercatorExact.hpp and    *)
(* the "transversemercator" page of the documentation.  Angles in degrees. *)
(***************************************************************************)
EXTENDS Integers, Sequences, FiniteSets

Sgn(n) == IF n > 0 THEN 1 ELSE IF n < 0 THEN -1 ELSE 0
AbsI(n) == IF n < 0 THEN -n ELSE n
MaxI(a, b) == IF a > b THEN a ELSE b
MinI(a, b) == IF a < b THEN a ELSE b

(* ------------------------------------------------------------------------ *)
(* 1. Symmetry group                                                         *)
(* ------------------------------------------------------------------------ *)
\* Input transform in normal form, applied to a base point (lat, lam) with lam = lon - lon0:
\*   lat' = slat * lat,   lam' = s * lam + 180 * b,   lon' = lon0 + lam' + 360 * wl,   lon0' = lon0 + 360 * w0
WMax == 2
Elem == [slat : {1, -1}, s : {1, -1}, b : {0, 1}, wl : -WMax..WMax, w0 : -WMax..WMax]
Id == [slat |-> 1, s |-> 1, b |-> 0, wl |-> 0, w0 |-> 0]

\* Output transform as affine maps of the base answer (x, y, gamma, k):
\*   x' = ax * x,   y' = ay * y + cy * (2 * y_pole),   gamma' = ag * gamma + cg * 180 (mod 360),   k' = k
OutId == [ax |-> 1, ay |-> 1, cy |-> 0, ag |-> 1, cg |-> 0]

Generators == {"RLat", "RLon", "Back", "LonP", "LonM", "Lon0P", "Lon0M"}

\* action of a generator on the input normal form; the whole offset O = s lam + 180 b + 360 wl is transformed:
\*   RLon: -O = -s lam + 180 b - 360 (wl + b)        Back: 180 - O = -s lam + 180 (1 - b) - 360 wl
ActIn(g, e) ==
  CASE g = "RLat" -> [e EXCEPT !.slat = -@]
    [] g = "RLon" -> [e EXCEPT !.s = -@, !.wl = -(@ + e.b)]
    [] g = "Back" -> [e EXCEPT !.s = -@, !.b = 1 - @, !.wl = -@]
    [] g = "LonP" -> [e EXCEPT !.wl = @ + 1]
    [] g = "LonM" -> [e EXCEPT !.wl = @ - 1]
    [] g = "Lon0P" -> [e EXCEPT !.w0 = @ + 1]
    [] g = "Lon0M" -> [e EXCEPT !.w0 = @ - 1]

\* action of a generator on the output, as the documentation states it for the point the generator is applied to
\* (hemisphere h = sign of the latitude of that point; the base point has lat > 0, so h = e.slat):
\*   RLat: y, gamma odd in latitude             RLon: x, gamma odd in the longitude offset
\*   Back: y -> h * 2 y_pole - y, gamma -> 180 - gamma (mod 360);   wraps leave the answer unchanged
ActOut(g, e, o) ==
  CASE g = "RLat" -> [o EXCEPT !.ay = -@, !.cy = -@, !.ag = -@]
    [] g = "RLon" -> [o EXCEPT !.ax = -@, !.ag = -@]
    [] g = "Back" -> [o EXCEPT !.ay = -@, !.cy = e.slat - @, !.ag = -@, !.cg = 1 - @]
    [] OTHER -> o

\* closed-form prediction for an element in normal form
Pred(e) ==
  LET ax == IF e.b = 1 THEN -e.s ELSE e.s IN
  [ax |-> ax,
   ay |-> IF e.b = 1 THEN -e.slat ELSE e.slat,
   cy |-> e.slat * e.b,
   ag |-> IF e.b = 1 THEN -(e.slat * ax) ELSE e.slat * ax,
   cg |-> e.b]

\* the same output transform in the form the driver applies:  x' = sx x,  y' = sy (yb ? 2 y_pole - y : y),
\* gamma' = sg (gb ? 180 - gamma : gamma)
DrvOut(o) ==
  <<o.ax,
    IF o.cy = 0 THEN o.ay ELSE o.cy, IF o.cy = 0 THEN 0 ELSE 1,
    IF o.cg = 0 THEN o.ag ELSE -o.ag, o.cg>>

(* ------------------------------------------------------------------------ *)
(* 2. Sphere lattice (f = 0, a = 180/pi): values in units of k0 metres / degrees *)
(* ------------------------------------------------------------------------ *)
\* longitude difference reduced to (-180, 180]
Norm180(d) == LET m == ((d + 180) % 360) - 180 IN IF m = -180 THEN 180 ELSE m

\* An expectation for one output is  <<"int", v>> (exactly the integer v),  <<"pm", v>> (v or -v: the documentation leaves
\* the sign open: +-180 and the northing of the equator's far side),  <<"sgn", s, lo, hi>> (non-integer value of sign s
\* with lo < |value| < hi; hi = 0 means unbounded)  or  <<"any">>.
\* d = symbolic perturbation of the longitude in ulps (-1, 0, 1); with d # 0 the sheet is decided by the perturbed
\* longitude and exact values hold to round-off only.
\* SphSkip: the singular point of the spherical projection (lat = 0, |lam| = 90) is not part of the lattice.
SphSkip(lat, lam) == lat = 0 /\ AbsI(lam) = 90
AnyAll == [x |-> <<"any">>, y |-> <<"any">>, g |-> <<"any">>, k |-> <<"any">>]
SphFwd(lat, lam, d) ==
  LET al == AbsI(lam)
      \* |lam| compared with 90 using the perturbation: -1 front, 0 on the meridian, 1 back
      side == IF al < 90 THEN -1 ELSE IF al > 90 THEN 1 ELSE IF d = 0 THEN 0 ELSE IF Sgn(lam) * d > 0 THEN 1 ELSE -1
  IN
  IF AbsI(lat) = 90 THEN
    [x |-> <<"int", 0>>, y |-> <<"int", lat>>,
     g |-> IF al = 180 THEN <<"pm", 180>> ELSE <<"int", Sgn(lat) * lam>>, k |-> <<"int", 1>>]
  ELSE IF lam = 0 THEN
    [x |-> <<"int", 0>>, y |-> <<"int", lat>>, g |-> <<"int", 0>>, k |-> <<"int", 1>>]
  ELSE IF al = 180 THEN
    [x |-> <<"int", 0>>, y |-> IF lat = 0 THEN <<"pm", 180>> ELSE <<"int", Sgn(lat) * (180 - AbsI(lat))>>,
     g |-> <<"pm", 180>>, k |-> <<"int", 1>>]
  ELSE IF al = 90 THEN
    IF lat = 0 THEN AnyAll
    ELSE [x |-> <<"sgn", Sgn(lam), 0, 0>>, y |-> <<"int", Sgn(lat) * 90>>, g |-> <<"int", Sgn(lat) * Sgn(lam) * 90>>,
          k |-> IF AbsI(lat) = 30 THEN <<"int", 2>> ELSE <<"sgn", 1, 1, 0>>]
  ELSE IF lat = 0 THEN
    IF side < 0
    THEN [x |-> <<"sgn", Sgn(lam), 0, 0>>, y |-> <<"int", 0>>, g |-> <<"int", 0>>,
          k |-> IF al = 60 THEN <<"int", 2>> ELSE <<"sgn", 1, 1, 0>>]
    ELSE [x |-> <<"sgn", Sgn(lam), 0, 0>>, y |-> <<"pm", 180>>, g |-> <<"pm", 180>>,
          k |-> IF al = 120 THEN <<"int", 2>> ELSE <<"sgn", 1, 1, 0>>]
  ELSE  \* generic point: only the sheet structure is exact
    [x |-> <<"sgn", Sgn(lam), 0, 0>>,
     y |-> IF side < 0 THEN <<"sgn", Sgn(lat), 0, 90>> ELSE <<"sgn", Sgn(lat), 90, 180>>,
     g |-> IF side < 0 THEN <<"sgn", Sgn(lat) * Sgn(lam), 0, 90>> ELSE <<"sgn", Sgn(lat) * Sgn(lam), 90, 180>>,
     k |-> <<"sgn", 1, 1, 0>>]

\* Reverse on the sphere lattice at x = 0, y = yk (units of k0 metres), |yk| <= 180: the central meridian and its far side
SphRev(lon0, yk) ==
  LET ay == AbsI(yk) IN
  IF ay <= 90
  THEN [lat |-> <<"int", yk>>, lon |-> IF ay = 90 THEN <<"any">> ELSE <<"lon", Norm180(lon0)>>,
        g |-> IF ay = 90 THEN <<"any">> ELSE <<"int", 0>>, k |-> <<"int", 1>>]
  ELSE [lat |-> <<"int", Sgn(yk) * (180 - ay)>>, lon |-> <<"lon", Norm180(lon0 + 180)>>, g |-> <<"pm", 180>>, k |-> <<"int", 1>>]

\* the integer value of an exact expectation (used by the model invariants)
IsInt(e) == e[1] = "int"

(* ------------------------------------------------------------------------ *)
(* 3. Ellipsoid family of the law records (mirror of ftab() in drv_tm.cpp)  *)
(* ------------------------------------------------------------------------ *)
NF == 14
NA == 5                                \* equatorial radii atab() and central scales ktab() of drv_tm.cpp
NK == 6
\* third flattening n = f / (2 - f) in units of 1e-9, for f = 0, 1/298.257223563 (WGS84), 1/297 (International), 1/293.465
\* (Clarke 1880), 1/300.8017 (Everest), -1/298.257223563, +-1/150, +-0.01, +-0.02, 0.05, 0.1
NQ == <<0, 1679220, 1686341, 1706689, 1664992, -1673600, 3344482, -3322259, 5025126, -4975124, 10101010, -9900990,
        25641026, 52631579>>
\* The documented accuracy of the 6th-order series is stated for the WGS84 ellipsoid; its truncation error is O(n^7), so for
\* another ellipsoid the bound is scaled by Trunc = ceil((|n| / n_WGS84)^7) (>= 1).  0: no nanometre claim (|f| >= 0.05).
TruncTab == <<1, 1, 2, 2, 1, 1, 125, 119, 2150, 2004, 284971, 247741, 0, 0>>
Trunc(fi) == TruncTab[fi + 1]
SeriesOK(fi) == Trunc(fi) > 0
FPos(fi) == NQ[fi + 1] > 0            \* the exact form needs f > 0
\* classes: 0 TransverseMercator (series), 1 TransverseMercator(exact), 2 TransverseMercatorExact, 3 / 4 the same with extendp
Admissible(cls, fi) == cls = 0 \/ FPos(fi)

(* ------------------------------------------------------------------------ *)
(* 4. The branch point of the exact form (TransverseMercatorExact.hpp, constructor text; "transversemercator" page,       *)
(*    Fig. 3(b)): lat = 0, lon - lon0 = 90 (1 - e)  <->  x / (k0 a) = K(1-e^2) - E(1-e^2), y = 0; "the scale and          *)
(*    convergence at the branch point are 1/e and 0".  The lattice point is reached through every reflection of the       *)
(*    group (classes 1, 2) and at -1 / 0 / +1 ulp of the longitude; extendp (classes 3, 4) has no reflections: lat = -0   *)
(*    is the same point of both pieces of its domain.                                                                     *)
(* ------------------------------------------------------------------------ *)
\* expectation for Forward at the (reflected, nudged) branch point, in the vocabulary of section 2:
\*   x: sign ax of Pred(e), |x| = x_bp;  y: 0 on the near side, +-2 y_pole on the far side (rule EquatorFarSide);
\*   g: 0 / +-180 exactly up to the bound for d <= 0 (on the equator segment that maps to the x axis), open for d = 1
\*      (beyond the branch point the equator leaves the axis);  k: k0 / e at d = 0 only (k is continuous but not Lipschitz)
BpElem(cls) == IF cls >= 3 THEN {[slat |-> sl, s |-> 1, b |-> 0, wl |-> 0, w0 |-> 0] : sl \in {1, -1}}
               ELSE {[slat |-> sl, s |-> s, b |-> b, wl |-> 0, w0 |-> 0] : sl \in {1, -1}, s \in {1, -1}, b \in {0, 1}}
BpFwd(cls, e, d) ==
  LET o == Pred(e) IN
  [xs |-> IF cls >= 3 THEN 1 ELSE o.ax,
   y |-> IF e.b = 0 THEN <<"int", 0>> ELSE <<"pm", 2>>,            \* in units of y_pole
   g |-> IF d = 1 THEN <<"any">> ELSE IF e.b = 0 THEN <<"int", 0>> ELSE <<"pm", 180>>,
   k |-> IF d = 0 THEN <<"int", 1>> ELSE <<"any">>]                \* in units of k0 / e
\* grid side: the reflections of the grid point (sx, sy, far side b)
BprElem(cls) == IF cls >= 3 THEN {<<1, sy, 0>> : sy \in {1, -1}} ELSE {<<sx, sy, b>> : sx \in {1, -1}, sy \in {1, -1}, b \in {0, 1}}

(* ------------------------------------------------------------------------ *)
(* 5. The constructor family (mirror of do_cfg in drv_tm.cpp)                *)
(* ------------------------------------------------------------------------ *)
\* number of documented ways to write the constructor of class cls (defaulted arguments exact = false, extendp = false
\* written out or omitted):  TransverseMercator(a,f,k0) = (a,f,k0,false) = (a,f,k0,false,false);  (a,f,k0,true) =
\* (a,f,k0,true,false);  TransverseMercatorExact(a,f,k0) = (a,f,k0,false);  one form each with extendp = true
CtorForms(cls) == <<3, 2, 2, 1, 1>>[cls + 1]
\* "With exact = true, this class delegates the calculations to the TransverseMercatorExact classes": partner class
Delegate(cls) == <<-1, 2, 1, 4, 3>>[cls + 1]

(* ------------------------------------------------------------------------ *)
(* 6. Lower extended region / analytic continuation: conditioning factor    *)
(* ------------------------------------------------------------------------ *)
\* Known finding tmx-ext-lower: "loses accuracy in proportion to the scale k".  What is still owed there is the documented
\* bound times k / k0, rounded up to the next power of two: kl = floor(log2(k / k0)), factor 2^(kl + 1) (1 for k < k0).
Pow2(n) == IF n <= 0 THEN 1 ELSE IF n >= 31 THEN 2147483647 ELSE 2^n
CondFactor(kl) == Pow2(kl + 1)
=============================================================================
