---------------------------- MODULE MC_Geocentric ----------------------------
(* Lattice enumeration for Geocentric / LocalCartesian (C07).                 *)
(* root -> chunk c -> vectors.  Part selects the family of vectors:           *)
(*   "geo": Forward / Reverse on the axis lattice; "loc": LocalCartesian;     *)
(*   "box": regime x class x ellipsoid x sign pattern x scale boxes;          *)
(*   "obj": the state graph of a LocalCartesian object - every constructor    *)
(*   form followed by every sequence of at most Depth - 1 Reset forms /       *)
(*   copies (a real history: v = <<"obj", ops>>), each emitted with the model *)
(*   state after every operation and the lattice queries that observe it.     *)
EXTENDS Geocentric, TLC, Json

CONSTANTS Part, NChunks, Dense, Depth
VARIABLE v

InChunk(S, C) == {x \in S : x % NChunks = C}
Lat3 == {-90, 0, 90}
LonAll == {90 * k : k \in -8..8} \cup (IF Dense THEN {90 * k : k \in {-4001, -40, 40, 4000, 4003}} ELSE {})
LonFew == {-180, -90, 0, 90, 180, 270, 450}
Fis == {0, 1, 2}
\* heights: around -a, -b, the singular radii, geophysical, large
HSet(fi) == LET B == SemiB(fi) IN
  {-A - 3, -A - 1, -A, -A + 1, -A + 2, -A + DiscR - 1, -A + DiscR, -A + DiscR + 1, -B - 1, -B, -B + 1,
   -B + SegZ, -B + SegZ + 1, -B + SegZ + 2, -100000, -1000, -1, 0, 1, 7, 1000, 100000, A, 1073741824}
HFew == {-100000, -1, 0, 5, 1000, 536870912}
\* radii for Reverse on the axes
RSet(fi) == LET B == SemiB(fi) IN
  {1, 2, 3, 1000, DiscR - 1, DiscR, DiscR + 1, SegZ, SegZ + 1, SegZ + 2, 100000, B - 1, B, B + 1, A - 1, A, A + 1,
   2 * A, 1073741824} \cup (IF fi = 2 THEN {CuspR - 1, CuspR, CuspR + 1} ELSE {}) \cup (IF Dense THEN {2 ^ k : k \in 2..29} \cup {DiscR - 2 ^ k : k \in 1..15} ELSE {})
Axis(n, s) == CASE n = 1 -> <<s, 0, 0>> [] n = 2 -> <<0, s, 0>> [] n = 3 -> <<0, 0, s>>

VecGeo(C) ==
  \/ \E h \in InChunk(HSet(0) \cup HSet(1) \cup HSet(2), C), fi \in Fis, lat \in Lat3, lon \in LonAll :
        h \in HSet(fi) /\ v' = <<"gf", fi, lat, lon, h>>
  \/ \E r \in InChunk(RSet(0) \cup RSet(1) \cup RSet(2), C), fi \in Fis, n \in 1..3, s \in {-1, 1} :
        r \in RSet(fi) /\ v' = <<"gr", fi>> \o Axis(n, s * r)
  \/ C = 0 /\ \E fi \in Fis : v' = <<"gr", fi, 0, 0, 0>>
  \* the M overloads: entry point x length of the vector x lattice ellipsoid x a few lattice points
  \/ \E n \in InChunk(MSizes, C), ent \in MEntries, fi \in Fis, lat \in Lat3, lon \in {0, 90, -180}, h \in {0, 7} :
        v' = <<"mv", ent, n, fi, lat, lon, h>>
  \* Geocentric objects: construction forms x family
  \/ \E fi \in InChunk(-1..(NFam - 1), C), form \in GeoForms : fi \in GeoFormFis(form) /\ v' = <<"go", form, fi>>

\* local points: lattice geodetic points and local offsets
DSet == {-100000, -7, -1, 0, 1, 1000, 4194304}
VecLoc(C) ==
  \/ \E h0 \in InChunk(HFew, C), fi \in Fis, lat0 \in Lat3, lon0 \in LonFew, lat \in Lat3, lon \in {-90, 0, 90, 180, 360}, h \in HFew :
        v' = <<"lf", fi, lat0, lon0, h0, lat, lon, h>>
  \/ \E h0 \in InChunk(HFew \ {536870912}, C), fi \in Fis, lat0 \in Lat3, lon0 \in LonFew, n \in 1..3 :
      \E d \in DSet \cup {-A - h0, -SemiB(fi) - h0} :
        LET st == LocalState(fi, lat0, lon0, h0)
            P == LocalToGeocentric(st, Axis(n, d))
        IN OnAxes(P[1], P[2], P[3]) /\ v' = <<"lr", fi, lat0, lon0, h0>> \o Axis(n, d)

(* ------------------------------ LocalCartesian object histories ---------- *)
OLon == {0, 90, -180} \cup (IF Dense THEN {450} ELSE {})
OH == {0, 7} \cup (IF Dense THEN {-100000} ELSE {})
OrgObj == {<<la, lo, h>> : la \in Lat3, lo \in OLon, h \in OH}
OFis == Fis \cup {WGS}
CtorOps == {<<"c4", fi, o[1], o[2], o[3]>> : fi \in OFis, o \in OrgObj}
           \cup {<<"c3", -1, o[1], o[2], o[3]>> : o \in OrgObj}
           \cup {<<"c2", -1, la, lo, 0>> : la \in Lat3, lo \in OLon}
           \cup {<<"c1", fi, 0, 0, 0>> : fi \in OFis} \cup {<<"c0", -1, 0, 0, 0>>}
StepOps == {<<"r3", -1, o[1], o[2], o[3]>> : o \in OrgObj} \cup {<<"r2", -1, la, lo, 0>> : la \in Lat3, lo \in OLon}
           \cup {<<"cp", -1, 0, 0, 0>>, <<"as", -1, 0, 0, 0>>}
ChunkOf(o) == (o[2] + 1 + 5 * ((o[3] + 90) \div 90) + 17 * ((o[4] + 180) \div 90) + 3 * o[5]) % NChunks
\* queries that observe an object in state st, chosen so that the exact integer model applies: Forward of the point d
\* above the origin (-> (0, 0, d)) and of two other lattice points; Reverse of the origin, of a point on the local z axis
\* and of the local offsets that land on a geocentric axis
ObjQueries(st) ==
  IF ~LcModelled(st) THEN <<>>
  ELSE LET fi == st[1]  lat0 == st[2]  lon0 == st[3]  h0 == st[4] IN
       IF fi = WGS THEN << <<"fw", -1, 0, lon0, h0 + 5>>, <<"fw", -1, 0, lon0 + 90, 1000>> >>
       ELSE << <<"fw", -1, lat0, lon0, h0 + 5>>, <<"fw", -1, 0, 90, 1000>>, <<"fw", -1, 90, 0, -1>>,
               <<"rv", -1, 0, 0, 0>>, <<"rv", -1, 0, 0, 7>>, <<"rv", -1, 0, 0, -A - h0>> >>
\* rows for the driver: each operation with the model state after it, then the queries on the final state
RECURSIVE ObjRows(_, _, _)
ObjRows(ops, i, st) ==
  IF i > Len(ops) THEN [j \in 1..Len(ObjQueries(st)) |-> ObjQueries(st)[j] \o st]
  ELSE LET st2 == LcApply(st, ops[i], 0) IN <<ops[i] \o st2>> \o ObjRows(ops, i + 1, st2)
VecObj(C) == \E o \in CtorOps : ChunkOf(o) = C /\ v' = <<"obj", <<o>>>>
StepObj == /\ v[1] = "obj" /\ Len(v[2]) < Depth
           /\ \E o \in StepOps : LcEnabled(LcRun(v[2], 0), o) /\ v' = <<"obj", Append(v[2], o)>>

(* ------------------------------ CartConvert lines ------------------------- *)
TOrg == {<<0, 0, 0>>, <<0, 90, 5>>, <<90, 0, 0>>, <<-90, -180, 7>>}
TPrec == {0, 3, 6}
VecTool(C) ==
  \/ \E fi \in InChunk(OFis, C), w \in {0, 1}, p \in TPrec, lat \in Lat3, lon \in {-180, -90, 0, 90, 270}, h \in {0, 5, -100000} :
        (fi = WGS => lat = 0) /\ v' = <<"t", "gf", fi, w, p, 0, 0, 0, lat, lon, h>>
  \/ \E fi \in InChunk(OFis, C), w \in {0, 1}, p \in TPrec, n \in 1..3, s \in {-1, 1}, r \in {1000, 100000, A, WGS84A, 2 * A} :
        /\ (fi = WGS => n # 3 /\ r >= 100000)                      \* WGS84: equatorial plane, outside its singular disc (42.7 km)
        /\ ToolExactRev("gr", fi, 0, 0, 0, Axis(n, s * r)[1], Axis(n, s * r)[2], Axis(n, s * r)[3])
        /\ v' = <<"t", "gr", fi, w, p, 0, 0, 0>> \o Axis(n, s * r)
  \/ \E fi \in InChunk(OFis, C), w \in {0, 1}, p \in TPrec, o \in TOrg, lat \in Lat3, lon \in {0, 90, 180}, h \in {0, 1000} :
        (fi = WGS => lat = 0 /\ o[1] = 0) /\ v' = <<"t", "lf", fi, w, p, o[1], o[2], o[3], lat, lon, h>>
  \/ \E fi \in InChunk(Fis, C), w \in {0, 1}, p \in TPrec, o \in TOrg, n \in 1..3, d \in {-7, 0, 1000, 100000} :
        /\ ToolExactRev("lr", fi, o[1], o[2], o[3], Axis(n, d)[1], Axis(n, d)[2], Axis(n, d)[3])
        /\ v' = <<"t", "lr", fi, w, p, o[1], o[2], o[3]>> \o Axis(n, d)

Signs == {-1, 0, 1}
VecBox(C) ==
  \E fi \in InChunk(0..(NFam - 1), C), reg \in Regimes, sx \in Signs, sy \in Signs, sz \in Signs :
     \E k \in Scales(reg) : Compatible(reg, Class(fi), sx, sy, sz) /\ v' = <<"box", reg, fi, sx, sy, sz, k>>

Init == v = <<"root">>
Next ==
  \/ v = <<"root">> /\ \E c \in 0..(NChunks - 1) : v' = <<"chunk", c>>
  \/ /\ v[1] = "chunk"
     /\ CASE Part = "geo" -> VecGeo(v[2])
          [] Part = "loc" -> VecLoc(v[2])
          [] Part = "box" -> VecBox(v[2])
          [] Part = "obj" -> VecObj(v[2])
          [] Part = "tool" -> VecTool(v[2])
  \/ Part = "obj" /\ StepObj

(* ------------------------------ model invariants ------------------------- *)
\* Reverse o Forward = identity on principal answers; Forward o Reverse = identity on every exact answer
FwdInv ==
  v[1] = "gf" =>
    LET fi == v[2]  lat == v[3]  lon == v[4]  h == v[5]
        P == Fwd(fi, lat, lon, h)
        a == RevSpec(fi, P[1], P[2], P[3])
    IN /\ OnAxes(P[1], P[2], P[3])
       /\ Fwd(fi, lat, lon + 360, h) = P /\ Fwd(fi, lat, lon - 720, h) = P          \* periodic in longitude
       /\ Fwd(fi, -lat, lon, h) = <<P[1], P[2], -P[3]>>                               \* equatorial symmetry
       /\ Principal(fi, lat, h) =>
            /\ a.exact /\ a.latlo = lat /\ a.hlo = h
            /\ IF lat = 0 THEN \E l \in a.lons : SameMeridian(l, lon) ELSE a.lons = {0}
RevInv ==
  v[1] = "gr" =>
    LET fi == v[2]  a == RevSpec(fi, v[3], v[4], v[5]) IN
    /\ a.latlo <= a.lathi /\ a.hlo <= a.hhi /\ a.lons # {} /\ a.lons \subseteq {-180, -90, 0, 90, 180}
    /\ a.latlo >= -90 /\ a.lathi <= 90
    /\ a.exact => \A l \in a.lons : Fwd(fi, a.latlo, l, a.hlo) = <<v[3], v[4], v[5]>>
    \* the height never undercuts -(largest semi-axis); outside the singular sets it is the signed distance to the surface
    /\ a.hlo >= -Max(A, SemiB(fi))
    \* least |h|: no lattice surface point (the six ends of the axes) is closer than |h|
    /\ a.exact => \A n \in 1..3, s \in {-1, 1} :
         LET Q == Axis(n, s * (IF n = 3 THEN SemiB(fi) ELSE A))
             D == VSub(<<v[3], v[4], v[5]>>, Q)
         IN Abs(a.hlo) <= Abs(D[1]) + Abs(D[2]) + Abs(D[3])     \* l1 >= l2 distance >= |h|

\* rotation matrix: entries 0/+-1, orthonormal, right handed, columns east / north / up
RotInv ==
  v[1] = "gf" =>
    LET fi == v[2]  lat == v[3]  lon == v[4]  h == v[5]  M == Rot(lat, lon) IN
    /\ \A i \in 1..9 : M[i] \in {-1, 0, 1}
    /\ TMatMat(M, M) = Ident /\ Det(M) = 1
    /\ VSub(Fwd(fi, lat, lon, h + 1), Fwd(fi, lat, lon, h)) = Col(M, 3)                      \* up = d/dh
    /\ (lat = 0 => VSub(Fwd(fi, 0, lon + 90, 0), <<0, 0, 0>>) = <<A * Col(M, 1)[1], A * Col(M, 1)[2], A * Col(M, 1)[3]>>)   \* east
    /\ (lat = 0 => Col(M, 2) = <<0, 0, 1>>)                                                  \* north along the meridian
    /\ (lat # 0 => Col(M, 2) = <<-Sgn(lat) * CosD(lon), -Sgn(lat) * SinD(lon), 0>>)
    /\ Col(M, 1) = <<-SinD(lon), CosD(lon), 0>>

LocInv ==
  /\ v[1] = "lf" =>
       LET fi == v[2]  st == LocalState(fi, v[3], v[4], v[5])
           P == Fwd(fi, v[6], v[7], v[8])  p == LocalFwd(st, P) IN
       /\ LocalFwd(st, st.P0) = <<0, 0, 0>>                                        \* origin -> 0
       /\ \A d \in {-5, 1, 1000} : LocalFwd(st, Fwd(fi, v[3], v[4], v[5] + d)) = <<0, 0, d>>   \* z axis = normal at the origin
       /\ LocalToGeocentric(st, p) = P                                             \* Reverse inverts Forward
       /\ AbsBag(p) = AbsBag(VSub(P, st.P0))                                       \* rigid: all distances preserved
       /\ \A lon2 \in {0, 90} : LET Q == Fwd(fi, 0, lon2, 7) IN
             AbsBag(VSub(LocalFwd(st, Q), p)) = AbsBag(VSub(Q, P))
       /\ LET Ml == TMatMat(st.R0, Rot(v[6], v[7])) IN TMatMat(Ml, Ml) = Ident /\ Det(Ml) = 1
       /\ (v[3] = 0 /\ v[4] = 0 /\ v[5] = 0 => p = <<P[2], P[3], P[1] - A>>)         \* origin on the X axis: x east = Y, y north = Z
  /\ v[1] = "lr" =>
       LET fi == v[2]  st == LocalState(fi, v[3], v[4], v[5])  p == <<v[6], v[7], v[8]>>
           P == LocalToGeocentric(st, p) IN
       OnAxes(P[1], P[2], P[3]) /\ LocalFwd(st, P) = p

BoxInv ==
  /\ v[1] = "box" => Compatible(v[2], Class(v[3]), v[4], v[5], v[6]) /\ v[7] \in Scales(v[2])
  \* every regime of every class has a compatible box, and the classification is a function into Regimes + boundary
  /\ v[1] = "root" =>
       /\ \A cls \in {"sph", "obl", "pro"} : \A reg \in RegimesOfClass(cls) : \E sx \in Signs, sy \in Signs, sz \in Signs : Compatible(reg, cls, sx, sy, sz)
       /\ \A cls \in {"sph", "obl", "pro"}, ex \in {-70, 0, 54, 55, 900}, ev \in {-1, 1}, z0 \in BOOLEAN, r0 \in BOOLEAN :
            RegimeOf(cls, ex, ev, z0, r0) \in RegimesOfClass(cls)
       /\ Spheres \cup Oblates \cup Prolates = 0..(NFam - 1)
       /\ Spheres \cap Oblates = {} /\ Spheres \cap Prolates = {} /\ Oblates \cap Prolates = {}

\* the M overloads: the model of one call with a vector of length n
MvInv ==
  v[1] = "mv" => /\ v[2] \in MEntries /\ v[3] \in MSizes
                 /\ MWritten(v[3]) \in {0, MLen} /\ (MWritten(v[3]) = MLen <=> v[3] = MLen)
                 /\ MCallOK(<<v[3], MWritten(v[3]), TRUE>>)
                 /\ ~MCallOK(<<v[3], MLen - MWritten(v[3]), TRUE>>) /\ ~MCallOK(<<v[3], MWritten(v[3]), FALSE>>)
\* object histories: whatever the history, the object is the one a single general-form constructor call builds
\* (ellipsoid of its constructor, origin of its last constructor / Reset); defaults resolve to WGS84 and to 0
ObjInv ==
  v[1] = "obj" =>
    LET ops == v[2]  st == LcRun(ops, 0)  g == LcGeneral(ops, 0) IN
    /\ st # LcNone /\ ops[1][1] \in LcCtors /\ \A i \in 2..Len(ops) : ops[i][1] \notin LcCtors
    /\ g[1] = "c4" /\ st = LcRun(<<g>>, 0)
    /\ (ops[1][1] \in {"c3", "c2", "c0"} => st[1] = WGS)
    /\ (ops[LcLastSet(ops)][1] \in {"c2", "c1", "c0", "r2"} => st[4] = 0)
    /\ (ops[LcLastSet(ops)][1] \in {"c1", "c0"} => st[2] = 0 /\ st[3] = 0)
    /\ \A i \in 1..Len(ObjQueries(st)) : LcEnabled(st, ObjQueries(st)[i])
    \* the queries really are lattice queries of the model
    /\ \A i \in 1..Len(ObjQueries(st)) :
         LET q == ObjQueries(st)[i] IN
         IF q[1] = "fw" THEN OnAxes(Fwd(st[1], q[3], q[4], q[5])[1], Fwd(st[1], q[3], q[4], q[5])[2], Fwd(st[1], q[3], q[4], q[5])[3])
         ELSE LET P == LocalToGeocentric(LcLocal(st), <<q[3], q[4], q[5]>>) IN OnAxes(P[1], P[2], P[3])
    /\ (LcModelled(st) => LocalFwd(LcLocal(st), Fwd(st[1], st[2], st[3], st[4] + 5)) = <<0, 0, 5>>)

\* tool lines: three outputs, each a non-empty set of integers; forward lines have exactly one answer; -w only swaps the
\* two angles of a reverse line
ToolInv ==
  v[1] = "t" =>
    LET W == ToolWant(v[2], v[3], v[4], v[6], v[7], v[8], v[9], v[10], v[11])
        W0 == ToolWant(v[2], v[3], 0, v[6], v[7], v[8], v[9], v[10], v[11]) IN
    /\ v[2] \in ToolModes /\ Len(W) = 3 /\ \A i \in 1..3 : W[i][2] # {} /\ W[i][1] \in {"len", "ang"}
    /\ (v[2] \in {"gf", "lf"} => W = W0 /\ \A i \in 1..3 : W[i][1] = "len" /\ Cardinality(W[i][2]) = 1)
    /\ (v[2] \in {"gr", "lr"} => W[3] = W0[3] /\ W[3][1] = "len" /\ {W[1], W[2]} = {W0[1], W0[2]} /\ (v[4] = 1 => W[1] = W0[2]))
    /\ \A i \in 1..3 : ToolDigits(W[i][1], v[5]) = (IF W[i][1] = "ang" THEN v[5] + 5 ELSE v[5])

Emit == CASE v[1] \in {"root", "chunk"} -> TRUE
          [] v[1] = "obj" -> PrintT(ToJson(<<"obj", ObjRows(v[2], 1, LcNone)>>))
          [] OTHER -> PrintT(ToJson(v))
=============================================================================
