---------------------------- MODULE MC_GeodConstr ----------------------------
(* Lattice / model enumeration for the constructions built on geodesics (C17). *)
(*   root -> chunk c -> vectors.  Part =                                        *)
(*   "nn"  : NearestNeighbor instances with the integer metrics (point          *)
(*           multisets x order x bucket) and searches; model invariants:        *)
(*           every tree of Trees() passes TreeFails, the brute-force answer      *)
(*           satisfies the abstract search spec                                  *)
(*   "nnm" : (no vectors) the model of Search on EVERY valid tree meets the      *)
(*           abstract spec, for all queries and all queue orders                 *)
(*   "ix"  : pairs of lattice great circles x starts x origins x radii for      *)
(*           Closest / Next / Segment / All; model invariants: Meet() agrees     *)
(*           with the positions of SphereLattice, symmetry, Next candidates      *)
EXTENDS NearestNeighbor, IntersectLattice, TLC, Json

CONSTANTS Part, NChunks,
          NNMax,        \* largest number of points on the line 0..NNRange
          NNRange,
          NNGrid,       \* largest number of points on the 3 x 3 grid
          NQ,           \* searches per tree (sampled by a fixed arithmetic rule)
          NNDeep,       \* TRUE: the larger grid of query parameters in the model of Search
          NodeStep,     \* node longitudes of the lattice circles: multiples of NodeStep
          IxThin,       \* keep one of IxThin (pair, start, origin) combinations in the bulk families
          Ells          \* ellipsoids of the lattice intersections: 0 = unit-degree sphere; 1..4 = a = 180/pi, f = 0.1, -0.1, 0.2, -0.25
                        \* with the exact solver (only the equator, where one degree of longitude is still one metre)
VARIABLE v

InChunk(S, C) == {x \in S : x % NChunks = C}
B2 == {TRUE, FALSE}

(* ------------------------------ nearest neighbour ------------------------ *)
RECURSIVE Digits(_, _, _)
Digits(x, base, n) == IF n = 0 THEN <<>> ELSE <<x % base>> \o Digits(x \div base, base, n - 1)
NonDecr(s) == \A i \in 1..(Len(s) - 1) : s[i] <= s[i + 1]
RECURSIVE Pow(_, _)
Pow(b, n) == IF n = 0 THEN 1 ELSE b * Pow(b, n - 1)
\* multisets of size n over 0..(base-1), as sorted sequences, restricted to chunk C
Multisets(base, n, C) == {s \in {Digits(x, base, n) : x \in InChunk(0..(Pow(base, n) - 1), C)} : NonDecr(s)}
Reverse(s) == [i \in 1..Len(s) |-> s[Len(s) + 1 - i]]
Riffle(s) == SelectSeq([i \in 1..Len(s) |-> IF i % 2 = 1 THEN s[i] ELSE -1], LAMBDA x : x >= 0)
             \o SelectSeq([i \in 1..Len(s) |-> IF i % 2 = 0 THEN s[i] ELSE -1], LAMBDA x : x >= 0)
Orders(s) == {s, Reverse(s), Riffle(s)}
Buckets == {0, 1, 2, 4}

RECURSIVE SumSeq(_, _)
SumSeq(s, i) == IF i > Len(s) THEN 0 ELSE (i + 2) * (s[i] + 1) + SumSeq(s, i + 1)
Hash(m, b, s, j) == 7919 * j + 104729 * SumSeq(s, 1) + 31 * b + 17 * m + 13 * Len(s)
Pick(S, h) == S[(h % Len(S)) + 1]
QLine == <<-1, 0, 1, 2, 3, 4, 5, 6, 7>>
QGrid == <<0, 1, 2, 3, 4, 5, 6, 7, 8>>
KS == <<1, 2, 3, 1, 2, 5, 0>>
MaxS == <<-1, -1, 0, 1, 2, 3, 5>>        \* -1 = the default (largest dist_t)
MinS == <<-1, -1, 0, 1, 2, 4>>
TolS == <<0, 0, 0, 1, 2>>
Search(m, b, s, j) ==
  LET h == Hash(m, b, s, j) IN
  <<"nns", m, b, Pick(IF m = 1 THEN QGrid ELSE QLine, h), Pick(KS, h \div 9), Pick(MaxS, h \div 63), Pick(MinS, h \div 441),
    (h \div 2646) % 2 = 0, Pick(TolS, h \div 5292), s>>

PointSets(C) ==
  (UNION {{<<0, s>> : s \in UNION {Orders(t) : t \in Multisets(NNRange + 1, n, C)}} : n \in 0..NNMax})
  \cup (UNION {{<<1, s>> : s \in UNION {Orders(t) : t \in Multisets(9, n, C)}} : n \in 1..NNGrid})
  \cup (IF C = 0 THEN {<<2, <<1, 2, 3, 3, 4>> >>, <<2, <<5, 5, 5>> >>} ELSE {})

VecNN(C) ==
  \E ms \in PointSets(C), b \in Buckets :
     \/ v' = <<"nnt", ms[1], b, ms[2]>>
     \/ \E j \in 1..NQ : v' = Search(ms[1], b, ms[2], j)

VecNNM(C) ==
  \E ms \in PointSets(C), b \in Buckets :
     \E q \in (IF ms[1] = 1 THEN {0, 4, 5} ELSE {-1, 1, 2, NNRange}) :
       /\ NonDecr(ms[2]) /\ Len(ms[2]) >= 1            \* every order gives the same set of valid trees: keep the sorted one
       /\ v' = <<"nnm", ms[1], b, ms[2], q>>

DMat(m, s) == [i \in 1..Len(s) |-> [j \in 1..Len(s) |-> Dist(m, s[i], s[j])]]
DQ(m, s, q) == [i \in 1..Len(s) |-> Dist(m, s[i], q)]
Inf == 1000000

\* the k nearest candidates chosen greedily (a brute-force scan)
RECURSIVE Greedy(_, _, _)
Greedy(dq, C, k) ==
  IF k <= 0 \/ C = {} THEN {} ELSE LET i == CHOOSE i \in C : \A j \in C : dq[i] <= dq[j] IN {i} \cup Greedy(dq, C \ {i}, k - 1)

NNInv ==
  /\ v[1] = "nnt" =>
       LET s == v[4]  n == Len(s)  D == DMat(v[2], s)
           T == IF n = 0 THEN {<<>>} ELSE Trees(0..(n - 1), v[3], D, 0)
       IN /\ T # {}
          /\ \A t \in T : TreeFails(t, D, n, v[3]) = <<>>
          \* metric axioms of the model metrics (the class demands them)
          /\ \A i, j, k \in 1..n : D[i][j] = D[j][i] /\ D[i][k] <= D[i][j] + D[j][k] /\ (D[i][j] = 0) = (s[i] = s[j])
  /\ v[1] = "nns" =>
       LET dq == DQ(v[2], v[10], v[4])  maxd == IF v[6] < 0 THEN Inf ELSE v[6]
           G == Greedy(dq, Cands(dq, v[7], maxd), v[5])
       IN SetOK(dq, v[5], v[7], maxd, TRUE, 0, G) /\ SetOK(dq, v[5], v[7], maxd, FALSE, 0, G)

NNModelInv ==
  v[1] = "nnm" =>
    LET m == v[2]  b == v[3]  s == v[4]  n == Len(s)  D == DMat(m, s)  dq == DQ(m, s, v[5]) IN
    \A t \in Trees(0..(n - 1), b, D, 0) :
      \A k \in 1..3, maxd \in (IF NNDeep THEN {Inf, 0, 1, 2, 4} ELSE {Inf, 1, 2}), mind \in (IF NNDeep THEN {-1, 0, 1, 3} ELSE {-1, 0, 1}),
         exh \in B2, tol \in (IF NNDeep THEN {0, 1, 2} ELSE {0, 1}) :
        \A S \in SearchResults(t, dq, k, maxd, mind, exh, tol) : SetOKModel(dq, k, mind, maxd, exh, tol, S)

(* ------------------------------ intersections ----------------------------- *)
Nodes == {NodeStep * i : i \in 0..((360 \div NodeStep) - 1)}
Circles == {<<inc, node>> : inc \in {0, 180, 90} \cup Obliques, node \in Nodes}
Plain(A) == A[1] \in {0, 90, 180}
Starts(A) == IF Plain(A) THEN {s \in {0, 20, -65, 130, 180, 275} : Startable(A, s)} ELSE {0, 90, 180, 270}
Origins == {<<0, 0>>, <<70, -30>>, <<-200, 95>>, <<180, 180>>, <<45, 45>>, <<-361, 0>>}
PHash(A, sA, B, sB, p) == 3 * A[1] + 5 * (A[2] \div NodeStep) + 7 * B[1] + 11 * (B[2] \div NodeStep) + 13 * (sA + 400) + 17 * (sB + 400) + 19 * (p[1] + 400) + 23 * (p[2] + 400)
Geo(A, sA) == <<PLat(A, sA), PLon(A, sA), PAzi(A, sA)>>
Pairs(C) == {ab \in Circles \X Circles : (ab[1][1] + 3 * (ab[1][2] \div NodeStep) + 5 * ab[2][1] + 7 * (ab[2][2] \div NodeStep)) % NChunks = C}

SegEnds(A, sA, lA, B, sB, lB) ==
  <<PLat(A, sA), PLon(A, sA), PLat(A, sA + lA), PLon(A, sA + lA), PLat(B, sB), PLon(B, sB), PLat(B, sB + lB), PLon(B, sB + lB)>>

VecIX(C) ==
  \E ab \in Pairs(C) :
    LET A == ab[1]  B == ab[2]  m == Meet(A, B) IN
    \/ /\ m.kind = "cross"
       /\ \E sA \in Starts(A), sB \in Starts(B) :
            \/ \E p \in Origins : PHash(A, sA, B, sB, p) % IxThin = 0 /\ v' = <<"ic", A, sA, B, sB, Geo(A, sA) \o Geo(B, sB), p, 0, 0>>
            \/ \E p \in {<<0, 0>>, <<70, -30>>}, R \in {100, 250, 400, 541} :
                 PHash(A, sA, B, sB, <<p[1] + R, p[2]>>) % IxThin = 0 /\ v' = <<"ia", A, sA, B, sB, Geo(A, sA) \o Geo(B, sB), p, R, 0>>
    \/ /\ m.kind = "cross"            \* Next: both lines start at an intersection
       /\ \E i \in {0, 1} :
            LET sA == m.a0 + 180 * i  sB == m.b0 + 180 * i IN
            Startable(A, sA) /\ Startable(B, sB) /\ v' = <<"in", A, sA, B, sB, Geo(A, sA) \o Geo(B, sB), <<0, 0>>, 0, 0>>
    \/ /\ m.kind = "cross"            \* Segment: arcs [s, s + len] of each circle, len < 180
       /\ \E sA \in Starts(A) \cup {m.a0, m.a0 - 40, m.a0 - 90}, sB \in Starts(B) \cup {m.b0, m.b0 - 100, m.b0 - 90},
             lA \in (IF Plain(A) THEN {40, 100, 179} ELSE {90}), lB \in (IF Plain(B) THEN {40, 100, 179} ELSE {90}) :
            /\ Startable(A, sA) /\ Startable(A, sA + lA) /\ Startable(B, sB) /\ Startable(B, sB + lB)
            /\ PHash(A, sA, B, sB, <<lA, lB>>) % (IF sA \in {m.a0, m.a0 - 40, m.a0 - 90} /\ sB \in {m.b0, m.b0 - 100, m.b0 - 90}
                                                    THEN (IxThin \div 6) + 1 ELSE IxThin) = 0
            /\ v' = <<"is", A, sA, lA, B, sB, lB,
                      SegEnds(A, sA, lA, B, sB, lB), 0>>
    \/ /\ m.kind = "coin" /\ Plain(A) /\ Plain(B)     \* coincident circles: equator / meridians only (exact in floating point)
       /\ \E ell \in Ells :
          /\ ell > 0 => Equatorial(A) /\ Equatorial(B)
          /\ \/ \E sA \in Starts(A), sB \in Starts(B), p \in Origins :
                  PHash(A, sA, B, sB, p) % ((IF ell = 0 THEN 1 ELSE 2) * ((IxThin \div 2) + 1)) = 0
                  /\ v' = <<"ic", A, sA, B, sB, Geo(A, sA) \o Geo(B, sB), p, 0, ell>>
             \* Next: both lines start at one point of the common circle
             \/ \E sA \in Starts(A) : LET sB == m.c * sA + m.off IN
                  /\ Startable(B, sB) /\ (ell = 0 \/ PHash(A, sA, B, sB, <<0, 0>>) % 3 = 0)
                  /\ v' = <<"in", A, sA, B, sB, Geo(A, sA) \o Geo(B, sB), <<0, 0>>, 0, ell>>
             \* Segment: two pieces of the common circle; Y starts at the point of X's circle at arc sA + u (before, inside, at the ends
             \* of, beyond X) and runs in B's direction: overlapping, nested, touching and disjoint pieces in both orientations
             \/ \E sA \in Starts(A), lA \in (IF ell = 0 THEN {40, 100, 179} ELSE {40, 100}), lB \in {40, 100} :
                \E u \in {-60, -20, 0, 10, 70, 150} \cup {lA, lA + 30, -lB, lA - lB} :
                  LET sB == m.c * (sA + u) + m.off IN
                  /\ Startable(A, sA) /\ Startable(A, sA + lA) /\ Startable(B, sB) /\ Startable(B, sB + lB)
                  /\ PHash(A, sA, B, sB, <<lA, lB>>) % (IF ell = 0 THEN (IxThin \div 2) + 1 ELSE IxThin + 1) = 0
                  /\ v' = <<"is", A, sA, lA, B, sB, lB, SegEnds(A, sA, lA, B, sB, lB), ell>>
    \* Next on one geodesic taken twice, started at a vertex (extreme latitude, heading east or west): every integer latitude
    \/ /\ ab[1] = <<0, 0>> /\ ab[2][1] = 0
       /\ \E ell \in Ells, lat \in {x \in -89..89 : x % (360 \div NodeStep) = ab[2][2] \div NodeStep}, lon \in {20, -135}, azi \in {90, -90}, c \in {1, -1} :
            v' = <<"nv", ell, lat, lon, azi, c>>

SamePoint(A, s, B, t) == PLat(A, s) = PLat(B, t) /\ (Abs(PLat(A, s)) = 90 \/ PLon(A, s) = PLon(B, t))
IXInv ==
  /\ v[1] = "nv" => v[3] \in -89..89 /\ v[5] \in {90, -90} /\ v[6] \in {1, -1}
  /\ v[1] \in {"ic", "ia", "in"} =>
    LET A == v[2]  sA == v[3]  B == v[4]  sB == v[5]  m == Meet(A, B)  mr == Meet(B, A) IN
    IF m.kind = "cross" THEN
      LET x0 == m.a0 - sA  y0 == m.b0 - sB  p0 == v[7] IN
      /\ IsLattice(A[1], m.a0) /\ IsLattice(B[1], m.b0)
      /\ \A i \in 0..1 : SamePoint(A, m.a0 + 180 * i, B, m.b0 + 180 * i)           \* the two arcs name the same point
      /\ ~SamePoint(A, m.a0, B, m.b0 + 180)
      /\ mr.kind = "cross" /\ (mr.a0 - m.b0) % 180 = 0 /\ (mr.b0 - m.a0) % 180 = 0 /\ (mr.a0 - m.b0) % 360 = (mr.b0 - m.a0) % 360
      /\ ClosestSet(x0, y0, 180, p0) # {}
      /\ ClosestSet(y0, x0, 180, <<p0[2], p0[1]>>) = {<<p[2], p[1]>> : p \in ClosestSet(x0, y0, 180, p0)}     \* X <-> Y symmetry
      /\ \A p \in ClosestSet(x0, y0, 180, p0) : L1(p, p0) <= 180 /\ SamePoint(A, sA + p[1], B, sB + p[2])
      /\ \A p \in Within(x0, y0, 180, p0, v[8]) : SamePoint(A, sA + p[1], B, sB + p[2])
      /\ (v[1] = "in" => x0 % 180 = 0 /\ y0 % 180 = 0 /\ SamePoint(A, sA, B, sB)
                         /\ NextSet(x0, y0, 180) = {<<180, 180>>, <<180, -180>>, <<-180, 180>>, <<-180, -180>>,
                                                     <<360, 0>>, <<-360, 0>>, <<0, 360>>, <<0, -360>>})
    ELSE
      /\ m.kind = "coin" /\ mr.kind = "coin" /\ mr.c = m.c
      /\ v[9] > 0 => Equatorial(A) /\ Equatorial(B)
      /\ \A s \in {0, 30, 100, 200} : LET t == m.c * s + m.off IN
           Startable(A, s) /\ Startable(B, t) => SamePoint(A, s, B, t) /\ PAzi(B, t) = (IF m.c = 1 THEN PAzi(A, s) ELSE Norm180(PAzi(A, s) + 180))
      \* Next: both lines start at one point, the coincidence line passes through the origin
      /\ v[1] = "in" => SamePoint(A, sA, B, sB) /\ CoinK0(m, sA, sB) = 0
                         /\ PAzi(B, sB) = (IF m.c = 1 THEN PAzi(A, sA) ELSE Norm180(PAzi(A, sA) + 180))

SegInv ==
  v[1] = "is" =>
    LET m == Meet(v[2], v[5]) IN
    IF m.kind = "cross" THEN
      LET S == SegmentSet(2 * (m.a0 - v[3]), 2 * (m.b0 - v[6]), 2 * v[4], 2 * v[7]) IN
      /\ S # {}
      /\ \A a \in S : a[1][1] % 2 = 0 /\ a[1][2] % 2 = 0 /\ SamePoint(v[2], v[3] + a[1][1] \div 2, v[5], v[6] + a[1][2] \div 2)
      /\ (\E a \in S : a[2] = 0) => \A a \in S : InBoth(a[1], 2 * v[4], 2 * v[7])
    ELSE
      \* pieces of one circle: the admissible answers (on the doubled integer lattice) exist, are common points of the two circles,
      \* lie inside both pieces whenever the pieces overlap (and only then can segmode be 0 away from the ends), and the
      \* specification is symmetric under the exchange of X and Y
      LET A == v[2]  sA == v[3]  B == v[5]  sB == v[6]  SX == 2 * v[4]  SY == 2 * v[7]
          Ks == CoinKs(m, sA, sB)  S == SegCoinSet(m.c, Ks, SX, SY)
          mr == Meet(B, A)  Kr == CoinKs(mr, sB, sA)
          ov == Overlap(m.c, Ks, SX, SY)
          inner(p) == p[1] > 0 /\ p[1] < SX /\ p[2] > 0 /\ p[2] < SY
      IN /\ m.kind = "coin" /\ mr.kind = "coin" /\ mr.c = m.c
         /\ v[9] > 0 => Equatorial(A) /\ Equatorial(B)
         /\ S # {}
         /\ \A a \in S : (a[1][1] % 2 = 0 /\ a[1][2] % 2 = 0) => SamePoint(A, sA + a[1][1] \div 2, B, sB + a[1][2] \div 2)
         /\ ov = Overlap(mr.c, Kr, SY, SX) /\ Touch(m.c, Ks, SX, SY) = Touch(mr.c, Kr, SY, SX)
         /\ \A a \in S : SegCoinOK(<<a[1][2], a[1][1]>>, 3 * (((a[2] + 4) % 3) - 1) + (((a[2] + 4) \div 3) - 1), mr.c, Kr, SY, SX)
         /\ ov => \A a \in S : InBoth(a[1], SX, SY)
         /\ ov => \E a \in S : a[2] = 0 /\ inner(a[1])
         /\ ~ov => \A a \in S : ~inner(a[1]) /\ (a[2] = 0 => Touch(m.c, Ks, SX, SY))

Init == v = <<"root">>
Next ==
  \/ v = <<"root">> /\ \E c \in 0..(NChunks - 1) : v' = <<"chunk", c>>
  \/ /\ v[1] = "chunk"
     /\ CASE Part = "nn" -> VecNN(v[2]) [] Part = "nnm" -> VecNNM(v[2]) [] Part = "ix" -> VecIX(v[2])

Emit == v[1] \notin {"root", "chunk", "nnm"} => PrintT(ToJson(v))
=============================================================================
