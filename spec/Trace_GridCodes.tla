---------------------------- MODULE Trace_GridCodes ----------------------------
(* Validates an observation trace of the real Geohash/GARS/Georef/OSGB code   *)
(* against GridCodes.  One record per line:                                    *)
(*   enc: lattice position (Eps numbers), precision -> outcome, code          *)
(*   dec: byte string, centerp -> outcome, precision, coordinates (fine units)*)
(*   rt : random position: code, lower-precision codes, decode, re-encode      *)
(*   nan: NaN position -> INVALID marker -> NaN                                *)
EXTENDS GridCodes, TraceKit

CONSTANT NB
VARIABLE l

LowerS(s) == [i \in 1..Len(s) |-> Lower(s[i])]
EffPrec(s, p) ==
  CASE s = "geohash" -> Clamp(p, 0, 18) [] s = "gars" -> Clamp(p, 0, 2)
    [] s = "georef" -> GeorefPrec(p) [] s = "osgb" -> p

PrefixOK(s, lo, hi) ==
  IF s \in {"geohash", "gars"} THEN IsPrefixOf(lo, hi)
  ELSE LET h == IF s = "georef" THEN 4 ELSE 2
           pl == (Len(lo) - h) \div 2     ph == (Len(hi) - h) \div 2
       IN IF Len(lo) <= h THEN IsPrefixOf(lo, hi)
          ELSE /\ Len(hi) >= h + 2 * pl
               /\ SubSeq(lo, 1, h) = SubSeq(hi, 1, h)
               /\ SubSeq(lo, h + 1, h + pl) = SubSeq(hi, h + 1, h + pl)
               /\ SubSeq(lo, h + pl + 1, h + 2 * pl) = SubSeq(hi, h + ph + 1, h + ph + pl)

\* expected decode result in the trace's representation
DecExpect(s, code, c) ==
  LET r == Dec(s, code, c) IN
  IF r[1] # "ok" THEN r
  ELSE IF s = "gars" THEN <<"ok", r[2], <<0, r[3]>>, <<0, r[4]>> >> ELSE r

EncOK(r) ==
  LET O == Enc(r.s, NB, r.a, r.b, r.p) IN
  IF r.out = "throw" THEN <<"throw">> \in O /\ r.untouched
  ELSE r.out = "ok" /\ <<"ok", r.code>> \in O

DecOK(r) ==
  LET x == DecExpect(r.s, r.code, r.c) IN
  CASE x[1] = "throw" -> r.out = "throw" /\ r.untouched
    [] x[1] = "nan"   -> r.out = "nan" /\ r.p = (IF r.s = "osgb" THEN -2 ELSE -77)
    [] x[1] = "ok"    -> r.out = "ok" /\ r.grid /\ r.p = x[2] /\ r.x = x[3] /\ r.y = x[4]

Tol == 4   \* ulps of slack on the half-cell containment of round trips
RtOK(r) ==
  /\ r.out = "ok" /\ r.dout = "ok"
  /\ r.dp = EffPrec(r.s, r.p)
  /\ InAlphabet(r.s, r.code)
  /\ \A i \in 1..Len(r.lower) : PrefixOK(r.s, r.lower[i], r.code)
  /\ \A i \in 1..(Len(r.lower) - 1) : PrefixOK(r.s, r.lower[i], r.lower[i + 1])
  /\ r.recode = r.code
  /\ r.ex[1] <= Tol /\ r.ex[2] <= Tol /\ r.exsw[1] <= Tol /\ r.exsw[2] <= Tol
  /\ r.caseeq
  /\ Dec(r.s, r.code, TRUE)[1] = "ok"          \* the spec's decoder accepts it too

INVALID == <<73, 78, 86, 65, 76, 73, 68>>
NanOK(r) ==
  /\ r.out = "ok" /\ UpperS(r.code) = INVALID
  /\ r.dout = "ok" /\ r.isnan
  /\ r.dp = (IF r.s = "osgb" THEN -2 ELSE -77)

Obligation(r) ==
  CASE r.e = "enc" -> EncOK(r)
    [] r.e = "dec" -> DecOK(r)
    [] r.e = "rt"  -> RtOK(r)
    [] r.e = "nan" -> NanOK(r)
    [] OTHER -> FALSE

Expected(r) ==
  CASE r.e = "enc" -> Enc(r.s, NB, r.a, r.b, r.p)
    [] r.e = "dec" -> DecExpect(r.s, r.code, r.c)
    [] OTHER -> <<>>

Init == l = 1 /\ KitInit
Next == /\ l <= NT
        /\ Require(Obligation(T[l]), l, T[l].e \o "-" \o T[l].s, Expected(T[l]))
        /\ Consumed(l)
        /\ l' = l + 1
=============================================================================
