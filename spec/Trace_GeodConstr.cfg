INIT Init
NEXT Next
CONSTANTS TolRound = 20 TolAzi = 1000 TolScale = 20 RegionMax = 900000 SnCoin = 1000 DupSep = 1000000 OvlMargin = 1000 TolLat = 10
POSTCONDITION Summary
CHECK_DEADLOCK FALSE
