----------------------------- MODULE PolygonOps -----------------------------
(* Operations of the polygon object on the lattice (shared by the model and  *)
(* the trace specification): how each public call transforms the abstract     *)
(* state <<verts, hows>> and what the queries must return.                    *)
EXTENDS Polygon

\* vertices and equatorial edges used by the tentative queries (fixed order, shared with the driver)
\* (the last one is a pole whose nominal longitude is a positive multiple of 360: from a vertex at longitude +180 the
\*  longitude difference is then +180 with the target congruent to 0 - the "180 -> 360" case of the crossing count)
TestVerts == << <<"N", 30>>, <<"S", -45>>, <<"E", 0>>, <<"E", 180>>, <<"E", -91>>, <<"E", 200>>, <<"S", 720>> >>
TestEdges == << <<1, 90>>, <<-1, 181>>, <<1, 359>> >>
Flags == << <<FALSE, FALSE>>, <<FALSE, TRUE>>, <<TRUE, FALSE>>, <<TRUE, TRUE>> >>
TestFlags == << <<FALSE, FALSE>>, <<TRUE, TRUE>> >>

AddPointS(verts, hows, p) == <<Append(verts, p), Append(hows, <<"pt">>)>>
\* AddEdge does nothing on an empty polygon; on the lattice it is used only from an equator point
AddEdgeOK(verts) == verts # <<>> /\ verts[Len(verts)][1] = "E"
AddEdgeS(verts, hows, dir, s) ==
  LET p == verts[Len(verts)] IN <<Append(verts, <<"E", p[2] + dir * s>>), Append(hows, <<"ed", dir, s>>)>>

(* (Finding C08-F1 of the strengthening round - a shortest-line leg from a longitude written 360, 720, ... to one congruent   *)
(* to 180 gave an area off by half the ellipsoid - was repaired in /repo by 3e749e6; the guard that suspended the area           *)
(* obligation for those histories has been removed, so the repaired behaviour is now demanded.)                                  *)

\* expected result of Compute: <<num, perimeter, set of admissible areas or {} when not determined>>
ComputeExp(verts, hows, polyline, reverse, sign) ==
  LET n == Len(verts) IN
  IF n < 2 THEN <<n, 0, {0}>>
  ELSE IF polyline THEN <<n, Perimeter(verts, hows, FALSE), {}>>
  ELSE IF Ambiguous(verts, hows, TRUE) THEN <<n, -1, {}>>
  ELSE <<n, Perimeter(verts, hows, TRUE),
         IF Simple(verts, hows) \/ Len(RealEdges(verts, hows)) <= 2
         THEN Reported(AreaCCW(verts, hows), reverse, sign)
         ELSE ReportedMod360(AreaCCW(verts, hows), reverse, sign)>>
=============================================================================
