---------------------------- MODULE Trace_AuxEll ----------------------------
(* Validates observations of AuxLatitude / Ellipsoid / EllipticFunction (C15). *)
EXTENDS EllipsoidLaws, TraceKit
VARIABLE l

Obligation(r) ==
  CASE r.e = "cv" -> CvOK(r)
    [] r.e = "den" -> CvRandomOK(r)
    [] r.e = "rtp" -> RtpOK(r)
    [] r.e = "se" -> SeOK(r)
    [] r.e = "odd" -> OddOK(r)
    [] r.e = "mono" -> MonoOK(r)
    [] r.e = "path" -> IF r.fi >= 0 THEN PathLatticeOK(r) ELSE PathOK(r)
    [] r.e = "taux" -> TauxOK(r)
    [] r.e = "tdp" -> TdpOK(r)
    [] r.e = "ang" -> AngOK(r)
    [] r.e = "angl" -> AngLatticeOK(r)
    [] r.e = "sing" -> SingOK(r)
    [] r.e = "rad" -> RadOK(r)
    [] r.e = "dd" -> DdOK(r)
    [] r.e = "elq" -> ElqOK(r)
    [] r.e = "elm" -> ElmOK(r)
    [] r.e = "ell" -> EllOK(r)
    [] r.e = "elf" -> ElfOK(r)
    [] r.e = "ec" -> EcOK(r) /\ (Has(r, "par") => ParFieldsOK(r))
    [] r.e = "ei" -> EiOK(r) /\ (Has(r, "par") => ParFieldsOK(r))
    [] r.e = "ej" -> EjOK(r) /\ (Has(r, "par") => ParFieldsOK(r))
    [] r.e = "rc" -> IF r.lat = 1 THEN RcLatticeOK(r) ELSE RcOK(r)
    [] OTHER -> FALSE

Expected(r) ==
  CASE r.e \in {"cv", "den", "rtp", "taux", "tdp", "rad", "elq", "elm", "elf"} -> <<"TolTan", TolTan(r.F)>>
    [] r.e \in {"se", "odd", "mono", "path"} -> <<"TolTan", TolTan(r.F), "TolSer", TolSer(r.a, r.b)>>
    [] r.e = "ell" -> <<"TolAng", TolAng(r.F)>>
    [] r.e \in {"ec", "ei"} -> <<"E3Tol", E3Tol(r)>>
    [] OTHER -> <<>>

Init == l = 1 /\ KitInit
Next == /\ l <= NT
        /\ Require(Obligation(T[l]), l, "c15-" \o T[l].e, Expected(T[l]))
        /\ Consumed(l)
        /\ l' = l + 1
=============================================================================
