INIT Init
NEXT Next
CONSTANTS MaxLen = 5
INVARIANTS Homomorphism Involution Abelian Emit
CHECK_DEADLOCK FALSE
