---------------------------- MODULE Trace_Harmonic ----------------------------
(* Validates observations of the harmonic / gravity / magnetic classes (C19) against Harmonic.tla.  *)
(* Lattice records (idx, co, rd, cap, val, mag, grv, ngl) are recomputed exactly.  Law records carry *)
(* residuals reduced by the driver to integers in units of eps * scale (eps = 2^-52, scale = the      *)
(* magnitude bound of the quantity, stated per law below); tolerances, guards and decisions are here. *)
EXTENDS Harmonic, TraceKit

CONSTANTS
  TolLat,   \* lattice values: |e| <= TolLat (1 + |v|), e in units 2^-46; round-off of an exact dyadic result
  CV,       \* harmonic value: |V - defining sum| <= CV (N + 8) eps S0, S0 = sum |c_nm| q^(n+1) sup|P_nm|   (Clenshaw, N terms)
  CG,       \* gradient:       |grad - grad of defining sum| <= CG (N + 8) eps S1, S1 = sum |c_nm| q^(n+1) sup|P_nm| sqrt2 (n+1)/r
  TolC,     \* a handful of elementary operations (hypot, atan2, products, rotations): TolC eps scale
  TolNG,    \* closed formulas of normal gravity ("full machine precision", ~50 operations): TolNG eps scale
  TolNewton,\* J2ToFlattening: Newton iteration stopped at |residual| < sqrt(eps)/100, quadratic convergence
  TolFDO    \* gradient of the closed formula by 4th order differences in long double: 1e-11 relative = 45036 eps
VARIABLE l

Deg(r) == IF r.n < 0 THEN 0 ELSE r.n
TolV(n) == CV * (n + 8)
TolG(n) == CG * (n + 8)
AllLE(r, fs, tol) == \A f \in fs : r[f] >= 0 /\ r[f] <= tol

(* ---------------------------------------------------------------- lattice records *)
Iota(n) == [k \in 1..n |-> k - 1]
IdxOK(r) ==
  LET L == CList(r.N, r.M)  S == SList(r.N, r.M) IN
  /\ r.out = "ok" /\ r.csize = Csize(r.N, r.M) /\ r.ssize = Ssize(r.N, r.M)
  /\ r.cl = Codes(L, 0) /\ r.sl = Codes(S, 1)
  /\ r.ix = [k \in 1..Len(L) |-> Index(r.N, L[k][1], L[k][2])] /\ r.ix = Iota(Len(L))
  /\ r.cv = r.cl /\ r.sv = r.sl
CoOK(r) ==
  LET o == CoeffOutcome(r.N, r.nmx, r.mmx, r.csz, r.ssz) IN
  /\ r.out = o /\ (o = "ok" => r.rN = r.N /\ r.rnmx = r.nmx /\ r.rmmx = r.mmx)
  /\ r.out1 \in {"skip", o}
RdOK(r) ==
  LET x == ReadSpec(r.N0, r.M0, r.N, r.M, r.tr) IN
  IF x[1] = "throw" THEN r.out = "throw"
  ELSE r.out = "ok" /\ r.rN = x[2] /\ r.rM = x[3] /\ r.c = x[4] /\ r.s = x[5] /\ r.pos
CapOK(r) ==
  /\ \A fn \in Fns : r[fn] = Avail(fn, r.req, r.h0)
  /\ r.gravity_all = ~Avail("gravity", r.req, r.h0)
  \* "If an unsupported function is invoked, it will return NaNs": every output, also the vector components
  /\ \A fn \in {"w", "v", "disturbance", "tgrad", "anomaly"} : r[fn \o "_all"] = ~Avail(fn, r.req, r.h0)
  /\ r.capsall = (Cardinality(Prim(r.req, r.h0)) = 6)

\* a lattice number is the pair <<k, e>>: value 2^16 = k + e 2^-30
LatOK(s, i, expect) ==
  LET k == s[2 * i - 1]  e == s[2 * i] IN k = expect /\ e <= TolLat * (1 + Abs(k) \div 65536) /\ -e <= TolLat * (1 + Abs(k) \div 65536)
LatSeq(s, x) == Len(s) = 2 * Len(x) /\ \A i \in 1..Len(x) : LatOK(s, i, x[i])
\* every constructor form of every class must produce the object that the general form documents (CtorOutcome, then the lattice
\* value); the driver expresses the coefficients in the normalisation r.wn, which must be the one the call denotes
ValOK(r) ==
  LET V == ValNum(r, r.pt, r.j)  G == GradNum(r, r.pt, r.j, r.ja)  o == CtorOutcome(r)
      four(s) == Len(s) = 8 /\ LatOK(s, 1, V) /\ LatOK(s, 2, G[1]) /\ LatOK(s, 3, G[2]) /\ LatOK(s, 4, G[3])
  IN /\ r.wn = NormEff(r.norm, HarmNormDefault) /\ (r.ct = "simple" => SimpleApplicable(r)) /\ r.ct \in {"simple", "general"}
     /\ r.out = o
     /\ (o = "ok" => four(r.d) /\ four(r.cg) /\ Len(r.v) = 2 /\ LatOK(r.v, 1, V) /\ Len(r.cn) = 2 /\ LatOK(r.cn, 1, V))
MagOK(r) ==
  IF MagOutcome(r) = "throw" THEN r.out = "throw"
  ELSE
    LET g == MagEff(r)  seg == Segment(g)  B == MagB(g, seg)  Bt == MagBt(g, seg)
        \* named rule KnotRate: exactly at an interior knot the rate of either adjacent segment is admitted
        knot == g.tq % (4 * g.dt0) = 0 /\ seg >= 1 /\ g.tq \div (4 * g.dt0) = seg
        Bt2 == IF knot THEN MagBt(g, seg - 1) ELSE Bt
        six(s) == /\ Len(s) = 12 /\ LatOK(s, 1, B[1]) /\ LatOK(s, 2, B[2]) /\ LatOK(s, 3, B[3])
                  /\ \/ LatOK(s, 4, Bt[1]) /\ LatOK(s, 5, Bt[2]) /\ LatOK(s, 6, Bt[3])
                     \/ LatOK(s, 4, Bt2[1]) /\ LatOK(s, 5, Bt2[2]) /\ LatOK(s, 6, Bt2[3])
    IN /\ r.wn = MagNorm(r)
       /\ r.out = "ok" /\ six(r.b) /\ six(r.cb) /\ r.deg = MagDegree(g) /\ r.ord = MagOrder(g)
       \* inspectors: the documented values for absent keywords
       /\ r.desc = Meta(r.meta, MagKeyDefault, "Description") /\ r.date = Meta(r.meta, MagKeyDefault, "ReleaseDate")
       /\ r.name = (IF "Name" \in DOMAIN r.meta THEN r.meta.Name ELSE r.fname)
\* gravity model lattice: a synthetic file over a non-rotating spherical reference body (Harmonic.tla section 6)
GrvLOK(r) ==
  IF GrvOutcome(r) = "throw" THEN r.out = "throw"
  ELSE
    LET x == GrvExp(r) IN
    /\ r.wn = GrvNorm(r) /\ r.out = "ok" /\ r.deg = GrvDegree(r) /\ r.ord = GrvOrder(r)
    /\ \A f \in {"pv", "pw", "pu", "pt1", "pt", "gg", "gd", "gn", "ga", "cv", "cw", "cg", "cd", "ct1", "ct", "cn", "ca", "gx", "cx"} : LatSeq(r[f], x[f])
    /\ r.desc = Meta(r.meta, GrvKeyDefault, "Description") /\ r.date = Meta(r.meta, GrvKeyDefault, "ReleaseDate")
    /\ r.name = (IF "Name" \in DOMAIN r.meta THEN r.meta.Name ELSE r.fname)
    /\ r.insp                                                        \* the inspectors return the values of the file
NglOK(r) ==
  /\ r.out = "ok"
  /\ (r.n >= 0 => LatSeq(r.jn, <<NgJn(r.n)>>)) /\ r.jnfin                           \* named rule NoSuchCoefficient for n < 0
  /\ LatSeq(r.u, Four(NgU(r), NgUg(r))) /\ LatSeq(r.v0, Four(NgU(r), NgUg(r))) /\ LatSeq(r.phi, <<0, 0, 0>>)
  /\ LatSeq(r.sg, <<NgSurf(r), NgSurf(r), NgSurf(r)>>)                               \* SurfaceGravity(lat), gamma_e, gamma_p
  /\ LatSeq(r.gl, <<NgU(r), 0, ToENU(MPT[r.p], NgUg(r))[3]>>)                         \* Gravity(lat, h): U, gamma_y, gamma_z
  /\ LatSeq(r.cst, <<NgU0(r), 0, 0, 0, 0, 0>>)                                        \* U0, J2, f, f*, FlatteningToJ2, J2ToFlattening

(* ---------------------------------------------------------------- law records *)
\* sh: a random harmonic object (1, 2 or 3 coefficient sets, either normalisation, truncated or not) at a random point
ShOK(r) ==
  LET n == Deg(r) IN
  \* every constructor form (r.ct, r.dn = normalisation argument left out, r.asg) of a legal argument tuple gives an object
  /\ r.out = "ok" /\ r.cob = r.cin           \* Coefficients(), Coefficients1/2(): the sets as given to the constructor
  /\ AllLE(r, {"dv", "dvv", "cv", "cv0", "cnv", "cv2", "cv3"}, TolV(n))        \* value = defining sum; circle = direct
  /\ AllLE(r, {"dg", "cg", "cg2"}, TolG(n))                                       \* gradient = gradient of defining sum
  /\ r.cunt                                                                       \* "gradx, etc., will not be touched"
  \* the gradient is the derivative of the returned value: central differences with step h,
  \* truncation h^2 S3/6 (fdT), round-off of two values over h (fdR, in multiples of the value tolerance)
  /\ (r.fdT < 2000000000 /\ r.fdR < 2000000000 =>
        r.fdr >= 0 /\ r.fdr \div 64 <= (r.fdT \div 64) + TolV(n) * (r.fdR \div 64 + 1) + TolG(n))

InSeq(s, x) == \E i \in 1..Len(s) : s[i] = x
\* r.omit lists the optional keywords that the synthetic metadata file does not contain; the sampler may only leave a keyword out
\* when the value of the model equals the default the documentation gives (the oracle works with the model's values)
MagOmitOK(r) ==
  /\ (InSeq(r.omit, "Normalization") => (r.full <=> MagKeyDefault.Normalization = "full"))
  /\ (InSeq(r.omit, "NumModels") => r.nm = MagKeyDefault.NumModels) /\ (InSeq(r.omit, "NumConstants") => r.nc = MagKeyDefault.NumConstants)
  /\ (InSeq(r.omit, "DeltaEpoch") => r.dt1 \/ r.nm = 1)                   \* "default 1 (only relevant for NumModels > 1)"
NameOK(r, def) ==
  /\ r.desc = (IF InSeq(r.omit, "Description") THEN def.Description ELSE "synthetic")
  /\ r.date = (IF InSeq(r.omit, "ReleaseDate") THEN def.ReleaseDate ELSE "2026-01-01")
  /\ r.name = (IF InSeq(r.omit, "Name") THEN r.fname ELSE "synth-" \o r.fname)    \* "may be overridden by the model file"
MagrOK(r) ==
  IF ~LimitsValid(r.Nmax, r.Mmax) THEN r.out = "throw"
  ELSE
    LET lim == Limits(r.Nmax, r.Mmax)  dg == MaxOver(r.Ns, lim[1], 1, -1)  od == MaxOver(r.Ms, lim[2], 1, -1)  n == Max(dg, 0) IN
    /\ r.out = "ok" /\ r.deg = dg /\ r.ord = od /\ r.meta /\ MagOmitOK(r) /\ NameOK(r, MagKeyDefault)
    \* field and secular variation implied by the file's coefficients, geocentric and east/north/up; circle = point
    /\ AllLE(r, {"dbg", "dbgt", "dbe", "dbet", "dc", "dct", "dcg", "dcgt"}, TolG(n))
    /\ r.b3eq /\ r.c3eq /\ r.cinsp /\ r.rng
    \* H, F, D, I and their rates from the returned components (guard: a vanishing field has no direction)
    /\ (~r.hz => AllLE(r, {"fH", "fF", "fD", "fI", "fHt", "fFt", "fDt", "fIt"}, TolC) /\ r.f4eq)

GrvVOK(r) ==
  IF ~LimitsValid(r.Nmax, r.Mmax) THEN r.out = "throw"
  ELSE
    LET lim == Limits(r.Nmax, r.Mmax)  n == r.nx IN
    /\ r.out = "ok" /\ r.meta /\ r.cinsp /\ r.ueq
    /\ (InSeq(r.omit, "Normalization") => (r.full <=> GrvKeyDefault.Normalization = "full"))
    /\ (InSeq(r.omit, "HeightOffset") => r.z0) /\ (InSeq(r.omit, "CorrectionMultiplier") => r.cm1) /\ NameOK(r, GrvKeyDefault)
    /\ r.nx = Min(r.N, lim[1])
    /\ r.deg = Max(Min(r.N, lim[1]), Min(r.Nc, lim[1])) /\ r.ord = Max(Min(r.M, lim[2]), Max(Min(r.Mc, lim[2]), 0))
    /\ AllLE(r, {"dV", "cV", "cW", "cGW"}, TolV(n)) /\ AllLE(r, {"dVg", "cVg", "cWg", "cG"}, TolG(n))
    /\ AllLE(r, {"dP", "dPg", "dW", "dWg", "dGW", "dG"}, TolC)                  \* Phi = w^2 R^2/2, W = V + Phi, rotation to ENU
GrvTOK(r) ==
  \* T = W - U and delta = g - gamma; scale = |W| + |U| + magnitude bound of the disturbing sum (its own round-off)
  /\ AllLE(r, {"dT"}, TolV(r.nx)) /\ AllLE(r, {"dTg"}, TolG(r.nx))
\* What is owed by every model, also of low degree (where T = W - U is excused by a recorded finding: the normal zonal terms
\* above the model degree are not subtracted): T = V - GMref/R (1 - sum_{n = 2, 4, .. <= model degree} J_n (a/R)^n P_n(sin psi)) with
\* the J_n of the reference ellipsoid, and its gradient; the rotation to east/north/up; circle = point; the geoid height
\* from this T.  Scale = |V| + GMref/R + the magnitude bound of the disturbing sum.
GrvZOK(r) ==
  /\ AllLE(r, {"dTz"}, TolV(r.nx)) /\ AllLE(r, {"dTgz"}, TolG(r.nx))
  /\ AllLE(r, {"cT", "cT1", "cDT"}, TolV(r.nx)) /\ AllLE(r, {"dD", "cTg", "cD"}, TolG(r.nx))
  /\ AllLE(r, {"dNz"}, TolV(Max(r.nx, Max(r.Nc, 0))))
\* a circle created with a capability request: every function the request allows returns bit for bit what the circle with ALL
\* returns, every other function returns NaNs in all its outputs ("If an unsupported function is invoked, it will return NaNs")
GrvCOK(r) == \A fn \in Fns : IF Avail(fn, r.req, r.h0) THEN r[fn \o "_eq"] ELSE r[fn \o "_nan"]
GrvGOK(r) == AllLE(r, {"dTv", "dDT"}, TolV(r.nx))
GrvNOK(r) ==
  /\ AllLE(r, {"aD", "aX", "aE", "cA"}, TolG(r.nx)) /\ AllLE(r, {"dN"}, TolV(Max(r.nx, Max(r.Nc, 0))))
  /\ (IF r.h0 THEN ~r.cNnan /\ AllLE(r, {"cN"}, TolV(Max(r.nx, Max(r.Nc, 0)))) ELSE r.cNnan)   \* geoid height on a circle only for h = 0

NgOK(r) ==
  /\ r.out = "ok" /\ r.insp
  /\ AllLE(r, {"cJ2", "cJ2o", "cJn2", "cge", "cgp", "cfs", "cU0", "jf"}, TolNG)   \* J2, gamma_e, gamma_p, f*, U0 = closed formulas
  /\ AllLE(r, {"cf", "cf2"}, TolNewton)                                           \* J2ToFlattening o FlatteningToJ2 = id
  /\ AllLE(r, {"sU", "sS", "sG", "sGU", "se", "sp"}, TolNG)                       \* U = U0 on the ellipsoid, Somigliana, gravity normal
  /\ AllLE(r, {"xU", "xV", "xP", "xPg", "xS", "xSg", "xG", "xGU"}, TolNG)         \* U = Um + Uq + Ur outside, U = V0 + Phi, ENU
  /\ AllLE(r, {"xg"}, TolFDO)                                                     \* gamma = grad U
  \* harmonic outside (guard: the bound on the third derivatives holds for small flattening only)
  /\ (r.lf <= -3 => r.lap >= 0 /\ r.lap \div 64 <= (r.lapT \div 64) + TolNG * (r.lapR \div 64 + 1))
\* V0 = - GM/r sum_{n >= 0} J_n (a/r)^n P_n with the library's J_n from n = 0 (J_0 = -1); "J_n = 0 if n is odd", exactly
NgzOK(r) == r.jfin /\ AllLE(r, {"zV"}, TolNG) /\ AllLE(r, {"j0"}, 0) /\ AllLE(r, {"jodd"}, 0)

\* "A global instantiation of NormalGravity for the WGS84 / GRS80 ellipsoid" = the object constructed from the documented constants
NgsOK(r) == r.aeq /\ r.gmeq /\ r.omeq /\ r.feq /\ r.ceq /\ r.ueq
Obligation(r) ==
  CASE r.e = "idx" -> IdxOK(r) [] r.e = "co" -> CoOK(r) [] r.e = "rd" -> RdOK(r) [] r.e = "cap" -> CapOK(r)
    [] r.e = "val" -> ValOK(r) [] r.e = "mag" -> MagOK(r) [] r.e = "grv" -> GrvLOK(r) [] r.e = "ngl" -> NglOK(r)
    [] r.e = "sh" -> ShOK(r) [] r.e = "magr" -> MagrOK(r) [] r.e = "mcinsp" -> r.aeq
    [] r.e = "grvV" -> GrvVOK(r) [] r.e = "grvT" -> GrvTOK(r) [] r.e = "grvG" -> GrvGOK(r) [] r.e = "grvN" -> GrvNOK(r)
    [] r.e = "grvZ" -> GrvZOK(r) [] r.e = "grvC" -> GrvCOK(r)
    [] r.e = "ng" -> NgOK(r) [] r.e = "ngz" -> NgzOK(r) [] r.e = "ngs" -> NgsOK(r)
    [] OTHER -> FALSE

Expected(r) ==
  CASE r.e = "co" -> <<CoeffOutcome(r.N, r.nmx, r.mmx, r.csz, r.ssz)>>
    [] r.e = "rd" -> ReadSpec(r.N0, r.M0, r.N, r.M, r.tr)
    [] r.e = "val" -> <<CtorOutcome(r), ValNum(r, r.pt, r.j), GradNum(r, r.pt, r.j, r.ja)>>
    [] r.e = "mag" -> IF MagOutcome(r) = "ok" THEN LET g == MagEff(r) IN <<MagB(g, Segment(g)), MagBt(g, Segment(g)), MagDegree(g), MagOrder(g)>> ELSE <<"throw">>
    [] r.e = "grv" -> IF GrvOutcome(r) = "ok" THEN <<GrvDegree(r), GrvOrder(r), GrvExp(r)>> ELSE <<"throw">>
    [] r.e = "ngl" -> <<NgJn(r.n), NgU(r), NgUg(r), NgSurf(r)>>
    [] OTHER -> <<>>

Init == l = 1 /\ KitInit
Next == /\ l <= NT
        /\ Require(Obligation(T[l]), l, "harm-" \o T[l].e, Expected(T[l]))
        /\ Consumed(l)
        /\ l' = l + 1
=============================================================================
