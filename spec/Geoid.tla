-------------------------------- MODULE Geoid --------------------------------
(***************************************************************************)
(* Geoid heights by interpolation in a raster, with the cache machinery of  *)
(* the Geoid class (property C20).                                          *)
(*                                                                          *)
(* Raster: W columns (W even) x H rows (H odd), row 0 = north pole, column  *)
(* 0 = longitude 0, pixel values Pix(x, y) given by a closed formula shared *)
(* with the driver (which writes the .pgm file from it).  Positions are in  *)
(* eighths of a cell: X8 (longitude, any integer: periodic with period 8W)  *)
(* and Y8 in 0..8(H-1) (0 = north pole).                                    *)
(*                                                                          *)
(* H64(X8,Y8): the documented bilinear interpolation, exactly (x64).        *)
(* P512(X8,Y8): for the raster sampled from a cubic polynomial, the value   *)
(* any cubic (least-squares) interpolation must reproduce, exactly (x512).  *)
(*                                                                          *)
(* The object: state = cache window (none / area / all) + last cell; the    *)
(* actions are the public calls.  Heights never depend on the state.        *)
(***************************************************************************)
EXTENDS Integers, Sequences, FiniteSets

CONSTANTS W, H, Kind      \* Kind = "grid" (bilinear lattice raster), "poly" (cubic polynomial raster) or
                          \* "ppoly" (polar rows sampled from a cubic that is constant along each pole; W divisible by 4)

Wh == W \div 2
Hh == (H - 1) \div 2

\* ---- pixel formulas (shared with harness/drv_geoid.cpp: keep in sync) ----
PixGrid(x, y) == ((7 * x + 13 * y + x * y) % 97) * 8 + (x % 5) + 3 * (y % 4)
Poly(a, b) ==   \* integer cubic polynomial in centred coordinates
  30000 + a * a * a - 2 * a * a * b + 3 * a * b * b + 5 * b * b * b
        + 7 * a * a - 11 * a * b + 13 * b * b + 17 * a - 19 * b
PixPoly(x, y) == Poly(x - Wh, y - Hh)
\* "ppoly": the rows within 3 of a pole are sampled from PQ(u, d), a cubic WITHOUT pure-u terms (so it is constant along
\* the pole d = 0), u = column within its half of the raster - W/4, d = signed row distance from the pole: positive in the
\* half 0 <= x < W/2, negative in the other half, so that the documented reflection through the pole (half-turn shift)
\* continues the same polynomial to d = -1.  The rows in between are constant.
Wq == W \div 4
PQ(u, d) == 30000 + 5 * d * d * d + 3 * u * d * d - 2 * u * u * d + 13 * d * d - 11 * u * d - 19 * d
PixPPoly(x, y) ==
  LET u == (x % Wh) - Wq   sg == IF x < Wh THEN 1 ELSE -1   ds == (H - 1) - y
  IN IF y <= 3 THEN PQ(u, sg * y) ELSE IF ds <= 3 THEN PQ(u, sg * ds) ELSE 30000
Pix(x, y) == IF Kind = "grid" THEN PixGrid(x, y) ELSE IF Kind = "ppoly" THEN PixPPoly(x, y) ELSE PixPoly(x, y)

\* ---- documented raster access: longitude periodic, rows beyond a pole reflected through it ----
RawVal(ix, iy) ==
  LET x == ix % W IN
  IF iy < 0 THEN Pix((x + Wh) % W, -iy)
  ELSE IF iy >= H THEN Pix((x + Wh) % W, 2 * (H - 1) - iy)
  ELSE Pix(x, iy)

\* ---- cell location ----
CellX(X8) == (X8 % (8 * W)) \div 8
FracX(X8) == (X8 % (8 * W)) % 8
CellY(Y8) == IF Y8 \div 8 > H - 2 THEN H - 2 ELSE Y8 \div 8
FracY(Y8) == Y8 - 8 * CellY(Y8)

\* ---- bilinear interpolation, exact, times 64 ----
H64(X8, Y8) ==
  LET ix == CellX(X8)  iy == CellY(Y8)  fx == FracX(X8)  fy == FracY(Y8)
      v00 == RawVal(ix, iy)      v01 == RawVal(ix + 1, iy)
      v10 == RawVal(ix, iy + 1)  v11 == RawVal(ix + 1, iy + 1)
  IN (8 - fy) * ((8 - fx) * v00 + fx * v01) + fy * ((8 - fx) * v10 + fx * v11)

\* ---- the cubic polynomial itself at a position, times 512 (a, b in eighths) ----
P512(X8, Y8) ==
  LET a == (X8 % (8 * W)) - 8 * Wh   b == Y8 - 8 * Hh
  IN 512 * 30000 + a * a * a - 2 * a * a * b + 3 * a * b * b + 5 * b * b * b
     + 8 * (7 * a * a - 11 * a * b + 13 * b * b) + 64 * (17 * a - 19 * b)

(* ------------------------------------------------------------------------ *)
(* Cubic interpolation in the two polar cell rows (doc, "Interpolating the   *)
(* geoid data"): a least-squares fit of a cubic to the 12-point stencil,     *)
(* "constrained to be independent of longitude when evaluating the height at *)
(* one of the poles".  The admissible cubics are therefore those without the *)
(* terms u, u^2, u^3 (d measured from the pole); a least-squares fit over a  *)
(* linear space reproduces every member of the space, so on the "ppoly"      *)
(* raster the interpolated value is PQ itself wherever the whole stencil     *)
(* (columns ix-1..ix+2, rows iy-1..iy+2 with the reflected row) lies in one  *)
(* half of the raster.  PQ512 = 512 * PQ at a position in eighths.           *)
(* ------------------------------------------------------------------------ *)
PolarRow(Y8) == CellY(Y8) = 0 \/ CellY(Y8) = H - 2
PolarInterior(X8, Y8) ==
  LET cx == CellX(X8) % Wh IN PolarRow(Y8) /\ cx >= 1 /\ cx <= Wh - 3
PQ512(X8, Y8) ==
  LET xm == X8 % (8 * W)
      a == (xm % (8 * Wh)) - 8 * Wq
      sg == IF xm < 8 * Wh THEN 1 ELSE -1
      b == sg * (IF CellY(Y8) = 0 THEN Y8 ELSE 8 * (H - 1) - Y8)
  IN 512 * 30000 + 5 * b * b * b + 3 * a * b * b - 2 * a * a * b + 8 * (13 * b * b - 11 * a * b) - 64 * 19 * b

(* ------------------------------------------------------------------------ *)
(* Cache model (implementation-shaped): an area cache holds a copy of the   *)
(* rows yo..yo+ys-1 (possibly beyond the poles) and columns xo..xo+xs-1     *)
(* (modulo W) of the raster.                                                 *)
(* ------------------------------------------------------------------------ *)
NoCache == <<"none">>
InWin(c, ix, iy) ==
  /\ c[1] = "win"
  /\ iy >= c[3] /\ iy < c[3] + c[5]
  /\ LET x == ix % W IN (x >= c[2] /\ x < c[2] + c[4]) \/ (x + W >= c[2] /\ x + W < c[2] + c[4])
\* what the cache holds for (ix, iy) in its window: filled from the raster by the documented access
CacheVal(c, ix, iy) == RawVal(ix, iy)
\* value read through the cache machinery
Read(c, ix, iy) == IF InWin(c, ix, iy) THEN CacheVal(c, ix, iy) ELSE RawVal(ix, iy)

\* Window produced by CacheArea for a request in cells: west cell wc, east cell ec (>= wc, < wc + W),
\* north row nr, south row sr (rows of cells 0..H-2), margin m (0 bilinear, 1 cubic)
Window(wc, ec, nr, sr, m) ==
  LET iw == wc - m   ie == ec + 1 + m
      in == nr - m   is == sr + 1 + m
  IN IF ie - iw >= W - 1 THEN <<"win", 0, in, W, is - in + 1>>
     ELSE <<"win", iw % W, in, ie - iw + 1, is - in + 1>>

\* the cells a query touches (stencil) are inside the window
Covers(c, X8, Y8, m) ==
  LET ix == CellX(X8)  iy == CellY(Y8) IN
  \A dx \in (0 - m)..(1 + m), dy \in (0 - m)..(1 + m) : InWin(c, ix + dx, iy + dy)
=============================================================================
