INIT Init
NEXT Next
CONSTANTS TolRT = 20 TolEdge = 1000
POSTCONDITION Summary
CHECK_DEADLOCK FALSE
