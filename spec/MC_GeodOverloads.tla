---------------------------- MODULE MC_GeodOverloads ----------------------------
(* Enumerates the overload table and the line-constructor forms of GeodOverloads *)
(* and checks its consistency: C++ resolves overloads by the number of arguments, *)
(* so the arities within a family are distinct; every family has the overload     *)
(* that returns everything; the line interface mirrors the solver interface.      *)
EXTENDS GeodOverloads, TLC, Json
VARIABLE v
Init == v = <<"root">>
Next == v = <<"root">> /\ (\/ \E w \in Rows : v' = <<"ovl", w[1], w[2], Num(w[3]), w[3]>>
                           \/ \E w \in Forms : v' = <<"ctor", w[1], w[2]>>)

DistinctArity == \A f \in Families : \A x, y \in RowsOf(f) : x[2] = y[2] => x = y
Counts == /\ Cardinality(RowsOf(1)) = 6 /\ Cardinality(RowsOf(2)) = 7 /\ Cardinality(RowsOf(3)) = 7
          /\ Cardinality(RowsOf(4)) = 6 /\ Cardinality(RowsOf(5)) = 7 /\ Cardinality(Forms) = 8
FullRow == /\ \A f \in {1, 4} : \E w \in RowsOf(f) : w[3] = {LAT, LON, AZI, REDLEN, SCALE, AREA} /\ w[2] = 7
           /\ \A f \in {2, 5} : \E w \in RowsOf(f) : w[3] = {LAT, LON, AZI, DIST, REDLEN, SCALE, AREA} /\ w[2] = 8
           /\ \E w \in RowsOf(3) : w[3] = {DIST, AZI, REDLEN, SCALE, AREA} /\ w[2] = 7
Mirror == /\ { <<w[2], w[3]>> : w \in RowsOf(1) } = { <<w[2], w[3]>> : w \in RowsOf(4) }
          /\ { <<w[2], w[3]>> : w \in RowsOf(2) } = { <<w[2], w[3]>> : w \in RowsOf(5) }
\* an overload never returns m12, M12, M21 or S12 without the position (direct) / distance and azimuths (inverse),
\* and the signature has one slot per reference parameter
Nested == \A w \in Rows :
            /\ (w[3] \cap {REDLEN, SCALE, AREA} # {} => IF IsInverseFam(w[1]) THEN {DIST, AZI} \subseteq w[3] ELSE {LAT, LON, AZI} \subseteq w[3])
            /\ (AREA \in w[3] => {REDLEN, SCALE} \subseteq w[3])
            /\ (IsArcFam(w[1]) /\ w[3] \cap {REDLEN, SCALE, AREA} # {} => DIST \in w[3])
            /\ (~IsArcFam(w[1]) /\ ~IsInverseFam(w[1]) => DIST \notin w[3])          \* s12 is an input of Direct / Position
            /\ Cardinality({i \in 0..7 : (Sig(w[1], w[3]) \div (2 ^ i)) % 2 = 1}) = w[2]
Emit == /\ (v[1] = "ovl" => PrintT(ToJson(<<"ovl", v[2], v[3], v[4]>>)))
        /\ (v[1] = "ctor" => PrintT(ToJson(v)))
=============================================================================
