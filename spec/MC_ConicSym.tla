---------------------------- MODULE MC_ConicSym ----------------------------
(* Lattice / state-graph enumeration for ConicSym (C11).                       *)
(*   Part "ctor": constructor and SetScale calls (admissibility), root -> chunk -> vectors                    *)
(*   Part "grp" : the Cayley graph of the symmetry group (state = element + accumulated output               *)
(*                representation), every element applied to base inputs ("sym" vectors)                       *)
(*   Part "anc" : sphere anchors and constructor-equivalence pairs, root -> chunk -> vectors                  *)
(*   Part "seq" : the object as a state machine under SetScale: every path of calls (admissible, throwing,    *)
(*                default argument) from every kind of object; state = path + the scale in force after each call *)
(* Model invariants are checked on every state; Emit prints the vectors that the driver replays.              *)
EXTENDS ConicSym, TLC, Json

CONSTANTS Part, NChunks, Dense
VARIABLE v

D3 == {-1, 0, 1}
InChunk(S, C) == {x \in S : x % NChunks = C}
NegE(P) == <<-P[1], -P[2]>>

(* ------------------------------ Part "ctor" ------------------------------ *)
\* Every constructor form (ct = 1 one parallel, 2 two parallels, 3 sines / cosines, 4 the same un-normalised; PS) is combined
\* with every invalid argument class in every argument position (a, f, k, first parallel, second parallel):
\*   "lat"  : the full Eps lattice of parallels (both positions) incl. NaN and +-inf, with a good and two single-bad scalar triples;
\*   "sc"   : every scalar triple of Scalars (each bad class of k, of f, of a alone, and two mixed ones) with good, polar, out-of-range
\*            and NaN parallels in both positions;
\*   Dense  : the full product KCodes x FCodes x ACodes with every form, and Scalars on the full lattices.
LatP == {-91, -90, -89, -45, 0, 30, 89, 90, 91}
LatX == {-LatInf, LatInf, LatNaN}                      \* -inf, +inf, NaN as a latitude in degrees
EpsLat == {<<p, d>> : p \in LatP, d \in D3} \cup {<<p, 0>> : p \in LatX}
LatAll == LatP \cup LatX
DOf(p) == IF p \in LatX THEN {0} ELSE D3
SCCodes == {-90, -60, 0, 45, 90, 100, 101, 102, 103, 104, 105, 106, 107, 108, 109, 110, 111}
ConFam == {"lcc", "alb"}
Scalars == {<<2, 1, 0>>} \cup {<<k, 1, 0>> : k \in KCodes} \cup {<<2, f, 0>> : f \in FCodes} \cup {<<2, 1, a>> : a \in ACodes}
           \cup {<<3, 2, 1>>, <<1, 3, 0>>, <<0, 5, 5>>}
AllScalars == {<<k, f, a>> : k \in KCodes, f \in FCodes, a \in ACodes}
Few2 == {<<2, 1, 0>>, <<3, 2, 1>>, <<0, 1, 0>>}
Few3 == {<<2, 1, 0>>, <<1, 0, 1>>, <<9, 1, 0>>}
ScPar == {<<30, 0>>, <<90, 0>>, <<-90, 0>>, <<91, 0>>, <<LatNaN, 0>>}     \* parallels combined with every scalar triple (degrees)
ScSC == {45, 90, -90, 100, 106}                                           \* ... (sine / cosine codes)
ObjCalls == KCallCodes
VecCtor(C) ==
  \/ \E p \in InChunk(LatAll, C), fam \in ConFam, sc \in Scalars : \E d \in DOf(p) :
        v' = <<"ctor", fam, 1, p, d, p, d, sc[1], sc[2], sc[3]>>
  \/ \E p \in InChunk(LatAll, C), Q \in EpsLat, fam \in ConFam, sc \in (IF Dense THEN Scalars ELSE Few2) : \E d \in DOf(p) :
        v' = <<"ctor", fam, 2, p, d, Q[1], Q[2], sc[1], sc[2], sc[3]>>
  \/ \E P \in ScPar, Q \in ScPar, fam \in ConFam, sc \in Scalars :
        (P[1] + Q[1]) % NChunks = C /\ v' = <<"ctor", fam, 2, P[1], P[2], Q[1], Q[2], sc[1], sc[2], sc[3]>>
  \/ \E c1 \in InChunk(SCCodes, C), c2 \in SCCodes, fam \in ConFam, ct \in {3, 4}, sc \in (IF Dense THEN Scalars ELSE Few3) :
        v' = <<"ctor", fam, ct, c1, 0, c2, 0, sc[1], sc[2], sc[3]>>
  \/ \E c1 \in InChunk(ScSC, C), c2 \in ScSC, fam \in ConFam, ct \in {3, 4}, sc \in Scalars :
        v' = <<"ctor", fam, ct, c1, 0, c2, 0, sc[1], sc[2], sc[3]>>
  \/ Dense /\ \E sc \in AllScalars, fam \in ConFam, ct \in 1..4 :
        (sc[1] + sc[2] + sc[3]) % NChunks = C /\
        v' = <<"ctor", fam, ct, IF ct <= 2 THEN 30 ELSE 0, 0, IF ct = 1 THEN 30 ELSE 45, 0, sc[1], sc[2], sc[3]>>
  \/ \E k \in InChunk(KCodes, C), f \in FCodes, a \in ACodes : v' = <<"ctor", "ps", 0, 90, 0, 90, 0, k, f, a>>
  \* SetScale(lat, k) - or SetScale(lat), k = 7 - on an object built with the scale k0c
  \/ \E p \in InChunk(LatAll, C), k \in KCallCodes, fam \in Fams, pol \in {"np", "sp", "no"}, k0c \in KObjCodes : \E d \in DOf(p) :
        (fam = "ps" => pol = "np") /\ v' = <<"sets", fam, pol, p, d, k, k0c>>

CtorOf(w) == [fam |-> w[2], ct |-> w[3], P1 |-> <<w[4], w[5]>>, P2 |-> <<w[6], w[7]>>, kc |-> w[8], fc |-> w[9], ac |-> w[10]]
Plain(c) == c.ct \in {1, 2} \/ (c.P1[1] \in -90..90 /\ c.P2[1] \in -90..90)
CtorInv ==
  v[1] = "ctor" =>
    LET c == CtorOf(v)  o == CtorOutcome(c) IN
    /\ o \in {"ok", "throw"}
    /\ (o = "ok" => KGood(c.kc) /\ FGood(c.fc) /\ AGood(c.ac))
    \* the order of the two parallels is immaterial
    /\ (c.ct >= 2 => CtorOutcome([c EXCEPT !.P1 = c.P2, !.P2 = c.P1]) = o)
    \* north/south mirror
    /\ (Plain(c) => CtorOutcome([c EXCEPT !.P1 = NegE(c.P1), !.P2 = NegE(c.P2)]) = o)
    \* the three forms agree where the parameters coincide
    /\ (c.ct = 1 => CtorOutcome([c EXCEPT !.ct = 2]) = o)
    /\ (c.ct = 2 /\ c.P1[2] = 0 /\ c.P2[2] = 0 /\ c.P1[1] \in -90..90 /\ c.P2[1] \in -90..90 =>
          CtorOutcome([c EXCEPT !.ct = 3]) = o /\ CtorOutcome([c EXCEPT !.ct = 4]) = o)
    \* Albers admits whatever LCC admits
    /\ (c.fam = "lcc" /\ o = "ok" => CtorOutcome([c EXCEPT !.fam = "alb"]) = "ok")
    \* every argument is validated, in every form: one bad argument (whatever the others are) is enough for a throw
    /\ (c.fam # "ps" /\ (ParKind(c.ct, c.P1) = "bad" \/ (c.ct # 1 /\ ParKind(c.ct, c.P2) = "bad")) => o = "throw")
    /\ (\A kc \in KCodes \ {1, 2, 3} : CtorOutcome([c EXCEPT !.kc = kc]) = "throw")
    /\ (\A fc \in FCodes \ {0, 1, 2, 3} : CtorOutcome([c EXCEPT !.fc = fc]) = "throw")
    /\ (\A ac \in ACodes \ {0, 1} : CtorOutcome([c EXCEPT !.ac = ac]) = "throw")
    \* NaN / infinite latitudes are outside [-90, 90]
    /\ (c.fam # "ps" /\ c.ct \in {1, 2} /\ c.P1[1] \in LatX => o = "throw")
SetsInv ==
  v[1] = "sets" =>
    LET o == SetScaleOutcome(v[2], v[3], <<v[4], v[5]>>, v[6])
        mp == CASE v[3] = "np" -> "sp" [] v[3] = "sp" -> "np" [] OTHER -> "no" IN
    /\ o \in {"ok", "throw"}
    /\ (o = "ok" => KGoodCall(v[6]) /\ ~EpsBad(<<v[4], v[5]>>))
    /\ (v[2] # "ps" => SetScaleOutcome(v[2], mp, NegE(<<v[4], v[5]>>), v[6]) = o)
    \* strictly inside (-90, 90) every family accepts a good scale
    /\ (KGoodCall(v[6]) /\ v[4] \in -89..89 => o = "ok")
    \* "(default 1)": omitting k is the call with k = 1
    /\ (v[6] = 7 => o = SetScaleOutcome(v[2], v[3], <<v[4], v[5]>>, 2))
    \* admissibility does not depend on the scale the object was built with
    /\ v[7] \in KObjCodes

(* ------------------------------ Part "grp" ------------------------------- *)
\* state <<"g", cls, s, m, e, u, v, R[1..6]>>: cls "con" / "ps"; s hemisphere of the base call (ps)
Bound == IF Dense THEN 8 ELSE 4
GState(w) == <<w[4], w[5], w[6], w[7]>>
GRep(w) == <<w[8], w[9], w[10], w[11], w[12], w[13]>>
FamOf(cls) == IF cls = "ps" THEN "ps" ELSE "lcc"
GInit == {<<"g", "con", 1, 0, 0, 0, 0, 1, 0, 0, 1, 1, 0>>, <<"g", "ps", 1, 0, 0, 0, 0, 1, 0, 0, 1, 1, 0>>,
          <<"g", "ps", -1, 0, 0, 0, 0, 1, 0, 0, 1, 1, 0>>}
\* base inputs: <<p1, p2, kc, lat, lon, lon0>>
ConBases == {<<40, 40, 2, 17, 25, -3>>, <<33, 45, 1, -60, 100, 10>>, <<0, 0, 2, 50, -120, 7>>, <<-20, 60, 3, 5, 170, 160>>,
             <<-35, -35, 2, -90, 12, 0>>, <<30, 30, 2, 90, -77, 90>>}
PolBases == {<<90, 90, 2, 30, 44, 0>>, <<-90, -90, 1, 10, -95, 20>>}
PSBases == {<<2, 17, 25>>, <<1, -60, 100>>, <<2, 90, 44>>, <<3, 0, -135>>, <<2, -89, 180>>}
GStep ==
  /\ v[1] = "g"
  /\ \/ \E h \in Generators(FamOf(v[2])) :
          LET g == GState(v)  g2 == Compose(h, g)
              R2 == RepMul(Rep(h, FamOf(v[2]), v[3] * MuOf(g)), GRep(v))
          IN /\ Abs(g2[3]) <= Bound /\ Abs(g2[4]) <= Bound
             /\ v' = <<"g", v[2], v[3], g2[1], g2[2], g2[3], g2[4], R2[1], R2[2], R2[3], R2[4], R2[5], R2[6]>>
     \/ /\ v[2] = "con" /\ Applicable(GState(v), "lcc")
        /\ \E b \in ConBases \cup PolBases, fam \in ConFam :
             LET in == [p1 |-> b[1], p2 |-> b[2], s |-> 1, lat |-> b[4], lon |-> b[5], lon0 |-> b[6]]
                 out == ApplyIn(GState(v), in)  R == Rep(GState(v), fam, 1)
             IN v' = <<"sym", fam, 1, v[4], v[5], v[6], v[7], b[3], in.p1, in.p2, in.lat, in.lon, in.lon0,
                       out.p1, out.p2, out.s, out.lat, out.lon, out.lon0, R[1], R[2], R[3], R[4], R[5], R[6]>>
     \/ /\ v[2] = "ps" /\ Applicable(GState(v), "ps")
        /\ \E b \in PSBases :
             LET in == [p1 |-> 90 * v[3], p2 |-> 90 * v[3], s |-> v[3], lat |-> b[2], lon |-> b[3], lon0 |-> 0]
                 out == ApplyIn(GState(v), in)  R == Rep(GState(v), "ps", v[3])
             IN v' = <<"sym", "ps", v[3], v[4], v[5], v[6], v[7], b[1], in.p1, in.p2, in.lat, in.lon, in.lon0,
                       out.p1, out.p2, out.s, out.lat, out.lon, out.lon0, R[1], R[2], R[3], R[4], R[5], R[6]>>

Transp(M) == <<M[1], M[3], M[2], M[4]>>
\* the accumulated representation depends on the element only (homomorphism), and is a signed permutation matrix
HomInv ==
  v[1] = "g" =>
    LET g == GState(v)  R == GRep(v)  fam == FamOf(v[2]) IN
    /\ R = Rep(g, fam, v[3])
    /\ MatMul(<<R[1], R[2], R[3], R[4]>>, Transp(<<R[1], R[2], R[3], R[4]>>)) = <<1, 0, 0, 1>>
    /\ R[5] \in {-1, 1} /\ R[6] \in 0..3
    /\ (g = Ident => R = <<1, 0, 0, 1, 1, 0>>)
    \* the determinant tells whether orientation is kept: reflections (m + e odd) reverse it and flip gamma
    /\ R[1] * R[4] - R[2] * R[3] = R[5]
    /\ Compose(g, Ident) = g /\ Compose(Ident, g) = g
SymInv ==
  v[1] = "sym" =>
    LET g == <<v[4], v[5], v[6], v[7]>>  ep == EpsOf(g) IN
    /\ Applicable(g, v[2])
    \* lon - lon0 is reflected and shifted by whole turns only (conics); PS: by quarter turns
    /\ (v[2] # "ps" => ((v[18] - v[19]) - ep * (v[12] - v[13])) % 360 = 0)
    /\ (v[2] = "ps" => v[19] = 0 /\ ((v[18] - ep * v[12]) - 90 * v[6]) = 0)
    /\ v[17] = MuOf(g) * v[11] /\ v[14] = MuOf(g) * v[9] /\ v[15] = MuOf(g) * v[10]
    \* the transformed call is admissible whenever the base call is
    /\ (v[2] # "ps" =>
         CtorOutcome([fam |-> v[2], ct |-> 2, P1 |-> <<v[14], 0>>, P2 |-> <<v[15], 0>>, kc |-> v[8], fc |-> 0, ac |-> 0]) =
         CtorOutcome([fam |-> v[2], ct |-> 2, P1 |-> <<v[9], 0>>, P2 |-> <<v[10], 0>>, kc |-> v[8], fc |-> 0, ac |-> 0]))

(* ------------------------------ Part "seq" ------------------------------- *)
\* state <<"sq", fam, pol, k0c, mode, n, (p, d, kc, ep, ed, ekc) x n>>: the calls made so far and, after each, the scale in
\* force according to ConicSym (<<0,0,0>>: the constructor's).  Full-length paths are emitted as "seq" vectors.
\*   mode 0 (quick): 5 latitudes x 5 scale arguments, 2 calls;  Dense adds mode 1: 9 x 8, 2 calls, and mode 2: 4 x 4, 3 calls
SeqObjs == {<<"ps", "np">>} \cup {<<fam, pol>> : fam \in ConFam, pol \in {"np", "sp", "no"}}
SeqModes == IF Dense THEN {1, 2} ELSE {0}
SeqLen(m) == IF m = 2 THEN 3 ELSE 2
SeqLats(m) == CASE m = 0 -> {<<-90, 0>>, <<-90, 1>>, <<90, 0>>, <<30, 0>>, <<LatNaN, 0>>}
                [] m = 1 -> {<<-90, 0>>, <<-90, 1>>, <<90, 0>>, <<90, -1>>, <<91, 0>>, <<30, 0>>, <<-45, 0>>, <<LatNaN, 0>>, <<-91, 0>>}
                [] OTHER -> {<<-90, 0>>, <<90, 0>>, <<30, 0>>, <<-45, 0>>}
SeqKs(m) == CASE m = 0 -> {1, 3, 7, 0, 9} [] m = 1 -> KCallCodes [] OTHER -> {1, 3, 7, -1}
SeqInit == {<<"sq", o[1], o[2], k0c, m, 0>> : o \in SeqObjs, k0c \in KObjCodes, m \in SeqModes}
SeqCall(w, i) == <<w[6 * i + 1], w[6 * i + 2], w[6 * i + 3]>>       \* i-th call, i >= 1
SeqEff(w, i) == IF i = 0 THEN ScaleCtor ELSE <<w[6 * i + 4], w[6 * i + 5], w[6 * i + 6]>>
SeqCalls(w) == [i \in 1..w[6] |-> SeqCall(w, i)]
SeqStep ==
  /\ v[1] = "sq" /\ v[6] < SeqLen(v[5])
  /\ \E L \in SeqLats(v[5]), k \in SeqKs(v[5]) :
       LET call == <<L[1], L[2], k>>  e == SetScaleStep(v[2], v[3], SeqEff(v, v[6]), call)
       IN v' = [SubSeq(v, 1, 5) \o <<v[6] + 1>> \o SubSeq(v, 7, Len(v)) \o call \o e EXCEPT ![1] = "sq"]
MirrorPol(pol) == CASE pol = "np" -> "sp" [] pol = "sp" -> "np" [] OTHER -> "no"
SeqInv ==
  v[1] = "sq" =>
    LET n == v[6]  calls == SeqCalls(v) IN
    /\ Len(v) = 6 + 6 * n
    \* the state carried along the path is the one the specification computes from the calls
    /\ \A i \in 0..n : SeqEff(v, i) = ScaleAfter(v[2], v[3], calls, i)
    /\ \A i \in 1..n :
         LET c == calls[i]  o == SetScaleOutcome(v[2], v[3], <<c[1], c[2]>>, c[3]) IN
         \* a call that throws changes nothing; a call that returns overrides whatever was in force (no dependence on the prefix)
         /\ (o = "throw" => SeqEff(v, i) = SeqEff(v, i - 1))
         /\ (o = "ok" => SeqEff(v, i) = c /\ KGoodCall(c[3]) /\ ~EpsBad(<<c[1], c[2]>>))
         \* hemisphere mirror of object and latitude (conics)
         /\ (v[2] # "ps" => SetScaleOutcome(v[2], MirrorPol(v[3]), NegE(<<c[1], c[2]>>), c[3]) = o)
         \* omitted k = 1
         /\ (c[3] = 7 => o = SetScaleOutcome(v[2], v[3], <<c[1], c[2]>>, 2))
    \* the scale in force is the constructor's iff no call returned
    /\ (SeqEff(v, n) = ScaleCtor <=> \A i \in 1..n : SetScaleOutcome(v[2], v[3], <<calls[i][1], calls[i][2]>>, calls[i][3]) = "throw")

(* ------------------------------ Part "anc" ------------------------------- *)
AncLat == {-90, -60, -30, 0, 30, 60, 90}
AncPar == AncLat
DLs == {-135, -90, -46, 0, 2, 90, 180}
LonPick(i) == CASE i % 4 = 0 -> 0 [] i % 4 = 1 -> 90 [] i % 4 = 2 -> -45 [] OTHER -> 360
Descs(C) ==
  {[fam |-> fam, ct |-> ct, p1 |-> p1, p2 |-> p2, kc |-> kc] :
     fam \in ConFam, ct \in (IF Dense THEN 1..4 ELSE {1, 2}), p1 \in InChunk(AncPar, C), p2 \in AncPar, kc \in {1, 2, 3}}
  \cup {[fam |-> "ps", ct |-> 0, p1 |-> p, p2 |-> p, kc |-> kc] : p \in InChunk({-90, 90}, C), kc \in {1, 2, 3}}
VecAnc(C) ==
  \/ \E d \in Descs(C), lat \in AncLat, dl \in DLs :
       /\ DescOK(d)
       /\ \E an \in Anchors(Canon(d), lat, dl) :
            v' = <<"anc", d.fam, d.ct, d.p1, d.p2, d.kc, 3 + (((d.p1 + d.p2 + lat) \div 30) % 2), lat, LonPick((d.p1 + lat + dl) \div 2), dl,
                   an[1], an[2], an[3], an[4]>>
  \/ \E A \in Descs(C) :
       /\ DescOK(A)
       /\ \E fam \in Fams, ct \in 0..4, b1 \in {A.p1, A.p2}, b2 \in {A.p1, A.p2} :
            LET B == [fam |-> fam, ct |-> ct, p1 |-> b1, p2 |-> b2, kc |-> A.kc] IN
            /\ DescOK(B) /\ B # A /\ Equivalent(A, B)
            /\ v' = <<"eqv", A.fam, A.ct, A.p1, A.p2, B.fam, B.ct, B.p1, B.p2, A.kc>>

DescOfAnc(w) == [fam |-> w[2], ct |-> w[3], p1 |-> w[4], p2 |-> w[5], kc |-> w[6]]
MirrorAnc(an) == IF an[1] \in {"y", "g"} THEN <<an[1], -an[2], an[3], an[4]>> ELSE an
EWAnc(an) == IF an[1] \in {"x", "g"} THEN <<an[1], -an[2], an[3], an[4]>> ELSE an
\* compare rationals: the table may state the same value as n/d with different (n, d)
SameVal(a, b) == a[1] = b[1] /\ a[4] = b[4] /\ a[2] * b[3] = b[2] * a[3]
AncInv ==
  v[1] = "anc" =>
    LET d == DescOfAnc(v)  c == Canon(d)  lat == v[8]  dl == v[10]  an == <<v[11], v[12], v[13], v[14]>>
        S == Anchors(c, lat, dl) IN
    /\ an \in S /\ an[3] # 0
    \* the table is a function: one value per quantity
    /\ \A b \in S : b[1] = an[1] => SameVal(an, b)
    \* north/south mirror: y -> -y, gamma -> -gamma
    /\ \E b \in Anchors(MirrorCanon(c), -lat, dl) : SameVal(b, MirrorAnc(an))
    \* reflection in the central meridian: x -> -x, gamma -> -gamma
    /\ (Abs(dl) < 180 => \E b \in Anchors(c, lat, -dl) : SameVal(b, EWAnc(an)))
    \* scale positive
    /\ (an[1] \in {"k", "kk"} => an[2] * an[3] > 0)
    \* the azimuthal scale is n rho / (a cos lat): polar stereographic on the equator, k = rho / a
    /\ (c[1] = "ps" /\ an[1] = "k" /\ lat = 0 /\ dl = 90 =>
          \E b \in S : b[1] = "x" /\ an[2] * b[3] = b[2] * an[3])
    \* equal area: n k0^2 (x1^2 - x2^2) = 2 a^2 (sin lat2 - sin lat1) between any two parallels (on the meridian theta = +-90)
    /\ (an[1] = "xx" /\ HasN2(c) /\ an[2] # 0 =>
          \A lat2 \in AncLat : \A b \in Anchors(c, lat2, dl) :
             b[1] = "xx" /\ b[2] # 0 =>
               N2(c) * KNum(c[4]) * KNum(c[4]) * (an[2] * b[3] - b[2] * an[3]) =
               2 * (Sin2(lat2) - Sin2(lat)) * KDen(c[4]) * KDen(c[4]) * an[3] * b[3])
EqvInv ==
  v[1] = "eqv" =>
    LET A == [fam |-> v[2], ct |-> v[3], p1 |-> v[4], p2 |-> v[5], kc |-> v[10]]
        B == [fam |-> v[6], ct |-> v[7], p1 |-> v[8], p2 |-> v[9], kc |-> v[10]] IN
    /\ DescOK(A) /\ DescOK(B) /\ Equivalent(A, B) /\ Equivalent(B, A)
    /\ Canon(MirrorDesc(A)) = MirrorCanon(Canon(A))
    /\ Equivalent(MirrorDesc(A), MirrorDesc(B))
    /\ ConeClass(Canon(A)) = ConeClass(Canon(B))
    /\ ConeClass(MirrorCanon(Canon(A))) = -ConeClass(Canon(A))
    \* the same anchors
    /\ \A lat \in {0, 30, 90} : Anchors(Canon(A), lat, 90) = Anchors(Canon(B), lat, 90)

Init == IF Part = "grp" THEN v \in GInit ELSE IF Part = "seq" THEN v \in SeqInit ELSE v = <<"root">>
Next ==
  \/ v = <<"root">> /\ \E c \in 0..(NChunks - 1) : v' = <<"chunk", c>>
  \/ /\ v[1] = "chunk"
     /\ CASE Part = "ctor" -> VecCtor(v[2])
          [] Part = "anc" -> VecAnc(v[2])
          [] OTHER -> FALSE
  \/ Part = "grp" /\ GStep
  \/ Part = "seq" /\ SeqStep

Emit == /\ v[1] \notin {"root", "chunk", "g", "sq"} => PrintT(ToJson(v))
        /\ (v[1] = "sq" /\ v[6] = SeqLen(v[5])) => PrintT(ToJson(<<"seq">> \o Tail(v)))
=============================================================================
