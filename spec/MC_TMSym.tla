----------------------------- MODULE MC_TMSym -----------------------------
(* Model checking / vector emission for TMSym (C06).                         *)
(*   Part "grp": Cayley graph of the symmetry group from the identity; invariant HomInv (the generator-by-generator     *)
(*               composition of the documented output rules equals the closed form Pred); one "sym" vector per element.  *)
(*   Part "sl" : sphere lattice, Forward;  Part "slr": sphere lattice, Reverse on the central meridian.                  *)
(*               root -> chunk c -> vectors; invariants SphInv (the lattice oracle itself has the symmetries of Pred)     *)
(*               and RevInv (SphRev inverts SphFwd on the central meridian and its far side).                            *)
(*   Part "bp" : the branch point of the exact form, geographic side: configuration x class x reflection x ulp offset;   *)
(*               invariant BpInv (the expectation at a reflected branch point is Pred(e) applied to the base one).        *)
(*   Part "bpr": the branch point, grid side: configuration x class x grid reflection x ulp offset of the easting.        *)
(*   Part "cfg": the constructor family: class x configuration x sample index; invariant CfgInv.                          *)
EXTENDS TMSym, TLC, Json

CONSTANTS Part, NChunks, Stride
VARIABLE v

D3 == {-1, 0, 1}
InChunk(S, C) == {x \in S : x % NChunks = C}
Near(S, K) == {k + j : k \in K, j \in -1..1} \cap S
Sweep(lo, hi, crit) == {k \in lo..hi : k % Stride = 0} \cup Near(lo..hi, crit)

KiSet == IF Stride > 1 THEN {1, 4} ELSE {1, 2, 3, 4}          \* k0 = 1, 0.5, 2, 0.75 (dyadic)
\* (lon0, wrap of lon) pairs
LonPairs == {<<0, 0>>, <<3, 0>>, <<-177, 1>>, <<180, -1>>, <<123, 0>>, <<-363, 1>>}
LonPairsFew == {<<0, 0>>, <<-177, 1>>, <<180, -1>>}
LatAll == Sweep(-90, 90, {-90, -60, -45, -30, 0, 30, 45, 60, 90})
LatFew == {-90, -89, -60, -45, -30, -1, 0, 1, 30, 45, 60, 89, 90}
LamCrit == {0, 90, -90, 180, -180}
LamSweep == {15 * i : i \in -12..12} \cup {1, -1, 89, -89, 91, -91, 179, -179}

VecSL(C) ==
  \/ \E lat \in InChunk(LatAll, C), lam \in LamCrit, d \in D3, p \in LonPairs, ki \in KiSet :
        /\ ~SphSkip(lat, lam)
        /\ v' = <<"sl", ki, p[1], lat, 0, p[1] + lam + 360 * p[2], d>>
  \/ \E lam \in InChunk(LamSweep, C), lat \in LatFew, p \in LonPairsFew :
        /\ ~SphSkip(lat, lam)
        /\ v' = <<"sl", 1, p[1], lat, 0, p[1] + lam + 360 * p[2], 0>>

VecSLR(C) ==
  \E yk \in InChunk(-180..180, C), dy \in D3, p \in LonPairsFew, ki \in KiSet : v' = <<"slr", ki, p[1], yk, dy>>

\* branch point and constructor family: configurations (fi, ai, ki) of the driver's tables
FPosSet == {fi \in 0..(NF - 1) : FPos(fi)}
BpAiSet == IF Stride > 1 THEN {0, 1, 3} ELSE 0..(NA - 1)
BpKiSet == IF Stride > 1 THEN {0, 1, 2} ELSE 0..(NK - 1)
BprDSet == IF Stride > 1 THEN -3..3 ELSE -6..6
CfgJSet == IF Stride > 1 THEN 0..1 ELSE 0..7
VecBP(C) ==
  \E cls \in 1..4, fi \in FPosSet, ai \in BpAiSet, ki \in BpKiSet, d \in D3 : \E e \in BpElem(cls) :
     /\ (fi + NF * ai) % NChunks = C
     /\ v' = <<"bp", cls, fi, ai, ki, e.slat, e.s, e.b, d>> \o DrvOut(Pred(e))
VecBPR(C) ==
  \E cls \in 1..4, fi \in FPosSet, ai \in BpAiSet, ki \in BpKiSet, d \in BprDSet : \E t \in BprElem(cls) :
     /\ (fi + NF * ai) % NChunks = C
     /\ v' = <<"bpr", cls, fi, ai, ki, t[1], t[2], t[3], d>>
VecCFG(C) ==
  \E cls \in 0..4, fi \in 0..(NF - 1), ai \in 0..(NA - 1), ki \in 0..(NK - 1), j \in CfgJSet :
     /\ Admissible(cls, fi) /\ (fi + NF * ai) % NChunks = C
     /\ v' = <<"cfg", cls, fi, ai, ki, j>>

Init == v = <<"root">>
Next ==
  IF Part = "grp" THEN
    \/ v = <<"root">> /\ v' = <<"g", Id, OutId>>
    \/ /\ v[1] = "g"
       /\ \E g \in Generators : LET e2 == ActIn(g, v[2]) IN e2 \in Elem /\ v' = <<"g", e2, ActOut(g, v[2], v[3])>>
  ELSE
    \/ v = <<"root">> /\ \E c \in 0..(NChunks - 1) : v' = <<"chunk", c>>
    \/ v[1] = "chunk" /\ CASE Part = "sl" -> VecSL(v[2]) [] Part = "slr" -> VecSLR(v[2]) [] Part = "bp" -> VecBP(v[2])
                            [] Part = "bpr" -> VecBPR(v[2]) [] Part = "cfg" -> VecCFG(v[2])

(* ------------------------------ model invariants ------------------------- *)
\* homomorphism: every path to the same input transform predicts the same output transform, namely Pred
HomInv == v[1] = "g" => v[3] = Pred(v[2]) /\ v[2] \in Elem

\* transform of an exact lattice expectation by an output map (2 y_pole = 180 on the lattice)
TY(o, e) == IF e[1] = "int" THEN <<"int", o.ay * e[2] + o.cy * 180>> ELSE e
TG(o, e) == IF e[1] = "int" THEN <<"int", Norm180(o.ag * e[2] + o.cg * 180)>> ELSE e
TX(o, e) == IF e[1] = "int" THEN <<"int", o.ax * e[2]>> ELSE e
SameInt(a, b) == (a[1] = "int" /\ b[1] = "int") => (a[2] = b[2] \/ (AbsI(a[2]) = 180 /\ a[2] = -b[2]))

\* the lattice oracle has the symmetries the group model predicts: for a base point of the first quadrant and every
\* reflection element e, SphFwd(e(lat, lam)) = Pred(e)(SphFwd(lat, lam)) wherever both are exact
SphInv ==
  v[1] = "sl" =>
    LET lat == v[4]  lam == Norm180(v[6] - v[3]) IN
    (lat > 0 /\ lam >= 0 /\ lam <= 90 /\ v[7] = 0) =>
      \A slat \in {1, -1}, s \in {1, -1}, b \in {0, 1} :
        LET e == [slat |-> slat, s |-> s, b |-> b, wl |-> 0, w0 |-> 0]
            o == Pred(e)
            base == SphFwd(lat, lam, 0)
            img == SphFwd(slat * lat, Norm180(s * lam + 180 * b), 0)
        IN ~SphSkip(lat, lam) =>
             /\ ~SphSkip(slat * lat, Norm180(s * lam + 180 * b))
             /\ SameInt(img.y, TY(o, base.y)) /\ SameInt(img.g, TG(o, base.g))
             /\ SameInt(img.x, TX(o, base.x)) /\ SameInt(img.k, base.k)

\* SphRev inverts SphFwd on the central meridian and its far side
RevInv ==
  /\ v[1] = "sl" =>
       LET lat == v[4]  lam == Norm180(v[6] - v[3]) IN
       (lam \in {0, 180} /\ v[7] = 0 /\ AbsI(lat) < 90 /\ lat # 0) =>
         LET f == SphFwd(lat, lam, 0)  r == SphRev(v[3], f.y[2]) IN
         /\ r.lat = <<"int", lat>>
         /\ r.lon = <<"lon", Norm180(v[3] + lam)>>
  /\ v[1] = "slr" =>
       LET r == SphRev(v[3], v[4]) IN
       /\ r.lat[1] = "int" /\ AbsI(r.lat[2]) <= 90
       \* Forward of the answer gives the grid point back (mod the +-180 northing of the equator's far side)
       /\ (r.lon[1] = "lon" => LET f == SphFwd(r.lat[2], Norm180(r.lon[2] - v[3]), 0)
                               IN f.x = <<"int", 0>> /\ (f.y = <<"int", v[4]>> \/ (f.y[1] = "pm" /\ AbsI(v[4]) = f.y[2])))

\* the expectation at a reflected branch point is the documented output transform Pred(e) applied to the expectation at
\* the base point (first quadrant), wherever both are exact; the emitted transform is the one the driver has to apply
BpInv ==
  v[1] = "bp" =>
    LET cls == v[2]  d == v[9]
        e == [slat |-> v[6], s |-> v[7], b |-> v[8], wl |-> 0, w0 |-> 0]
        o == Pred(e)  base == BpFwd(cls, Id, d)  img == BpFwd(cls, e, d)
    IN
    /\ Admissible(cls, v[3]) /\ FPos(v[3]) /\ e \in BpElem(cls) /\ SubSeq(v, 10, 14) = DrvOut(o)
    /\ cls <= 2 =>
         /\ img.xs = o.ax * base.xs
         /\ (base.y[1] = "int" => LET t == o.ay * base.y[2] + o.cy * 2 IN IF img.y[1] = "int" THEN img.y[2] = t ELSE AbsI(t) = img.y[2])
         /\ (base.g[1] = "int" => LET t == Norm180(o.ag * base.g[2] + o.cg * 180) IN IF img.g[1] = "int" THEN img.g[2] = t ELSE AbsI(t) = img.g[2])
         /\ img.k = base.k
    /\ cls >= 3 => img = base                                  \* extendp: lat = -0 is the same point
CfgInv ==
  v[1] = "cfg" =>
    /\ Admissible(v[2], v[3]) /\ CtorForms(v[2]) >= 1
    /\ Delegate(v[2]) # -1 => Delegate(Delegate(v[2])) = v[2] /\ Admissible(Delegate(v[2]), v[3])

Emit ==
  /\ v[1] = "g" => PrintT(ToJson(<<"sym", v[2].slat, v[2].s, v[2].b, v[2].wl, v[2].w0>> \o DrvOut(v[3])))
  /\ v[1] \in {"sl", "slr", "bp", "bpr", "cfg"} => PrintT(ToJson(v))
=============================================================================
