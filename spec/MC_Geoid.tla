---------------------------- MODULE MC_Geoid ----------------------------
(* State graph of a Geoid object (all operation histories up to Depth) and  *)
(* the exact bilinear lattice.  Part = "hist": every history of length      *)
(* Depth is emitted; Part = "lat": every lattice position is emitted.       *)
EXTENDS Geoid, TLC, Json

CONSTANTS Cubic, TS, Depth, Part, Stride, NChunks
VARIABLES hist, cached, v

M == IF Cubic THEN 1 ELSE 0
YMax == 8 * (H - 1)
XPer == 8 * W

\* query positions: same cell twice, adjacent cells, the longitude seam, lon = 180, both poles, beyond one period
Queries == {<<19, 21>>, <<21, 22>>, <<27, 21>>, <<8 * W - 3, 37>>, <<2, 37>>, <<4 * W, 45>>, <<-4 * W, 45>>,
            <<5, 0>>, <<4 * W + 5, 3>>, <<77, YMax>>, <<78, YMax - 5>>, <<19 + XPer, 21>>, <<4 * W - 1, 9>>}
\* cache requests <<south, west, north, east>> in eighths (Y8 grows southwards)
Areas == {<<32, 8, 8, 40>>,                      \* around the first queries
          <<48, 8 * W - 16, 24, 16>>,            \* across the longitude seam
          <<16, -4 * W, 0, 4 * W - 1>>,          \* polar cap, nearly all longitudes
          <<YMax, 40, YMax - 9, 100>>,           \* south polar
          <<22, 20, 21, 21>>,                    \* tiny
          <<8, 8, 32, 40>>,                      \* south > north: clears the cache
          <<40, 16, 16, 16>>,                    \* east = west: full circle
          <<24, 8, 24, 40>>,                     \* south = north on a grid line: NOT empty (only south > north is)
          <<21, 8, 21, 40>>}                     \* south = north inside a cell row

Ops == {<<"h", q[1], q[2]>> : q \in Queries} \cup {<<"ca", a[1], a[2], a[3], a[4]>> : a \in Areas} \cup {<<"call">>, <<"cc">>}

NextCached(c, op) ==
  IF TS THEN "all"
  ELSE CASE op[1] = "h" -> c
         [] op[1] = "ca" -> IF op[2] < op[4] THEN "none" ELSE "area"
         [] op[1] = "call" -> "all"
         [] op[1] = "cc" -> "none"

InChunk(S, C) == {x \in S : x % NChunks = C}
LatX == {x \in -8..(XPer + 8) : x % Stride = 0 \/ x % 8 = 0}
LatY == {y \in 0..YMax : (y % Stride = 0 \/ y % 8 = 0) /\ (Kind = "ppoly" => y <= 8 \/ y >= YMax - 8)}
\* command-line tool (GeoidEval): positions = the query positions, heights to convert in quarter metres
ToolHQ == {0, -37, 401, 35999}

Init == hist = <<>> /\ cached = (IF TS THEN "all" ELSE "none") /\ v = <<"root">>
Next ==
  \/ /\ Part = "hist" /\ Len(hist) < Depth
     /\ \E op \in Ops : hist' = Append(hist, op) /\ cached' = NextCached(cached, op) /\ v' = <<"hist">>
  \/ /\ Part = "lat" /\ v = <<"root">> /\ UNCHANGED <<hist, cached>>
     /\ \E c \in 0..(NChunks - 1) : v' = <<"chunk", c>>
  \/ /\ Part = "lat" /\ v[1] = "chunk" /\ UNCHANGED <<hist, cached>>
     /\ \E x \in InChunk(LatX, v[2]), y \in LatY : v' = <<"q", x, y>>
  \/ /\ Part = "tool" /\ v = <<"root">> /\ UNCHANGED <<hist, cached>>
     /\ \E q \in Queries, k \in ToolHQ : v' = <<"t", q[1], q[2], k>>

(* ----- model invariants: the documented properties of bilinear interpolation ----- *)
BilinearInv ==
  v[1] = "q" /\ Kind = "grid" =>
    LET x == v[2]  y == v[3] IN
    \* periodic in longitude
    /\ H64(x + XPer, y) = H64(x, y) /\ H64(x - XPer, y) = H64(x, y)
    \* reproduces the grid values at grid nodes
    /\ (x % 8 = 0 /\ y % 8 = 0 => H64(x, y) = 64 * RawVal(x \div 8, y \div 8))
    \* linear along cell edges
    /\ (y % 8 = 0 => H64(x, y) = 8 * ((8 - FracX(x)) * RawVal(CellX(x), y \div 8) + FracX(x) * RawVal(CellX(x) + 1, y \div 8)))
    /\ (x % 8 = 0 /\ y < YMax => H64(x, y) = 8 * ((8 - FracY(y)) * RawVal(x \div 8, CellY(y)) + FracY(y) * RawVal(x \div 8, CellY(y) + 1)))
    \* continuous across cell boundaries: the value from the cell on the other side (fraction 8) agrees
    /\ (x % 8 = 0 => LET ix == CellX(x - 8)  iy == CellY(y)  fy == FracY(y)
                     IN H64(x, y) = (8 - fy) * 8 * RawVal(ix + 1, iy) + fy * 8 * RawVal(ix + 1, iy + 1))
    \* bounded by the surrounding grid values
    /\ LET ix == CellX(x)  iy == CellY(y)
           S == {RawVal(ix, iy), RawVal(ix + 1, iy), RawVal(ix, iy + 1), RawVal(ix + 1, iy + 1)}
       IN \A s \in S : (\A t \in S : s <= t) => 64 * s <= H64(x, y)

\* "ppoly": in the polar cell rows every point of the documented 12-point stencil (rows iy-1..iy+2, columns ix-1..ix+2
\* without the corners; the row beyond the pole by the documented reflection) carries the value of ONE cubic PQ(u, d),
\* and PQ512 is that cubic at the query position (checked at the nodes, where it must be 512 times the pixel)
PPolyInv ==
  v[1] = "q" /\ Kind = "ppoly" /\ PolarInterior(v[2], v[3]) =>
    LET ix == CellX(v[2])  iy == CellY(v[3])
        u0 == (ix % Wh) - Wq   sg == IF ix < Wh THEN 1 ELSE -1
        D(row) == IF iy = 0 THEN row ELSE (H - 1) - row
    IN /\ \A dx \in -1..2, dy \in -1..2 :
            (dx \in {0, 1} \/ dy \in {0, 1}) => RawVal(ix + dx, iy + dy) = PQ(u0 + dx, sg * D(iy + dy))
       /\ (v[2] % 8 = 0 /\ v[3] % 8 = 0 => PQ512(v[2], v[3]) = 512 * RawVal(v[2] \div 8, v[3] \div 8))
       /\ (v[3] = 0 \/ v[3] = YMax => PQ512(v[2], v[3]) = 512 * 30000)     \* independent of longitude at the pole

\* pixel values fit the file format
PixInv == v[1] = "q" => LET p == RawVal(CellX(v[2]), CellY(v[3])) IN p >= 0 /\ p <= 65535 /\ (Kind = "ppoly" => W % 4 = 0 /\ H >= 9)

\* history invariants: the cache flag is determined by the last cache operation
HistInv ==
  Part = "hist" =>
    /\ cached \in {"none", "area", "all"}
    /\ (TS => cached = "all")
    /\ (hist # <<>> /\ hist[Len(hist)][1] = "cc" /\ ~TS => cached = "none")

Emit ==
  /\ (Part = "hist" /\ Len(hist) = Depth => PrintT(ToJson(<<"hist", hist>>)))
  /\ (v[1] \in {"q", "t"} => PrintT(ToJson(v)))
=============================================================================
