---------------------------- MODULE MC_Contract ----------------------------
(* Fault enumeration: every entry x argument position x special value class, *)
(* byte strings for the parsers, corrupted nearest-neighbour saves.           *)
EXTENDS Contract, TLC, Json

CONSTANTS NChunks, StrDepth, Depth12, Depth8
VARIABLE v

N == Len(Entries)
Parsers == {"dms", "dmslatlon", "dmsangle", "dmsazi", "geocoords", "mgrs", "mgrsdecode", "osgb", "geohash", "gars", "georef", "zone", "val", "valint", "fract", "date", "parseline"}
DmsParsers == {"dms", "dmslatlon", "dmsangle", "dmsazi"}
\* abstract alphabet of bytes: digits, point, signs, DMS symbols, letters with a role, space, exponent, NUL, high bytes
Alpha == {48, 49, 57, 46, 43, 45, 100, 39, 34, 58, 78, 83, 69, 87, 32, 101, 0, 226, 128, 178, 194, 176, 110, 97, 105, 118, 47, 44}

\* reduced alphabets for longer strings: digits, point, sign, the DMS symbols, one hemisphere letter, space
Alpha12 == {48, 49, 57, 46, 45, 100, 39, 34, 58, 78, 69, 32}
Alpha8 == {49, 57, 46, 45, 100, 39, 58, 78}

(* Long digit runs as a lattice dimension (they reach the fixed buffers and the integer accumulators of the parsers, which the *)
(* short exhaustive strings cannot): prefix \o d^k \o suffix, where prefix and suffix are the empty string or pieces of the    *)
(* strings the parser accepts, d is a digit and k runs over lengths around the capacities in the documentation (2 zone digits,  *)
(* 11 + 11 MGRS / 22 OSGB digits, geohash length 18, 9-10 digits of a 32-bit int, 19-20 of a 64-bit one).                          *)
Run(d, k) == [i \in 1..k |-> d]
RunLens == {6, 7, 8, 9, 10, 11, 12, 18, 19, 20, 22, 23, 24, 25, 32}
Pre(p) ==
  CASE p = "mgrs" -> {<<>>, <<51, 56, 83>>, <<51, 56, 83, 77, 66>>, <<66>>, <<66, 65, 78>>}                      \* '' 38S 38SMB B BAN
    [] p = "mgrsdecode" -> {<<>>, <<51, 56, 83>>, <<51, 56, 83, 77, 66>>, <<66>>}
    [] p = "geocoords" -> {<<>>, <<51, 56, 83, 77, 66>>, <<51, 51, 78, 32>>, <<51, 51, 78, 32, 52, 52, 52, 53, 48, 48, 32>>, <<49, 32>>}   \* '' 38SMB '33N ' '33N 444500 ' '1 '
    [] p = "zone" -> {<<>>, <<45>>, <<43>>}                                                                        \* '' - +
    [] p = "date" -> {<<>>, <<50, 48, 50, 48, 45>>, <<50, 48, 50, 48, 45, 48, 53, 45>>}                            \* '' 2020- 2020-05-
    [] p \in {"val", "valint", "fract"} -> {<<>>, <<45>>, <<49, 46>>, <<49, 101>>, <<49, 47>>}                     \* '' - 1. 1e 1/
    [] p \in DmsParsers -> {<<>>, <<45>>, <<49, 58>>, <<49, 58, 50, 58>>, <<49, 100>>, <<49, 46>>, <<49, 100, 50, 39>>}   \* '' - 1: 1:2: 1d 1. 1d2'
    [] p = "osgb" -> {<<>>, <<83, 85>>, <<83>>}                                                                    \* '' SU S
    [] p = "geohash" -> {<<>>, <<101, 122, 115>>}                                                                  \* '' ezs
    [] p = "gars" -> {<<>>, <<48, 48, 54, 65, 71>>}                                                                \* '' 006AG
    [] p = "georef" -> {<<>>, <<71, 74, 80, 74>>, <<71, 74>>}                                                      \* '' GJPJ GJ
    [] OTHER -> {<<>>, <<107, 32, 61, 32>>}                                                                        \* '' 'k = '
Suf(p) ==
  CASE p = "mgrs" -> {<<>>, <<83, 77, 66>>, <<83, 77, 66, 52, 52, 56, 56>>, <<65, 78>>}                            \* '' SMB SMB4488 AN
    [] p = "mgrsdecode" -> {<<>>, <<83, 77, 66>>, <<83, 77, 66, 52, 52, 56, 56>>}
    [] p = "geocoords" -> {<<>>, <<83, 77, 66>>, <<32, 49>>, <<78, 32, 49>>, <<78, 32, 52, 52, 52, 53, 48, 48, 32, 51, 54, 56, 56, 53, 48, 48>>}   \* '' SMB ' 1' 'N 1' 'N 444500 3688500'
    [] p = "zone" -> {<<>>, <<78>>, <<110>>, <<110, 111, 114, 116, 104>>}                                          \* '' N n north
    [] p = "date" -> {<<>>, <<45, 48, 53, 45, 50, 53>>, <<45, 48, 53>>, <<45, 50, 53>>}                            \* '' -05-25 -05 -25
    [] p \in {"val", "valint", "fract"} -> {<<>>, <<46, 53>>, <<101, 49>>, <<47, 51>>}                             \* '' .5 e1 /3
    [] p \in DmsParsers -> {<<>>, <<78>>, <<58, 49>>, <<100, 49, 39>>, <<101, 49>>, <<34>>}                        \* '' N :1 d1' e1 "
    [] p = "osgb" -> {<<>>, <<83, 85>>}
    [] p = "geohash" -> {<<>>, <<122>>}
    [] p = "gars" -> {<<>>, <<65, 71, 51, 57>>, <<65, 71>>}                                                        \* '' AG39 AG
    [] p = "georef" -> {<<>>, <<80, 74>>}
    [] OTHER -> {<<>>, <<32, 35, 32, 99>>}                                                                         \* '' ' # c'
(* DMS component sequences: 1 s 1 s 1 ... with every choice of the separators s in {: d ' "}, up to four separators (the     *)
(* documentation allows three components; a fourth must be refused)                                                          *)
DmsSeps == {58, 100, 39, 34}
IsCompSeq(b) == Len(b) >= 1 /\ \A k \in 1..Len(b) : IF k % 2 = 1 THEN b[k] = 49 ELSE b[k] \in DmsSeps

\* model-file fixtures: NumModels x NumConstants of the magnetic model (mag = 1,1), gravity model with a correction set of degree 2
\* (grv) and with an empty one (grv0: N = M = -1, allowed by the format)
MKinds == {"mag", "mag10", "mag20", "mag21", "grv", "grv0"}

ValClasses == {"nan", "inf", "neg", "zero", "huge", "maxint", "bigint", "word", "two", "frac", "empty"}

Init == v = <<"root">>
Next ==
  \/ v = <<"root">> /\ \E c \in 0..(NChunks - 1) : v' = <<"chunk", c>>
  \/ v[1] = "chunk" /\ \E i \in {j \in 1..N : j % NChunks = v[2]}, cl \in Classes :
        \E pos \in 1..Len(Entries[i].a) : v' = <<"call", Entries[i].n, pos, cl>>
  \* short strings over the abstract alphabet, exhaustively up to StrDepth
  \/ v[1] = "chunk" /\ v[2] = 0 /\ \E p \in Parsers : v' = <<"str", p, <<>>>>
  \/ v[1] = "str" /\ Len(v[3]) < StrDepth /\ \E b \in Alpha : v' = <<"str", v[2], Append(v[3], b)>>
  \/ v[1] = "str" /\ Len(v[3]) < Depth12 /\ (\A k \in 1..Len(v[3]) : v[3][k] \in Alpha12) /\ \E b \in Alpha12 : v' = <<"str", v[2], Append(v[3], b)>>
  \/ v[1] = "str" /\ Len(v[3]) < Depth8 /\ (\A k \in 1..Len(v[3]) : v[3][k] \in Alpha8) /\ \E b \in Alpha8 : v' = <<"str", v[2], Append(v[3], b)>>
  \* long digit runs between pieces of valid strings; DMS component sequences
  \/ v[1] = "chunk" /\ \E p \in Parsers, k \in {q \in RunLens : q % NChunks = v[2]}, d \in {49, 57} :
        \E pre \in Pre(p), suf \in Suf(p) : v' = <<"str", p, pre \o Run(d, k) \o suf>>
  \/ v[1] = "str" /\ v[2] \in DmsParsers /\ Len(v[3]) < 9 /\ IsCompSeq(v[3]) /\
        \E b \in (IF Len(v[3]) % 2 = 1 THEN DmsSeps ELSE {49}) : v' = <<"str", v[2], Append(v[3], b)>>
  \* corrupted saves: truncation at every length, byte faults at every offset
  \/ v[1] = "chunk" /\ v[2] = 0 /\ \E m \in {"text", "bin"} : v' = <<"nn", m, "none", 0>>                                    \* the unfaulted saves load
  \/ v[1] = "chunk" /\ \E m \in {"text", "bin"}, f \in {"truncate", "flipbyte", "zero", "ff", "append", "digit", "tok-ts", "tok-ts1", "tok-np", "tok-np1", "tok-m1", "tok-m2", "tok-big"},
        p \in {q \in 0..400 : q % NChunks = v[2]} : v' = <<"nn", m, f, p>>
  \* re-initialisation of an initialised NearestNeighbor that fails at every possible point: a bad bucket size, the k-th call of
  \* the distance function throwing (k over every call Initialize makes), the k-th memory allocation failing; sizes of the old
  \* and the new point set differ or coincide ("If an exception is thrown, the state of the NearestNeighbor is unchanged")
  \/ v[1] = "chunk" /\ \E old \in {0, 5, 40}, new \in {0, 3, 40, 41}, b \in {0, 4, 10} :
        \/ \E k \in {q \in 0..260 : q % NChunks = v[2]} : v' = <<"nninit", old, new, b, "dist", k>>
        \/ \E k \in {q \in 0..24 : q % NChunks = v[2]} : v' = <<"nninit", old, new, b, "alloc", k>>
  \/ v[1] = "chunk" /\ v[2] = 2 /\ \E old \in {0, 5, 40}, new \in {0, 3, 40, 41}, b \in {-1, 11, 2000000000} : v' = <<"nninit", old, new, b, "none", 0>>

  \* malformed model files (metadata text and binary coefficient file of MagneticModel / GravityModel): byte faults at every
  \* offset, line faults (dropped / duplicated keyword, value replaced by a special class), set-header words replaced
  \/ v[1] = "chunk" /\ v[2] = 0 /\ \E k \in MKinds, pt \in {"meta", "cof"} : v' = <<"mfile", k, pt, "none", 0>>   \* the unfaulted files load
  \/ v[1] = "chunk" /\ \E k \in {"mag", "grv"}, f \in {"truncate", "flipbyte", "zero", "ff"},
        p \in {q \in 0..460 : q % NChunks = v[2]} : v' = <<"mfile", k, "meta", f, p>>
  \/ v[1] = "chunk" /\ \E k \in {"mag", "grv"}, f \in {"dropline", "dupline"} \cup {"val-" \o c : c \in ValClasses},
        p \in {q \in 0..19 : q % NChunks = v[2]} : v' = <<"mfile", k, "meta", f, p>>
  \/ v[1] = "chunk" /\ \E k \in {"mag", "grv", "grv0"}, f \in {"truncate", "flipbyte", "zero", "ff", "append"},
        p \in {q \in 0..370 : q % NChunks = v[2]} : v' = <<"mfile", k, "cof", f, p>>
  \/ v[1] = "chunk" /\ \E k \in {"mag", "grv", "grv0", "mag20"}, f \in {"word-" \o c : c \in {"m1", "m2", "max", "min", "n1", "e5", "e4", "64k"}},
        p \in {q \in 0..90 : q % NChunks = v[2]} : v' = <<"mfile", k, "cof", f, p>>
  \* both header words of a coefficient set replaced: (-1,-1), (0,0), (N,N+1), (0,-1) with the data kept; "empty": the set replaced
  \* by a well-formed empty set (N = M = -1 and no coefficients)
  \/ v[1] = "chunk" /\ v[2] = 1 /\ \E k \in MKinds, f \in {"pair-m1", "pair-00", "pair-n1", "pair-0m1", "empty"}, p \in 0..3 : v' = <<"mfile", k, "cof", f, p>>

  \* malformed geoid rasters: byte faults at every offset of header and data, line faults, value classes for every header field
  \/ v[1] = "chunk" /\ v[2] = 0 /\ v' = <<"gfile", "none", 0>>
  \/ v[1] = "chunk" /\ \E f \in {"truncate", "flipbyte", "zero", "ff", "append"}, p \in {q \in 0..420 : q % NChunks = v[2]} : v' = <<"gfile", f, p>>
  \/ v[1] = "chunk" /\ \E f \in {"dropline", "dupline"} \cup {"val-" \o c : c \in ValClasses}, p \in {q \in 0..10 : q % NChunks = v[2]} : v' = <<"gfile", f, p>>
  \/ v[1] = "chunk" /\ \E f \in {"dim-" \o c : c \in ValClasses}, p \in {q \in 0..2 : q % NChunks = v[2]} : v' = <<"gfile", f, p>>

\* the table is well formed
TableInv ==
  /\ \A i, j \in 1..N : i # j => Entries[i].n # Entries[j].n
  /\ \A i \in 1..N : Entries[i].k \in {"ctor", "member", "validating", "nothrow"} /\ Len(Entries[i].a) >= 1
  /\ \A i \in 1..N : Entries[i].k = "ctor" => Entries[i].o = 0
  \* every sort rejects NaN for constructors and accepts an ordinary value
  /\ \A s \in {"a", "k0", "gm", "omega", "f", "fpos", "stdlat"} : Invalid(s, "nan") /\ ~Invalid(s, "tiny")
  \* the entries with a documented NaN marker exist, validate, and no sort of theirs calls NaN invalid
  /\ \A nm \in NanDocumented : \E i \in 1..N : Entries[i].n = nm /\ Entries[i].k = "validating"
                                                /\ \A j \in 1..Len(Entries[i].a) : ~Invalid(Entries[i].a[j], "nan")

Emit == v[1] \in {"call", "str", "nn", "nninit", "mfile", "gfile"} => PrintT(ToJson(v))
=============================================================================
