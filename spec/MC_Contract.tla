---------------------------- MODULE MC_Contract ----------------------------
(* Fault enumeration: every entry x argument position x special value class, *)
(* byte strings for the parsers, corrupted nearest-neighbour saves.           *)
EXTENDS Contract, TLC, Json

CONSTANTS NChunks, StrDepth, Depth12, Depth8
VARIABLE v

N == Len(Entries)
Parsers == {"dms", "dmslatlon", "dmsangle", "dmsazi", "geocoords", "mgrs", "osgb", "geohash", "gars", "georef", "zone", "val", "valint", "fract", "date", "parseline"}
\* abstract alphabet of bytes: digits, point, signs, DMS symbols, letters with a role, space, exponent, NUL, high bytes
Alpha == {48, 49, 57, 46, 43, 45, 100, 39, 34, 58, 78, 83, 69, 87, 32, 101, 0, 226, 128, 178, 194, 176, 110, 97, 105, 118, 47, 44}

\* reduced alphabets for longer strings: digits, point, sign, the DMS symbols, one hemisphere letter, space
Alpha12 == {48, 49, 57, 46, 45, 100, 39, 34, 58, 78, 69, 32}
Alpha8 == {49, 57, 46, 45, 100, 39, 58, 78}

ValClasses == {"nan", "inf", "neg", "zero", "huge", "maxint", "bigint", "word", "two", "frac", "empty"}

Init == v = <<"root">>
Next ==
  \/ v = <<"root">> /\ \E c \in 0..(NChunks - 1) : v' = <<"chunk", c>>
  \/ v[1] = "chunk" /\ \E i \in {j \in 1..N : j % NChunks = v[2]}, cl \in Classes :
        \E pos \in 1..Len(Entries[i].a) : v' = <<"call", Entries[i].n, pos, cl>>
  \* short strings over the abstract alphabet, exhaustively up to StrDepth
  \/ v[1] = "chunk" /\ v[2] = 0 /\ \E p \in Parsers : v' = <<"str", p, <<>>>>
  \/ v[1] = "str" /\ Len(v[3]) < StrDepth /\ \E b \in Alpha : v' = <<"str", v[2], Append(v[3], b)>>
  \/ v[1] = "str" /\ Len(v[3]) < Depth12 /\ (\A k \in 1..Len(v[3]) : v[3][k] \in Alpha12) /\ \E b \in Alpha12 : v' = <<"str", v[2], Append(v[3], b)>>
  \/ v[1] = "str" /\ Len(v[3]) < Depth8 /\ (\A k \in 1..Len(v[3]) : v[3][k] \in Alpha8) /\ \E b \in Alpha8 : v' = <<"str", v[2], Append(v[3], b)>>
  \* corrupted saves: truncation at every length, byte faults at every offset
  \/ v[1] = "chunk" /\ v[2] = 0 /\ \E m \in {"text", "bin"} : v' = <<"nn", m, "none", 0>>                                    \* the unfaulted saves load
  \/ v[1] = "chunk" /\ \E m \in {"text", "bin"}, f \in {"truncate", "flipbyte", "zero", "ff", "append", "digit", "tok-ts", "tok-ts1", "tok-np", "tok-np1", "tok-m1", "tok-m2", "tok-big"},
        p \in {q \in 0..400 : q % NChunks = v[2]} : v' = <<"nn", m, f, p>>

  \* malformed model files (metadata text and binary coefficient file of MagneticModel / GravityModel): byte faults at every
  \* offset, line faults (dropped / duplicated keyword, value replaced by a special class), set-header words replaced
  \/ v[1] = "chunk" /\ v[2] = 0 /\ \E k \in {"mag", "grv"}, pt \in {"meta", "cof"} : v' = <<"mfile", k, pt, "none", 0>>   \* the unfaulted files load
  \/ v[1] = "chunk" /\ \E k \in {"mag", "grv"}, f \in {"truncate", "flipbyte", "zero", "ff"},
        p \in {q \in 0..460 : q % NChunks = v[2]} : v' = <<"mfile", k, "meta", f, p>>
  \/ v[1] = "chunk" /\ \E k \in {"mag", "grv"}, f \in {"dropline", "dupline"} \cup {"val-" \o c : c \in ValClasses},
        p \in {q \in 0..19 : q % NChunks = v[2]} : v' = <<"mfile", k, "meta", f, p>>
  \/ v[1] = "chunk" /\ \E k \in {"mag", "grv"}, f \in {"truncate", "flipbyte", "zero", "ff", "append"},
        p \in {q \in 0..370 : q % NChunks = v[2]} : v' = <<"mfile", k, "cof", f, p>>
  \/ v[1] = "chunk" /\ \E k \in {"mag", "grv"}, f \in {"word-" \o c : c \in {"m1", "m2", "max", "min", "n1", "e5", "e4", "64k"}},
        p \in {q \in 0..90 : q % NChunks = v[2]} : v' = <<"mfile", k, "cof", f, p>>

  \* malformed geoid rasters: byte faults at every offset of header and data, line faults, value classes for every header field
  \/ v[1] = "chunk" /\ v[2] = 0 /\ v' = <<"gfile", "none", 0>>
  \/ v[1] = "chunk" /\ \E f \in {"truncate", "flipbyte", "zero", "ff", "append"}, p \in {q \in 0..420 : q % NChunks = v[2]} : v' = <<"gfile", f, p>>
  \/ v[1] = "chunk" /\ \E f \in {"dropline", "dupline"} \cup {"val-" \o c : c \in ValClasses}, p \in {q \in 0..10 : q % NChunks = v[2]} : v' = <<"gfile", f, p>>
  \/ v[1] = "chunk" /\ \E f \in {"dim-" \o c : c \in ValClasses}, p \in {q \in 0..2 : q % NChunks = v[2]} : v' = <<"gfile", f, p>>

\* the table is well formed
TableInv ==
  /\ \A i, j \in 1..N : i # j => Entries[i].n # Entries[j].n
  /\ \A i \in 1..N : Entries[i].k \in {"ctor", "member", "validating", "nothrow"} /\ Len(Entries[i].a) >= 1
  /\ \A i \in 1..N : Entries[i].k = "ctor" => Entries[i].o = 0
  \* every sort rejects NaN for constructors and accepts an ordinary value
  /\ \A s \in {"a", "k0", "gm", "omega", "f", "fpos", "stdlat"} : Invalid(s, "nan") /\ ~Invalid(s, "tiny")

Emit == v[1] \in {"call", "str", "nn", "mfile", "gfile"} => PrintT(ToJson(v))
=============================================================================
