INIT Init
NEXT Next
CONSTANTS TolLat = 704 CV = 32 CG = 32 TolC = 16 TolNG = 64 TolNewton = 128 TolFDO = 45036
POSTCONDITION Summary
CHECK_DEADLOCK FALSE
