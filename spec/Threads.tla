------------------------------- MODULE Threads -------------------------------
(***************************************************************************)
(* Concurrent use of shared immutable objects (property C14).              *)
(*                                                                          *)
(* A const entry point of the library is an ACCESS PROGRAM: the sequence of *)
(* shared-memory location classes it touches, taken from reading the code:  *)
(*   <<"r", o>>  reads members of the shared object o that are written only *)
(*               by its constructor (happens-before the threads start)      *)
(*   <<"s", x>>  uses the function-local static x (C++11 "magic static":    *)
(*               guarded initialisation on first use, then plain reads)     *)
(*   <<"c", o>>  uses a coefficient cache of the shared object o.           *)
(*               Protocol "eager": filled by the constructor, read only.    *)
(*               Protocol "lazy" : test a sentinel, fill on first use       *)
(*               WITHOUT synchronisation (what AuxLatitude did before the   *)
(*               fix; kept as the negative control of the model).           *)
(* Threads run one program each on the same object, starting together,      *)
(* "cold" (nothing initialised: first touch is concurrent) or "warm".       *)
(*                                                                          *)
(* NoRace: there is no reachable state in which two threads are both about  *)
(* to access the same non-atomic location and one of the accesses is a      *)
(* write.  Guard operations of a magic static are atomic and order the      *)
(* initialising write before every read (waiters are blocked).              *)
(***************************************************************************)
EXTENDS Integers, Sequences, FiniteSets

CONSTANTS NThreads, Protocol

\* ---- access programs of the const entry points (object kinds are abstract names) ----
Prog(name) ==
  CASE name = "geod_wgs84"     -> << <<"s", "Geodesic::WGS84">>, <<"r", "geod">> >>
    [] name = "geod_obj"       -> << <<"r", "geod">> >>
    [] name = "geodex_wgs84"   -> << <<"s", "GeodesicExact::WGS84">>, <<"r", "geodex">> >>
    [] name = "geodex_obj"     -> << <<"r", "geodex">> >>
    [] name = "geodexact_true" -> << <<"r", "geod">>, <<"r", "geodex">> >>
    [] name = "line_pos"       -> << <<"r", "line">> >>
    [] name = "lineex_pos"     -> << <<"r", "lineex">> >>
    [] name = "rhumb_wgs84"    -> << <<"s", "Rhumb::WGS84">>, <<"r", "rhumb">>, <<"c", "aux">> >>
    [] name = "rhumb_series"   -> << <<"r", "rhumb">>, <<"c", "aux">> >>
    [] name = "rhumb_exact"    -> << <<"r", "rhumb">>, <<"r", "aux">> >>
    [] name = "rhumbline_pos"  -> << <<"r", "rhumbline">>, <<"r", "rhumb">>, <<"c", "aux">> >>
    [] name = "tm_utm"         -> << <<"s", "TransverseMercator::UTM">>, <<"r", "tm">> >>
    [] name = "tm_obj"         -> << <<"r", "tm">> >>
    [] name = "tmx_utm"        -> << <<"s", "TransverseMercatorExact::UTM">>, <<"r", "tmx">> >>
    [] name = "ps_ups"         -> << <<"s", "PolarStereographic::UPS">>, <<"r", "ps">> >>
    [] name = "lcc_mercator"   -> << <<"s", "LambertConformalConic::Mercator">>, <<"r", "lcc">> >>
    [] name = "lcc_obj"        -> << <<"r", "lcc">> >>
    [] name = "albers_cea"     -> << <<"s", "AlbersEqualArea::CylindricalEqualArea">>, <<"r", "albers">> >>
    [] name = "albers_obj"     -> << <<"r", "albers">> >>
    [] name = "albers_aea_north" -> << <<"s", "AlbersEqualArea::AzimuthalEqualAreaNorth">>, <<"r", "albers">> >>
    [] name = "albers_aea_south" -> << <<"s", "AlbersEqualArea::AzimuthalEqualAreaSouth">>, <<"r", "albers">> >>
    [] name = "geoc_wgs84"     -> << <<"s", "Geocentric::WGS84">>, <<"r", "geoc">> >>
    [] name = "geoc_obj"       -> << <<"r", "geoc">> >>
    [] name = "local_obj"      -> << <<"r", "local">>, <<"r", "geoc">> >>
    [] name = "ell_wgs84"      -> << <<"s", "Ellipsoid::WGS84">>, <<"r", "ell">>, <<"c", "aux">> >>
    [] name = "aux_series"     -> << <<"c", "aux">> >>
    [] name = "aux_exact"      -> << <<"r", "aux">> >>
    \* an AuxLatitude made by the other documented route, AuxLatitude::axes(a, b), has its own cache
    [] name = "aux_axes_series" -> << <<"c", "auxaxes">> >>
    [] name = "aux_wgs84"      -> << <<"s", "AuxLatitude::WGS84">>, <<"c", "aux">> >>
    [] name = "daux_series"    -> << <<"c", "aux">> >>
    [] name = "elliptic_obj"   -> << <<"r", "ef">> >>
    [] name = "normgrav_wgs84" -> << <<"s", "NormalGravity::WGS84">>, <<"r", "ng">> >>
    [] name = "normgrav_grs80" -> << <<"s", "NormalGravity::GRS80">>, <<"r", "ng">> >>
    [] name = "harmonic_obj"   -> << <<"r", "sh">>, <<"r", "roottable">> >>
    [] name = "circle_obj"     -> << <<"r", "circle">>, <<"r", "roottable">> >>
    [] name = "geoid_ts"       -> << <<"r", "geoid">> >>
    [] name = "utmups_fwd"     -> << <<"s", "TransverseMercator::UTM">>, <<"r", "tm">>, <<"s", "PolarStereographic::UPS">>, <<"r", "ps">> >>
    [] name = "mgrs_fwd"       -> << <<"s", "TransverseMercator::UTM">>, <<"r", "tm">>, <<"s", "PolarStereographic::UPS">>, <<"r", "ps">> >>
    [] name = "osgb_fwd"       -> << <<"s", "OSGB::OSGBTM">>, <<"s", "OSGB::northoffset">>, <<"r", "tm">> >>
    [] name = "dms_codec"      -> << <<"r", "dmstables">> >>
    [] name = "gridcodes"      -> << <<"s", "Geohash::shift">>, <<"r", "gridtables">> >>
    [] name = "azeq_obj"       -> << <<"r", "geod">> >>
    [] name = "gnomonic_obj"   -> << <<"r", "geod">> >>
    [] name = "cassini_obj"    -> << <<"r", "cassini">>, <<"r", "geod">> >>
    [] name = "dst_obj"        -> << <<"r", "dst">> >>
    \* data-file models (read once by the constructor), their circles, and const members that create line / circle objects
    [] name = "gravmodel_obj"    -> << <<"r", "gm">>, <<"r", "roottable">> >>
    [] name = "gravcircle_obj"   -> << <<"r", "gcirc">>, <<"r", "roottable">> >>
    [] name = "gravmodel_circle" -> << <<"r", "gm">>, <<"r", "roottable">> >>
    [] name = "magmodel_obj"     -> << <<"r", "mm">>, <<"r", "roottable">> >>
    [] name = "magcircle_obj"    -> << <<"r", "mcirc">>, <<"r", "roottable">> >>
    [] name = "magmodel_circle"  -> << <<"r", "mm">>, <<"r", "roottable">> >>
    [] name = "geod_line_make"   -> << <<"r", "geod">> >>
    [] name = "geodex_line_make" -> << <<"r", "geodex">> >>
    [] name = "rhumb_line_make"  -> << <<"r", "rhumb">>, <<"c", "aux">> >>
    [] name = "ps_obj"           -> << <<"r", "ps">> >>
    [] name = "tmx_obj"          -> << <<"r", "tmx">> >>
    [] name = "ell_obj"          -> << <<"r", "ell">>, <<"c", "aux">> >>
    [] name = "normgrav_obj"     -> << <<"r", "ng">> >>
    [] name = "geoid_ts_bilinear" -> << <<"r", "geoidl">> >>

Names == {"geod_wgs84", "geod_obj", "geodex_wgs84", "geodex_obj", "geodexact_true", "line_pos", "lineex_pos", "rhumb_wgs84",
          "rhumb_series", "rhumb_exact", "rhumbline_pos", "tm_utm", "tm_obj", "tmx_utm", "ps_ups", "lcc_mercator", "lcc_obj",
          "albers_cea", "albers_obj", "geoc_wgs84", "local_obj", "ell_wgs84", "aux_series", "aux_exact", "daux_series",
          "elliptic_obj", "normgrav_wgs84", "harmonic_obj", "circle_obj", "geoid_ts", "utmups_fwd", "mgrs_fwd", "osgb_fwd",
          "dms_codec", "gridcodes", "azeq_obj", "gnomonic_obj", "cassini_obj", "dst_obj",
          "gravmodel_obj", "gravcircle_obj", "gravmodel_circle", "magmodel_obj", "magcircle_obj", "magmodel_circle",
          "geod_line_make", "geodex_line_make", "rhumb_line_make", "ps_obj", "tmx_obj", "ell_obj", "normgrav_obj", "geoid_ts_bilinear",
          "albers_aea_north", "albers_aea_south", "geoc_obj", "aux_axes_series", "aux_wgs84", "normgrav_grs80"}

Threads == 1..NThreads

VARIABLES cfg,        \* <<programA, programB, cold>>: the configuration being explored
          pc,         \* pc[t]: index of the next step of thread t's program
          sub,        \* sub[t]: micro-step within a step (0 = not started)
          stat,       \* stat[x] in {"uninit", "busy", "done"} for every static x
          owner,      \* owner[x]: thread initialising x
          filled      \* filled[o]: the lazy cache of o has been filled
vars == <<cfg, pc, sub, stat, owner, filled>>

ProgOf(t) == Prog(IF t % 2 = 1 THEN cfg[1] ELSE cfg[2])
Step(t) == ProgOf(t)[pc[t]]
Done(t) == pc[t] > Len(ProgOf(t))
Statics == {"Geodesic::WGS84", "GeodesicExact::WGS84", "Rhumb::WGS84", "TransverseMercator::UTM", "TransverseMercatorExact::UTM",
            "PolarStereographic::UPS", "LambertConformalConic::Mercator", "AlbersEqualArea::CylindricalEqualArea", "Geocentric::WGS84",
            "Ellipsoid::WGS84", "NormalGravity::WGS84", "OSGB::OSGBTM", "OSGB::northoffset", "Geohash::shift",
            "AlbersEqualArea::AzimuthalEqualAreaNorth", "AlbersEqualArea::AzimuthalEqualAreaSouth", "NormalGravity::GRS80", "AuxLatitude::WGS84"}
\* the statics whose use the driver can observe (singleton accessors and OSGB's north offset, intercepted at link time)
Observable == Statics \ {"Geohash::shift"}
Objs == {"geod", "geodex", "line", "lineex", "rhumb", "rhumbline", "aux", "tm", "tmx", "ps", "lcc", "albers", "geoc", "local", "ell",
         "ef", "ng", "sh", "roottable", "circle", "geoid", "dmstables", "gridtables", "cassini", "dst", "gm", "mm", "gcirc", "mcirc", "geoidl", "auxaxes"}

\* the non-atomic memory access thread t performs in its NEXT micro-step: <<location, "R"/"W">> or <<>>
NextAccess(t) ==
  IF Done(t) THEN <<>>
  ELSE LET s == Step(t) IN
    CASE s[1] = "r" -> <<s[2], "R">>
      [] s[1] = "s" -> IF stat[s[2]] = "done" THEN <<s[2], "R">>
                       ELSE IF stat[s[2]] = "busy" /\ owner[s[2]] = t THEN <<s[2], "W">>
                       ELSE <<>>                                       \* guard test / waiting: atomic, no plain access
      [] s[1] = "c" -> IF Protocol = "eager" THEN <<s[2] \o ".cache", "R">>
                       ELSE IF sub[t] = 0 THEN <<s[2] \o ".cache", "R">>       \* test the sentinel
                       ELSE <<s[2] \o ".cache", "W">>                           \* fill

\* a thread blocked on a static being initialised by another thread cannot move
Blocked(t) == ~Done(t) /\ Step(t)[1] = "s" /\ stat[Step(t)[2]] = "busy" /\ owner[Step(t)[2]] # t

Advance(t) == pc' = [pc EXCEPT ![t] = @ + 1] /\ sub' = [sub EXCEPT ![t] = 0]

Move(t) ==
  /\ ~Done(t) /\ ~Blocked(t)
  /\ LET s == Step(t) IN
     CASE s[1] = "r" -> Advance(t) /\ UNCHANGED <<stat, owner, filled>>
       [] s[1] = "s" ->
            IF stat[s[2]] = "uninit"
            THEN stat' = [stat EXCEPT ![s[2]] = "busy"] /\ owner' = [owner EXCEPT ![s[2]] = t] /\ UNCHANGED <<pc, sub, filled>>
            ELSE IF stat[s[2]] = "busy"     \* owner: construct the object, then release
            THEN stat' = [stat EXCEPT ![s[2]] = "done"] /\ UNCHANGED <<owner, pc, sub, filled>>
            ELSE Advance(t) /\ UNCHANGED <<stat, owner, filled>>
       [] s[1] = "c" ->
            IF Protocol = "eager" THEN Advance(t) /\ UNCHANGED <<stat, owner, filled>>
            ELSE IF sub[t] = 0
            THEN IF filled[s[2]] THEN Advance(t) /\ UNCHANGED <<stat, owner, filled>>
                 ELSE sub' = [sub EXCEPT ![t] = 1] /\ UNCHANGED <<pc, stat, owner, filled>>
            ELSE filled' = [filled EXCEPT ![s[2]] = TRUE] /\ Advance(t) /\ UNCHANGED <<stat, owner>>
  /\ UNCHANGED cfg

InitCfg(a, b, cold) ==
  /\ cfg = <<a, b, cold>>
  /\ pc = [t \in Threads |-> 1] /\ sub = [t \in Threads |-> 0]
  /\ stat = [x \in Statics |-> IF cold THEN "uninit" ELSE "done"]
  /\ owner = [x \in Statics |-> 0]
  /\ filled = [o \in Objs |-> ~cold]

Next == \E t \in Threads : Move(t)

NoRace ==
  \A t1, t2 \in Threads : t1 < t2 =>
    LET a == NextAccess(t1)  b == NextAccess(t2) IN
    ~(a # <<>> /\ b # <<>> /\ a[1] = b[1] /\ (a[2] = "W" \/ b[2] = "W"))

\* every thread can always finish (no deadlock on the static guards)
Progress == (\A t \in Threads : Done(t)) \/ (\E t \in Threads : ~Done(t) /\ ~Blocked(t))
=============================================================================
