---------------------------- MODULE MC_GridCodes ----------------------------
(* Lattice enumeration for GridCodes: every vector is one initial state.     *)
(* Invariants check the model's own consistency (alphabet, closure under     *)
(* Dec, prefix law, case-insensitivity); Emit prints the vector so that the  *)
(* check script can replay it on the real library.                            *)
EXTENDS GridCodes, TLC, Json

CONSTANTS NB,        \* geohash lattice: unit 360/2^NB degrees
          Stride,    \* sweep stride for the long axes (1 = every lattice point)
          Part,      \* which family of vectors: "gh", "gars", "georef", "osgb", "dec", "sub"
          NChunks    \* parallelism: vectors are successors of NChunks chunk states

VARIABLE v

D3 == {-1, 0, 1}
InChunk(S, C) == {x \in S : x % NChunks = C}
Near(S, K) == {k + j : k \in K, j \in -2..2} \cap S
Sweep(lo, hi, crit) == {k \in lo..hi : k % Stride = 0} \cup Near(lo..hi, crit)

LowerS(s) == [i \in 1..Len(s) |-> Lower(s[i])]

(* ------------------------------ encode vectors --------------------------- *)
GHK90 == Pow2(NB - 2)
GHN   == Pow2(NB)
GHLatAll == Sweep(-(GHK90 + 1), GHK90 + 1, {-GHK90, 0, GHK90})
GHLonAll == Sweep(-(GHN + GHN \div 2), GHN + GHN \div 2, {-GHN, -(GHN \div 2), 0, GHN \div 2, GHN})
GHLatFew == {-GHK90, -1, 0, 21, GHK90}
GHLonFew == {-(GHN \div 2), -1, 0, 77, GHN \div 2, GHN \div 2 + GHN}
GHLens == {0, 1, 2, 3, 18}
VecGH(C) ==
  \/ \E a \in InChunk(GHLatFew, C), da \in D3, b \in GHLonFew, db \in D3, n \in GHLens : v' = <<"enc", "geohash", a, da, b, db, n>>
  \/ \E a \in InChunk(GHLatAll, C), da \in D3, b \in {-1, 77}, db \in {0}, n \in GHLens : v' = <<"enc", "geohash", a, da, b, db, n>>
  \/ \E a \in {-1, 21}, da \in {0}, b \in InChunk(GHLonAll, C), db \in D3, n \in GHLens : v' = <<"enc", "geohash", a, da, b, db, n>>
  \/ \E n \in InChunk({-7, 4, 5, 11, 17, 19, 1000}, C) : v' = <<"enc", "geohash", 3, 0, 5, -1, n>>

GARSLatAll == Sweep(-1081, 1081, {-1080, 0, 1080})
GARSLonAll == Sweep(-2161, 2161, {-2160, 0, 2160})
GARSLatFew == {-1080, -5, 2, 1075, 1080}      \* residues 0, 1, 2 mod 3 and 0..5 mod 6 with the sweep
GARSLonFew == {-2160, -4, 3, 2155, 2160, 2160 + 4320, -2160 - 4320, 7 + 4320}
VecGARS(C) ==
  \/ \E a \in InChunk(GARSLatFew, C), da \in D3, b \in GARSLonFew, db \in D3, p \in 0..2 : v' = <<"enc", "gars", a, da, b, db, p>>
  \/ \E a \in InChunk(GARSLatAll, C), da \in D3, b \in {-4, 2155}, db \in {0}, p \in 0..2 : v' = <<"enc", "gars", a, da, b, db, p>>
  \/ \E a \in {-5, 1075}, da \in {0}, b \in InChunk(GARSLonAll, C), db \in D3, p \in 0..2 : v' = <<"enc", "gars", a, da, b, db, p>>
  \/ \E p \in InChunk({-5, -1, 3, 77}, C) : v' = <<"enc", "gars", 100, 0, 200, 1, p>>

GeorefLatAll == Sweep(-5401, 5401, {-5400, 0, 5400})
GeorefLonAll == Sweep(-10801, 10801, {-10800, 0, 10800})
GeorefLatFew == {-5400, -15, 59, 5400}
GeorefLonFew == {-10800, -30, 61, 10785, 10800, 10800 + 21600, -10800 - 21600}
GeorefPrecs == {-1, 0, 2, 3, 11}
VecGeoref(C) ==
  \/ \E a \in InChunk(GeorefLatFew, C), da \in D3, b \in GeorefLonFew, db \in D3, p \in GeorefPrecs : v' = <<"enc", "georef", a, da, b, db, p>>
  \/ \E a \in InChunk(GeorefLatAll, C), da \in D3, b \in {-30, 10785}, db \in {0}, p \in {0, 2, 11} : v' = <<"enc", "georef", a, da, b, db, p>>
  \/ \E a \in {-15, 59}, da \in {0}, b \in InChunk(GeorefLonAll, C), db \in D3, p \in {0, 2, 11} : v' = <<"enc", "georef", a, da, b, db, p>>
  \/ \E p \in InChunk({-9, -2, 1, 4, 5, 6, 7, 8, 9, 10, 12, 50}, C) : v' = <<"enc", "georef", 100, 0, 200, 1, p>>

OSGBOff == {0, 1, 9, 10, 99, 100, 12345, 50000, 99990, 99999}
OSGBX == {100000 * i + o : i \in -11..15, o \in OSGBOff}
OSGBY == {100000 * i + o : i \in -6..20, o \in OSGBOff}
OSGBPrecs == {0, 1, 2, 4, 5, 6, 11}
VecOSGB(C) ==
  \/ \E y \in InChunk({-500000, 0, 12345, 1999999}, C), dy \in D3, x \in {-1000000, 0, 654321, 1499999}, dx \in D3, p \in OSGBPrecs : v' = <<"enc", "osgb", y, dy, x, dx, p>>
  \/ \E y \in {12345, 1999999}, dy \in {0}, x \in InChunk(OSGBX, C), dx \in D3, p \in {0, 2, 5, 11} : v' = <<"enc", "osgb", y, dy, x, dx, p>>
  \/ \E y \in InChunk(OSGBY, C), dy \in D3, x \in {654321, 1499999}, dx \in {0}, p \in {0, 2, 5, 11} : v' = <<"enc", "osgb", y, dy, x, dx, p>>
  \/ \E p \in InChunk({-2, -1, 3, 7, 8, 9, 10, 12, 13}, C) : v' = <<"enc", "osgb", 1000, 0, 2000, 0, p>>

(* ------------------------------ decode vectors --------------------------- *)
(* Written as existential quantifications (not as set constants) so that TLC  *)
(* enumerates them lazily and in parallel, one family of successors per chunk. *)
B2 == {TRUE, FALSE}
Bad == {97, 105, 108, 111, 65, 73, 79, 32, 0, 45, 46, 200, 47, 58, 64, 91, 96, 123}   \* a i l o A I O sp NUL - . 0xC8 / : @ [ ` {
gh(i) == Lower(GHAlpha[i])
I32 == 1..32
I32s == {i \in I32 : i % Stride = 0 \/ i \in {1, 2, 31, 32}}
Rep(c, n) == [i \in 1..n |-> c]
l24(i) == L24[i]
D10 == 0..9
dg(i) == 48 + i
Two(n) == DigitSeq(n, 2)
Ch(S, C) == InChunk(S, C)
Out(s, c) == \E b \in B2 : v' = <<"dec", s, c, b>>

GHSmall ==
  {<<>>} \cup {<<c>> : c \in Bad} \cup {<<gh(9), c>> : c \in Bad} \cup {<<c, gh(9)>> : c \in Bad}
  \cup {<<gh(9), gh(20), c>> : c \in Bad} \cup {<<gh(9), gh(20), c, gh(4)>> : c \in Bad}
  \cup {Rep(gh(i), n) : i \in {1, 2, 16, 17, 32}, n \in {4, 5, 11, 17, 18, 19, 25}}
  \cup {<<gh(7)>> \o Rep(gh(i), 17) \o <<c>> : i \in {1, 32}, c \in Bad \cup {gh(3)}}
  \cup {<<105, 110, 118>>, <<73, 78, 86>>, <<105, 78, 118, 97, 108, 105, 100>>, <<110, 97, 110>>, <<78, 65, 78>>,
        <<110, 65, 110, 48>>, <<105, 110>>, <<110, 97>>, <<110, 110, 97>>, <<118, 110, 105>>, <<105, 110, 119>>,
        \* look-alikes of the "nan" marker: "nax" "NA7" "nab12" "naz" "nbn" "xan" (only "nan..." may decode to NaN)
        <<110, 97, 120>>, <<78, 65, 55>>, <<110, 97, 98, 49, 50>>, <<110, 97, 122>>, <<110, 98, 110>>, <<120, 97, 110>>}
DecGH(C) ==
  \/ \E i \in Ch(I32, C) : Out("geohash", <<gh(i)>>)
  \/ \E i \in Ch(I32, C), j \in I32 : Out("geohash", <<gh(i), gh(j)>>)
  \/ \E i \in Ch(I32, C), j \in I32s, k \in I32 : Out("geohash", <<gh(i), gh(j), gh(k)>>)
  \/ \E i \in Ch(I32s, C), j \in I32s, k \in I32s : Out("geohash", <<GHAlpha[i], gh(j), GHAlpha[k]>>)
  \/ C = 0 /\ \E c \in GHSmall : Out("geohash", c)

GARSLonS == {i \in 0..1000 : i % Stride = 0} \cup {0, 1, 2, 9, 10, 99, 100, 359, 360, 361, 719, 720, 721, 999}
GARSSmall ==
  {DigitSeq(361, 3) \o <<c, l24(3)>> : c \in Bad \cup {81, 82}} \cup {DigitSeq(361, 3) \o <<l24(3), c>> : c \in Bad}
  \cup {<<c, dg(3), dg(3)>> \o <<l24(2), l24(3)>> : c \in Bad} \cup {<<dg(3), dg(3), c>> \o <<l24(2), l24(3)>> : c \in Bad}
  \cup {LowerS(DigitSeq(361, 3) \o <<l24(i), l24(j), dg(3), dg(7)>>) : i \in {1, 15}, j \in {1, 12, 24}}
  \cup {<<>>, <<dg(1)>>, DigitSeq(361, 3), DigitSeq(361, 3) \o <<l24(1)>>, DigitSeq(361, 3) \o <<l24(1), l24(1), dg(1), dg(1), dg(1)>>,
        <<73, 78, 86>>, <<105, 110, 118, 97, 108>>, <<73, 78>>, <<73, 78, 87, 65, 65>>}
DecGARS(C) ==
  \/ \E n \in Ch(GARSLonS, C), i \in {1, 15, 16}, j \in {1, 24} : Out("gars", DigitSeq(n, 3) \o <<l24(i), l24(j)>>)
  \/ \E i \in Ch(1..24, C), n \in {1, 361, 720}, j \in 1..24 : Out("gars", DigitSeq(n, 3) \o <<l24(i), l24(j)>>)
  \/ C = 1 /\ \E n \in {1, 720}, i \in {1, 15}, j \in {1, 24}, c \in {dg(k) : k \in D10} \cup Bad :
        Out("gars", DigitSeq(n, 3) \o <<l24(i), l24(j), c>>)
  \/ C = 2 /\ \E n \in {1, 720}, i \in {1, 15}, a \in 1..4, c \in {dg(k) : k \in D10} \cup Bad :
        Out("gars", DigitSeq(n, 3) \o <<l24(i), l24(24), dg(a), c>>)
  \/ C = 3 /\ \E c \in GARSSmall : Out("gars", c)

GeorefTails ==
  {Two(a) \o Two(b) : a \in {0, 7, 59, 60, 99}, b \in {0, 59, 60}}
  \cup {Two(a) \o f \o Two(b) \o g : a \in {0, 59}, b \in {0, 59},
          f \in {<<dg(0)>>, <<dg(9)>>, <<dg(1), dg(2), dg(3)>>, Rep(dg(9), 9), Rep(dg(0), 9), <<dg(9)>> \o Rep(dg(0), 8)},
          g \in {<<dg(0)>>, <<dg(9)>>, <<dg(4), dg(5), dg(6)>>, Rep(dg(9), 9), Rep(dg(0), 9), <<dg(0)>> \o Rep(dg(9), 8)}}
  \cup {Rep(dg(3), n) : n \in 1..26}
  \cup {<<dg(1), dg(2), c, dg(4)>> : c \in Bad}
  \* a non-digit at EVERY position of a 4- and a 6-digit tail
  \cup {[t EXCEPT ![i] = c] : t \in {<<dg(1), dg(2), dg(3), dg(4)>>}, i \in 1..4, c \in Bad}
  \cup {[t EXCEPT ![i] = c] : t \in {<<dg(1), dg(2), dg(3), dg(4), dg(5), dg(6)>>}, i \in 1..6, c \in Bad}
GeorefSmall ==
  {<<c, l24(3)>> : c \in Bad} \cup {<<l24(3), c>> : c \in Bad}
  \cup {<<l24(3), l24(3), c, l24(3)>> : c \in Bad} \cup {<<l24(3), l24(3), l24(3), c>> : c \in Bad}
  \cup {<<l24(3), l24(3), l24(3)>>, <<l24(3)>>, <<>>, <<73, 78, 86>>, <<105, 110, 118, 97>>, <<73, 78>>}
  \cup {<<l24(3), l24(3), l24(3), l24(3), c>> : c \in Bad \cup {dg(5)}}
  \* look-alikes of the "INV" marker: "INW" "INX" "INGH" "inwa" "IN0" "INAH15" "INWARD" "IMV" "JNV"
  \cup {<<73, 78, 87>>, <<73, 78, 88>>, <<73, 78, 71, 72>>, <<105, 110, 119, 97>>, <<73, 78, 48>>,
        <<73, 78, 65, 72, 49, 53>>, <<73, 78, 87, 65, 82, 68>>, <<73, 77, 86>>, <<74, 78, 86>>}
DecGeoref(C) ==
  \/ \E i \in Ch(1..24, C), j \in 1..24 : Out("georef", <<l24(i), l24(j)>>)
  \/ \E a \in Ch(1..16, C), i \in {1, 13, 24}, j \in {1, 12}, b \in 1..16 : Out("georef", <<l24(i), l24(j), l24(a), l24(b)>>)
  \/ C = 4 /\ \E i \in {1, 24}, j \in {1, 12}, a \in {1, 15}, t \in GeorefTails : Out("georef", <<l24(i), l24(j), l24(a), l24(8)>> \o t)
  \/ C = 5 /\ \E t \in GeorefTails : Out("georef", LowerS(<<l24(13), l24(7), l24(6), l24(9)>> \o t))
  \/ C = 6 /\ \E c \in GeorefSmall : Out("georef", c)

OSGBTails ==
  {<<>>} \cup {Rep(dg(d), n) : d \in {0, 9}, n \in {1, 2, 4, 10, 12, 20, 22, 23, 24}}
  \cup {<<dg(1), dg(2), dg(3), dg(4), dg(5), dg(6), dg(7), dg(8)>>, <<dg(1), dg(2), dg(3)>>,
        [i \in 1..22 |-> dg(i % 10)], [i \in 1..14 |-> dg((3 * i) % 10)]}
  \cup {<<dg(1), c>> : c \in Bad} \cup {<<32, dg(1), dg(2), 32, 32, dg(3), dg(4)>>, <<dg(1), 9, dg(2)>>}
  \* a non-digit in the easting half as well as in the northing half, every position of a 2- and a 4-digit tail
  \cup {<<c, dg(1)>> : c \in Bad}
  \cup {[t EXCEPT ![i] = c] : t \in {<<dg(1), dg(2), dg(3), dg(4)>>}, i \in 1..4, c \in Bad}
OSGBSmall ==
  {<<c, L25[3]>> : c \in Bad} \cup {<<L25[3], c>> : c \in Bad}
  \cup {<<>>, <<L25[3]>>, <<73, 78>>, <<105, 110>>, <<73, 78, 86, 65, 76, 73, 68>>, <<73>>, <<32, 83, 85>>, <<83, 32, 85, 32>>}
DecOSGB(C) ==
  \/ \E i \in Ch(1..25, C), j \in 1..25 : Out("osgb", <<L25[i], L25[j]>>)
  \/ C = 7 /\ \E i \in {1, 19, 25}, j \in {1, 20, 25}, t \in OSGBTails : Out("osgb", <<L25[i], L25[j]>> \o t)
  \/ C = 8 /\ \E t \in OSGBTails : Out("osgb", LowerS(<<L25[19], L25[20]>> \o t))
  \/ C = 9 /\ \E c \in OSGBSmall : Out("osgb", c)

(* ------------------------- single-byte substitutions -------------------- *)
(* Part "sub": every single-byte substitution (position x Sub) of one valid    *)
(* code per scheme and code length, and of the NaN markers.  Sub holds the Bad  *)
(* bytes and symbols of the other character classes (digits, letters inside    *)
(* and outside the alphabets, both cases), so that a validity test that is      *)
(* skipped, shifted by one position or applied to the wrong half of a code is   *)
(* exposed at the position it skips; a substitution that yields another valid   *)
(* code is a control.  GridCodes!Dec decides what each string must do.          *)
Sub == Bad \cup {63, 48, 53, 57, 71, 78, 81, 86, 90, 110, 118, 120, 122}    \* ? 0 5 9 G N Q V Z n v x z
NGFJ == <<l24(13), l24(7), l24(6), l24(9)>>
SU == <<83, 85>>
SubBases == <<
  <<"geohash", <<gh(9)>>  >>,
  <<"geohash", <<gh(9), gh(20)>>  >>,
  <<"geohash", <<gh(9), gh(20), gh(4)>>  >>,
  <<"geohash", <<gh(21), gh(11), gh(32), gh(1), gh(17)>>  >>,
  <<"geohash", [i \in 1..12 |-> gh(((7 * i) % 32) + 1)]  >>,
  <<"geohash", [i \in 1..18 |-> GHAlpha[((5 * i) % 32) + 1]]  >>,
  <<"geohash", [i \in 1..19 |-> gh(((11 * i) % 32) + 1)]  >>,
  <<"geohash", <<105, 110, 118>>  >>,                          \* inv
  <<"geohash", <<73, 78, 86>>  >>,                             \* INV
  <<"geohash", <<110, 97, 110>>  >>,                           \* nan
  <<"geohash", <<78, 65, 78>>  >>,                             \* NAN
  <<"geohash", <<105, 110, 118, 97, 108, 105, 100>>  >>,       \* invalid
  <<"geohash", <<110, 97, 110, 49, 50>>  >>,                   \* nan12
  <<"gars", DigitSeq(361, 3) \o <<l24(8), l24(13)>>  >>,
  <<"gars", DigitSeq(361, 3) \o <<l24(8), l24(13), dg(3)>>  >>,
  <<"gars", DigitSeq(361, 3) \o <<l24(8), l24(13), dg(3), dg(7)>>  >>,
  <<"gars", LowerS(DigitSeq(7, 3) \o <<l24(1), l24(24), dg(1), dg(9)>>)  >>,
  <<"gars", <<73, 78, 86>>  >>,
  <<"gars", <<105, 110, 118, 97, 108>>  >>,                    \* inval
  <<"gars", <<73, 78, 86, 65, 76, 73, 68>>  >>,                \* INVALID
  <<"georef", <<l24(13), l24(7)>>  >>,
  <<"georef", NGFJ  >>,
  <<"georef", NGFJ \o <<dg(1), dg(2), dg(3), dg(4)>>  >>,
  <<"georef", NGFJ \o <<dg(1), dg(2), dg(3), dg(4), dg(5), dg(6)>>  >>,
  <<"georef", LowerS(NGFJ) \o <<dg(0), dg(8), dg(5), dg(9)>>  >>,
  <<"georef", NGFJ \o <<dg(1), dg(2), dg(3), dg(4), dg(5), dg(6), dg(7), dg(8), dg(9), dg(0), dg(1)>>
                   \o <<dg(5), dg(9)>> \o Rep(dg(0), 8) \o <<dg(9)>>  >>,
  <<"georef", <<73, 78, 86>>  >>,
  <<"georef", <<105, 110, 118>>  >>,
  <<"georef", <<73, 78, 86, 65, 76, 73, 68>>  >>,
  <<"osgb", SU  >>,
  <<"osgb", SU \o <<dg(1), dg(2)>>  >>,
  <<"osgb", SU \o <<dg(1), dg(2), dg(3), dg(4)>>  >>,
  <<"osgb", LowerS(SU) \o <<dg(1), dg(2), dg(3), dg(4), dg(5), dg(6)>>  >>,
  <<"osgb", SU \o [i \in 1..22 |-> dg((7 * i) % 10)]  >>,
  <<"osgb", <<73, 78>>  >>,
  <<"osgb", <<105, 110>>  >>,
  <<"osgb", <<73, 78, 86, 65, 76, 73, 68>>  >> >>
DecSub(C) ==
  \E k \in Ch(1..Len(SubBases), C) :
    \E i \in 1..Len(SubBases[k][2]), c \in Sub : Out(SubBases[k][1], [SubBases[k][2] EXCEPT ![i] = c])

Init == v = <<"root">>
Next ==
  \/ v = <<"root">> /\ \E c \in 0..(NChunks - 1) : v' = <<"chunk", c>>
  \/ /\ v[1] = "chunk"
     /\ CASE Part = "gh" -> VecGH(v[2])
          [] Part = "gars" -> VecGARS(v[2])
          [] Part = "georef" -> VecGeoref(v[2])
          [] Part = "osgb" -> VecOSGB(v[2])
          [] Part = "dec" -> DecGH(v[2]) \/ DecGARS(v[2]) \/ DecGeoref(v[2]) \/ DecOSGB(v[2])
          [] Part = "sub" -> DecSub(v[2])

(* ------------------------------ model invariants ------------------------- *)
EffPrec(s, p) ==
  CASE s = "geohash" -> Clamp(p, 0, 18) [] s = "gars" -> Clamp(p, 0, 2)
    [] s = "georef" -> GeorefPrec(p) [] s = "osgb" -> p
CodeLen(s, p) ==
  CASE s = "geohash" -> p [] s = "gars" -> 5 + p [] s = "georef" -> 4 + 2 * p [] s = "osgb" -> 2 + 2 * p

\* lower-precision code is a prefix (per coordinate for the two-group schemes)
PrefixOK(s, lo, hi) ==
  IF s \in {"geohash", "gars"} THEN IsPrefixOf(lo, hi)
  ELSE LET h == IF s = "georef" THEN 4 ELSE 2
           pl == (Len(lo) - h) \div 2     ph == (Len(hi) - h) \div 2
       IN IF Len(lo) <= h THEN IsPrefixOf(lo, hi)
          ELSE /\ SubSeq(lo, 1, h) = SubSeq(hi, 1, h)
               /\ SubSeq(lo, h + 1, h + pl) = SubSeq(hi, h + 1, h + pl)
               /\ SubSeq(lo, h + pl + 1, h + 2 * pl) = SubSeq(hi, h + ph + 1, h + ph + pl)

PrevPrec(s, p) == IF s = "georef" /\ p = 2 THEN 0 ELSE p - 1
MinPrec(s) == IF s = "georef" THEN -1 ELSE 0

EncInv ==
  v[1] = "enc" =>
    LET s == v[2]  a == <<v[3], v[4]>>  b == <<v[5], v[6]>>  p == v[7]
        O == Enc(s, NB, a, b, p)
        ep == EffPrec(s, p)
    IN /\ O # {}
       /\ (<<"throw">> \in O => O = {<<"throw">>})
       /\ \A o \in O : o[1] = "ok" =>
            /\ InAlphabet(s, o[2])
            /\ Len(o[2]) = CodeLen(s, ep)
            /\ LET r == Dec(s, o[2], TRUE) IN r[1] = "ok" /\ r[2] = ep
            /\ Dec(s, UpperS(o[2]), FALSE) = Dec(s, LowerS(o[2]), FALSE)
            /\ (ep > MinPrec(s) /\ ~(s = "osgb" /\ (p < 1 \/ p > 11)) =>
                  \E q \in Enc(s, NB, a, b, PrevPrec(s, ep)) : q[1] = "ok" /\ PrefixOK(s, q[2], o[2]))

DecInv ==
  v[1] = "dec" =>
    LET s == v[2]  c == v[3]
        r == Dec(s, c, v[4])
    IN /\ r[1] \in {"ok", "throw", "nan"}
       /\ Dec(s, UpperS(c), v[4]) = Dec(s, LowerS(c), v[4])
       /\ (r[1] = "ok" => Dec(s, c, ~v[4])[1] = "ok" /\ Dec(s, c, ~v[4])[2] = r[2])

Emit == v[1] \in {"enc", "dec"} => PrintT(ToJson(v))
=============================================================================
