------------------------------ MODULE MC_ToolLines ------------------------------
(***************************************************************************)
(* Pools of input lines for the tools of ToolText, each with the class the  *)
(* specification gives it under the run's options (C10, tool stage): root   *)
(* -> chunk c -> vectors <<"tl", tool, mode, w, cd, line, class>>.  The tool *)
(* stage realises the good/bad patterns of MC_LineTool with these lines, so  *)
(* that the specification - not the glue - decides what is good and bad.     *)
(* Families: every field of a line varied over the token lattice of its      *)
(* kind (the other fields legal), token count and separators, comments.      *)
(* Model invariants are checked on every vector.                             *)
(***************************************************************************)
EXTENDS ToolText, TLC, Json

CONSTANTS NChunks, Thin
VARIABLE v

InChunk(S, C) == {x \in S : x % NChunks = C}
Keep(k) == IF Thin <= 1 THEN TRUE ELSE k % Thin = 0

(* ------------------------------ token lattices --------------------------- *)
\* 40.5 | N10 | 33d18'N | 91 | x | -45.5 | 89.5 | 10:30 | nan | 40.12345 | -0 | 90 | S12.5 | 90.000001 | 1e1 | 4:60 | 7d30\'15.5" | inf | 52.1234567 | 25.00001
LatT == <<<<52, 48, 46, 53>>, <<78, 49, 48>>, <<51, 51, 100, 49, 56, 39, 78>>, <<57, 49>>, <<120>>,
          <<45, 52, 53, 46, 53>>, <<56, 57, 46, 53>>, <<49, 48, 58, 51, 48>>, <<110, 97, 110>>,
          <<52, 48, 46, 49, 50, 51, 52, 53>>, <<45, 48>>, <<57, 48>>, <<83, 49, 50, 46, 53>>,
          <<57, 48, 46, 48, 48, 48, 48, 48, 49>>, <<49, 101, 49>>, <<52, 58, 54, 48>>,
          <<55, 100, 51, 48, 39, 49, 53, 46, 53, 34>>, <<105, 110, 102>>,
          <<53, 50, 46, 49, 50, 51, 52, 53, 54, 55>>, <<50, 53, 46, 48, 48, 48, 48, 49>> >>
\* 10.25 | E20 | 200 | 20W | x | 180 | -179.75 | 5.5 | -3:15 | nan | 540 | 0 | 12d30' | W3.75 | 1:2:3:4 | -7.000005 | 3.1234567
LonT == <<<<49, 48, 46, 50, 53>>, <<69, 50, 48>>, <<50, 48, 48>>, <<50, 48, 87>>, <<120>>, <<49, 56, 48>>,
          <<45, 49, 55, 57, 46, 55, 53>>, <<53, 46, 53>>, <<45, 51, 58, 49, 53>>, <<110, 97, 110>>, <<53, 52, 48>>,
          <<48>>, <<49, 50, 100, 51, 48, 39>>, <<87, 51, 46, 55, 53>>, <<49, 58, 50, 58, 51, 58, 52>>,
          <<45, 55, 46, 48, 48, 48, 48, 48, 53>>, <<51, 46, 49, 50, 51, 52, 53, 54, 55>> >>
\* 45.5 | 0 | 90 | -90 | 270 | N10 | 10E | x | 180 | -180 | 361 | 10:30 | W30 | nan | (empty) | 1d2d | 30 | -120
AziT == <<<<52, 53, 46, 53>>, <<48>>, <<57, 48>>, <<45, 57, 48>>, <<50, 55, 48>>, <<78, 49, 48>>, <<49, 48, 69>>,
          <<120>>, <<49, 56, 48>>, <<45, 49, 56, 48>>, <<51, 54, 49>>, <<49, 48, 58, 51, 48>>, <<87, 51, 48>>,
          <<110, 97, 110>>, <<>>, <<49, 100, 50, 100>>, <<51, 48>>, <<45, 49, 50, 48>> >>
\* 1000.5 | 0 | 0.0 | -12.5 | 1e3 | x | nan | -0 | 1/2 | 10d | 6000 | .5 | 5. | 1e | 0x10 | inf | 2.5E2 | +7 | 123456.789 | -250000 | 1e300 | 12,5
NumT == <<<<49, 48, 48, 48, 46, 53>>, <<48>>, <<48, 46, 48>>, <<45, 49, 50, 46, 53>>, <<49, 101, 51>>, <<120>>,
          <<110, 97, 110>>, <<45, 48>>, <<49, 47, 50>>, <<49, 48, 100>>, <<54, 48, 48, 48>>, <<46, 53>>,
          <<53, 46>>, <<49, 101>>, <<48, 120, 49, 48>>, <<105, 110, 102>>, <<50, 46, 53, 69, 50>>, <<43, 55>>,
          <<49, 50, 51, 52, 53, 54, 46, 55, 56, 57>>, <<45, 50, 53, 48, 48, 48, 48>>, <<49, 101, 51, 48, 48>>,
          <<49, 50, 44, 53>> >>
\* 0 | x | # | 10.5
JunkT == <<<<48>>, <<120>>, <<35>>, <<49, 48, 46, 53>> >>
\*  # note | #note |   # |  # 10 20 | \t#x y |  ## #
CmtT == <<<<32, 35, 32, 110, 111, 116, 101>>, <<35, 110, 111, 116, 101>>, <<32, 32, 35>>,
          <<32, 35, 32, 49, 48, 32, 50, 48>>, <<9, 35, 120, 32, 121>>, <<32, 35, 35, 32, 35>> >>
\*   | \t |    |  \t  | , | ,  | \x0b
SepT == <<<<32>>, <<9>>, <<32, 32>>, <<32, 9, 32>>, <<44>>, <<44, 32>>, <<11>> >>
\* (empty) |   | \t  | \r | \x0c
PadT == <<<<>>, <<32>>, <<9, 32>>, <<13>>, <<12>> >>
\* 40.5 | N10 | -45.5 | 33d18'N
BaseLat == <<<<52, 48, 46, 53>>, <<78, 49, 48>>, <<45, 52, 53, 46, 53>>, <<51, 51, 100, 49, 56, 39, 78>> >>
\* 10.25 | E20 | 5.5 | 20W
BaseLon == <<<<49, 48, 46, 50, 53>>, <<69, 50, 48>>, <<53, 46, 53>>, <<50, 48, 87>> >>
\* 45.5 | 90 | -30 | 10E
BaseAz == <<<<52, 53, 46, 53>>, <<57, 48>>, <<45, 51, 48>>, <<49, 48, 69>> >>
\* 1000.5 | 0 | -12.5 | 6000
BaseNum == <<<<49, 48, 48, 48, 46, 53>>, <<48>>, <<45, 49, 50, 46, 53>>, <<54, 48, 48, 48>> >>
\* E20 N10 | 20W 10S | 10 20N | N10 S20 | E10 W20 | 10.5E 40.25 | 91 10 | 10 91 | 100W N80.5 | 5:30E 5:30N | 40.5 40.5 | 10 20
SwapLL == <<<<<<69, 50, 48>>, <<78, 49, 48>>>>, <<<<50, 48, 87>>, <<49, 48, 83>>>>, <<<<49, 48>>, <<50, 48, 78>>>>,
            <<<<78, 49, 48>>, <<83, 50, 48>>>>, <<<<69, 49, 48>>, <<87, 50, 48>>>>,
            <<<<49, 48, 46, 53, 69>>, <<52, 48, 46, 50, 53>>>>, <<<<57, 49>>, <<49, 48>>>>,
            <<<<49, 48>>, <<57, 49>>>>, <<<<49, 48, 48, 87>>, <<78, 56, 48, 46, 53>>>>,
            <<<<53, 58, 51, 48, 69>>, <<53, 58, 51, 48, 78>>>>, <<<<52, 48, 46, 53>>, <<52, 48, 46, 53>>>>,
            <<<<49, 48>>, <<50, 48>>>> >>


Keys == << <<"RhumbSolve", "dir">>, <<"RhumbSolve", "inv">>, <<"TransverseMercatorProj", "fwd">>, <<"TransverseMercatorProj", "rev">>,
           <<"ConicProj", "fwd">>, <<"ConicProj", "rev">>, <<"GeodesicProj", "fwd">>, <<"GeodesicProj", "rev">>,
           <<"CartConvert", "fwd">>, <<"CartConvert", "rev">>, <<"IntersectTool", "c">>, <<"IntersectTool", "n">>,
           <<"IntersectTool", "i">>, <<"IntersectTool", "o">>, <<"Planimeter", "poly">>, <<"RhumbSolve", "line">> >>
Opts == << <<FALSE, 0>>, <<TRUE, 0>>, <<FALSE, 35>> >>                  \* (-w, comment delimiter)
Cfg(k, o) == [tool |-> Keys[k][1], mode |-> Keys[k][2], w |-> Opts[o][1], cd |-> Opts[o][2]]

(* ------------------------------ line builders ---------------------------- *)
\* the legal tokens of field i (n-th variant)
BaseField(kind, i, n) ==
  LET m == ((i + n) % 4) + 1 IN
  CASE kind = "ll" -> <<BaseLat[m], BaseLon[m]>> [] kind = "az" -> <<BaseAz[m]>> [] OTHER -> <<BaseNum[m]>>
RECURSIVE BaseToks(_, _, _, _, _)
\* all fields legal except field at, which is given by alt
BaseToks(fmt, i, n, at, alt) ==
  IF i > Len(fmt) THEN <<>>
  ELSE (IF i = at THEN alt ELSE BaseField(fmt[i], i, n)) \o BaseToks(fmt, i + 1, n, at, alt)
RECURSIVE Join(_, _, _)
Join(tk, i, sep) == IF i > Len(tk) THEN <<>> ELSE (IF i = 1 THEN <<>> ELSE sep) \o tk[i] \o Join(tk, i + 1, sep)
NonEmpty(tk) == SelectSeq(tk, LAMBDA x : x # <<>>)
Vec(c, line) == <<"tl", c.tool, c.mode, c.w, c.cd, line, LineKind(c, line)>>
NK == Len(Keys)
NO == Len(Opts)

\* the full lattice for the first field of a kind under the default options; a thinned one elsewhere
FirstOf(fmt, i) == \A j \in 1..(i - 1) : fmt[j] # fmt[i]
Dense(fmt, i, o) == o = 1 /\ FirstOf(fmt, i)
VecField(C) ==
  \E k \in InChunk(1..NK, C), o \in 1..NO :
    LET c == Cfg(k, o)  fmt == Fmt(c) IN
    \E i \in 1..Len(fmt) :
      \/ /\ fmt[i] = "ll"
         /\ \/ \E a \in 1..Len(LatT), b \in 1..Len(LonT) :
                 /\ IF Dense(fmt, i, o) THEN a = 1 \/ b = 1 \/ Keep(a + 2 * b + i) ELSE (a + 2 * b + i + k + o) % (6 * Thin) = 0
                 /\ v' = Vec(c, Join(BaseToks(fmt, 1, a + b + o, i, <<LatT[a], LonT[b]>>), 1, <<32>>))
            \/ \E a \in 1..Len(SwapLL) : (Dense(fmt, i, o) \/ o = 2 \/ Keep(a + k)) /\ v' = Vec(c, Join(BaseToks(fmt, 1, a + o, i, SwapLL[a]), 1, <<32>>))
      \/ /\ fmt[i] = "az"
         /\ \E a \in 1..Len(AziT) : (Dense(fmt, i, o) \/ Keep(a + i + k + o)) /\ v' = Vec(c, Join(NonEmpty(BaseToks(fmt, 1, a + o, i, <<AziT[a]>>)), 1, <<32>>))
      \/ /\ fmt[i] = "num"
         /\ \E a \in 1..Len(NumT) : (Dense(fmt, i, o) \/ Keep(a + i + k + o)) /\ v' = Vec(c, Join(BaseToks(fmt, 1, a + o, i, <<NumT[a]>>), 1, <<32>>))

VecShape(C) ==
  \E k \in InChunk(1..NK, C), o \in 1..NO, n \in 0..1 :
    LET c == Cfg(k, o)  fmt == Fmt(c)  tk == BaseToks(fmt, 1, n + k, 0, <<>>) IN
    \* too few / too many items
    \/ \E m \in 0..(Len(tk) - 1) : (n = 0 \/ Keep(m + k + o)) /\ v' = Vec(c, Join(SubSeq(tk, 1, m), 1, <<32>>))
    \/ \E j \in 1..Len(JunkT) : (n = 0 \/ Keep(j + k + o)) /\ v' = Vec(c, Join(Append(tk, JunkT[j]), 1, <<32>>))
    \/ \E j \in 1..Len(JunkT) : (n = 0 /\ Keep(j + k + o)) /\ v' = Vec(c, Join(<<JunkT[j]>> \o tk, 1, <<32>>))
    \* separators and padding
    \/ \E s \in 1..Len(SepT), p \in 1..Len(PadT), q \in 1..Len(PadT) :
         /\ n = 0 /\ ((p = 1 /\ q = 1) \/ (s = 1 /\ o = 1) \/ (s + 2 * p + 3 * q + k + o) % (2 * Thin) = 0)
         /\ v' = Vec(c, PadT[p] \o Join(tk, 1, SepT[s]) \o PadT[q])
    \* lines with nothing on them
    \/ \E p \in 1..Len(PadT), q \in 1..Len(PadT) : n = 0 /\ (p = 1 \/ Keep(p + q + k)) /\ v' = Vec(c, PadT[p] \o PadT[q])
    \* comments after a legal line, after an illegal one, alone
    \/ \E m \in 1..Len(CmtT) : (o = 3 \/ Keep(m + k + n)) /\ v' = Vec(c, Join(tk, 1, <<32>>) \o CmtT[m])
    \/ \E m \in 1..Len(CmtT) : n = 0 /\ (o = 3 \/ Keep(m + k)) /\ v' = Vec(c, Join(Append(tk, <<120>>), 1, <<32>>) \o CmtT[m])
    \/ \E m \in 1..Len(CmtT) : n = 0 /\ (o = 3 \/ Keep(m + k)) /\ v' = Vec(c, Join(SubSeq(tk, 1, Len(tk) - 1), 1, <<32>>) \o CmtT[m])
    \/ \E m \in 1..Len(CmtT) : n = 0 /\ (o = 3 \/ Keep(m + k)) /\ v' = Vec(c, CmtT[m])

\* IntersectTool -c: two geodesics through one point (the same point spelt in the same or in another way)
SameP == << <<BaseLat[1], BaseLon[1]>>, <<BaseLat[2], BaseLon[2]>>, <<BaseLat[3], BaseLon[3]>>, <<BaseLat[4], BaseLon[4]>>,
            <<<<49, 48>>, <<50, 48>> >>, <<<<51, 51, 46, 51>>, <<45, 50, 48>> >> >>        \* 10 20 | 33.3 -20
VecSame(C) ==
  \E k \in InChunk(1..NK, C), o \in 1..NO :
    /\ Keys[k] = <<"IntersectTool", "c">>
    /\ \E p \in 1..4, q \in {0, 4}, a \in 1..Len(AziT), b \in 1..Len(AziT) :
         LET P == SameP[p]  Q == IF q = 0 \/ p \in {1, 3} THEN P ELSE SameP[(p \div 2) + q] IN
         /\ (a + b + p + o) % (3 * Thin) = 0 \/ (a = b /\ q = 0 /\ o = 1)
         /\ v' = Vec(Cfg(k, o), Join((IF o = 2 THEN <<P[2], P[1]>> ELSE P) \o <<AziT[a]>> \o (IF o = 2 THEN <<Q[2], Q[1]>> ELSE Q) \o <<AziT[b]>>, 1, <<32>>))

Init == v = <<"root">>
Next ==
  \/ v = <<"root">> /\ \E c \in 0..(NChunks - 1) : v' = <<"chunk", c>>
  \/ v[1] = "chunk" /\ (VecField(v[2]) \/ VecShape(v[2]) \/ VecSame(v[2]))

(* ------------------------------ model invariants ------------------------- *)
ClassInv ==
  v[1] = "tl" =>
    LET c == [tool |-> v[2], mode |-> v[3], w |-> v[4], cd |-> v[5]]  s == v[6]  k == v[7]
        c0 == [c EXCEPT !.cd = 0] IN
    /\ k \in {"good", "bad", "any"} /\ k = LineKind(c, s)
    \* white space around the line does not matter
    /\ LineKind(c, <<32>> \o s \o <<9>>) = k
    \* with a comment delimiter the class is that of the text in front of it
    /\ LineKind(c, s) = LineKind(c0, Body(c, s))
    \* one more item makes a legal line illegal; a legal line has the documented number of items
    /\ (k = "good" /\ CPos(c, s) = 0) => LineKind(c, s \o <<32, 48>>) = "bad"
    /\ k = "good" => Len(WTokens(Body(c, s))) = NTok(c)
    \* a projection tool's forward line is a Planimeter vertex and vice versa
    /\ (c.tool = "TransverseMercatorProj" /\ c.mode = "fwd" /\ k # "any") =>
         PolyLine([c EXCEPT !.tool = "Planimeter", !.mode = "poly"], s) = k

Emit == v[1] = "tl" => PrintT(ToJson(v))
=============================================================================
