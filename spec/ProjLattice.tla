----------------------------- MODULE ProjLattice -----------------------------
(***************************************************************************)
(* The three projections defined by geodesics (property C17) on the unit-    *)
(* degree sphere (a = 180/pi, f = 0: one degree of arc is one metre), for    *)
(* the centres and points where every answer is an integer.  Written from    *)
(* CassiniSoldner.hpp, AzimuthalEquidistant.hpp, Gnomonic.hpp; positions on   *)
(* great circles come from SphereLattice.                                    *)
(*                                                                          *)
(* A centre o = <<lat0, lon0>> and a point p = <<lat, lon>> are integer       *)
(* degrees (longitudes of any size: they are reduced).  The CENTRAL MERIDIAN  *)
(* of o is the great circle M = <<90, lon0>> (inclination 90, ascending node  *)
(* at lon0) on which o sits at the arc lat0; the arc s of M is the point      *)
(* <<Lat(90, s), lon0 + LonAt(90, s)>> and the heading there is Azi(90, s)    *)
(* (0 on the near half, 180 beyond a pole).  A pole as centre follows the     *)
(* convention of Geodesic.hpp (latitude +-(90 - eps), eps -> 0+): the north   *)
(* pole with longitude lon0 is the arc 90 of M, so that northing continues    *)
(* down the meridian lon0 + 180 - exactly what "heading north" means there.   *)
(*                                                                          *)
(* An answer is a record of SETS / tags so that the choices the headers       *)
(* leave open stay open:                                                     *)
(*   x, y   sets of admissible integers (two equally short routes => both)    *)
(*   azi    set of admissible integers, {} = not defined (pole, centre)       *)
(*   rk2    2 rk when rational (Cos2), 99 = not a lattice value               *)
(***************************************************************************)
EXTENDS SphereLattice, Sequences

Sgn(x) == IF x > 0 THEN 1 ELSE IF x < 0 THEN -1 ELSE 0
MLat(o, s) == Lat(90, s)
MLon(o, s) == Norm180(o[2] + LonAt(90, s))
MPole(s) == AtPole(90, s)
None == [kind |-> "none"]

(* ------------------------------------------------------------------------ *)
(* Cassini-Soldner.  "Go north along a geodesic a distance y from the        *)
(* central point; then turn clockwise 90 deg and go a distance x along a      *)
(* geodesic.  (Although the initial heading is north, this changes to south   *)
(* if the pole is crossed.)"  azi = "the true bearing of the easting          *)
(* direction", rk = reciprocal of the northing scale = cos(x / R).            *)
(* ------------------------------------------------------------------------ *)
\* Reverse: the foot is the arc lat0 + y of M.  Lattice answers: x = 0 (the foot itself), the foot at a pole (the perpendicular is
\* the meridian lon0 +- 90: arriving at the north pole along lon0 the right-hand side is lon0 + 90, and by continuity along M the
\* same holds at the south pole), the foot on the equator (the perpendicular is the equator), x = +-90 (the poles of M, whatever
\* the foot).
CsRev(o, q) ==
  LET x == q[1]  s == o[1] + q[2]  h == Azi(90, s) IN
  IF x = 0 THEN
    IF MPole(s) THEN [kind |-> "pole", lat |-> MLat(o, s), azi |-> {}, rk2 |-> 2]
    ELSE [kind |-> "pt", lat |-> MLat(o, s), lon |-> MLon(o, s), azi |-> {Norm180(h + 90)}, rk2 |-> 2]
  ELSE IF MPole(s) /\ Abs(x) < 180 THEN
    LET north == s % 360 = 90 IN
    [kind |-> "pt", lat |-> IF north THEN 90 - Abs(x) ELSE Abs(x) - 90, lon |-> Norm180(o[2] + 90 * Sgn(x)),
     azi |-> {IF north = (x > 0) THEN 180 ELSE 0}, rk2 |-> Cos2(x)]
  ELSE IF s % 180 = 0 /\ Abs(x) < 180 THEN
    [kind |-> "pt", lat |-> 0, lon |-> Norm180(MLon(o, s) + (IF h = 0 THEN x ELSE -x)), azi |-> {IF h = 0 THEN 90 ELSE -90}, rk2 |-> Cos2(x)]
  ELSE IF Abs(x) = 90 THEN
    [kind |-> "pt", lat |-> 0, lon |-> Norm180(o[2] + x), azi |-> {Norm180(90 + Sgn(x) * s)}, rk2 |-> 0]
  ELSE None

\* Forward.  "Find the point (lat1, lon1) on the meridian closest to (lat, lon).  Here we consider the full meridian ... x is the
\* geodesic distance from (lat1, lon1) to (lat, lon), appropriately signed according to which side of the central meridian (lat, lon)
\* lies.  y is the shortest distance along the meridian from (lat0, lon0) to (lat1, lon1), again, appropriately signed according to
\* the initial heading."  Northing of the foot at arc sf of M: the shorter way round, both when they tie.
YTo(o, sf) == LET d == Norm180(sf - o[1]) IN IF d = 180 THEN {180, -180} ELSE {d}
CsFwd(o, p) ==
  LET lat == p[1]  d == Norm180(p[2] - o[2])  ad == Abs(d) IN
  IF Abs(lat) = 90 THEN                           \* a pole lies on M (arc 90 or 270); the easting direction there is a convention
    [kind |-> "pt", x |-> {0}, y |-> YTo(o, IF lat > 0 THEN 90 ELSE 270), azi |-> {}, rk2 |-> 2]
  ELSE IF ad = 0 THEN [kind |-> "pt", x |-> {0}, y |-> YTo(o, lat), azi |-> {90}, rk2 |-> 2]
  ELSE IF ad = 180 THEN [kind |-> "pt", x |-> {0}, y |-> YTo(o, 180 - lat), azi |-> {-90}, rk2 |-> 2]
  ELSE IF lat = 0 /\ ad < 90 THEN [kind |-> "pt", x |-> {d}, y |-> YTo(o, 0), azi |-> {90}, rk2 |-> Cos2(d)]
  ELSE IF lat = 0 /\ ad > 90 THEN [kind |-> "pt", x |-> {Sgn(d) * (180 - ad)}, y |-> YTo(o, 180), azi |-> {-90}, rk2 |-> Cos2(180 - ad)]
  ELSE IF ad = 90 /\ lat # 0 THEN                 \* the foot is the pole of the point's hemisphere, reached along the point's meridian
    [kind |-> "pt", x |-> {Sgn(d) * (90 - Abs(lat))}, y |-> YTo(o, IF lat > 0 THEN 90 ELSE 270),
     azi |-> {IF (d > 0) = (lat > 0) THEN 180 ELSE 0}, rk2 |-> Sin2(Abs(lat))]
  ELSE None                                       \* (lat = 0, ad = 90: every point of M is equally close - "a small class of points")

(* ------------------------------------------------------------------------ *)
(* Azimuthal equidistant and gnomonic, for points of the central meridian M   *)
(* at the arc o + delta, 0 < |delta| < 180 (the shortest geodesic runs along  *)
(* M; centre and point not poles): distance |delta|, azimuth at the centre 0  *)
(* or 180.  "the geodesic distance from the center position is hypot(x, y)    *)
(* and the azimuth of the geodesic from the center point is atan2(x, y)":     *)
(* x = 0, y = delta; azi = heading of that geodesic at the point.             *)
(* Gnomonic: rho = R tan(delta) along the same azimuth, rk = cos(delta),      *)
(* "if the point lies over the horizon, i.e., if rk <= 0, then NaNs are       *)
(* returned for x and y (the correct values are returned for azi and rk)".    *)
(* tan2 = 2 rho / R when rational: delta = +-45; 98 = NaN beyond the horizon; *)
(* 99 = not a lattice value (and at delta = +-90: HorizonEdgeFree).           *)
(* ------------------------------------------------------------------------ *)
Delta(o, p) ==         \* arc from o to p along M, in (-180, 180]; 999 if p is not on M
  LET d == Norm180(p[2] - o[2]) IN
  IF d = 0 THEN Norm180(p[1] - o[1]) ELSE IF Abs(d) = 180 THEN Norm180(180 - p[1] - o[1]) ELSE 999
OnM(o, p) == Abs(o[1]) # 90 /\ Abs(p[1]) # 90 /\ Delta(o, p) \notin {0, 180, 999}
ArriveAzi(o, dl) == IF dl > 0 THEN Azi(90, o[1] + dl) ELSE Norm180(Azi(90, o[1] + dl) + 180)
AzFwd(o, p) ==
  IF ~OnM(o, p) THEN None
  ELSE LET dl == Delta(o, p) IN [kind |-> "pt", x |-> {0}, y |-> {dl}, azi |-> {ArriveAzi(o, dl)}]
AzRev(o, q) ==        \* q = <<0, y>>, 0 < |y| < 180: the point of M at the arc lat0 + y
  LET s == o[1] + q[2] IN
  IF q[1] # 0 \/ q[2] = 0 \/ Abs(q[2]) >= 180 \/ Abs(o[1]) = 90 \/ MPole(s) THEN None
  ELSE [kind |-> "pt", lat |-> MLat(o, s), lon |-> MLon(o, s), azi |-> {ArriveAzi(o, q[2])}]
GnFwd(o, p) ==
  IF ~OnM(o, p) THEN None
  ELSE LET dl == Delta(o, p)  ad == Abs(dl) IN
       [kind |-> "pt", tan2 |-> IF ad = 45 THEN 2 * Sgn(dl) ELSE IF ad > 90 THEN 98 ELSE 99,
        azi |-> {ArriveAzi(o, dl)}, rk2 |-> Cos2(ad)]

(* ------------------------------------------------------------------------ *)
(* Consistency of this reading of the headers (checked by MC_ProjObject on    *)
(* every centre and probe): Reverse undoes Forward and Forward undoes Reverse  *)
(* wherever both are lattice answers.                                          *)
(* ------------------------------------------------------------------------ *)
SameLon(a, b) == (a - b) % 360 = 0
CsRoundTripOK(o, p) ==
  LET f == CsFwd(o, p) IN
  f.kind = "pt" =>
    \A x \in f.x, y \in f.y :
      LET r == CsRev(o, <<x, y>>) IN
      /\ r.kind \in {"pt", "pole"}
      /\ r.lat = p[1]
      /\ r.kind = "pt" => SameLon(r.lon, p[2]) /\ (f.azi # {} => r.azi = f.azi) /\ r.rk2 = f.rk2
      /\ r.kind = "pole" => Abs(p[1]) = 90
CsBackOK(o, q) ==
  LET r == CsRev(o, q) IN
  (r.kind = "pt" /\ Abs(q[1]) < 90 /\ Abs(q[2]) < 180) =>
    LET f == CsFwd(o, <<r.lat, r.lon>>) IN
    f.kind = "pt" /\ q[1] \in f.x /\ q[2] \in f.y /\ (f.azi # {} => f.azi = r.azi) /\ f.rk2 = r.rk2
AzRoundTripOK(o, p) ==
  LET f == AzFwd(o, p) IN
  f.kind = "pt" => \A y \in f.y : LET r == AzRev(o, <<0, y>>) IN r.kind = "pt" /\ r.lat = p[1] /\ SameLon(r.lon, p[2]) /\ r.azi = f.azi
=============================================================================
