-------------------------------- MODULE MGRS --------------------------------
(***************************************************************************)
(* Military Grid Reference System (property C05) as exact integer          *)
(* functions over Eps coordinates <<metres, d>> (d in {-1,0,1} ulps) and    *)
(* byte-code strings.  Lettering follows the NGA scheme (column sets by     *)
(* zone mod 3, 20-letter row cycle starting at A in odd zones and at F in   *)
(* even zones, UPS tables); digits are truncations of floor(10^6 x).        *)
(* Block admissibility is GEOMETRIC: a 100 km block is legal with a band    *)
(* letter iff part of the block lies in that band.  The geometry enters     *)
(* through the table Tbl of corner latitudes (micro-degrees) of the 100 km  *)
(* grid, Tbl[c+1][r+1] = latitude at easting 500 km + c*100 km, northing    *)
(* r*100 km (c in 0..4, r in 0..96); latitude is increasing in northing and *)
(* decreasing in |easting - 500 km|, so corners bound the block.            *)
(***************************************************************************)
EXTENDS Integers, Sequences, FiniteSets

Upper(c) == IF c >= 97 /\ c <= 122 THEN c - 32 ELSE c
UpperS(s) == [i \in 1..Len(s) |-> Upper(s[i])]
IsDigit(c) == c >= 48 /\ c <= 57
Pow10(n) == IF n <= 0 THEN 1 ELSE
            CASE n = 1 -> 10 [] n = 2 -> 100 [] n = 3 -> 1000 [] n = 4 -> 10000
              [] n = 5 -> 100000 [] n = 6 -> 1000000 [] n = 7 -> 10000000
              [] n = 8 -> 100000000 [] n = 9 -> 1000000000
Billion == 1000000000
Tile == 100000

\* position of code c (upper-cased) in alphabet (sequence of codes): 0-based or -1
Idx(alpha, c) ==
  LET u == Upper(c)  S == {i \in 1..Len(alpha) : alpha[i] = u}
  IN IF S = {} THEN -1 ELSE (CHOOSE i \in S : TRUE) - 1

\* letters (I and O are never used)
A2H == <<65, 66, 67, 68, 69, 70, 71, 72>>                     \* ABCDEFGH
J2R == <<74, 75, 76, 77, 78, 80, 81, 82>>                     \* JKLMNPQR
S2Z == <<83, 84, 85, 86, 87, 88, 89, 90>>                     \* STUVWXYZ
UTMCols(zone) == CASE zone % 3 = 1 -> A2H [] zone % 3 = 2 -> J2R [] OTHER -> S2Z
UTMRows == <<65, 66, 67, 68, 69, 70, 71, 72, 74, 75, 76, 77, 78, 80, 81, 82, 83, 84, 85, 86>>  \* A..V
LatBands == <<67, 68, 69, 70, 71, 72, 74, 75, 76, 77, 78, 80, 81, 82, 83, 84, 85, 86, 87, 88>> \* C..X
UPSBands == <<65, 66, 89, 90>>                                \* A B (south W/E)  Y Z (north W/E)
\* UPS column letters, indexed from the westernmost legal 100 km column of each half
UPSCols(ib) == CASE ib = 0 -> <<74, 75, 76, 80, 81, 82, 83, 84, 85, 88, 89, 90>>     \* JKLPQRSTUXYZ  x: 800..2000 km
                 [] ib = 1 -> <<65, 66, 67, 70, 71, 72, 74, 75, 76, 80, 81, 82>>     \* ABCFGHJKLPQR  x: 2000..3200
                 [] ib = 2 -> <<82, 83, 84, 85, 88, 89, 90>>                         \* RSTUXYZ       x: 1300..2000
                 [] ib = 3 -> <<65, 66, 67, 70, 71, 72, 74>>                         \* ABCFGHJ       x: 2000..2700
UPSRows(northp) == IF northp THEN <<65, 66, 67, 68, 69, 70, 71, 72, 74, 75, 76, 77, 78, 80>>   \* A..P  y: 1300..2700
                   ELSE <<65, 66, 67, 68, 69, 70, 71, 72, 74, 75, 76, 77, 78, 80, 81, 82, 83, 84, 85, 86, 87, 88, 89, 90>> \* y: 800..3200

(* ------------------------------------------------------------------------ *)
(* Coordinates                                                                *)
(* ------------------------------------------------------------------------ *)
\* floor of Eps metres: <<metres, below>>
MFloor(p) == IF p[2] < 0 THEN <<p[1] - 1, TRUE>> ELSE <<p[1], FALSE>>
FloorDiv(a, b) == IF a >= 0 THEN a \div b ELSE -((-a + b - 1) \div b)

\* legal index ranges [min, max) of 100 km tiles; the upper end itself is legal and is
\* treated as the point just below it
XRange(utmp, northp) == IF utmp THEN <<1, 9>> ELSE IF northp THEN <<13, 27>> ELSE <<8, 32>>
YRange(utmp, northp) == IF utmp THEN (IF northp THEN <<-90, 95>> ELSE <<10, 195>>)
                        ELSE IF northp THEN <<13, 27>> ELSE <<8, 32>>

\* normalise one coordinate against its range: "throw" or <<metres, below>>
Norm1(p, rng) ==
  IF p[1] = rng[2] * Tile /\ p[2] = 0 THEN <<p[1] - 1, TRUE>>       \* closed upper edge: nudged down
  ELSE LET f == MFloor(p)  t == FloorDiv(f[1], Tile)
       IN IF t >= rng[1] /\ t < rng[2] THEN f ELSE <<"throw">>

\* CheckCoords: ranges, then fold UTM northings into the proper hemisphere.
\* Result <<"throw">> or <<"ok", northp, xf, yf>> with xf, yf = <<metres, below>>
Check(utmp, northp, x, y) ==
  LET xf == Norm1(x, XRange(utmp, northp))
      yf == Norm1(y, YRange(utmp, northp))
  IN IF xf = <<"throw">> \/ yf = <<"throw">> THEN <<"throw">>
     ELSE IF ~utmp THEN <<"ok", northp, xf, yf>>
     ELSE LET t == FloorDiv(yf[1], Tile) IN
          IF northp /\ t < 0 THEN <<"ok", FALSE, xf, <<yf[1] + 100 * Tile, yf[2]>> >>
          ELSE IF ~northp /\ t >= 100 THEN
            (IF y = <<100 * Tile, 0>> THEN <<"ok", FALSE, xf, <<100 * Tile - 1, TRUE>> >>   \* on the equator: stays south
             ELSE <<"ok", TRUE, xf, <<yf[1] - 100 * Tile, yf[2]>> >>)
          ELSE <<"ok", northp, xf, yf>>

DigitSeq(n, w) == [i \in 1..w |-> 48 + ((n \div Pow10(w - i)) % 10)]
\* digits of a coordinate within its tile at precision prec (0..11)
CoordDigits(f, prec) ==
  LET m == f[1] % Tile
      q == IF prec < 5 THEN prec ELSE 5
  IN DigitSeq(m \div Pow10(5 - q), q) \o [i \in 1..(prec - 5) |-> IF f[2] THEN 57 ELSE 48]

(* ------------------------------------------------------------------------ *)
(* Forward.  bands = set of admissible latitude-band indices (-10..9) for   *)
(* the point (the band of its latitude; a neighbour too when the point is   *)
(* within 5 nm of a band edge) -- supplied by the observer for UTM.          *)
(* ------------------------------------------------------------------------ *)
Forward(zone, northp0, x, y, prec, bands) ==
  LET utmp == zone # 0
      ck == Check(utmp, northp0, x, y)
  IN IF ck = <<"throw">> \/ zone < 0 \/ zone > 60 \/ prec < -1 \/ prec > 11 THEN {<<"throw">>}
     ELSE
       LET northp == ck[2]  xf == ck[3]  yf == ck[4]
           xh == FloorDiv(xf[1], Tile)   yh == FloorDiv(yf[1], Tile)
           dig == IF prec > 0 THEN CoordDigits(xf, prec) \o CoordDigits(yf, prec) ELSE <<>>
       IN IF utmp THEN
            LET zs == <<48 + zone \div 10, 48 + (zone % 10)>>
                col == UTMCols(zone)[xh]                                   \* xh in 1..8
                row == UTMRows[((yh + (IF zone % 2 = 0 THEN 5 ELSE 0)) % 20) + 1]
            IN { IF prec = -1 THEN <<"ok", zs \o <<LatBands[b + 11]>> >>
                 ELSE <<"ok", zs \o <<LatBands[b + 11], col, row>> \o dig>> : b \in bands }
          ELSE
            LET eastp == xh >= 20
                ib == (IF northp THEN 2 ELSE 0) + (IF eastp THEN 1 ELSE 0)
                x0 == IF eastp THEN 20 ELSE IF northp THEN 13 ELSE 8
                y0 == IF northp THEN 13 ELSE 8
            IN { IF prec = -1 THEN <<"ok", <<UPSBands[ib + 1]>> >>
                 ELSE <<"ok", <<UPSBands[ib + 1], UPSCols(ib)[xh - x0 + 1], UPSRows(northp)[yh - y0 + 1]>> \o dig>> }

(* ------------------------------------------------------------------------ *)
(* Block admissibility from geometry.  fc = folded column 0..3 (distance of  *)
(* the block from the central meridian in tiles), r = row 0.. from the       *)
(* equator towards the pole, b = band index from the equator 0..9 (N..X or   *)
(* M..C).  The block spans latitudes [Tbl[fc+2][r+1], Tbl[fc+1][r+2]).        *)
(* Bands are 8 degrees; the outermost band extends to the northing limit.    *)
(* ------------------------------------------------------------------------ *)
BlockInBand(Tbl, fc, r, b) ==
  LET lo == Tbl[fc + 2][r + 1]        \* far from the meridian, equatorward edge
      hi == Tbl[fc + 1][r + 2]        \* on the meridian side, poleward edge
  IN /\ hi > 8000000 * b
     /\ (b = 9 \/ lo < 8000000 * (b + 1))

\* true row (0..94 north, 0..89 south counted from the equator) for a row letter index
\* (0..19, already corrected for the even-zone shift) given band and column, or -1
RowOf(Tbl, northp, fc, b, rl) ==
  LET maxr == IF northp THEN 94 ELSE 89
      \* north: rows r with r % 20 = rl; south: row r (from the equator) is tile -(r+1), letter index (-(r+1)) mod 20
      C == {r \in 0..maxr : (IF northp THEN r % 20 ELSE (100 - (r + 1)) % 20) = rl /\ BlockInBand(Tbl, fc, r, b)}
  IN IF C = {} THEN -1 ELSE CHOOSE r \in C : TRUE

\* coordinate limbs: half micrometres, base 10^9
Norm9(hi, lo) == <<hi + lo \div Billion, lo % Billion>>
RECURSIVE DigitVal(_)
DigitVal(s) == IF s = <<>> THEN 0 ELSE 10 * DigitVal(SubSeq(s, 1, Len(s) - 1)) + (s[Len(s)] - 48)
AllDigits(s) == \A i \in 1..Len(s) : IsDigit(s[i])
RECURSIVE NDig(_, _)
NDig(s, i) == IF i <= Len(s) /\ IsDigit(s[i]) THEN NDig(s, i + 1) ELSE i - 1

\* tile index t (100 km) + digits -> limbs of (metres*2e6) [+ half a cell if centerp]
Limbs(t, ds, centerp) ==
  LET p == Len(ds)
      q == IF p < 5 THEN p ELSE 5
      m == t * Tile + DigitVal(SubSeq(ds, 1, q)) * Pow10(5 - q)
      f == IF p > 5 THEN DigitVal(SubSeq(ds, 6, p)) * Pow10(11 - p) ELSE 0       \* micrometres
      cm == IF centerp /\ p <= 5 THEN Pow10(5 - p) ELSE 0
      cu == IF centerp /\ p > 5 THEN Pow10(11 - p) ELSE 0
  IN Norm9((2 * m + cm) \div 1000, ((2 * m + cm) % 1000) * 1000000 + 2 * f + cu)

(* Reverse: <<"throw">>, <<"nan">>, <<"zoneonly", zone, northp, ib>> or                *)
(* <<"ok", zone, northp, prec, xlimbs, ylimbs>>                                          *)
Reverse(Tbl, s, centerp) ==
  LET n == Len(s)
      nd == NDig(s, 1)
  IN IF n >= 3 /\ UpperS(SubSeq(s, 1, 3)) = <<73, 78, 86>> THEN <<"nan">>
     ELSE IF nd > 2 \/ n - nd < 1 THEN <<"throw">>
     ELSE
       LET zone == IF nd = 0 THEN 0 ELSE DigitVal(SubSeq(s, 1, nd))
           utmp == nd > 0
       IN IF utmp /\ (zone < 1 \/ zone > 60) THEN <<"throw">>
          ELSE
            LET ib == Idx(IF utmp THEN LatBands ELSE UPSBands, s[nd + 1])
                northp == ib >= (IF utmp THEN 10 ELSE 2)
            IN IF ib < 0 THEN <<"throw">>
               ELSE IF n = nd + 1 THEN <<"zoneonly", zone, northp, ib>>
               ELSE IF n - nd < 3 THEN <<"throw">>
               ELSE
                 LET ic == Idx(IF utmp THEN UTMCols(zone) ELSE UPSCols(ib), s[nd + 2])
                     ir == Idx(IF utmp THEN UTMRows ELSE UPSRows(northp), s[nd + 3])
                     ds == SubSeq(s, nd + 4, n)
                     p == Len(ds) \div 2
                 IN IF ic < 0 \/ ir < 0 \/ ~AllDigits(ds) \/ Len(ds) % 2 = 1 \/ p > 11 THEN <<"throw">>
                    ELSE IF utmp THEN
                      LET rl == IF zone % 2 = 0 THEN (ir + 15) % 20 ELSE ir
                          b == IF northp THEN ib - 10 ELSE 9 - ib           \* band counted from the equator
                          fc == IF ic < 4 THEN 3 - ic ELSE ic - 4
                          r == RowOf(Tbl, northp, fc, b, rl)
                      IN IF r < 0 THEN <<"throw">>
                         ELSE <<"ok", zone, northp, p, Limbs(ic + 1, SubSeq(ds, 1, p), centerp),
                                 Limbs(IF northp THEN r ELSE 100 - (r + 1), SubSeq(ds, p + 1, 2 * p), centerp)>>
                    ELSE
                      LET x0 == IF ib % 2 = 1 THEN 20 ELSE IF northp THEN 13 ELSE 8
                          y0 == IF northp THEN 13 ELSE 8
                      IN <<"ok", 0, northp, p, Limbs(ic + x0, SubSeq(ds, 1, p), centerp),
                              Limbs(ir + y0, SubSeq(ds, p + 1, 2 * p), centerp)>>

(* ------------------------------------------------------------------------ *)
(* Forward with a SUPPLIED latitude (the seven-argument overload).           *)
(* Documentation: "the latitude is used to determine the latitude band and   *)
(* this is checked for consistency using the same tests as Reverse", and     *)
(* "GeographicErr if lat is inconsistent with the given UTM coordinates".     *)
(* The test of Reverse is the geometric one: some portion of the 100 km      *)
(* block lies within the band.  latk = supplied latitude in micro-degrees    *)
(* (an exact lattice value).  Bands are 8 degrees from -80, include their    *)
(* southern edges, and are clipped to C..X.                                   *)
(* ------------------------------------------------------------------------ *)
BandOfMicro(k) == LET b == FloorDiv(k, 8000000) IN IF b < -10 THEN -10 ELSE IF b > 9 THEN 9 ELSE b
\* BandEdge5nm: a latitude exactly on a band edge (including the equator, where the hemisphere
\* of the point decides) is within 5 nm of the edge, so the neighbouring band is admissible too.
LatBandSet(k) == LET b == BandOfMicro(k) IN IF k = b * 8000000 /\ b > -10 THEN {b - 1, b} ELSE {b}

ForwardLat(Tbl, zone, northp0, x, y, latk, prec) ==
  LET ck == Check(TRUE, northp0, x, y)
      Out(b) == LET np == ck[2]
                    ic == FloorDiv(ck[3][1], Tile) - 1
                    yh == FloorDiv(ck[4][1], Tile)
                    fc == IF ic < 4 THEN 3 - ic ELSE ic - 4
                    rr == IF np THEN yh ELSE 99 - yh              \* row counted from the equator
                    be == IF np THEN b ELSE -b - 1                \* band counted from the equator
                IN IF (b >= 0) = np /\ BlockInBand(Tbl, fc, rr, be)
                   THEN Forward(zone, northp0, x, y, prec, {b}) ELSE {<<"throw">>}
  IN IF zone <= 0 \/ zone > 60 \/ prec < -1 \/ prec > 11 \/ ck = <<"throw">>
     THEN Forward(zone, northp0, x, y, prec, {0})               \* UPS: latitude ignored; otherwise throw
     ELSE UNION {Out(b) : b \in LatBandSet(latk)}

(* ------------------------------------------------------------------------ *)
(* Grid zones.  Longitude interval [lo, hi) in degrees of the grid zone      *)
(* (zone 1..60, ib = index of the band letter in C..X, V = 17, X = 19) with  *)
(* the Norway and Svalbard exceptions of the standard; <<0, 0>> for the      *)
(* designations 32X, 34X, 36X, which the standard does not have (the         *)
(* documentation does not say which point they give: NoSuchGridZone).        *)
(* ------------------------------------------------------------------------ *)
GridZoneLon(zone, ib) ==
  CASE ib = 17 /\ zone = 31 -> <<0, 3>>
    [] ib = 17 /\ zone = 32 -> <<3, 12>>
    [] ib = 19 /\ zone = 31 -> <<0, 9>>
    [] ib = 19 /\ zone = 33 -> <<9, 21>>
    [] ib = 19 /\ zone = 35 -> <<21, 33>>
    [] ib = 19 /\ zone = 37 -> <<33, 42>>
    [] ib = 19 /\ zone \in {32, 34, 36} -> <<0, 0>>
    [] OTHER -> <<6 * zone - 186, 6 * zone - 180>>

\* limbs of half-micrometres -> <<metres, exact>>
HalfUmMetres(L) == <<L[1] * 500 + L[2] \div 2000000, L[2] % 2000000 = 0>>

(* ------------------------------------------------------------------------ *)
(* Decode (syntactic split).  Documentation: "0-2 digits followed by 1 or 3  *)
(* letters, followed (in the case of 3 letters) by an even number (possibly  *)
(* 0) of digits"; I and O are not letters; "INV..." gives the first three    *)
(* characters as grid zone and empty parts.  <<"throw">> or                   *)
(* <<"ok", gridzone, block, easting, northing>>.                              *)
(* ------------------------------------------------------------------------ *)
IsAlpha(c) == LET u == Upper(c) IN u >= 65 /\ u <= 90 /\ u # 73 /\ u # 79
RECURSIVE NAlpha(_, _)
NAlpha(s, i) == IF i <= Len(s) /\ IsAlpha(s[i]) THEN NAlpha(s, i + 1) ELSE i - 1
DecodeSyn(s) ==
  LET n == Len(s)
      nd == NDig(s, 1)
      pa == NAlpha(s, nd + 1)          \* last letter position
      na == pa - nd
      rest == SubSeq(s, pa + 1, n)
      h == Len(rest) \div 2
  IN IF n >= 3 /\ UpperS(SubSeq(s, 1, 3)) = <<73, 78, 86>> THEN <<"ok", SubSeq(s, 1, 3), <<>>, <<>>, <<>> >>
     ELSE IF nd > 2 \/ na \notin {1, 3} \/ ~AllDigits(rest) \/ (na = 1 /\ rest # <<>>) \/ Len(rest) % 2 = 1 THEN <<"throw">>
     ELSE <<"ok", SubSeq(s, 1, nd + 1), SubSeq(s, nd + 2, pa), SubSeq(rest, 1, h), SubSeq(rest, h + 1, 2 * h)>>


IsPrefixOf(p, s) == Len(p) <= Len(s) /\ SubSeq(s, 1, Len(p)) = p
\* per-coordinate prefix law between two MGRS strings with the same head (zone+letters)
PrefixOK(lo, hi, h) ==
  LET pl == (Len(lo) - h) \div 2   ph == (Len(hi) - h) \div 2
  IN IF Len(lo) <= h THEN IsPrefixOf(lo, hi)
     ELSE /\ Len(hi) >= h + 2 * pl
          /\ SubSeq(lo, 1, h) = SubSeq(hi, 1, h)
          /\ SubSeq(lo, h + 1, h + pl) = SubSeq(hi, h + 1, h + pl)
          /\ SubSeq(lo, h + pl + 1, h + 2 * pl) = SubSeq(hi, h + ph + 1, h + ph + pl)
=============================================================================
