---------------------------- MODULE Trace_Polygon ----------------------------
(* Stateful validation of polygon observations (C08).  After every building  *)
(* operation the driver logs the complete observable state of the object:     *)
(* NumberPoints, CurrentPoint, Compute for the four (reverse, sign) flags,    *)
(* TestPoint for six lattice vertices and TestEdge for three lattice edges    *)
(* (two flag combinations each).  The specification recomputes all of them    *)
(* from its own state <<verts, hows>> with the Gauss-Bonnet oracle.           *)
EXTENDS PolygonOps, TraceKit

CONSTANTS TolPer,      \* micrometres, lattice perimeters (integers of metres)
          TolArea,     \* micro-U, lattice areas (integers of U)
          AreaPerVertex, \* 1e-4 m^2 per vertex: documented bound 0.1 m^2 per vertex
          TolPerNm,    \* nm, perimeter agreement between two evaluations of the same polygon
          TolPosNm,    \* nm, an edge entered with the azimuth and length of the inverse problem ends at the vertex (inverse + direct error)
          TolRhumbLegNm, \* nm per rhumb leg against the defining integrals
          RoundoffUlps,  \* "ordinary round-off of the accumulated sums" of TestEdge: units in the last place of the largest partial sum
          EvMaxArc, EvMaxLatRhumb,     \* micro-degrees: conditioning guard of the edge-versus-vertex law
          EvGeodPerNm, EvRhumbPerNm    \* 1e-4 m^2 of area per nm of vertex displacement under that guard
VARIABLES l, verts, hows, polyline

Untouched == 2000000002
NaNQ == 2000000001
Abs(x) == IF x < 0 THEN -x ELSE x

\* observed <<num, per, area>> against expected <<num, per, areaset>> (per = -1: not determined)
Match(obs, exp, areaExpected) ==
  /\ obs[1] = exp[1]
  /\ (exp[2] >= 0 => Abs(obs[2] - 1000000 * exp[2]) <= TolPer)
  /\ IF ~areaExpected THEN obs[3] = Untouched
     ELSE exp[3] = {} \/ \E a \in exp[3] : Abs(obs[3] - 1000000 * a) <= TolArea

LatQ(p) == IF p[1] = "N" THEN 90000000 ELSE IF p[1] = "S" THEN -90000000 ELSE 0

\* the observation logged WITH an operation describes the state AFTER it: vs, hs, pl are the successor state
StateOK(r, vs, hs, pl) ==
  LET n == Len(vs) IN
  /\ r.num = n /\ r.same
  \* CurrentPoint: longitude compared modulo 360 (it is unrolled in polygon mode only)
  \* ("If no points have been added, then NaNs are returned": fresh object, after Clear, after AddEdge on the empty object)
  /\ (n = 0 => r.cur = <<NaNQ, NaNQ>>)
  /\ (n > 0 => r.cur[1] = LatQ(vs[n]) /\ Abs(((r.cur[2] - 1000000 * vs[n][2] + 180000000) % 360000000) - 180000000) <= 10)
  \* Compute, four flag combinations
  /\ \A f \in 1..4 : Match(r.comp[f], ComputeExp(vs, hs, pl, Flags[f][1], Flags[f][2]), ~pl)
  \* TestPoint == AddPoint; Compute
  /\ \A t \in 1..Len(TestVerts), f \in 1..2 :
       LET p == TestVerts[t]
           ambiguous == n > 0 /\ Antipodal(vs[n], p)
           nx == AddPointS(vs, hs, p)
       IN ambiguous \/ Match(r.tp[2 * (t - 1) + f], ComputeExp(nx[1], nx[2], pl, TestFlags[f][1], TestFlags[f][2]), ~pl)
  \* TestEdge == AddEdge; Compute (no starting point: returns 0 and NaN)
  /\ \A t \in 1..3, f \in 1..2 :
       LET o == r.te[2 * (t - 1) + f] IN
       IF n = 0 THEN o[1] = 0 /\ o[2] = NaNQ /\ (pl \/ o[3] = NaNQ)
       ELSE ~AddEdgeOK(vs) \/
            LET nx == AddEdgeS(vs, hs, TestEdges[t][1], TestEdges[t][2])
            IN Match(o, ComputeExp(nx[1], nx[2], pl, TestFlags[f][1], TestFlags[f][2]), ~pl)

Min(x, y) == IF x < y THEN x ELSE y

(* KNOWN FINDING of C09 (known_findings.json, region "pro-exact-eq"): Rhumb(a, f < 0, exact = true) loses accuracy on nearly   *)
(* east-west courses within 10 degrees of the equator (micrometres instead of nanometres; seen here as 8.6 um on the side       *)
(* (-0.0087653946945380201, -82.43152420874685) -> (-0.0043138913860584494, 8.7185241468250751), a = 6378137, f = -1/150: exact    *)
(* option 10146776.911595220 m, series 10146776.911586609 m, defining integral 10146776.911586603 m).  The input class is           *)
(* computed from the inputs only: exact rhumb back end, prolate ellipsoid, a side of the polygon reaches |lat| < 10 degrees        *)
(* (minlat in micro-degrees, 0 if a side crosses the equator).  Only the LENGTH laws that involve the exact rhumb back end       *)
(* are suspended for this class (the area laws stay).                                                                           *)
ProExactEq(r, minlat) == r.backend = 4 /\ r.fq < 0 /\ minlat < 10000000

(* ev - edge versus vertex: "For any sequence of added vertices and/or edges ... the polygon with those vertices".  The      *)
(* random polygon is rebuilt with some vertices entered by AddEdge(azimuth, length of the back end's own inverse problem     *)
(* from the current point).  ev = <<area residual, perimeter residual, largest distance CurrentPoint - vertex (nm),          *)
(* AddEdge on the empty object was a no-op and the final count is right, number of edges, longest side (micro-degrees of     *)
(* arc, from the inputs), largest |latitude| (micro-degrees, from the inputs)>>.                                             *)
(* The end of such an edge is the vertex to within the documented errors of one inverse and one direct solution             *)
(* (Geodesic.hpp: 15 nm WGS84, 25 nm at |f| = 0.01; rhumb: about 10 nm) - TolPosNm.  A vertex displaced by d changes the      *)
(* area by at most d R (tan(s1/2) + tan(s2/2)) (s1, s2 the adjacent sides as arcs), which is unbounded for nearly antipodal    *)
(* vertices; for rhumb sides the factor grows like sec(latitude).  Hence the named guard WellConditioned: every side at most   *)
(* EvMaxArc (120 degrees: d R 2 tan 60 <= 224e-4 m^2 per nm for R <= 6.46e6 m) and, for the rhumb back ends, every latitude     *)
(* within EvMaxLatRhumb (80 degrees: d sec(80) (l1 + l2)/2 with sides up to 2e7 m <= 1152e-4 m^2 per nm).  The perimeter        *)
(* changes by at most 2 d per displaced vertex.                                                                              *)
EvOK(r) ==
  LET ev == r.ev
      rh == r.backend >= 3
      WellConditioned == ev[6] <= EvMaxArc /\ (rh => ev[7] <= EvMaxLatRhumb)
      d == Min(ev[3], TolPosNm) + 1
      k == IF rh THEN EvRhumbPerNm ELSE EvGeodPerNm
  IN /\ ev[4] = 1
     /\ (ProExactEq(r, r.eq) \/ ev[3] <= TolPosNm)
     \* (in the class ProExactEq the end of an edge may be micrometres from the vertex, so neither comparison applies)
     /\ ((WellConditioned /\ ~ProExactEq(r, r.eq)) =>
           /\ ev[1] <= 2 * AreaPerVertex * (r.nv + 1) + ev[5] * d * k
           /\ ev[2] <= TolPerNm * (r.nv + 1) + 2 * ev[5] * d)

(* ra - absolute reference for the rhumb back ends (series and exact option): ra = <<area residual, perimeter residual,       *)
(* number of vertices, longitude span, largest |latitude| (micro-degrees), generator, minlat>> of a polygon inside a longitude band    *)
(* narrower than 180 degrees (it cannot enclose a pole and every shortest rhumb side stays inside the band) against            *)
(* - sum of the areas under its sides, S12 = int c^2 sin(xi) dlambda along the rhumb line (Rhumb.hpp, "The area under a rhumb *)
(* line"), and the sum of the rhumb lengths, both from the defining integrals evaluated by the driver in long double.          *)
(* Area: the documented bound per vertex for ONE evaluation; length: "about 10 nm" per rhumb line, taken with a factor 4.      *)
RaOK(r) ==
  r.backend >= 3 =>
    /\ "ra" \in DOMAIN r
    /\ r.ra[4] <= 170000000 /\ r.ra[5] <= 85000000
    /\ r.ra[1] <= AreaPerVertex * (r.ra[3] + 1)
    /\ (ProExactEq(r, r.ra[7]) \/ r.ra[2] <= TolRhumbLegNm * (r.ra[3] + 1))

\* ---- random-polygon law records: residuals in 1e-4 m^2 and nm, tolerances from the documentation ----
RlOK(r) ==
  LET ta == 2 * AreaPerVertex * (r.nv + 1)
      tp == TolPerNm * (r.nv + 1)
  IN /\ r.rot[1] <= ta /\ r.rot[2] <= tp
     /\ r.rev[1] <= ta /\ r.rev[2] <= ta /\ r.rev[3] <= ta /\ r.rev[4] <= tp
     /\ r.shift[1] <= ta /\ r.shift[2] <= tp /\ r.shift[3] <= ta /\ r.shift[4] <= tp
     /\ r.diag[1] <= ta /\ r.diag[2] <= tp
     \* TestEdge keeps its tentative sum in a plain double: "to within ordinary round-off of the accumulated sums", i.e. a few
     \* (RoundoffUlps) units in the last place of the largest partial sum, test[6], which is large for a rhumb edge that winds
     \* many times around a pole (bound computed by the driver from the inputs only)
     /\ r.test[1] <= ta /\ r.test[2] <= tp /\ r.test[3] = 1 /\ r.test[4] <= ta + RoundoffUlps * Min(r.test[6], 100000000) /\ r.test[5] <= tp
     \* (back ends 0, 1, 2 are compared among themselves; 3 with 4 and 4 with 3 - the pair contains the exact rhumb back end)
     /\ r.xb[1] <= ta /\ ((r.backend >= 3 /\ r.fq < 0 /\ r.eq < 10000000) \/ r.xb[2] <= tp)
     /\ r.pl[1] = 1 /\ r.pl[2] <= tp
     /\ r.rng[1] = 1 /\ r.rng[2] = 1
     /\ EvOK(r) /\ RaOK(r)

Obligation(r) ==
  CASE r.e = "Reset" -> r.plflag = r.polyline
    [] r.e \in {"pt", "ed", "clear"} -> TRUE
    [] r.e = "rl" -> RlOK(r)
    [] OTHER -> FALSE

\* successor state according to the SPEC
NextState(r) ==
  CASE r.e \in {"Reset", "clear"} -> <<<<>>, <<>>>>
    [] r.e = "pt" -> AddPointS(verts, hows, <<r.k, r.lon>>)
    [] r.e = "ed" -> IF verts = <<>> THEN <<verts, hows>> ELSE AddEdgeS(verts, hows, r.dir, r.s)
    [] OTHER -> <<verts, hows>>

Init == l = 1 /\ KitInit /\ verts = <<>> /\ hows = <<>> /\ polyline = FALSE
Next == /\ l <= NT
        /\ LET r == T[l]
               ns == NextState(r)
               pl == IF r.e = "Reset" THEN r.polyline ELSE polyline
           IN /\ verts' = ns[1] /\ hows' = ns[2] /\ polyline' = pl
              /\ Require(Obligation(r) /\ (r.e \in {"Reset", "pt", "ed", "clear"} => StateOK(r, ns[1], ns[2], pl)),
                         l, "poly-" \o r.e, <<ns[1], [f \in 1..4 |-> ComputeExp(ns[1], ns[2], pl, Flags[f][1], Flags[f][2])]>>)
        /\ Consumed(l)
        /\ l' = l + 1
=============================================================================
