---------------------------- MODULE Trace_Polygon ----------------------------
(* Stateful validation of polygon observations (C08).  After every building  *)
(* operation the driver logs the complete observable state of the object:     *)
(* NumberPoints, CurrentPoint, Compute for the four (reverse, sign) flags,    *)
(* TestPoint for six lattice vertices and TestEdge for three lattice edges    *)
(* (two flag combinations each).  The specification recomputes all of them    *)
(* from its own state <<verts, hows>> with the Gauss-Bonnet oracle.           *)
EXTENDS PolygonOps, TraceKit

CONSTANTS TolPer,      \* micrometres, lattice perimeters (integers of metres)
          TolArea,     \* micro-U, lattice areas (integers of U)
          AreaPerVertex, \* 1e-4 m^2 per vertex: documented bound 0.1 m^2 per vertex
          TolPerNm     \* nm, perimeter agreement between two evaluations of the same polygon
VARIABLES l, verts, hows, polyline

Untouched == 2000000002
NaNQ == 2000000001
Abs(x) == IF x < 0 THEN -x ELSE x

\* observed <<num, per, area>> against expected <<num, per, areaset>> (per = -1: not determined)
Match(obs, exp, areaExpected) ==
  /\ obs[1] = exp[1]
  /\ (exp[2] >= 0 => Abs(obs[2] - 1000000 * exp[2]) <= TolPer)
  /\ IF ~areaExpected THEN obs[3] = Untouched
     ELSE exp[3] = {} \/ \E a \in exp[3] : Abs(obs[3] - 1000000 * a) <= TolArea

LatQ(p) == IF p[1] = "N" THEN 90000000 ELSE IF p[1] = "S" THEN -90000000 ELSE 0

\* the observation logged WITH an operation describes the state AFTER it: vs, hs, pl are the successor state
StateOK(r, vs, hs, pl) ==
  LET n == Len(vs) IN
  /\ r.num = n /\ r.same
  \* CurrentPoint: longitude compared modulo 360 (it is unrolled in polygon mode only)
  /\ (n > 0 => r.cur[1] = LatQ(vs[n]) /\ Abs(((r.cur[2] - 1000000 * vs[n][2] + 180000000) % 360000000) - 180000000) <= 10)
  \* Compute, four flag combinations
  /\ \A f \in 1..4 : Match(r.comp[f], ComputeExp(vs, hs, pl, Flags[f][1], Flags[f][2]), ~pl)
  \* TestPoint == AddPoint; Compute
  /\ \A t \in 1..6, f \in 1..2 :
       LET p == TestVerts[t]
           ambiguous == n > 0 /\ Antipodal(vs[n], p)
           nx == AddPointS(vs, hs, p)
       IN ambiguous \/ Match(r.tp[2 * (t - 1) + f], ComputeExp(nx[1], nx[2], pl, TestFlags[f][1], TestFlags[f][2]), ~pl)
  \* TestEdge == AddEdge; Compute (no starting point: returns 0 and NaN)
  /\ \A t \in 1..3, f \in 1..2 :
       LET o == r.te[2 * (t - 1) + f] IN
       IF n = 0 THEN o[1] = 0 /\ o[2] = NaNQ /\ (pl \/ o[3] = NaNQ)
       ELSE ~AddEdgeOK(vs) \/
            LET nx == AddEdgeS(vs, hs, TestEdges[t][1], TestEdges[t][2])
            IN Match(o, ComputeExp(nx[1], nx[2], pl, TestFlags[f][1], TestFlags[f][2]), ~pl)

\* ---- random-polygon law records: residuals in 1e-4 m^2 and nm, tolerances from the documentation ----
RlOK(r) ==
  LET ta == 2 * AreaPerVertex * (r.nv + 1)
      tp == TolPerNm * (r.nv + 1)
  IN /\ r.rot[1] <= ta /\ r.rot[2] <= tp
     /\ r.rev[1] <= ta /\ r.rev[2] <= ta /\ r.rev[3] <= ta /\ r.rev[4] <= tp
     /\ r.shift[1] <= ta /\ r.shift[2] <= tp /\ r.shift[3] <= ta /\ r.shift[4] <= tp
     /\ r.diag[1] <= ta /\ r.diag[2] <= tp
     /\ r.test[1] <= ta /\ r.test[2] <= tp /\ r.test[3] = 1 /\ r.test[4] <= ta /\ r.test[5] <= tp
     /\ r.xb[1] <= ta /\ r.xb[2] <= tp
     /\ r.pl[1] = 1 /\ r.pl[2] <= tp
     /\ r.rng[1] = 1 /\ r.rng[2] = 1

Obligation(r) ==
  CASE r.e = "Reset" -> r.plflag = r.polyline
    [] r.e \in {"pt", "ed", "clear"} -> TRUE
    [] r.e = "rl" -> RlOK(r)
    [] OTHER -> FALSE

\* successor state according to the SPEC
NextState(r) ==
  CASE r.e \in {"Reset", "clear"} -> <<<<>>, <<>>>>
    [] r.e = "pt" -> AddPointS(verts, hows, <<r.k, r.lon>>)
    [] r.e = "ed" -> IF verts = <<>> THEN <<verts, hows>> ELSE AddEdgeS(verts, hows, r.dir, r.s)
    [] OTHER -> <<verts, hows>>

Init == l = 1 /\ KitInit /\ verts = <<>> /\ hows = <<>> /\ polyline = FALSE
Next == /\ l <= NT
        /\ LET r == T[l]
               ns == NextState(r)
               pl == IF r.e = "Reset" THEN r.polyline ELSE polyline
           IN /\ verts' = ns[1] /\ hows' = ns[2] /\ polyline' = pl
              /\ Require(Obligation(r) /\ (r.e \in {"Reset", "pt", "ed", "clear"} => StateOK(r, ns[1], ns[2], pl)),
                         l, "poly-" \o r.e, <<ns[1], [f \in 1..4 |-> ComputeExp(ns[1], ns[2], pl, Flags[f][1], Flags[f][2])]>>)
        /\ Consumed(l)
        /\ l' = l + 1
=============================================================================
