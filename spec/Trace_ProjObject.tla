--------------------------- MODULE Trace_ProjObject ---------------------------
(* Follows the replay of the histories of MC_ProjObject on the real objects     *)
(* (C17).  One history = one group of trace lines on ONE CassiniSoldner object: *)
(*   {"e":"Reset", form, o}   the constructor (form 0: CassiniSoldner(earth);   *)
(*                            form 1: CassiniSoldner(o, earth))                 *)
(*   {"e":"rs", o}            CassiniSoldner::Reset(o)                          *)
(*   {"e":"pf"|"pr", ...}     Forward / Reverse of that object                  *)
(*   {"e":"af"|"ar"|"gf"}     Forward / Reverse of an AzimuthalEquidistant /    *)
(*                            Gnomonic object that lives for the whole replay,  *)
(*                            with the centre the history has reached           *)
(* The model state cs is advanced by the spec's own actions; every observation  *)
(* is compared with what ProjObject predicts for the state the SPEC is in.      *)
(* Numbers: [round(2 v), residual] with the residual in pm (lengths), 1e-12 deg *)
(* (angles), 1e-15 (rk).  Flags computed by the driver by bitwise comparison:   *)
(* fresh (same outputs as a new object for the centre `fo`, which must be the   *)
(* model's centre), ovl (the overloads without azi / rk), untouched.            *)
EXTENDS ProjObject, TraceKit

CONSTANTS TolLat,       \* pm resp. 1e-12 degree: round-off of integer answers on the unit-degree sphere
          TolScale      \* 1e-15
VARIABLE l

F(name, ok) == IF ok THEN <<>> ELSE <<name>>
Res(v) == v[2] >= -TolLat /\ v[2] <= TolLat
Dbl(S) == {2 * v : v \in S}
InSet(v, S) == v[1] \in Dbl(S) /\ Res(v)
AngIn(v, S) == (\E a \in S : (v[1] - 2 * a) % 720 = 0) /\ Res(v)
RkOK(v, rk2) == rk2 = 99 \/ (v[1] = rk2 /\ v[2] >= -TolScale /\ v[2] <= TolScale)
O2(o) == <<o[1], o[2]>>

\* after the constructor / a Reset: Init() and the centre the object reports
StateFails(r) ==
  F("init", r.init = cs'.init)
  \o F("origin", cs'.init => r.lat0[1] = 2 * cs'.o[1] /\ r.lat0[2] = 0 /\ (r.lon0[1] - 2 * cs'.o[2]) % 720 = 0 /\ r.lon0[2] = 0)

PfFails(r) ==
  IF ~cs.init THEN F("does-nothing-if-origin-not-set", r.untouched /\ ~r.init)
  ELSE LET f == CsFwd(cs.o, O2(r.p)) IN
       IF f.kind # "pt" THEN <<"not-a-lattice-probe">>
       ELSE F("no-exception", r.out = "ok" /\ r.init)
            \o F("easting", InSet(r.x, f.x)) \o F("northing", InSet(r.y, f.y))
            \o F("azimuth-of-easting-direction", f.azi = {} \/ AngIn(r.azi, f.azi))
            \o F("reciprocal-scale", RkOK(r.rk, f.rk2))
            \o F("reset-equals-fresh", r.fresh /\ O2(r.fo) = cs.o)
            \o F("overloads-agree", r.ovl)

PrFails(r) ==
  IF ~cs.init THEN F("does-nothing-if-origin-not-set", r.untouched /\ ~r.init)
  ELSE LET f == CsRev(cs.o, O2(r.q)) IN
       IF f.kind \notin {"pt", "pole"} THEN <<"not-a-lattice-probe">>
       ELSE F("no-exception", r.out = "ok" /\ r.init)
            \o F("latitude", InSet(r.lat, {f.lat}))
            \o F("longitude", f.kind = "pt" /\ Abs(f.lat) # 90 => AngIn(r.lon, {f.lon}))
            \o F("azimuth-of-easting-direction", f.azi = {} \/ AngIn(r.azi, f.azi))
            \o F("reciprocal-scale", RkOK(r.rk, f.rk2))
            \o F("reset-equals-fresh", r.fresh /\ O2(r.fo) = cs.o)
            \o F("overloads-agree", r.ovl)

\* the stateless objects: the centre is the argument r.o, which the driver takes from the history (it must be the model's centre)
AfFails(r) ==
  LET f == AzFwd(O2(r.o), O2(r.p)) IN
  IF f.kind # "pt" \/ O2(r.o) # cs.o THEN <<"not-a-lattice-probe">>
  ELSE F("no-exception", r.out = "ok") \o F("x", InSet(r.x, f.x)) \o F("y", InSet(r.y, f.y)) \o F("azimuth", AngIn(r.azi, f.azi))
       \o F("history-free", r.lived) \o F("overloads-agree", r.ovl)
ArFails(r) ==
  LET f == AzRev(O2(r.o), O2(r.q)) IN
  IF f.kind # "pt" \/ O2(r.o) # cs.o THEN <<"not-a-lattice-probe">>
  ELSE F("no-exception", r.out = "ok") \o F("latitude", InSet(r.lat, {f.lat})) \o F("longitude", AngIn(r.lon, {f.lon}))
       \o F("azimuth", AngIn(r.azi, f.azi)) \o F("history-free", r.lived) \o F("overloads-agree", r.ovl)
\* gnomonic: t = [round(2 x / R), residual 1e-12] for x and y, nan = both NaN
GfFails(r) ==
  LET f == GnFwd(O2(r.o), O2(r.p)) IN
  IF f.kind # "pt" \/ O2(r.o) # cs.o THEN <<"not-a-lattice-probe">>
  ELSE F("no-exception", r.out = "ok")
       \o F("nan-beyond-horizon", (f.tan2 = 98 => r.nan) /\ (f.tan2 \in -2..2 => ~r.nan))
       \o F("position", f.tan2 \in -2..2 => InSet(r.tx, {0}) /\ r.ty[1] = f.tan2 /\ Res(r.ty))
       \o F("azimuth", AngIn(r.azi, f.azi)) \o F("reciprocal-scale", RkOK(r.rk, f.rk2))
       \o F("history-free", r.lived) \o F("overloads-agree", r.ovl)

Init == l = 1 /\ KitInit /\ cs = Uninit /\ ret = "none"
Step(r) ==
  CASE r.e = "Reset" -> (IF r.form = 0 THEN New0 ELSE New(O2(r.o)))
    [] r.e = "rs" -> Reset(O2(r.o))
    [] OTHER -> UNCHANGED <<cs, ret>>
Fails(r) ==
  CASE r.e \in {"Reset", "rs"} -> StateFails(r)
    [] r.e = "pf" -> PfFails(r) [] r.e = "pr" -> PrFails(r)
    [] r.e = "af" -> AfFails(r) [] r.e = "ar" -> ArFails(r) [] r.e = "gf" -> GfFails(r)
    [] OTHER -> <<"unknown-record-kind">>
Next == /\ l <= NT
        /\ Step(T[l])
        /\ Require(Fails(T[l]) = <<>>, l, "c17-obj-" \o T[l].e, Fails(T[l]))
        /\ Consumed(l)
        /\ l' = l + 1
=============================================================================
