--------------------------------- MODULE DMS ---------------------------------
(***************************************************************************)
(* Degrees-minutes-seconds text (property C10), written from DMS.hpp.       *)
(*                                                                          *)
(* Decoder: symbol substitution (the table of UTF-8 alternatives), removal  *)
(* of the listed spaces, '' -> ", trimming, splitting at internal signs,    *)
(* decoding of each piece (hemisphere designator at either end, one leading *)
(* sign, components d ' " in this order or separated by colons, only the    *)
(* last component may be a decimal fraction, integer parts of minutes and   *)
(* seconds below 60, nan/inf words), summation; DecodeLatLon, DecodeAngle,  *)
(* DecodeAzimuth.                                                            *)
(* Encoder: an angle given as an exact count of units of the last printed   *)
(* digit -> the string (carry, zero fill, hemisphere letters, azimuth        *)
(* reduction, separators).                                                    *)
(*                                                                          *)
(* Exact arithmetic: a finite angle is sign, D (whole degrees) and R, a     *)
(* count of U-ths of a degree (U = 3.6e8, i.e. 1e-5 arc second), 0 <= R < U.*)
(* Fractions are exact up to 7 (degrees), 6 (minutes), 5 (seconds) decimal  *)
(* digits (and further digits that still give whole units); beyond that      *)
(* exact = FALSE and the magnitude of a piece lies in [R, R + 2) units.       *)
(***************************************************************************)
EXTENDS NumText

NONE == 0
LATITUDE == 1
LONGITUDE == 2
AZIMUTH == 3
NUMBER == 4
DEGREE == 0
MINUTE == 1
SECOND == 2

U == 360000000

(* ------------------------------------------------------------------------ *)
(* The symbol table of DMS.hpp.  U+00xx symbols are accepted in their UTF-8  *)
(* form and as a single byte.                                                 *)
(* ------------------------------------------------------------------------ *)
DegL == <<<<100>>, <<68>>, <<194, 176>>, <<194, 186>>, <<226, 129, 176>>, <<203, 154>>, <<226, 136, 152>>, <<42>>,
          <<176>>, <<186>> >>
MinL == <<<<39>>, <<96>>, <<226, 128, 178>>, <<226, 128, 181>>, <<194, 180>>, <<226, 128, 152>>, <<226, 128, 153>>,
          <<226, 128, 155>>, <<202, 185>>, <<203, 138>>, <<203, 139>>, <<180>> >>
SecL == <<<<34>>, <<226, 128, 179>>, <<226, 128, 182>>, <<203, 157>>, <<226, 128, 156>>, <<226, 128, 157>>,
          <<226, 128, 159>>, <<202, 186>> >>
PlusL == <<<<43>>, <<226, 158, 149>>, <<226, 129, 164>> >>
MinusL == <<<<45>>, <<226, 128, 144>>, <<226, 128, 145>>, <<226, 128, 147>>, <<226, 128, 148>>, <<226, 136, 146>>,
            <<226, 158, 150>> >>
SpaceL == <<<<194, 160>>, <<226, 128, 135>>, <<226, 128, 137>>, <<226, 128, 138>>, <<226, 128, 139>>,
            <<226, 128, 175>>, <<226, 129, 163>>, <<160>> >>
Range(f) == {f[i] : i \in DOMAIN f}
DegSyms == Range(DegL)
MinSyms == Range(MinL)
SecSyms == Range(SecL)
PlusSyms == Range(PlusL)
MinusSyms == Range(MinusL)
SpaceSyms == Range(SpaceL)

\* canonical code of a symbol sequence: 100 d, 39 ', 34 ", 43 +, 45 -, -1 removed, -2 not a symbol
Canon(q) ==
  CASE q \in DegSyms -> 100 [] q \in MinSyms -> 39 [] q \in SecSyms -> 34 [] q \in PlusSyms -> 43
    [] q \in MinusSyms -> 45 [] q \in SpaceSyms -> -1 [] OTHER -> -2

\* pass 1: multi-byte sequences, left to right (patterns cannot overlap: continuation bytes are never lead bytes)
RECURSIVE Sub1(_, _, _)
Sub1(s, i, acc) ==
  IF i > Len(s) THEN acc
  ELSE IF s[i] = 226 /\ i + 2 <= Len(s) /\ Canon(<<s[i], s[i + 1], s[i + 2]>>) # -2
       THEN Sub1(s, i + 3, Append(acc, Canon(<<s[i], s[i + 1], s[i + 2]>>)))
  ELSE IF s[i] \in {194, 202, 203} /\ i + 1 <= Len(s) /\ Canon(<<s[i], s[i + 1]>>) # -2
       THEN Sub1(s, i + 2, Append(acc, Canon(<<s[i], s[i + 1]>>)))
  ELSE Sub1(s, i + 1, Append(acc, s[i]))
\* pass 2: single bytes (only the non-ASCII ones and * ` change)
Canon1(c) == IF c \in {176, 186, 42} THEN 100 ELSE IF c \in {96, 180} THEN 39 ELSE IF c = 160 THEN -1 ELSE c
\* pass 3: two consecutive minute symbols are a seconds symbol
RECURSIVE Sub3(_, _, _)
Sub3(s, i, acc) ==
  IF i > Len(s) THEN acc
  ELSE IF s[i] = 39 /\ i + 1 <= Len(s) /\ s[i + 1] = 39 THEN Sub3(s, i + 2, Append(acc, 34))
  ELSE Sub3(s, i + 1, Append(acc, s[i]))

Plain(s) == \A i \in 1..Len(s) : s[i] < 128 /\ s[i] \notin {42, 96}
HasQQ(s) == \E i \in 1..(Len(s) - 1) : s[i] = 39 /\ s[i + 1] = 39
Canonical(s) ==
  LET a == IF Plain(s) THEN s
           ELSE LET b == Sub1(s, 1, <<>>)
                    c == [i \in 1..Len(b) |-> IF b[i] < 0 THEN b[i] ELSE Canon1(b[i])]
                IN SelectSeq(c, LAMBDA x : x # -1)
  IN Trim(IF HasQQ(a) THEN Sub3(a, 1, <<>>) ELSE a)

(* ------------------------------------------------------------------------ *)
(* pieces                                                                     *)
(* ------------------------------------------------------------------------ *)
\* hemisphere designators S N W E (either case): 0 none, 1 S, 2 N, 3 W, 4 E
Hemi(c) == LET u == Upper(c) IN CASE u = 83 -> 1 [] u = 78 -> 2 [] u = 87 -> 3 [] u = 69 -> 4 [] OTHER -> 0
HemiInd(h) == IF h = 0 THEN NONE ELSE IF h <= 2 THEN LATITUDE ELSE LONGITUDE
HemiNeg(h) == h \in {1, 3}
\* component indicator: 0 d, 1 ', 2 ", 3 colon, -1 none
IndIdx(c) == CASE c = 100 \/ c = 68 -> 0 [] c = 39 -> 1 [] c = 34 -> 2 [] c = 58 -> 3 [] OTHER -> -1

\* internal signs: not at the beginning nor immediately after an initial hemisphere designator
CutPoints(t) ==
  LET n == Len(t)
      h0 == IF n >= 1 /\ Hemi(t[1]) # 0 THEN 1 ELSE 0
      pa == IF h0 + 1 <= n /\ IsSign(t[h0 + 1]) THEN h0 + 2 ELSE h0 + 1
  IN {j \in pa..n : IsSign(t[j])}
RECURSIVE PiecesFrom(_, _, _)
PiecesFrom(t, from, cuts) ==
  IF cuts = {} THEN <<SubSeq(t, from, Len(t))>>
  ELSE LET c == CHOOSE x \in cuts : \A y \in cuts : x <= y
       IN <<SubSeq(t, from, c - 1)>> \o PiecesFrom(t, c, cuts \ {c})
Pieces(t) == PiecesFrom(t, 1, CutPoints(t))

(* scanner over the body of a piece (after hemisphere designators and sign).  *)
(* np: next component; nd: digits of the current number; ip/fp: its digits    *)
(* before/after the point; pt: it has a point; anypt: an earlier number had a *)
(* point; c: the components assigned; ei: last character was an indicator.    *)
Scan0 == [np |-> 0, nd |-> 0, ip |-> <<>>, fp |-> <<>>, pt |-> FALSE, anypt |-> FALSE,
          c |-> <<<<>>, <<>>, <<>> >>, ei |-> FALSE, bad |-> FALSE, colon |-> FALSE, letter |-> FALSE]
Bad(st) == [st EXCEPT !.bad = TRUE]
ScanStep(st, x, atend) ==
  IF IsDigit(x) THEN
    IF st.pt THEN [st EXCEPT !.nd = @ + 1, !.fp = Append(@, x), !.ei = FALSE]
    ELSE [st EXCEPT !.nd = @ + 1, !.ip = Append(@, x), !.ei = FALSE]
  ELSE IF x = 46 THEN
    IF st.pt \/ st.anypt THEN Bad(st) ELSE [st EXCEPT !.pt = TRUE, !.ei = FALSE]
  ELSE IF IndIdx(x) >= 0 THEN
    LET k0 == IndIdx(x)
        k == IF k0 = 3 THEN st.np ELSE k0
    IN IF (k0 = 3 /\ atend)        \* numbers must appear before and after each colon
          \/ k >= 3               \* nothing below seconds
          \/ k < st.np            \* repeated or out of order
          \/ st.nd = 0            \* an indicator needs its number
       THEN Bad(st)
       ELSE LET st1 == [st EXCEPT !.c[k + 1] = <<st.ip, st.fp, st.pt>>, !.ei = TRUE,
                                  !.colon = @ \/ k0 = 3, !.letter = @ \/ k0 # 3]
            IN IF atend THEN st1
               ELSE [st1 EXCEPT !.np = k + 1, !.anypt = @ \/ st.pt, !.nd = 0, !.ip = <<>>, !.fp = <<>>, !.pt = FALSE]
  ELSE Bad(st)
RECURSIVE ScanFrom(_, _, _)
ScanFrom(b, i, st) ==
  IF st.bad \/ i > Len(b) THEN st ELSE ScanFrom(b, i + 1, ScanStep(st, b[i], i = Len(b)))
\* the components <<deg, min, sec>>, each <<>> or <<intdigits, fracdigits, haspoint>>; <<"bad">> if malformed
ScanBody(b) ==
  LET st == ScanFrom(b, 1, Scan0) IN
  IF st.bad THEN <<"bad">>
  ELSE IF st.ei THEN (IF st.anypt THEN <<"bad">> ELSE <<"ok", st.c, st.colon /\ st.letter>>)
  ELSE IF st.np >= 3 \/ st.nd = 0 \/ st.anypt THEN <<"bad">>      \* text after seconds; "." alone; point in a non-final number
  ELSE <<"ok", [st.c EXCEPT ![st.np + 1] = <<st.ip, st.fp, st.pt>>], st.colon /\ st.letter>>

\* minutes and seconds: integer part below 60; rule WithPointUpTo60: written with a decimal point the value may be
\* as large as exactly 60 (the documented legal examples 4:60.0 and 4:59:60.0)
InRange60(num) ==
  num = <<>> \/
  LET ip == num[1]  fp == num[2] IN
  SigLen(ip) <= 2 /\ (DigitsVal(ip) < 60 \/ (num[3] /\ DigitsVal(ip) = 60 /\ AllZero(fp, 1)))

\* units of component k: <<D, R, exact, big>> (big: more than 8 digits of degrees)
MaxFrac(k) == CASE k = 0 -> 7 [] k = 1 -> 6 [] k = 2 -> 5
DigitAt(fp, i) == IF i <= Len(fp) THEN fp[i] - 48 ELSE 0
CompUnits(num, k) ==
  IF num = <<>> THEN <<0, 0, TRUE, FALSE>>
  ELSE
    LET ip == num[1]  fp == num[2]
        L == MaxFrac(k)
        f1 == SubSeq(fp, 1, IF Len(fp) < L THEN Len(fp) ELSE L)
        fv == DigitsVal(f1) * Pow10(L - Len(f1))                      \* < 10^L
        big == SigLen(ip) > 8
        iv == IF big THEN 0 ELSE DigitsVal(ip)
        e2 == 10 * DigitAt(fp, 8) + DigitAt(fp, 9)                     \* degrees: 36 units per 1e-7
        e1 == DigitAt(fp, 7)                                           \* minutes: 6 units per 1e-6
    IN CASE k = 0 -> <<iv, 36 * fv + (36 * e2) \div 100, (36 * e2) % 100 = 0 /\ AllZero(fp, 10), big>>
         [] k = 1 -> <<0, iv * 6000000 + 6 * fv + (6 * e1) \div 10, (6 * e1) % 10 = 0 /\ AllZero(fp, 8), FALSE>>
         [] k = 2 -> <<0, iv * 100000 + fv, AllZero(fp, 6), FALSE>>

(* One piece -> <<"fin", neg, D, R, exact, big, ind, mixed>>, <<"sp", class>>  or <<"bad">>.                  *)
DecodePiece(p) ==
  LET n == Len(p)
      h1 == IF n >= 1 THEN Hemi(p[1]) ELSE 0
      b1 == IF h1 # 0 THEN 2 ELSE 1
      h2 == IF n >= b1 THEN Hemi(p[n]) ELSE 0
      e1 == IF h2 # 0 THEN n - 1 ELSE n
      sg == b1 <= e1 /\ IsSign(p[b1])
      b2 == IF sg THEN b1 + 1 ELSE b1
      sp == Special(p)
      r == IF (h1 # 0 /\ h2 # 0) \/ b2 > e1 THEN <<"bad">>
           ELSE LET sc == ScanBody(SubSeq(p, b2, e1)) IN
                IF sc[1] = "bad" \/ ~InRange60(sc[2][2]) \/ ~InRange60(sc[2][3]) THEN <<"bad">>
                ELSE LET d == CompUnits(sc[2][1], 0)  m == CompUnits(sc[2][2], 1)  s == CompUnits(sc[2][3], 2)
                         R == d[2] + m[2] + s[2]
                         h == IF h1 # 0 THEN h1 ELSE h2
                         neg == (HemiNeg(h) /\ ~(sg /\ p[b1] = 45)) \/ (~HemiNeg(h) /\ sg /\ p[b1] = 45)
                     IN <<"fin", neg, d[1] + R \div U, R % U, d[3] /\ m[3] /\ s[3], d[4], HemiInd(h), sc[3]>>
  IN IF r[1] # "bad" THEN r ELSE IF sp # "none" THEN <<"sp", sp>> ELSE <<"bad">>

FloorDiv(a, b) == IF a >= 0 THEN a \div b ELSE -((-a + b - 1) \div b)

\* IEEE sum of classes
AddCls(a, b) ==
  CASE a = "nan" \/ b = "nan" -> "nan"
    [] a = "fin" -> b [] b = "fin" -> a
    [] a = b -> a
    [] OTHER -> "nan"                       \* inf + -inf

(* Sum of the pieces: accumulator [cls, Ds, Rs (signed), exact, big, ind, allnegzero, mixed, maxD, bad]       *)
Acc0 == [cls |-> "fin", Ds |-> 0, Rs |-> 0, exact |-> TRUE, big |-> FALSE, ind |-> NONE, anz |-> TRUE,
         mixed |-> FALSE, maxD |-> 0, bad |-> FALSE]
AddPiece(acc, r) ==
  IF r[1] = "bad" THEN [acc EXCEPT !.bad = TRUE]
  ELSE IF r[1] = "sp" THEN [acc EXCEPT !.cls = AddCls(@, r[2]), !.anz = FALSE]
  ELSE
    LET sgn == IF r[2] THEN -1 ELSE 1
        rs == acc.Rs + sgn * r[4]
        cy == FloorDiv(rs, U)                    \* keep 0 <= Rs < U
    IN
    [acc EXCEPT !.Ds = IF r[6] \/ acc.big THEN @ ELSE @ + sgn * r[3] + cy, !.Rs = rs - cy * U, !.exact = @ /\ r[5], !.big = @ \/ r[6],
                !.ind = IF @ = NONE THEN r[7] ELSE @,
                !.bad = @ \/ (acc.ind # NONE /\ r[7] # NONE /\ r[7] # acc.ind),       \* you cannot mix N and E
                !.anz = @ /\ r[2] /\ r[3] = 0 /\ r[4] = 0 /\ r[5],
                !.mixed = @ \/ r[8],
                !.maxD = IF r[3] > @ THEN r[3] ELSE @]
RECURSIVE SumPieces(_, _, _)
SumPieces(ps, i, acc) == IF i > Len(ps) \/ acc.bad THEN acc ELSE SumPieces(ps, i + 1, AddPiece(acc, DecodePiece(ps[i])))

(* Decode(s): <<"throw">>, <<"sp", class, ind>> or                                                         *)
(* <<"fin", neg, D, R, exact, big, ind, zero, mixed, maxD>>: value (-1)^neg (D + R/U); when ~exact the     *)
(* value is within 2 NPieces units of that; zero: the value is exactly zero (its sign is then neg if and  *)
(* only if every piece is a negative zero, rule ZeroSignIEEE); mixed: colons and letters mixed in a piece  *)
(* (the documentation does not say; rule MixedSeparators reads a colon as the indicator of the component   *)
(* it follows).                                                                                             *)
Decode(s) ==
  LET t == Canonical(s) IN
  IF t = <<>> THEN <<"throw">>
  ELSE
    LET acc == SumPieces(Pieces(t), 1, Acc0) IN
    IF acc.bad THEN <<"throw">>
    ELSE IF acc.cls # "fin" THEN <<"sp", acc.cls, acc.ind>>
    ELSE IF acc.big THEN <<"fin", FALSE, 0, 0, FALSE, TRUE, acc.ind, FALSE, acc.mixed, acc.maxD>>
    ELSE
      LET Dn == acc.Ds
          Rn == acc.Rs
          \* with inexact pieces the floor of a sum is not determined: such sums are flagged inexact with R the
          \* floor of the sum of floors (callers allow for the number of pieces)
          neg == Dn < 0
          D == IF ~neg THEN Dn ELSE IF Rn = 0 THEN -Dn ELSE -Dn - 1
          R == IF ~neg \/ Rn = 0 THEN Rn ELSE U - Rn
          zero == D = 0 /\ R = 0 /\ acc.exact
      IN <<"fin", IF zero THEN acc.anz ELSE neg, D, R, acc.exact, FALSE, acc.ind, zero, acc.mixed, acc.maxD>>

NPieces(s) == LET t == Canonical(s) IN IF t = <<>> THEN 0 ELSE Len(Pieces(t))

(* ------------------------------------------------------------------------ *)
(* DecodeLatLon / DecodeAngle / DecodeAzimuth                                 *)
(* ------------------------------------------------------------------------ *)
IndOf(r) == IF r[1] = "sp" THEN r[3] ELSE r[7]
\* |value| > 90 (nan is not): "yes", "no", or "edge" when the text exceeds 90 by less than the arithmetic resolves
Above90(r) ==
  IF r[1] = "sp" THEN (IF r[2] # "nan" THEN "yes" ELSE "no")
  ELSE IF r[6] \/ r[3] > 90 \/ (r[3] = 90 /\ r[4] > 0) THEN "yes"
  ELSE IF r[3] = 90 /\ ~r[5] THEN "edge" ELSE "no"
\* <<"throw">>, <<"ok", lat result, lon result>> or <<"edge", lat, lon>> (either outcome)
DecodeLatLon(sa, sb, longfirst) ==
  LET a == Decode(sa)  b == Decode(sb) IN
  IF a[1] = "throw" \/ b[1] = "throw" THEN <<"throw">>
  ELSE
    LET ia0 == IndOf(a)  ib0 == IndOf(b)
        ia == IF ia0 = NONE /\ ib0 = NONE THEN (IF longfirst THEN LONGITUDE ELSE LATITUDE)
              ELSE IF ia0 = NONE THEN LATITUDE + LONGITUDE - ib0 ELSE ia0
        ib == IF ia0 = NONE /\ ib0 = NONE THEN (IF longfirst THEN LATITUDE ELSE LONGITUDE)
              ELSE IF ib0 = NONE THEN LATITUDE + LONGITUDE - ia0 ELSE ib0
        lat == IF ia = LATITUDE THEN a ELSE b
        lon == IF ia = LATITUDE THEN b ELSE a
    IN IF ia = ib \/ Above90(lat) = "yes" THEN <<"throw">> ELSE <<IF Above90(lat) = "edge" THEN "edge" ELSE "ok", lat, lon>>

DecodeAngle(s) == LET r == Decode(s) IN IF r[1] = "throw" \/ IndOf(r) # NONE THEN <<"throw">> ELSE r

\* azimuth reduced to [-180, 180]: <<"az", neg, D, R, exact, half>>; half: the reduced value is +-180 (either sign)
DecodeAzimuth(s) ==
  LET r == Decode(s) IN
  IF r[1] = "throw" \/ IndOf(r) = LATITUDE THEN <<"throw">>
  ELSE IF r[1] = "sp" THEN <<"sp", r[2], NONE>>                    \* the reduction of an infinity is left open (rule AzInf)
  ELSE IF r[6] THEN <<"az", FALSE, 0, 0, FALSE, FALSE>>
  ELSE LET Dm == r[3] % 360
           over == Dm > 180 \/ (Dm = 180 /\ r[4] > 0)
           D2 == IF ~over THEN Dm ELSE IF r[4] = 0 THEN 360 - Dm ELSE 359 - Dm
           R2 == IF ~over \/ r[4] = 0 THEN r[4] ELSE U - r[4]
           neg2 == IF over THEN ~r[2] ELSE r[2]
       IN <<"az", neg2, D2, R2, r[5], D2 = 180 /\ R2 = 0>>

(* ------------------------------------------------------------------------ *)
(* The numeric overloads of DMS.hpp.                                          *)
(*  Decode(d, m = 0, s = 0): "Convert DMS to an angle ... This does not       *)
(*    propagate the sign on d to the other components": d + m/60 + s/3600     *)
(*    with each component carrying its own sign.  On the lattice the           *)
(*    components are whole degrees, whole minutes and hundredths of a second,  *)
(*    so the angle is a whole number of units: <<neg, D, R>>.                  *)
(*  Encode(ang, d, m) / Encode(ang, d, m, s): "Split angle into degrees and    *)
(*    minutes (and seconds)", d (and m) "an integer returned as a real".  What *)
(*    the split owes: the parts recombine to the angle, none of them has the   *)
(*    opposite sign, the whole parts are integers and minutes and seconds are  *)
(*    below 60 - up to exactly 60 in the last part, because the angle handed   *)
(*    over is the double next to D + M/60 (rule SplitAtCarry).                 *)
(* ------------------------------------------------------------------------ *)
UnitsPerMin == U \div 60                                  \* 6 000 000
UnitsPerCs == U \div 360000                               \* a hundredth of an arc second: 1000
Sgn(neg) == IF neg THEN -1 ELSE 1
\* signed total in units -> <<neg, D, R>> (|total| < 2^31)
OfUnits(t) == LET a == IF t < 0 THEN -t ELSE t IN <<t < 0, a \div U, a % U>>
\* d whole degrees (D <= 5), m whole minutes, s hundredths of a second, each with its sign: <<neg, D, R>>
DecodeNum(dneg, D, mneg, M, sneg, S100) ==
  OfUnits(Sgn(dneg) * D * U + Sgn(mneg) * M * UnitsPerMin + Sgn(sneg) * S100 * UnitsPerCs)
\* the same for D too large for one TLC integer: all components of one sign
DecodeNumSame(neg, D, M, S100) == LET r == M * UnitsPerMin + S100 * UnitsPerCs IN <<neg, D + r \div U, r % U>>
\* the string d:m:s.ss that names the same angle
ColonStr(neg, D, M, S100) ==
  (IF neg THEN <<45>> ELSE <<>>) \o DigitsOf(D) \o <<58>> \o DigitsOf(M) \o <<58>> \o DigitsOf(S100 \div 100) \o <<46>> \o Pad(DigitsOf(S100 % 100), 2)

\* observed split of the angle (-1)^neg (D + R/U): whole degrees d, whole minutes m (three-part form; mu = 0) or
\* minutes in units mu (two-part form; m = the whole minutes, mu the rest), seconds in units su; every part an
\* integer count of its unit with the sign flags dn, mn, sn (of a zero part: free); tol: units of rounding allowed
SplitOK(neg, D, R, d, m, rest, dn, mn, sn, tol) ==
  /\ d >= 0 /\ m >= 0 /\ rest >= 0
  /\ (d > 0 => dn = neg) /\ (m > 0 => mn = neg) /\ (rest > 0 => sn = neg)
  /\ m <= 59 /\ rest <= UnitsPerMin
  /\ LET e == (d - D) * U + (m * UnitsPerMin + rest - R) IN (d - D) \in {-1, 0, 1} /\ e <= tol /\ -e <= tol

(* ------------------------------------------------------------------------ *)
(* Encoder.  The angle is (-1)^neg (D + n / (scale 10^prec)) degrees, scale = *)
(* 1, 60, 3600 for trailing DEGREE, MINUTE, SECOND, 0 <= n < scale 10^prec.   *)
(* ------------------------------------------------------------------------ *)
Scale(trailing) == CASE trailing = DEGREE -> 1 [] trailing = MINUTE -> 60 [] trailing = SECOND -> 3600
PerDeg(trailing, prec) == Scale(trailing) * Pow10(prec)

\* ind == AZIMUTH: reduction to [0, 360).  below: the real angle is an ulp below the lattice value (sgn taken into
\* account), so that a value congruent to 0 is just below 360 and prints as 360 (rounding happens after reduction)
AzNorm(neg, D, n, P, below) ==
  LET Dm == D % 360 IN
  IF Dm = 0 /\ n = 0 THEN <<IF below THEN 360 ELSE 0, 0>>
  ELSE IF ~neg THEN <<Dm, n>>
  ELSE IF n = 0 THEN <<360 - Dm, 0>> ELSE <<359 - Dm, P - n>>

EncodeStr(neg, D, n, trailing, prec, ind, sep) ==
  LET P == Pow10(prec)
      f == n % P
      w == n \div P
      degw == CASE ind = NONE -> 1 [] ind = LATITUDE -> 2 [] OTHER -> 3
      degs == Pad(DigitsOf(D), degw)
      dsep == IF sep # 0 THEN <<sep>> ELSE <<100>>
      msep == IF sep # 0 THEN <<sep>> ELSE <<39>>
      body == CASE trailing = DEGREE -> degs \o FracStr(f, prec)     \* rule DegreeTrailingNoIndicator
                [] trailing = MINUTE -> degs \o dsep \o Pad(DigitsOf(w), 2) \o FracStr(f, prec) \o (IF sep = 0 THEN <<39>> ELSE <<>>)
                [] trailing = SECOND -> degs \o dsep \o Pad(DigitsOf(w \div 60), 2) \o msep \o Pad(DigitsOf(w % 60), 2)
                                        \o FracStr(f, prec) \o (IF sep = 0 THEN <<34>> ELSE <<>>)
      pre == IF ind = NONE /\ neg THEN <<45>> ELSE <<>>
      suf == CASE ind = LATITUDE -> (IF neg THEN <<83>> ELSE <<78>>)
               [] ind = LONGITUDE -> (IF neg THEN <<87>> ELSE <<69>>)
               [] OTHER -> <<>>
  IN pre \o body \o suf

\* Encode on the lattice: the real angle is (-1)^neg times the lattice magnitude moved by d ulps (d in -1..1)
AzBelow(neg, d) == (~neg /\ d < 0) \/ (neg /\ d > 0)
Encode(neg, D, n, trailing, prec, ind, sep, d) ==
  IF ind = AZIMUTH THEN
    LET a == AzNorm(neg, D, n, PerDeg(trailing, prec), AzBelow(neg, d)) IN
    EncodeStr(FALSE, a[1], a[2], trailing, prec, ind, sep)
  ELSE EncodeStr(neg, D, n, trailing, prec, ind, sep)

\* the value the string must decode to, in U-ths: <<neg, D, R, ind>>
EncodedValue(neg, D, n, trailing, prec, ind, d) ==
  LET P == PerDeg(trailing, prec)
      k == U \div P
  IN IF ind = AZIMUTH THEN LET a == AzNorm(neg, D, n, P, AzBelow(neg, d)) IN <<FALSE, a[1], a[2] * k, NONE>>
     ELSE <<neg, D, n * k, IF ind \in {LATITUDE, LONGITUDE} THEN ind ELSE NONE>>

(* ------------------------------------------------------------------------ *)
(* Shape of an encoded string, for the normalisation clauses on strings too   *)
(* long for exact arithmetic: <<ok, hemi, signed, degdigits, <<min>>, <<sec>>,*)
(* fracdigits>> where min/sec are the integer parts (or -1 when absent).      *)
(* ------------------------------------------------------------------------ *)
Shape(s) ==
  LET n == Len(s)
      h2 == IF n >= 1 THEN Hemi(s[n]) ELSE 0
      e1 == IF h2 # 0 THEN n - 1 ELSE n
      sg == 1 <= e1 /\ IsSign(s[1])
      b == SubSeq(s, IF sg THEN 2 ELSE 1, e1)
      sc == IF b = <<>> THEN <<"bad">> ELSE ScanBody(b)
  IN IF sc[1] = "bad" THEN [ok |-> FALSE]
     ELSE LET c == sc[2]
              last == IF c[3] # <<>> THEN 3 ELSE IF c[2] # <<>> THEN 2 ELSE 1
              IntOf(num) == IF num = <<>> THEN -1 ELSE IF SigLen(num[1]) > 9 THEN 2000000000 ELSE DigitsVal(num[1])
          IN [ok |-> TRUE, hemi |-> h2, signed |-> sg, degw |-> IF c[1] = <<>> THEN 0 ELSE Len(c[1][1]),
              deg |-> IntOf(c[1]), min |-> IntOf(c[2]), sec |-> IntOf(c[3]),
              minw |-> IF c[2] = <<>> THEN 0 ELSE Len(c[2][1]), secw |-> IF c[3] = <<>> THEN 0 ELSE Len(c[3][1]),
              last |-> last - 1, nfrac |-> Len(c[last][2]), haspt |-> c[last][3],
              fraczero |-> AllZero(c[last][2], 1)]
=============================================================================
