------------------------------- MODULE Polygon -------------------------------
(***************************************************************************)
(* PolygonArea / PolygonAreaExact / PolygonAreaRhumb as a state machine     *)
(* (property C08) on the lattice where the answer is an integer:           *)
(*   sphere of radius 180/pi (one degree of arc = one metre), vertices at  *)
(*   the poles (any nominal longitude) and at integer longitudes on the    *)
(*   equator; edges run along the equator or along meridians.              *)
(* Area unit U = a^2 * pi/180, so the whole sphere is 720 U and every       *)
(* lattice polygon has an integer area.                                     *)
(*                                                                          *)
(* The area oracle is independent of the implementation's method (sum of    *)
(* S12 plus a crossing parity): it is the Gauss-Bonnet turning-angle sum    *)
(*        Area(counter-clockwise) = 360 - sum of left turns  (mod 720)      *)
(* with turns computed from exact lattice headings.                          *)
(*                                                                          *)
(* A vertex is <<kind, lon>>: kind "N"/"S" (pole, lon nominal) or "E"       *)
(* (equator, lon = integer degrees, NOT reduced: 370 and 10 are the same    *)
(* point).  An edge record carries how it was created:                      *)
(*   <<"pt">>            shortest line from the previous vertex             *)
(*   <<"ed", dir, s>>    AddEdge along the equator, dir = +1 east / -1 west *)
(***************************************************************************)
EXTENDS Integers, Sequences, FiniteSets

Norm180(x) == ((x + 179) % 360) - 179          \* into (-180, 180]
SamePoint(p, q) == (p[1] = q[1]) /\ (p[1] # "E" \/ (p[2] - q[2]) % 360 = 0)
Antipodal(p, q) ==
  \/ (p[1] = "N" /\ q[1] = "S") \/ (p[1] = "S" /\ q[1] = "N")
  \/ (p[1] = "E" /\ q[1] = "E" /\ (p[2] - q[2]) % 360 = 180)

(* An edge between consecutive vertices p -> q.  Result:                     *)
(*   [len, out, in] with out/in = heading descriptors, or "none" for a       *)
(*   zero-length edge.  Heading descriptors:                                  *)
(*   <<"az", a>>   at an equator point: azimuth a in {0, 90, 180, 270}        *)
(*   <<"mer", l>>  at a pole: the meridian (longitude l) along which the      *)
(*                 path arrives at / leaves the pole                          *)
EdgeOf(p, q, how) ==
  IF how[1] = "ed" THEN          \* along the equator from p, s degrees, direction how[2]
    [len |-> how[3], out |-> <<"az", IF how[2] > 0 THEN 90 ELSE 270>>, in |-> <<"az", IF how[2] > 0 THEN 90 ELSE 270>>]
  ELSE IF SamePoint(p, q) THEN [len |-> 0, out |-> <<"none">>, in |-> <<"none">>]
  ELSE IF p[1] = "E" /\ q[1] = "E" THEN
    LET d == Norm180(q[2] - p[2]) IN
    [len |-> IF d > 0 THEN d ELSE -d, out |-> <<"az", IF d > 0 THEN 90 ELSE 270>>, in |-> <<"az", IF d > 0 THEN 90 ELSE 270>>]
  ELSE IF p[1] = "E" THEN        \* equator -> pole along the meridian of p
    [len |-> 90, out |-> <<"az", IF q[1] = "N" THEN 0 ELSE 180>>, in |-> <<"mer", p[2]>>]
  ELSE                           \* pole -> equator along the meridian of q
    [len |-> 90, out |-> <<"mer", q[2]>>, in |-> <<"az", IF p[1] = "N" THEN 180 ELSE 0>>]

\* left turn (degrees, in (-180, 180], a U-turn counts +180) at vertex p from arriving heading hin to leaving heading hout
Turn(p, hin, hout) ==
  IF p[1] = "E" THEN Norm180(hin[2] - hout[2])
  ELSE IF p[1] = "N" THEN Norm180(hout[2] - (hin[2] + 180))
  ELSE Norm180((hin[2] + 180) - hout[2])

(* ------------------------------------------------------------------------ *)
(* A polygon under construction: verts (sequence of vertices) and hows       *)
(* (hows[i] = how vertex i was reached from vertex i-1; hows[1] = <<"pt">>). *)
(* ------------------------------------------------------------------------ *)
\* the closed edge list: edges i -> i+1 for i < n and the closing edge n -> 1 (always a shortest line)
EdgeAt(verts, hows, i) ==
  LET n == Len(verts) IN
  IF i < n THEN EdgeOf(verts[i], verts[i + 1], hows[i + 1]) ELSE EdgeOf(verts[n], verts[1], <<"pt">>)

\* the shortest line is not unique for some consecutive pair (such histories are outside the property)
Ambiguous(verts, hows, closed) ==
  LET n == Len(verts) IN
  \/ \E i \in 1..(n - 1) : hows[i + 1][1] = "pt" /\ Antipodal(verts[i], verts[i + 1])
  \/ closed /\ n >= 2 /\ Antipodal(verts[n], verts[1])

Perimeter(verts, hows, closed) ==
  LET n == Len(verts)
      m == IF closed THEN n ELSE n - 1
      RECURSIVE Sum(_)
      Sum(i) == IF i > m THEN 0 ELSE EdgeAt(verts, hows, i).len + Sum(i + 1)
  IN IF n < 2 THEN 0 ELSE Sum(1)

\* indices of edges with non-zero length, in order
RealEdges(verts, hows) == SelectSeq([i \in 1..Len(verts) |-> i], LAMBDA i : EdgeAt(verts, hows, i).len > 0)

\* counter-clockwise area in U, modulo 720, by Gauss-Bonnet
AreaCCW(verts, hows) ==
  LET re == RealEdges(verts, hows)
      k == Len(re)
      \* turn at the end of real edge j (arriving) into real edge j+1 (cyclically); the vertex is the end of edge re[j]
      EndVertex(i) == IF i < Len(verts) THEN verts[i + 1] ELSE verts[1]
      EndOfEdge(j) == EndVertex(re[j])
      RECURSIVE TS(_)
      TS(j) == IF j > k THEN 0
               ELSE Turn(EndOfEdge(j), EdgeAt(verts, hows, re[j]).in,
                         EdgeAt(verts, hows, re[IF j = k THEN 1 ELSE j + 1]).out) + TS(j + 1)
  IN IF k = 0 THEN 0 ELSE (360 - TS(1)) % 720

(* ------------------------------------------------------------------------ *)
(* Simplicity (the exact-area obligation is stated for simple polygons; the  *)
(* algebraic area of self-overlapping ones is only required modulo 360 U).   *)
(* ------------------------------------------------------------------------ *)
\* open equatorial interval of edge i as <<start, length>> going east, or <<>> if not equatorial
EqArc(verts, hows, i) ==
  LET e == EdgeAt(verts, hows, i)
      p == verts[i]
  IN IF e.len = 0 \/ e.out[1] # "az" \/ e.out[2] \notin {90, 270} THEN <<>>
     ELSE IF e.out[2] = 90 THEN <<p[2] % 360, e.len>> ELSE <<(p[2] - e.len) % 360, e.len>>
\* longitude x (mod 360) strictly inside arc a
Inside(a, x) == a # <<>> /\ ((x - a[1]) % 360) > 0 /\ ((x - a[1]) % 360) < a[2]
ArcsOverlap(a, b) ==
  a # <<>> /\ b # <<>> /\
  (a[2] >= 360 \/ b[2] >= 360 \/ Inside(a, b[1]) \/ Inside(b, a[1]) \/ (a[1] = b[1]))

Simple(verts, hows) ==
  LET n == Len(verts)
      re == RealEdges(verts, hows)
      \* distinct geometric vertices after dropping zero-length edges
      pts == [j \in 1..Len(re) |-> verts[re[j]]]
  IN /\ Len(re) >= 3
     /\ \A i, j \in 1..Len(re) : i < j => ~SamePoint(pts[i], pts[j])
     /\ \A i \in 1..n : LET a == EqArc(verts, hows, i) IN a = <<>> \/ a[2] < 360
     /\ \A i, j \in 1..n : i < j => ~ArcsOverlap(EqArc(verts, hows, i), EqArc(verts, hows, j))
     /\ \A i \in 1..n, j \in 1..Len(re) : pts[j][1] = "E" => ~Inside(EqArc(verts, hows, i), pts[j][2])

(* ------------------------------------------------------------------------ *)
(* Reporting conventions (PolygonArea.hpp): reverse => clockwise counts       *)
(* positive; sign => signed value in (-360, 360], otherwise [0, 720).         *)
(* At the ends of the ranges either representative is admissible.             *)
(* ------------------------------------------------------------------------ *)
Reported(accw, reverse, sign) ==
  LET v == (IF reverse THEN 720 - accw ELSE accw) % 720 IN
  IF sign THEN (IF v = 360 THEN {360, -360} ELSE IF v > 360 THEN {v - 720} ELSE {v})
  ELSE (IF v = 0 THEN {0, 720} ELSE {v})

\* all admissible reported areas when only the value modulo 360 is determined
ReportedMod360(accw, reverse, sign) ==
  UNION {Reported((accw + k) % 720, reverse, sign) : k \in {0, 360}}

\* the current point after the operations
CurrentPoint(verts) == verts[Len(verts)]
=============================================================================
