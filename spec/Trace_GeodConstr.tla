---------------------------- MODULE Trace_GeodConstr ----------------------------
(* Validates observations of AzimuthalEquidistant, Gnomonic, CassiniSoldner,    *)
(* Intersect and NearestNeighbor (C17).  One obligation per trace line:          *)
(*   nnt / nns : a NearestNeighbor instance (tree written by Save, round trips)  *)
(*               and one search, against NearestNeighbor.tla                      *)
(*   ic in is ia : Closest / Next / Segment / All on the unit-degree sphere for   *)
(*               lattice great circles, against IntersectLattice.tla (exact)      *)
(*   az gn cs  : projection laws on ellipsoids (GeodProjLaws.tla)                 *)
(*   xc xn xs xa : intersection laws on ellipsoids (IntersectLaws.tla)            *)
(* The name of the law in a REJECT line is c17-<kind>, the info the list of       *)
(* sub-laws that failed.                                                          *)
EXTENDS NearestNeighbor, IntersectLattice, IntersectLaws, TraceKit

CONSTANT TolLat      \* pm: round-off of a displacement on the unit-degree sphere (integer answers, |x| < 1000 m)
VARIABLE l

(* ------------------------------ nearest neighbour ------------------------ *)
DMatOf(m, s) == [i \in 1..Len(s) |-> [j \in 1..Len(s) |-> Dist(m, s[i], s[j])]]
Lattice(r) == r.m < 100

NntFails(r) ==
  F("no-exception", r.init = "ok" /\ r.rt = "ok" /\ r.parsed)
  \o (IF ~r.parsed THEN <<>> ELSE
      F("header", Len(r.hdr) = 6 /\ r.hdr[1] = 1 /\ r.hdr[2] = (IF Lattice(r) THEN -31 ELSE 53) /\ r.hdr[3] = r.b
                  /\ r.hdr[4] = r.np /\ r.hdr[5] = Len(r.tree) /\ r.hdr[6] >= 0 /\ r.npo = r.np)
      \o F("metric-is-the-models", Lattice(r) => r.D = DMatOf(r.m, r.pts) /\ Len(r.pts) = r.np)
      \o F("distance-matrix", Len(r.D) = r.np /\ \A i \in 1..r.np : Len(r.D[i]) = r.np /\ (~Lattice(r) => r.D[i][i] = r.zero))
      \o TreeFails(r.tree, r.D, r.np, r.b))
  \o F("save-load-text", r.rtt) \o F("save-load-binary", r.rtb) \o F("stream-operators", r.rto)
  \* the object as a state machine (state observed through Save): the constructor with points is Initialize; Initialize on an object
  \* that holds another tree ("Initialize or re-initialize"); "If an exception is thrown, the state of the NearestNeighbor is
  \* unchanged" (Initialize with a bad bucket, Load of garbage and of a truncated save); swap exchanges the states
  \o F("constructor-is-initialize", r.hctor) \o F("reinitialize-equals-fresh", r.hreinit)
  \o F("unchanged-if-exception", r.hunch) \o F("swap", r.hswap)

NnsFails(r) ==
  F("no-exception", r.out = "ok")
  \o F("metric-is-the-models", r.lat => Len(r.pts) = r.np /\ r.dq = [i \in 1..r.np |-> Dist(r.m, r.pts[i], r.q)])
  \o (IF Len(r.dq) # r.np THEN <<"query-distances">>
      ELSE SearchFails(r.dq, r.k, r.mind, r.maxd, r.exh, r.tol, r.ind, r.d))
  \o F("same-after-save-load", r.rtsame)

(* ------------------------------ lattice intersections --------------------- *)
\* a displacement is logged as <<round(2 x), residual of x in pm>>
ResOK(p) == \A i \in {2, 4} : p[i] >= -TolLat /\ p[i] <= TolLat
P2(p) == <<p[1], p[3]>>
Dbl(p) == <<2 * p[1], 2 * p[2]>>

\* ellipsoids other than the unit-degree sphere (ell > 0: a = 180/pi, exact solver) only for pairs of equators, where one
\* degree of longitude is one metre on every ellipsoid
EllOK(r) == r.ell = 0 \/ (r.ell \in 1..4 /\ Equatorial(r.A) /\ Equatorial(r.B) /\ Meet(r.A, r.B).kind = "coin")
AtOrigin(p) == P2(p) = <<0, 0>> /\ ResOK(p)
FiniteP(p) == p[1] >= -1000000 /\ p[1] <= 1000000 /\ p[3] >= -1000000 /\ p[3] <= 1000000

IcFails(r) ==
  LET m == Meet(r.A, r.B)  sA == r.A[3]  sB == r.B[3] IN
  F("no-exception", r.out = "ok")
  \o (IF ~EllOK(r) THEN <<"not-a-lattice-pair">> ELSE IF m.kind = "cross"
      THEN F("round-off", ResOK(r.p)) \o F("coincidence-indicator", r.c = 0)
           \o F("closest-minimises-L1", P2(r.p) \in ClosestSet(2 * (m.a0 - sA), 2 * (m.b0 - sB), 360, Dbl(r.p0)))
      ELSE IF m.kind = "coin"
      THEN F("coincidence-indicator", r.c = m.c)
           \o F("on-coincidence-line", (r.lin[1] - 2 * CoinK0(m, sA, sB)) % 720 = 0 /\ r.lin[2] >= -2 * TolLat /\ r.lin[2] <= 2 * TolLat)
           \o F("closest-minimises-L1", r.l1[1] = 2 * CoinMinDist(m, sA, sB, r.p0) /\ r.l1[2] >= -2 * TolLat /\ r.l1[2] <= 2 * TolLat)
      ELSE <<"not-a-lattice-pair">>)

LinOK(r) == r.lin[2] >= -2 * TolLat /\ r.lin[2] <= 2 * TolLat

InFails(r) ==
  LET m == Meet(r.A, r.B) IN
  F("no-exception", r.out = "ok")
  \o (IF ~EllOK(r) THEN <<"not-a-lattice-pair">>
      ELSE IF m.kind = "cross"
      THEN F("round-off", ResOK(r.p)) \o F("coincidence-indicator", r.c = 0)
           \o F("next-minimises-L1", P2(r.p) \in NextSet(2 * (m.a0 - r.A[3]), 2 * (m.b0 - r.B[3]), 360))
      ELSE IF m.kind = "coin" /\ CoinK0(m, r.A[3], r.B[3]) = 0
      \* one circle taken twice: the answer is a common point (on a coincidence line), not the origin, with the right c
      THEN F("coincidence-indicator", r.c = m.c)
           \o F("on-coincidence-line", r.c \in {-1, 1} => LinOK(r) /\ r.lin[1] % 720 = 0)
           \o F("next-excludes-origin", ~AtOrigin(r.p))
      ELSE <<"not-a-lattice-pair">>)

\* Next on one geodesic taken twice (parallel c = 1 / antiparallel c = -1), started at a vertex, on the ellipsoid r.ell: the lines
\* lie on top of one another everywhere, so an answer on them carries that c (a transversal self-crossing of the geodesic, c = 0,
\* may also be the next intersection: prolate ellipsoids), is a common point (separation z, nm at WGS84 scale) and is not the origin
NvFails(r) ==
  F("no-exception", r.out = "ok" /\ r.ell \in 0..4 /\ r.cc \in {-1, 1})
  \o F("coincidence-indicator", r.c \in {r.cc, 0} /\ (r.c # 0 => r.sn <= SnCoin /\ (r.anti = 1) = (r.c < 0)))
  \* on the same branch (y = cc x; blin = |y - cc x| in nm at WGS84 scale) the lines lie on top of one another: c = cc, not 0
  \o F("coincidence-indicator-on-the-same-branch", r.blin <= 2 * (2 * XErr(1, r.ell > 0) + TolRound + 5) => r.c = r.cc)
  \o F("on-both-lines", r.z >= 0 /\ r.z <= 2 * XErr(1, r.ell > 0) + TolRound + 5 + 2 * r.um)
  \o F("next-excludes-origin", ~AtOrigin(r.p))

\* the part of NvFails that says nothing about c (a record of its own for the input class of a known finding)
NvoFails(r) ==
  F("no-exception", r.out = "ok" /\ r.ell \in 0..4 /\ r.cc \in {-1, 1})
  \o F("on-both-lines", r.z >= 0 /\ r.z <= 2 * XErr(1, r.ell > 0) + TolRound + 5 + 2 * r.um)
  \o F("next-excludes-origin", ~AtOrigin(r.p))

IsFails(r) ==
  LET m == Meet(r.A, r.B) IN
  F("no-exception", r.out = "ok")
  \o (IF ~EllOK(r) THEN <<"not-a-lattice-pair">>
      ELSE IF m.kind = "cross"
      THEN F("round-off", ResOK(r.p)) \o F("coincidence-indicator", r.c = 0)
           \o F("segment-answer-and-segmode", <<P2(r.p), r.segmode>> \in SegmentSet(2 * (m.a0 - r.A[3]), 2 * (m.b0 - r.B[3]), 2 * r.lenA, 2 * r.lenB))
      ELSE IF m.kind = "coin"
      THEN LET Ks == CoinKs(m, r.A[3], r.B[3])  SX == 2 * r.lenA  SY == 2 * r.lenB IN
           IF ~FiniteP(r.p) THEN <<"finite-answer">> ELSE       \* (NaN is logged as 2000000001: no arithmetic on it)
           F("round-off", ResOK(r.p)) \o F("coincidence-indicator", r.c = m.c)
           \o F("on-coincidence-line", OnCoin(P2(r.p), m.c, Ks))
           \o F("segmode-definition", r.segmode \in SegModes(P2(r.p), SX, SY))
           \o F("overlapping-segments-intersect", Overlap(m.c, Ks, SX, SY) => r.segmode = 0 /\ InBoth(P2(r.p), SX, SY))
           \o F("closest-to-the-midpoints", ~Overlap(m.c, Ks, SX, SY) => L1(P2(r.p), <<SX \div 2, SY \div 2>>) = CoinDist(<<SX \div 2, SY \div 2>>, m.c, Ks))
      ELSE <<"not-a-lattice-pair">>)

\* AllEdgeFree: an intersection whose distance equals maxdist exactly may or may not be listed (round-off)
IaFails(r) ==
  LET m == Meet(r.A, r.B) IN
  F("no-exception", r.out = "ok")
  \o (IF m.kind # "cross" \/ r.ell # 0 THEN <<"not-a-lattice-pair">>
      ELSE LET X0 == 2 * (m.a0 - r.A[3])  Y0 == 2 * (m.b0 - r.B[3])  P0 == Dbl(r.p0)
               must == Within(X0, Y0, 360, P0, 2 * r.maxd - 1)
               may == Within(X0, Y0, 360, P0, 2 * r.maxd)
               got == {P2(r.ps[i]) : i \in 1..Len(r.ps)}
           IN F("round-off", \A i \in 1..Len(r.ps) : ResOK(r.ps[i]))
              \o F("coincidence-indicator", \A i \in 1..Len(r.ps) : r.ps[i][5] = 0)
              \o F("every-intersection", must \subseteq got)
              \o F("only-intersections-within-maxdist", got \subseteq may)
              \o F("once", Cardinality(got) = Len(r.ps))
              \o F("sorted-by-distance", \A i \in 1..(Len(r.ps) - 1) : L1(P2(r.ps[i]), P0) <= L1(P2(r.ps[i + 1]), P0)))

(* ------------------------------------------------------------------------ *)
Fails(r) ==
  CASE r.e = "nnt" -> NntFails(r) [] r.e = "nns" -> NnsFails(r)
    [] r.e = "ic" -> IcFails(r) [] r.e = "in" -> InFails(r) [] r.e = "nv" -> NvFails(r) [] r.e = "nvo" -> NvoFails(r) [] r.e = "is" -> IsFails(r) [] r.e = "ia" -> IaFails(r)
    [] r.e = "az" -> AzFails(r) [] r.e = "gn" -> GnFails(r) [] r.e = "cs" -> CsFails(r)
    [] r.e = "xc" -> XcFails(r) [] r.e = "xn" -> XnFails(r) [] r.e = "xo" -> XoFails(r) [] r.e = "xs" -> XsFails(r) [] r.e = "xa" -> XaFails(r)
    [] OTHER -> <<"unknown-record-kind">>

Init == l = 1 /\ KitInit
Next == /\ l <= NT
        /\ Require(Fails(T[l]) = <<>>, l, "c17-" \o T[l].e, Fails(T[l]))
        /\ Consumed(l)
        /\ l' = l + 1
=============================================================================
