----------------------------- MODULE Trace_LineTool -----------------------------
(***************************************************************************)
(* Validates runs of the real GeoConvert / GeodSolve processes against      *)
(* LineTool.  Records: Reset (start of a run with its options), line (one   *)
(* input line and the output line at the same position, if any), end (exit  *)
(* status and line counts).  The spec state (status, count) is carried      *)
(* along; on a mismatch validation continues from the spec's successor.     *)
(***************************************************************************)
EXTENDS LineTool, TraceKit

VARIABLES l, cfg

Class(c, s) == IF c.tool = "GeoConvert" THEN GCLine(c, s) ELSE GSLine(c, s)
Content(c, s, out) == IF c.tool = "GeoConvert" THEN GCContent(c, s, out) ELSE GSContent(c, s, out)

LineOK(r, cls) ==
  /\ r.has                                                   \* an output line for this input line
  /\ cls = "bad" => IsError(r.out)
  /\ cls = "good" => ~IsError(r.out) /\ Content(cfg, r.inp, r.out)

Init == l = 1 /\ KitInit /\ cfg = [tool |-> "none"] /\ LInit
Next ==
  /\ l <= NT
  /\ LET r == T[l] IN
     CASE r.e = "Reset" ->
            /\ Require(r.tool \in {"GeoConvert", "GeodSolve"}, l, "tool-start", <<>>)
            /\ cfg' = r /\ status' = 0 /\ nin' = 0 /\ nout' = 0
       [] r.e = "line" /\ cfg.tool # "none" ->
            LET cls == Class(cfg, r.inp)
                bad == cls = "bad" \/ (cls = "any" /\ r.has /\ IsError(r.out))
            IN /\ Require(LineOK(r, cls), l, "tool-line-" \o cls, <<cls>>)
               /\ Line(bad) /\ cfg' = cfg
       [] r.e = "end" /\ cfg.tool # "none" ->
            /\ Require(r.status = status /\ r.nin = nin /\ r.nout = nout /\ r.signal = 0, l, "tool-exit", <<status, nin, nout>>)
            /\ UNCHANGED <<cfg, status, nin, nout>>
       [] OTHER -> Require(FALSE, l, "tool-unknown", <<>>) /\ UNCHANGED <<cfg, status, nin, nout>>
  /\ Consumed(l)
  /\ l' = l + 1
=============================================================================
