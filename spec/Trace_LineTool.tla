----------------------------- MODULE Trace_LineTool -----------------------------
(***************************************************************************)
(* Validates runs of the real GeoConvert / GeodSolve processes against      *)
(* LineTool.  Records: Reset (start of a run with its options), line (one   *)
(* input line and the output line at the same position, if any), end (exit  *)
(* status and line counts).  The spec state (status, count) is carried      *)
(* along; on a mismatch validation continues from the spec's successor.     *)
(* The other tools (ToolText) use the same records; a line of the second    *)
(* half of a round trip also carries the line given to the first half (src) *)
(* and its output (fout).  Planimeter runs: vtx (one input line), pend      *)
(* (all output lines, exit status); unc: a line of the run was of a kind    *)
(* that the man page does not settle, the counts are then not compared.     *)
(***************************************************************************)
EXTENDS LineTool, TraceKit

VARIABLES l, cfg, unc

Old(c) == c.tool \in {"GeoConvert", "GeodSolve"}
\* the options of a GeoConvert / GeodSolve run that LineText.tla reads
OldCfgOK(r) ==
  /\ {"mode", "prec", "w", "c", "dms", "cd", "z", "zn", "l", "full"} \subseteq DOMAIN r /\ r.l \in BOOLEAN /\ r.full \in BOOLEAN
  /\ r.cd \in {0, 35} /\ r.z \in 0..60 /\ r.zn \in {"", "n", "s"} /\ r.w \in BOOLEAN /\ r.dms \in {0, 100, 58}
  /\ r.tool = "GeoConvert" => r.mode \in {"g", "d", ":", "u", "m"} /\ r.c \in BOOLEAN
  /\ r.tool = "GeodSolve" => {"arc", "lat1", "lon1", "azi1"} \subseteq DOMAIN r /\ r.mode \in {"dir", "inv", "line"} /\ r.arc \in BOOLEAN
Class(c, s) == IF c.tool = "GeoConvert" THEN GCLine(c, s) ELSE IF c.tool = "GeodSolve" THEN GSLine(c, s) ELSE TLLine(c, s)
Content(c, s, out) == IF c.tool = "GeoConvert" THEN GCContent(c, s, out) ELSE IF c.tool = "GeodSolve" THEN GSContent(c, s, out)
                      ELSE TLContent(c, s, out)

LineOK(r, cls) ==
  /\ r.has                                                   \* an output line for this input line
  /\ cls = "bad" => IsError(r.out)
  /\ cls = "good" => ~IsError(r.out) /\ Content(cfg, r.inp, r.out)

RoundTrip(c) == ~Old(c) /\ c.rt
Counts(outs) == [i \in 1..Len(outs) |-> LET ot == WTokens(Body(cfg, outs[i])) IN
                                         IF Len(ot) >= 1 /\ IsIntIn(ot[1], 0, 99999) THEN PolyCount(cfg, outs[i]) ELSE -1]
NonZero(s) == SelectSeq(s, LAMBDA x : x # 0)

Init == l = 1 /\ KitInit /\ cfg = [tool |-> "none"] /\ LInit /\ unc = FALSE
Next ==
  /\ l <= NT
  /\ LET r == T[l] IN
     CASE r.e = "Reset" ->
            LET ok == (r.tool \in {"GeoConvert", "GeodSolve"} /\ OldCfgOK(r)) \/ (r.tool \notin {"GeoConvert", "GeodSolve"} /\ KnownCfg(r)) IN
            /\ Require(ok, l, "tool-start", <<>>)
            /\ cfg' = (IF ok THEN r ELSE [tool |-> "none"])
            /\ status' = 0 /\ nin' = 0 /\ nout' = 0 /\ pcur' = 0 /\ pdone' = <<>> /\ unc' = FALSE
       [] r.e = "line" /\ cfg.tool \notin {"none", "Planimeter"} ->
            LET cls == Class(cfg, r.inp)
                bad == cls = "bad" \/ (cls = "any" /\ r.has /\ IsError(r.out))
            IN /\ Require(LineOK(r, cls), l, "tool-line-" \o cls, <<cls>>)
               /\ RoundTrip(cfg) => /\ Require(RTInput(cfg, r.inp, r.fout), l, "tool-rt-input", <<>>)
                                    /\ Require(RTBack(cfg, r.src, r.out), l, "tool-rt-back", <<>>)
               /\ Line(bad) /\ UNCHANGED <<cfg, unc>>
       [] r.e = "end" /\ cfg.tool \notin {"none", "Planimeter"} ->
            /\ Require(r.status = status /\ r.nin = nin /\ r.nout = nout /\ r.signal = 0, l, "tool-exit", <<status, nin, nout>>)
            /\ UNCHANGED <<cfg, status, nin, nout, pcur, pdone, unc>>
       [] r.e = "vtx" /\ cfg.tool = "Planimeter" ->
            LET k == PolyLine(cfg, r.inp) IN
            /\ PLine(k = "bad") /\ unc' = (unc \/ k = "any") /\ cfg' = cfg
       [] r.e = "pend" /\ cfg.tool = "Planimeter" ->
            /\ Require(r.signal = 0 /\ r.nin = nin, l, "poly-exit", <<nin>>)
            /\ Require(\A i \in 1..Len(r.outs) : PolyOutOK(cfg, r.outs[i]), l, "poly-line", <<>>)
            /\ Require(unc \/ NonZero(Counts(r.outs)) = PCounts, l, "poly-count", <<PCounts>>)
            /\ UNCHANGED <<cfg, status, nin, nout, pcur, pdone, unc>>
       [] OTHER -> Require(FALSE, l, "tool-unknown", <<>>) /\ UNCHANGED <<cfg, status, nin, nout, pcur, pdone, unc>>
  /\ Consumed(l)
  /\ l' = l + 1
=============================================================================
