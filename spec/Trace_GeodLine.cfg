INIT Init
NEXT Next
CONSTANTS TolAng = 20 TolLen = 20 TolScale = 20 TolArea = 20 AccLat = 7200 AccLon = 20 AccLen = 125 ClairautMin = 100000000 TolTurn = 1000
POSTCONDITION Summary
CHECK_DEADLOCK FALSE
