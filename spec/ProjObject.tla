----------------------------- MODULE ProjObject -----------------------------
(***************************************************************************)
(* The projection OBJECTS of property C17 as a state machine, written from   *)
(* CassiniSoldner.hpp, AzimuthalEquidistant.hpp, Gnomonic.hpp.                *)
(*                                                                          *)
(* CassiniSoldner is the only one with state: "CassiniSoldner(earth): this   *)
(* constructor makes an 'uninitialized' object.  Call Reset to set the        *)
(* central latitude and longitude, prior to calling Forward and Reverse";     *)
(* "CassiniSoldner(lat0, lon0, earth): constructor specifying a center        *)
(* point"; "Reset(lat0, lon0): set the central point of the projection";      *)
(* "Init(): true if the object has been initialized"; Forward / Reverse "do   *)
(* nothing if the origin has not been set".  So the abstract state is         *)
(*     cs = [init |-> BOOLEAN, o |-> centre]                                  *)
(* and NOTHING ELSE: whatever the history of constructor and Resets, Forward  *)
(* and Reverse answer as a function of the last centre only (HistoryFree).    *)
(* AzimuthalEquidistant and Gnomonic objects carry no state but the           *)
(* ellipsoid: the centre is an argument of every call, so their operations    *)
(* are functions of the arguments whatever the object has been used for.      *)
(*                                                                          *)
(* Operations are actions with the result in ret; the values are those of     *)
(* ProjLattice (unit-degree sphere, integer answers, open choices as sets).   *)
(***************************************************************************)
EXTENDS ProjLattice

VARIABLES cs,     \* state of the CassiniSoldner object
          ret     \* result of the last operation

Uninit == [init |-> FALSE, o |-> <<0, 0>>]
Set(o) == [init |-> TRUE, o |-> o]

New0 == cs' = Uninit /\ ret' = "void"                      \* CassiniSoldner(earth)
New(o) == cs' = Set(o) /\ ret' = "void"                    \* CassiniSoldner(lat0, lon0, earth)
Reset(o) == cs' = Set(o) /\ ret' = "void"                  \* Reset(lat0, lon0), allowed in every state
CsForward(p) == UNCHANGED cs /\ ret' = IF cs.init THEN CsFwd(cs.o, p) ELSE [kind |-> "untouched"]
CsReverse(q) == UNCHANGED cs /\ ret' = IF cs.init THEN CsRev(cs.o, q) ELSE [kind |-> "untouched"]
\* operations of the stateless objects: the centre is an argument
AzForward(o, p) == UNCHANGED cs /\ ret' = AzFwd(o, p)
AzReverse(o, q) == UNCHANGED cs /\ ret' = AzRev(o, q)
GnForward(o, p) == UNCHANGED cs /\ ret' = GnFwd(o, p)

\* the state a freshly constructed object has
Fresh(o) == Set(o)
=============================================================================
