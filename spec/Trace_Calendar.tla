---------------------------- MODULE Trace_Calendar ----------------------------
(* Validates observations of Utility::day / date / dow / date(string) /        *)
(* fractionalyear against Calendar.tla.                                         *)
EXTENDS Calendar, TraceKit

VARIABLE l

\* day(y, m, d): the unchecked form returns the day number of an existing date; the checked form throws exactly for dates that do not exist
DayOK(r) ==
  /\ (Valid(r.y, r.m, r.d) => r.chk = "ok" /\ r.s = Day(r.y, r.m, r.d) /\ r.u = Day(r.y, r.m, r.d))
  /\ (~Valid(r.y, r.m, r.d) => r.chk = "throw")
DateOK(r) == LET t == DateOf(r.s) IN r.y = t[1] /\ r.m = t[2] /\ r.d = t[3] /\ r.dow = Dow(r.s) /\ r.dow3 = Dow(r.s)

\* date(string): malformed strings throw; canonical strings are accepted with their numeric meaning; for other field widths
\* acceptance is not specified, but an accepted string has its numeric meaning
StrOK(r) ==
  LET p == ParseDate(r.code) IN
  /\ r.out \in {"ok", "throw"}
  /\ (p[1] = "throw" => r.out = "throw" /\ r.untouched)
  /\ (p[1] = "ok" /\ Canonical(r.code) => r.out = "ok")
  /\ (r.out = "ok" => p[1] = "ok" /\ r.y = p[2] /\ r.m = p[3] /\ r.d = p[4])
\* fractionalyear: value = y + num/den, compared in units of 1e-6 year (the driver logs floor and nano-fraction; 32-bit TLC integers)
FyOK(r) ==
  LET f == FracYear(r.code) IN
  /\ r.fout \in {"ok", "throw"}
  /\ (f[1] = "throw" => r.fout = "throw")
  /\ (f[1] = "num" => r.fout = "ok" /\ r.fi = f[2] * f[3] /\ r.fn = 0 /\ (f[3] = 0 => r.fneg = (f[2] = -1)))
  /\ (f[1] = "date" /\ Canonical(r.code) => r.fout = "ok")
  /\ (f[1] = "date" /\ r.fout = "ok" =>
        LET q == YearFrac(f[2], f[3], f[4])  e == (q[1] * 1000000) \div q[2]  o == r.fn \div 1000 IN r.fi = f[2] /\ o >= e - 1 /\ o <= e + 1)
OnlyDateChars(s) == \A i \in 1..Len(s) : Digit(s[i]) \/ s[i] = 45

Obligation(r) ==
  CASE r.e = "day" -> DayOK(r)
    [] r.e = "date" -> DateOK(r)
    [] r.e = "str" -> StrOK(r) /\ (OnlyDateChars(r.code) => FyOK(r)) /\ r.fout \in {"ok", "throw"}
    [] OTHER -> FALSE
Expected(r) ==
  CASE r.e = "day" -> <<Valid(r.y, r.m, r.d), IF Valid(r.y, r.m, r.d) THEN Day(r.y, r.m, r.d) ELSE 0>>
    [] r.e = "date" -> <<DateOf(r.s), Dow(r.s)>>
    [] r.e = "str" -> <<ParseDate(r.code), IF OnlyDateChars(r.code) THEN FracYear(r.code) ELSE <<>> >>
    [] OTHER -> <<>>

Init == l = 1 /\ KitInit
Next == /\ l <= NT
        /\ Require(Obligation(T[l]), l, "cal-" \o T[l].e, Expected(T[l]))
        /\ Consumed(l)
        /\ l' = l + 1
=============================================================================
