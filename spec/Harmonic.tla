---------------------------- MODULE Harmonic ----------------------------
(* Spherical harmonic sums, coefficient storage and model assembly (C19).                    *)
(* Written from SphericalHarmonic*.hpp, SphericalEngine.hpp (coeff), GravityModel.hpp,        *)
(* MagneticModel.hpp and doc sections gravityformat / magneticformat - not from the .cpp.     *)
(*                                                                                            *)
(* 1. packed triangular storage, constructor contract of coeff, the binary reader;            *)
(* 2. an exact value lattice: Schmidt semi-normalised harmonics of degree <= 1, zonal          *)
(*    harmonics of degree <= 4, evaluated on the six coordinate axes at r = a 2^j: value and   *)
(*    cartesian gradient are dyadic rationals, represented as integers in units of 2^-K;       *)
(* 3. magnetic model assembly: piecewise linear time dependence, constant term, truncation,    *)
(*    B = - grad (a * sum), rotation to east/north/up on a spherical earth;                    *)
(* 4. capabilities of GravityCircle.                                                           *)
EXTENDS Integers, Sequences, FiniteSets

Max(a, b) == IF a >= b THEN a ELSE b
Min(a, b) == IF a <= b THEN a ELSE b
Abs(a) == IF a >= 0 THEN a ELSE -a
RECURSIVE SumSeq(_, _)
SumSeq(s, k) == IF k > Len(s) THEN 0 ELSE s[k] + SumSeq(s, k + 1)
Dot(u, v) == u[1] * v[1] + u[2] * v[2] + u[3] * v[3]
Scale(k, u) == <<k * u[1], k * u[2], k * u[3]>>
Add3(u, v) == <<u[1] + v[1], u[2] + v[2], u[3] + v[3]>>

(* ------------------------------------------------------------------ 1. storage *)
\* "(M + 1) (2N - M + 2) / 2 elements" and "M (2N - M + 1) / 2 elements" (format sections)
Csize(N, M) == ((M + 1) * (2 * N - M + 2)) \div 2
Ssize(N, M) == (M * (2 * N - M + 1)) \div 2
\* "the (n, m) element is at index m N - m (m - 1)/2 + n"; S: same layout with the first column omitted
Index(N, n, m) == m * N - ((m * (m - 1)) \div 2) + n
SIndex(N, n, m) == Index(N, n, m) - (N + 1)

\* column-major listing of the pairs <<n, m>>, columns m0..M
RECURSIVE ColList(_, _, _)
ColList(N, M, m) == IF m > M THEN <<>> ELSE [i \in 1..(N - m + 1) |-> <<m + i - 1, m>>] \o ColList(N, M, m + 1)
CList(N, M) == ColList(N, M, 0)
SList(N, M) == ColList(N, M, 1)
Code(n, m, sine) == 1 + 2 * (16 * n + m) + sine           \* value stored by the driver for coefficient (n, m)
Codes(L, sine) == [k \in 1..Len(L) |-> Code(L[k][1], L[k][2], sine)]

\* degree/order pair of a coefficient set: N >= M >= 0, or the empty set N = M = -1.
\* Named rule EmptyOrderImpliesEmptyDegree: the documentation writes N >= M >= -1; the header adds
\* "If mmx = -1 then the sums are empty so require nmx = -1 also".
PairValid(N, M) == (N >= M /\ M >= 0) \/ (N = -1 /\ M = -1)
CoeffValid(N, nmx, mmx) == N >= nmx /\ PairValid(nmx, mmx)
\* "C or S is not big enough to hold the coefficients" that are used, i.e. up to (nmx, mmx)
CoeffOutcome(N, nmx, mmx, csz, ssz) ==
  IF ~CoeffValid(N, nmx, mmx) THEN "throw"
  ELSE IF nmx = -1 THEN "ok"
  ELSE IF Index(N, nmx, mmx) < csz /\ (mmx = 0 \/ SIndex(N, nmx, mmx) < ssz) THEN "ok" ELSE "throw"

\* readcoeffs(stream, N, M, C, S, truncate) on a stream holding a set of degree N0 and order M0
ReadSpec(N0, M0, N, M, tr) ==
  IF tr /\ ~PairValid(N, M) THEN <<"throw">>
  ELSE IF ~PairValid(N0, M0) THEN <<"throw">>
  ELSE LET N1 == IF tr THEN Min(N, N0) ELSE N0
           M1 == IF tr THEN Min(M, M0) ELSE M0
       IN <<"ok", N1, M1, Codes(CList(N1, M1), 0), Codes(SList(N1, M1), 1)>>

\* constructors of MagneticModel / GravityModel: "If Nmax >= 0 and Mmax < 0, then Mmax is set to Nmax";
\* negative means no truncation.  Returns the limits <<nl, ml>> (Big = no limit).
Big == 1000000
Limits(Nmax, Mmax) ==
  IF Nmax < 0 /\ Mmax < 0 THEN <<Big, Big>>
  ELSE <<IF Nmax >= 0 THEN Nmax ELSE Big, IF Mmax >= 0 THEN Mmax ELSE IF Nmax >= 0 THEN Nmax ELSE Big>>
\* "GeographicErr ... if Mmax > Nmax"
LimitsValid(Nmax, Mmax) == LET l == Limits(Nmax, Mmax) IN l[1] >= l[2]
\* Degree() / Order(): maximum over the coefficient sets after truncation (empty sets count -1)
RECURSIVE MaxOver(_, _, _, _)
MaxOver(Ns, lim, k, acc) == IF k > Len(Ns) THEN acc ELSE MaxOver(Ns, lim, k + 1, Max(acc, Min(Ns[k], lim)))

(* ------------------------------------------------------------------ 2. value lattice *)
K == 16                                   \* lattice unit 2^-16
AXIS == << <<1, 0, 0>>, <<0, 1, 0>>, <<-1, 0, 0>>, <<0, -1, 0>>, <<0, 0, 1>>, <<0, 0, -1>> >>
RECURSIVE Binom(_, _)
Binom(n, k) == IF k = 0 \/ k = n THEN 1 ELSE Binom(n - 1, k - 1) + Binom(n - 1, k)
\* Legendre polynomials at 0 and +-1, times 2^n:  P_n(0) = (-1)^(n/2) C(n, n/2) / 2^n for even n, 0 for odd n
P0num(n) == IF n % 2 = 1 THEN 0 ELSE (IF (n \div 2) % 2 = 0 THEN 1 ELSE -1) * Binom(n, n \div 2)
PnNum(n, t) == IF t = 0 THEN P0num(n) ELSE IF t = 1 \/ n % 2 = 0 THEN 2^n ELSE -(2^n)
\* P_n'(t) (z^ - t s) times 2^n: vanishes at the poles; at the equator P_n'(0) = n P_(n-1)(0)
TangNum(n, d) == IF d[3] = 0 /\ n >= 1 THEN <<0, 0, 2 * n * P0num(n - 1)>> ELSE <<0, 0, 0>>
\* three-term recurrence at t = 0 validates the table: (n+1) P_(n+1)(0) = - n P_(n-1)(0)
ASSUME \A n \in 1..7 : (n + 1) * P0num(n + 1) = -4 * n * P0num(n - 1)

\* coefficient vector c = <<c00, c10, c11, s11, c20, c30, c40>>; position of (n, m, sine), 0 = not present
Pos(n, m, sine) ==
  CASE n = 0 /\ m = 0 /\ sine = 0 -> 1 [] n = 1 /\ m = 0 /\ sine = 0 -> 2 [] n = 1 /\ m = 1 /\ sine = 0 -> 3
    [] n = 1 /\ m = 1 /\ sine = 1 -> 4 [] n = 2 /\ m = 0 /\ sine = 0 -> 5 [] n = 3 /\ m = 0 /\ sine = 0 -> 6
    [] n = 4 /\ m = 0 /\ sine = 0 -> 7 [] OTHER -> 0

\* A lattice harmonic h: record with L, tau, nmx, mmx, c (sequences of length L), tau[1] is not used.
\* SphericalHarmonic1/2: "C_nm replaced by C_nm + tau' C'_nm + tau'' C''_nm"; a set contributes only up to its own
\* (nmx_l, mmx_l); the sums run to (nmx_1, mmx_1).
Eff(h, n, m, sine) ==
  LET p == Pos(n, m, sine)
      term(l) == IF n <= h.nmx[l] /\ m <= h.mmx[l] THEN (IF l = 1 THEN 1 ELSE h.tau[l]) * h.c[l][p] ELSE 0
  IN IF p = 0 \/ n > h.nmx[1] \/ m > h.mmx[1] THEN 0 ELSE SumSeq([l \in 1..h.L |-> term(l)], 1)

\* degree-n part of the value, in units 2^-K, at the axis point AXIS[pt] * a 2^j   (q = a/r = 2^-j)
ValDeg(h, n, pt, j) ==
  LET d == AXIS[pt]
      zon == Eff(h, n, 0, 0) * PnNum(n, d[3]) * 2^(K - (n + 1) * j - n)
      sec == IF n = 1 THEN (Eff(h, 1, 1, 0) * d[1] + Eff(h, 1, 1, 1) * d[2]) * 2^(K - 2 * j) ELSE 0
  IN zon + sec
ValNum(h, pt, j) == SumSeq([i \in 1..5 |-> ValDeg(h, i - 1, pt, j)], 1)
\* cartesian gradient in units 2^-K; r = 2^(ja + j):
\*   grad (c q^(n+1) P_n(t)) = c q^(n+1)/r (-(n+1) P_n(t) s + P_n'(t) (z^ - t s));  dipole: q^2/r ((c11, s11, .) - 3 (c.s) s)
GradDeg(h, n, pt, j, ja) ==
  LET d == AXIS[pt]
      e == K - (n + 1) * j - n - (ja + j)
      zon == Scale(Eff(h, n, 0, 0) * 2^e, Add3(Scale(-(n + 1) * PnNum(n, d[3]), d), TangNum(n, d)))
      cs == Eff(h, 1, 1, 0) * d[1] + Eff(h, 1, 1, 1) * d[2]
      sec == IF n = 1 THEN Scale(2^(K - 2 * j - (ja + j)), Add3(<<Eff(h, 1, 1, 0), Eff(h, 1, 1, 1), 0>>, Scale(-3 * cs, d)))
             ELSE <<0, 0, 0>>
  IN Add3(zon, sec)
RECURSIVE GradSum(_, _, _, _, _)
GradSum(h, n, pt, j, ja) == IF n > 4 THEN <<0, 0, 0>> ELSE Add3(GradDeg(h, n, pt, j, ja), GradSum(h, n + 1, pt, j, ja))
GradNum(h, pt, j, ja) == GradSum(h, 0, pt, j, ja)

(* ------------------------------------------------------------------ 3. magnetic model assembly *)
\* a set is <<N, M, g10, g11, h11, g20, g30>>; model radius a = 4, spherical earth of radius 8, epoch 2000,
\* time t = 2000 + tq/4, DeltaEpoch dt0 in {1, 2}; field in units 2^-KM / 8
KM == 13
MPos(n, m, sine) ==
  CASE n = 1 /\ m = 0 /\ sine = 0 -> 3 [] n = 1 /\ m = 1 /\ sine = 0 -> 4 [] n = 1 /\ m = 1 /\ sine = 1 -> 5
    [] n = 2 /\ m = 0 /\ sine = 0 -> 6 [] n = 3 /\ m = 0 /\ sine = 0 -> 7 [] OTHER -> 0
SetCoef(s, lim, n, m, sine) ==
  LET p == MPos(n, m, sine) IN IF p = 0 \/ n > Min(s[1], lim[1]) \/ m > Min(s[2], lim[2]) THEN 0 ELSE s[p]
\* "The first NumModels of these model the field at Epoch + i * DeltaEpoch ...  The next set ... the rate of change at
\* Epoch + (NumModels - 1) * DeltaEpoch ... the last set ... the constant contributions"; "piece-wise linear (either using
\* interpolation between the field at two dates or using the field and its first derivative)".
Segment(g) == Max(Min(g.tq \div (4 * g.dt0), g.nm - 1), 0)
\* 8 x coefficient at time t on segment seg
Coef8(g, seg, n, m, sine) ==
  LET lim == Limits(g.Nmax, g.Mmax)
      c(i) == SetCoef(g.sets[i + 1], lim, n, m, sine)
      tqr == g.tq - 4 * g.dt0 * seg
      lin == IF seg + 1 < g.nm THEN ((2 * tqr) \div g.dt0) * (c(seg + 1) - c(seg)) ELSE 2 * tqr * c(g.nm)
  IN 8 * c(seg) + lin + (IF g.nc = 1 THEN 8 * c(g.nm + 1) ELSE 0)
Rate8(g, seg, n, m, sine) ==
  LET lim == Limits(g.Nmax, g.Mmax)
      c(i) == SetCoef(g.sets[i + 1], lim, n, m, sine)
  IN IF seg + 1 < g.nm THEN (8 \div g.dt0) * (c(seg + 1) - c(seg)) ELSE 8 * c(g.nm)
\* geocentric field B = - a grad (sum) at direction d, r = a 2^j, from a coefficient function cf(n, m, sine)
FieldDeg(cf(_, _, _), n, d, j) ==
  LET e == KM - (n + 1) * j - n - j
      zon == Scale(-cf(n, 0, 0) * 2^e, Add3(Scale(-(n + 1) * PnNum(n, d[3]), d), TangNum(n, d)))
      cs == cf(1, 1, 0) * d[1] + cf(1, 1, 1) * d[2]
      sec == IF n = 1 THEN Scale(-(2^(KM - 2 * j - j)), Add3(<<cf(1, 1, 0), cf(1, 1, 1), 0>>, Scale(-3 * cs, d))) ELSE <<0, 0, 0>>
  IN Add3(zon, sec)
Field(cf(_, _, _), d, j) == Add3(FieldDeg(cf, 1, d, j), Add3(FieldDeg(cf, 2, d, j), FieldDeg(cf, 3, d, j)))
\* the twelve lattice positions <<lat, lon>> and their local frames (east, north, up) on the sphere
MPT == << <<0, 0>>, <<0, 90>>, <<0, 180>>, <<0, -90>>, <<90, 0>>, <<90, 90>>, <<90, 180>>, <<90, -90>>,
          <<-90, 0>>, <<-90, 90>>, <<-90, 180>>, <<-90, -90>> >>
CosD(x) == CASE x = 0 -> 1 [] x = 90 -> 0 [] x = -90 -> 0 [] x = 180 -> -1
SinD(x) == CASE x = 0 -> 0 [] x = 90 -> 1 [] x = -90 -> -1 [] x = 180 -> 0
East(p) == <<-SinD(p[2]), CosD(p[2]), 0>>
North(p) == <<-SinD(p[1]) * CosD(p[2]), -SinD(p[1]) * SinD(p[2]), CosD(p[1])>>
Up(p) == <<CosD(p[1]) * CosD(p[2]), CosD(p[1]) * SinD(p[2]), SinD(p[1])>>
ToENU(p, B) == <<Dot(East(p), B), Dot(North(p), B), Dot(Up(p), B)>>
MagB(g, seg) == LET cf(n, m, s) == Coef8(g, seg, n, m, s) IN ToENU(MPT[g.pt], Field(cf, Up(MPT[g.pt]), g.j))
MagBt(g, seg) == LET cf(n, m, s) == Rate8(g, seg, n, m, s) IN ToENU(MPT[g.pt], Field(cf, Up(MPT[g.pt]), g.j))
MagNs(g) == [i \in 1..Len(g.sets) |-> g.sets[i][1]]
MagMs(g) == [i \in 1..Len(g.sets) |-> g.sets[i][2]]
MagDegree(g) == MaxOver(MagNs(g), Limits(g.Nmax, g.Mmax)[1], 1, -1)
MagOrder(g) == MaxOver(MagMs(g), Limits(g.Nmax, g.Mmax)[2], 1, -1)

(* ------------------------------------------------------------------ 4. GravityCircle capabilities *)
\* GravityModel::mask (header): GRAVITY = CAP_G, DISTURBANCE = CAP_DELTA | CAP_T, DISTURBING_POTENTIAL = CAP_T,
\* SPHERICAL_ANOMALY = CAP_DELTA | CAP_T | CAP_GAMMA, GEOID_HEIGHT = CAP_T | CAP_C | CAP_GAMMA0, ALL.
\* req: bit 1 GRAVITY, 2 DISTURBANCE, 4 DISTURBING_POTENTIAL, 8 SPHERICAL_ANOMALY, 16 GEOID_HEIGHT; 32 = ALL, 33 = NONE
Bit(x, b) == (x \div b) % 2 = 1
Prim(req, h0) ==
  LET raw == IF req = 32 THEN {"G", "T", "DELTA", "C", "GAMMA0", "GAMMA"} ELSE IF req = 33 THEN {} ELSE
             (IF Bit(req, 1) THEN {"G"} ELSE {}) \cup (IF Bit(req, 2) THEN {"DELTA", "T"} ELSE {}) \cup
             (IF Bit(req, 4) THEN {"T"} ELSE {}) \cup (IF Bit(req, 8) THEN {"DELTA", "T", "GAMMA"} ELSE {}) \cup
             (IF Bit(req, 16) THEN {"T", "C", "GAMMA0"} ELSE {})
  IN IF h0 THEN raw ELSE raw \ {"C", "GAMMA0"}            \* "GEOID_HEIGHT will only be honored if h = 0"
Needs(fn) ==
  CASE fn \in {"gravity", "w", "v"} -> {"G"} [] fn \in {"disturbance", "tgrad"} -> {"DELTA", "T"} [] fn = "t" -> {"T"}
    [] fn = "anomaly" -> {"DELTA", "T", "GAMMA"} [] fn = "geoid" -> {"T", "C", "GAMMA0"}
Avail(fn, req, h0) == Needs(fn) \subseteq Prim(req, h0)     \* otherwise "it will return NaNs"
Fns == {"gravity", "w", "v", "disturbance", "tgrad", "t", "anomaly", "geoid"}
=============================================================================
