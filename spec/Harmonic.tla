---------------------------- MODULE Harmonic ----------------------------
(* Spherical harmonic sums, coefficient storage and model assembly (C19).                    *)
(* Written from SphericalHarmonic*.hpp, SphericalEngine.hpp (coeff), GravityModel.hpp,        *)
(* MagneticModel.hpp and doc sections gravityformat / magneticformat - not from the .cpp.     *)
(*                                                                                            *)
(* 1. packed triangular storage, constructor contract of coeff, the binary reader;            *)
(* 2. an exact value lattice: Schmidt semi-normalised harmonics of degree <= 1, zonal          *)
(*    harmonics of degree <= 4, evaluated on the six coordinate axes at r = a 2^j: value and   *)
(*    cartesian gradient are dyadic rationals, represented as integers in units of 2^-K;       *)
(* 3. magnetic model assembly: piecewise linear time dependence, constant term, truncation,    *)
(*    B = - grad (a * sum), rotation to east/north/up on a spherical earth;                    *)
(* 4. capabilities of GravityCircle;                                                           *)
(* 5. keywords of the metadata files and their documented defaults; the constructor family of  *)
(*    the harmonic classes (general / "full set" forms, default normalisation argument);       *)
(* 6. a gravity-model lattice: non-rotating spherical reference body, so that V, W, U, T, the  *)
(*    disturbance, the geoid height and the gravity anomaly are dyadic; truncation by          *)
(*    Nmax / Mmax, HeightOffset / CorrectionMultiplier, GravityCircle values under every        *)
(*    capability request; NormalGravity of the same body (J_n, U, surface gravity).             *)
EXTENDS Integers, Sequences, FiniteSets

Max(a, b) == IF a >= b THEN a ELSE b
Min(a, b) == IF a <= b THEN a ELSE b
Abs(a) == IF a >= 0 THEN a ELSE -a
RECURSIVE SumSeq(_, _)
SumSeq(s, k) == IF k > Len(s) THEN 0 ELSE s[k] + SumSeq(s, k + 1)
Dot(u, v) == u[1] * v[1] + u[2] * v[2] + u[3] * v[3]
Scale(k, u) == <<k * u[1], k * u[2], k * u[3]>>
Add3(u, v) == <<u[1] + v[1], u[2] + v[2], u[3] + v[3]>>

(* ------------------------------------------------------------------ 1. storage *)
\* "(M + 1) (2N - M + 2) / 2 elements" and "M (2N - M + 1) / 2 elements" (format sections)
Csize(N, M) == ((M + 1) * (2 * N - M + 2)) \div 2
Ssize(N, M) == (M * (2 * N - M + 1)) \div 2
\* "the (n, m) element is at index m N - m (m - 1)/2 + n"; S: same layout with the first column omitted
Index(N, n, m) == m * N - ((m * (m - 1)) \div 2) + n
SIndex(N, n, m) == Index(N, n, m) - (N + 1)

\* column-major listing of the pairs <<n, m>>, columns m0..M
RECURSIVE ColList(_, _, _)
ColList(N, M, m) == IF m > M THEN <<>> ELSE [i \in 1..(N - m + 1) |-> <<m + i - 1, m>>] \o ColList(N, M, m + 1)
CList(N, M) == ColList(N, M, 0)
SList(N, M) == ColList(N, M, 1)
Code(n, m, sine) == 1 + 2 * (16 * n + m) + sine           \* value stored by the driver for coefficient (n, m)
Codes(L, sine) == [k \in 1..Len(L) |-> Code(L[k][1], L[k][2], sine)]

\* degree/order pair of a coefficient set: N >= M >= 0, or the empty set N = M = -1.
\* Named rule EmptyOrderImpliesEmptyDegree: the documentation writes N >= M >= -1; the header adds
\* "If mmx = -1 then the sums are empty so require nmx = -1 also".
PairValid(N, M) == (N >= M /\ M >= 0) \/ (N = -1 /\ M = -1)
CoeffValid(N, nmx, mmx) == N >= nmx /\ PairValid(nmx, mmx)
\* "C or S is not big enough to hold the coefficients" that are used, i.e. up to (nmx, mmx)
CoeffOutcome(N, nmx, mmx, csz, ssz) ==
  IF ~CoeffValid(N, nmx, mmx) THEN "throw"
  ELSE IF nmx = -1 THEN "ok"
  ELSE IF Index(N, nmx, mmx) < csz /\ (mmx = 0 \/ SIndex(N, nmx, mmx) < ssz) THEN "ok" ELSE "throw"

\* readcoeffs(stream, N, M, C, S, truncate) on a stream holding a set of degree N0 and order M0
ReadSpec(N0, M0, N, M, tr) ==
  IF tr /\ ~PairValid(N, M) THEN <<"throw">>
  ELSE IF ~PairValid(N0, M0) THEN <<"throw">>
  ELSE LET N1 == IF tr THEN Min(N, N0) ELSE N0
           M1 == IF tr THEN Min(M, M0) ELSE M0
       IN <<"ok", N1, M1, Codes(CList(N1, M1), 0), Codes(SList(N1, M1), 1)>>

\* constructors of MagneticModel / GravityModel: "If Nmax >= 0 and Mmax < 0, then Mmax is set to Nmax";
\* negative means no truncation.  Returns the limits <<nl, ml>> (Big = no limit).
Big == 1000000
Limits(Nmax, Mmax) ==
  IF Nmax < 0 /\ Mmax < 0 THEN <<Big, Big>>
  ELSE <<IF Nmax >= 0 THEN Nmax ELSE Big, IF Mmax >= 0 THEN Mmax ELSE IF Nmax >= 0 THEN Nmax ELSE Big>>
\* "GeographicErr ... if Mmax > Nmax"
LimitsValid(Nmax, Mmax) == LET l == Limits(Nmax, Mmax) IN l[1] >= l[2]
\* Degree() / Order(): maximum over the coefficient sets after truncation (empty sets count -1)
RECURSIVE MaxOver(_, _, _, _)
MaxOver(Ns, lim, k, acc) == IF k > Len(Ns) THEN acc ELSE MaxOver(Ns, lim, k + 1, Max(acc, Min(Ns[k], lim)))

(* ------------------------------------------------------------------ 2. value lattice *)
K == 16                                   \* lattice unit 2^-16
AXIS == << <<1, 0, 0>>, <<0, 1, 0>>, <<-1, 0, 0>>, <<0, -1, 0>>, <<0, 0, 1>>, <<0, 0, -1>> >>
RECURSIVE Binom(_, _)
Binom(n, k) == IF k = 0 \/ k = n THEN 1 ELSE Binom(n - 1, k - 1) + Binom(n - 1, k)
\* Legendre polynomials at 0 and +-1, times 2^n:  P_n(0) = (-1)^(n/2) C(n, n/2) / 2^n for even n, 0 for odd n
P0num(n) == IF n % 2 = 1 THEN 0 ELSE (IF (n \div 2) % 2 = 0 THEN 1 ELSE -1) * Binom(n, n \div 2)
PnNum(n, t) == IF t = 0 THEN P0num(n) ELSE IF t = 1 \/ n % 2 = 0 THEN 2^n ELSE -(2^n)
\* P_n'(t) (z^ - t s) times 2^n: vanishes at the poles; at the equator P_n'(0) = n P_(n-1)(0)
TangNum(n, d) == IF d[3] = 0 /\ n >= 1 THEN <<0, 0, 2 * n * P0num(n - 1)>> ELSE <<0, 0, 0>>
\* three-term recurrence at t = 0 validates the table: (n+1) P_(n+1)(0) = - n P_(n-1)(0)
ASSUME \A n \in 1..7 : (n + 1) * P0num(n + 1) = -4 * n * P0num(n - 1)

\* coefficient vector c = <<c00, c10, c11, s11, c20, c30, c40>>; position of (n, m, sine), 0 = not present
Pos(n, m, sine) ==
  CASE n = 0 /\ m = 0 /\ sine = 0 -> 1 [] n = 1 /\ m = 0 /\ sine = 0 -> 2 [] n = 1 /\ m = 1 /\ sine = 0 -> 3
    [] n = 1 /\ m = 1 /\ sine = 1 -> 4 [] n = 2 /\ m = 0 /\ sine = 0 -> 5 [] n = 3 /\ m = 0 /\ sine = 0 -> 6
    [] n = 4 /\ m = 0 /\ sine = 0 -> 7 [] OTHER -> 0

\* A lattice harmonic h: record with L, tau, nmx, mmx, c (sequences of length L), tau[1] is not used.
\* SphericalHarmonic1/2: "C_nm replaced by C_nm + tau' C'_nm + tau'' C''_nm"; a set contributes only up to its own
\* (nmx_l, mmx_l); the sums run to (nmx_1, mmx_1).
Eff(h, n, m, sine) ==
  LET p == Pos(n, m, sine)
      term(l) == IF n <= h.nmx[l] /\ m <= h.mmx[l] THEN (IF l = 1 THEN 1 ELSE h.tau[l]) * h.c[l][p] ELSE 0
  IN IF p = 0 \/ n > h.nmx[1] \/ m > h.mmx[1] THEN 0 ELSE SumSeq([l \in 1..h.L |-> term(l)], 1)

\* The constructor family (SphericalHarmonic, SphericalHarmonic1, SphericalHarmonic2).  Two public forms each:
\*   "general": (C, S, N, nmx, mmx [, C', S', N', nmx', mmx' [, C'', ...]], a, norm)     "Constructor with a subset of coefficients"
\*   "simple":  (C, S, N [, C', S', N' [, C'', S'', N'']], a, norm)                      "Constructor with a full set of coefficients":
\*              N_l is "the maximum degree and order" of set l, i.e. the general form with nmx_l = mmx_l = N_l.
\* norm: "either FULL (the default) or SCHMIDT": leaving the argument out means FULL.
\* A default-constructed object "can then be reset with the default copy assignment operator" (h.asg): same object.
HarmNormDefault == "full"
NormEff(norm, def) == IF norm = "default" THEN def ELSE norm
SimpleApplicable(h) == \A l \in 1..h.L : h.nmx[l] = h.N[l] /\ h.mmx[l] = h.N[l]
\* documented exceptions: general "N >= nmx >= mmx >= -1; N1 >= nmx1 >= mmx1 >= -1; N >= N1; nmx >= nmx1; mmx >= mmx1
\* and similarly for N2, nmx2, mmx2"; simple "N >= N1 >= -1, and similarly for N2" (arrays are large enough in every vector)
CtorOutcome(h) ==
  IF /\ \A l \in 1..h.L : CoeffValid(h.N[l], h.nmx[l], h.mmx[l])
     /\ \A l \in 2..h.L : h.N[l] <= h.N[1] /\ h.nmx[l] <= h.nmx[1] /\ h.mmx[l] <= h.mmx[1]
  THEN "ok" ELSE "throw"

\* degree-n part of the value, in units 2^-K, at the axis point AXIS[pt] * a 2^j   (q = a/r = 2^-j)
ValDeg(h, n, pt, j) ==
  LET d == AXIS[pt]
      zon == Eff(h, n, 0, 0) * PnNum(n, d[3]) * 2^(K - (n + 1) * j - n)
      sec == IF n = 1 THEN (Eff(h, 1, 1, 0) * d[1] + Eff(h, 1, 1, 1) * d[2]) * 2^(K - 2 * j) ELSE 0
  IN zon + sec
ValNum(h, pt, j) == SumSeq([i \in 1..5 |-> ValDeg(h, i - 1, pt, j)], 1)
\* cartesian gradient in units 2^-K; r = 2^(ja + j):
\*   grad (c q^(n+1) P_n(t)) = c q^(n+1)/r (-(n+1) P_n(t) s + P_n'(t) (z^ - t s));  dipole: q^2/r ((c11, s11, .) - 3 (c.s) s)
GradDeg(h, n, pt, j, ja) ==
  LET d == AXIS[pt]
      e == K - (n + 1) * j - n - (ja + j)
      zon == Scale(Eff(h, n, 0, 0) * 2^e, Add3(Scale(-(n + 1) * PnNum(n, d[3]), d), TangNum(n, d)))
      cs == Eff(h, 1, 1, 0) * d[1] + Eff(h, 1, 1, 1) * d[2]
      sec == IF n = 1 THEN Scale(2^(K - 2 * j - (ja + j)), Add3(<<Eff(h, 1, 1, 0), Eff(h, 1, 1, 1), 0>>, Scale(-3 * cs, d)))
             ELSE <<0, 0, 0>>
  IN Add3(zon, sec)
RECURSIVE GradSum(_, _, _, _, _)
GradSum(h, n, pt, j, ja) == IF n > 4 THEN <<0, 0, 0>> ELSE Add3(GradDeg(h, n, pt, j, ja), GradSum(h, n + 1, pt, j, ja))
GradNum(h, pt, j, ja) == GradSum(h, 0, pt, j, ja)

(* ------------------------------------------------------------------ 3. magnetic model assembly *)
\* a set is <<N, M, g10, g11, h11, g20, g30>>; model radius a = 4, spherical earth of radius 8, epoch 2000,
\* time t = 2000 + tq/4, DeltaEpoch dt0 in {1, 2}; field in units 2^-KM / 8
KM == 13
MPos(n, m, sine) ==
  CASE n = 1 /\ m = 0 /\ sine = 0 -> 3 [] n = 1 /\ m = 1 /\ sine = 0 -> 4 [] n = 1 /\ m = 1 /\ sine = 1 -> 5
    [] n = 2 /\ m = 0 /\ sine = 0 -> 6 [] n = 3 /\ m = 0 /\ sine = 0 -> 7 [] OTHER -> 0
SetCoef(s, lim, n, m, sine) ==
  LET p == MPos(n, m, sine) IN IF p = 0 \/ n > Min(s[1], lim[1]) \/ m > Min(s[2], lim[2]) THEN 0 ELSE s[p]
\* "The first NumModels of these model the field at Epoch + i * DeltaEpoch ...  The next set ... the rate of change at
\* Epoch + (NumModels - 1) * DeltaEpoch ... the last set ... the constant contributions"; "piece-wise linear (either using
\* interpolation between the field at two dates or using the field and its first derivative)".
Segment(g) == Max(Min(g.tq \div (4 * g.dt0), g.nm - 1), 0)
\* 8 x coefficient at time t on segment seg
Coef8(g, seg, n, m, sine) ==
  LET lim == Limits(g.Nmax, g.Mmax)
      c(i) == SetCoef(g.sets[i + 1], lim, n, m, sine)
      tqr == g.tq - 4 * g.dt0 * seg
      lin == IF seg + 1 < g.nm THEN ((2 * tqr) \div g.dt0) * (c(seg + 1) - c(seg)) ELSE 2 * tqr * c(g.nm)
  IN 8 * c(seg) + lin + (IF g.nc = 1 THEN 8 * c(g.nm + 1) ELSE 0)
Rate8(g, seg, n, m, sine) ==
  LET lim == Limits(g.Nmax, g.Mmax)
      c(i) == SetCoef(g.sets[i + 1], lim, n, m, sine)
  IN IF seg + 1 < g.nm THEN (8 \div g.dt0) * (c(seg + 1) - c(seg)) ELSE 8 * c(g.nm)
\* geocentric field B = - a grad (sum) at direction d, r = a 2^j, from a coefficient function cf(n, m, sine)
FieldDeg(cf(_, _, _), n, d, j) ==
  LET e == KM - (n + 1) * j - n - j
      zon == Scale(-cf(n, 0, 0) * 2^e, Add3(Scale(-(n + 1) * PnNum(n, d[3]), d), TangNum(n, d)))
      cs == cf(1, 1, 0) * d[1] + cf(1, 1, 1) * d[2]
      sec == IF n = 1 THEN Scale(-(2^(KM - 2 * j - j)), Add3(<<cf(1, 1, 0), cf(1, 1, 1), 0>>, Scale(-3 * cs, d))) ELSE <<0, 0, 0>>
  IN Add3(zon, sec)
Field(cf(_, _, _), d, j) == Add3(FieldDeg(cf, 1, d, j), Add3(FieldDeg(cf, 2, d, j), FieldDeg(cf, 3, d, j)))
\* the twelve lattice positions <<lat, lon>> and their local frames (east, north, up) on the sphere
MPT == << <<0, 0>>, <<0, 90>>, <<0, 180>>, <<0, -90>>, <<90, 0>>, <<90, 90>>, <<90, 180>>, <<90, -90>>,
          <<-90, 0>>, <<-90, 90>>, <<-90, 180>>, <<-90, -90>> >>
CosD(x) == CASE x = 0 -> 1 [] x = 90 -> 0 [] x = -90 -> 0 [] x = 180 -> -1
SinD(x) == CASE x = 0 -> 0 [] x = 90 -> 1 [] x = -90 -> -1 [] x = 180 -> 0
East(p) == <<-SinD(p[2]), CosD(p[2]), 0>>
North(p) == <<-SinD(p[1]) * CosD(p[2]), -SinD(p[1]) * SinD(p[2]), CosD(p[1])>>
Up(p) == <<CosD(p[1]) * CosD(p[2]), CosD(p[1]) * SinD(p[2]), SinD(p[1])>>
ToENU(p, B) == <<Dot(East(p), B), Dot(North(p), B), Dot(Up(p), B)>>
MagB(g, seg) == LET cf(n, m, s) == Coef8(g, seg, n, m, s) IN ToENU(MPT[g.pt], Field(cf, Up(MPT[g.pt]), g.j))
MagBt(g, seg) == LET cf(n, m, s) == Rate8(g, seg, n, m, s) IN ToENU(MPT[g.pt], Field(cf, Up(MPT[g.pt]), g.j))
MagNs(g) == [i \in 1..Len(g.sets) |-> g.sets[i][1]]
MagMs(g) == [i \in 1..Len(g.sets) |-> g.sets[i][2]]
MagDegree(g) == MaxOver(MagNs(g), Limits(g.Nmax, g.Mmax)[1], 1, -1)
MagOrder(g) == MaxOver(MagMs(g), Limits(g.Nmax, g.Mmax)[2], 1, -1)

\* The metadata file NAME.wmm: lines "KEY VALUE"; a model file f carries f.meta, a record whose DOMAIN is the set of keywords
\* that are present.  Doc section magneticformat: "NumModels (default 1)", "NumConstants (default 0)", "DeltaEpoch (default 1)",
\* "Normalization (default schmidt)", "Type (default linear)", "ByteOrder (default little)"; MagneticModel.hpp: Description()
\* "if absent, return NONE", DateTime() "if absent, return UNKNOWN", MagneticModelName() "from the first argument of the
\* constructor, but this may be overridden by the model file".  Radius, Epoch and ID are required and always present here.
MagKeyDefault == [NumModels |-> 1, NumConstants |-> 0, DeltaEpoch |-> 1, Normalization |-> "schmidt", Type |-> "linear",
                  ByteOrder |-> "little", Description |-> "NONE", ReleaseDate |-> "UNKNOWN"]
Meta(meta, def, k) == IF k \in DOMAIN meta THEN meta[k] ELSE def[k]
\* the model that a file f = [meta, sets, ...] denotes: the record g used by Segment / Coef8 / MagB above
MagEff(f) == [nm |-> Meta(f.meta, MagKeyDefault, "NumModels"), nc |-> Meta(f.meta, MagKeyDefault, "NumConstants"),
              dt0 |-> Meta(f.meta, MagKeyDefault, "DeltaEpoch"), sets |-> f.sets, tq |-> f.tq, j |-> f.j, pt |-> f.pt,
              Nmax |-> f.Nmax, Mmax |-> f.Mmax]
\* "This is followed by NumModels + 1 + NumConstants sets of spherical harmonic coefficients"; anything else is a corrupt file
\* ("GeographicErr if the data file ... is corrupt"); "Only linear models / little endian are supported"
MagFileOK(f) == LET g == MagEff(f) IN
  /\ g.nm >= 1 /\ g.nc \in {0, 1} /\ g.dt0 >= 1 /\ Len(f.sets) = g.nm + 1 + g.nc
  /\ Meta(f.meta, MagKeyDefault, "Type") = "linear" /\ Meta(f.meta, MagKeyDefault, "ByteOrder") = "little"
  /\ Meta(f.meta, MagKeyDefault, "Normalization") \in {"schmidt", "full"}
MagNorm(f) == Meta(f.meta, MagKeyDefault, "Normalization")
MagOutcome(f) == IF LimitsValid(f.Nmax, f.Mmax) /\ MagFileOK(f) THEN "ok" ELSE "throw"

(* ------------------------------------------------------------------ 4. GravityCircle capabilities *)
\* GravityModel::mask (header): GRAVITY = CAP_G, DISTURBANCE = CAP_DELTA | CAP_T, DISTURBING_POTENTIAL = CAP_T,
\* SPHERICAL_ANOMALY = CAP_DELTA | CAP_T | CAP_GAMMA, GEOID_HEIGHT = CAP_T | CAP_C | CAP_GAMMA0, ALL.
\* req: bit 1 GRAVITY, 2 DISTURBANCE, 4 DISTURBING_POTENTIAL, 8 SPHERICAL_ANOMALY, 16 GEOID_HEIGHT; 32 = ALL, 33 = NONE
Bit(x, b) == (x \div b) % 2 = 1
Prim(req, h0) ==
  LET raw == IF req = 32 THEN {"G", "T", "DELTA", "C", "GAMMA0", "GAMMA"} ELSE IF req = 33 THEN {} ELSE
             (IF Bit(req, 1) THEN {"G"} ELSE {}) \cup (IF Bit(req, 2) THEN {"DELTA", "T"} ELSE {}) \cup
             (IF Bit(req, 4) THEN {"T"} ELSE {}) \cup (IF Bit(req, 8) THEN {"DELTA", "T", "GAMMA"} ELSE {}) \cup
             (IF Bit(req, 16) THEN {"T", "C", "GAMMA0"} ELSE {})
  IN IF h0 THEN raw ELSE raw \ {"C", "GAMMA0"}            \* "GEOID_HEIGHT will only be honored if h = 0"
Needs(fn) ==
  CASE fn \in {"gravity", "w", "v"} -> {"G"} [] fn \in {"disturbance", "tgrad"} -> {"DELTA", "T"} [] fn = "t" -> {"T"}
    [] fn = "anomaly" -> {"DELTA", "T", "GAMMA"} [] fn = "geoid" -> {"T", "C", "GAMMA0"}
Avail(fn, req, h0) == Needs(fn) \subseteq Prim(req, h0)     \* otherwise "it will return NaNs"
Fns == {"gravity", "w", "v", "disturbance", "tgrad", "t", "anomaly", "geoid"}

(* ------------------------------------------------------------------ 6. gravity-model lattice *)
\* The metadata file NAME.egm (doc section gravityformat): "HeightOffset (default 0)", "CorrectionMultiplier (default 1)",
\* "Normalization (default full)", "ByteOrder (default little)"; GravityModel.hpp: Description() "if absent, return NONE",
\* DateTime() "if absent, return UNKNOWN", GravityModelName() as for the magnetic model.  The required keywords are always present.
GrvKeyDefault == [HeightOffset |-> 0, CorrectionMultiplier |-> 1, Normalization |-> "full", ByteOrder |-> "little",
                  Description |-> "NONE", ReleaseDate |-> "UNKNOWN"]
\* A lattice gravity file G: ModelRadius 2^ja, ReferenceRadius 2^jr, ModelMass 2^km, ReferenceMass 2^kr (par = <<ja, jr, km, kr>>),
\* AngularVelocity 0 and Flattening 0 (or DynamicalFormFactor 0): the reference body is a non-rotating sphere, so that
\* U = GMref / R, Phi = 0, gamma = GMref / R^2 and every quantity below is a dyadic rational.  gs = <<N, M, c>> is the gravity
\* set (c as in Pos, C00 = 0 in the file: "the 1/r term" is implied), cs = <<Nc, Mc, c>> the "zeta-to-N" correction set.
\* The point is MPT[p] (section 3) at radius R = 2^(ja + j), i.e. height R - 2^jr.
AxisOf(p) == IF p <= 4 THEN p ELSE IF p <= 8 THEN 5 ELSE 6
ASSUME \A p \in 1..12 : AXIS[AxisOf(p)] = Up(MPT[p])
Sh(x, e) == IF e >= 0 THEN x * 2^e ELSE x \div 2^(-e)            \* x 2^e; MC_Harmonic checks that the division is exact
GLim(G) == Limits(G.Nmax, G.Mmax)
GrvNorm(G) == Meta(G.meta, GrvKeyDefault, "Normalization")
GrvFileOK(G) ==
  /\ PairValid(G.gs[1], G.gs[2]) /\ G.gs[1] >= 0 /\ G.gs[3][1] = 0 /\ PairValid(G.cs[1], G.cs[2])
  /\ Meta(G.meta, GrvKeyDefault, "CorrectionMultiplier") >= 1 /\ Meta(G.meta, GrvKeyDefault, "ByteOrder") = "little"
  /\ GrvNorm(G) \in {"schmidt", "full"}
\* "GeographicErr ... if Mmax > Nmax"
GrvOutcome(G) == IF LimitsValid(G.Nmax, G.Mmax) /\ GrvFileOK(G) THEN "ok" ELSE "throw"
\* the two harmonic sums of the model, cut by "Nmax: truncate the degree", "Mmax: truncate the order"
GH(G) == [L |-> 1, tau |-> <<1>>, N |-> <<G.gs[1]>>, nmx |-> <<Min(G.gs[1], GLim(G)[1])>>, mmx |-> <<Min(G.gs[2], GLim(G)[2])>>,
          c |-> <<[G.gs[3] EXCEPT ![1] = 1]>>]
CH(G) == [L |-> 1, tau |-> <<1>>, N |-> <<G.cs[1]>>, nmx |-> <<Min(G.cs[1], GLim(G)[1])>>, mmx |-> <<Min(G.cs[2], GLim(G)[2])>>,
          c |-> <<G.cs[3]>>]
\* Degree() / Order(): "the maximum degree / order of the components of the model" (an absent correction set counts as the
\* constant HeightOffset, degree and order 0 - named rule EmptyCorrectionIsConstant)
GrvDegree(G) == Max(GH(G).nmx[1], Max(CH(G).nmx[1], 0))
GrvOrder(G) == Max(GH(G).mmx[1], Max(CH(G).mmx[1], 0))
GJa(G) == G.par[1]
GJr(G) == G.par[2]
GKa(G) == G.par[3] - G.par[1]                                   \* GMmodel / amodel = 2^GKa
GKr(G) == G.par[4]
GAx(G) == AxisOf(G.p)
GDir(G) == AXIS[GAx(G)]
\* all values in units 2^-K
GV(G) == 2^GKa(G) * ValNum(GH(G), GAx(G), G.j)                                   \* V = GM/a sum
GVg(G) == Scale(2^GKa(G), GradNum(GH(G), GAx(G), G.j, GJa(G)))
GU(G) == 2^(K + GKr(G) - GJa(G) - G.j)                                           \* U = V0 = GMref / R  (Phi = 0)
GUg(G) == Scale(-(2^(K + GKr(G) - 2 * (GJa(G) + G.j))), GDir(G))                  \* gamma = - GMref / R^2 s
GT(G) == GV(G) - GU(G)                                                           \* T = W - U = V - V0
GTg(G) == Add3(GVg(G), Scale(-1, GUg(G)))                                        \* delta = g - gamma
\* T without the 1/r term (doc gravitygeoid; H+M 2-151c is applied to it as well)
GTp(G, jj) == 2^GKa(G) * (ValNum(GH(G), GAx(G), jj) - ValDeg(GH(G), 0, GAx(G), jj))
GTpg(G) == Scale(2^GKa(G), Add3(GradNum(GH(G), GAx(G), G.j, GJa(G)), Scale(-1, GradDeg(GH(G), 0, GAx(G), G.j, GJa(G)))))
\* "Dg01 = - dT/dr - 2 T / R"
GAnom(G) == -Dot(GDir(G), GTpg(G)) - Sh(2 * GTp(G, G.j), -(GJa(G) + G.j))
\* geoid height N = T(surface) / gamma0 + CorrectionMultiplier * correction sum + HeightOffset, the correction sum evaluated
\* on the unit sphere with a = 1; surface point: R = 2^jr, gamma0 = GMref / aref^2
GGeoid(G) == Sh(GTp(G, GJr(G) - GJa(G)), 2 * GJr(G) - GKr(G))
             + Meta(G.meta, GrvKeyDefault, "CorrectionMultiplier") * ValNum(CH(G), GAx(G), 0)
             + Meta(G.meta, GrvKeyDefault, "HeightOffset") * 2^K
GH0(G) == GJa(G) + G.j = GJr(G)                                                  \* the point is on the ellipsoid (h = 0)
NaNK == 2000000001                                                               \* how the driver logs a NaN
Four(x, g) == <<x, g[1], g[2], g[3]>>
NaNs(n) == [i \in 1..n |-> NaNK]
\* deflections of the vertical in radians: xi = - delta_north / gamma, eta = - delta_east / gamma, gamma = GMref / R^2 a power of two
GDefl(G) == LET t == ToENU(MPT[G.p], GTpg(G))  e == 2 * (GJa(G) + G.j) - GKr(G) IN <<Sh(-t[2], e), Sh(-t[1], e)>>
\* everything that is observed of one model at one point; the circle is created with the capability request G.req
GrvExp(G) ==
  LET enu(g) == ToENU(MPT[G.p], g)
      av(fn, x) == IF Avail(fn, G.req, GH0(G)) THEN x ELSE NaNs(Len(x))
  IN [pv |-> Four(GV(G), GVg(G)), pw |-> Four(GV(G), GVg(G)), pu |-> Four(GU(G), GUg(G)),
      pt1 |-> <<GT(G)>>, pt |-> Four(GT(G), GTg(G)),
      gg |-> Four(GV(G), enu(GVg(G))), gd |-> Four(GT(G), enu(GTg(G))), gn |-> <<GGeoid(G)>>, ga |-> <<GAnom(G)>>,
      cv |-> av("v", Four(GV(G), GVg(G))), cw |-> av("w", Four(GV(G), GVg(G))), cg |-> av("gravity", Four(GV(G), enu(GVg(G)))),
      cd |-> av("disturbance", Four(GT(G), enu(GTg(G)))), ct1 |-> av("t", <<GT(G)>>), ct |-> av("tgrad", Four(GT(G), GTg(G))),
      cn |-> av("geoid", <<GGeoid(G)>>), ca |-> av("anomaly", <<GAnom(G)>>), gx |-> GDefl(G), cx |-> av("anomaly", GDefl(G))]

\* NormalGravity of the non-rotating sphere a = 2^ja, GM = 2^km: "J_n = 0 if n is odd"; "C_n0 = - J_n / sqrt(2n + 1)" for the
\* coefficient of the Legendre sum of V0 = GM/r, hence J_0 = -1 and J_n = 0 for n >= 1 (n = 2: "the value used in the constructor").
\* Named rule NoSuchCoefficient: a negative n denotes no coefficient; nothing is required of the result.
NgJn(n) == IF n = 0 THEN -(2^K) ELSE 0
NgU(g) == 2^(K + g.km - g.ja - g.j)
NgUg(g) == Scale(-(2^(K + g.km - 2 * (g.ja + g.j))), AXIS[AxisOf(g.p)])
NgSurf(g) == 2^(K + g.km - 2 * g.ja)                               \* gamma_e = gamma_p = SurfaceGravity(lat) = GM / a^2
NgU0(g) == 2^(K + g.km - g.ja)                                     \* SurfacePotential
=============================================================================
