---------------------------- MODULE GeodOverloads ----------------------------
(***************************************************************************)
(* The public call interface of Geodesic, GeodesicExact, GeodesicLine and   *)
(* GeodesicLineExact (properties C01, C02, C03), written from the headers:  *)
(* "The following functions are overloaded versions of Geodesic::Direct     *)
(* which omit some of the output parameters", "Geodesic::Direct and         *)
(* Geodesic::ArcDirect are defined in terms of this function [GenDirect]".  *)
(*                                                                          *)
(* Every overload is a row <<family, arity, outs>>: outs is the documented  *)
(* output mask, a set of OUTPUT BITS numbered as in GeodLine.tla (C12):      *)
(*   0 LATITUDE  1 LONGITUDE  2 AZIMUTH  3 DISTANCE  5 REDUCEDLENGTH        *)
(*   6 GEODESICSCALE  7 AREA                                                *)
(* arity is the number of output reference parameters.  The agreement law   *)
(* (Trace_Geod!OvOK): an overload writes exactly the outputs of its row,    *)
(* with the values the general call (GenDirect / GenPosition / GenInverse)  *)
(* returns for that mask, and returns the arc length where documented.      *)
(*                                                                          *)
(* Families: 1 Direct  2 ArcDirect  3 Inverse  (solver objects)             *)
(*           4 Position  5 ArcPosition         (line objects)               *)
(* Classes:  0 Geodesic  1 GeodesicExact  2 Geodesic(a, f, exact = true),   *)
(*           and for families 4, 5 the line object made by that class.      *)
(***************************************************************************)
EXTENDS Integers, FiniteSets, Sequences

LAT == 0  LON == 1  AZI == 2  DIST == 3  REDLEN == 5  SCALE == 6  AREA == 7
RECURSIVE Num(_)
Num(S) == IF S = {} THEN 0 ELSE LET i == CHOOSE x \in S : TRUE IN 2 ^ i + Num(S \ {i})

Families == 1..5
Classes == 0..2
IsArcFam(f) == f \in {2, 5}
IsLineFam(f) == f \in {4, 5}
IsInverseFam(f) == f = 3
Returns(f) == f \in {1, 3, 4}          \* Direct, Inverse and Position return a12; the Arc forms return void

\* "Direct ... which omit some of the output parameters. Note, however, that the arc length is always computed and
\* returned as the function value": lat2, lon2 [, azi2 [, m12 | M12, M21 | m12, M12, M21 [, S12]]]
DistOuts == { {LAT, LON}, {LAT, LON, AZI}, {LAT, LON, AZI, REDLEN}, {LAT, LON, AZI, SCALE},
              {LAT, LON, AZI, REDLEN, SCALE}, {LAT, LON, AZI, REDLEN, SCALE, AREA} }
\* ArcDirect: lat2, lon2 [, azi2 [, s12 [, m12 | M12, M21 | m12, M12, M21 [, S12]]]]
ArcOuts == { {LAT, LON}, {LAT, LON, AZI}, {LAT, LON, AZI, DIST}, {LAT, LON, AZI, DIST, REDLEN}, {LAT, LON, AZI, DIST, SCALE},
             {LAT, LON, AZI, DIST, REDLEN, SCALE}, {LAT, LON, AZI, DIST, REDLEN, SCALE, AREA} }
\* Inverse: s12 | azi1, azi2 | s12, azi1, azi2 [, m12 | M12, M21 | m12, M12, M21 [, S12]]
InvOuts == { {DIST}, {AZI}, {DIST, AZI}, {DIST, AZI, REDLEN}, {DIST, AZI, SCALE}, {DIST, AZI, REDLEN, SCALE},
             {DIST, AZI, REDLEN, SCALE, AREA} }
OutsOf(f) == IF IsInverseFam(f) THEN InvOuts ELSE IF IsArcFam(f) THEN ArcOuts ELSE DistOuts

\* number of reference parameters an output bit stands for
Width(f, b) == IF b = SCALE \/ (IsInverseFam(f) /\ b = AZI) THEN 2 ELSE 1
RECURSIVE Arity(_, _)
Arity(f, S) == IF S = {} THEN 0 ELSE LET b == CHOOSE x \in S : TRUE IN Width(f, b) + Arity(f, S \ {b})

Rows == { <<f, Arity(f, S), S>> : f \in {1, 4}, S \in DistOuts } \cup
        { <<f, Arity(f, S), S>> : f \in {2, 5}, S \in ArcOuts } \cup
        { <<3, Arity(3, S), S>> : S \in InvOuts }
RowsOf(f) == { w \in Rows : w[1] = f }

\* output slots as the driver numbers them (bit i of `sig`): direct families 0 lat2 1 lon2 2 azi2 3 s12 4 m12 5 M12 6 M21 7 S12;
\* inverse 0 s12 1 azi1 2 azi2 3 m12 4 M12 5 M21 6 S12; bit 8 = a returned arc length
SlotsOfBit(f, b) ==
  IF IsInverseFam(f) THEN CASE b = DIST -> {0} [] b = AZI -> {1, 2} [] b = REDLEN -> {3} [] b = SCALE -> {4, 5} [] b = AREA -> {6}
  ELSE CASE b = LAT -> {0} [] b = LON -> {1} [] b = AZI -> {2} [] b = DIST -> {3} [] b = REDLEN -> {4} [] b = SCALE -> {5, 6} [] b = AREA -> {7}
Sig(f, S) == Num(UNION { SlotsOfBit(f, b) : b \in S } \cup (IF Returns(f) THEN {8} ELSE {}))

(* ------------------------------------------------------------------------ *)
(* Ways to obtain a line object whose third point is point 2 of a direct     *)
(* problem ("sets point 3 of the GeodesicLine to correspond to point 2 of    *)
(* the direct geodesic problem"): form, and whether the length is an arc.    *)
(*   1 DirectLine(s12)      2 ArcDirectLine(a12)                             *)
(*   3 GenDirectLine(false, s12)   4 GenDirectLine(true, a12)                *)
(*   5 Line + SetDistance(s12)     6 Line + SetArc(a12)                      *)
(*   7 GeodesicLine(g, ...) + GenSetDistance(false, s12)   8 ... (true, a12) *)
(* Law (Trace_Geod!CtOK): Distance() / Arc() return the given length         *)
(* unchanged and the other measure of the same segment; the position at the  *)
(* third point is the end point GenDirect returns.                           *)
(***************************************************************************)
Forms == { <<k, (k + 1) % 2>> : k \in 1..8 }       \* <<form, arc>>: even forms take an arc length
FormsOf(arc) == { w \in Forms : w[2] = (IF arc THEN 1 ELSE 0) }
=============================================================================
