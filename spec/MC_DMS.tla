------------------------------- MODULE MC_DMS -------------------------------
(***************************************************************************)
(* Lattice enumeration for the text subsystem (C10): root -> chunk c ->     *)
(* vectors.  Parts:                                                          *)
(*   da   every string of length <= LenA over the 19-symbol alphabet AlphaA, *)
(*        length LenB over the 12-symbol core, length LenC over 8 symbols    *)
(*   db   grammar products: degrees x indicator x minutes x indicator x      *)
(*        seconds x indicator with signs and hemisphere designators, sums    *)
(*   uni  every alternative spelling of every symbol in context, every pair  *)
(*        of minute symbols, the removable spaces at every position          *)
(*   ll   DecodeLatLon / DecodeAngle / DecodeAzimuth on a token lattice      *)
(*   enc  encoder carry lattice                                              *)
(*   num  val / str / fract / nummatch / ParseLine / lookup                  *)
(*   gc   GeoCoords::Reset token dispatch; UTM/UPS strings on a quarter-unit  *)
(*        lattice at every precision                                          *)
(* Model invariants are checked on every vector; Emit prints it.             *)
(***************************************************************************)
EXTENDS LineText, TLC, Json

CONSTANTS Part, NChunks, LenA, LenB, LenC, Thin
VARIABLE v

B2 == {TRUE, FALSE}
InChunk(S, C) == {x \in S : x % NChunks = C}

(* --------------------------- documented examples ------------------------- *)
ASSUME DocExamples ==
  /\ LET r == Decode(<<45, 50, 48, 46, 53, 49, 49, 50, 53>>) IN r[1] = "fin" /\ r[2] = TRUE /\ r[3] = 20 /\ r[4] = 184050000 /\ r[5]   \* -20.51125
  /\ LET r == Decode(<<50, 48, 100, 51, 48, 39, 52, 48, 46, 53, 34, 83>>) IN r[1] = "fin" /\ r[2] = TRUE /\ r[3] = 20 /\ r[4] = 184050000 /\ r[5]   \* 20d30'40.5"S
  /\ LET r == Decode(<<45, 50, 48, 194, 176, 51, 48, 39, 52, 48, 46, 53>>) IN r[1] = "fin" /\ r[2] = TRUE /\ r[3] = 20 /\ r[4] = 184050000 /\ r[5]   \* -20(deg)30'40.5
  /\ LET r == Decode(<<45, 50, 48, 100, 51, 48, 46, 54, 55, 53>>) IN r[1] = "fin" /\ r[2] = TRUE /\ r[3] = 20 /\ r[4] = 184050000 /\ r[5]   \* -20d30.675
  /\ LET r == Decode(<<78, 45, 50, 48, 100, 51, 48, 39, 52, 48, 46, 53, 34>>) IN r[1] = "fin" /\ r[2] = TRUE /\ r[3] = 20 /\ r[4] = 184050000 /\ r[5]   \* N-20d30'40.5"
  /\ LET r == Decode(<<45, 50, 48, 58, 51, 48, 58, 52, 48, 46, 53>>) IN r[1] = "fin" /\ r[2] = TRUE /\ r[3] = 20 /\ r[4] = 184050000 /\ r[5]   \* -20:30:40.5
  /\ LET r == Decode(<<52, 100, 48, 39, 57>>) IN r[1] = "fin" /\ r[2] = FALSE /\ r[3] = 4 /\ r[4] = 900000 /\ r[5] /\ r[7] = 0   \* 4d0'9
  /\ LET r == Decode(<<52, 100, 57, 34>>) IN r[1] = "fin" /\ r[2] = FALSE /\ r[3] = 4 /\ r[4] = 900000 /\ r[5] /\ r[7] = 0   \* 4d9"
  /\ LET r == Decode(<<52, 100, 57, 39, 39>>) IN r[1] = "fin" /\ r[2] = FALSE /\ r[3] = 4 /\ r[4] = 900000 /\ r[5] /\ r[7] = 0   \* 4d9''
  /\ LET r == Decode(<<52, 58, 48, 58, 57>>) IN r[1] = "fin" /\ r[2] = FALSE /\ r[3] = 4 /\ r[4] = 900000 /\ r[5] /\ r[7] = 0   \* 4:0:9
  /\ LET r == Decode(<<48, 48, 52, 58, 48, 48, 58, 48, 57>>) IN r[1] = "fin" /\ r[2] = FALSE /\ r[3] = 4 /\ r[4] = 900000 /\ r[5] /\ r[7] = 0   \* 004:00:09
  /\ LET r == Decode(<<52, 46, 48, 48, 50, 53>>) IN r[1] = "fin" /\ r[2] = FALSE /\ r[3] = 4 /\ r[4] = 900000 /\ r[5] /\ r[7] = 0   \* 4.0025
  /\ LET r == Decode(<<52, 46, 48, 48, 50, 53, 100>>) IN r[1] = "fin" /\ r[2] = FALSE /\ r[3] = 4 /\ r[4] = 900000 /\ r[5] /\ r[7] = 0   \* 4.0025d
  /\ LET r == Decode(<<52, 100, 48, 46, 49, 53>>) IN r[1] = "fin" /\ r[2] = FALSE /\ r[3] = 4 /\ r[4] = 900000 /\ r[5] /\ r[7] = 0   \* 4d0.15
  /\ LET r == Decode(<<48, 52, 58, 46, 49, 53>>) IN r[1] = "fin" /\ r[2] = FALSE /\ r[3] = 4 /\ r[4] = 900000 /\ r[5] /\ r[7] = 0   \* 04:.15
  /\ LET r == Decode(<<52, 58, 54, 48, 46, 48>>) IN r[1] = "fin" /\ r[2] = FALSE /\ r[3] = 5 /\ r[4] = 0 /\ r[5] /\ r[7] = 0   \* 4:60.0
  /\ LET r == Decode(<<52, 58, 53, 57, 58, 54, 48, 46, 48>>) IN r[1] = "fin" /\ r[2] = FALSE /\ r[3] = 5 /\ r[4] = 0 /\ r[5] /\ r[7] = 0   \* 4:59:60.0
  /\ LET r == Decode(<<53>>) IN r[1] = "fin" /\ r[2] = FALSE /\ r[3] = 5 /\ r[4] = 0 /\ r[5] /\ r[7] = 0   \* 5
  /\ LET r == Decode(<<52, 58, 53, 57, 46, 57, 57, 57, 57, 57, 57, 57, 57, 57, 57, 57, 57, 57, 57>>) IN r[1] = "fin" /\ r[3] = 4 /\ r[4] = U - 1 /\ ~r[5]   \* 4:59.99999999999999
  /\ LET r == Decode(<<45, 48, 55, 48, 58, 48, 48, 58, 52, 53>>) IN r[1] = "fin" /\ r[2] = TRUE /\ r[3] = 70 /\ r[4] = 4500000 /\ r[5]   \* -070:00:45
  /\ LET r == Decode(<<55, 48, 58, 48, 49, 58, 49, 53, 87, 43, 48, 58, 48, 46, 53>>) IN r[1] = "fin" /\ r[2] = TRUE /\ r[3] = 70 /\ r[4] = 4500000 /\ r[5] /\ r[7] = 2  \* 70:01:15W+0:0.5
  /\ LET r == Decode(<<55, 48, 58, 48, 49, 58, 49, 53, 87, 45, 48, 58, 48, 58, 51, 48, 87>>) IN r[1] = "fin" /\ r[2] = TRUE /\ r[3] = 70 /\ r[4] = 4500000 /\ r[5]   \* 70:01:15W-0:0:30W
  /\ LET r == Decode(<<87, 55, 48, 58, 48, 49, 58, 49, 53, 43, 48, 58, 48, 58, 51, 48, 69>>) IN r[1] = "fin" /\ r[2] = TRUE /\ r[3] = 70 /\ r[4] = 4500000 /\ r[5]   \* W70:01:15+0:0:30E
  /\ LET r == Decode(<<52, 48, 100, 51, 48, 39, 51, 48, 34>>) IN r[1] = "fin" /\ r[2] = FALSE /\ r[3] = 40 /\ r[4] = 183000000 /\ r[5] /\ r[7] = 0   \* 40d30'30"
  /\ LET r == Decode(<<52, 48, 100, 51, 48, 39, 51, 48>>) IN r[1] = "fin" /\ r[2] = FALSE /\ r[3] = 40 /\ r[4] = 183000000 /\ r[5] /\ r[7] = 0   \* 40d30'30
  /\ LET r == Decode(<<52, 48, 100, 51, 48, 46, 53, 39>>) IN r[1] = "fin" /\ r[2] = FALSE /\ r[3] = 40 /\ r[4] = 183000000 /\ r[5] /\ r[7] = 0   \* 40d30.5'
  /\ LET r == Decode(<<52, 48, 100, 51, 48, 46, 53>>) IN r[1] = "fin" /\ r[2] = FALSE /\ r[3] = 40 /\ r[4] = 183000000 /\ r[5] /\ r[7] = 0   \* 40d30.5
  /\ LET r == Decode(<<52, 48, 58, 51, 48, 58, 51, 48>>) IN r[1] = "fin" /\ r[2] = FALSE /\ r[3] = 40 /\ r[4] = 183000000 /\ r[5] /\ r[7] = 0   \* 40:30:30
  /\ LET r == Decode(<<52, 48, 58, 51, 48, 46, 53>>) IN r[1] = "fin" /\ r[2] = FALSE /\ r[3] = 40 /\ r[4] = 183000000 /\ r[5] /\ r[7] = 0   \* 40:30.5
  /\ LET r == Decode(<<52, 48, 58, 51, 48, 43, 48, 58, 48, 58, 51, 48>>) IN r[1] = "fin" /\ r[2] = FALSE /\ r[3] = 40 /\ r[4] = 183000000 /\ r[5] /\ r[7] = 0   \* 40:30+0:0:30
  /\ LET r == Decode(<<52, 48, 58, 51, 49, 45, 48, 58, 48, 46, 53>>) IN r[1] = "fin" /\ r[2] = FALSE /\ r[3] = 40 /\ r[4] = 183000000 /\ r[5] /\ r[7] = 0   \* 40:31-0:0.5
  /\ LET r == Decode(<<45, 49, 58, 51, 48, 45, 48, 58, 48, 58, 49, 53>>) IN r[1] = "fin" /\ r[2] = TRUE /\ r[3] = 1 /\ r[4] = 181500000 /\ r[5] /\ r[7] = 0   \* -1:30-0:0:15
  /\ LET r == Decode(<<55, 46, 48, 69, 43, 49>>) IN r[1] = "fin" /\ r[2] = FALSE /\ r[3] = 8 /\ r[4] = 0 /\ r[5] /\ r[7] = 2   \* 7.0E+1
  /\ LET r == Decode(<<56, 46, 48, 69>>) IN r[1] = "fin" /\ r[2] = FALSE /\ r[3] = 8 /\ r[4] = 0 /\ r[5] /\ r[7] = 2   \* 8.0E
  /\ Decode(<<52, 100, 53, 34, 52, 39>>) = <<"throw">>   \* 4d5"4'
  /\ Decode(<<52, 58, 58, 53>>) = <<"throw">>   \* 4::5
  /\ Decode(<<52, 58, 53, 58>>) = <<"throw">>   \* 4:5:
  /\ Decode(<<58, 52, 58, 53>>) = <<"throw">>   \* :4:5
  /\ Decode(<<52, 100, 52, 46, 53, 39, 52, 34>>) = <<"throw">>   \* 4d4.5'4"
  /\ Decode(<<45, 78, 50, 48, 46, 53>>) = <<"throw">>   \* -N20.5
  /\ Decode(<<49, 46, 56, 101, 50, 100>>) = <<"throw">>   \* 1.8e2d
  /\ Decode(<<52, 58, 54, 48>>) = <<"throw">>   \* 4:60
  /\ Decode(<<52, 58, 53, 57, 58, 54, 48>>) = <<"throw">>   \* 4:59:60
  /\ Decode(<<55, 48, 58, 48, 49, 58, 49, 53, 87, 43, 48, 58, 48, 58, 49, 53, 78>>) = <<"throw">>   \* 70:01:15W+0:0:15N
  /\ Decode(<<87, 55, 48, 58, 48, 49, 58, 49, 53, 43, 87, 48, 58, 48, 58, 49, 53>>) = <<"throw">>   \* W70:01:15+W0:0:15
  /\ Decode(<<55, 46, 48, 69, 49>>) = <<"throw">>   \* 7.0E1
  \* Encode examples of DMS.hpp: -8d03', 08d03'S, 008d03'W, 351d57'
  /\ EncodeStr(TRUE, 8, 3, MINUTE, 0, NONE, 0) = <<45, 56, 100, 48, 51, 39>>
  /\ EncodeStr(TRUE, 8, 3, MINUTE, 0, LATITUDE, 0) = <<48, 56, 100, 48, 51, 39, 83>>
  /\ EncodeStr(TRUE, 8, 3, MINUTE, 0, LONGITUDE, 0) = <<48, 48, 56, 100, 48, 51, 39, 87>>
  /\ Encode(TRUE, 8, 3, MINUTE, 0, AZIMUTH, 0, 0) = <<51, 53, 49, 100, 53, 55, 39>>

(* ------------------------------ alphabets -------------------------------- *)
\* 0 5 6 9 . d ' " : + - N S E W space x NUL e
AlphaA == <<48, 53, 54, 57, 46, 100, 39, 34, 58, 43, 45, 78, 83, 69, 87, 32, 120, 0, 101>>
AlphaB == <<48, 54, 57, 46, 100, 39, 58, 45, 78, 87, 34, 43>>
AlphaC == <<54, 48, 46, 58, 39, 100, 45, 83>>
Str1(A, a) == <<A[a]>>
NA == Len(AlphaA)
NB == Len(AlphaB)
NC == Len(AlphaC)
Keep(k) == IF Thin <= 1 THEN TRUE ELSE k % Thin = 0
Keep10(k) == IF Thin <= 10 THEN TRUE ELSE k % (Thin \div 10) = 0
KeepN(k, n) == k % (Thin * n) = 0

VecDA(C) ==
  \/ C = 0 /\ v' = <<"dec", <<>> >>
  \/ C = 0 /\ LenA >= 1 /\ \E a \in 1..NA : v' = <<"dec", <<AlphaA[a]>> >>
  \/ LenA >= 2 /\ \E a \in InChunk(1..NA, C), b \in 1..NA : v' = <<"dec", <<AlphaA[a], AlphaA[b]>> >>
  \/ LenA >= 3 /\ \E k \in InChunk(0..(NA * NA - 1), C), c \in 1..NA :
        v' = <<"dec", <<AlphaA[(k \div NA) + 1], AlphaA[(k % NA) + 1], AlphaA[c]>> >>
  \/ LenA >= 4 /\ \E k \in InChunk(0..(NA * NA - 1), C), c \in 1..NA, d \in 1..NA :
        v' = <<"dec", <<AlphaA[(k \div NA) + 1], AlphaA[(k % NA) + 1], AlphaA[c], AlphaA[d]>> >>
  \/ LenB >= 4 /\ \E k \in InChunk(0..(NB * NB - 1), C), c \in 1..NB, d \in 1..NB :
        /\ Keep(k + 7 * c + 3 * d)
        /\ v' = <<"dec", <<AlphaB[(k \div NB) + 1], AlphaB[(k % NB) + 1], AlphaB[c], AlphaB[d]>> >>
  \/ LenB >= 5 /\ \E k \in InChunk(0..(NB * NB - 1), C), c \in 1..NB, d \in 1..NB, e \in 1..NB :
        /\ Keep(k + 7 * c + 3 * d + 5 * e)
        /\ v' = <<"dec", <<AlphaB[(k \div NB) + 1], AlphaB[(k % NB) + 1], AlphaB[c], AlphaB[d], AlphaB[e]>> >>
  \/ LenC >= 5 /\ \E k \in InChunk(0..(NC * NC - 1), C), c \in 1..NC, d \in 1..NC, e \in 1..NC :
        /\ Keep(k + 7 * c + 3 * d + 5 * e)
        /\ v' = <<"dec", <<AlphaC[(k \div NC) + 1], AlphaC[(k % NC) + 1], AlphaC[c], AlphaC[d], AlphaC[e]>> >>
  \/ LenC >= 6 /\ \E k \in InChunk(0..(NC * NC - 1), C), c \in 1..NC, d \in 1..NC, e \in 1..NC, f \in 1..NC :
        /\ Keep(k + 7 * c + 3 * d + 5 * e + 11 * f)
        /\ v' = <<"dec", <<AlphaC[(k \div NC) + 1], AlphaC[(k % NC) + 1], AlphaC[c], AlphaC[d], AlphaC[e], AlphaC[f]>> >>

(* --------------------------- grammar products ---------------------------- *)
DegNums == <<<<>>, <<52>>, <<48, 52>>, <<52, 46, 53>>, <<51, 53, 57>>, <<52, 46>>, <<46, 53>>, <<48>>, <<49, 50, 51, 52, 53, 54, 55, 56, 57>> >>
DegInds == <<<<>>, <<100>>, <<58>>, <<68>> >>
MinNums == <<<<>>, <<48>>, <<53, 57>>, <<54, 48>>, <<51, 48, 46, 53>>, <<54, 48, 46, 48>>, <<54, 48, 46, 48, 49>>, <<54, 49>>, <<48, 55>>, <<46, 50, 53>> >>
MinInds == <<<<>>, <<39>>, <<58>> >>
SecNums == <<<<>>, <<57>>, <<53, 57, 46, 57>>, <<54, 48>>, <<54, 48, 46, 48>>, <<48, 48, 46, 48, 48, 48, 48, 49>>, <<55, 53, 46, 48>> >>
SecInds == <<<<>>, <<34>>, <<39, 39>>, <<58>> >>
Pres == <<<<>>, <<45>>, <<78>>, <<83, 45>>, <<43>> >>
Sufs == <<<<>>, <<83>>, <<101>>, <<120>> >>
VecBody(C) ==
  \E a \in InChunk(1..Len(DegNums), C), b \in 1..Len(DegInds), c \in 1..Len(MinNums), d \in 1..Len(MinInds),
     e \in 1..Len(SecNums), f \in 1..Len(SecInds), p \in 1..Len(Pres), s \in 1..Len(Sufs) :
     /\ (p = 1 /\ s = 1 /\ Keep10(a + 3 * b + 5 * c + 7 * d + 11 * e + 13 * f))
        \/ Keep(a + 3 * b + 5 * c + 7 * d + 11 * e + 13 * f + 17 * p + 19 * s)
     /\ v' = <<"dec", Pres[p] \o DegNums[a] \o DegInds[b] \o MinNums[c] \o MinInds[d] \o SecNums[e] \o SecInds[f] \o Sufs[s]>>

\* hemisphere designators and signs around core bodies
HPre == <<<<>>, <<78>>, <<83>>, <<69>>, <<87>>, <<110>>, <<119>>, <<120>>, <<78, 78>>, <<32, 83>> >>
HSign == <<<<>>, <<43>>, <<45>>, <<43, 45>>, <<45, 45>> >>
HBody == <<<<52>>, <<52, 100, 51, 48>>, <<52, 58, 51, 48, 58, 49, 53>>, <<48>>, <<48, 46, 48>>, <<52, 46, 53, 100>>, <<>>,
           <<110, 97, 110>>, <<105, 110, 102>>, <<57, 48>> >>
HSuf == <<<<>>, <<78>>, <<83>>, <<69>>, <<87>>, <<115>>, <<101>>, <<120>>, <<83, 32>>, <<78, 83>> >>
VecHemi(C) ==
  \E p \in InChunk(1..Len(HPre), C), g \in 1..Len(HSign), b \in 1..Len(HBody), s \in 1..Len(HSuf) :
     v' = <<"dec", HPre[p] \o HSign[g] \o HBody[b] \o HSuf[s]>>

\* sums of pieces
P1 == <<<<55, 48, 58, 48, 49, 58, 49, 53>>, <<55, 48, 58, 48, 49, 58, 49, 53, 87>>, <<87, 55, 48, 58, 48, 49, 58, 49, 53>>,
        <<83, 51>>, <<45, 51>>, <<51, 78>>, <<48>>, <<45, 48>>, <<105, 110, 102>>, <<110, 97, 110>>, <<53>>, <<78, 45, 53>> >>
P2 == <<<<>>, <<43, 48, 58, 48, 46, 53>>, <<45, 48, 58, 48, 58, 51, 48, 87>>, <<43, 48, 58, 48, 58, 51, 48, 69>>,
        <<43, 48, 58, 48, 58, 49, 53, 78>>, <<43, 87, 48, 58, 48, 58, 49, 53>>, <<45, 50, 46, 53>>, <<43, 52, 46, 49, 78>>,
        <<43>>, <<45>>, <<43, 45, 49>>, <<45, 48>>, <<43, 48>>, <<45, 105, 110, 102>>, <<43, 105, 110, 102>>, <<45, 53>>,
        <<43, 49, 83>>, <<45, 49, 115>>, <<43, 49, 100, 54, 48>>, <<45, 48, 46, 48, 48, 48, 48, 48, 48, 49>> >>
VecSum(C) ==
  \E a \in InChunk(1..Len(P1), C), b \in 1..Len(P2), c \in 1..Len(P2) :
     /\ c = 1 \/ Keep(a + 3 * b + 7 * c)
     /\ v' = <<"dec", P1[a] \o P2[b] \o P2[c]>>

(* --------------------------- alternative spellings ----------------------- *)
SpaceX == SpaceL \o <<<<32>>, <<9>> >>
\* sequences that look like symbols but are not in the table
NearMiss == <<<<226, 128, 180>>, <<194, 171>>, <<194, 187>>, <<226, 128>>, <<226>>, <<194>>, <<203, 155>>, <<202, 187>>,
              <<145>>, <<146>>, <<147>>, <<148>>, <<150>>, <<151>>, <<226, 128, 146>>, <<226, 128, 136>>, <<239, 187, 191>>, <<195, 151>> >>
N4 == <<52>>
N30 == <<51, 48>>
N9 == <<57>>
Spell(kind, q) ==
  CASE kind = 0 -> N4 \o q \o N30                                   \* 4 <deg> 30
    [] kind = 1 -> N4 \o q                                          \* 4 <sym>
    [] kind = 2 -> N4 \o <<100>> \o N30 \o q                        \* 4d30 <sym>
    [] kind = 3 -> N4 \o <<100>> \o N30 \o <<39>> \o N9 \o q        \* 4d30'9 <sym>
    [] kind = 4 -> N4 \o <<100>> \o N9 \o q \o q                    \* 4d9 <sym><sym>
    [] kind = 5 -> q \o N4                                          \* <sym> 4
    [] kind = 6 -> N4 \o q \o N9                                    \* 4 <sym> 9
    [] kind = 7 -> <<78>> \o q \o N4 \o <<58>> \o N30               \* N <sym> 4:30
    [] kind = 8 -> N4 \o <<58>> \o N30 \o q \o <<83>>               \* 4:30 <sym> S
    [] kind = 9 -> N4 \o <<100>> \o N9 \o q \o <<32>> \o q          \* 4d9 <sym> space <sym>
VecUni(C) ==
  \/ \E k \in InChunk(0..9, C), i \in 1..Len(DegL) : v' = <<"dec", Spell(k, DegL[i])>>
  \/ \E k \in InChunk(0..9, C), i \in 1..Len(MinL) : v' = <<"dec", Spell(k, MinL[i])>>
  \/ \E k \in InChunk(0..9, C), i \in 1..Len(SecL) : v' = <<"dec", Spell(k, SecL[i])>>
  \/ \E k \in InChunk(0..9, C), i \in 1..Len(PlusL) : v' = <<"dec", Spell(k, PlusL[i])>>
  \/ \E k \in InChunk(0..9, C), i \in 1..Len(MinusL) : v' = <<"dec", Spell(k, MinusL[i])>>
  \/ \E k \in InChunk(0..9, C), i \in 1..Len(SpaceX) : v' = <<"dec", Spell(k, SpaceX[i])>>
  \/ \E k \in InChunk(0..9, C), i \in 1..Len(NearMiss) : v' = <<"dec", Spell(k, NearMiss[i])>>
  \* any two consecutive symbols for minutes are a seconds symbol
  \/ \E i \in InChunk(1..Len(MinL), C), j \in 1..Len(MinL) : v' = <<"dec", N4 \o <<100>> \o N9 \o MinL[i] \o MinL[j]>>
  \/ \E i \in InChunk(1..Len(MinL), C), j \in 1..Len(MinL), k \in 1..Len(SpaceX) :
        /\ Keep(i + j + k) /\ v' = <<"dec", N4 \o <<100>> \o N9 \o MinL[i] \o SpaceX[k] \o MinL[j]>>
  \/ \E i \in InChunk(1..Len(MinL), C), j \in 1..Len(SecL) : v' = <<"dec", N4 \o <<100>> \o N30 \o MinL[i] \o N9 \o SecL[j]>>
  \* a removable space at every position of a full string, once and twice
  \/ \E k \in InChunk(1..Len(SpaceX), C), pos \in 0..9, twice \in B2 :
        LET base == <<83, 52, 100, 51, 48, 39, 57, 46, 53>>         \* S4d30'9.5
            q == IF twice THEN SpaceX[k] \o SpaceX[k] ELSE SpaceX[k]
        IN v' = <<"dec", SubSeq(base, 1, pos) \o q \o SubSeq(base, pos + 1, 9)>>
  \* the same symbol repeated with every degree / minus symbol in a sum
  \/ \E i \in InChunk(1..Len(MinusL), C), j \in 1..Len(DegL) : v' = <<"dec", MinusL[i] \o N4 \o DegL[j] \o N30 \o MinusL[i] \o N9 \o DegL[j]>>

(* ------------------------- LatLon / Angle / Azimuth ---------------------- *)
Toks == <<<<49, 48>>, <<78, 49, 48>>, <<49, 48, 83>>, <<69, 49, 48>>, <<49, 48, 87>>, <<57, 49>>, <<57, 48>>,
          <<57, 48, 46, 48, 48, 48, 48, 48, 48, 49>>, <<78, 57, 49>>, <<45, 57, 48>>, <<49, 48, 48>>, <<110, 97, 110>>,
          <<105, 110, 102>>, <<120>>, <<>>, <<49, 48, 78, 43, 49>>, <<49, 56, 48>>, <<45, 49, 56, 48>>, <<49, 56, 49>>,
          <<53, 52, 48>>, <<51, 54, 48>>, <<45, 49, 56, 49>>, <<49, 56, 48, 87>>, <<50, 55, 48, 69>>, <<45, 48>>,
          <<56, 57, 58, 53, 57, 58, 54, 48, 46, 48>>, <<57, 48, 58, 48, 58, 48, 46, 48, 49>>, <<45, 105, 110, 102>>,
          <<49, 55, 57, 58, 53, 57, 58, 53, 57, 46, 57, 57, 57, 57, 57>>, <<55, 50, 48, 46, 53>>, <<49, 48, 101>>, <<119, 57, 49>> >>
VecLL(C) ==
  \/ \E a \in InChunk(1..Len(Toks), C), b \in 1..Len(Toks), w \in B2 : v' = <<"ll", Toks[a], Toks[b], w>>
  \/ \E a \in InChunk(1..Len(Toks), C) : v' = <<"ang", Toks[a]>>
  \/ \E a \in InChunk(1..Len(Toks), C) : v' = <<"azi", Toks[a]>>

(* ------------------------------ encoder ---------------------------------- *)
EDeg == {0, 1, 8, 9, 10, 89, 90, 99, 100, 179, 180, 181, 359, 360, 361, 539, 540, 719, 720, 1000}
\* whole trailing units (minutes / minutes*60+seconds) and fractions, per trailing component and precision
EWhole(t) == CASE t = DEGREE -> {0} [] t = MINUTE -> {0, 1, 9, 10, 30, 59} [] t = SECOND -> {0, 1, 59, 60, 61, 600, 1800, 3540, 3599}
EFrac(prec) == IF prec = 0 THEN {0} ELSE {0, 1, Pow10(prec) \div 2, Pow10(prec) - 1}
VecEnc(C) ==
  \/ \E D \in InChunk(EDeg, C), t \in 0..2, prec \in 0..4, neg \in B2, ind \in 0..3, sep \in {0, 58}, d \in -1..1 :
       \E w \in EWhole(t), f \in EFrac(prec) :
         LET n == w * Pow10(prec) + f IN
         /\ ~(D = 0 /\ n = 0 /\ d < 0)
         /\ (d = 0 /\ sep = 0) \/ (n = 0 /\ sep = 0) \/ Keep(D + w + f + 3 * t + prec + ind)       \* n = 0, d = -1: carry 59.99.. -> 60
         /\ v' = <<"enc", neg, D, n, d, t, prec, ind, sep>>
  \* half units: either neighbour
  \/ \E D \in InChunk({0, 9, 59, 89, 179, 359}, C), t \in 0..2, prec \in 0..3, neg \in B2, ind \in 0..3 :
       \E w \in EWhole(t), f \in {0, Pow10(prec) - 1} :
         /\ Keep(D + w + f + t + prec + ind)
         /\ v' = <<"ench", neg, D, w * Pow10(prec) + f, t, prec, ind, 0>>
  \* large precisions: clamp (digits after the point)
  \/ \E D \in InChunk({0, 45, 359}, C), t \in 0..2, prec \in {5, 9, 10, 11, 12, 13, 14, 15, 16, 17, 20, 100}, ind \in 0..3 :
         v' = <<"encp", D, t, prec, ind>>

(* ------------------------------ numbers ----------------------------------- *)
NumToks == <<<<53>>, <<48>>, <<45, 48>>, <<43, 53>>, <<45, 53, 46, 50, 53>>, <<46, 53>>, <<53, 46>>, <<46>>, <<>>, <<45>>, <<43, 45, 53>>,
             <<49, 101, 53>>, <<49, 69, 45, 53>>, <<49, 101>>, <<49, 101, 43>>, <<49, 46, 53, 101, 43, 50>>, <<46, 101, 51>>, <<49, 46, 101, 51>>,
             <<48, 120, 49, 48>>, <<49, 44, 53>>, <<49, 32, 50>>, <<49, 50, 51, 52, 53, 54, 55, 56, 57>>, <<48, 48, 55>>,
             <<49, 50, 51, 52, 53, 54, 55, 56, 57, 48, 49, 50>>, <<48, 46, 48, 48, 48, 48, 48, 48, 48, 48, 48, 49>>,
             <<110, 97, 110>>, <<78, 65, 78>>, <<78, 97, 78>>, <<105, 110, 102>>, <<45, 105, 110, 102>>, <<43, 105, 110, 102>>,
             <<73, 78, 70, 73, 78, 73, 84, 89>>, <<45, 105, 110, 102, 105, 110, 105, 116, 121>>, <<105, 110, 102, 105>>,
             <<110, 97, 110, 48>>, <<105, 110, 102, 48, 48>>, <<49, 46, 35, 73, 78, 70>>, <<45, 49, 46, 35, 73, 78, 70, 48, 48>>,
             <<49, 46, 35, 81, 78, 65, 78>>, <<49, 46, 35, 73, 78, 68>>, <<49, 46, 35, 82>>, <<110, 97>>, <<105, 110>>, <<110, 97, 110, 120>>,
             <<120, 110, 97, 110>>, <<53, 100>>, <<53, 58, 51, 48>>, <<49, 47, 50>>, <<45, 110, 97, 110>>, <<51, 55, 46, 53, 101, 45, 49>>,
             <<57, 57, 57, 57, 57, 57, 57, 57, 57>>, <<53, 0>>, <<0>>, <<53, 0, 53>> >>
WS == <<<<>>, <<32>>, <<9, 32>>, <<10>>, <<13>>, <<11, 12>>, <<160>>, <<0>> >>
FrToks == <<<<51, 47, 52>>, <<47, 52>>, <<51, 47>>, <<51, 47, 52, 47, 53>>, <<32, 51, 32, 47, 32, 52, 32>>, <<45, 49, 47, 51, 48, 48>>,
            <<45, 49, 46, 48, 47, 51, 48, 48>>, <<49, 47, 48>>, <<48, 47, 48>>, <<49, 47, 50, 57, 56, 46, 50, 53, 55, 50, 50, 51, 53, 54, 51>>,
            <<49, 47, 120>>, <<120, 47, 49>>, <<47>>, <<49, 101, 50, 47, 52>>, <<105, 110, 102, 47, 50>>, <<49, 47, 105, 110, 102>>, <<53>>, <<>> >>
SInt == {0, 1, 9, 10, 99, 100, 999, 123456, 999999999}
PLAlpha == <<97, 61, 35, 32, 98, 9>>
WSB == {9, 10, 11, 12, 13, 32}                    \* the white-space bytes
NPL == Len(PLAlpha)
\* val<bool>: the documented words, in three spellings of case, and near misses
BoolWords == <<<<102, 97, 108, 115, 101>>, <<102>>, <<110, 105, 108>>, <<110, 111>>, <<110>>, <<111, 102, 102>>, <<>>,
               <<116, 114, 117, 101>>, <<116>>, <<121, 101, 115>>, <<121>>, <<111, 110>> >>
BoolMiss == <<<<48>>, <<49>>, <<50>>, <<48, 48>>, <<48, 49>>, <<43, 49>>, <<45, 48>>, <<45, 49>>, <<49, 48>>, <<49, 46, 48>>, <<48, 46, 48>>, <<49, 101, 48>>,
              <<121, 101>>, <<111, 102>>, <<110, 111, 108>>, <<116, 114, 117>>, <<111, 110, 110>>, <<120>>, <<49, 120>>, <<116, 114, 32, 117, 101>>,
              <<110, 105, 108, 108>>, <<102, 97, 108, 115>>, <<121, 101, 115, 115>>, <<111, 110, 111>>, <<110, 97, 110>>, <<116, 0>>, <<57, 57, 57, 57, 57, 57, 57, 57, 57, 57, 57>> >>
CaseOf(k, w) == CASE k = 0 -> w [] k = 1 -> UpperS(w) [] OTHER -> IF w = <<>> THEN w ELSE <<Upper(w[1])>> \o Tail(w)
IntToks == <<<<53>>, <<48>>, <<45, 53>>, <<43, 53>>, <<48, 48, 55>>, <<>>, <<45>>, <<43>>, <<53, 46>>, <<53, 46, 48>>, <<49, 101, 53>>, <<48, 120, 49, 48>>,
             <<110, 97, 110>>, <<105, 110, 102>>, <<45, 105, 110, 102>>, <<49, 50, 32, 51>>, <<57, 57, 57, 57, 57, 57, 57, 57, 57>>, <<120>>, <<53, 120>>, <<45, 48>>,
             <<50, 49, 52, 55, 52, 56, 51, 54, 52, 55>>, <<57, 57, 57, 57, 57, 57, 57, 57, 57, 57, 57>>, <<43, 45, 53>>, <<52, 50>>, <<45, 49, 50, 51, 52, 53>> >>
WSPair(l, r) == l = 1 \/ r = 1 \/ l = r
\* numeric overloads of DMS: whole degrees, whole minutes, hundredths of a second
NumD == {0, 1, 4, 20, 89, 179, 359, 1000}
NumM == {0, 1, 30, 59, 60, 75}
NumS == {0, 1, 4050, 5999, 6000, 7500}
VecOvl(C) ==
  \/ \E a \in InChunk(1..Len(BoolWords), C), k \in 0..2, l \in 1..Len(WS), r \in 1..Len(WS) :
       /\ WSPair(l, r) /\ (k = 0 \/ Len(BoolWords[a]) > 0)
       /\ v' = <<"vb", WS[l] \o CaseOf(k, BoolWords[a]) \o WS[r]>>
  \/ \E a \in InChunk(1..Len(BoolMiss), C), l \in {1, 2}, r \in {1, 4} : v' = <<"vb", WS[l] \o BoolMiss[a] \o WS[r]>>
  \/ \E a \in InChunk(1..Len(IntToks), C), l \in 1..Len(WS), r \in 1..Len(WS) :
       /\ WSPair(l, r) /\ v' = <<"vi", WS[l] \o IntToks[a] \o WS[r]>>
  \/ \E k \in InChunk(0..35, C), a \in 1..Len(WS), b \in 1..Len(WS) :
       /\ WSPair(a, b)
       /\ v' = <<"vs", WS[a] \o (IF k < 6 THEN <<>> ELSE <<PLAlpha[(k \div 6)], PLAlpha[(k % 6) + 1], 32, 97>>) \o WS[b]>>
  \/ \E D \in InChunk(NumD, C), nargs \in 1..3, dneg \in B2, mneg \in B2, sneg \in B2, M \in NumM, S \in NumS :
       /\ (nargs < 3 => S = 0 /\ ~sneg) /\ (nargs < 2 => M = 0 /\ ~mneg)
       /\ D <= 4 \/ (mneg = dneg /\ sneg = dneg)
       /\ nargs < 3 \/ Keep(D + M + S + (IF dneg THEN 1 ELSE 0) + (IF mneg THEN 2 ELSE 0))
       /\ v' = <<"dn", nargs, dneg, D, mneg, M, sneg, S>>
  \/ \E D \in InChunk(NumD, C), form \in {2, 3}, neg \in B2, M \in {0, 1, 30, 59}, S \in {0, 1, 4050, 5999} :
       /\ Keep(D + M + S + form) \/ S = 0
       /\ v' = <<"sp", form, neg, D, M, S>>

VecNum(C) ==
  \/ VecOvl(C)
  \/ \E a \in InChunk(1..Len(NumToks), C), l \in 1..Len(WS), r \in 1..Len(WS) :
       LET s == WS[l] \o NumToks[a] \o WS[r]  x == Val(s) IN
       v' = <<"val", s, IF x[1] = "num" THEN <<1, IF x[2] THEN 1 ELSE 0, x[3], x[4]>> ELSE <<0, 0, 0, 0>> >>
  \/ \E a \in InChunk(1..Len(NumToks), C) : v' = <<"nm", NumToks[a]>>
  \/ \E a \in InChunk(1..Len(FrToks), C) :
       LET x == Fract(FrToks[a])
           E(y) == IF y[1] = "num" THEN <<IF y[2] THEN 1 ELSE 0, y[3], y[4]>> ELSE <<0, 0, 0>>
       IN v' = <<"fr", FrToks[a], IF x[1] = "div" THEN <<2>> \o E(x[2]) \o E(x[3]) ELSE IF x[1] = "num" THEN <<1>> \o E(x) \o <<0, 1, 0>> ELSE <<0, 0, 0, 0, 0, 0, 0>> >>
  \/ \E I \in InChunk(SInt, C), p \in 0..6, neg \in B2, d \in -1..1 : \E F \in {0, 1, Pow10(p) \div 2, Pow10(p) - 1} :
       /\ F < Pow10(p) /\ ~(I = 0 /\ F = 0 /\ d < 0) /\ (I < 1000000 \/ p <= 3)
       /\ v' = <<"str", neg, I, F, p, d>>
  \/ \E k \in InChunk(0..(NPL * NPL - 1), C), c \in 1..NPL, d \in 1..NPL, e \in 0..NPL, eq \in {0, 61}, cm \in {0, 35} :
       /\ Keep(k + c + 3 * d + 5 * e)
       /\ v' = <<"pl", <<PLAlpha[(k \div NPL) + 1], PLAlpha[(k % NPL) + 1], PLAlpha[c], PLAlpha[d]>> \o (IF e = 0 THEN <<>> ELSE <<PLAlpha[e]>>), eq, cm>>
  \* "the first white space" separates key and value: every white-space byte, alone and doubled, also around the line,
  \* around an explicit delimiter and in front of a comment
  \/ \E w \in InChunk(WSB, C), w2 \in WSB \cup {0}, form \in 0..4, eq \in {0, 61}, cm \in {0, 35} :
       LET W == IF w2 = 0 THEN <<w>> ELSE <<w, w2>>
           line == CASE form = 0 -> <<97>> \o W \o <<98>>
                     [] form = 1 -> W \o <<97>> \o W \o <<98, 32, 99>> \o W
                     [] form = 2 -> <<97>> \o W \o <<61>> \o W \o <<98>>
                     [] form = 3 -> <<97, 98>> \o W \o <<35>> \o W \o <<99>>
                     [] OTHER -> <<97>> \o W
       IN /\ (w2 = 0 \/ w2 = w \/ form <= 1)
          /\ v' = <<"pl", line, eq, cm>>
  \/ \E c \in InChunk(0..255, C), t \in {<<83, 78, 87, 69>>, <<45, 43>>, <<68, 39, 34, 58>>, <<48, 49, 50, 51, 52, 53, 54, 55, 56, 57>>} :
       v' = <<"lk", t, c>>
  \/ \E k \in InChunk(0..35, C), a \in 1..Len(WS), b \in 1..Len(WS) :
       v' = <<"trim", WS[a] \o (IF k < 6 THEN <<>> ELSE <<PLAlpha[(k \div 6)], PLAlpha[(k % 6) + 1], 32, 97>>) \o WS[b]>>

(* ------------------------------ GeoCoords --------------------------------- *)
LLT == <<<<49, 48>>, <<50, 48, 48>>, <<45, 49, 57, 48>>, <<53, 52, 48>>, <<78, 49, 48>>, <<49, 48, 83>>, <<69, 49, 48>>, <<49, 48, 87>>,
         <<57, 49>>, <<57, 48>>, <<51, 51, 100, 49, 56, 39, 78>>, <<52, 52, 100, 50, 52>>, <<51, 51, 58, 49, 56>>, <<43, 52, 52, 58, 50, 52>>,
         <<110, 97, 110>>, <<120>>, <<48>>, <<45, 48>>, <<49, 56, 48>>, <<45, 49, 56, 48>>, <<49, 56, 49>>, <<51, 53, 57, 46, 53>>,
         <<87, 49, 57, 48>>, <<52, 48, 58, 51, 48, 43, 48, 58, 48, 58, 51, 48>>, <<45, 49, 56, 48, 46, 53>>, <<55, 50, 48>>, <<49, 58, 50, 100, 51>> >>
ZT == <<<<51, 49, 110>>, <<51, 49, 115>>, <<110>>, <<115>>, <<51, 49, 110, 111, 114, 116, 104>>, <<115, 111, 117, 116, 104>>, <<48, 49, 78>>,
        <<54, 48, 115>>, <<54, 49, 110>>, <<48, 110>>, <<51, 49, 120>>, <<51, 49>>, <<105, 110, 118>>, <<51, 49, 78>> >>
ET == <<<<53, 48, 48, 48, 48, 48>>, <<53, 48, 48, 48, 48, 48, 46, 53>>, <<48>>, <<49, 48, 48, 48, 48, 48, 48>>, <<49, 48, 48, 48, 48, 48, 48, 46, 53>>,
        <<45, 49>>, <<53, 101, 53>>, <<50, 48, 48, 48, 48, 48, 48>>, <<110, 97, 110>>, <<120>>, <<49, 50, 48, 48, 48, 48, 48>>, <<54, 57, 57, 57, 57, 57, 46, 53>> >>
NT_ == <<<<48>>, <<49, 48, 48, 48, 48, 48, 48>>, <<45, 49, 48, 48>>, <<45, 57, 49, 48, 48, 48, 48, 48>>, <<45, 57, 49, 48, 48, 48, 48, 48, 46, 53>>,
         <<57, 54, 48, 48, 48, 48, 48>>, <<49, 48, 48, 48, 48, 49, 48, 48>>, <<49, 57, 54, 48, 48, 48, 48, 48>>, <<57, 48, 48, 48, 48, 48>>,
         <<56, 57, 57, 57, 57, 57, 46, 53>>, <<50, 48, 48, 48, 48, 48, 48>>, <<120>>, <<49, 101, 54>>, <<49, 48, 48, 48, 48, 48, 48, 48>>, <<45, 48, 46, 53>> >>
Seps == <<<<32>>, <<44>>, <<44, 32>>, <<9>>, <<32, 32>> >>
OneTok == <<<<51, 56, 83, 77, 66>>, <<51, 56, 115, 109, 98>>, <<51, 56, 83, 77, 66, 52, 52, 56, 52>>, <<51, 56, 83, 77, 66, 52, 52, 49, 52, 56, 52, 55, 48>>,
            <<73, 78, 86>>, <<105, 110, 118, 97, 108, 105, 100>>, <<>>, <<32, 44, 32>>, <<49, 32, 50, 32, 51, 32, 52>>, <<49, 44, 50, 44, 51, 44, 52, 44, 53>>,
            <<35>>, <<45, 51, 56, 83, 77, 66>>, <<32, 51, 56, 83, 77, 66, 44>> >>
\* the last element is the spec's class of the line (used to realise good/bad line patterns for the tools)
GCV(s, c, w) == <<"gc", s, c, w, Reset(s, c, w)[1]>>
VecGC(C) ==
  \/ \E a \in InChunk(1..Len(LLT), C), b \in 1..Len(LLT), w \in B2, p \in 1..Len(Seps) :
       /\ p = 1 \/ Keep(a + b + p)
       /\ v' = GCV(LLT[a] \o Seps[p] \o LLT[b], TRUE, w)
  \/ \E z \in InChunk(1..Len(ZT), C), e \in 1..Len(ET), n \in 1..Len(NT_), zf \in B2, p \in 1..Len(Seps) :
       /\ Keep(z + e + n + p)
       /\ v' = GCV(IF zf THEN ZT[z] \o Seps[p] \o ET[e] \o <<32>> \o NT_[n] ELSE ET[e] \o <<32>> \o NT_[n] \o Seps[p] \o ZT[z], TRUE, FALSE)
  \/ \E a \in InChunk(1..Len(OneTok), C), c \in B2 : v' = GCV(OneTok[a], c, FALSE)
  \* "space (or comma) separated pieces": every white-space byte and the comma, alone, doubled and around the string
  \/ \E q \in InChunk(WSB \cup {44}, C), q2 \in WSB \cup {44, 0}, form \in 0..3, w \in B2 :
       LET Q == IF q2 = 0 THEN <<q>> ELSE <<q, q2>>
           str == CASE form = 0 -> LLT[1] \o Q \o LLT[11]                                    \* 10 <sep> 33d18'N
                    [] form = 1 -> Q \o LLT[7] \o Q \o LLT[2] \o Q                          \* <sep> E10 <sep> 200 <sep>
                    [] form = 2 -> ZT[1] \o Q \o ET[1] \o Q \o NT_[2]                       \* 31n <sep> 500000 <sep> 1000000
                    [] OTHER -> ET[2] \o Q \o NT_[1] \o Q \o ZT[2] \o Q                      \* 500000.5 <sep> 0 <sep> 31s <sep>
       IN /\ (q2 = 0 \/ form <= 1 \/ q2 = 44)
          /\ (~w \/ form <= 1)
          /\ v' = GCV(str, TRUE, w)

USMetres(zone, northp) ==
  IF zone = 0 THEN {<<x, y>> : x \in {1200000, 2000000, 2700000}, y \in {1200000, 2000000, 2700000}}
  ELSE {<<x, y>> : x \in {0, 500000, 900000}, y \in (IF northp THEN {0, 100000, 4000000} ELSE {1000000, 4000000, 9900000})}
CountOf(m, prec) == IF prec > 0 THEN m * Pow10(prec) ELSE m \div Pow10(-prec)
\* the calls that GeoCoords.hpp declares equivalent (constructor / Reset, trailing arguments defaulted): via 0..5
LLB == <<1, 5, 7, 11, 2>>
VecGCV(C) ==
  \/ \E a \in InChunk(1..Len(OneTok), C), c \in B2, w \in B2, via \in 1..5 :
       /\ ViaOK(via, c, w) /\ v' = <<"gcv", OneTok[a], c, w, via>>
  \/ \E a \in InChunk(1..Len(LLT), C), b \in 1..Len(LLB), c \in B2, w \in B2, via \in 1..5, sw \in B2 :
       /\ ViaOK(via, c, w)
       /\ Keep(a + b + via) \/ (a <= 2 /\ b = 1)
       /\ v' = <<"gcv", IF sw THEN LLT[LLB[b]] \o <<32>> \o LLT[a] ELSE LLT[a] \o <<32>> \o LLT[LLB[b]], c, w, via>>
  \/ \E z \in InChunk(1..4, C), zf \in B2, c \in B2, w \in B2, via \in 1..5 :
       /\ ViaOK(via, c, w)
       /\ v' = <<"gcv", IF zf THEN ZT[z] \o <<32>> \o ET[1] \o <<32>> \o NT_[2] ELSE ET[1] \o <<32>> \o NT_[2] \o <<32>> \o ZT[z], c, w, via>>

\* UTM strings with hemisphere override (np2), by UTMUPSRepresentation (alt = FALSE) or AltUTMUPSRepresentation
VecUSO(C) ==
  \E k \in InChunk(0..27, C), northp \in B2, np2 \in B2, alt \in B2 :
    LET prec == (k % 7) - 5  qe == (k \div 7) % 4  abbrev == (k + (IF alt THEN 1 ELSE 0)) % 2 = 0 IN
    \/ \E xy \in USMetres(31, northp), qn \in 0..3 :
         /\ prec <= 0 \/ (qe # 2 /\ qn # 2 /\ xy[2] <= 4000000)
         /\ IF np2 = northp THEN KeepN(k + qn, 4) ELSE Keep(k + qn + xy[1] \div 100000)
         /\ v' = <<"uso", 31, northp, 4 * CountOf(xy[1], prec) + qe, 4 * CountOf(xy[2], prec) + qn, prec, abbrev, np2, alt>>
    \* UPS: the override can only repeat the hemisphere
    \/ /\ np2 = northp /\ prec <= 0 /\ qe = 1
       /\ \E xy \in USMetres(0, northp) : v' = <<"uso", 0, northp, 4 * CountOf(xy[1], prec) + qe, 4 * CountOf(xy[2], prec), prec, abbrev, np2, alt>>

\* the undefined position: how it is made (0 default constructor, 1 NaN latitude and longitude) x representation x precision
VecGN(C) == \E rep \in InChunk(0..7, C), how \in 0..1, prec \in {0, 3, -2} : v' = <<"gn", how, rep, prec>>

\* GeoConvert lines under -z zone (class for the tool stage; not replayed by the driver)
ZLat == <<<<48>>, <<49, 48>>, <<78, 52, 53, 58, 51, 48>>, <<45, 51, 51, 46, 51>>, <<55, 57, 46, 53>>, <<56, 48>>, <<45, 55, 57>>, <<50, 48, 83>>, <<57, 49>> >>
ZLon == <<<<57>>, <<49, 48>>, <<49, 50, 58, 51, 48>>, <<54>>, <<53, 46, 53>>, <<49, 51, 46, 53>>, <<51>>, <<48>>, <<49, 100, 51, 48, 39>>, <<49, 87>>, <<50, 48>>,
          <<45, 49, 55, 48>>, <<69, 55>>, <<120>> >>
GCZCfg(z) == [tool |-> "GeoConvert", mode |-> "u", prec |-> 0, w |-> FALSE, c |-> TRUE, cd |-> 0, z |-> z, zn |-> "", l |-> FALSE]
VecGCZ(C) ==
  \E a \in InChunk(1..Len(ZLat), C), b \in 1..Len(ZLon), z \in {31, 32} :
     LET s == ZLat[a] \o <<32>> \o ZLon[b] IN v' = <<"gcz", s, z, GCLine(GCZCfg(z), s)>>

\* GeodSolve input lines with the spec's class (for the tool stage; not replayed by the driver)
GLat == <<<<49, 48>>, <<78, 49, 48>>, <<51, 51, 100, 49, 56, 39, 78>>, <<57, 49>>, <<120>>, <<45, 52, 53, 46, 53>>, <<56, 57, 46, 53>>, <<49, 48, 58, 51, 48>> >>
GLon == <<<<50, 48>>, <<69, 50, 48>>, <<50, 48, 48>>, <<50, 48, 87>>, <<120>>, <<49, 56, 48>>, <<45, 49, 55, 57, 46, 55, 53>> >>
GAzi == <<<<48>>, <<57, 48>>, <<45, 57, 48>>, <<50, 55, 48>>, <<52, 53, 46, 50, 53>>, <<78, 49, 48>>, <<49, 48, 69>>, <<120>>, <<49, 56, 48>>, <<45, 49, 56, 48>>, <<51, 54, 49>>, <<49, 48, 58, 51, 48>> >>
GDist == <<<<48>>, <<48, 46, 48>>, <<49, 48, 48, 48>>, <<49, 101, 54>>, <<120>>, <<110, 97, 110>>, <<45, 48>>, <<49, 47, 50>>, <<49, 48, 100>> >>
GSCfg(mode, w, arc) == [tool |-> "GeodSolve", mode |-> mode, prec |-> 2, w |-> w, dms |-> 0, cd |-> 0, arc |-> arc, full |-> FALSE,
                        lat1 |-> <<49, 48>>, lon1 |-> <<50, 48>>, azi1 |-> <<51, 48>>]
GSV(line, mode, w, arc) == <<"gs", line, mode, w, arc, GSLine(GSCfg(mode, w, arc), line)>>
GArc == <<<<48>>, <<48, 46, 48>>, <<49, 100, 51, 48, 39>>, <<49, 58, 51, 48>>, <<57, 48>>, <<49, 101, 50>>, <<120>>, <<110, 97, 110>>, <<45, 48>>, <<49, 47, 50>>, <<49, 48, 100>>,
          <<49, 48, 78>>, <<49, 48, 69>>, <<49, 48, 48, 48>>, <<48, 58, 48>>, <<48, 100, 48, 39, 48, 34>> >>
VecGS(C) ==
  \/ \E a \in InChunk(1..Len(GLat), C), b \in 1..Len(GLon), c \in 1..Len(GAzi), d \in 1..Len(GDist), w \in B2 :
       /\ (~w /\ (Keep(a + b + c + d) \/ (b = 1 /\ d = 1) \/ (a = 1 /\ c = 1))) \/ (w /\ (KeepN(a + b + c + d, 3) \/ (a <= 4 /\ b = 1 /\ c = 1 /\ d <= 3)))
       /\ v' = GSV((IF w THEN GLon[b] \o <<32>> \o GLat[a] ELSE GLat[a] \o <<32>> \o GLon[b]) \o <<32>> \o GAzi[c] \o <<32>> \o GDist[d], "dir", w, FALSE)
  \/ \E a \in InChunk(1..Len(GLat), C), b \in 1..Len(GLon), c \in 1..Len(GAzi), d \in 1..Len(GArc) :
       /\ KeepN(a + b + c + d, 2) \/ (a <= 3 /\ b <= 2 /\ c = 1)
       /\ v' = GSV(GLat[a] \o <<32>> \o GLon[b] \o <<32>> \o GAzi[c] \o <<32>> \o GArc[d], "dir", FALSE, TRUE)
  \/ \E a \in InChunk(1..Len(GLat), C), b \in 1..Len(GLon), c \in 1..Len(GLat), d \in 1..Len(GLon), w \in B2 :
       /\ (~w /\ (Keep(a + b + c + d) \/ (a = c /\ b = d))) \/ (w /\ (KeepN(a + b + c + d, 3) \/ (a = c /\ b = d /\ a <= 4)))
       /\ v' = GSV(IF w THEN GLon[b] \o <<32>> \o GLat[a] \o <<9>> \o GLon[d] \o <<32, 32>> \o GLat[c]
                         ELSE GLat[a] \o <<32>> \o GLon[b] \o <<9>> \o GLat[c] \o <<32, 32>> \o GLon[d], "inv", w, FALSE)
  \/ \E m \in {"dir", "inv"}, k \in InChunk(0..5, C), w \in B2, arc \in B2 :
       /\ ~(arc /\ (w \/ m = "inv"))
       /\ v' = GSV(CASE k = 0 -> <<>> [] k = 1 -> <<49, 48, 32, 50, 48, 32, 51, 48>> [] k = 2 -> <<49, 48, 32, 50, 48, 32, 51, 48, 32, 48, 32, 53>>
                         [] k = 3 -> <<32>> [] k = 4 -> <<49, 48, 44, 50, 48, 44, 51, 48, 44, 48>> [] OTHER -> <<49, 48>>, m, w, arc)
  \* line mode (-L lat1 lon1 azi1): one distance (or arc length) per line
  \/ \E d \in InChunk(1..Len(GDist), C), pad \in 1..3 :
       v' = GSV((IF pad = 2 THEN <<32>> ELSE <<>>) \o GDist[d] \o (IF pad = 3 THEN <<9>> ELSE <<>>), "line", FALSE, FALSE)
  \/ \E d \in InChunk(1..Len(GArc), C), pad \in 1..3 :
       v' = GSV((IF pad = 2 THEN <<32>> ELSE <<>>) \o GArc[d] \o (IF pad = 3 THEN <<9>> ELSE <<>>), "line", FALSE, TRUE)
  \* one item too many (every distance / arc length token followed by another one)
  \/ \E d \in InChunk(1..Len(GDist), C), e \in {1, 3} : v' = GSV(GDist[d] \o <<32>> \o GDist[e], "line", FALSE, FALSE)
  \/ \E d \in InChunk(1..Len(GArc), C), e \in {1, 3} : v' = GSV(GArc[d] \o <<9>> \o GArc[e], "line", FALSE, TRUE)
  \/ \E k \in InChunk(0..4, C), arc \in B2 :
       v' = GSV(CASE k = 0 -> <<>> [] k = 1 -> <<49, 48, 48, 48, 32, 53>> [] k = 2 -> <<32>> [] k = 3 -> <<49, 48, 32, 50, 48, 32, 51, 48, 32, 48>> [] OTHER -> <<48, 44, 48>>, "line", FALSE, arc)

VecUS(C) ==
  \E k \in InChunk(0..35, C), zone \in {0, 31}, northp \in B2, abbrev \in B2 :
    LET prec == (k % 9) - 5  qe == (k \div 9) % 4 IN
    \/ \E xy \in USMetres(zone, northp), qn \in 0..3 :
         /\ prec <= 0 \/ (qe # 2 /\ qn # 2 /\ (prec <= 2 /\ xy[2] <= 4000000))
         /\ v' = <<"us", zone, northp, 4 * CountOf(xy[1], prec) + qe, 4 * CountOf(xy[2], prec) + qn, prec, abbrev>>
    \* northern northings of a few units (the number 0.5 .. 1 units must print as one unit)
    \/ /\ zone = 31 /\ northp /\ prec <= 0
       /\ \E cn \in {0, 1, 2, 9}, qn \in 0..3 : v' = <<"us", zone, northp, 4 * CountOf(500000, prec) + qe, 4 * cn + qn, prec, abbrev>>

Init == v = <<"root">>
Next ==
  \/ v = <<"root">> /\ \E c \in 0..(NChunks - 1) : v' = <<"chunk", c>>
  \/ /\ v[1] = "chunk"
     /\ CASE Part = "da" -> VecDA(v[2])
          [] Part = "db" -> VecBody(v[2]) \/ VecHemi(v[2]) \/ VecSum(v[2])
          [] Part = "uni" -> VecUni(v[2]) \/ VecLL(v[2])
          [] Part = "enc" -> VecEnc(v[2])
          [] Part = "num" -> VecNum(v[2])
          [] Part = "gc" -> VecGC(v[2]) \/ VecUS(v[2]) \/ VecGS(v[2]) \/ VecGCV(v[2]) \/ VecUSO(v[2]) \/ VecGCZ(v[2]) \/ VecGN(v[2])

(* ------------------------------ model invariants ------------------------- *)
WellFormed(r) ==
  \/ r = <<"throw">>
  \/ r[1] = "sp" /\ r[2] \in {"nan", "inf", "-inf"} /\ r[3] \in {NONE, LATITUDE, LONGITUDE}
  \/ r[1] = "fin" /\ r[3] >= 0 /\ r[4] >= 0 /\ r[4] < U /\ r[7] \in {NONE, LATITUDE, LONGITUDE}
HasHemi(s) == \E i \in 1..Len(s) : Hemi(s[i]) # 0
DecInv ==
  v[1] = "dec" =>
    LET s == v[2]  r == Decode(s) IN
    /\ WellFormed(r)
    \* letters are matched without regard to case
    /\ Decode(UpperS(s)) = r /\ Decode(LowerS(s)) = r
    \* a hemisphere designator S appended to a single piece without designator changes the sign and sets LATITUDE
    /\ (r[1] = "fin" /\ r[7] = NONE /\ NPieces(s) = 1 /\ ~HasHemi(s) /\ Canonical(s) = s /\ ~r[6]) =>
         LET q == Decode(s \o <<83>>) IN q[1] = "fin" /\ q[3] = r[3] /\ q[4] = r[4] /\ q[7] = LATITUDE /\ (r[8] \/ q[2] = ~r[2])
    \* surrounding white space is ignored
    /\ Decode(<<32, 9>> \o s \o <<10>>) = r

LLInv ==
  /\ v[1] = "ll" =>
       LET r == DecodeLatLon(v[2], v[3], v[4])  q == DecodeLatLon(v[3], v[2], ~v[4]) IN
       /\ r[1] \in {"throw", "ok", "edge"}
       /\ r = q                              \* swapping the strings and the longfirst flag gives the same position
       /\ (r[1] = "ok" => Above90(r[2]) = "no")
  /\ v[1] = "azi" =>
       LET r == DecodeAzimuth(v[2]) IN
       r[1] = "az" => r[3] < 180 \/ (r[3] = 180 /\ r[4] = 0)

EncInv ==
  /\ v[1] = "enc" =>
       LET neg == v[2]  D == v[3]  n == v[4]  d == v[5]  t == v[6]  prec == v[7]  ind == v[8]  sep == v[9]
           s == Encode(neg, D, n, t, prec, ind, sep, d)
           e == EncodedValue(neg, D, n, t, prec, ind, d)
           r == Decode(s)
           sh == Shape(s)
       IN \* closure and fidelity on the model: the decoder accepts the string and returns the encoded count
          /\ r[1] = "fin" /\ r[5] /\ r[3] = e[2] /\ r[4] = e[3] /\ r[7] = e[4] /\ r[2] = e[1]
          \* normalised: minutes and seconds below 60, azimuth in [0, 360] (360 only by rounding up)
          /\ sh.ok /\ sh.min < 60 /\ sh.sec < 60 /\ sh.last = t /\ sh.nfrac = prec
          /\ (ind = AZIMUTH => sh.deg <= 360 /\ ~sh.signed /\ sh.hemi = 0 /\ (sh.deg = 360 => n = 0 /\ D % 360 = 0))
          /\ (ind \in {LATITUDE, LONGITUDE} => ~sh.signed /\ HemiInd(sh.hemi) = ind /\ HemiNeg(sh.hemi) = neg)
          /\ (t >= MINUTE => sh.minw = 2) /\ (t = SECOND => sh.secw = 2)
          /\ sh.degw >= (CASE ind = NONE -> 1 [] ind = LATITUDE -> 2 [] OTHER -> 3)

NumInv ==
  /\ v[1] = "val" =>
       LET r == Val(v[2]) IN
       /\ r[1] \in {"num", "sp", "throw"}
       /\ Val(<<32>> \o v[2] \o <<9>>) = r
       /\ (r[1] = "num" /\ r[5] => r[3] >= 0 /\ r[3] < 1000000000)
  /\ v[1] = "str" =>
       \* the parser accepts what the formatter prints and returns the same number
       LET s == StrFixed(v[2], v[3], v[4], v[5])  r == Val(s) IN
       r[1] = "num" /\ (r[5] => r[2] = v[2] /\ (v[3] = 0 /\ v[4] = 0 => r[3] = 0))
  /\ v[1] = "pl" =>
       LET r == ParseLine(v[2], v[3], v[4]) IN
       /\ (r[1] => r[2] # <<>> /\ Trim(r[2]) = r[2] /\ Trim(r[3]) = r[3])
       /\ (~r[1] => r[2] = <<>> /\ r[3] = <<>>)

\* the other val<T> and the numeric overloads of DMS
OvlInv ==
  /\ v[1] = "vb" =>
       LET r == ValBool(v[2]) IN
       /\ r[1] \in {"bool", "throw", "any"}
       /\ ValBool(<<32>> \o v[2] \o <<9>>) = r /\ ValBool(UpperS(v[2])) = r         \* white space and case are ignored
  /\ v[1] = "vi" =>
       LET r == ValInt(v[2])  q == Val(v[2]) IN
       /\ r[1] \in {"int", "big", "throw"}
       /\ ValInt(<<32>> \o v[2] \o <<10>>) = r
       \* an integer is also a real number with the same value
       /\ (r[1] = "int" => q[1] = "num" /\ q[5] /\ q[2] = r[2] /\ q[4] >= 0 /\ q[3] * Pow10(q[4]) = r[3])
  /\ v[1] = "vs" => ValStr(ValStr(v[2])) = ValStr(v[2]) /\ ValStr(v[2]) = Trim(v[2])
  /\ v[1] = "dn" =>
       LET dneg == v[3]  D == v[4]  mneg == v[5]  M == v[6]  sneg == v[7]  S == v[8] IN
       \* the number triple and the string d:m:s name the same angle
       (mneg = dneg /\ sneg = dneg /\ M < 60 /\ S < 6000) =>
          LET a == DecodeNumSame(dneg, D, M, S)  r == Decode(ColonStr(dneg, D, M, S)) IN
          /\ r[1] = "fin" /\ r[5] /\ r[3] = a[2] /\ r[4] = a[3] /\ (r[8] \/ r[2] = dneg)
          /\ (D <= 4 => DecodeNum(dneg, D, mneg, M, sneg, S) = <<IF a[2] = 0 /\ a[3] = 0 THEN FALSE ELSE dneg, a[2], a[3]>>)
  /\ v[1] = "sp" =>
       \* the textbook split satisfies the law, and so does the one a carry produces
       LET neg == v[3]  D == v[4]  M == v[5]  S == v[6]  a == DecodeNumSame(neg, D, M, S) IN
       /\ SplitOK(a[1], a[2], a[3], D, M, S * UnitsPerCs, neg, neg, neg, 0)
       /\ (S = 0 /\ M > 0 => SplitOK(a[1], a[2], a[3], D, M - 1, UnitsPerMin, neg, neg, neg, 0))
       /\ ~SplitOK(a[1], a[2], a[3], D, M, S * UnitsPerCs + 2, neg, neg, neg, 1)

Commas(s) == [i \in 1..Len(s) |-> IF s[i] \in {32, 9} THEN 44 ELSE s[i]]
GcInv ==
  /\ v[1] = "gc" =>
       LET r == Reset(v[2], v[3], v[4]) IN
       /\ r[1] \in {"throw", "any", "nanpos", "geo", "mgrs", "utm"}
       /\ Reset(Commas(v[2]), v[3], v[4]) = r                   \* commas are spaces
       /\ (r[1] = "geo" => r[3][3] < 180 \/ (r[3][3] = 180 /\ r[3][4] = 0))
  /\ v[1] = "us" =>
       \* closure on the model: every admissible string is parsed back to the same zone and hemisphere and to a
       \* position within half a unit
       \A s \in UTMUPSStrQ(v[2], v[3], v[7], v[4], v[5], v[6]) :
         LET r == Reset(s, TRUE, FALSE)
             u == IF v[6] > 0 THEN 1 ELSE Pow10(-v[6])
         IN /\ r[1] = "utm" /\ r[2] = v[2] /\ r[3] = v[3]
            /\ v[6] <= 0 => /\ 4 * r[4][1] - v[4] * u <= 2 * u /\ v[4] * u - 4 * r[4][1] <= 2 * u
                            /\ 4 * r[5][1] - v[5] * u <= 2 * u /\ v[5] * u - 4 * r[5][1] <= 2 * u

GcvInv ==
  /\ v[1] = "gcv" => ViaOK(v[5], v[3], v[4])
  \* the spec's Reset does not reject a representation of the undefined position
  /\ v[1] = "gn" => Reset(InvRep(v[3]), TRUE, FALSE)[1] \in {"any", "nanpos"}
  /\ v[1] = "uso" =>
       \* every admissible string is a legal UTM/UPS string of the same zone in the convention asked for
       \A s \in UTMUPSStrOverride(v[2], v[3], v[8], v[7], v[4], v[5], v[6]) :
         LET r == Reset(s, TRUE, FALSE) IN r[1] = "utm" /\ r[2] = v[2] /\ r[3] = v[8]

Emit == v[1] \notin {"root", "chunk"} => PrintT(ToJson(v))
=============================================================================
