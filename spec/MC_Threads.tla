---------------------------- MODULE MC_Threads ----------------------------
(* All interleavings of NThreads threads for every configuration <<A, B,     *)
(* cold>> of two access programs.  Invariants NoRace and Progress.           *)
EXTENDS Threads, TLC, Json

CONSTANT PairMode,     \* "all": every unordered pair;  "cover": every program with itself and with three others
         HeaderAccessors \* the singleton accessors ("static const X& Name();") found in the library headers by the check script

NameSeq == << "geod_wgs84", "geod_obj", "geodex_wgs84", "geodex_obj", "geodexact_true", "line_pos", "lineex_pos", "rhumb_wgs84",
              "rhumb_series", "rhumb_exact", "rhumbline_pos", "tm_utm", "tm_obj", "tmx_utm", "ps_ups", "lcc_mercator", "lcc_obj",
              "albers_cea", "albers_obj", "geoc_wgs84", "local_obj", "ell_wgs84", "aux_series", "aux_exact", "daux_series",
              "elliptic_obj", "normgrav_wgs84", "harmonic_obj", "circle_obj", "geoid_ts", "utmups_fwd", "mgrs_fwd", "osgb_fwd",
              "dms_codec", "gridcodes", "azeq_obj", "gnomonic_obj", "cassini_obj", "dst_obj",
              "gravmodel_obj", "gravcircle_obj", "gravmodel_circle", "magmodel_obj", "magcircle_obj", "magmodel_circle",
              "geod_line_make", "geodex_line_make", "rhumb_line_make", "ps_obj", "tmx_obj", "ell_obj", "normgrav_obj", "geoid_ts_bilinear",
              "albers_aea_north", "albers_aea_south", "geoc_obj", "aux_axes_series", "aux_wgs84", "normgrav_grs80" >>
N == Len(NameSeq)
ASSUME {NameSeq[i] : i \in 1..N} = Names /\ N = Cardinality(Names)
\* the access-program table is well formed, and it covers the singletons of the public API: every accessor declared in
\* the headers is a static of the model and is first-touched by at least one program
Steps(n) == {Prog(n)[i] : i \in 1..Len(Prog(n))}
ASSUME \A n \in Names : \A s \in Steps(n) : IF s[1] = "s" THEN s[2] \in Statics ELSE s[1] \in {"r", "c"} /\ s[2] \in Objs
ASSUME HeaderAccessors \subseteq Statics
ASSUME \A x \in HeaderAccessors : \E n \in Names : <<"s", x>> \in Steps(n)

Pairs == IF PairMode = "all" THEN {<<i, j>> \in (1..N) \X (1..N) : i <= j}
         ELSE {<<i, j>> \in (1..N) \X (1..N) : i <= j /\ (j - i) \in {0, 1, 7, 13}}

Init == \E p \in Pairs, cold \in BOOLEAN : InitCfg(NameSeq[p[1]], NameSeq[p[2]], cold)

IsInit == /\ pc = [t \in Threads |-> 1] /\ sub = [t \in Threads |-> 0]
          /\ \A x \in Statics : owner[x] = 0 /\ stat[x] # "busy"
Emit == IsInit => PrintT(ToJson(<<"cfg", cfg[1], cfg[2], cfg[3]>>))
=============================================================================
