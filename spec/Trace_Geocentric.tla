-------------------------- MODULE Trace_Geocentric --------------------------
(* Validates observations of Geocentric / LocalCartesian (C07) against        *)
(* Geocentric.tla.  Lattice lines (gf gr lf lr) are compared with the exact   *)
(* integer model; law lines (fw rt rv lc) carry residuals that the driver     *)
(* reduced to integers (unit 1e-18 relative to the stated scale, "rel"; 1e-6, *)
(* "ppm"); every tolerance, guard and decision is here.                       *)
(* Object histories (Reset / lo / lq lines) are validated statefully: the     *)
(* variable obj holds the model state of the live LocalCartesian object       *)
(* (Geocentric!LcApply); a "Reset" line starts a new history.  Such lines     *)
(* appear only in traces that are sharded at "Reset" lines.                   *)
EXTENDS Geocentric, TraceKit

CONSTANTS
  TolRel,    \* 7 nm / a_WGS84  in 1e-18: "the error is bounded by 7 nm for the WGS84 ellipsoid" (Geocentric.hpp), err_in < 7 nm (doc page)
  TolOut,    \* 4 nm / a_WGS84: err_out = ds < 4 nm (doc page)
  TolH,      \* 8 nm / a_WGS84: err_h = |h1 - h0| / max(1, h0/a) < 8 nm (doc page)
  TolFR,     \* hypot(4, 8) nm / a_WGS84: position error of an outside point from err_out and err_h together
  TolLatNm,  \* 7 nm a / a_WGS84 for the lattice ellipsoids (a = 2^22 m), in nm, per unit of max(|P|, a)/a
  ShellPpm,  \* 5000 km / a_WGS84 in ppm: the shell in which the 7 nm bound is stated
  ExtSlack,  \* factor for the two Extreme ellipsoids for which the documentation makes no accuracy statement
  UflowLo, UflowHi   \* |P|/a in [2^-UflowLo, 2^-UflowHi] is excluded from the laws: see notes/C07.md (finding: Reverse is wrong there)
VARIABLES l, obj

Slack(fi) == IF fi \in Extreme THEN ExtSlack ELSE 1
Le(x, t) == x >= 0 /\ x <= t             \* residuals are non-negative; 2000000001 (NaN) and clipped values fail

(* ------------------------------ nanometre limbs -------------------------- *)
\* signed difference (nm, saturated at +-2e9) of limb number C = <<floor metres, nm>> above the integer k metres
Above(C, k) == IF C[1] >= 2000000000 THEN 2000000000
               ELSE IF C[1] - k > 1 THEN 2000000000
               ELSE IF C[1] - k < -2 THEN -2000000000
               ELSE (C[1] - k) * 1000000000 + C[2]
NearI(C, k, tol) == LET d == Above(C, k) IN d <= tol /\ -d <= tol
InRangeI(C, lo, hi, tol) == Above(C, lo) >= -tol /\ Above(C, hi) <= tol
MaxAbs3(P) == Max(Abs(P[1]), Max(Abs(P[2]), Abs(P[3])))
LatTol(m) == TolLatNm * (1 + m \div A)
Scaled(M) == [i \in 1..9 |-> 1000000000 * M[i]]

(* ------------------------------ lattice lines ---------------------------- *)
GfOK(r) ==
  LET P == Fwd(r.fi, r.lat, r.lon, r.h)  t == LatTol(MaxAbs3(P)) IN
  /\ NearI(r.X, P[1], t) /\ NearI(r.Y, P[2], t) /\ NearI(r.Z, P[3], t)
  /\ r.M = Scaled(Rot(r.lat, r.lon)) /\ r.mex /\ r.same /\ MFamilyOK(r.mv)

\* observed answer of a Reverse at the lattice point P against the admissible set a; R0 = frame the matrix is expressed in
RevAnsOK(r, P, a, R0, mscale, motol) ==
  LET t == LatTol(mscale) IN
  /\ r.lat >= a.latlo * 10000000 /\ r.lat <= a.lathi * 10000000
  /\ (a.sg = 2 \/ r.slat = a.sg)
  /\ r.lonex /\ \E lo \in a.lons : r.lon = lo * 10000000
  /\ InRangeI(r.h, a.hlo, a.hhi, t)
  /\ Le(r.e3, TolFR)                                           \* forward image of the answer is the point
  /\ IF a.exact
     THEN /\ r.latex /\ r.mex
          /\ r.M = Scaled(TMatMat(R0, Rot(r.lat \div 10000000, r.lon \div 10000000)))
     ELSE Le(r.mo, motol)
GrOK(r) ==
  LET P == <<r.X, r.Y, r.Z>> IN
  /\ OnAxes(r.X, r.Y, r.Z) /\ r.same /\ MFamilyOK(r.mv)
  /\ RevAnsOK(r, P, RevSpec(r.fi, r.X, r.Y, r.Z), Ident, MaxAbs3(P), TolRel)

\* Forward / Reverse of a LocalCartesian object whose model state is st = <<fi, lat0, lon0, h0>>
LfAt(r, st, lat, lon, h) ==
  LET loc == LcLocal(st)
      P == Fwd(st[1], lat, lon, h)
      p == LocalFwd(loc, P)
      t == 2 * LatTol(Max(MaxAbs3(P), MaxAbs3(loc.P0)))
  IN /\ NearI(r.x, p[1], t) /\ NearI(r.y, p[2], t) /\ NearI(r.z, p[3], t)
     /\ r.M = Scaled(TMatMat(loc.R0, Rot(lat, lon))) /\ r.mex /\ r.same /\ MFamilyOK(r.mv)
LrAt(r, st, x, y, z) ==
  LET loc == LcLocal(st)
      P == LocalToGeocentric(loc, <<x, y, z>>)
  IN /\ OnAxes(P[1], P[2], P[3]) /\ r.same /\ MFamilyOK(r.mv)
     /\ RevAnsOK(r, P, RevSpec(st[1], P[1], P[2], P[3]), loc.R0, Max(MaxAbs3(P), MaxAbs3(loc.P0)), 2 * TolRel)
LfOK(r) == LfAt(r, <<r.fi, r.lat0, r.lon0, r.h0>>, r.lat, r.lon, r.h) /\ r.org
LrOK(r) == LrAt(r, <<r.fi, r.lat0, r.lon0, r.h0>>, r.x, r.y, r.z)

\* one call of an M overload chosen by TLC (entry point x length)
MvOK(r) == r.ent \in MEntries /\ r.n \in MSizes /\ r.m[1] = r.n /\ MCallOK(r.m)

\* a Geocentric object built in one of the documented ways
GoOK(r) ==
  /\ r.form \in GeoForms /\ r.fi \in GeoFormFis(r.form)
  /\ IF r.form = "default" THEN ~r.init           \* named rule Uninit: nothing else is documented for such an object
     ELSE /\ r.init
          /\ r.eq /\ r.neq >= 8                   \* bit for bit the object Geocentric(a, f) built from the family's literals
          /\ r.ia = r.ea /\ r.if = r.ef            \* EquatorialRadius(), Flattening(): "the value used in the constructor"
          /\ (r.fi = WGS => r.iaq = WGS84A /\ r.iaex /\ r.irf = WGS84RF)

(* ------------------------------ CartConvert lines ------------------------ *)
\* a printed number: optional '-', digits, and - iff nd > 0 - a '.' followed by exactly nd digits (byte codes)
IsDigit(c) == c >= 48 /\ c <= 57
RECURSIVE IntOf(_, _, _, _)
IntOf(tok, i, j, acc) == IF i > j THEN acc ELSE IntOf(tok, i + 1, j, 10 * acc + (tok[i] - 48))
ParseNum(tok) ==
  LET neg == Len(tok) > 0 /\ tok[1] = 45
      s == IF neg THEN 2 ELSE 1
      dots == {i \in 1..Len(tok) : tok[i] = 46}
      d == IF dots = {} THEN Len(tok) + 1 ELSE CHOOSE i \in dots : \A j \in dots : i <= j
  IN [ok |-> /\ Cardinality(dots) <= 1 /\ d > s /\ d - s <= 10
             /\ (d - s = 1 \/ tok[s] # 48)                                  \* no leading zeros
             /\ \A i \in s..Len(tok) : i = d \/ IsDigit(tok[i])
             /\ (dots # {} => d < Len(tok)),
      neg |-> neg,
      ip |-> IF d > s /\ d - s <= 10 /\ (\A i \in s..(d - 1) : IsDigit(tok[i])) THEN IntOf(tok, s, d - 1, 0) ELSE -1,
      nd |-> IF dots = {} THEN 0 ELSE Len(tok) - d,
      frz |-> \A i \in (d + 1)..Len(tok) : tok[i] = 48]
\* the token prints the integer k with nd decimals, all zero: lattice values are exact to well below half a unit of the
\* last printed digit (documented error 7 nm; at most 6 decimals of a metre / 11 of a degree are printed).  Named rule
\* ZeroSignFree: "-0.000" is accepted for 0.
TokIs(tok, k, nd) ==
  LET p == ParseNum(tok) IN
  p.ok /\ p.nd = nd /\ p.frz /\ p.ip = Abs(k) /\ (k # 0 => p.neg = (k < 0))
ToolOK(r) ==
  LET W == ToolWant(r.mode, r.fi, r.w, r.o[1], r.o[2], r.o[3], r.a[1], r.a[2], r.a[3]) IN
  /\ r.mode \in ToolModes /\ r.status = 0 /\ r.has /\ Len(r.tok) = 3 /\ r.prec \in 0..6
  /\ (r.mode \in {"gr", "lr"} => ToolExactRev(r.mode, r.fi, r.o[1], r.o[2], r.o[3], r.a[1], r.a[2], r.a[3]))
  /\ \A i \in 1..3 : \E k \in W[i][2] : TokIs(r.tok[i], k, ToolDigits(W[i][1], r.prec))

(* ------------------------------ object histories ------------------------- *)
OpOf(r) == <<r.op, r.fi, r.a[1], r.a[2], r.a[3]>>
ZeroOf(r) == IF r.mode = "lat" THEN 0 ELSE <<0, 0, 0>>
IsObjLine(r) == r.e \in {"Reset", "lo", "lq"}
NextObj(st, r) == CASE r.e = "Reset" -> LcNone
                    [] r.e = "lo" -> LcApply(st, OpOf(r), ZeroOf(r))
                    [] OTHER -> st
\* a constructor, Reset, copy or assignment: afterwards the live object is, observation for observation and bit for bit,
\* the fresh object LocalCartesian(lat0, lon0, h0, earth) at the model's state (r.st is what the driver built the fresh
\* object from), and its inspectors return that state
LoOK(r, st) ==
  LET st2 == LcApply(st, OpOf(r), ZeroOf(r)) IN
  /\ r.mode \in {"lat", "rnd"} /\ LcEnabled(st, OpOf(r)) /\ r.op \notin {"fw", "rv"}
  /\ r.st = st2
  /\ r.eq /\ r.neq >= 12
  /\ r.ilat = st2[2] /\ r.ih = st2[4] /\ r.ilonr = 0       \* LongitudeOrigin(): the same meridian (its range is not documented)
  /\ r.ia = r.ea /\ r.if = r.ef
  /\ (st2[1] = WGS => r.iaq = WGS84A /\ r.iaex /\ r.irf = WGS84RF)
\* a lattice query on the live object
LqOK(r, st) ==
  /\ st # LcNone /\ r.mode = "lat" /\ r.st = st /\ r.eq /\ LcModelled(st)
  /\ IF r.op = "fw" THEN LfAt(r, st, r.a[1], r.a[2], r.a[3]) ELSE r.op = "rv" /\ LrAt(r, st, r.a[1], r.a[2], r.a[3])

(* ------------------------------ law lines -------------------------------- *)
\* Forward = closed form; M = orthonormal right-handed ENU frame; M optional; cross-class circle radius / height
FwOK(r) ==
  LET tol == TolRel * Slack(r.fi) IN
  /\ r.fin /\ r.msame /\ MFamilyOK(r.mv)
  /\ Le(r.dF, tol)
  /\ Le(r.mo, TolRel) /\ Le(r.mort, TolRel) /\ Le(r.mdet, TolRel)
  /\ Le(r.mup, 8 * tol)                    \* difference quotient over d = scale/4 of two forward values, each within tol
  /\ (r.dcr >= 0 => Le(r.dcr, tol) /\ Le(r.dch, tol))

\* Reverse o Forward, judged as on the documentation's error page
Principal2(r) == IF Class(r.fi) = "pro" THEN r.hm2 > 0 ELSE r.hm1 > 0
AwayFromCentre(r) == r.cen > 100000000 \/ 5 * r.cen >= 6 * r.sing      \* doc: not "within 50 km of the centre" (a e^2 = 42.7 km)
RtOK(r) ==
  LET s == Slack(r.fi) IN
  /\ r.fin /\ r.rng
  /\ (r.hq < 0 => Le(r.ein, TolRel * s))                                               \* err_in
  /\ Principal2(r) =>
       /\ (r.hq >= -ShellPpm /\ r.hq <= ShellPpm /\ AwayFromCentre(r) => Le(r.err, TolRel * s))   \* 7 nm within 5000 km
       /\ (r.hq >= 0 => Le(r.ds, TolOut * s) /\ Le(r.eh, TolH * s))                    \* err_out, err_h

\* Forward o Reverse for an arbitrary finite point
Underflow(r) == r.ex >= -UflowLo /\ r.ex <= -UflowHi
RvOK(r) ==
  LET cls == Class(r.fi)  s == Slack(r.fi)
      z0 == r.sz = 0   r0 == r.sx = 0 /\ r.sy = 0
      reg == RegimeOf(cls, r.ex, r.ev, z0, r0)
  IN
  /\ r.fin /\ r.rng /\ r.msame /\ MFamilyOK(r.mv)
  /\ (r.reg = "rand" \/ r.reg = reg)                                                   \* the box really is in its regime
  /\ Le(r.mo, TolRel) /\ Le(r.mort, TolRel) /\ Le(r.mdet, TolRel)                      \* M = ENU frame at the returned position
  /\ (r0 => r.lon0)                                                                    \* X = Y = 0 -> lon = 0
  /\ r.slat * r.sz >= 0                                                                \* never the wrong hemisphere
  /\ TRUE =>      \* (no exemption: the subnormal-intermediate zone is a recorded known finding, see known_findings.json)
       /\ Le(r.e3, (IF r.hneg THEN TolRel ELSE TolFR) * s)                             \* forward image = the point
       /\ r.hb >= -(TolH * s)                                                          \* h >= -(1-e^2) nu
       /\ (cls = "pro" => r.hb2 >= -(TolH * s))
       /\ (reg # "cutlocus" => r.lm >= -(TolH * s))                                    \* least |h| outside the singular set
       /\ (reg = "cutlocus" /\ cls = "obl" => r.slat = 1)                              \* Z = 0 with two solutions -> lat > 0
       /\ (cls = "obl" /\ z0 /\ reg = "outside" => r.slat = 0)
       /\ (cls # "obl" /\ z0 /\ ~r0 => r.slat = 0)

\* LocalCartesian: rigid motion with the ENU axes of the origin
LcOK(r) ==
  LET tol == 2 * TolRel * Slack(r.fi)           \* P and P0 are each within TolRel of the closed form
      toli == tol + TolFR * Slack(r.fi)         \* + one Geocentric Reverse
  IN
  /\ r.fin /\ r.rng /\ r.msame /\ r.org /\ MFamilyOK(r.mvf) /\ MFamilyOK(r.mvr)
  /\ Le(r.o0, tol) /\ Le(r.up, tol) /\ Le(r.ax, tol) /\ Le(r.rig, tol)
  /\ Le(r.inv1, toli) /\ Le(r.inv2, toli)
  /\ Le(r.mrel, 2 * TolRel) /\ Le(r.mrev, 2 * TolRel) /\ Le(r.mort, 2 * TolRel) /\ Le(r.mdet, 2 * TolRel)

Obligation(r) ==
  CASE r.e = "Reset" -> r.mode \in {"lat", "rnd"}
    [] r.e = "lo" -> LoOK(r, obj) [] r.e = "lq" -> LqOK(r, obj)
    [] r.e = "mv" -> MvOK(r) [] r.e = "go" -> GoOK(r) [] r.e = "tool" -> ToolOK(r)
    [] r.e = "gf" -> GfOK(r) [] r.e = "gr" -> GrOK(r) [] r.e = "lf" -> LfOK(r) [] r.e = "lr" -> LrOK(r)
    [] r.e = "fw" -> FwOK(r) [] r.e = "rt" -> RtOK(r) [] r.e = "rv" -> RvOK(r) [] r.e = "lc" -> LcOK(r)
    [] OTHER -> FALSE

Expected(r) ==
  CASE r.e = "lo" -> <<obj, LcApply(obj, OpOf(r), ZeroOf(r))>>
    [] r.e = "lq" -> obj
    [] r.e = "tool" -> ToolWant(r.mode, r.fi, r.w, r.o[1], r.o[2], r.o[3], r.a[1], r.a[2], r.a[3])
    [] r.e = "gf" -> Fwd(r.fi, r.lat, r.lon, r.h)
    [] r.e = "gr" -> RevSpec(r.fi, r.X, r.Y, r.Z)
    [] r.e = "lf" -> LocalFwd(LocalState(r.fi, r.lat0, r.lon0, r.h0), Fwd(r.fi, r.lat, r.lon, r.h))
    [] r.e = "lr" -> LET P == LocalToGeocentric(LocalState(r.fi, r.lat0, r.lon0, r.h0), <<r.x, r.y, r.z>>) IN RevSpec(r.fi, P[1], P[2], P[3])
    [] r.e = "rv" -> <<RegimeOf(Class(r.fi), r.ex, r.ev, r.sz = 0, r.sx = 0 /\ r.sy = 0), Underflow(r)>>
    [] OTHER -> <<>>

Init == l = 1 /\ obj = LcNone /\ KitInit
Next == /\ l <= NT
        /\ obj' = NextObj(obj, T[l])
        /\ Require(Obligation(T[l]), l, "geoc-" \o T[l].e, Expected(T[l]))
        /\ Consumed(l)
        /\ l' = l + 1
=============================================================================
