INIT Init
NEXT Next
CONSTANTS TolTrig = 2000 TolTan = 4000 TolAtan = 4000 TolTau = 16000
POSTCONDITION Summary
CHECK_DEADLOCK FALSE
