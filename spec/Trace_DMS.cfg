INIT Init
NEXT Next
CONSTANTS TolUlp = 4
POSTCONDITION Summary
CHECK_DEADLOCK FALSE
