---------------------------- MODULE Trace_Contract ----------------------------
(* Validates the outcome of every enumerated call / string / file fault (C13).  *)
EXTENDS Contract, TraceKit

VARIABLE l

EntryOf(name) == LET S == {i \in 1..Len(Entries) : Entries[i].n = name} IN IF S = {} THEN 0 ELSE CHOOSE i \in S : TRUE

Obligation(r) ==
  CASE r.e = "call" -> /\ r.known /\ EntryOf(r.n) # 0
                       /\ LET e == Entries[EntryOf(r.n)] IN r.nouts = e.o /\ CallOK(e, r.pos, r.v, r)
    \* a parser returns a value or throws the library's exception; nothing else
    [] r.e = "str" -> r.out \in {"ok", "GeographicErr"}
    \* a corrupted save is rejected with the library's exception or loads into a usable object
    [] r.e = "nn" -> r.out \in {"ok", "GeographicErr"} /\ r.usable
    \* the process died (signal, sanitizer report, time-out) while executing this vector
    [] r.e = "crash" -> FALSE
    [] OTHER -> FALSE

Law(r) == IF r.e = "call" THEN "contract-" \o r.n ELSE "contract-" \o r.e
Init == l = 1 /\ KitInit
Next == /\ l <= NT
        /\ Require(Obligation(T[l]), l, Law(T[l]), <<>>)
        /\ Consumed(l)
        /\ l' = l + 1
=============================================================================
