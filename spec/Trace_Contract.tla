---------------------------- MODULE Trace_Contract ----------------------------
(* Validates the outcome of every enumerated call / string / file fault (C13).  *)
EXTENDS Contract, TraceKit

VARIABLE l

EntryOf(name) == LET S == {i \in 1..Len(Entries) : Entries[i].n = name} IN IF S = {} THEN 0 ELSE CHOOSE i \in S : TRUE

Obligation(r) ==
  CASE r.e = "call" -> /\ r.known /\ EntryOf(r.n) # 0
                       /\ LET e == Entries[EntryOf(r.n)] IN r.nouts = e.o /\ CallOK(e, r.pos, r.v, r)
    \* a parser returns a value or throws the library's exception; nothing else
    [] r.e = "str" -> r.out \in {"ok", "GeographicErr"}
    \* a corrupted save is rejected with the library's exception or loads into a usable object
    [] r.e = "nn" -> r.out \in {"ok", "GeographicErr"} /\ r.usable /\ (r.fault = "none" => r.out = "ok")
    \* a malformed model file is rejected with the library's exception (or an allocation failure); if it is accepted the
    \* model must be usable (evaluation returns; non-finite values are possible when the file holds non-finite coefficients)
    [] r.e = "mfile" -> r.out \in {"ok", "GeographicErr", "bad_alloc"} /\ (r.fault = "none" => r.out = "ok" /\ r.finite)
    [] r.e = "gfile" -> r.out \in {"ok", "GeographicErr", "bad_alloc"} /\ (r.fault = "none" => r.out = "ok" /\ r.finite)
    \* the allocator of the sanitizer build refused a huge request: counts as an allocation failure
    [] r.e = "crash" /\ r.what = "alloc" -> TRUE
    \* the process died (signal, sanitizer report, time-out) while executing this vector
    [] r.e = "crash" /\ r.what # "alloc" -> FALSE
    [] r.e = "skip" -> TRUE
    [] OTHER -> FALSE

Law(r) == IF r.e = "call" THEN "contract-" \o r.n ELSE "contract-" \o r.e
Init == l = 1 /\ KitInit
Next == /\ l <= NT
        /\ Require(Obligation(T[l]), l, Law(T[l]), <<>>)
        /\ Consumed(l)
        /\ l' = l + 1
=============================================================================
