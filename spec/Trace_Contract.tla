---------------------------- MODULE Trace_Contract ----------------------------
(* Validates the outcome of every enumerated call / string / file fault (C13).  *)
EXTENDS Contract, TraceKit

VARIABLE l

EntryOf(name) == LET S == {i \in 1..Len(Entries) : Entries[i].n = name} IN IF S = {} THEN 0 ELSE CHOOSE i \in S : TRUE

Obligation(r) ==
  CASE r.e = "call" -> /\ r.known /\ EntryOf(r.n) # 0
                       /\ LET e == Entries[EntryOf(r.n)] IN r.nouts = e.o /\ CallOK(e, r.pos, r.v, r)
    \* a parser returns a value or throws the library's exception; nothing else
    \* and when it throws, the arguments it uses for return values are exactly as they were (unt: every pre-filled output
    \* still holds its value, in both pre-fill phases; same: both phases end the same way)
    [] r.e = "str" -> r.out \in {"ok", "GeographicErr"} /\ (r.out # "ok" => r.unt = 1 /\ r.same)
    \* a corrupted save is rejected with the library's exception or loads into a usable object
    \* usable: Search accepts the point array the tree was built from ("GeographicErr if pts has a different size", so a
    \* tree that answers has np = npts) and every index it returns is an index of that array; the unfaulted save returns
    \* 3 and npts neighbours for each of the 6 query points
    [] r.e = "nn" -> /\ r.out \in {"ok", "GeographicErr"}
                     /\ (r.out = "ok" => r.np = r.npts /\ r.nq = 12 /\ (r.nret > 0 => r.imin >= 0 /\ r.imax < r.npts))
                     /\ (r.fault = "none" => r.out = "ok" /\ r.nret = 6 * 3 + 6 * r.npts)
                     \* "If an exception is thrown, the state of the NearestNeighbor is unchanged": the object that refused the
                     \* save still answers every query as the valid tree it held does (kept)
                     /\ (r.np < 0 => r.kept)
    \* Initialize on an initialised object with a failure injected at a chosen point (fk = "dist": the k-th distance evaluation
    \* throws GeographicErr; "alloc": the k-th allocation throws bad_alloc; k = 0 or beyond the last call/allocation: no failure;
    \* "none": bucket outside the documented [0, 10]).  ncall / nalloc: what the unfaulted Initialize used (measured by the driver).
    \* A failure must surface as the injected exception with the object unchanged (NumPoints, the text save, 12 searches on the
    \* old points: kept); without failure the object must equal a freshly constructed one on the new points (fresh).
    [] r.e = "nninit" ->
         LET inj == CASE r.fk = "dist" -> r.k >= 1 /\ r.k <= r.ncall
                      [] r.fk = "alloc" -> r.k >= 1 /\ r.k <= r.nalloc
                      [] OTHER -> FALSE
             badb == r.bucket < 0 \/ r.bucket > 10
         IN /\ r.out \in {"ok", "GeographicErr", "bad_alloc"}
            /\ (badb => r.out = "GeographicErr")
            /\ (~badb /\ ~inj => r.out = "ok")
            /\ (~badb /\ inj => r.out = (IF r.fk = "dist" THEN "GeographicErr" ELSE "bad_alloc"))
            /\ (r.out = "ok" => r.fresh)
            /\ (r.out # "ok" => r.kept)
    \* a malformed model file is rejected with the library's exception (or an allocation failure); if it is accepted the
    \* model must be usable (evaluation returns; non-finite values are possible when the file holds non-finite coefficients)
    \* A coefficient set with N = M = -1 and no coefficients is well formed ("N >= -1", "N >= M >= -1", (M+1)(2N-M+2)/2 = 0
    \* elements): such a file must load and evaluate - any set of a magnetic model, the correction set (second set) of a gravity model.
    [] r.e = "mfile" -> /\ r.out \in {"ok", "GeographicErr", "bad_alloc"}
                        /\ (r.fault = "none" => r.out = "ok" /\ r.finite)
                        /\ (r.fault = "empty" /\ (r.kind \in {"mag", "mag10", "mag20", "mag21"} \/ r.param = 1) => r.out = "ok" /\ r.finite)
                        /\ (r.out = "ok" => r.nev = (IF r.kind \in {"grv", "grv0"} THEN 6 ELSE 13))
    [] r.e = "gfile" -> r.out \in {"ok", "GeographicErr", "bad_alloc"} /\ (r.fault = "none" => r.out = "ok" /\ r.finite)
    \* the allocator of the sanitizer build refused a huge request: counts as an allocation failure
    [] r.e = "crash" /\ r.what = "alloc" -> TRUE
    \* the process died (signal, sanitizer report, time-out) while executing this vector
    [] r.e = "crash" /\ r.what # "alloc" -> FALSE
    [] r.e = "skip" -> TRUE
    [] OTHER -> FALSE

Law(r) == IF r.e = "call" THEN "contract-" \o r.n ELSE "contract-" \o r.e
Init == l = 1 /\ KitInit
Next == /\ l <= NT
        /\ Require(Obligation(T[l]), l, Law(T[l]), <<>>)
        /\ Consumed(l)
        /\ l' = l + 1
=============================================================================
